/-
  Helper lemmas for C02 (feeLoop_complete): when a ≤k-subset of the eligible coins covers the
  outputs, the largest fee the loop can ask for and room for a non-dust change, the automatic path
  succeeds.
-/
import MW.Lemmas.FeeLoop
namespace MW.Lemmas.FeeComplete
open MW MW.Model.Select MW.Model.Fee MW.Lemmas.SelectTopK MW.Lemmas.SelectGreedy MW.Lemmas.SelectPipeline MW.Lemmas.FeeLoop

theorem findEligible_reach (env : Env) (a : Nat) (S : List Coin) (hS : SubMultiset S env.coins)
    (hlen : S.length ≤ env.k) (hsum : sumAmt S ≥ a) (ha : a ≠ 0) (hmax : sumAmt env.coins ≤ maxAmount) :
    ∃ f, findEligible env a = .ok f ∧ f.found ≥ a := by
  have inv : Inv (submitAll (newSel env.k a) env.coins) env.coins := by
    have := inv_submitAll (newSel env.k a) [] env.coins (inv_init env.k a)
    simpa using this
  have hitems : sumAmt (submitAll (newSel env.k a) env.coins).items ≤ maxAmount :=
    Nat.le_trans (items_sub _ _ inv).sum_le hmax
  obtain ⟨r, hr⟩ := optOutputs_ok a _ hitems
  have hp : pipeline env.k a env.coins = .ok (r.sel, r.sum,
      ((submitAll (newSel env.k a) env.coins).items.length == env.k) &&
        ((submitAll (newSel env.k a) env.coins).items.length == r.sel.length)) := by
    unfold pipeline
    simp only []
    rw [hr]
  obtain ⟨_, _, _, hreach⟩ := pipeline_facts _ _ _ _ _ _ hp
  have := hreach (items_reach env.k a env.coins S hS hlen hsum)
  have hfe : findEligible env a = .ok ⟨r.sel, (r.sel.head?.map (·.addr)).getD "", r.sum,
      ((submitAll (newSel env.k a) env.coins).items.length == env.k) &&
        ((submitAll (newSel env.k a) env.coins).items.length == r.sel.length)⟩ := by
    unfold findEligible
    rw [if_neg ha, hp]
  exact ⟨_, hfe, this⟩

/-- "every amount up to `top` can be found" -/
def Reach (env : Env) (top : Nat) : Prop := ∀ a, a ≤ top → a ≠ 0 → ∃ f, findEligible env a = .ok f ∧ f.found ≥ a

theorem addAmt_of_le (a b : Nat) (h : a + b ≤ maxAmount) : addAmt a b = .ok (a + b) := by
  unfold addAmt
  rw [if_neg (by omega)]

theorem inner_succeeds (env : Env) (target outSum nOut : Nat) (chgAddr : String) (ht : 0 < target)
    (hr : Reach env (target + outSum + minRelay)) (hm : target + outSum + minRelay ≤ maxAmount) :
    ∃ r, innerLoop env target outSum nOut chgAddr 2 0 = .ok r := by
  have hmr : minRelay = 10000 := rfl
  unfold innerLoop
  rw [addAmt_of_le _ _ (by omega)]
  simp only []
  rw [addAmt_of_le _ _ (by omega)]
  simp only []
  obtain ⟨f, hf, hfound⟩ := hr (target + outSum + 0) (by omega) (by omega)
  rw [hf]
  simp only []
  rw [if_neg (by omega)]
  by_cases hz : f.found - (target + outSum) ≠ 0
  · rw [if_pos hz]
    by_cases hd : f.found - (target + outSum) < minRelay
    · rw [if_pos hd]
      -- retry with adj = MinRelayTxFee
      unfold innerLoop
      rw [addAmt_of_le _ _ (by omega)]
      simp only []
      rw [addAmt_of_le _ _ (by omega)]
      simp only []
      obtain ⟨f2, hf2, hfound2⟩ := hr (target + outSum + minRelay) (by omega) (by omega)
      rw [hf2]
      simp only []
      rw [if_neg (by omega)]
      rw [if_pos (by omega)]
      rw [if_neg (by omega)]
      exact ⟨_, rfl⟩
    · rw [if_neg hd]; exact ⟨_, rfl⟩
  · rw [if_neg hz]; exact ⟨_, rfl⟩

theorem outer_succeeds (env : Env) (outSum nOut payloadLen : Nat) (chgAddr : String) (F : Nat)
    (hF : feeBound env.k nOut payloadLen ≤ F)
    (hr : Reach env (F + outSum + minRelay)) (hm : F + outSum + minRelay ≤ maxAmount)
    (hres : ∀ c, env.resolvable c = true) :
    ∀ (fuel target : Nat), 0 < target → target ≤ F → feeBound env.k nOut payloadLen + 1 - target < fuel →
      ∃ res, outerLoop env outSum nOut payloadLen chgAddr fuel target = .ok res := by
  intro fuel
  induction fuel with
  | zero => intro target _ _ h; omega
  | succ f ih =>
    intro target ht htF hf
    have hr' : Reach env (target + outSum + minRelay) := fun a ha hne => hr a (by omega) hne
    obtain ⟨r, hi⟩ := inner_succeeds env target outSum nOut chgAddr ht hr' (by omega)
    obtain ⟨sel, chg, len⟩ := r
    have io := (innerLoop_spec env target outSum nOut chgAddr).1 _ hi
    simp only [] at io
    unfold outerLoop
    rw [hi]
    simp only []
    have hany : sel.any (fun c => !env.resolvable c) = false := by
      rw [List.any_eq_false]
      intro c _
      simp [hres c]
    rw [hany]
    simp only [Bool.false_eq_true, if_false]
    by_cases hge : target ≥ relayFee (estSize sel.length len + payloadLen)
    · rw [if_pos hge]; exact ⟨_, rfl⟩
    · rw [if_neg hge]
      have hb : relayFee (estSize sel.length len + payloadLen) ≤ feeBound env.k nOut payloadLen := by
        apply required_le_bound _ _ _ _ _ io.lenSel
        rw [io.len]; split <;> omega
      exact ih _ (by omega) (by omega) (by omega)

theorem findEligible_total (env : Env) (a : Nat) (ha : a ≠ 0) (hmax : sumAmt env.coins ≤ maxAmount) :
    ∃ f, findEligible env a = .ok f ∧
      pipeline env.k a env.coins = .ok (f.sel, f.found, f.overfull) := by
  have inv : Inv (submitAll (newSel env.k a) env.coins) env.coins := by
    have := inv_submitAll (newSel env.k a) [] env.coins (inv_init env.k a)
    simpa using this
  have hitems : sumAmt (submitAll (newSel env.k a) env.coins).items ≤ maxAmount :=
    Nat.le_trans (items_sub _ _ inv).sum_le hmax
  obtain ⟨r, hr⟩ := optOutputs_ok a _ hitems
  have hp : pipeline env.k a env.coins = .ok (r.sel, r.sum,
      ((submitAll (newSel env.k a) env.coins).items.length == env.k) &&
        ((submitAll (newSel env.k a) env.coins).items.length == r.sel.length)) := by
    unfold pipeline
    simp only []
    rw [hr]
  have hfe : findEligible env a = .ok ⟨r.sel, (r.sel.head?.map (·.addr)).getD "", r.sum,
      ((submitAll (newSel env.k a) env.coins).items.length == env.k) &&
        ((submitAll (newSel env.k a) env.coins).items.length == r.sel.length)⟩ := by
    unfold findEligible
    rw [if_neg ha, hp]
  exact ⟨_, hfe, hp⟩

/-- when no ≤k-subset of the eligible coins covers outputs + target fee, the selection step fails with
    InsufficientFunds or OverfullUtxo -/
theorem inner_insufficient (env : Env) (target outSum nOut : Nat) (chgAddr : String) (hk : 0 < env.k)
    (ht : 0 < target) (hm : target + outSum ≤ maxAmount) (hmax : sumAmt env.coins ≤ maxAmount)
    (hno : ¬ ∃ S, SubMultiset S env.coins ∧ S.length ≤ env.k ∧ sumAmt S ≥ target + outSum) :
    innerLoop env target outSum nOut chgAddr 2 0 = .error .insufficient ∨
    innerLoop env target outSum nOut chgAddr 2 0 = .error .overfull := by
  unfold innerLoop
  rw [addAmt_of_le _ _ hm]
  simp only []
  rw [addAmt_of_le _ _ (by omega)]
  simp only []
  obtain ⟨f, hf, hp⟩ := findEligible_total env (target + outSum + 0) (by omega) hmax
  rw [hf]
  simp only []
  have hlt : f.found < target + outSum + 0 := by
    apply Nat.lt_of_not_le
    intro hge
    apply hno
    -- what the pipeline reports was reached by a ≤k-subset
    obtain ⟨hsub, hfound, _, _⟩ := pipeline_facts _ _ _ _ _ _ hp
    have inv : Inv (submitAll (newSel env.k (target + outSum + 0)) env.coins) env.coins := by
      have := inv_submitAll (newSel env.k (target + outSum + 0)) [] env.coins (inv_init env.k _)
      simpa using this
    have hkk : (submitAll (newSel env.k (target + outSum + 0)) env.coins).k = env.k := by rw [submitAll_k]; rfl
    have hreq : (submitAll (newSel env.k (target + outSum + 0)) env.coins).req = target + outSum + 0 := by
      rw [submitAll_req]; rfl
    cases hg : (submitAll (newSel env.k (target + outSum + 0)) env.coins).guard with
    | some g =>
      obtain ⟨hgm, hgr, _⟩ := inv.guardSome g hg
      rw [hreq] at hgr
      refine ⟨[g], SubMultiset.singleton hgm, by simp; omega, ?_⟩
      simp [sumAmt]; omega
    | none =>
      unfold pipeline at hp
      simp only [] at hp
      cases ho : optOutputs (target + outSum + 0) (submitAll (newSel env.k (target + outSum + 0)) env.coins).items with
      | error e => rw [ho] at hp; simp at hp
      | ok r =>
        rw [ho] at hp
        simp only [Except.ok.injEq, Prod.mk.injEq] at hp
        obtain ⟨h1, h2, _⟩ := hp
        obtain ⟨hs, _, _⟩ := optOutputs_sound _ _ _ ho
        refine ⟨f.sel, hsub, ?_, by omega⟩
        have hl := hs.length_le
        rw [h1] at hl
        have : (submitAll (newSel env.k (target + outSum + 0)) env.coins).items.length ≤ env.k := by
          unfold Sel.items
          rw [hg]
          have := inv.size_le
          rw [hkk] at this
          simpa using this
        omega
  rw [if_pos hlt]
  cases f.overfull <;> simp

end MW.Lemmas.FeeComplete
