/-
  C06 deepening (round 3), part 6: the PENDING buckets under the quiet-point rule.  Histories of
  MW.Spec.Persist (`Ev`) extended by unconfirmed transactions: with every crash at a quiet point and every
  delivered transaction new to both runs' volatile seen-sets (assumption A3 of notes/C06.md), the crashing run
  and the run that never stops have the SAME store after every event — all fifteen buckets, the pending ones
  included — and volatile states that differ only in what a crash may lose.
-/
import MW.Lemmas.PersistCrash
namespace MW.Lemmas.Deepen3
open MW MW.Model.Ledger MW.Model.Persist MW.Spec.Persist MW.Lemmas.PersistOp MW.Lemmas.PersistFault
  MW.Lemmas.PersistCrash

inductive EvP
  | ev (e : Ev)
  | recvTx (tx : Tx)       -- an unconfirmed transaction reaches the follower (below the sync-height gate)

def stepP (n : Nat) (crashing : Bool) (s : Sys) : EvP → Sys
  | .ev e => stepEv n crashing s e
  | .recvTx tx => let r := Model.Persist.recvTx s.env n n none tx s.P s.V; { s with P := r.P, V := r.V }

def runP (n : Nat) (crashing : Bool) (s : Sys) (evs : List EvP) : Sys := evs.foldl (stepP n crashing) s

/-- the side conditions along the two runs: every crash at a quiet point of the crashing run; every delivered
    unconfirmed transaction in neither run's volatile seen-set -/
def okP (n : Nat) : Sys → Sys → List EvP → Bool
  | _, _, [] => true
  | s1, s2, .ev .crash :: es => quiet s1 && okP n (stepP n true s1 (.ev .crash)) (stepP n false s2 (.ev .crash)) es
  | s1, s2, .recvTx tx :: es =>
    !s1.V.led.mempool.contains tx.id && !s2.V.led.mempool.contains tx.id &&
      okP n (stepP n true s1 (.recvTx tx)) (stepP n false s2 (.recvTx tx)) es
  | s1, s2, e :: es => okP n (stepP n true s1 e) (stepP n false s2 e) es

/-- the unconfirmed path never touches the tip copy or the key cache -/
theorem recvTx_frame (env : Model.Persist.Env) (nR nW : Nat) (tx : Tx) (P : PStore) (V : PVol) :
    (Model.Persist.recvTx env nR nW none tx P V).V.led.best = V.led.best ∧
    (Model.Persist.recvTx env nR nW none tx P V).V.keys = V.keys := by
  unfold Model.Persist.recvTx
  simp only [Bool.false_eq_true, if_false]
  by_cases hm : V.led.mempool.contains tx.id = true
  · rw [if_pos hm]; exact ⟨rfl, rfl⟩
  · rw [if_neg hm]
    cases hf : filterTxRel (ctxOf env V) P.led tx false [] (readyWallets P.led (ctxOf env V).wallets) with
    | error e => exact ⟨rfl, rfl⟩
    | ok o =>
      cases o with
      | none => exact ⟨rfl, rfl⟩
      | some tr =>
        simp only [Option.map]
        rw [run_single_none nW _ (opAddUnmined nW tr) rfl P V]
        cases ha : addRelevantUnmined P.led tr with
        | error e => simp [opAddUnmined, ha]
        | ok s' => simp [opAddUnmined, ha]

/-- the same as `MW.Props.C06.recvTx_fresh_congr` (proved here for the lemma library): a transaction in neither
    seen-set is handled identically from VEq volatile states -/
theorem recvTx_congr (env : Model.Persist.Env) (nR nW : Nat) (tx : Tx) (P : PStore) (V1 V2 : PVol) (h : VEq V1 V2)
    (h1 : V1.led.mempool.contains tx.id = false) (h2 : V2.led.mempool.contains tx.id = false) :
    (Model.Persist.recvTx env nR nW none tx P V1).P = (Model.Persist.recvTx env nR nW none tx P V2).P := by
  unfold Model.Persist.recvTx
  have hc : ctxOf env V1 = ctxOf env V2 := by unfold ctxOf; rw [h.2]
  simp only [h1, h2, hc]
  cases hf : filterTxRel (ctxOf env V2) P.led tx false [] (readyWallets P.led (ctxOf env V2).wallets) with
  | error e => simp
  | ok o =>
    cases o with
    | none => simp
    | some tr =>
      simp only [Option.map]
      rw [run_single_none nW _ (opAddUnmined nW tr) rfl P V1, run_single_none nW _ (opAddUnmined nW tr) rfl P V2]
      cases ha : addRelevantUnmined P.led tr with
      | error e => simp [opAddUnmined, ha]
      | ok s' => simp [opAddUnmined, ha]

theorem stepP_rel (n : Nat) (e : EvP) (s1 s2 : Sys) (hr : CrashRel s1 s2)
    (hq : e = .ev .crash → quiet s1 = true)
    (hf : ∀ tx, e = .recvTx tx → s1.V.led.mempool.contains tx.id = false ∧ s2.V.led.mempool.contains tx.id = false) :
    CrashRel (stepP n true s1 e) (stepP n false s2 e) := by
  cases e with
  | ev e => exact step_rel n e s1 s2 (fun h => hq (by rw [h])) hr
  | recvTx tx =>
    obtain ⟨he, hp, hv⟩ := hr
    obtain ⟨f1, f2⟩ := hf tx rfl
    simp only [stepP]
    rw [← he, ← hp]
    refine ⟨rfl, recvTx_congr s1.env n n tx s1.P s1.V s2.V hv f1 f2, ?_, ?_⟩
    · rw [(recvTx_frame s1.env n n tx s1.P s1.V).1, (recvTx_frame s1.env n n tx s1.P s2.V).1]; exact hv.1
    · rw [(recvTx_frame s1.env n n tx s1.P s1.V).2, (recvTx_frame s1.env n n tx s1.P s2.V).2]; exact hv.2

/-- CRASH_EQUIV INCLUDING THE PENDING BUCKETS (quiet-point rule): same store — every bucket — after every event -/
theorem runP_rel (n : Nat) : ∀ (evs : List EvP) (s1 s2 : Sys), okP n s1 s2 evs = true → CrashRel s1 s2 →
    CrashRel (runP n true s1 evs) (runP n false s2 evs) := by
  intro evs
  induction evs with
  | nil => intro s1 s2 _ hr; exact hr
  | cons e es ih =>
    intro s1 s2 hok hr
    unfold runP
    simp only [List.foldl]
    cases e with
    | recvTx tx =>
      simp only [okP, Bool.and_eq_true, Bool.not_eq_true'] at hok
      exact ih _ _ hok.2 (stepP_rel n (.recvTx tx) s1 s2 hr (fun h => by cases h)
        (fun tx' h => by cases h; exact ⟨hok.1.1, hok.1.2⟩))
    | ev e =>
      cases e with
      | crash =>
        simp only [okP, Bool.and_eq_true] at hok
        exact ih _ _ hok.2 (stepP_rel n (.ev .crash) s1 s2 hr (fun _ => hok.1) (fun tx h => by cases h))
      | node nd => exact ih _ _ hok (stepP_rel n (.ev (.node nd)) s1 s2 hr (fun h => by cases h) (fun tx h => by cases h))
      | block b => exact ih _ _ hok (stepP_rel n (.ev (.block b)) s1 s2 hr (fun h => by cases h) (fun tx h => by cases h))
      | create w => exact ih _ _ hok (stepP_rel n (.ev (.create w)) s1 s2 hr (fun h => by cases h) (fun tx h => by cases h))
      | newAddr w stk => exact ih _ _ hok (stepP_rel n (.ev (.newAddr w stk)) s1 s2 hr (fun h => by cases h) (fun tx h => by cases h))
      | removeMark w => exact ih _ _ hok (stepP_rel n (.ev (.removeMark w)) s1 s2 hr (fun h => by cases h) (fun tx h => by cases h))

end MW.Lemmas.Deepen3
