/-
  C09 history-level refinement, model side, part 3: DISCONNECTING THE TIP BLOCK.

  `rollback_phase` (PendHistRollback) describes the per-transaction loop of Rollback: the recorded non-coinbase
  transactions of the block are pending again.  Here: the final coinbase purge (`purgeFold_purged`) drops exactly
  what `Spec.Pending.settle c [b]` drops (`Lost`), hence `disconnect_step`.
-/
import MW.Lemmas.PendHistRollback
import MW.Lemmas.PendHistPurge
import MW.Lemmas.PendHistSpec
namespace MW.Lemmas.PendHist
open MW MW.Model.Ledger MW.Spec.Pending MW.Lemmas.LedgerPending

theorem orphanedBy_single (b : Block) (t : Tx) : orphanedBy [b] t = true ↔
    ∃ u ∈ b.txs, u.cb = true ∧ ∃ i ∈ t.ins, i.tx = u.id := by
  unfold orphanedBy
  simp only [List.any_cons, List.any_nil, Bool.or_false, List.any_eq_true, Bool.and_eq_true, decide_eq_true_eq]

/-- the purge at the end of Rollback, set level: `C` = the candidates (pending before ++ un-confirmed), `rem` = the
    removed coinbase credits.  Hypotheses: the candidates are consistent with the shorter chain; a candidate
    spends a coinbase output of the block only if that output is among `rem` (owned, i.e. with a credit:
    the FOREIGN-COINBASE restriction of the compared domain); conversely `rem` only holds coinbase outputs of
    the block. -/
theorem purge_final {rank : TxId → Nat} {own : Own} {s1 : Store} {C : List Tx} {c : List Block} {b : Block}
    {rem : List (TxId × Nat)}
    (hrel : PendRel rank s1 C) (hcons : Consistent c C) (hidx : IdxOK C)
    (hrem1 : ∀ op ∈ rem, ∃ u ∈ b.txs, u.cb = true ∧ op.1 = u.id)
    (hrem2 : ∀ t ∈ C, ∀ i ∈ t.ins, ∀ u ∈ b.txs, u.cb = true → i.tx = u.id → (i.tx, i.idx) ∈ rem) :
    PendRel rank (rem.foldl (purgeSpenders own) s1) (settle c [b] C) := by
  obtain ⟨hP, hwf⟩ := purgeFold_purged rank own rem s1 hrel.wf
  have hsame : ∀ {x x' : Tx}, x ∈ C → AMap.get (rem.foldl (purgeSpenders own) s1).pending x.id = some x' → x' = x := by
    intro x x' hx hg
    have h1 := hP.step.sub.pending_some hg
    obtain ⟨h2, h3⟩ := (hrel.ids _ _).1 h1
    exact eq_of_id hrel.nodup h2 hx h3
  have hlost : ∀ x, Lost c [b] C x → Gone (rem.foldl (purgeSpenders own) s1) x := by
    intro x hx
    induction hx with
    | @base x hxC ha =>
      obtain ⟨h1, h2⟩ := hcons x hxC
      unfold alive0 at ha
      rw [h1, h2] at ha
      have horph : orphanedBy [b] x = true := by simpa using ha
      obtain ⟨u, hu, hucb, i, hi, hid⟩ := (orphanedBy_single b x).1 horph
      have hx1 := hrel.pending_of_mem hxC
      exact hP.must _ (hrem2 x hxC i hi u hu hucb hid) x (hrel.wf.complete _ _ hx1 i hi) hx1
    | @step x p i hxC hi hpC hpid _ _ ih =>
      have hx1 := hrel.pending_of_mem hxC
      have hp1 := hrel.pending_of_mem hpC
      have hedge : Edge s1 p x := ⟨i.idx, hidx x hxC i hi p hpC hpid, by rw [hpid]; exact hrel.wf.complete _ _ hx1 i hi, hx1⟩
      exact hP.step.closed p x hp1 ih hedge
  have honly : ∀ t, t ∈ C → Gone (rem.foldl (purgeSpenders own) s1) t → Lost c [b] C t := by
    intro t htC hg
    obtain ⟨op, hop, r, hl, hr, hd⟩ := hP.only t (hrel.pending_of_mem htC) hg
    obtain ⟨u, hu, hucb, hopu⟩ := hrem1 op hop
    have hrC := hrel.mem_of_pending hr
    obtain ⟨r', hr', j, hj, hjop⟩ := hrel.wf.sound _ _ hl
    rw [hr] at hr'; cases hr'
    have hrlost : Lost c [b] C r := by
      refine Lost.base hrC ?_
      unfold alive0
      rw [(orphanedBy_single b r).2 ⟨u, hu, hucb, j, hj, by rw [← hopu, ← hjop]⟩]
      simp
    have hall : ∀ d, Desc s1 r d → Lost c [b] C d ∧ d ∈ C := by
      intro d hd
      induction hd with
      | root => exact ⟨hrlost, hrC⟩
      | @step d e _ he ih =>
        obtain ⟨ihl, ihC⟩ := ih
        obtain ⟨k, _, hl', he0⟩ := he
        have heC := hrel.mem_of_pending he0
        obtain ⟨e', he', inp, hinp, hop'⟩ := hrel.wf.sound _ _ hl'
        rw [he0] at he'; cases he'
        have e1 : inp.tx = d.id := (Prod.mk.inj hop').1
        exact ⟨Lost.step inp heC hinp ihC e1.symm (by rw [e1]; exact (hcons d ihC).1) ihl, heC⟩
    exact (hall t hd).1
  refine ⟨hwf, ?_, settle_nodup c [b] C hrel.nodup⟩
  intro id t
  constructor
  · intro hg
    have hid := hwf.key_id _ _ hg
    have htC := hrel.mem_of_pending (hP.step.sub.pending_some hg)
    refine ⟨(mem_settle _ _ _ hrel.nodup t).2 ⟨htC, fun hl => ?_⟩, hid⟩
    have := hlost t hl
    unfold Gone at this; rw [hid, hg] at this; cases this
  · rintro ⟨hm, hid⟩
    obtain ⟨htC, hnl⟩ := (mem_settle _ _ _ hrel.nodup t).1 hm
    subst hid
    cases hg : AMap.get (rem.foldl (purgeSpenders own) s1).pending t.id with
    | none => exact absurd (honly t htC hg) hnl
    | some t' => rw [hsame htC hg]

/-- DOMAIN of a disconnect step for the tip block `b` (wallet chain `c ++ [b]`), with `ids` = the recorded
    (relevant) transactions of the block in the store -/
structure DiscOK (e : Env) (s : Store) (c : List Block) (b : Block) (P : List Tx) (ids : List TxId) : Prop where
  /-- block ids are distinct (hash-linked chain) -/
  blk : ∀ x ∈ c, x.id ≠ b.id
  bnd : (b.txs.map (·.id)).Nodup
  /-- the recorded transactions are the relevant ones -/
  rel : ∀ t ∈ b.txs, t.cb = false → (t.id ∈ ids ↔ relevant e t = true)
  /-- a transaction of the block is not on the chain below and not in conflict with it (chain validity) -/
  back : ∀ t ∈ b.txs, onChain c t.id = false ∧ conflictedBy c t = false
  /-- FOREIGN-COINBASE restriction (known finding C09-4): a pending or un-confirmed transaction spends a
      coinbase output of the block only if the wallet has a credit for it -/
  cbown : ∀ t, (t ∈ P ∨ (t ∈ b.txs ∧ t.cb = false ∧ t.id ∈ ids)) → ∀ i ∈ t.ins, ∀ u ∈ b.txs, u.cb = true → i.tx = u.id →
    u.id ∈ ids ∧ i.idx < u.outs.length ∧ (AMap.get s.credits ⟨u.id, ⟨b.height, b.id⟩, i.idx⟩).isSome = true
  /-- parents among the candidates are spent at existing indexes -/
  idx : IdxOK (P ++ b.txs.filter (fun t => !t.cb && ids.contains t.id))

/-- THE DISCONNECT STEP: `disconnectBlock` on the tip block refines `onChainMoved (c ++ [b]) c` -/
theorem disconnect_step (rank : TxId → Nat) (e : Env) (ctx : Ctx) (s s' : Store) (c : List Block) (b : Block)
    (P : List Tx) (ids : List TxId)
    (h : disconnectBlock ctx s b.height = .ok s') (hsync : s.syncedTo = b.height)
    (hblk : AMap.get s.blocks b.height = some (b.id, ids))
    (hrec : ∀ id ∈ ids, ∃ loc t, AMap.get s.txrecs (id, ⟨b.height, b.id⟩) = some loc ∧
        ctx.node.txByFileLoc loc = some t ∧ t.id = id ∧ t ∈ b.txs)
    (hidnd : ids.Nodup)
    (hrel : PendRel rank s P) (hcons : Consistent (c ++ [b]) P)
    (hrk : ∀ t ∈ b.txs, ∀ i ∈ t.ins, rank i.tx < rank t.id)
    (hok : DiscOK e s c b P ids) :
    PendRel rank s' (onChainMoved e (c ++ [b]) c P) := by
  -- pending transactions are not in the block
  have hPb : ∀ t ∈ b.txs, hasId P t.id = false := by
    intro t ht
    cases hh : hasId P t.id with
    | false => rfl
    | true =>
      obtain ⟨x, hx, hid⟩ := (hasId_iff _ _).1 hh
      have := (hcons x hx).1
      rw [onChain_append, onChain_single, hid, (hasId_iff _ _).2 ⟨t, ht, rfl⟩] at this
      simp at this
  have hnp : ∀ id ∈ ids, AMap.get s.pending id = none := by
    intro id hid
    obtain ⟨_, t, _, _, htid, htb⟩ := hrec id hid
    have := hPb t htb
    rw [hrel.hasId, htid] at this
    cases hg : AMap.get s.pending id with
    | none => rfl
    | some x => rw [hg] at this; cases this
  obtain ⟨s1, rem, r1, r2, r3, r4⟩ := rollback_phase rank ctx s s' b P ids h hsync hblk hrec hidnd hok.bnd hrel hnp hrk
  -- the un-confirmed transactions are the spec's `back`
  have hback : b.txs.filter (fun t => !t.cb && ids.contains t.id) =
      b.txs.filter (fun t => !t.cb && relevant e t && !hasId P t.id) := by
    apply List.filter_congr
    intro t ht
    rw [hPb t ht]
    cases hcb : t.cb with
    | true => simp
    | false =>
      have := hok.rel t ht hcb
      by_cases hin : t.id ∈ ids
      · simp [hin, this.1 hin]
      · have hr : relevant e t = false := by
          cases hr : relevant e t with
          | false => rfl
          | true => exact absurd (this.2 hr) hin
        simp [hin, hr]
  rw [onChainMoved_disconnect e c b P hok.blk, ← hback]
  have hC : Consistent c (P ++ b.txs.filter (fun t => !t.cb && ids.contains t.id)) := by
    intro t ht
    rcases List.mem_append.1 ht with ht | ht
    · obtain ⟨h1, h2⟩ := hcons t ht
      rw [onChain_append] at h1
      rw [conflictedBy_append] at h2
      exact ⟨by cases hx : onChain c t.id <;> simp_all, by cases hx : conflictedBy c t <;> simp_all⟩
    · exact hok.back t (List.mem_filter.1 ht).1
  have hmemC : ∀ t, t ∈ P ++ b.txs.filter (fun t => !t.cb && ids.contains t.id) →
      (t ∈ P ∨ (t ∈ b.txs ∧ t.cb = false ∧ t.id ∈ ids)) := by
    intro t ht
    rcases List.mem_append.1 ht with ht | ht
    · exact Or.inl ht
    · obtain ⟨h1, h2⟩ := List.mem_filter.1 ht
      simp only [Bool.and_eq_true, Bool.not_eq_true', List.contains_iff_mem] at h2
      exact Or.inr ⟨h1, h2.1, h2.2⟩
  have hfin := purge_final (own := ctx.own) (c := c) (b := b) (rem := rem) r1 hC hok.idx
    (fun op hop => by obtain ⟨u, hu, h1, _, h3, _⟩ := r3 op hop; exact ⟨u, hu, h1, h3⟩)
    (fun t ht i hi u hu hucb hid => by
      obtain ⟨g1, g2, g3⟩ := hok.cbown t (hmemC t ht) i hi u hu hucb hid
      rw [hid]; exact r4 u hu hucb g1 i.idx g2 g3)
  simp only [pendSide, Prod.mk.injEq] at r2
  exact hfin.congr r2.1 r2.2.1

end MW.Lemmas.PendHist
