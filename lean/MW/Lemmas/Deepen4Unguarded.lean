/-
  C06 deepening (round 4), part 7: THE WORKER RUNS WHATEVER IS QUEUED.  `stepT` lets the worker look at the stored status
  as well as at its queue; `MW.Lemmas.Deepen4Stat` shows that on every reachable state the second test is implied by the
  first (`StatOK`: one status entry per wallet, only stored keystores have one, queued tasks are for unfinished wallets,
  no wallet is queued for a rescan and a removal at once — an inductive invariant of every event, crashes included:
  `initTaskChan` re-queues exactly the unfinished wallets), so the world `runU` without that test IS `runT`, and the
  crash theorems hold for it.
-/
import MW.Lemmas.Deepen4Stat
import MW.Lemmas.Deepen4Main
namespace MW.Lemmas.Deepen4
open MW MW.Model.Ledger MW.Model.Persist MW.Spec.Persist MW.Spec.Chain MW.Spec.Books MW.Lemmas.Ledger
  MW.Lemmas.PersistOp MW.Lemmas.PersistFault MW.Lemmas.PersistCrash MW.Lemmas.Deepen3 MW.Lemmas.ImportJoin

/-- `crash_equiv_tasks_quiet` (hence `crash_equiv_tasks`) for the world whose worker runs whatever is queued -/
theorem crash_equiv_tasks_unguarded {cfg : Cfg} {G : Block} (E : StaticOK cfg.st G) (hG : G.txs = []) (hb : cfg.batch > 0)
    (hl : cfg.limit > 0) (evs : List EvT) (x0 : SysQ) (k0 : SkelT) (hJ : JT cfg G x0 k0) (hS : StatOK x0)
    (hR : RunOKT cfg G k0 evs) (hg1 : GuardT cfg true x0 evs) (hg2 : GuardT cfg false x0 evs)
    (hidle1 : IdleAt (runU cfg true x0 evs) (skRunT cfg k0 evs).busy)
    (hidle2 : IdleAt (runU cfg false x0 evs) (skRunT cfg k0 evs).busy)
    (hq : (runU cfg false x0 evs).queue = []) :
    (runU cfg true x0 evs).queue = [] ∧
    (runU cfg true x0 evs).chain = (runU cfg false x0 evs).chain ∧
    (runU cfg true x0 evs).P.ks = (runU cfg false x0 evs).P.ks ∧
    (runU cfg true x0 evs).V.keys = (runU cfg false x0 evs).V.keys ∧
    AMap.Equiv (runU cfg true x0 evs).P.led.credits (runU cfg false x0 evs).P.led.credits ∧
    AMap.Equiv (runU cfg true x0 evs).P.led.unspent (runU cfg false x0 evs).P.led.unspent ∧
    AMap.Equiv (runU cfg true x0 evs).P.led.debits (runU cfg false x0 evs).P.led.debits ∧
    AMap.Equiv (runU cfg true x0 evs).P.led.game (runU cfg false x0 evs).P.led.game ∧
    AMap.Equiv (runU cfg true x0 evs).P.led.txrecs (runU cfg false x0 evs).P.led.txrecs ∧
    AMap.Equiv (runU cfg true x0 evs).P.led.blocks (runU cfg false x0 evs).P.led.blocks ∧
    AMap.Equiv (runU cfg true x0 evs).P.led.sync (runU cfg false x0 evs).P.led.sync ∧
    (runU cfg true x0 evs).P.led.syncedTo = (runU cfg false x0 evs).P.led.syncedTo ∧
    (runU cfg true x0 evs).V.led.best = (runU cfg false x0 evs).V.led.best ∧
    (∀ w ∈ walletsOf (runU cfg false x0 evs).P.ks,
      AMap.get (runU cfg true x0 evs).P.led.balance w = AMap.get (runU cfg false x0 evs).P.led.balance w ∧
      readyB (runU cfg true x0 evs).P.led w = true ∧ readyB (runU cfg false x0 evs).P.led w = true) := by
  rw [runU_eq_runT cfg true x0 evs hS] at hidle1 ⊢
  rw [runU_eq_runT cfg false x0 evs hS] at hidle2 hq ⊢
  exact crash_equiv_tasks_quiet E hG hb hl evs x0 k0 hJ hR hg1 hg2 hidle1 hidle2 hq

end MW.Lemmas.Deepen4
