/-
  C08, reorganisations BELOW the floor between two removal steps — the store-level steps with the whole in-progress
  state: a ghost store `g` following chain `X` with `w` flagged at ghost height `k` (`GhostX`), the real store `s` =
  ghost minus records of `w` with stale entries keyed by `w` allowed (`SubW`), `Reach s`, and the relaxed in-progress
  invariant `MidCW` of `s` relative to the joined book of (`X`, `k`).
    `p2w_disc`     the tip block — ABOVE or AT the ghost height, i.e. also a block connected before the wallet was
                   flagged — is disconnected on both stores: the state is re-established for the shorter chain (the ghost
                   height drops when the tip was at it)
    `p2w_connect`  the next block of the node's chain is connected (ghost succeeds ⇒ real succeeds)
-/
import MW.Lemmas.RemoveMidWShrink
import MW.Lemmas.RemoveMidWExt
import MW.Lemmas.RemoveSimWGhost
namespace MW.Lemmas.RemoveInterleave
open MW MW.Model.Ledger MW.Model.Remove MW.Spec.Chain MW.Spec.Books MW.Lemmas.Ledger MW.Lemmas.RemoveProj
  MW.Lemmas.RemoveChar MW.Lemmas.RemoveBooks MW.Lemmas.RemoveInv MW.Lemmas.RemoveMain MW.Lemmas.RemoveUpper
  MW.Lemmas.RemoveJoin MW.Lemmas.RemoveGlue MW.Lemmas.RemoveFlagged MW.Lemmas.ImportReorg MW.Lemmas.ImportJoin
  MW.Lemmas.RemoveSim MW.Lemmas.LedgerWFCred MW.Lemmas.RemoveSimW MW.Lemmas.RemoveKeep

/-- the state carried between two removal steps, ghost explicit -/
structure P2W (c : Ctx) (w : Wid) (addrs : List Addr) (own' : Own) (g s : Store) (X : List Block) (k : Nat) : Prop where
  len : k + 1 ≤ X.length
  ghost : GhostX c w g X k
  sub : SubW w addrs g s
  reach : Reach s
  mid : MidCW c w addrs own' s X (joinBookK c w own' X k)

section steps
variable {c : Ctx} {w : Wid} {addrs : List Addr} {own' : Own}

/-- **one block at or above the ghost height disconnected on both stores** -/
theorem p2w_disc (hS : Static c w addrs own') {Y : List Block} {b : Block} (hV : ChainValid c.own (Y ++ [b]))
    (hH : HeightsOK (Y ++ [b])) (hkn : ∀ y ∈ Y ++ [b], AMap.get c.node.known y.id = some y) (hne : Y ≠ [])
    {g s g' s' : Store} {k : Nat} (hP : P2W c w addrs own' g s (Y ++ [b]) k)
    (hg : disconnectBlock c g b.height = .ok g') (hs : disconnectBlock c s b.height = .ok s') :
    ∃ k', P2W c w addrs own' g' s' Y k' := by
  obtain ⟨hkX, hG, hSub, hR, hM⟩ := hP
  have hKN := hS.keys
  have hbh : b.height = Y.length := heightsOK_mid hH
  have hYpos : 0 < Y.length := List.length_pos_iff.2 hne
  have H : RemHyp c w addrs own' (Y ++ [b]) := ⟨hS.minus, hS.managed, hS.ne, hV, hH, hkn⟩
  have HY : RemHyp c w addrs own' Y := ⟨hS.minus, hS.managed, hS.ne, chainValid_prefix hV, heightsOK_prefix hH,
    fun y hy => hkn y (List.mem_append_left _ hy)⟩
  have hlenX : (Y ++ [b]).length = Y.length + 1 := by rw [List.length_append]; rfl
  -- the ghost's own step
  have hghost : ∃ k', k' + 1 ≤ Y.length ∧ ScanJS c w g' Y k' ∧
      (∀ x ws, AMap.get g.status x = some ws → ws.synced = none → AMap.get g'.status x = some ws) ∧
      (∀ l, readyWallets g' l = readyWallets g l) := by
    by_cases hk : k + 1 ≤ Y.length
    · obtain ⟨g2, hd, hS', _, hkeep, hrdy⟩ := disconnect_scanJS_above' hKN hV hH hne (hkn b (by simp)) hG.scan hk
        hG.allReady
      rw [hg] at hd; cases hd
      exact ⟨k, hk, hS', hkeep, hrdy⟩
    · have hkeq : k = Y.length := by omega
      have hSc : ScanJS c w g (Y ++ [b]) Y.length := by rw [← hkeq]; exact hG.scan
      obtain ⟨g2, hd, hS', _, hkeep, hrdy⟩ := disconnect_scanJS_at' hKN hV hH hne (hkn b (by simp)) hSc hG.allReady
      rw [hg] at hd; cases hd
      exact ⟨Y.length - 1, by omega, hS', hkeep, hrdy⟩
  obtain ⟨k', hk', hS', hkeep, hrdy⟩ := hghost
  have hhg : g.syncedTo = b.height := by have := hG.scan.syncedTo; omega
  have hhs : s.syncedTo = b.height := hSub.syncedTo.trans hhg
  have hOwn : OwnW c w addrs := ownW_of_remHyp H
  have hCV : GhostCV c g := ghostCV_of_scanJS H hKN hkX hG.scan
  obtain ⟨hSub', hReach⟩ := disconnectBlock_rel hOwn hSub hR hCV hhg hg hs
  have hR' : Reach s' := hReach (reach_of_scanJS HY hKN hk' hS')
  obtain ⟨fs, fsb, fsb0⟩ := disconnectBlock_frame hhs hs
  obtain ⟨fg, _, _⟩ := disconnectBlock_frame hhg hg
  have hns' : KeysNodup s'.credits := cn_disconnectBlock (show KeysNodup s.credits from hM.nodup) hs
  have hng' : KeysNodup g'.credits := cn_disconnectBlock hG.nodup hg
  have hnr : (readyWallets g c.wallets).contains w = false := notReady_of_removed hG.flag rfl
  have hnr' : (readyWallets g' c.wallets).contains w = false := by rw [hrdy]; exact hnr
  have hM' := midUW_shrink H HY hKN hkX hk' hbh hG.scan hS' hnr' hng' hM hSub hSub' hns' fs fg fsb fsb0
  exact ⟨k', hk', ⟨hS', hkeep w _ hG.flag rfl, by rw [hrdy]; exact hG.allReady, by rw [hrdy]; exact hG.nonempty, hng'⟩,
    hSub', hR', hM'⟩

/-- **the next block of the node's chain connected on both stores** (always above the ghost height) -/
theorem p2w_connect (hS : Static c w addrs own') (hgN : GoodChain c.node.chain) (hvN : ChainValid c.own c.node.chain)
    (hknN : ∀ y ∈ c.node.chain, AMap.get c.node.known y.id = some y) {g s : Store} {k h : Nat} {b : Block}
    (hb : c.node.chain[h + 1]? = some b) (hP : P2W c w addrs own' g s (c.node.chain.take (h + 1)) k) :
    ∃ g' s' conf, filterBlock c g (readyWallets g c.wallets) b = .ok (g', conf) ∧
      filterBlock c s (readyWallets s c.wallets) b = .ok (s', conf) ∧
      P2W c w addrs own' g' s' (c.node.chain.take (h + 2)) k ∧ s'.status = s.status ∧ g'.status = g.status := by
  obtain ⟨hk, hG, hSub, hR, hM⟩ := hP
  have hKN := hS.keys
  have hlt : h + 1 < c.node.chain.length := (List.getElem?_eq_some_iff.1 hb).1
  have hlen : (c.node.chain.take (h + 1)).length = h + 1 := by rw [List.length_take]; omega
  have e : c.node.chain.take (h + 2) = c.node.chain.take (h + 1) ++ [b] := take_succ_of_get hb
  have hnode : c.node.chain = c.node.chain.take (h + 1) ++ b :: c.node.chain.drop (h + 2) := by
    have : c.node.chain.drop (h + 1) = b :: c.node.chain.drop (h + 2) := by
      rw [List.drop_eq_getElem?_toList_append, hb]; rfl
    rw [← this, List.take_append_drop]
  have H : RemHyp c w addrs own' (c.node.chain.take (h + 1)) :=
    ⟨hS.minus, hS.managed, hS.ne, chainValid_take hvN _, heightsOK_take hgN.heights _,
      fun y hy => hknN y (List.mem_of_mem_take hy)⟩
  have H' : RemHyp c w addrs own' (c.node.chain.take (h + 1) ++ [b]) := by
    rw [← e]
    exact ⟨hS.minus, hS.managed, hS.ne, chainValid_take hvN _, heightsOK_take hgN.heights _,
      fun y hy => hknN y (List.mem_of_mem_take hy)⟩
  have hbh : b.height = (c.node.chain.take (h + 1)).length := by rw [hlen]; exact hgN.heights _ _ hb
  have hnr : (readyWallets g c.wallets).contains w = false := notReady_of_removed hG.flag rfl
  obtain ⟨g', conf, hfg, hSg', hstg, _⟩ := connect_scanJS' hKN ⟨hvN, hgN.heights⟩ hnode hG.scan hnr hk hG.allReady
    hG.nonempty
  have hready : readyWallets s c.wallets = readyWallets g c.wallets := readyWallets_congr hSub.status c.wallets
  have hFs : AMap.get s.blocks b.height = none := by
    have := hM.blocks b.height
    rw [show AMap.get s.blocks b.height = _ from this, hbh]
    exact blockRecOf_none (Nat.le_refl _)
  have hdeb : ∀ dk d, AMap.get g.debits dk = some d → d.2.blk ≠ ⟨b.height, b.id⟩ := by
    intro dk d hd e
    have := ghost_debit_below H hKN hk hG.scan dk d hd
    rw [e, hbh] at this
    exact Nat.lt_irrefl _ this
  obtain ⟨s', hfs, hSub', hNew, hns', hng', _, f_tx, f_blk, f_deb, f_cred, gc1, gc2, gf_tx, _, gf_deb⟩ :=
    filterBlock_simW_full (c := c) (ready := readyWallets g c.wallets) hSub hnr hG.nodup hM.nodup
      (ghost_fresh H hKN hk hG.scan hbh) hFs (ghost_coinsOK H hKN hG.scan hnr)
      (ghost_find H hKN hk hG.scan hG.nodup hnode hvN)
      (real_own H hKN hk hG.scan hG.nodup hM.nodup hM.credits hnode hvN hnr)
      (ready_not_addrs H hnr) hdeb hfg
  have hnr' : (readyWallets g' c.wallets).contains w = false := by rw [readyWallets_congr hstg]; exact hnr
  have hk' : k + 1 ≤ (c.node.chain.take (h + 1) ++ [b]).length := by rw [List.length_append]; omega
  have hM' := midUW_ext H H' hKN hk hbh hG.scan hSg' hnr' hng' hM hSub hSub' hNew hns' f_tx f_blk f_deb f_cred gc1 gc2
    gf_tx gf_deb
  have hRg' : Reach g' := reach_of_scanJS H' hKN hk' hSg'
  -- every credit / debit of the new real store has its tx record
  have hR' : Reach s' := by
    constructor
    · intro ck cr hc
      by_cases hb' : ck.blk = ⟨b.height, b.id⟩
      · have e1 : AMap.get s'.credits ck = AMap.get g'.credits ck := by
          cases ck; cases hb'; exact hNew.credits _ _
        have := hRg'.credits ck cr (by rw [← e1]; exact hc)
        rw [show (ck.tx, ck.blk) = (ck.tx, (⟨b.height, b.id⟩ : BlockMeta)) by rw [hb'], ← hNew.txrecs ck.tx] at this
        rw [show (ck.tx, ck.blk) = (ck.tx, (⟨b.height, b.id⟩ : BlockMeta)) by rw [hb']]
        exact this
      · have hs0 : ∃ c0, AMap.get s.credits ck = some c0 := by
          rcases f_cred ck hb' with h1 | ⟨c0, h1, _⟩
          · exact ⟨cr, by rw [← h1]; exact hc⟩
          · exact ⟨c0, h1⟩
        obtain ⟨c0, hc0⟩ := hs0
        have := hR.credits ck c0 hc0
        rw [f_tx (ck.tx, ck.blk) hb']
        exact this
    · intro dk d hd
      by_cases hb' : dk.blk = ⟨b.height, b.id⟩
      · have e1 : AMap.get s'.debits dk = AMap.get g'.debits dk := by
          cases dk; cases hb'; exact hNew.debits _ _
        have := hRg'.debits dk d (by rw [← e1]; exact hd)
        rw [show (dk.tx, dk.blk) = (dk.tx, (⟨b.height, b.id⟩ : BlockMeta)) by rw [hb'], ← hNew.txrecs dk.tx] at this
        rw [show (dk.tx, dk.blk) = (dk.tx, (⟨b.height, b.id⟩ : BlockMeta)) by rw [hb']]
        exact this
      · have := hR.debits dk d (by rw [← f_deb dk hb']; exact hd)
        rw [f_tx (dk.tx, dk.blk) hb']
        exact this
  refine ⟨g', s', conf, hfg, by rw [hready]; exact hfs, ?_, hSub'.status.trans (hstg.trans hSub.status.symm), hstg⟩
  rw [e]
  exact ⟨hk', ⟨hSg', by rw [hstg]; exact hG.flag, by rw [readyWallets_congr hstg]; exact hG.allReady,
    by rw [readyWallets_congr hstg]; exact hG.nonempty, hng'⟩, hSub', hR', hM'⟩

end steps

end MW.Lemmas.RemoveInterleave
