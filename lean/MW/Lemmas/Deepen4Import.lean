/-
  C06 deepening (round 4), part 3: EVERY EVENT OF AN IMPORT WINDOW keeps `JI` — node events (extension,
  reorganisation to any branch), handler steps on notifications that are on the node's chain (extension,
  reorganisation above / at / below the cursor: C07's `ij_processBlock` through `block_ij`), unconfirmed
  transactions, one batch of the rescan against whatever chain the node has at that moment (`importStep_ij`), and a
  process CRASH at any of these commit boundaries (`crash_reaches_ij`: boot, resync, catch-up on the joined store,
  `initTaskChan` queues the rescan again).  `drain` (follower caught up, the worker runs the rescan to its end) closes
  the window: round 3's invariant `JQ` for the table that now contains the restored keystore.
-/
import MW.Lemmas.Deepen4Inv
import MW.Lemmas.Deepen4Start
import MW.Lemmas.Deepen4Stale
import MW.Lemmas.Deepen4Batch
namespace MW.Lemmas.Deepen4
open MW MW.Model.Ledger MW.Model.Persist MW.Spec.Persist MW.Spec.Chain MW.Spec.Books MW.Lemmas.Ledger
  MW.Lemmas.PersistOp MW.Lemmas.PersistFault MW.Lemmas.PersistCrash MW.Lemmas.Deepen3 MW.Lemmas.ImportJoin

/-- inside `IJ` the wallet being restored is never flagged: "done" and "ready" coincide for it -/
theorem ij_importDone {c : Ctx} {w : Wid} {s : Store} {X : List Block} (h : IJ c w s X) (ks : AMap.T Wid KsRec) :
    importDone ⟨s, ks⟩ w = readyB s w := by
  unfold importDone readyB
  rcases h with ⟨ws, k, hst, hk, hrm, _⟩ | ⟨hst, _⟩
  · simp only [hst, hk, hrm]; rfl
  · simp only [hst]; rfl

theorem importDone_eta (P : PStore) (w : Wid) : importDone P w = importDone ⟨P.led, P.ks⟩ w := rfl

/-- the rescan is queued again by `initTaskChan` whenever the stored status says "importing" -/
theorem ij_requeue {c : Ctx} {w : Wid} {P : PStore} {X : List Block} (h : IJ c w P.led X) (hnd : importDone P w = false) :
    (requeue P).contains (.imp w) = true := by
  rcases h with ⟨ws, k, hst, hk, hrm, _⟩ | ⟨hst, _⟩
  · exact List.contains_iff_mem.2 (requeue_importing P w ws (amap_mem_of_get hst) hrm (by rw [hk]; rfl))
  · unfold importDone at hnd; rw [hst] at hnd; cases hnd

theorem ctx_node (st : Static) (ks : AMap.T Wid KsRec) (c c' : List Block) :
    (lenv st ks).ctx c' = { (lenv st ks).ctx c with node := { chain := c', known := st.known } } := rfl

-- ------------------------------------------------------------------ node events

theorem JI_nodeMove {cfg : Cfg} {G : Block} {x : SysQ} {k : Skel} {w : Wid} (hJ : JI cfg G x k w) (N' bs : List Block)
    (hbs : bs ≠ []) (hN' : ChainOK (lenv cfg.st k.ks) G N') (hsub : ∀ b ∈ bs, b ∈ N')
    (hlast : N'.getLast? = bs.getLast?) :
    JI cfg G { x with chain := N', queue := x.queue ++ bs } { k with chain := N', hist := k.hist ++ [N'] } w := by
  obtain ⟨hc, hks, hkeys, hw, hnW, hnA, ⟨X, hX, hIJ, hv, ⟨c, hcm, hXc⟩, _⟩, hqk, _, hN, hcur, hoth, htask⟩ := hJ
  refine ⟨rfl, hks, hkeys, hw, hnW, hnA, ⟨X, hX, ?_, hv, ⟨c, List.mem_append_left _ hcm, hXc⟩, ?_⟩, ?_, ?_, hN',
    List.mem_append_right _ (List.mem_singleton.2 rfl), hoth, htask⟩
  · show IJ ((lenv cfg.st k.ks).ctx N') w x.P.led X
    rw [ctx_node cfg.st k.ks k.chain N']
    exact ij_node _ hIJ
  · intro h
    exact absurd (List.append_eq_nil_iff.1 h).2 hbs
  · intro b hb
    rcases List.mem_append.1 hb with h | h
    · exact hqk b h
    · exact hN'.known b (hsub b h)
  · intro _
    show (x.queue ++ bs).getLast? = N'.getLast?
    rw [hlast, getLast?_append_ne hbs]

theorem JI_extend {cfg : Cfg} {G : Block} (cr : Bool) {x : SysQ} {k : Skel} {w : Wid} (b : Block) (hJ : JI cfg G x k w)
    (hok : StepOK cfg.st G k (.extend b)) :
    JI cfg G (stepQ cfg.st cfg.n cr x (.extend b)) (skStep cfg.st k (.extend b)) w := by
  have h1 : stepQ cfg.st cfg.n cr x (.extend b) = { x with chain := k.chain ++ [b], queue := x.queue ++ [b] } := by
    simp only [stepQ, hJ.chain]
  rw [h1]
  exact JI_nodeMove hJ (k.chain ++ [b]) [b] (by simp) hok
    (fun y hy => by rw [List.mem_singleton.1 hy]; exact List.mem_append_right _ List.mem_cons_self) (by simp)

theorem JI_reorgTo {cfg : Cfg} {G : Block} (cr : Bool) {x : SysQ} {k : Skel} {w : Wid} (m : Nat) (bs : List Block)
    (hJ : JI cfg G x k w) (hok : StepOK cfg.st G k (.reorgTo m bs)) :
    JI cfg G (stepQ cfg.st cfg.n cr x (.reorgTo m bs)) (skStep cfg.st k (.reorgTo m bs)) w := by
  have h1 : stepQ cfg.st cfg.n cr x (.reorgTo m bs) =
      { x with chain := k.chain.take (k.chain.length - m) ++ bs, queue := x.queue ++ bs } := by
    simp only [stepQ, hJ.chain]
  rw [h1]
  exact JI_nodeMove hJ _ bs hok.1 hok.2 (fun y hy => List.mem_append_right _ hy) (getLast?_append_ne hok.1)

-- ------------------------------------------------------------------ handler steps

/-- a handler step inside the window, for ANY queued notification: a block of the node's chain (extension,
    reorganisation above / at / below the cursor of the rescan: C07's `ij_processBlock`) or a STALE one — a block of a
    branch the node has left (`block_ij_total`: the step fails and changes nothing, or it is a pure rollback onto the
    followed chain) -/
theorem JI_handle {cfg : Cfg} {G : Block} (E : StaticOK cfg.st G) (cr : Bool) {x : SysQ} {k : Skel} {w : Wid}
    (hJ : JI cfg G x k w) : JI cfg G (stepQ cfg.st cfg.n cr x .handle) k w := by
  cases hq : x.queue with
  | nil =>
    have h1 : stepQ cfg.st cfg.n cr x .handle = x := by simp only [stepQ, hq]
    rw [h1]; exact hJ
  | cons b q =>
    obtain ⟨hc, hks, hkeys, hw, hnW, hnA, ⟨X, hX, hIJ, hv, ⟨c0, hc0m, hXc0⟩, _⟩, hqk, hql, hN, hcur, hoth, htask⟩ := hJ
    have hbk : AMap.get cfg.st.known b.id = some b := hqk b (by rw [hq]; exact List.mem_cons_self)
    have h1 : stepQ cfg.st cfg.n cr x .handle =
        { x with queue := q, P := ((opBlock (envAt cfg.st k.chain) cfg.n b).run none x.P x.V).P,
                 V := ((opBlock (envAt cfg.st k.chain) cfg.n b).run none x.P x.V).V } := by
      simp only [stepQ, hq, hc]
    rw [h1]
    have hql' : q ≠ [] → q.getLast? = k.chain.getLast? := by
      intro hqne
      have hl := hql (by rw [hq]; simp)
      rw [hq] at hl
      rw [← hl]
      cases q with
      | nil => exact absurd rfl hqne
      | cons a t => rw [List.getLast?_cons_cons]
    have hqk' : ∀ y ∈ q, AMap.get cfg.st.known y.id = some y := fun y hy => hqk y (by rw [hq]; exact List.mem_cons_of_mem _ hy)
    -- what is common to both cases
    have hcommon : ∀ (X' : List Block), ChainOK (lenv cfg.st k.ks) G X' → (∃ c ∈ k.hist, X' <+: c) → (q = [] → X' = k.chain) →
        ((opBlock (envAt cfg.st k.chain) cfg.n b).run none x.P x.V).P.ks = k.ks →
        ((opBlock (envAt cfg.st k.chain) cfg.n b).run none x.P x.V).V.keys = k.ks →
        ((opBlock (envAt cfg.st k.chain) cfg.n b).run none x.P x.V).V.tasks = x.V.tasks →
        (∀ l, readyWallets ((opBlock (envAt cfg.st k.chain) cfg.n b).run none x.P x.V).P.led l = readyWallets x.P.led l) →
        IJ ((lenv cfg.st k.ks).ctx k.chain) w ((opBlock (envAt cfg.st k.chain) cfg.n b).run none x.P x.V).P.led X' →
        ((opBlock (envAt cfg.st k.chain) cfg.n b).run none x.P x.V).V.led.best = tipMeta X' →
        JI cfg G { x with queue := q, P := ((opBlock (envAt cfg.st k.chain) cfg.n b).run none x.P x.V).P,
                          V := ((opBlock (envAt cfg.st k.chain) cfg.n b).run none x.P x.V).V } k w := by
      intro X' hX' hpre hq0 b3 b4 b5 b8 b6 b7
      have hdone : importDone ((opBlock (envAt cfg.st k.chain) cfg.n b).run none x.P x.V).P w = importDone x.P w := by
        rw [importDone_eta, ij_importDone b6, importDone_eta x.P, ij_importDone hIJ]
        exact readyB_of_readyWallets b8 w
      refine ⟨hc, b3, b4, hw, hnW, hnA, ⟨X', hX', b6, b7, hpre, hq0⟩, hqk', hql', hN, hcur, ?_, ?_⟩
      · intro w' hw' hne
        show readyB ((opBlock (envAt cfg.st k.chain) cfg.n b).run none x.P x.V).P.led w' = true
        rw [readyB_of_readyWallets b8 w']; exact hoth w' hw' hne
      · intro hnd
        show ((opBlock (envAt cfg.st k.chain) cfg.n b).run none x.P x.V).V.tasks.contains (.imp w) = true
        rw [b5]; exact htask (by rw [← hdone]; exact hnd)
    by_cases hqe : q = []
    · -- the last queued notification is the node's tip
      have hl := hql (by rw [hq]; simp)
      rw [hq, hqe, List.getLast?_singleton] at hl
      obtain ⟨hb, hlen⟩ := hN.good.getLast_at hl.symm
      obtain ⟨_, _, b3, b4, b5, b6, b7, b8⟩ := block_ij E hN hX cfg.n hks hkeys hnA hw hIJ hv hb
      exact hcommon (k.chain.take (b.height + 1)) (hN.take _) ⟨k.chain, hcur, List.take_prefix _ _⟩
        (fun _ => by rw [hlen, List.take_length]) b3 b4 b5 b8 b6 b7
    · obtain ⟨b3, b4, b5, b8, X', hX', hpre, b6, b7, _, _⟩ := block_ij_total E hN hX cfg.n hks hkeys hnA hw hIJ hv hbk
      refine hcommon X' hX' ?_ (fun h => absurd h hqe) b3 b4 b5 b8 b6 b7
      rcases hpre with h | h
      · exact ⟨c0, hc0m, h.trans hXc0⟩
      · exact ⟨k.chain, hcur, h⟩

-- ------------------------------------------------------------------ unconfirmed transactions

theorem recvTx_tasks (env : Model.Persist.Env) (nR nW : Nat) (tx : Tx) (P : PStore) (V : PVol) :
    (Model.Persist.recvTx env nR nW none tx P V).V.tasks = V.tasks := by
  unfold Model.Persist.recvTx
  simp only [Bool.false_eq_true, if_false]
  by_cases hm : V.led.mempool.contains tx.id = true
  · rw [if_pos hm]
  · rw [if_neg hm]
    cases hf : filterTxRel (ctxOf env V) P.led tx false [] (readyWallets P.led (ctxOf env V).wallets) with
    | error e => rfl
    | ok o =>
      cases o with
      | none => rfl
      | some tr =>
        simp only [Option.map]
        rw [run_single_none nW _ (opAddUnmined nW tr) rfl P V]
        cases ha : addRelevantUnmined P.led tr with
        | error e => simp [opAddUnmined]
        | ok s' => simp [opAddUnmined]

theorem JI_recvTx {cfg : Cfg} {G : Block} (cr : Bool) {x : SysQ} {k : Skel} {w : Wid} (tx : Tx) (hJ : JI cfg G x k w) :
    JI cfg G (stepQ cfg.st cfg.n cr x (.recvTx tx)) k w := by
  obtain ⟨hc, hks, hkeys, hw, hnW, hnA, ⟨X, hX, hIJ, hv, hpre, hq0⟩, hqk, hql, hN, hcur, hoth, htask⟩ := hJ
  obtain ⟨m1, m2⟩ := recvTx_mined (envAt cfg.st x.chain) cfg.n cfg.n tx x.P x.V
  obtain ⟨f1, f2⟩ := recvTx_frame (envAt cfg.st x.chain) cfg.n cfg.n tx x.P x.V
  have f3 := recvTx_tasks (envAt cfg.st x.chain) cfg.n cfg.n tx x.P x.V
  have h1 : stepQ cfg.st cfg.n cr x (.recvTx tx) =
      { x with P := (Model.Persist.recvTx (envAt cfg.st x.chain) cfg.n cfg.n none tx x.P x.V).P,
               V := (Model.Persist.recvTx (envAt cfg.st x.chain) cfg.n cfg.n none tx x.P x.V).V } := rfl
  rw [h1]
  refine ⟨hc, m1.trans hks, f2.trans hkeys, hw, hnW, hnA, ⟨X, hX, ij_minedEq m2 hIJ, f1.trans hv, hpre, hq0⟩, hqk, hql, hN,
    hcur, ?_, ?_⟩
  · intro w' hw' hne
    show readyB (Model.Persist.recvTx (envAt cfg.st x.chain) cfg.n cfg.n none tx x.P x.V).P.led w' = true
    rw [readyB_status (s := x.P.led) (by rw [m2.status])]; exact hoth w' hw' hne
  · intro hnd
    show (Model.Persist.recvTx (envAt cfg.st x.chain) cfg.n cfg.n none tx x.P x.V).V.tasks.contains (.imp w) = true
    rw [f3]
    apply htask
    unfold importDone at hnd ⊢
    rw [m2.status] at hnd
    exact hnd

-- ------------------------------------------------------------------ a process crash inside the window

/-- A CRASH at any commit boundary of an import window — follower lagging, on a stale branch, rescan at any cursor:
    boot + Start succeed, the restarted wallet follows the node's whole chain in the joined sense (the cursor of
    the rescan pulled back where the catch-up reorganised below it), nothing is queued, and `initTaskChan` has put
    the rescan back into the worker's queue -/
theorem JI_crash {cfg : Cfg} {G : Block} (E : StaticOK cfg.st G) {x : SysQ} {k : Skel} {w : Wid} (hJ : JI cfg G x k w) :
    JI cfg G (stepQ cfg.st cfg.n true x .crash) k w ∧ (stepQ cfg.st cfg.n true x .crash).queue = [] ∧
    (Model.Persist.crash (envAt cfg.st x.chain) cfg.n x.P).ok = true := by
  obtain ⟨hc, hks, hkeys, hw, hnW, hnA, ⟨X, hX, hIJ, hv, _, _⟩, hqk, hql, hN, hcur, hoth, htask⟩ := hJ
  have h1 : stepQ cfg.st cfg.n true x .crash =
      { x with queue := [], P := (Model.Persist.crash (envAt cfg.st k.chain) cfg.n x.P).P,
               V := (Model.Persist.crash (envAt cfg.st k.chain) cfg.n x.P).V } := by
    simp only [stepQ, if_true, hc]
  obtain ⟨c1, c2, c3, c4, c5, c6, c7⟩ := crash_reaches_ij E hN hX cfg.n hks hnA hw hIJ
  rw [h1]
  refine ⟨⟨hc, c2, c3, hw, hnW, hnA, ⟨k.chain, hN, c4, c5, ⟨k.chain, hcur, List.prefix_refl _⟩, fun _ => rfl⟩,
    (fun y hy => by cases hy), (fun h => absurd rfl h), hN, hcur, ?_, ?_⟩, rfl, by rw [hc]; exact c1⟩
  · intro w' hw' hne
    show readyB (Model.Persist.crash (envAt cfg.st k.chain) cfg.n x.P).P.led w' = true
    rw [readyB_of_readyWallets c7 w']; exact hoth w' hw' hne
  · intro hnd
    show (Model.Persist.crash (envAt cfg.st k.chain) cfg.n x.P).V.tasks.contains (.imp w) = true
    rw [c6]
    exact ij_requeue c4 hnd

-- ------------------------------------------------------------------ the worker

theorem dropTask_keys (V : PVol) (t : Task) : (dropTask V t).keys = V.keys ∧ (dropTask V t).led = V.led := ⟨rfl, rfl⟩

/-- ONE BATCH of the rescan, against whatever chain the node has at that moment -/
theorem JI_importStep {cfg : Cfg} {G : Block} (E : StaticOK cfg.st G) (hb : cfg.batch > 0) (cr : Bool) {x : SysQ}
    {k : Skel} {w : Wid} (hJ : JI cfg G x k w) (hshort : ∀ c ∈ k.hist, c.length + cfg.batch < 2 ^ 64) :
    JI cfg G (stepT cfg cr x (.importStep w)) k w := by
  by_cases hg : (x.V.tasks.contains (.imp w) && !importDone x.P w) = true
  · obtain ⟨hc, hks, hkeys, hw, hnW, hnA, ⟨X, hX, hIJ, hv, ⟨c, hcm, hXc⟩, hq0⟩, hqk, hql, hN, hcur, hoth, htask⟩ := hJ
    simp only [Bool.and_eq_true, Bool.not_eq_true'] at hg
    have hlenX : X.length + cfg.batch < 2 ^ 64 := by
      have := hshort c hcm
      have := hXc.length_le
      omega
    obtain ⟨i1, i2, i3, i4, i5, i6⟩ := importStep_ij E hN hX cfg.batch cfg.n hb (hshort _ hcur) hlenX hks hkeys hnA hw hIJ hv hg.2
    have h1 : stepT cfg cr x (.importStep w) =
        { x with P := ((opImportStep cfg.batch cfg.n (envAt cfg.st k.chain) w).run none x.P x.V).P,
                 V := if ((opImportStep cfg.batch cfg.n (envAt cfg.st k.chain) w).run none x.P x.V).ok &&
                        importDone ((opImportStep cfg.batch cfg.n (envAt cfg.st k.chain) w).run none x.P x.V).P w
                      then dropTask ((opImportStep cfg.batch cfg.n (envAt cfg.st k.chain) w).run none x.P x.V).V (.imp w)
                      else ((opImportStep cfg.batch cfg.n (envAt cfg.st k.chain) w).run none x.P x.V).V } := by
      simp only [stepT, hg.1, hg.2, Bool.not_false, Bool.and_self, if_true, hc]
    rw [h1]
    by_cases hd : (((opImportStep cfg.batch cfg.n (envAt cfg.st k.chain) w).run none x.P x.V).ok &&
        importDone ((opImportStep cfg.batch cfg.n (envAt cfg.st k.chain) w).run none x.P x.V).P w) = true
    · rw [if_pos hd]
      simp only [Bool.and_eq_true] at hd
      refine ⟨hc, i1, i2, hw, hnW, hnA, ⟨X, hX, i4, i5.trans hv, ⟨c, hcm, hXc⟩, hq0⟩, hqk, hql, hN, hcur, ?_, ?_⟩
      · intro w' hw' hne
        show readyB ((opImportStep cfg.batch cfg.n (envAt cfg.st k.chain) w).run none x.P x.V).P.led w' = true
        rw [i6 w' hne]; exact hoth w' hw' hne
      · intro hnd
        have : importDone ((opImportStep cfg.batch cfg.n (envAt cfg.st k.chain) w).run none x.P x.V).P w = false := hnd
        rw [hd.2] at this; cases this
    · rw [if_neg hd]
      refine ⟨hc, i1, i2, hw, hnW, hnA, ⟨X, hX, i4, i5.trans hv, ⟨c, hcm, hXc⟩, hq0⟩, hqk, hql, hN, hcur, ?_, ?_⟩
      · intro w' hw' hne
        show readyB ((opImportStep cfg.batch cfg.n (envAt cfg.st k.chain) w).run none x.P x.V).P.led w' = true
        rw [i6 w' hne]; exact hoth w' hw' hne
      · intro _
        show ((opImportStep cfg.batch cfg.n (envAt cfg.st k.chain) w).run none x.P x.V).V.tasks.contains (.imp w) = true
        rw [i3]; exact hg.1
  · have h1 : stepT cfg cr x (.importStep w) = x := by
      simp only [stepT]
      rw [if_neg hg]
    rw [h1]; exact hJ

/-- DRAIN closes the window: the follower is caught up, the worker runs the rescan to its end (it terminates:
    `importLoop_ij`), the restored wallet is ready and round 3's invariant holds for the table that contains it -/
theorem JI_drain {cfg : Cfg} {G : Block} (E : StaticOK cfg.st G) (hb : cfg.batch > 0) (cr : Bool) {x : SysQ}
    {k : Skel} {w : Wid} (fuel : Nat) (hJ : JI cfg G x k w) (hshort : ∀ c ∈ k.hist, c.length + cfg.batch < 2 ^ 64)
    (hq : x.queue = []) (hfuel : k.chain.length + 1 ≤ fuel) :
    JQ cfg.st G (stepT cfg cr x (.importDrain w fuel)) k := by
  obtain ⟨hc, hks, hkeys, hw, hnW, hnA, ⟨X, hX, hIJ, hv, _, hq0⟩, hqk, hql, hN, hcur, hoth, htask⟩ := hJ
  have hXe : X = k.chain := hq0 hq
  subst hXe
  -- what the end of the rescan looks like, whoever reached it
  have hfin : ∀ (P' : PStore) (V' : PVol), P'.ks = k.ks → V'.keys = k.ks → V'.led.best = tipMeta k.chain →
      AMap.get P'.led.status w = some ⟨none, false⟩ → Ledger.Inv ((lenv cfg.st k.ks).ctx k.chain) P'.led k.chain →
      AllReady (ownOf k.ks) (readyWallets P'.led (walletsOf k.ks)) →
      (∀ w', w' ≠ w → readyB P'.led w' = readyB x.P.led w') →
      JQ cfg.st G { x with P := P', V := V' } k := by
    intro P' V' p1 p2 p3 p4 p5 p6 p7
    have hwr : readyB P'.led w = true := by unfold readyB; rw [p4]; rfl
    have hqw : ({ x with P := P', V := V' } : SysQ).world.queue = [] := hq
    refine ⟨hc, p1, p2, ⟨k.chain, ⟨?_, p3, hN, p6, ?_, (fun y hy => by rw [hqw] at hy; cases hy),
      (fun _ => hc.symm), (fun h => absurd hqw h)⟩,
      k.chain, hcur, List.prefix_refl _⟩, hN, hcur, hnW, hnA, ?_⟩
    · show Ledger.Inv ((lenv cfg.st k.ks).ctx x.chain) P'.led k.chain
      rw [hc]; exact p5
    · have : (readyWallets P'.led (walletsOf k.ks)).contains w = true := mem_readyWallets.2 ⟨hw, hwr⟩
      show (readyWallets P'.led (walletsOf k.ks)).isEmpty = false
      cases hr : readyWallets P'.led (walletsOf k.ks) with
      | nil => rw [hr] at this; cases this
      | cons _ _ => rfl
    · intro w' hw'
      show readyB P'.led w' = true
      by_cases hww : w' = w
      · rw [hww]; exact hwr
      · rw [p7 w' hww]; exact hoth w' hw' hww
  by_cases hg : (x.V.tasks.contains (.imp w) && !importDone x.P w) = true
  · simp only [Bool.and_eq_true, Bool.not_eq_true'] at hg
    obtain ⟨P', V', l1, l2, l3, l4, l5, l6, l7, l8, l9⟩ := importLoop_ij E hN cfg.batch cfg.n hb (hshort _ hcur) hnA hw fuel
      x.P x.V hks hkeys hIJ hv hg.2 (by omega)
    have h1 : stepT cfg cr x (.importDrain w fuel) = { x with P := P', V := dropTask V' (.imp w) } := by
      simp only [stepT, hg.1, hg.2, Bool.not_false, Bool.and_self, if_true, hc, l1]
    rw [h1]
    exact hfin P' (dropTask V' (.imp w)) l2 l3 (by show V'.led.best = _; rw [l5]; exact hv) l6 l7 l8 l9
  · -- nothing to do: the stored status says the rescan is over
    have hd : importDone x.P w = true := by
      cases hdd : importDone x.P w with
      | true => rfl
      | false =>
        have := htask hdd
        exact absurd (by rw [this, hdd]; rfl) hg
    have h1 : stepT cfg cr x (.importDrain w fuel) = x := by
      simp only [stepT]
      rw [if_neg hg]
    rw [h1]
    rcases hIJ with ⟨ws, kk, hst, hk, _⟩ | ⟨hst, hI, hAR⟩
    · unfold importDone at hd; rw [hst] at hd; simp only [hk] at hd; cases hd
    · exact hfin x.P x.V hks hkeys hv hst hI hAR (fun _ _ => rfl)

/-- the window is still open in the skeleton, but the stored status says the rescan is over and nothing is queued:
    round 3's invariant holds already -/
theorem JI_done_JQ {cfg : Cfg} {G : Block} {x : SysQ} {k : Skel} {w : Wid} (hJ : JI cfg G x k w) (hq : x.queue = [])
    (hd : importDone x.P w = true) : JQ cfg.st G x k := by
  obtain ⟨hc, hks, hkeys, hw, hnW, hnA, ⟨X, hX, hIJ, hv, _, hq0⟩, hqk, hql, hN, hcur, hoth, htask⟩ := hJ
  have hXe : X = k.chain := hq0 hq
  subst hXe
  rcases hIJ with ⟨ws, kk, hst, hk, _⟩ | ⟨hst, hI, hAR⟩
  · unfold importDone at hd; rw [hst] at hd; simp only [hk] at hd; cases hd
  · have hwr : readyB x.P.led w = true := by unfold readyB; rw [hst]; rfl
    have hqw : x.world.queue = [] := hq
    refine ⟨hc, hks, hkeys, ⟨k.chain, ⟨?_, hv, hN, hAR, ?_, (fun y hy => by rw [hqw] at hy; cases hy),
      (fun _ => hc.symm), (fun h => absurd hqw h)⟩, k.chain, hcur, List.prefix_refl _⟩, hN, hcur, hnW, hnA, ?_⟩
    · show Ledger.Inv ((lenv cfg.st k.ks).ctx x.chain) x.P.led k.chain
      rw [hc]; exact hI
    · have : (readyWallets x.P.led (walletsOf k.ks)).contains w = true := mem_readyWallets.2 ⟨hw, hwr⟩
      show (readyWallets x.P.led (walletsOf k.ks)).isEmpty = false
      cases hr : readyWallets x.P.led (walletsOf k.ks) with
      | nil => rw [hr] at this; cases this
      | cons _ _ => rfl
    · intro w' hw'
      by_cases hww : w' = w
      · rw [hww]; exact hwr
      · exact hoth w' hw' hww

end MW.Lemmas.Deepen4
