/-
  Helper lemmas for C02 (reserve_release): reservations under create calls AND releases.
-/
import MW.Lemmas.FeeReserve
namespace MW.Lemmas.FeeRelease
open MW MW.Model.Select MW.Model.Fee MW.Lemmas.SelectGreedy MW.Lemmas.FeeLoop MW.Lemmas.FeeReserve

theorem holdersOf_append (a b : Reserved) (i : String) : holdersOf (a ++ b) i = holdersOf a i ++ holdersOf b i := by
  unfold holdersOf
  rw [List.filter_append, List.flatMap_append]

theorem holdersOf_filter_ne (r : Reserved) (i0 i : String) :
    holdersOf (r.filter (fun e => e.1 != i0)) i = if i = i0 then [] else holdersOf r i := by
  unfold holdersOf
  rw [List.filter_filter]
  by_cases h : i = i0
  · subst h
    simp only [if_true]
    have : r.filter (fun e => (e.1 == i) && (e.1 != i)) = [] := by
      rw [List.filter_eq_nil_iff]
      intro e _
      by_cases he : e.1 = i <;> simp [he]
    rw [this]; rfl
  · simp only [h, if_false]
    congr 1
    apply List.filter_congr
    intro e _
    by_cases he : e.1 = i
    · have : e.1 ≠ i0 := by rw [he]; exact h
      simp [he, h]
    · simp [he]

/-- one step of MarkUsedUTXO -/
theorem mem_holdersOf_step (r : Reserved) (h i0 i x : String) :
    x ∈ holdersOf ((r.filter (fun e => e.1 != i0)) ++ [(i0, h :: (holdersOf r i0).filter (· != h))]) i ↔
      (x ∈ holdersOf r i ∨ (x = h ∧ i = i0)) := by
  rw [holdersOf_append, List.mem_append, holdersOf_filter_ne]
  have hs : holdersOf [(i0, h :: (holdersOf r i0).filter (· != h))] i =
      if i = i0 then h :: (holdersOf r i0).filter (· != h) else [] := by
    unfold holdersOf
    by_cases hi : i = i0
    · subst hi; simp
    · have : (i0 == i) = false := by simpa using fun e => hi e.symm
      simp [hi, this]
  rw [hs]
  by_cases hi : i = i0
  · subst hi
    simp only [if_true, List.not_mem_nil, false_or, List.mem_cons, List.mem_filter, and_true]
    constructor
    · rintro (hx | ⟨hx, _⟩)
      · exact Or.inr hx
      · exact Or.inl hx
    · rintro (hx | hx)
      · by_cases hxh : x = h
        · exact Or.inl hxh
        · exact Or.inr ⟨hx, by simpa using hxh⟩
      · exact Or.inl hx
  · simp [hi]

theorem mem_holdersOf_markUsed (r : Reserved) (h : String) (ins : List String) (i x : String) :
    x ∈ holdersOf (markUsed r h ins) i ↔ (x ∈ holdersOf r i ∨ (x = h ∧ i ∈ ins)) := by
  unfold markUsed
  induction ins generalizing r with
  | nil => simp
  | cons i0 t ih =>
    simp only [List.foldl_cons]
    rw [ih, mem_holdersOf_step]
    simp only [List.mem_cons]
    constructor
    · rintro ((hx | ⟨hx, hi⟩) | ⟨hx, hi⟩)
      · exact Or.inl hx
      · exact Or.inr ⟨hx, Or.inl hi⟩
      · exact Or.inr ⟨hx, Or.inr hi⟩
    · rintro (hx | ⟨hx, hi | hi⟩)
      · exact Or.inl (Or.inl hx)
      · exact Or.inl (Or.inr ⟨hx, hi⟩)
      · exact Or.inr ⟨hx, hi⟩

/-- ClearUsedUTXOMark(draft h): h leaves the holders of its inputs, nothing else changes -/
theorem mem_holdersOf_clearUsed (r : Reserved) (h : String) (ins : List String) (i x : String) :
    x ∈ holdersOf (clearUsed true r h ins) i ↔ (x ∈ holdersOf r i ∧ ¬ (i ∈ ins ∧ x = h)) := by
  unfold clearUsed
  simp only [if_true]
  induction r with
  | nil => simp [holdersOf]
  | cons e t ih =>
    have hcons : ∀ (l : Reserved) (e : String × List String), holdersOf (e :: l) i = (if e.1 == i then e.2 else []) ++ holdersOf l i := by
      intro l e
      unfold holdersOf
      by_cases he : (e.1 == i) = true
      · simp [he]
      · simp [he]
    rw [hcons t e, List.mem_append]
    simp only [List.filterMap_cons]
    by_cases hin : ins.contains e.1 = true
    · simp only [hin, if_true]
      by_cases hemp : (e.2.filter (· != h)).isEmpty = true
      · simp only [hemp, if_true]
        rw [ih]
        have hall : ∀ y ∈ e.2, y = h := by
          intro y hy
          have := List.isEmpty_iff.mp hemp
          by_cases hyh : y = h
          · exact hyh
          · have : y ∈ e.2.filter (· != h) := List.mem_filter.mpr ⟨hy, by simpa using hyh⟩
            rw [List.isEmpty_iff.mp hemp] at this
            cases this
        constructor
        · rintro ⟨hx, hn⟩; exact ⟨Or.inr hx, hn⟩
        · rintro ⟨hx | hx, hn⟩
          · exfalso
            by_cases hei : (e.1 == i) = true
            · simp only [hei, if_true] at hx
              have hxh := hall x hx
              have : e.1 = i := by simpa using hei
              exact hn ⟨by rw [← this]; exact List.contains_iff_mem.mp hin, hxh⟩
            · simp [hei] at hx
          · exact ⟨hx, hn⟩
      · simp only [hemp, Bool.false_eq_true, if_false]
        rw [hcons, List.mem_append, ih]
        simp only []
        by_cases hei : (e.1 == i) = true
        · have heq : e.1 = i := by simpa using hei
          have hiin : i ∈ ins := by rw [← heq]; exact List.contains_iff_mem.mp hin
          simp only [hei, if_true, List.mem_filter]
          constructor
          · rintro (⟨hx, hne⟩ | ⟨hx, hn⟩)
            · exact ⟨Or.inl hx, fun hh => by simp [hh.2] at hne⟩
            · exact ⟨Or.inr hx, hn⟩
          · rintro ⟨hx | hx, hn⟩
            · refine Or.inl ⟨hx, ?_⟩
              have : x ≠ h := fun hh => hn ⟨hiin, hh⟩
              simpa using this
            · exact Or.inr ⟨hx, hn⟩
        · simp only [hei, Bool.false_eq_true, if_false, List.not_mem_nil, false_or]
    · simp only [hin, Bool.false_eq_true, if_false]
      rw [hcons, List.mem_append, ih]
      by_cases hei : (e.1 == i) = true
      · have heq : e.1 = i := by simpa using hei
        have hnin : i ∉ ins := by
          rw [← heq]
          intro hm
          exact hin (List.contains_iff_mem.mpr hm)
        simp only [hei, if_true]
        constructor
        · rintro (hx | ⟨hx, hn⟩)
          · exact ⟨Or.inl hx, fun hh => hnin hh.1⟩
          · exact ⟨Or.inr hx, hn⟩
        · rintro ⟨hx | hx, hn⟩
          · exact Or.inl hx
          · exact Or.inr ⟨hx, hn⟩
      · simp only [hei, Bool.false_eq_true, if_false, List.not_mem_nil, false_or]

theorem utxoUsed_of_holder (r : Reserved) (i x : String) (h : x ∈ holdersOf r i) : utxoUsed r i = true := by
  unfold holdersOf at h
  obtain ⟨e, he, _⟩ := List.mem_flatMap.mp h
  obtain ⟨hm, hk⟩ := List.mem_filter.mp he
  unfold utxoUsed
  exact List.any_eq_true.mpr ⟨e, hm, hk⟩

/-- invariant under create calls and releases -/
structure RInv (s : RSession) : Prop where
  held : ∀ d ∈ s.drafts, d.outstanding = true → ∀ i ∈ d.ins, d.holder ∈ holdersOf s.reserved i
  disjoint : s.drafts.Pairwise (fun a b => a.outstanding = true → b.outstanding = true → ∀ i ∈ a.ins, i ∉ b.ins)

theorem rinv_init : RInv {} := ⟨by simp, by simp⟩

theorem step_create_eq (s : RSession) (q : CreateReq) : s.step (.create q) =
    (match autoConstruct { coins := eligibleOf s.reserved q.addrs q.view } q.outs q.payloadLen q.userFee q.chgAddr with
    | .error _ => s
    | .ok res =>
      { reserved := markUsed s.reserved q.holder (res.ins.map (·.id)),
        drafts := s.drafts ++ [{ holder := q.holder, ins := res.ins.map (·.id) }] }) := rfl

theorem step_release_eq (s : RSession) (n : Nat) : s.step (.release n) =
    (match s.drafts[n]? with
    | none => s
    | some d => { reserved := clearUsed true s.reserved d.holder d.ins,
                  drafts := s.drafts.set n { d with outstanding := false } }) := rfl

theorem rinv_create (s : RSession) (q : CreateReq) (inv : RInv s) : RInv (s.step (.create q)) := by
  rw [step_create_eq]
  cases ha : autoConstruct { coins := eligibleOf s.reserved q.addrs q.view } q.outs q.payloadLen q.userFee q.chgAddr with
  | error e => simp only []; exact inv
  | ok res =>
    simp only []
    have hsub := autoConstruct_sub _ _ _ _ _ _ ha
    have hfresh : ∀ i ∈ res.ins.map (·.id), utxoUsed s.reserved i = false := by
      intro i hi
      obtain ⟨c, hc, e⟩ := List.mem_map.mp hi
      obtain ⟨w, _, hw, hf⟩ := mem_eligibleOf _ _ _ _ (mem_of_subMultiset hsub c hc)
      unfold eligibleFilter at hf
      simp only [Bool.and_eq_true, Bool.not_eq_true'] at hf
      have : w.id = i := by rw [← e, ← hw]; rfl
      rw [← this]
      exact hf.1.1.2
    constructor
    · intro d hd ho i hi
      rw [mem_holdersOf_markUsed]
      rcases List.mem_append.mp hd with hd | hd
      · exact Or.inl (inv.held d hd ho i hi)
      · simp only [List.mem_singleton] at hd
        subst hd
        exact Or.inr ⟨rfl, hi⟩
    · rw [List.pairwise_append]
      refine ⟨inv.disjoint, by simp, ?_⟩
      intro a ha' b hb
      simp only [List.mem_singleton] at hb
      subst hb
      intro hoa _ i hi hin
      simp only [] at hin
      have h1 := utxoUsed_of_holder _ _ _ (inv.held a ha' hoa i hi)
      have h2 := hfresh i hin
      rw [h1] at h2
      cases h2

theorem rinv_release (s : RSession) (n : Nat) (inv : RInv s)
    (hdist : s.drafts.Pairwise (fun a b => a.holder ≠ b.holder)) : RInv (s.step (.release n)) := by
  rw [step_release_eq]
  cases hd : s.drafts[n]? with
  | none => simp only []; exact inv
  | some d =>
    simp only []
    have hn : n < s.drafts.length := by
      rcases Nat.lt_or_ge n s.drafts.length with h | h
      · exact h
      · rw [List.getElem?_eq_none h] at hd; cases hd
    have hdn : s.drafts[n] = d := by
      have := List.getElem?_eq_getElem hn
      rw [this] at hd
      injection hd
    constructor
    · intro d' hd' ho i hi
      -- d' is an element of the updated list
      obtain ⟨m, hm, hget⟩ := List.getElem_of_mem hd'
      have hm' : m < s.drafts.length := by simpa using hm
      rw [List.getElem_set] at hget
      by_cases hmn : n = m
      · simp only [hmn, if_true] at hget
        subst hget
        simp at ho
      · simp only [hmn, if_false] at hget
        have hmem : d' ∈ s.drafts := by rw [← hget]; exact List.getElem_mem _
        rw [mem_holdersOf_clearUsed]
        refine ⟨inv.held d' hmem ho i hi, ?_⟩
        rintro ⟨_, heq⟩
        -- distinct drafts have distinct holders
        have hne : s.drafts[m].holder ≠ s.drafts[n].holder := by
          rcases Nat.lt_or_gt_of_ne hmn with hlt | hgt
          · exact fun e => (List.pairwise_iff_getElem.mp hdist n m hn hm' hlt) e.symm
          · exact List.pairwise_iff_getElem.mp hdist m n hm' hn hgt
        rw [hget, hdn] at hne
        exact hne heq
    · rw [List.pairwise_iff_getElem]
      intro a b ha hb hab
      have ha' : a < s.drafts.length := by simpa using ha
      have hb' : b < s.drafts.length := by simpa using hb
      rw [List.getElem_set, List.getElem_set]
      have base := List.pairwise_iff_getElem.mp inv.disjoint a b ha' hb' hab
      by_cases hna : n = a
      · simp only [hna, if_true]
        intro ho; simp at ho
      · simp only [hna, if_false]
        by_cases hnb : n = b
        · simp only [hnb, if_true]
          intro _ ho; simp at ho
        · simp only [hnb, if_false]
          exact base

/-- the draft identities (transaction ids) of the create calls in a run -/
def createHolders : List ROp → List String
  | [] => []
  | .create q :: t => q.holder :: createHolders t
  | .release _ :: t => createHolders t

structure RInv2 (s : RSession) (future : List String) : Prop where
  base : RInv s
  distinct : s.drafts.Pairwise (fun a b => a.holder ≠ b.holder)
  fresh : ∀ d ∈ s.drafts, d.holder ∉ future

theorem drafts_release (s : RSession) (n : Nat) :
    (s.step (.release n)).drafts.map (·.holder) = s.drafts.map (·.holder) := by
  rw [step_release_eq]
  cases hd : s.drafts[n]? with
  | none => rfl
  | some d =>
    simp only []
    have hn : n < s.drafts.length := by
      rcases Nat.lt_or_ge n s.drafts.length with h | h
      · exact h
      · rw [List.getElem?_eq_none h] at hd; cases hd
    have hdn : s.drafts[n] = d := by
      have := List.getElem?_eq_getElem hn
      rw [this] at hd
      injection hd
    apply List.ext_getElem
    · simp
    · intro m h1 h2
      simp only [List.getElem_map, List.getElem_set]
      by_cases hmn : n = m
      · subst hmn; simp [hdn]
      · simp [hmn]

theorem pairwise_holder_of_map {l₁ l₂ : List Draft} (h : l₁.map (·.holder) = l₂.map (·.holder))
    (hp : l₂.Pairwise (fun a b => a.holder ≠ b.holder)) : l₁.Pairwise (fun a b => a.holder ≠ b.holder) := by
  have h2 : (l₂.map (·.holder)).Pairwise (· ≠ ·) := List.pairwise_map.mpr hp
  rw [← h] at h2
  exact List.pairwise_map.mp h2

theorem rinv2_step (s : RSession) (op : ROp) (future : List String)
    (hnd : (createHolders (op :: [])  ++ future).Nodup) (inv : RInv2 s (createHolders [op] ++ future)) :
    RInv2 (s.step op) future := by
  cases op with
  | create q =>
    simp only [createHolders, List.cons_append, List.nil_append] at hnd inv
    obtain ⟨hq, _⟩ := List.nodup_cons.mp hnd
    refine ⟨rinv_create s q inv.base, ?_, ?_⟩
    · rw [step_create_eq]
      cases autoConstruct { coins := eligibleOf s.reserved q.addrs q.view } q.outs q.payloadLen q.userFee q.chgAddr with
      | error e => exact inv.distinct
      | ok res =>
        simp only []
        rw [List.pairwise_append]
        refine ⟨inv.distinct, by simp, ?_⟩
        intro a ha b hb
        simp only [List.mem_singleton] at hb
        subst hb
        intro heq
        exact inv.fresh a ha (by simp [heq])
    · rw [step_create_eq]
      cases autoConstruct { coins := eligibleOf s.reserved q.addrs q.view } q.outs q.payloadLen q.userFee q.chgAddr with
      | error e =>
        intro d hd hm
        exact inv.fresh d hd (List.mem_cons_of_mem _ hm)
      | ok res =>
        simp only []
        intro d hd hm
        rcases List.mem_append.mp hd with hd | hd
        · exact inv.fresh d hd (List.mem_cons_of_mem _ hm)
        · simp only [List.mem_singleton] at hd
          subst hd
          exact hq hm
  | release n =>
    simp only [createHolders, List.nil_append] at hnd inv
    have hmap := drafts_release s n
    refine ⟨rinv_release s n inv.base inv.distinct, pairwise_holder_of_map hmap inv.distinct, ?_⟩
    intro d hd hm
    have : d.holder ∈ (s.step (.release n)).drafts.map (·.holder) := List.mem_map_of_mem hd
    rw [hmap] at this
    obtain ⟨d', hd', heq⟩ := List.mem_map.mp this
    exact inv.fresh d' hd' (by rw [heq]; exact hm)

theorem createHolders_cons (op : ROp) (t : List ROp) : createHolders (op :: t) = createHolders [op] ++ createHolders t := by
  cases op <;> simp [createHolders]

theorem rinv2_run (ops : List ROp) (s : RSession) (hnd : (createHolders ops).Nodup) (inv : RInv2 s (createHolders ops)) :
    RInv2 (s.run ops) [] := by
  induction ops generalizing s with
  | nil => simpa [RSession.run, createHolders] using inv
  | cons op t ih =>
    rw [createHolders_cons] at hnd inv
    have h1 := rinv2_step s op (createHolders t) hnd inv
    have hnd' : (createHolders t).Nodup := (List.nodup_append.mp hnd).2.1
    have := ih (s.step op) hnd' h1
    simpa [RSession.run] using this

end MW.Lemmas.FeeRelease
