/-
  Invariants of the system model: the committed store stays strictly sorted, the batch of the
  open write transaction is always one that Put / Delete calls built from newBatch().
-/
import MW.Lemmas.KvNav
namespace MW.Model.KV
open MW MW.KV

theorem foldl_delete_inv {α : Type} (f : Batch → α → Batch)
    (hf : ∀ bt a, bt.Inv → (f bt a).Inv) (l : List α) (bt : Batch) (h : bt.Inv) : (l.foldl f bt).Inv := by
  induction l generalizing bt with
  | nil => exact h
  | cons a r ih => exact ih _ (hf bt a h)

theorem clearRange_inv (db : Store) {bt : Batch} (h : bt.Inv) (pfx : Bytes) : (clearRange db bt pfx).Inv := by
  unfold clearRange
  apply foldl_delete_inv
  · intro bt a hb; exact hb.delete _
  · apply foldl_delete_inv
    · intro bt a hb
      by_cases hd : (bt.get a.1).2 = true
      · simp [hd, hb]
      · simp only [hd, Bool.false_eq_true, if_false]; exact hb.delete _
    · exact h

theorem deleteSubs_inv (db : Store) (recur : Bucket → Batch → Except Err Batch)
    (hrec : ∀ b bt bt', bt.Inv → recur b bt = .ok bt' → bt'.Inv) (b : Bucket) :
    ∀ (l : List Bytes) (bt bt' : Batch), bt.Inv → deleteSubs db recur b l bt = .ok bt' → bt'.Inv := by
  intro l
  induction l with
  | nil => intro bt bt' h he; simp [deleteSubs] at he; subst he; exact h
  | cons n rest ih =>
    intro bt bt' h he
    simp only [deleteSubs] at he
    cases hb : b.bucket { readOnly := false, db := db, b := bt } n with
    | none => rw [hb] at he; exact ih bt bt' h he
    | some sub =>
      rw [hb] at he
      simp only at he
      cases hr : recur sub bt with
      | error e => rw [hr] at he; cases he
      | ok bt1 => rw [hr] at he; exact ih bt1 bt' (hrec sub bt bt1 h hr) he

theorem deleteBucketAux_inv (db : Store) : ∀ (fuel : Nat) (b : Bucket) (bt bt' : Batch),
    bt.Inv → deleteBucketAux db fuel b bt = .ok bt' → bt'.Inv := by
  intro fuel
  induction fuel with
  | zero => intro b bt bt' _ he; simp [deleteBucketAux] at he
  | succ fuel ih =>
    intro b bt bt' h he
    simp only [deleteBucketAux] at he
    by_cases hd : (b.depth == 1) = true
    · simp [hd] at he
    · simp only [hd, Bool.false_eq_true, if_false] at he
      cases hn : b.bucketNames { readOnly := false, db := db, b := bt } with
      | error e => rw [hn] at he; cases he
      | ok subnames =>
        rw [hn] at he
        simp only at he
        cases hr : deleteSubs db (deleteBucketAux db fuel) b subnames bt with
        | error e => rw [hr] at he; cases he
        | ok bt1 =>
          rw [hr] at he
          simp only [Except.ok.injEq] at he
          subst he
          have h1 : bt1.Inv := deleteSubs_inv db _ ih b subnames bt bt1 h hr
          exact (clearRange_inv db h1 _).delete _

/-- `tx'` continues `tx`: well-built batch, same store, same mode -/
def Tx.Continues (tx tx' : Tx) : Prop := tx'.Inv ∧ tx'.db = tx.db ∧ tx'.readOnly = tx.readOnly

theorem Tx.Continues.refl {tx : Tx} (h : tx.Inv) : tx.Continues tx := ⟨h, rfl, rfl⟩

theorem Tx.createTopLevelBucket_cont {tx : Tx} (h : tx.Inv) {n : Bytes} {tx' : Tx} {b : Bucket}
    (he : tx.createTopLevelBucket n = .ok (tx', b)) : tx.Continues tx' := by
  unfold Tx.createTopLevelBucket at he
  split at he
  · cases he
  · split at he
    · cases he
    · simp only at he
      split at he
      · cases he
      · cases he; exact ⟨⟨h.dbSorted, h.batch.put _ _⟩, rfl, rfl⟩

theorem Bucket.newBucket_cont {tx : Tx} (h : tx.Inv) {b : Bucket} {n : Bytes} {tx' : Tx} {sub : Bucket}
    (he : b.newBucket tx n = .ok (tx', sub)) : tx.Continues tx' := by
  unfold Bucket.newBucket at he
  split at he
  · cases he
  · split at he
    · cases he
    · simp only at he
      split at he
      · cases he
      · cases he; exact ⟨⟨h.dbSorted, h.batch.put _ _⟩, rfl, rfl⟩

theorem Bucket.deleteBucket_cont {tx : Tx} (h : tx.Inv) {b : Bucket} {n : Bytes} {tx' : Tx}
    (he : b.deleteBucket tx n = .ok tx') : tx.Continues tx' := by
  unfold Bucket.deleteBucket at he
  split at he
  · cases he
  · split at he
    · cases he; exact Tx.Continues.refl h
    · split at he
      · cases he
      · rename_i bt hd
        cases he
        exact ⟨⟨h.dbSorted, deleteBucketAux_inv _ _ _ _ _ h.batch hd⟩, rfl, rfl⟩

theorem Bucket.put_cont {tx : Tx} (h : tx.Inv) {b : Bucket} {k v : Bytes} {tx' : Tx}
    (he : b.put tx k v = .ok tx') : tx.Continues tx' := by
  unfold Bucket.put at he
  split at he
  · cases he
  · split at he
    · cases he
    · split at he
      · cases he
      · cases he; exact ⟨⟨h.dbSorted, h.batch.put _ _⟩, rfl, rfl⟩

theorem Bucket.delete_cont {tx : Tx} (h : tx.Inv) {b : Bucket} {k : Bytes} {tx' : Tx}
    (he : b.delete tx k = .ok tx') : tx.Continues tx' := by
  unfold Bucket.delete at he
  split at he
  · cases he
  · split at he
    · cases he; exact Tx.Continues.refl h
    · cases he; exact ⟨⟨h.dbSorted, h.batch.delete _⟩, rfl, rfl⟩

theorem Bucket.clear_cont {tx : Tx} (h : tx.Inv) {b : Bucket} {tx' : Tx}
    (he : b.clear tx = .ok tx') : tx.Continues tx' := by
  unfold Bucket.clear at he
  split at he
  · cases he
  · cases he; exact ⟨⟨h.dbSorted, clearRange_inv _ h.batch _⟩, rfl, rfl⟩

/-- every data operation leaves a well-built batch, the same store and mode -/
theorem dataOp_cont {tx : Tx} (h : tx.Inv) (op : Op) : tx.Continues (dataOp tx op).2 := by
  have hid := Tx.Continues.refl h
  cases op with
  | create s p =>
    simp only [dataOp]
    split
    · exact hid
    · split
      · split
        · rename_i he; exact Tx.createTopLevelBucket_cont h he
        · exact hid
      · split
        · exact hid
        · split
          · rename_i he; exact Bucket.newBucket_cont h he
          · exact hid
  | delb s p =>
    simp only [dataOp]
    split
    · exact hid
    · split
      · split
        · rename_i he; simp [Tx.deleteTopLevelBucket] at he
        · exact hid
      · split
        · exact hid
        · split
          · rename_i he; exact Bucket.deleteBucket_cont h he
          · exact hid
  | has s p => simp only [dataOp]; split <;> exact hid
  | names s p =>
    simp only [dataOp]
    split
    · exact hid
    · split <;> exact hid
  | put s p k v =>
    simp only [dataOp]
    split
    · exact hid
    · split
      · exact hid
      · split
        · rename_i he; exact Bucket.put_cont h he
        · exact hid
  | get s p k =>
    simp only [dataOp]
    split
    · exact hid
    · split <;> exact hid
  | del s p k =>
    simp only [dataOp]
    split
    · exact hid
    · split
      · exact hid
      · split
        · rename_i he; exact Bucket.delete_cont h he
        · exact hid
  | clear s p =>
    simp only [dataOp]
    split
    · exact hid
    · split
      · exact hid
      · split
        · rename_i he; exact Bucket.clear_cont h he
        · exact hid
  | pfx s p k =>
    simp only [dataOp]
    split
    · exact hid
    · split <;> exact hid
  | iter s p st l sc =>
    simp only [dataOp]
    split
    · exact hid
    · split <;> exact hid
  | beginW => exact hid
  | beginR => exact hid
  | commit => exact hid
  | rollback => exact hid
  | endR => exact hid
  | reopen => exact hid
  | probe => exact hid
  | raw => exact hid

/-- system invariant -/
structure Sys.Inv (s : Sys) : Prop where
  dbSorted : SMap.Sorted s.db
  batch : ∀ bt, s.w = some bt → bt.Inv
  snapSorted : ∀ snap, s.reader = some snap → SMap.Sorted snap

theorem Sys.inv_init : Sys.Inv {} := ⟨SMap.sorted_nil, (by intro bt h; cases h), (by intro sn h; cases h)⟩

theorem Sys.step_inv {s : Sys} (h : s.Inv) (op : Op) : (s.step op).1.Inv := by
  have hid : s.Inv := h
  unfold Sys.step
  cases op with
  | beginW =>
    simp only
    split
    · exact hid
    · exact ⟨h.dbSorted, (by intro bt hb; simp at hb; subst hb; exact Batch.inv_empty), h.snapSorted⟩
  | beginR =>
    simp only
    split
    · exact hid
    · exact ⟨h.dbSorted, h.batch, (by intro sn hs; simp at hs; subst hs; exact h.dbSorted)⟩
  | commit =>
    simp only
    cases hw : s.w with
    | none => exact hid
    | some bt =>
      refine ⟨?_, (by intro bt' hb; cases hb), h.snapSorted⟩
      exact Tx.commit_sorted (tx := { readOnly := false, db := s.db, b := bt }) ⟨h.dbSorted, h.batch bt hw⟩
  | rollback =>
    simp only
    cases hw : s.w with
    | none => exact hid
    | some bt => exact ⟨h.dbSorted, (by intro bt' hb; cases hb), h.snapSorted⟩
  | endR =>
    simp only
    split
    · exact ⟨h.dbSorted, h.batch, (by intro sn hs; cases hs)⟩
    · exact hid
  | reopen => simp only; split <;> exact hid
  | probe => exact hid
  | raw => exact hid
  | create sl p | delb sl p | has sl p | clear sl p | names sl p
  | put sl p k v | get sl p k | del sl p k | pfx sl p k | iter sl p a b sc =>
    simp only [slotOf]
    cases sl with
    | w =>
      simp only
      cases hw : s.w with
      | none => exact hid
      | some bt =>
        simp only
        have htx : Tx.Inv { readOnly := false, db := s.db, b := bt } := ⟨h.dbSorted, h.batch bt hw⟩
        refine ⟨h.dbSorted, ?_, h.snapSorted⟩
        intro bt' hb
        simp at hb; subst hb
        exact (dataOp_cont htx _).1.batch
    | r => simp only; split <;> exact hid

theorem run_inv : ∀ (ops : List Op) (s : Sys), s.Inv → ∀ s', s' = (ops.foldl (fun s op => (s.step op).1) s) → s'.Inv := by
  intro ops
  induction ops with
  | nil => intro s h s' he; subst he; exact h
  | cons op rest ih => intro s h s' he; exact ih _ (Sys.step_inv h op) s' he

end MW.Model.KV
