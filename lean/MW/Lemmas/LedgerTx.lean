/-
  AddRelevantTx (mined) ⊑ applyOcc: one relevant transaction of a connected block (C01 goal 1, tx level).
-/
import MW.Lemmas.LedgerFold2
import MW.Lemmas.LedgerFrame
namespace MW.Lemmas.Ledger
open MW MW.Model.Ledger MW.Spec.Chain MW.Spec.Books

theorem Loc.congr {p : Params} {own : Own} {B B' : Book} (h : Loc p own B) (hL : B'.L = B.L)
    (hC : B'.credits = B.credits) : Loc p own B' :=
  ⟨by rw [hL]; exact h.keys, by rw [hL, hC]; exact h.cred, by rw [hL]; exact h.own⟩

theorem AgreeBal.congr {ready : List Wid} {bals : Bals} {B B' : Book} (h : AgreeBal ready bals B) (hL : B'.L = B.L) :
    AgreeBal ready bals B' := by
  intro w hw; rw [hL]; exact h w hw

/-- nothing of transaction `tid` is in the books yet -/
def FreshTx (tid : TxId) (B : Book) : Prop :=
  ∀ bm j, B.credits ⟨tid, bm, j⟩ = none ∧ lookupU B.L tid j = none ∧ B.txrecs (tid, bm) = none

theorem spendFold_fresh {p : Params} {t : Tx} {bm : BlockMeta} {tid : TxId} (is : List Inp) :
    ∀ (k : Nat) (B : Book), FreshTx tid B → FreshTx tid (foldIdx (spendB p t bm) is k B) := by
  induction is with
  | nil => intro k B h; exact h
  | cons i is ih =>
    intro k B h
    rw [foldIdx_cons]
    apply ih
    cases hu : lookupU B.L i.tx i.idx with
    | none => rw [spendB_miss hu]; exact h
    | some u =>
      have hmem := (lookupU_some hu).1
      have hne : u.tx ≠ tid := by
        intro he
        exact lookupU_none (h bm u.idx).2.1 u hmem ⟨he, rfl⟩
      intro bm' j
      unfold spendB; rw [hu]
      refine ⟨?_, ?_, (h bm' j).2.2⟩
      · have : ¬ (u.credKey = (⟨tid, bm', j⟩ : CredKey)) := by
          intro he; unfold UCoin.credKey at he; injection he with h1 _ _; exact hne h1
        simp only [upd_apply, this, if_false]; exact (h bm' j).1
      · show lookupU (B.L.filter _) tid j = none
        rw [lookupU_filter, (h bm' j).2.1]; simp

theorem addCredits_eq (p : Params) (s : Store) (bals : Bals) (tr : TxRec) (blk : BlockMeta) :
    addCredits p s bals tr blk =
      (tr.relOut.foldlM (creditOne p tr blk) (s, bals) >>= fun sb =>
        Except.ok ((gameOuts tr).foldl (gameOne tr blk) sb.1, sb.2)) := by
  unfold addCredits
  cases h : tr.relOut with
  | nil => simp [gameOuts, h]
  | cons a l => simp only [List.isEmpty_cons, Bool.false_eq_true, if_false]; rfl

theorem recordMinedTx_agree {s : Store} {B : Book} {tr : TxRec} {oc : Occ} (hR : Agree s B)
    (htx : tr.tx = oc.t) (hloc : tr.loc = (oc.bm.hash, oc.ti)) :
    Agree (recordMinedTx s tr oc.bm) (recordB B oc) := by
  constructor
  · intro a b c; exact hR.unspent a b c
  · intro x; exact hR.credits x
  · intro x; exact hR.debits x
  · intro x; exact hR.game x
  · intro x
    simp only [recordMinedTx, recordB]
    rw [AMap.get_put, hR.txrecs, htx, hloc]; rfl
  · intro h
    simp only [recordMinedTx, recordB]
    rw [hR.blocks]
    cases hb : B.blocks oc.bm.height with
    | none => simp only [AMap.get_put, hR.blocks, htx]; rfl
    | some v => obtain ⟨bh, txs⟩ := v; simp only [AMap.get_put, hR.blocks, htx]; rfl
  · intro x; exact hR.addrs x

theorem addRelevantMined_refines {p : Params} {own : Own} {ready : List Wid} (hAR : AllReady own ready)
    {s : Store} {bals : Bals} {B : Book} {tr : TxRec} {oc : Occ}
    (hR : Agree s B) (hB : AgreeBal ready bals B) (hL : Loc p own B) (hG : LocG B)
    (htx : tr.tx = oc.t) (hloc : tr.loc = (oc.bm.hash, oc.ti))
    (hin : tr.relIn = if oc.t.cb then [] else hitsFrom B.L oc.t.ins 0)
    (hout : tr.relOut = ownedFrom own oc.t.outs 0)
    (htouch : touches own B oc.t = true)
    (hnd : oc.t.cb = false → (oc.t.ins.map opOf).Nodup)
    (hfresh : FreshTx oc.t.id B) :
    ∃ sb', addRelevantMined p own s bals tr oc.bm = .ok sb' ∧
      Agree sb'.1 (applyOcc p own B oc) ∧ AgreeBal ready sb'.2 (applyOcc p own B oc) ∧
      Loc p own (applyOcc p own B oc) ∧ LocG (applyOcc p own B oc) ∧ SameSync s sb'.1 := by
  -- the tx record does not exist yet
  have h0 : (AMap.get s.txrecs (tr.tx.id, oc.bm)).isSome = false := by
    rw [hR.txrecs, htx, (hfresh oc.bm 0).2.2]; rfl
  -- record
  have hR1 : Agree (recordMinedTx s tr oc.bm) (recordB B oc) := recordMinedTx_agree hR htx hloc
  have hB1 : AgreeBal ready bals (recordB B oc) := hB.congr rfl
  have hL1 : Loc p own (recordB B oc) := hL.congr rfl rfl
  have hG1 : LocG (recordB B oc) := hG
  have hF1 : FreshTx oc.t.id { recordB B oc with txrecs := B.txrecs } := hfresh
  -- spends
  have hspend : ∃ sb1, updateMinedBalance (recordMinedTx s tr oc.bm) bals tr oc.bm = .ok sb1 ∧
      Agree sb1.1 (if oc.t.cb then recordB B oc else foldIdx (spendB p oc.t oc.bm) oc.t.ins 0 (recordB B oc)) ∧
      AgreeBal ready sb1.2 (if oc.t.cb then recordB B oc else foldIdx (spendB p oc.t oc.bm) oc.t.ins 0 (recordB B oc)) ∧
      Loc p own (if oc.t.cb then recordB B oc else foldIdx (spendB p oc.t oc.bm) oc.t.ins 0 (recordB B oc)) ∧
      LocG (if oc.t.cb then recordB B oc else foldIdx (spendB p oc.t oc.bm) oc.t.ins 0 (recordB B oc)) ∧
      SameSync s sb1.1 := by
    unfold updateMinedBalance
    by_cases hcb : oc.t.cb = true
    · rw [hin]; simp only [hcb, if_true]
      exact ⟨(recordMinedTx s tr oc.bm, bals), rfl, hR1, hB1, hL1, hG1, ⟨rfl, rfl, rfl, rfl⟩⟩
    · have hcb' : oc.t.cb = false := by simpa using hcb
      rw [hin]; simp only [hcb', Bool.false_eq_true, if_false]
      have := spendFold_refines (p := p) (tr := tr) (blk := oc.bm) hAR oc.t.ins 0 (recordMinedTx s tr oc.bm) bals
        (recordB B oc) hR1 hB1 hL1 hG1 (by intro m i hm; rw [htx]; simpa using hm) (hnd hcb')
      rw [htx] at this
      obtain ⟨sb1, h1, h2, h3, h4, h5, h6⟩ := this
      exact ⟨sb1, h1, h2, h3, h4, h5, SameSync.trans (b := recordMinedTx s tr oc.bm) ⟨rfl, rfl, rfl, rfl⟩ h6⟩
  obtain ⟨sb1, hs1, hR2, hB2, hL2, hG2, hS2⟩ := hspend
  -- B2 : the books after record + spends; still nothing of this tx in credits / ledger
  have hF2 : ∀ bm j, (if oc.t.cb then recordB B oc else foldIdx (spendB p oc.t oc.bm) oc.t.ins 0 (recordB B oc)).credits
        ⟨oc.t.id, bm, j⟩ = none ∧
      lookupU (if oc.t.cb then recordB B oc else foldIdx (spendB p oc.t oc.bm) oc.t.ins 0 (recordB B oc)).L oc.t.id j = none := by
    intro bm j
    by_cases hcb : oc.t.cb = true
    · simp only [hcb, if_true]; exact ⟨(hfresh bm j).1, (hfresh bm j).2.1⟩
    · have hcb' : oc.t.cb = false := by simpa using hcb
      simp only [hcb', Bool.false_eq_true, if_false]
      have := spendFold_fresh (p := p) (t := oc.t) (bm := oc.bm) oc.t.ins 0 _ hF1 bm j
      -- the spend fold does not look at txrecs: same fold on the record with the old txrecs
      have hcr : ∀ (is : List Inp) (k : Nat) (X Y : Book), X.L = Y.L → X.credits = Y.credits →
          (foldIdx (spendB p oc.t oc.bm) is k X).L = (foldIdx (spendB p oc.t oc.bm) is k Y).L ∧
          (foldIdx (spendB p oc.t oc.bm) is k X).credits = (foldIdx (spendB p oc.t oc.bm) is k Y).credits := by
        intro is
        induction is with
        | nil => intro k X Y h1 h2; exact ⟨h1, h2⟩
        | cons i is ih =>
          intro k X Y h1 h2
          rw [foldIdx_cons, foldIdx_cons]
          apply ih
          · unfold spendB; rw [h1]; cases lookupU Y.L i.tx i.idx <;> simp [h1]
          · unfold spendB; rw [h1]; cases lookupU Y.L i.tx i.idx <;> simp [h2]
      obtain ⟨e1, e2⟩ := hcr oc.t.ins 0 (recordB B oc) { recordB B oc with txrecs := B.txrecs } rfl rfl
      rw [e1, e2]; exact ⟨this.1, this.2.1⟩
  generalize hB2def : (if oc.t.cb then recordB B oc else foldIdx (spendB p oc.t oc.bm) oc.t.ins 0 (recordB B oc)) = B2 at *
  -- the pending side does not touch the mined buckets
  have hM : MinedEq sb1.1 (removeDoubleSpends own (unpendMined sb1.1 tr.tx) tr) :=
    (minedEq_unpendMined sb1.1 tr.tx).trans (minedEq_removeDoubleSpends own _ tr)
  have hR3 := hM.agree hR2
  -- credits
  have hcreate := createFold_refines (p := p) (tr := tr) (blk := oc.bm) hAR oc.t.outs 0
    (removeDoubleSpends own (unpendMined sb1.1 tr.tx) tr) sb1.2 B2 hR3 hB2 hL2
    (by rw [htx]; exact hG2.toLocGx _) (by intro j' _; rw [htx]; exact hF2 oc.bm j')
  rw [htx] at hcreate
  obtain ⟨sb2, hs2, hR4, hB4, hL4, hG4, hS4, _⟩ := hcreate
  -- deposit records
  obtain ⟨hR5, hS5⟩ := depositFold_refines (own := own) (tr := tr) (blk := oc.bm) oc.t.outs 0 sb2.1 _ hR4
  rw [htx] at hR5
  have hBfin : applyOcc p own B oc =
      foldIdx (depositB own oc.t oc.bm) oc.t.outs 0 (foldIdx (createB p own oc.t oc.bm) oc.t.outs 0 B2) := by
    unfold applyOcc; rw [htouch, ← hB2def]; rfl
  have hdl := depositFold_L own oc.t oc.bm oc.t.outs 0 (foldIdx (createB p own oc.t oc.bm) oc.t.outs 0 B2)
  refine ⟨((gameOuts tr).foldl (gameOne tr oc.bm) sb2.1, sb2.2), ?_, ?_, ?_, ?_, ?_, ?_⟩
  · unfold addRelevantMined insertMinedTx
    simp only [h0, Bool.false_eq_true, if_false]
    rw [hs1]
    simp only [M_ok_bind, M_pure_eq]
    rw [addCredits_eq, hout, htx, hs2]
    rfl
  · rw [hBfin]
    unfold gameOuts; rw [hout]; exact hR5
  · rw [hBfin]; exact hB4.congr hdl.1
  · rw [hBfin]; exact hL4.congr hdl.1 hdl.2.1
  · rw [hBfin]
    exact locG_after_outputs (hG2.toLocGx _) (fun j => (hF2 oc.bm j).2)
  · have hM' : MinedEq sb1.1 (removeDoubleSpends own (unpendMined sb1.1 oc.t) tr) := by rw [← htx]; exact hM
    refine hS2.trans (SameSync.trans hM'.sameSync (hS4.trans ?_))
    unfold gameOuts; rw [hout]; exact hS5

end MW.Lemmas.Ledger
