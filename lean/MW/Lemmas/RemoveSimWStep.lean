import MW.Lemmas.RemoveSimWDefs
import MW.Lemmas.RemoveStep
namespace MW.Lemmas.RemoveSimW
open MW MW.Model.Ledger MW.Model.Remove MW.Lemmas.Ledger MW.Lemmas.LedgerWFCred MW.Lemmas.RemoveSim MW.Lemmas.RemoveChar
  MW.Lemmas.RemoveStep

theorem trimRec_some (deleted : List (Nat × TxId)) (h : Nat) (bh : BlkId) (l : List TxId) :
    trimRec deleted h (some (bh, l)) =
      if (l.filter (fun t => !deleted.contains (h, t))).isEmpty then none
      else some (bh, l.filter (fun t => !deleted.contains (h, t))) := rfl

/-- one RemoveRelevantTx keeps the relaxed relation (the ghost is fixed) -/
theorem subW_rrt {limit : Nat} {c : Ctx} {w : Wid} {addrs : List Addr} {g s : Store} {o : StepOut}
    (hne : addrs ≠ []) (hG : SubW w addrs g s) (hn : KeysNodup s.credits) (hGD : GhostDeb g) (hGB : GhostBlk g)
    (h : removeRelevantTx limit c s addrs = some o) : SubW w addrs g o.s := by
  obtain ⟨DEL, HOF, ERA, hR⟩ := rrt_char limit c s addrs o hne h
  have hcore := hR.core
  simp only [core, Prod.mk.injEq] at hcore
  obtain ⟨hu, ha, hg, _, hb, hst, hsy, hsyt⟩ := hcore
  have hcn : ∀ k, AMap.get s.credits k = none → AMap.get o.s.credits k = none := by
    intro k hk
    rw [hR.credits k]
    split
    · rfl
    · exact hk
  have htn : ∀ k, AMap.get s.txrecs k = none → AMap.get o.s.txrecs k = none := by
    intro k hk
    rw [hR.txrecs k]
    split
    · rfl
    · exact hk
  refine ⟨?_, ?_, ?_, ?_, hsy.trans hG.sync, hsyt.trans hG.syncedTo, hst.trans hG.status, ?_, ?_, ?_, ?_, ?_⟩
  · intro k hk; rw [hu]; exact hG.unspent k hk
  · intro k hk; rw [hg]; exact hG.game k hk
  · intro k hk; rw [ha]; exact hG.adr k hk
  · intro k hk; rw [hb]; exact hG.balance k hk
  · intro k
    rw [hR.credits k]
    by_cases hk : k ∈ DEL.map (·.1)
    · rw [if_pos hk]
      obtain ⟨e, he, rfl⟩ := List.mem_map.1 hk
      obtain ⟨hmem, hsh⟩ := hR.sub e he
      have hget : AMap.get s.credits e.1 = some e.2 := (mem_iff_get_of_nodup hn e.1 e.2).1 hmem
      rcases hG.credits e.1 with h1 | ⟨h1, _⟩
      · exact Or.inr ⟨rfl, e.2, by rw [← h1]; exact hget, hsh⟩
      · rw [hget] at h1; cases h1
    · rw [if_neg hk]; exact hG.credits k
  · intro k
    rw [hR.debits k]
    split
    · exact Or.inr rfl
    · exact hG.debits k
  · intro dk d hgd hod
    rw [hR.debits dk] at hod
    by_cases hk : dk ∈ DEL.filterMap (fun e => spKey e.2)
    · obtain ⟨e, he, hsp⟩ := List.mem_filterMap.1 hk
      obtain ⟨hmem, _⟩ := hR.sub e he
      have hget : AMap.get s.credits e.1 = some e.2 := (mem_iff_get_of_nodup hn e.1 e.2).1 hmem
      have hgc : AMap.get g.credits e.1 = some e.2 := by
        rcases hG.credits e.1 with h1 | ⟨h1, _⟩
        · rw [← h1]; exact hget
        · rw [hget] at h1; cases h1
      obtain ⟨amt, hamt⟩ := hGD e.1 e.2 dk hgc hsp
      rw [hgd] at hamt
      injection hamt with hamt
      subst hamt
      rw [hR.credits e.1, if_pos (List.mem_map.2 ⟨e, he, rfl⟩)]
    · rw [if_neg hk] at hod
      exact hcn _ (hG.debGone dk d hgd hod)
  · intro k
    rw [hR.txrecs k]
    split
    · exact Or.inr rfl
    · exact hG.txrecs k
  · intro hh
    have hGb := hG.blocks hh
    cases hgb : AMap.get g.blocks hh with
    | none =>
      rw [hgb] at hGb
      have hs : AMap.get s.blocks hh = none := hGb
      show AMap.get o.s.blocks hh = none
      rw [hR.blocks hh, hs]
      split <;> rfl
    | some r =>
      obtain ⟨bh, txs⟩ := r
      rw [hgb] at hGb
      obtain ⟨p, hp, hval⟩ := hGb
      by_cases hmem : hh ∈ ERA.map (·.2.height)
      · -- the record is trimmed
        have hq : ∀ id, (ERA.map (fun k => (k.2.height, k.1))).contains (hh, id) = true →
            AMap.get o.s.txrecs (id, ⟨hh, bh⟩) = none := by
          intro id hc
          rw [List.contains_iff_mem] at hc
          obtain ⟨k, hk, hkeq⟩ := List.mem_map.1 hc
          obtain ⟨_, _, loc, tx, hloc, _⟩ := hR.sound k hk
          have hgl : AMap.get g.txrecs k = some loc := by
            rcases hG.txrecs k with h1 | h1
            · rw [← h1]; exact hloc
            · rw [hloc] at h1; cases h1
          obtain ⟨txs', htxs'⟩ := hGB k loc hgl
          simp only [Prod.mk.injEq] at hkeq
          obtain ⟨hkh, hki⟩ := hkeq
          rw [hkh, hgb] at htxs'
          simp only [Option.some.injEq, Prod.mk.injEq] at htxs'
          have hkk : k = (id, ⟨hh, bh⟩) := by
            obtain ⟨k1, ⟨k2h, k2b⟩⟩ := k
            simp only at hkh hki htxs'
            rw [hkh, hki, htxs'.1]
          rw [hR.txrecs, ← hkk, if_pos hk]
        refine ⟨fun id => !(ERA.map (fun k => (k.2.height, k.1))).contains (hh, id) && p id, ?_, ?_⟩
        · intro id hid
          simp only [Bool.and_eq_false_iff, Bool.not_eq_false'] at hid
          rcases hid with hid | hid
          · exact hq id hid
          · exact htn _ (hp id hid)
        · rw [hR.blocks hh, if_pos hmem]
          rcases hval with hval | ⟨hval, hall⟩
          · rw [hval, trimRec_some, List.filter_filter]
            split
            · rename_i hemp
              refine Or.inr ⟨rfl, ?_⟩
              intro id hid
              rw [List.isEmpty_iff, List.filter_eq_nil_iff] at hemp
              have := hemp id hid
              simpa using this
            · exact Or.inl rfl
          · rw [hval]
            refine Or.inr ⟨rfl, ?_⟩
            intro id hid
            show (_ && p id) = false
            rw [hall id hid, Bool.and_false]
      · refine ⟨p, fun id hid => htn _ (hp id hid), ?_⟩
        rw [hR.blocks hh, if_neg hmem]
        exact hval

/-- a removal step that does not finish is one RemoveRelevantTx -/
theorem subW_removeStep_parked {limit : Nat} {c : Ctx} {w : Wid} {addrs : List Addr} {g s : Store} {o : StepOut}
    (hne : addrs ≠ []) (hG : SubW w addrs g s) (hn : KeysNodup s.credits) (hGD : GhostDeb g) (hGB : GhostBlk g)
    (h : removeStep limit c w addrs s = some o) (hf : o.finish = false) : SubW w addrs g o.s := by
  unfold removeStep at h
  split at h
  · cases h
  · rename_i o' ho'
    split at h
    · rename_i hfin
      injection h with h
      subst h
      simp only at hf
      rw [hfin] at hf
      cases hf
    · injection h with h
      subst h
      exact subW_rrt hne hG hn hGD hGB ho'

end MW.Lemmas.RemoveSimW
