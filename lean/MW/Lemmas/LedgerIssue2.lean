/-
  C01, HISTORIES WITH ADDRESS ISSUANCE (part 2): the hypotheses on a history of node events, handler steps and
  address issuances (`RunHypI`), the invariant along it (`JI`, `JI_run`), and `ledger_correct_issue` – the
  theorem `ledger_correct` of LedgerHistory2.lean for a keystore view that GROWS along the history, under C01's
  hypothesis "payments reach an address only after the wallet issued it".
-/
import MW.Lemmas.LedgerIssue
namespace MW.Lemmas.Ledger
open MW MW.Model.Ledger MW.Spec.Chain MW.Spec.Books

/-- THE HYPOTHESES ON A HISTORY `evs` WITH ADDRESS ISSUANCE from the world `x0`. "At `pre`" = in the world
    `runI e x0 pre` reached after the prefix `pre` of the history; `e.own` is never read. -/
structure RunHypI (e : Env) (G : Block) (x0 : WorldI) (evs : List EvI) : Prop where
  /-- the only block of height 0 in the block files is the genesis block -/
  genesisOnly : ∀ id x, AMap.get e.known id = some x → x.height = 0 → x = G
  /-- the `prev` pointer of the genesis block (the zero hash) is no block's id -/
  genesisPrev : ∀ id x, AMap.get e.known id = some x → x.id ≠ G.prev
  /-- the initial node chain is a well-formed valid chain from `G` made of known blocks -/
  chain0 : ChainOK { e with own := x0.own } G x0.w.chain
  /-- so is the node's chain after every node / handler event – valid for the keystore view of that moment -/
  chains : ∀ pre ev post, evs = pre ++ .node ev :: post →
    ChainOK { e with own := (runI e x0 pre).own } G (runI e x0 (pre ++ [.node ev])).w.chain
  /-- every reorganisation attaches (and announces) at least one block -/
  reorgNonempty : ∀ ev, .node ev ∈ evs → EvOK ev
  /-- PAYMENTS REACH AN ADDRESS ONLY AFTER THE WALLET ISSUED IT: when `a` is issued, no chain the node has had
      as its best chain so far (the current one included) pays `a` -/
  paid : ∀ pre a w ch post, evs = pre ++ .issue a w ch :: post →
    ∀ c ∈ chainsI e x0 pre, addrUsed c a = false
  /-- only ready wallets issue addresses -/
  issuer : ∀ a w ch, .issue a w ch ∈ evs → (readyWallets x0.w.s e.wallets).contains w = true
  /-- initially the keystore only knows ready wallets, and there is one -/
  ready : AllReady x0.own (readyWallets x0.w.s e.wallets)
  readyNe : (readyWallets x0.w.s e.wallets).isEmpty = false

/-- the static hypotheses of LedgerHistory.lean, for any keystore view -/
theorem RunHypI.envHyp {e : Env} {G : Block} {x0 : WorldI} {evs : List EvI} (H : RunHypI e G x0 evs)
    (own : Own) : EnvHyp { e with own := own } G :=
  ⟨H.genesisOnly, H.genesisPrev⟩

/-- THE INVARIANT ALONG A HISTORY WITH ISSUANCE, in the world `x` with `hist` the node chains so far: the
    invariant `JS` of the fixed-keystore histories for the CURRENT keystore view and some stored chain `S`;
    `S` is a prefix of a chain the node has had; the node's chain is well-formed and valid for the current view;
    the ready wallets are the initial ones. -/
def JI (e : Env) (G : Block) (x0 x : WorldI) (hist : List (List Block)) : Prop :=
  ∃ S, JS { e with own := x.own } G x.w S ∧ (∃ c ∈ hist, S <+: c) ∧
    ChainOK { e with own := x.own } G x.w.chain ∧
    ∀ ws, readyWallets x.w.s ws = readyWallets x0.w.s ws

/-- the initial world satisfies `JI` -/
theorem JI_init {e : Env} {G : Block} {x0 : WorldI} {evs : List EvI} (H : RunHypI e G x0 evs)
    (h0 : Inv ({ e with own := x0.own }.ctx x0.w.chain) x0.w.s x0.w.chain)
    (hv0 : x0.w.v.best = tipMeta x0.w.chain) (hq0 : x0.w.queue = []) :
    JI e G x0 x0 [x0.w.chain] :=
  ⟨x0.w.chain, ⟨h0, hv0, H.chain0, H.ready, H.readyNe, fun b hb => (by rw [hq0] at hb; cases hb),
    fun _ => rfl, fun h => absurd hq0 h⟩, ⟨_, List.mem_singleton.2 rfl, List.prefix_refl _⟩, H.chain0,
    fun _ => rfl⟩

/-- a node / handler event preserves `JI` -/
theorem JI_node {e : Env} {G : Block} {x0 x : WorldI} {hist : List (List Block)}
    (E : EnvHyp { e with own := x.own } G) (ev : Ev) (hJ : JI e G x0 x hist) (hcur : x.w.chain ∈ hist)
    (hN' : ChainOK { e with own := x.own } G (stepI e x (.node ev)).w.chain) (hev : EvOK ev) :
    JI e G x0 (stepI e x (.node ev)) (hist ++ [(stepI e x (.node ev)).w.chain]) := by
  obtain ⟨S, hJS, ⟨c, hc, hSc⟩, hN, hr⟩ := hJ
  obtain ⟨S', hJS', hpre, hr'⟩ := JS_step E ev hJS hN hN' hev
  refine ⟨S', hJS', ?_, hN', fun ws => (hr' ws).trans (hr ws)⟩
  rcases hpre with h | h
  · exact ⟨c, List.mem_append_left _ hc, h.trans hSc⟩
  · exact ⟨_, List.mem_append_left _ hcur, h⟩

/-- issuing an address that no chain of the history so far pays, for a ready wallet, preserves `JI` -/
theorem JI_issue {e : Env} {G : Block} {x0 x : WorldI} {hist : List (List Block)} {a : Addr} {w : Wid}
    {ch : Bool} (hJ : JI e G x0 x hist) (hcur : x.w.chain ∈ hist)
    (hpaid : ∀ c ∈ hist, addrUsed c a = false)
    (hw : (readyWallets x0.w.s e.wallets).contains w = true) :
    JI e G x0 (stepI e x (.issue a w ch)) (hist ++ [(stepI e x (.issue a w ch)).w.chain]) := by
  obtain ⟨S, hJS, ⟨c, hc, hSc⟩, hN, hr⟩ := hJ
  have huS : addrUsed S a = false := addrUsed_prefix hSc (hpaid c hc)
  have huN : addrUsed x.w.chain a = false := hpaid _ hcur
  have hw' : (readyWallets x.w.s e.wallets).contains w = true := by rw [hr]; exact hw
  exact ⟨S, JS_issue (e := { e with own := x.own }) hJS huS hw', ⟨c, List.mem_append_left _ hc, hSc⟩,
    ChainOK.put_own (e := { e with own := x.own }) hN huN, hr⟩

/-- `JI` holds after every prefix of a history satisfying `RunHypI` -/
theorem JI_run {e : Env} {G : Block} {x0 : WorldI} {evs : List EvI} (H : RunHypI e G x0 evs)
    (h0 : Inv ({ e with own := x0.own }.ctx x0.w.chain) x0.w.s x0.w.chain)
    (hv0 : x0.w.v.best = tipMeta x0.w.chain) (hq0 : x0.w.queue = []) :
    ∀ pre, (∃ post, evs = pre ++ post) → JI e G x0 (runI e x0 pre) (chainsI e x0 pre) := by
  intro pre
  induction pre using list_snoc_induction with
  | nil => intro _; exact JI_init H h0 hv0 hq0
  | snoc pre ev ih =>
    rintro ⟨post, heq⟩
    have heq' : evs = pre ++ ev :: post := by rw [heq, List.append_assoc]; rfl
    have hJ := ih ⟨_, heq'⟩
    have hcur := chainsI_cur_mem e x0 pre
    have hmem : ev ∈ evs := by rw [heq']; exact List.mem_append_right _ List.mem_cons_self
    rw [chainsI_snoc, runI_snoc]
    cases ev with
    | node nv =>
      have hN' := H.chains pre nv post heq'
      rw [runI_snoc] at hN'
      exact JI_node (H.envHyp _) nv hJ hcur hN' (H.reorgNonempty nv hmem)
    | issue a w ch =>
      exact JI_issue hJ hcur (H.paid pre a w ch post heq') (H.issuer a w ch hmem)

/-- `JI` at the end of the history -/
theorem JI_final {e : Env} {G : Block} {x0 : WorldI} {evs : List EvI} (H : RunHypI e G x0 evs)
    (h0 : Inv ({ e with own := x0.own }.ctx x0.w.chain) x0.w.s x0.w.chain)
    (hv0 : x0.w.v.best = tipMeta x0.w.chain) (hq0 : x0.w.queue = []) :
    JI e G x0 (runI e x0 evs) (chainsI e x0 evs) :=
  JI_run H h0 hv0 hq0 evs ⟨[], (List.append_nil _).symm⟩

/-- LEDGER CORRECTNESS OVER HISTORIES WITH ADDRESS ISSUANCE (property C01). For EVERY finite history `evs` of
    node events (`extend b`, `reorgTo k bs`), handler steps (`handle`) and address issuances (`issue a w ch`:
    the keystore view grows by `a ↦ (w, ch)`), interleaved in any order, where every address is issued before
    any best chain of the node pays it (`RunHypI.paid`), started from a wallet in sync with the node: if no
    notification is pending at the end, the wallet store satisfies the ledger invariant for the node's best
    chain AND THE FINAL KEYSTORE VIEW, and the follower's tip is the node's tip. -/
theorem ledger_correct_issue (e : Env) (G : Block) (x0 : WorldI) (evs : List EvI) (H : RunHypI e G x0 evs)
    (h0 : Inv ({ e with own := x0.own }.ctx x0.w.chain) x0.w.s x0.w.chain)
    (hv0 : x0.w.v.best = tipMeta x0.w.chain) (hq0 : x0.w.queue = []) :
    (runI e x0 evs).w.queue = [] →
      Inv ({ e with own := (runI e x0 evs).own }.ctx (runI e x0 evs).w.chain) (runI e x0 evs).w.s
          (runI e x0 evs).w.chain ∧
        (runI e x0 evs).w.v.best = tipMeta (runI e x0 evs).w.chain := by
  intro hq
  obtain ⟨S, ⟨hI, hv, _, _, _, _, hS, _⟩, _, _, _⟩ := JI_final H h0 hv0 hq0
  have := hS hq
  subst this
  exact ⟨hI, hv⟩

/-- the wallets that are ready never change along the history -/
theorem ledger_ready_issue (e : Env) (G : Block) (x0 : WorldI) (evs : List EvI) (H : RunHypI e G x0 evs)
    (h0 : Inv ({ e with own := x0.own }.ctx x0.w.chain) x0.w.s x0.w.chain)
    (hv0 : x0.w.v.best = tipMeta x0.w.chain) (hq0 : x0.w.queue = []) :
    ∀ ws, readyWallets (runI e x0 evs).w.s ws = readyWallets x0.w.s ws :=
  let ⟨_, _, _, _, hr⟩ := JI_final H h0 hv0 hq0
  hr

/-- at ANY point of the history the wallet store holds exactly the books – for the CURRENT keystore view – of
    SOME well-formed valid chain from genesis made of known blocks, a prefix of a chain the node has had, whose
    tip is the follower's tip; the keystore still only knows ready wallets -/
theorem ledger_consistent_issue (e : Env) (G : Block) (x0 : WorldI) (evs : List EvI)
    (H : RunHypI e G x0 evs)
    (h0 : Inv ({ e with own := x0.own }.ctx x0.w.chain) x0.w.s x0.w.chain)
    (hv0 : x0.w.v.best = tipMeta x0.w.chain) (hq0 : x0.w.queue = []) :
    ∃ S, Inv ({ e with own := (runI e x0 evs).own }.ctx (runI e x0 evs).w.chain) (runI e x0 evs).w.s S ∧
      (runI e x0 evs).w.v.best = tipMeta S ∧ ChainOK { e with own := (runI e x0 evs).own } G S ∧
      (∃ c ∈ chainsI e x0 evs, S <+: c) ∧
      AllReady (runI e x0 evs).own (readyWallets x0.w.s e.wallets) := by
  obtain ⟨S, ⟨hI, hv, hS, hAR, _⟩, hp, _, hr⟩ := JI_final H h0 hv0 hq0
  refine ⟨S, hI, hv, hS, hp, ?_⟩
  have := hr e.wallets
  rw [← this]; exact hAR

-- ------------------------------------------------------------------ the fixed-keystore histories are a special case

/-- a history without issuance is a history of LedgerWorld.lean for the initial keystore view -/
theorem runI_map_node (e : Env) (x : WorldI) (evs : List Ev) :
    runI e x (evs.map .node) = { x with w := runW { e with own := x.own } x.w evs } := by
  induction evs generalizing x with
  | nil => rfl
  | cons ev evs ih =>
    show runI e (stepI e x (.node ev)) (evs.map .node) = _
    rw [ih]; rfl

theorem chainsI_map_node (e : Env) (x : WorldI) (evs : List Ev) :
    chainsI e x (evs.map .node) = chainsOf { e with own := x.own } x.w evs := by
  induction evs generalizing x with
  | nil => rfl
  | cons ev evs ih =>
    show x.w.chain :: chainsI e (stepI e x (.node ev)) (evs.map .node) = _
    rw [ih]; rfl

/-- `RunHyp` (fixed keystore view `own`) gives `RunHypI` for the same history without issuance -/
theorem RunHyp.toRunHypI {e : Env} {G : Block} {w0 : World} {evs : List Ev} (H : RunHyp e G w0 evs) :
    RunHypI e G ⟨e.own, w0⟩ (evs.map .node) where
  genesisOnly := H.genesisOnly
  genesisPrev := H.genesisPrev
  chain0 := H.chains _ (chainsOf_head_mem e w0 evs)
  chains := by
    intro pre ev post heq
    obtain ⟨l₁, l₂, h1, h2, h3⟩ := List.map_eq_append_iff.1 heq
    obtain ⟨ev', l₃, h4, h5, h6⟩ := List.map_eq_cons_iff.1 h3
    cases h5
    subst h2
    have hsn : List.map EvI.node l₁ ++ [EvI.node ev] = (l₁ ++ [ev]).map EvI.node := by simp
    rw [hsn, runI_map_node, runI_map_node]
    show ChainOK e G (runW e w0 (l₁ ++ [ev])).chain
    apply H.chains
    rw [h1, h4]
    have : ∀ (w : World) (a b : List Ev), (runW e w a).chain ∈ chainsOf e w (a ++ b) := by
      intro w a
      induction a generalizing w with
      | nil => intro b; exact chainsOf_head_mem e w b
      | cons x a ih => intro b; exact List.mem_cons_of_mem _ (ih (stepW e w x) b)
    have h := this w0 (l₁ ++ [ev]) l₃
    rwa [List.append_assoc] at h
  reorgNonempty := by
    intro ev hev
    obtain ⟨ev', h1, h2⟩ := List.mem_map.1 hev
    cases h2
    exact H.reorgNonempty ev h1
  paid := by
    intro pre a w ch post heq
    obtain ⟨l₁, l₂, _, _, h3⟩ := List.map_eq_append_iff.1 heq
    obtain ⟨_, _, _, h5, _⟩ := List.map_eq_cons_iff.1 h3
    cases h5
  issuer := by
    intro a w ch hev
    obtain ⟨_, _, h2⟩ := List.mem_map.1 hev
    cases h2
  ready := H.ready
  readyNe := H.readyNe

end MW.Lemmas.Ledger
