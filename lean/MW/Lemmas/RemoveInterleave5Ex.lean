/-
  C08, interleaved removal — non-vacuity of `remove_interleaved_above` (and so of `phase2_notify_reorg`, `p2f_disc`):
  wallets and stores of `MW.Lemmas.RemoveMidCex` (store `stF` follows chain A = G – B1 – B2 with W2 flagged, step size 1);
      removal step (does not finish; the floor becomes 2, the height of B2) · the node announces B3 on top of chain A
      (W1 spends its coin of B1 and is paid twice) · a DEPTH-1 REORGANISATION: the node replaces B3 by B3' (the fork
      point is B2 = the floor: B3 is rolled back, B3' connected) · finishing removal step
  is inside `DomC`; every hypothesis holds, hence C01's invariant for W1 alone on chain A ++ [B3'].
  (The history of `RemoveMidCex` is outside `DomC`: its reorganisation replaces B1 and B2, below the floor.)
-/
import MW.Lemmas.RemoveInterleave5
import MW.Lemmas.RemoveInterleave4Ex
namespace MW.Lemmas.RemoveInterleave5Ex
open MW MW.Model.Ledger MW.Model.Remove MW.Spec.Chain MW.Spec.Books MW.Lemmas.Ledger MW.Lemmas.RemoveProj
  MW.Lemmas.RemoveInv MW.Lemmas.RemoveMain MW.Lemmas.RemoveInterleave MW.Lemmas.RemoveMidCex MW.Lemmas.RemoveGlue
  MW.Lemmas.RemoveInterleave2Ex MW.Lemmas.RemoveInterleave4Ex

def c3' : Tx := ⟨"C3'", true, [], [⟨"A1", 13, .std⟩, ⟨"A2", 6, .std⟩]⟩
def b3' : Block := ⟨"B3'", "B2", 3, [c3']⟩
def chainF : List Block := chainA ++ [b3']
def knownF : AMap.T BlkId Block := knownE ++ [("B3'", b3')]
def nodeF : Node := { chain := chainF, known := knownF }

/-- removal step · extension by B3 · reorganisation B3 → B3' · finishing removal step -/
def evsF : List IEv := [.rem, .notify nodeE b3, .notify nodeF b3', .rem]

theorem goodF : GoodChain chainF := by
  refine ⟨?_, ?_, by simp [chainF, chainA]⟩
  · intro i x h
    match i with
    | 0 => simp [chainF, chainA] at h; rw [← h]; rfl
    | 1 => simp [chainF, chainA] at h; rw [← h]; rfl
    | 2 => simp [chainF, chainA] at h; rw [← h]; rfl
    | 3 => simp [chainF, chainA] at h; rw [← h]; rfl
    | n + 4 => simp [chainF, chainA] at h
  · intro i x y hx hy
    match i with
    | 0 => simp [chainF, chainA] at hx hy; rw [← hx, ← hy]; rfl
    | 1 => simp [chainF, chainA] at hx hy; rw [← hx, ← hy]; rfl
    | 2 => simp [chainF, chainA] at hx hy; rw [← hx, ← hy]; rfl
    | n + 3 => simp [chainF, chainA] at hy

theorem knownF_F : ∀ x ∈ chainF, AMap.get knownF x.id = some x := by
  intro x hx
  change x ∈ chainA ++ [b3'] at hx
  simp only [chainA, List.cons_append, List.nil_append, List.mem_cons, List.not_mem_nil, or_false] at hx
  rcases hx with rfl | rfl | rfl | rfl <;> rfl

theorem nodeF_ok : NodeOK own g knownE nodeF b3' where
  good := goodF
  valid := by show ChainValid own chainF; decide
  genesis := rfl
  known := knownF_F
  grows := fun _ _ h => get_append_left h
  tip := rfl

theorem injAE : IdInj (chainA ++ chainE) :=
  idInj_of_known (known := knownE) (fun x hx => by
    rcases List.mem_append.1 hx with h | h
    · exact get_append_left (knownA x h)
    · exact nodeE_ok.known x h)

theorem injEF : IdInj (chainE ++ chainF) :=
  idInj_of_known (known := knownF) (fun x hx => by
    rcases List.mem_append.1 hx with h | h
    · exact get_append_left (nodeE_ok.known x h)
    · exact knownF_F x h)

/-- the states: the first step does not finish; B3 is connected; B3 is rolled back and B3' connected; the second step
    finishes -/
theorem runF2 : (irun 1 ctx "W2" ["A2"] x0 (evsF.take 2)).map (fun x => (x.fin, x.v.best.hash, x.s.credits.map (·.1.tx))) =
    some (false, "B3", ["X4", "C1", "C3", "C1"]) := by decide

theorem runF3 : (irun 1 ctx "W2" ["A2"] x0 (evsF.take 3)).map (fun x => (x.fin, x.v.best.hash, x.s.credits.map (·.1.tx))) =
    some (false, "B3'", ["C3'", "C1", "C1"]) := by decide

theorem runF4 : (irun 1 ctx "W2" ["A2"] x0 evsF).map (fun x => (x.fin, x.v.best.hash, x.s.credits.map (·.1.tx))) =
    some (true, "B3'", ["C3'", "C1"]) := by decide

/-- the pending-side clause before the two steps, by evaluation -/
theorem factsF :
    pendOKb ["A2"] x0.s x0.node.chain = true ∧
    (irun 1 ctx "W2" ["A2"] x0 (evsF.take 3)).map (fun x => pendOKb ["A2"] x.s x.node.chain) = some true := by
  decide

theorem domF : DomC 1 ctx "W2" ["A2"] g none x0 evsF := by
  obtain ⟨f0, f3⟩ := factsF
  refine ⟨pendOK_of_check f0, ?_⟩
  intro x1 h1
  have hn1 : x1.node = nodeA := istep_node h1
  simp only [evsF, List.take, irun, h1] at f3
  refine ⟨⟨by rw [hn1]; exact nodeE_ok, by rw [hn1]; exact injAE, (fun h => by cases h), ?_⟩, ?_⟩
  · intro f hf
    have hf' : (2 : Nat) = f := Option.some.inj hf
    subst hf'
    rw [hn1]; rfl
  intro x2 h2
  have hn2 : x2.node = nodeE := istep_node h2
  simp only [h2] at f3
  refine ⟨⟨by rw [hn2]; exact nodeF_ok, by rw [hn2]; exact injEF, (fun h => by cases h), ?_⟩, ?_⟩
  · intro f hf
    have hf' : (2 : Nat) = f := Option.some.inj hf
    subst hf'
    rw [hn2]; rfl
  intro x3 h3
  simp only [h3, Option.map_some, Option.some.injEq] at f3
  exact ⟨pendOK_of_check f3, fun _ _ => trivial⟩

/-- **a depth-1 reorganisation between the two removal steps (above the floor): C01's invariant for W1 alone on
    chain A ++ [B3']** -/
example (x : ISt) (h : irun 1 ctx "W2" ["A2"] x0 evsF = some x) :
    x.node = nodeF ∧ Inv { ctx with own := own', wallets := ["W1"], node := x.node } x.s x.node.chain := by
  have hr := runF4
  rw [h] at hr
  simp only [Option.map_some, Option.some.injEq, Prod.mk.injEq] at hr
  exact ⟨irun_node evsF x0 x h, remove_interleaved_above phase1_x0 static domF h hr.1 only_w1⟩

end MW.Lemmas.RemoveInterleave5Ex
