/-
  C08, non-vacuity of `remove_interleaved_below`: the D45 history of `MW.Lemmas.RemoveMidCex` (step size 1: removal step ·
  the node replaces B1 and B2 — both connected before the wallet was flagged, so below the flag height and below the
  floor — by B1', B2' · finishing removal step) is inside `DomW`; every hypothesis holds, hence — by the GENERAL theorem, not by
  evaluation — C01's invariant for W1 alone on chain B.  (Outside `DomC` at its floor clause.)
-/
import MW.Lemmas.RemoveBelow3
import MW.Lemmas.RemoveInterleave4Ex
namespace MW.Lemmas.RemoveBelowEx
open MW MW.Model.Ledger MW.Model.Remove MW.Spec.Chain MW.Spec.Books MW.Lemmas.Ledger MW.Lemmas.RemoveProj
  MW.Lemmas.RemoveInv MW.Lemmas.RemoveMain MW.Lemmas.RemoveInterleave MW.Lemmas.RemoveMidCex MW.Lemmas.RemoveGlue
  MW.Lemmas.RemoveInterleave2Ex

theorem injAB : IdInj (chainA ++ chainB) :=
  idInj_of_known (known := known) (fun x hx => by
    rcases List.mem_append.1 hx with h | h
    · exact knownA x h
    · exact nodeB_ok.known x h)

/-- the pending-side clause before the two steps, by evaluation -/
theorem factsW :
    pendOKb ["A2"] x0.s x0.node.chain = true ∧
    (irun 1 ctx "W2" ["A2"] x0 (evs.take 2)).map (fun x => pendOKb ["A2"] x.s x.node.chain) = some true := by
  decide

theorem domW : DomW 1 ctx "W2" ["A2"] g x0 evs := by
  obtain ⟨f0, f2⟩ := factsW
  refine ⟨pendOK_of_check f0, ?_⟩
  intro x1 h1
  have hn1 : x1.node = nodeA := istep_node h1
  simp only [evs, List.take, irun, h1] at f2
  refine ⟨⟨by rw [hn1]; exact nodeB_ok, by rw [hn1]; exact injAB, (fun h => by cases h)⟩, ?_⟩
  intro x2 h2
  simp only [h2, Option.map_some, Option.some.injEq] at f2
  exact ⟨pendOK_of_check f2, fun _ _ => trivial⟩

/-- **the D45 history: a reorganisation between the two removal steps that replaces the blocks connected before the
    first step** ends in C01's invariant for W1 alone on chain B — by `remove_interleaved_below` -/
theorem d45_history_inv (x : ISt) (h : irun 1 ctx "W2" ["A2"] x0 evs = some x) :
    x.node = nodeB ∧ Inv { ctx with own := own', wallets := ["W1"], node := x.node } x.s x.node.chain := by
  have hr := run_result
  rw [h] at hr
  simp only [Option.map_some, Option.some.injEq, Prod.mk.injEq] at hr
  exact ⟨irun_node evs x0 x h, remove_interleaved_below phase1_x0 static domW h hr.1 only_w1⟩

end MW.Lemmas.RemoveBelowEx
