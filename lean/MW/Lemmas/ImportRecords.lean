/-
  C07 piece (1) RECORDS: what `filterTxForImporting` yields on a transaction of the node's chain is the relevance
  record the books predict (`RecOK`: inputs that hit the ledger of the keystore being restored, owned outputs),
  and the node's script-hash index lists every transaction that touches those books.
  Setting: every address of the keystore table belongs to the wallet being restored (`AllReady own [w]`).
-/
import MW.Model.Import
import MW.Lemmas.LedgerBlock
import MW.Lemmas.LedgerChar4
namespace MW.Lemmas.ImportExact
open MW MW.Model.Ledger MW.Model.Import MW.Spec.Chain MW.Spec.Books MW.Lemmas.Ledger
local notation "touchesB" => MW.Spec.Books.touches

theorem owner_is_w {own : Own} {w : Wid} (hAR : AllReady own [w]) {a : Addr} {w' : Wid} {ch : Bool}
    (h : AMap.get own a = some (w', ch)) : w' = w := by
  have := hAR a w' ch h
  simpa using this

/-- with every address the restored wallet's, `mine` is the keystore lookup -/
theorem mine_eq {own : Own} {w : Wid} (hAR : AllReady own [w]) (a : Addr) :
    mine own w a = (AMap.get own a).map (·.2) := by
  unfold mine
  cases h : AMap.get own a with
  | none => rfl
  | some x =>
    obtain ⟨w', ch⟩ := x
    simp [owner_is_w hAR h]

theorem relOut1_eq {own : Own} {w : Wid} (hAR : AllReady own [w]) (o : Out) (j : Nat) :
    relOut1 own w (o, j) = match ownerOf own o with
      | some (w', ch) => some { index := j, out := o, wallet := w', change := ch }
      | none => none := by
  unfold relOut1 ownerOf
  by_cases hr : o.cls = .raw
  · simp [hr]
  · simp only [hr, if_false]
    rw [mine_eq hAR]
    cases h : AMap.get own o.addr with
    | none => rfl
    | some x => obtain ⟨w', ch⟩ := x; simp [owner_is_w hAR h]

/-- RelevantTxOut of the rescan = the owned outputs the books predict -/
theorem relOut_eq {own : Own} {w : Wid} (hAR : AllReady own [w]) (os : List Out) (j : Nat) :
    (os.zipIdx j).filterMap (relOut1 own w) = ownedFrom own os j := by
  induction os generalizing j with
  | nil => rfl
  | cons o os ih =>
    rw [List.zipIdx_cons, List.filterMap_cons, relOut1_eq hAR]
    unfold ownedFrom
    rw [← ih (j + 1)]
    cases h : ownerOf own o with
    | none => rfl
    | some x => obtain ⟨w', ch⟩ := x; rfl

-- ------------------------------------------------------------------ the node lookup

/-- two transactions of blocks of a chain with pairwise distinct ids and the same id are the same -/
theorem tx_unique {chain : List Block} (hn : (idsOf (occs chain)).Nodup) {b1 b2 : Block} {t1 t2 : Tx}
    (h1 : b1 ∈ chain) (h2 : b2 ∈ chain) (m1 : t1 ∈ b1.txs) (m2 : t2 ∈ b2.txs) (hid : t1.id = t2.id) : t1 = t2 := by
  obtain ⟨oc1, ho1, e1, _⟩ := char_block_occ h1 m1
  obtain ⟨oc2, ho2, e2, _⟩ := char_block_occ h2 m2
  have f1 := find_of_mem_nodup hn ho1
  have f2 := find_of_mem_nodup hn ho2
  rw [e1, hid] at f1
  rw [e2] at f2
  rw [f1] at f2
  injection f2 with f2
  rw [← e1, ← e2, f2]

/-- FetchLastTxUntilHeight finds THE transaction with that id when a block at or below `height` has one -/
theorem fetchTxUntil_of_mem {n : Node} (hn : (idsOf (occs n.chain)).Nodup) {height : Nat} {b : Block} {t : Tx}
    (hb : b ∈ n.chain.take (height + 1)) (ht : t ∈ b.txs) : fetchTxUntil n t.id height = some t := by
  unfold fetchTxUntil
  cases hf : (n.chain.take (height + 1)).reverse.findSome? (fun b => b.txs.find? (fun x => x.id = t.id)) with
  | none =>
    exfalso
    rw [List.findSome?_eq_none_iff] at hf
    have := hf b (List.mem_reverse.2 hb)
    rw [List.find?_eq_none] at this
    exact this t ht (by simp)
  | some t' =>
    obtain ⟨b', hb', hfind⟩ := List.exists_of_findSome?_eq_some hf
    have hid : t'.id = t.id := by simpa using List.find?_some hfind
    have hm' : t' ∈ b'.txs := List.mem_of_find?_eq_some hfind
    have hb'' : b' ∈ n.chain := List.mem_of_mem_take (List.mem_reverse.1 hb')
    rw [tx_unique hn hb'' (List.mem_of_mem_take hb) hm' ht hid]

-- ------------------------------------------------------------------ inputs

/-- one input of the rescan's filter: the previous output is the one `srcOut` names; it is relevant iff it is in
    the ledger of the books -/
theorem relIn1_spec {n : Node} {own : Own} {w : Wid} (hAR : AllReady own [w]) {P : List Occ} {B : Book}
    (hG : Glob own P B) {height : Nat} {i : Inp} {k : Nat} {o : Out}
    (hsrc : srcOut P i.tx i.idx = some o) (hns : (i.tx, i.idx) ∉ spentOps P)
    {pt : Tx} (hf : fetchTxUntil n i.tx height = some pt) (hpo : pt.outs[i.idx]? = some o) :
    relIn1 n own w height (i, k) = .ok (match lookupU B.L i.tx i.idx with
      | some u => some { index := k, out := u.out, wallet := u.wallet, change := u.change }
      | none => none) := by
  unfold relIn1
  simp only [hf, hpo]
  cases hu : lookupU B.L i.tx i.idx with
  | some u =>
    obtain ⟨h1, h2⟩ := glob_lookup_src' hG hu
    rw [hsrc] at h1
    injection h1 with h1
    rw [← h1] at h2
    simp only [← h1]
    unfold ownerOf at h2
    by_cases hr : o.cls = Cls.raw
    · simp [hr] at h2
    · simp only [hr, if_false] at h2 ⊢
      rw [mine_eq hAR, h2]
      simp [owner_is_w hAR h2]
  | none =>
    have h2 := glob_lookup_none' hG hns hu o hsrc
    unfold ownerOf at h2
    by_cases hr : o.cls = Cls.raw
    · simp [hr]
    · simp only [hr, if_false] at h2 ⊢
      rw [mine_eq hAR, h2]
      rfl

/-- RelevantTxIn of the rescan = the inputs that hit the ledger of the books -/
theorem relIn_eq {n : Node} {own : Own} {w : Wid} (hAR : AllReady own [w]) {P : List Occ} {B : Book}
    (hG : Glob own P B) {height : Nat} (is : List Inp) :
    ∀ (k : Nat),
      (∀ i ∈ is, ∃ o pt, srcOut P i.tx i.idx = some o ∧ (i.tx, i.idx) ∉ spentOps P ∧
        fetchTxUntil n i.tx height = some pt ∧ pt.outs[i.idx]? = some o) →
      ∃ l, (is.zipIdx k).mapM (relIn1 n own w height) = .ok l ∧ l.filterMap id = hitsFrom B.L is k := by
  induction is with
  | nil => intro k _; exact ⟨[], rfl, rfl⟩
  | cons i is ih =>
    intro k h
    obtain ⟨o, pt, h1, h2, h3, h4⟩ := h i (List.mem_cons_self ..)
    obtain ⟨l, hl, hle⟩ := ih (k + 1) (fun i' hi' => h i' (List.mem_cons_of_mem _ hi'))
    refine ⟨(match lookupU B.L i.tx i.idx with
      | some u => some { index := k, out := u.out, wallet := u.wallet, change := u.change }
      | none => none) :: l, ?_, ?_⟩
    · rw [List.zipIdx_cons, List.mapM_cons, relIn1_spec hAR hG h1 h2 h3 h4, hl]
      rfl
    · rw [List.filterMap_cons]
      unfold hitsFrom
      rw [← hle]
      cases lookupU B.L i.tx i.idx <;> rfl

-- ------------------------------------------------------------------ the whole filter

theorem mem_hitsFrom {L : List UCoin} {is : List Inp} {k : Nat} {r : Model.Ledger.Rel} (h : r ∈ hitsFrom L is k) :
    ∃ i ∈ is, ∃ u, lookupU L i.tx i.idx = some u ∧ r.out = u.out := by
  induction is generalizing k with
  | nil => simp [hitsFrom] at h
  | cons i is ih =>
    unfold hitsFrom at h
    rcases List.mem_append.1 h with h1 | h1
    · cases hu : lookupU L i.tx i.idx with
      | none => rw [hu] at h1; simp at h1
      | some u =>
        rw [hu] at h1
        simp only [List.mem_singleton] at h1
        exact ⟨i, List.mem_cons_self .., u, hu, by rw [h1]⟩
    · obtain ⟨i', hi', u, hu, hr⟩ := ih h1
      exact ⟨i', List.mem_cons_of_mem _ hi', u, hu, hr⟩

theorem mem_ownedFrom {own : Own} {os : List Out} {j : Nat} {r : Model.Ledger.Rel} (h : r ∈ ownedFrom own os j) :
    ∃ o ∈ os, (ownerOf own o).isSome = true ∧ r.out = o := by
  induction os generalizing j with
  | nil => simp [ownedFrom] at h
  | cons o os ih =>
    unfold ownedFrom at h
    rcases List.mem_append.1 h with h1 | h1
    · cases ho : ownerOf own o with
      | none => rw [ho] at h1; simp at h1
      | some x =>
        obtain ⟨w', ch⟩ := x
        rw [ho] at h1
        simp only [List.mem_singleton] at h1
        exact ⟨o, List.mem_cons_self .., by rw [ho]; rfl, by rw [h1]⟩
    · obtain ⟨o', ho', h2, hr⟩ := ih h1
      exact ⟨o', List.mem_cons_of_mem _ ho', h2, hr⟩

theorem lastBinding_mem {rels : List Model.Ledger.Rel} (h : lastBinding rels = true) :
    ∃ r ∈ rels, r.out.cls.isBinding = true := by
  unfold lastBinding at h
  cases hl : rels.getLast? with
  | none => rw [hl] at h; simp at h
  | some r =>
    rw [hl] at h
    exact ⟨r, List.mem_of_getLast? hl, by simpa using h⟩

/-- **records.** On a transaction `oc` of the chain that is valid after the transactions `P` before it, with
    the books `B` of `P`, and a node that finds every transaction of `P` by id (`hNode`):
    `filterTxForImporting` succeeds, answers "not relevant" exactly when the transaction does not touch the
    books, and otherwise yields the relevance lists the books predict. -/
theorem filterImp_spec {n : Node} {own : Own} {w : Wid} (hAR : AllReady own [w]) {P : List Occ} {B : Book}
    (hG : Glob own P B) {oc : Occ} (hV : OccValid own P oc) {height : Nat}
    (hNode : ∀ oc' ∈ P, fetchTxUntil n oc'.t.id height = some oc'.t) :
    ∃ r, filterTxForImporting n w own oc.t height = .ok r ∧
      (Spec.Books.touches own B oc.t = true → ∃ tr, r = some tr ∧ tr.tx = oc.t ∧
        tr.relIn = (if oc.t.cb then [] else hitsFrom B.L oc.t.ins 0) ∧ tr.relOut = ownedFrom own oc.t.outs 0) ∧
      (Spec.Books.touches own B oc.t = false → r = none) := by
  -- the input side
  have hins : ∃ l, (if oc.t.cb then (pure [] : Except ImpErr _) else oc.t.ins.zipIdx.mapM (relIn1 n own w height)) = .ok l ∧
      l.filterMap id = (if oc.t.cb then [] else hitsFrom B.L oc.t.ins 0) := by
    by_cases hcb : oc.t.cb = true
    · simp only [hcb, if_true]; exact ⟨[], rfl, rfl⟩
    · have hcb' : oc.t.cb = false := by simpa using hcb
      simp only [hcb', Bool.false_eq_true, if_false]
      apply relIn_eq hAR hG oc.t.ins 0
      intro i hi
      obtain ⟨o, ho⟩ := Option.isSome_iff_exists.1 (hV.2.1 hcb' i hi)
      obtain ⟨oc', hoc', hid, hget⟩ := srcOut_some_find ho
      refine ⟨o, oc'.t, ho, hV.2.2.2.1 hcb' i hi, ?_, hget⟩
      rw [← hid]; exact hNode oc' hoc'
  obtain ⟨l, hl, hle⟩ := hins
  have hout := relOut_eq hAR oc.t.outs 0
  -- emptiness = not touching
  have hemp : ((l.filterMap id).isEmpty && (oc.t.outs.zipIdx.filterMap (relOut1 own w)).isEmpty) = !Spec.Books.touches own B oc.t := by
    rw [hle, hout, ownedFrom_isEmpty]
    unfold Spec.Books.touches
    by_cases hcb : oc.t.cb = true
    · simp [hcb]
    · have hcb' : oc.t.cb = false := by simpa using hcb
      simp only [hcb', Bool.false_eq_true, if_false, hitsFrom_isEmpty]
      simp
  -- never both binding
  have hboth : (lastBinding (l.filterMap id) && lastBinding (oc.t.outs.zipIdx.filterMap (relOut1 own w))) = false := by
    cases h1 : lastBinding (l.filterMap id) with
    | false => rfl
    | true =>
      cases h2 : lastBinding (oc.t.outs.zipIdx.filterMap (relOut1 own w)) with
      | false => rfl
      | true =>
        exfalso
        rw [hle] at h1
        rw [hout] at h2
        have hcb' : oc.t.cb = false := by
          cases hcb : oc.t.cb with
          | false => rfl
          | true => rw [hcb] at h1; simp [lastBinding] at h1
        rw [hcb'] at h1
        simp only [Bool.false_eq_true, if_false] at h1
        obtain ⟨r1, hr1, hb1⟩ := lastBinding_mem h1
        obtain ⟨r2, hr2, hb2⟩ := lastBinding_mem h2
        obtain ⟨i, hi, u, hu, he1⟩ := mem_hitsFrom hr1
        obtain ⟨o, ho, hown, he2⟩ := mem_ownedFrom hr2
        have hnb := hV.2.2.2.2
        obtain ⟨hs1, hs2⟩ := glob_lookup_src' hG hu
        have a1 : oc.t.ins.any (bindingSrc own P) = true := by
          rw [List.any_eq_true]
          refine ⟨i, hi, ?_⟩
          unfold bindingSrc
          rw [hs1]
          rw [he1] at hb1
          simp [hs2, hb1]
        have a2 : oc.t.outs.any (fun o => (ownerOf own o).isSome && o.cls.isBinding) = true := by
          rw [List.any_eq_true]
          exact ⟨o, ho, by rw [hown, ← he2, hb2]; rfl⟩
        rw [hcb', a1, a2] at hnb
        simp at hnb
  have key : filterTxForImporting n w own oc.t height =
      (if ((l.filterMap id).isEmpty && (oc.t.outs.zipIdx.filterMap (relOut1 own w)).isEmpty) = true then .ok none
       else if (lastBinding (l.filterMap id) && lastBinding (oc.t.outs.zipIdx.filterMap (relOut1 own w))) = true
         then .error .other
       else .ok (some { tx := oc.t, relIn := l.filterMap id, relOut := oc.t.outs.zipIdx.filterMap (relOut1 own w),
                        hasBindingIn := lastBinding (l.filterMap id),
                        hasBindingOut := lastBinding (oc.t.outs.zipIdx.filterMap (relOut1 own w)) })) := by
    unfold filterTxForImporting
    by_cases hcb : oc.t.cb = true
    · simp only [hcb, if_true] at hl ⊢
      cases hl
      simp only [bind, Except.bind, pure, Except.pure]
      split
      · rfl
      · split <;> rfl
    · simp only [hcb, Bool.false_eq_true, if_false] at hl ⊢
      rw [hl]
      simp only [bind, Except.bind, pure, Except.pure]
      split
      · rfl
      · split <;> rfl
  rw [key]
  by_cases ht : Spec.Books.touches own B oc.t = true
  · rw [ht] at hemp
    simp only [Bool.not_true] at hemp
    simp only [hemp, hboth, Bool.false_eq_true, if_false]
    refine ⟨_, rfl, ?_, ?_⟩
    · intro _
      exact ⟨_, rfl, rfl, hle, hout⟩
    · intro hf; rw [ht] at hf; cases hf
  · have ht' : Spec.Books.touches own B oc.t = false := by simpa using ht
    rw [ht'] at hemp
    simp only [Bool.not_false] at hemp
    simp only [hemp, if_true]
    refine ⟨none, rfl, ?_, fun _ => rfl⟩
    intro hf; rw [ht'] at hf; cases hf
