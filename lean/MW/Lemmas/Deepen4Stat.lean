/-
  C06 deepening (round 4): THE WORKER'S SECOND GUARD IS REDUNDANT.
  `stepT` lets the worker run a queued task only when the stored status says the wallet is unfinished.  The real
  worker runs whatever is queued.  `StatOK` — one status entry per wallet, only stored keystores have a status entry,
  every queued task is for an unfinished wallet, no wallet is queued for a rescan and a removal at once — is an
  inductive invariant of `stepT` on ARBITRARY states (every operation of the model is walked through, as in
  Deepen4CredNodup), and on a state with `StatOK` the world without the second guard (`stepU`) takes the same step.
-/
import MW.Lemmas.Deepen4CredNodup
namespace MW.Lemmas.Deepen4
open MW MW.Model.Ledger MW.Model.Persist MW.Spec.Persist MW.Spec.Chain MW.Spec.Books MW.Lemmas.Ledger
  MW.Lemmas.PersistOp MW.Lemmas.PersistFault MW.Lemmas.PersistCrash MW.Lemmas.Deepen3 MW.Lemmas.ImportJoin

-- ------------------------------------------------------------------ 0. status tables

/-- `importDone` / `removeDone` on the ledger store -/
def impD (s : Store) (w : Wid) : Bool :=
  match AMap.get s.status w with
  | some stt => stt.synced.isNone
  | none => true

def remD (s : Store) (w : Wid) : Bool := (AMap.get s.status w).isNone

theorem importDone_eq (P : PStore) (w : Wid) : importDone P w = impD P.led w := rfl
theorem removeDone_eq (P : PStore) (w : Wid) : removeDone P w = remD P.led w := rfl

/-- what the invariant reads of a status table is kept: one entry per key, who has an entry, who is importing -/
structure SFrame (s s' : Store) : Prop where
  nodup : KeysNodup s.status → KeysNodup s'.status
  rem : ∀ w, remD s' w = remD s w
  imp : ∀ w, impD s' w = impD s w

theorem SFrame.refl (s : Store) : SFrame s s := ⟨fun h => h, fun _ => rfl, fun _ => rfl⟩

theorem SFrame.trans {a b c : Store} (h1 : SFrame a b) (h2 : SFrame b c) : SFrame a c :=
  ⟨fun h => h2.nodup (h1.nodup h), fun w => (h2.rem w).trans (h1.rem w), fun w => (h2.imp w).trans (h1.imp w)⟩

theorem SFrame.of_status {s s' : Store} (h : s'.status = s.status) : SFrame s s' := by
  refine ⟨fun hn => by rw [h]; exact hn, fun w => ?_, fun w => ?_⟩
  · unfold remD; rw [h]
  · unfold impD; rw [h]

/-- a status table mapped entry-wise by a function that keeps the key and whether the wallet is importing -/
theorem SFrame.of_map {s s' : Store} (g : Wid × WStatus → Wid × WStatus) (hk : ∀ e, (g e).1 = e.1)
    (hs : ∀ e, (g e).2.synced.isNone = e.2.synced.isNone) (h : s'.status = s.status.map g) : SFrame s s' := by
  refine ⟨fun hn => ?_, fun w => ?_, fun w => ?_⟩
  · unfold KeysNodup at hn ⊢
    rw [h, List.map_map]
    have : ((fun e : Wid × WStatus => e.1) ∘ g) = (fun e : Wid × WStatus => e.1) := by
      funext e; exact hk e
    rw [this]; exact hn
  · unfold remD
    rw [h, get_map_entries _ _ hk]
    cases AMap.get s.status w <;> rfl
  · unfold impD
    rw [h, get_map_entries _ _ hk]
    cases hg : AMap.get s.status w with
    | none => rfl
    | some st => exact hs (w, st)

-- ------------------------------------------------------------------ 1. the follower, for ANY predicate on stores

section follower
variable (Q : Store → Prop) (c : Ctx)
  (hf : ∀ (s : Store) (ready : List Wid) (b : Block) (r : Store × List TxId), Q s → filterBlock c s ready b = .ok r → Q r.1)
  (hd : ∀ (s s' : Store) (height : Nat), Q s → disconnectBlock c s height = .ok s' → Q s')
include hf hd

omit hd in
theorem gen_connectAll {ready : List Wid} : ∀ (bs : List Block) (s : Store)
    (added : List (Nat × List TxId)) (r : Store × List (Nat × List TxId)),
    Q s → connectAll c ready bs s added = .ok r → Q r.1 := by
  intro bs
  induction bs with
  | nil =>
    intro s added r hq h
    unfold connectAll at h
    have := Except.ok.inj h; subst this; exact hq
  | cons b rest ih =>
    intro s added r hq h
    unfold connectAll at h
    obtain ⟨r1, h1, h2⟩ := M_bind_ok h
    exact ih _ _ _ (hf _ _ _ _ hq h1) h2

omit hf in
theorem gen_disconnectDown {nbH : Nat} : ∀ (fuel : Nat) (s : Store) (curH : Nat) (rolled : List Nat)
    (r : Store × Nat × List Nat), Q s → disconnectDown c nbH fuel s curH rolled = .ok r → Q r.1 := by
  intro fuel
  induction fuel with
  | zero =>
    intro s curH rolled r hq h
    unfold disconnectDown at h
    cases h; exact hq
  | succ fuel ih =>
    intro s curH rolled r hq h
    unfold disconnectDown at h
    split at h
    · obtain ⟨s1, h1, h2⟩ := M_bind_ok h
      exact ih _ _ _ _ (hd _ _ _ hq h1) h2
    · cases h; exact hq

omit hf in
theorem gen_walkBack : ∀ (fuel : Nat) (w : Walk) (r : Walk × Bool),
    Q w.s → walkBack c fuel w = .ok r → Q r.1.s := by
  intro fuel
  induction fuel with
  | zero =>
    intro w r hq h
    unfold walkBack at h
    cases h; exact hq
  | succ fuel ih =>
    intro w r hq h
    unfold walkBack at h
    split at h
    · obtain ⟨s1, h1, h2⟩ := M_bind_ok h
      have hq1 := hd _ _ _ hq h1
      split at h2
      · cases h2
      · split at h2
        · cases h2
        · split at h2
          · cases h2
          · exact ih _ _ hq1 h2
    · cases h; exact hq

omit hf in
theorem gen_reorgDisconnect {s : Store} {best : BlockMeta} {nb : Block} {tc : List Block}
    {r : Store × List Nat × List Block} (hq : Q s)
    (h : reorgDisconnect c s best nb tc = .ok r) : Q r.1 := by
  unfold reorgDisconnect at h
  split at h
  · cases h; exact hq
  · obtain ⟨r1, h1, h2⟩ := M_bind_ok h
    have hq1 := gen_disconnectDown Q c hd _ _ _ _ _ hq h1
    obtain ⟨s1, curH, rolled⟩ := r1
    dsimp only at h2 hq1
    split at h2
    · cases h2
    · split at h2
      · cases h2; exact hq1
      · split at h2
        · cases h2
        · split at h2
          · cases h2
          · obtain ⟨wd, h3, h4⟩ := M_bind_ok h2
            have hq2 := gen_walkBack Q c hd _ _ _ hq1 h3
            split at h4
            · cases h4
            · obtain ⟨s3, h5, h6⟩ := M_bind_ok h4
              cases h6
              exact hd _ _ _ hq2 h5

theorem gen_reorg {s : Store} {best : BlockMeta} {newBest : Block}
    {r : Store × List Nat × List (Nat × List TxId)} (hq : Q s)
    (h : reorg c s best newBest = .ok r) : Q r.1 := by
  unfold reorg at h
  obtain ⟨r1, _, h2⟩ := M_bind_ok h
  obtain ⟨r2, h3, h4⟩ := M_bind_ok h2
  obtain ⟨r3, h5, h6⟩ := M_bind_ok h4
  cases h6
  exact gen_connectAll Q c hf _ _ _ _ (gen_reorgDisconnect Q c hd hq h3) h5

/-- `processBlock` keeps every predicate on stores that connecting a block and disconnecting a block keep (on error
    the store is returned unchanged) -/
theorem gen_processBlock {s : Store} {v : Vol} {b : Block} (h : Q s) : Q (processBlock c s v b).1 := by
  unfold processBlock
  dsimp only
  split
  · exact h
  · rename_i s' rolled added hr
    show Q s'
    split at hr
    · obtain ⟨r1, h1, h2⟩ := M_bind_ok hr
      cases h2
      exact hf _ _ _ _ h h1
    · exact gen_reorg Q c hf hd h hr

end follower

theorem sframe_filterBlock {c : Ctx} {s : Store} {ready : List Wid} {b : Block} {r : Store × List TxId}
    (h : filterBlock c s ready b = .ok r) : SFrame s r.1 :=
  SFrame.of_status (MW.Lemmas.LedgerStatus.filterBlock_status c s r.1 ready b r.2 h)

theorem sframe_disconnectBlock {c : Ctx} {s s' : Store} {height : Nat} (h : disconnectBlock c s height = .ok s') :
    SFrame s s' := by
  unfold disconnectBlock at h
  split at h
  · cases h
  · split at h
    · cases h; exact SFrame.refl _
    · obtain ⟨s1, h1, h2⟩ := M_bind_ok h
      cases h2
      have e1 := rollback_status c s s1 height h1
      refine SFrame.of_map _ ?_ ?_ (show _ = s.status.map _ from by rw [← e1]; rfl)
      · intro e
        dsimp only
        split
        · split <;> rfl
        · rfl
      · intro e
        dsimp only
        split
        · rename_i h0 hs0
          split
          · rw [hs0]; rfl
          · rfl
        · rfl

/-- THE STATUS FRAME OF THE FOLLOWER, ANY STORE: direct extension, reorganisation with any number of disconnects and
    connects, stale / duplicate / failing notification — the status table keeps its keys, and every wallet stays
    importing / not importing -/
theorem sframe_processBlock (c : Ctx) (s : Store) (v : Vol) (b : Block) : SFrame s (processBlock c s v b).1 :=
  gen_processBlock (fun s' => SFrame s s') c
    (fun _ _ _ _ hq h => hq.trans (sframe_filterBlock h))
    (fun _ _ _ hq h => hq.trans (sframe_disconnectBlock h)) (SFrame.refl s)

-- ------------------------------------------------------------------ 2. persistent stores and one Update

/-- what the invariant reads of the persistent store is kept (the keystore table may grow) -/
structure Frame (P P' : PStore) : Prop where
  led : SFrame P.led P'.led
  ks : ∀ w, w ∈ walletsOf P.ks → w ∈ walletsOf P'.ks

theorem Frame.refl (P : PStore) : Frame P P := ⟨SFrame.refl _, fun _ h => h⟩

theorem Frame.trans {a b c : PStore} (h1 : Frame a b) (h2 : Frame b c) : Frame a c :=
  ⟨h1.led.trans h2.led, fun w h => h2.ks w (h1.ks w h)⟩

theorem Frame.of_led {P : PStore} {s' : Store} (h : SFrame P.led s') : Frame P { P with led := s' } :=
  ⟨h, fun _ hw => hw⟩

theorem Frame.of_eq {P P' : PStore} (hs : P'.led.status = P.led.status) (hk : P'.ks = P.ks) : Frame P P' :=
  ⟨SFrame.of_status hs, fun w hw => by rw [hk]; exact hw⟩

/-- the phases of an Update: a predicate on the VOLATILE state that every phase preserves holds of the volatile state
    the phases end with (on success and on failure) -/
theorem runPhases_vol (R : PVol → Prop) (f : Option Nat) :
    ∀ (phs : List Phase) (cnt done : Nat) (P : PStore) (V : PVol),
    (∀ ph ∈ phs, ∀ P V P' V', ph.act P V = .ok (P', V') → R V → R V') → R V →
    R (runPhases f cnt done phs P V).2.1 := by
  intro phs
  induction phs with
  | nil =>
    intro cnt done P V _ hq
    simp only [runPhases]
    exact hq
  | cons ph rest ih =>
    intro cnt done P V hp hq
    have step : ∀ r, ph.act P V = .ok r → R (runPhases f (cnt + ph.calls) (done + 1) rest r.1 r.2).2.1 := by
      intro r ha
      exact ih _ _ _ _ (fun ph' hm => hp ph' (List.mem_cons_of_mem _ hm))
        (hp ph (List.mem_cons_self ..) _ _ r.1 r.2 ha hq)
    cases f with
    | none =>
      simp only [runPhases]
      cases ha : ph.act P V with
      | error e => exact hq
      | ok r => exact step r ha
    | some j =>
      simp only [runPhases]
      split
      · exact hq
      · cases ha : ph.act P V with
        | error e => exact hq
        | ok r => exact step r ha

/-- ONE Update (any fault): a predicate on the volatile state kept by every phase, by the repair code and by the
    post-commit code holds of the volatile state the operation leaves -/
theorem run_vol (R : PVol → Prop) (o : Op) (f : Option Nat) (P : PStore) (V : PVol)
    (hp : ∀ ph ∈ o.phases, ∀ P V P' V', ph.act P V = .ok (P', V') → R V → R V')
    (hr : ∀ d P V, R V → R (o.repair d P V)) (hpost : ∀ P0 V0 Pw V, R V → R (o.post P0 V0 Pw V))
    (hq : R V) : R (o.run f P V).V := by
  have key := runPhases_vol R f o.phases 1 0 P V hp hq
  unfold Op.run
  split
  · exact hr _ _ _ hq
  · split
    · rename_i e V' cnt done hrun
      rw [hrun] at key
      exact hr _ _ _ key
    · rename_i Pw V' cnt done hrun
      rw [hrun] at key
      split
      · exact hr _ _ _ key
      · exact hpost _ _ _ _ key

-- ------------------------------------------------------------------ 3. the operations that keep the frame

theorem frame_opBlock (env : Model.Persist.Env) (n : Nat) (b : Block) (P : PStore) (V : PVol) :
    Frame P ((opBlock env n b).run none P V).P ∧ ((opBlock env n b).run none P V).V.tasks = V.tasks := by
  obtain ⟨e1, e2, _⟩ := opBlock_processBlock env n b P V
  rw [e1, e2]
  exact ⟨Frame.of_led (sframe_processBlock _ _ _ _), rfl⟩

theorem frame_opFastForward (n : Nat) (bm : BlockMeta) (P : PStore) (V : PVol) :
    Frame P ((opFastForward n bm).run none P V).P ∧ ((opFastForward n bm).run none P V).V.tasks = V.tasks := by
  rw [run_single_none n _ (opFastForward n bm) rfl P V]
  cases hp : putSyncedTo P.led bm with
  | error e => exact ⟨Frame.refl _, rfl⟩
  | ok s' => exact ⟨Frame.of_led (SFrame.of_status (MW.Lemmas.LedgerStatus.putSyncedTo_status _ _ _ hp)), rfl⟩

theorem frame_recvTx (env : Model.Persist.Env) (nR nW : Nat) (tx : Tx) (P : PStore) (V : PVol) :
    Frame P (Model.Persist.recvTx env nR nW none tx P V).P ∧
    (Model.Persist.recvTx env nR nW none tx P V).V.tasks = V.tasks := by
  obtain ⟨h1, h2⟩ := recvTx_mined env nR nW tx P V
  exact ⟨Frame.of_eq h2.status h1, recvTx_tasks env nR nW tx P V⟩

theorem walletsOf_put_mono (ks : AMap.T Wid KsRec) (w : Wid) (r : KsRec) (w' : Wid) (h : w' ∈ walletsOf ks) :
    w' ∈ walletsOf (AMap.put ks w r) := by
  by_cases e : w' = w
  · subst e
    unfold AMap.put walletsOf
    exact List.mem_cons_self ..
  · have : w' ∈ walletsOf (AMap.erase ks w) := mem_walletsOf_erase.2 ⟨h, e⟩
    unfold AMap.put walletsOf
    exact List.mem_cons_of_mem _ this

theorem frame_opNewAddr (env : Model.Persist.Env) (nA nB nC : Nat) (stk : Bool) (f : Option Nat) (P : PStore) (V : PVol) :
    Frame P ((opNewAddr env nA nB nC stk).run f P V).P ∧ ((opNewAddr env nA nB nC stk).run f P V).V.tasks = V.tasks := by
  constructor
  · refine run_preserves (fun P' => Frame P P') _ f P V ?_ (Frame.refl P)
    intro ph hm P1 V1 P2 V2 ha hq
    refine hq.trans ?_
    simp only [opNewAddr, List.mem_cons, List.not_mem_nil, or_false] at hm
    rcases hm with hm | hm | hm | hm | hm <;> subst hm <;> dsimp only at ha
    · repeat' (split at ha)
      all_goals first
        | (cases ha; done)
        | (cases ha; exact ⟨SFrame.refl _, fun w' hw' => walletsOf_put_mono _ _ _ _ hw'⟩)
    all_goals
      repeat' (split at ha)
      all_goals first
        | (cases ha; done)
        | (cases ha; exact Frame.refl _)
        | (cases ha; exact Frame.of_eq rfl rfl)
  · refine run_vol (fun V' => V'.tasks = V.tasks) _ f P V ?_ (fun _ _ _ h => h) (fun _ _ _ _ h => h) rfl
    intro ph hm P1 V1 P2 V2 ha hq
    simp only [opNewAddr, List.mem_cons, List.not_mem_nil, or_false] at hm
    rcases hm with hm | hm | hm | hm | hm <;> subst hm <;> dsimp only at ha
    all_goals
      repeat' (split at ha)
      all_goals first
        | (cases ha; done)
        | (cases ha; exact hq)

theorem useWallet_tasks {P : PStore} {V v : PVol} {w : Wid} (h : useWallet P V w = some v) : v.tasks = V.tasks := by
  unfold useWallet at h
  repeat' (split at h)
  all_goals first
    | (cases h; done)
    | (cases h; rfl)

-- ------------------------------------------------------------------ 4. Start after a crash

/-- the state of Start between two of its steps: the frame holds and no task has been queued yet -/
def BootOK (P0 P : PStore) (V : PVol) : Prop := Frame P0 P ∧ V.tasks = []

theorem boot_opBlock (P0 : PStore) (env : Model.Persist.Env) (n : Nat) (b : Block) (P : PStore) (V : PVol)
    (h : BootOK P0 P V) : BootOK P0 ((opBlock env n b).run none P V).P ((opBlock env n b).run none P V).V := by
  obtain ⟨f1, f2⟩ := frame_opBlock env n b P V
  exact ⟨h.1.trans f1, f2.trans h.2⟩

theorem boot_opFastForward (P0 : PStore) (n : Nat) (bm : BlockMeta) (P : PStore) (V : PVol)
    (h : Frame P0 P) (ht : V.tasks = []) :
    BootOK P0 ((opFastForward n bm).run none P V).P ((opFastForward n bm).run none P V).V := by
  obtain ⟨f1, f2⟩ := frame_opFastForward n bm P V
  exact ⟨h.trans f1, f2.trans ht⟩

theorem boot_catchUp (P0 : PStore) (env : Model.Persist.Env) (n : Nat) : ∀ (fuel cur : Nat) (P : PStore) (V : PVol) (k : Nat),
    BootOK P0 P V → BootOK P0 (catchUp env n fuel cur P V k).P (catchUp env n fuel cur P V k).V := by
  intro fuel
  induction fuel with
  | zero => intro cur P V k h; exact h
  | succ fuel ih =>
    intro cur P V k h
    unfold catchUp
    split
    · exact h
    · split
      · exact h
      · dsimp only
        split
        · exact ih _ _ _ _ (boot_opBlock P0 env n _ P V h)
        · exact boot_opBlock P0 env n _ P V h

theorem boot_fastForward (P0 : PStore) (env : Model.Persist.Env) (n limit : Nat) : ∀ (fuel cur : Nat) (P : PStore) (V : PVol) (k : Nat),
    BootOK P0 P V → BootOK P0 (fastForward env n limit fuel cur P V k).1.P (fastForward env n limit fuel cur P V k).1.V := by
  intro fuel
  induction fuel with
  | zero => intro cur P V k h; exact h
  | succ fuel ih =>
    intro cur P V k h
    unfold fastForward
    split
    · split
      · exact h
      · dsimp only
        split
        · exact ih _ _ _ _ (boot_opFastForward P0 n _ P _ h.1 h.2)
        · exact boot_opFastForward P0 n _ P _ h.1 h.2
    · exact h

theorem boot_resync (P0 : PStore) (env : Model.Persist.Env) (n : Nat) (P : PStore) (V : PVol) (h : BootOK P0 P V) :
    BootOK P0 (resync env n P V).P (resync env n P V).V := by
  unfold resync
  split
  · exact h
  · dsimp only
    split
    · exact h
    · split
      · exact boot_opBlock P0 env n _ P V h
      · exact h

/-- Start after the resync step: the frame holds, and the task queue is empty (a step failed) or `initTaskChan`'s -/
theorem boot_startCore (P0 : PStore) (env : Model.Persist.Env) (n : Nat) (P : PStore) (V : PVol) (k0 : Nat)
    (h : BootOK P0 P V) : Frame P0 (startCore env n P V k0).P ∧
      ((startCore env n P V k0).V.tasks = [] ∨ (startCore env n P V k0).V.tasks = requeue (startCore env n P V k0).P) := by
  unfold startCore
  dsimp only
  split
  · have key := boot_fastForward P0 env n (env.node.tipHeight - Gen.Updates.ffGap) (env.node.tipHeight + 1)
      (P.led.syncedTo + 1) P V k0 h
    generalize fastForward env n (env.node.tipHeight - Gen.Updates.ffGap) (env.node.tipHeight + 1)
      (P.led.syncedTo + 1) P V k0 = e at key ⊢
    obtain ⟨r1, cur⟩ := e
    dsimp only at key ⊢
    split
    · exact ⟨key.1, Or.inl key.2⟩
    · have k2 := boot_catchUp P0 env n (env.node.tipHeight + 1) cur r1.P r1.V r1.commits key
      split
      · exact ⟨k2.1, Or.inl k2.2⟩
      · exact ⟨k2.1, Or.inr rfl⟩
  · split
    · exact ⟨h.1, Or.inl h.2⟩
    · have k2 := boot_catchUp P0 env n (env.node.tipHeight + 1) (P.led.syncedTo + 1) P V k0 h
      split
      · exact ⟨k2.1, Or.inl k2.2⟩
      · exact ⟨k2.1, Or.inr rfl⟩

/-- a process crash: boot, then Start (resync, fast-forward, catch-up, initTaskChan) -/
theorem frame_crash (env : Model.Persist.Env) (n : Nat) (P : PStore) :
    Frame P (Model.Persist.crash env n P).P ∧
    ((Model.Persist.crash env n P).V.tasks = [] ∨
      (Model.Persist.crash env n P).V.tasks = requeue (Model.Persist.crash env n P).P) := by
  have h0 : BootOK P P (bootVol P) := ⟨Frame.refl P, rfl⟩
  have h1 := boot_resync P env n P (bootVol P) h0
  show Frame P (start env n P (bootVol P)).P ∧ ((start env n P (bootVol P)).V.tasks = [] ∨
    (start env n P (bootVol P)).V.tasks = requeue (start env n P (bootVol P)).P)
  unfold start
  dsimp only
  split
  · exact ⟨h1.1, Or.inl h1.2⟩
  · exact boot_startCore P env n _ _ _ h1

-- ------------------------------------------------------------------ 5. one batch of the rescan

theorem status_recordForImporting {s s' : Store} {tr : TxRec} {blk : BlockMeta}
    (h : Model.Import.recordForImporting s tr blk = .ok s') : s'.status = s.status := by
  unfold Model.Import.recordForImporting at h
  repeat' (split at h)
  all_goals first
    | (cases h; done)
    | (cases h; rfl)

theorem status_insertMinedTxForImporting {own : Own} {s s' : Store} {bals bals' : Bals} {tr : TxRec} {blk : BlockMeta}
    (h : Model.Import.insertMinedTxForImporting own s bals tr blk = .ok (s', bals')) : s'.status = s.status := by
  unfold Model.Import.insertMinedTxForImporting at h
  split at h
  · cases h
  · rename_i s0 hs0
    split at h
    · cases h
    · rename_i sX bX hr2
      cases h
      show (removeDoubleSpends own (unpendMined sX tr.tx) tr).status = s.status
      rw [(minedEq_removeDoubleSpends own _ tr).status, (minedEq_unpendMined _ tr.tx).status,
        MW.Lemmas.LedgerStatus.updateMinedBalance_status _ _ _ _ _ _ hr2, status_recordForImporting hs0]

theorem status_addRelevantTxForImporting {p : Params} {own : Own} {s s' : Store} {bals bals' : Bals} {tr : TxRec}
    {blk : BlockMeta} (h : Model.Import.addRelevantTxForImporting p own s bals tr blk = .ok (s', bals')) :
    s'.status = s.status := by
  unfold Model.Import.addRelevantTxForImporting at h
  simp only [bind, Except.bind] at h
  split at h
  · cases h
  · rename_i r hr
    obtain ⟨s1, b1⟩ := r
    have h1 : s1.status = s.status := status_insertMinedTxForImporting hr
    dsimp only at h
    split at h
    · rename_i r3 hr3
      simp only [pure, Except.pure] at h
      cases h
      exact (MW.Lemmas.LedgerStatus.addCredits_status p s1 s' b1 bals' tr blk hr3).trans h1
    · cases h

/-- applying one planned item of a batch never touches the status bucket -/
theorem status_applyItem {c : Ctx} {w : Wid} {acc acc' : Store × Bals} {it : Model.Import.Item}
    (h : Model.Import.applyItem c w acc it = .ok acc') : acc'.1.status = acc.1.status := by
  unfold Model.Import.applyItem at h
  simp only [bind, Except.bind] at h
  split at h
  · cases h
  · split at h
    · simp only [pure, Except.pure] at h
      cases h
      rfl
    · split at h
      · rename_i r hr
        simp only [pure, Except.pure] at h
        cases h
        exact status_addRelevantTxForImporting (s' := acc'.1) (bals' := acc'.2) hr
      · cases h
      · cases h

/-- the model of one rescan batch: the status table gets one `AMap.put` on the entry of `w`, which existed -/
theorem importStep_status {batch : Nat} {c : Ctx} {w : Wid} {s s' : Store} {v v' : Vol} {fin : Bool}
    (h : Model.Import.importStep batch c w s v = .ok (s', v', fin)) :
    ∃ ws ws', AMap.get s.status w = some ws ∧ s'.status = AMap.put s.status w ws' := by
  unfold Model.Import.importStep at h
  split at h
  · cases h
  · rename_i hd hhd
    dsimp only at h
    split at h
    · cases h
    · rename_i s1 bals1 hr
      have h1 : s1.status = s.status :=
        foldlM_frameE (Model.Import.applyItem c w) (fun (a : Store × Bals) => a.1.status)
          (fun b a b' hb => status_applyItem hb) _ (s, [(w, hd.bal)]) (s1, bals1) hr
      cases h
      have hws : ∃ ws, AMap.get s.status w = some ws := by
        unfold Model.Import.batchHead at hhd
        split at hhd
        · cases hhd
        · split at hhd
          · cases hhd
          · rename_i ws hws
            exact ⟨ws, hws⟩
      obtain ⟨ws, hws⟩ := hws
      refine ⟨ws, Model.Import.statusAfter hd.ws hd.stop hd.best, hws, ?_⟩
      show AMap.put s1.status w _ = _
      rw [h1]

/-- what a rescan of `w` may do to the persistent store: the entry of `w` is rewritten, nothing else the invariant
    reads changes -/
structure ImpRel (w : Wid) (P P' : PStore) : Prop where
  nodup : KeysNodup P.led.status → KeysNodup P'.led.status
  rem : ∀ w', removeDone P' w' = removeDone P w'
  imp : ∀ w', w' ≠ w → importDone P' w' = importDone P w'
  ks : P'.ks = P.ks

theorem ImpRel.refl (w : Wid) (P : PStore) : ImpRel w P P := ⟨fun h => h, fun _ => rfl, fun _ _ => rfl, rfl⟩

theorem ImpRel.trans {w : Wid} {a b c : PStore} (h1 : ImpRel w a b) (h2 : ImpRel w b c) : ImpRel w a c :=
  ⟨fun h => h2.nodup (h1.nodup h), fun w' => (h2.rem w').trans (h1.rem w'),
    fun w' hw' => (h2.imp w' hw').trans (h1.imp w' hw'), h2.ks.trans h1.ks⟩

/-- ONE RESCAN BATCH: store relation, task queue -/
theorem impRel_importStep (batch n : Nat) (env : Model.Persist.Env) (w : Wid) (P : PStore) (V : PVol) :
    ImpRel w P ((opImportStep batch n env w).run none P V).P ∧
    ((opImportStep batch n env w).run none P V).V.tasks = V.tasks := by
  rw [importStep_none]
  cases hs : Model.Import.importStep batch (ctxOf env V) w P.led V.led with
  | error e => exact ⟨ImpRel.refl w P, rfl⟩
  | ok r =>
    obtain ⟨s', v', fin⟩ := r
    obtain ⟨ws, ws', hws, hst⟩ := importStep_status hs
    refine ⟨⟨fun hn => ?_, fun w' => ?_, fun w' hw' => ?_, rfl⟩, rfl⟩
    · show KeysNodup s'.status
      rw [hst]; exact keysNodup_put hn _ _
    · show (AMap.get s'.status w').isNone = (AMap.get P.led.status w').isNone
      rw [hst, AMap.get_put]
      by_cases e : w = w'
      · subst e; rw [if_pos rfl, hws]; rfl
      · rw [if_neg e]
    · show impD (s' : Store) w' = impD P.led w'
      unfold impD
      rw [hst, AMap.get_put, if_neg (fun e => hw' e.symm)]

theorem impRel_importLoop (batch n : Nat) (env : Model.Persist.Env) (w : Wid) : ∀ (fuel : Nat) (P : PStore) (V : PVol)
    (P' : PStore) (V' : PVol), importLoop batch n env w fuel P V = some (P', V') →
    ImpRel w P P' ∧ V'.tasks = V.tasks := by
  intro fuel
  induction fuel with
  | zero => intro P V P' V' hl; cases hl
  | succ fuel ih =>
    intro P V P' V' hl
    rw [importLoop_succ] at hl
    obtain ⟨h1, h2⟩ := impRel_importStep batch n env w P V
    split at hl
    · cases hl
    · split at hl
      · cases hl; exact ⟨h1, h2⟩
      · obtain ⟨i1, i2⟩ := ih _ _ _ _ hl
        exact ⟨h1.trans i1, i2.trans h2⟩

-- ------------------------------------------------------------------ 6. one iteration of the removal

/-- the model of one iteration of the removal, ANY address list: the status table is untouched, or — the finishing
    iteration — loses the entry of `w` -/
theorem removeStep_status_any {limit : Nat} {c : Ctx} {w : Wid} {addrs : List Addr} {s : Store}
    {o : Model.Remove.StepOut} (h : Model.Remove.removeStep limit c w addrs s = some o) :
    (o.finish = false ∧ o.s.status = s.status) ∨ (o.finish = true ∧ o.s.status = AMap.erase s.status w) := by
  cases addrs with
  | nil =>
    right
    have : Model.Remove.removeStep limit c w [] s =
        some ⟨{ Model.Remove.removeWalletIndexes s w with status := AMap.erase s.status w }, [], true⟩ := rfl
    rw [this] at h
    cases h
    exact ⟨rfl, rfl⟩
  | cons a l =>
    obtain ⟨h1, h2⟩ := removeStep_model_status (by simp) h
    cases hf : o.finish with
    | false => exact Or.inl ⟨rfl, h1 hf⟩
    | true => exact Or.inr ⟨rfl, h2 hf⟩

/-- what a removal of `w` may do to the persistent store: nothing to status table and keystore table, or both lose `w` -/
def RemRel (w : Wid) (P P' : PStore) : Prop :=
  (P'.led.status = P.led.status ∧ P'.ks = P.ks) ∨
  (P'.led.status = AMap.erase P.led.status w ∧ P'.ks = AMap.erase P.ks w)

theorem RemRel.refl (w : Wid) (P : PStore) : RemRel w P P := Or.inl ⟨rfl, rfl⟩

theorem RemRel.trans {w : Wid} {a b c : PStore} (h1 : RemRel w a b) (h2 : RemRel w b c) : RemRel w a c := by
  rcases h1 with ⟨a1, a2⟩ | ⟨a1, a2⟩ <;> rcases h2 with ⟨b1, b2⟩ | ⟨b1, b2⟩
  · exact Or.inl ⟨b1.trans a1, b2.trans a2⟩
  · exact Or.inr ⟨by rw [b1, a1], by rw [b2, a2]⟩
  · exact Or.inr ⟨by rw [b1, a1], by rw [b2, a2]⟩
  · exact Or.inr ⟨by rw [b1, a1, erase_erase], by rw [b2, a2, erase_erase]⟩

/-- ONE ITERATION OF THE REMOVAL (any fault): store relation, task queue -/
theorem remRel_removeStep (limit nR : Nat) (env : Model.Persist.Env) (w : Wid) (addrs : List Addr) (f : Option Nat)
    (P : PStore) (V : PVol) :
    RemRel w P ((opRemoveStep limit nR env w addrs).run f P V).P ∧
    ((opRemoveStep limit nR env w addrs).run f P V).V.tasks = V.tasks := by
  constructor
  · refine run_preserves (fun P' => RemRel w P P') _ f P V ?_ (RemRel.refl w P)
    intro ph hm P1 V1 P2 V2 ha hq
    refine hq.trans ?_
    simp only [opRemoveStep, List.mem_cons, List.not_mem_nil, or_false] at hm
    rcases hm with hm | hm
    · subst hm
      dsimp only at ha
      split at ha
      · cases ha
      · rename_i o ho
        cases ha
        rcases removeStep_status_any ho with ⟨hf, hs⟩ | ⟨hf, hs⟩
        · refine Or.inl ⟨hs, ?_⟩
          simp only [hf, Bool.false_eq_true, if_false]
        · refine Or.inr ⟨hs, ?_⟩
          simp only [hf, if_true]
    · subst hm
      cases ha
      exact RemRel.refl w _
  · refine run_vol (fun V' => V'.tasks = V.tasks) _ f P V ?_ ?_ ?_ rfl
    · intro ph hm P1 V1 P2 V2 ha hq
      simp only [opRemoveStep, List.mem_cons, List.not_mem_nil, or_false] at hm
      rcases hm with hm | hm
      · subst hm
        dsimp only at ha
        split at ha
        · cases ha
        · cases ha; exact hq
      · subst hm
        cases ha
        split
        · exact hq
        · exact hq
    · intro d P1 V1 hq
      simp only [opRemoveStep]
      split <;> exact hq
    · intro P0 V0 Pw V1 hq
      simp only [opRemoveStep]
      split <;> exact hq

theorem remRel_removeLoop (limit nR : Nat) (env : Model.Persist.Env) (w : Wid) (addrs : List Addr) :
    ∀ (fuel : Nat) (P : PStore) (V : PVol) (P' : PStore) (V' : PVol),
    removeLoop limit nR env w addrs fuel P V = some (P', V') → RemRel w P P' ∧ V'.tasks = V.tasks := by
  intro fuel
  induction fuel with
  | zero => intro P V P' V' hl; cases hl
  | succ fuel ih =>
    intro P V P' V' hl
    rw [removeLoop_succ] at hl
    obtain ⟨h1, h2⟩ := remRel_removeStep limit nR env w addrs none P V
    split at hl
    · cases hl
    · split at hl
      · cases hl; exact ⟨h1, h2⟩
      · obtain ⟨i1, i2⟩ := ih _ _ _ _ hl
        exact ⟨h1.trans i1, i2.trans h2⟩

-- ------------------------------------------------------------------ 7. THE INVARIANT

/-- the stored status says the task still has work to do -/
def unfinished (P : PStore) : Task → Bool
  | .imp w => !importDone P w
  | .rem w => !removeDone P w

/-- the wallet a task is about -/
def taskWid : Task → Wid
  | .imp w => w
  | .rem w => w

/-- the other kind of task for the same wallet -/
def otherTask : Task → Task
  | .imp w => .rem w
  | .rem w => .imp w

/-- THE INVARIANT.  (`excl` is the strengthening the finishing iteration of a removal needs: it erases the status entry,
    after which a queued rescan of the same wallet would count as finished.) -/
structure StatOK (x : SysQ) : Prop where
  nodup : KeysNodup x.P.led.status                               -- one status entry per wallet
  dom : ∀ e ∈ x.P.led.status, e.1 ∈ walletsOf x.P.ks            -- only stored keystores have a status entry
  tasks : ∀ t ∈ x.V.tasks, unfinished x.P t = true               -- queued tasks are for unfinished wallets
  excl : ∀ w, Task.imp w ∈ x.V.tasks → Task.rem w ∉ x.V.tasks   -- no wallet is queued for a rescan AND a removal

theorem dom_iff (s : Store) (W : List Wid) : (∀ e ∈ s.status, e.1 ∈ W) ↔ ∀ w, remD s w = false → w ∈ W := by
  constructor
  · intro h w hw
    unfold remD at hw
    cases hg : AMap.get s.status w with
    | none => rw [hg] at hw; cases hw
    | some v => exact h (w, v) (amap_mem_of_get hg)
  · intro h e he
    apply h
    unfold remD
    have hm : e.1 ∈ s.status.map (·.1) := List.mem_map.2 ⟨e, he, rfl⟩
    cases hg : AMap.get s.status e.1 with
    | none => exact absurd hm (amap_get_none_iff.1 hg)
    | some v => rfl

/-- an unfinished task has a status entry -/
theorem unfinished_entry {P : PStore} {t : Task} (h : unfinished P t = true) :
    ∃ v, AMap.get P.led.status (taskWid t) = some v := by
  cases t with
  | imp w =>
    simp only [unfinished, importDone, taskWid] at h ⊢
    cases hg : AMap.get P.led.status w with
    | none => rw [hg] at h; cases h
    | some v => exact ⟨v, rfl⟩
  | rem w =>
    simp only [unfinished, removeDone, taskWid] at h ⊢
    cases hg : AMap.get P.led.status w with
    | none => rw [hg] at h; cases h
    | some v => exact ⟨v, rfl⟩

/-- `unfinished` reads the entry of the task's wallet only -/
theorem unfinished_congr {P P' : PStore} {t : Task}
    (h : AMap.get P'.led.status (taskWid t) = AMap.get P.led.status (taskWid t)) : unfinished P' t = unfinished P t := by
  cases t with
  | imp w => simp only [unfinished, importDone]; simp only [taskWid] at h; rw [h]
  | rem w => simp only [unfinished, removeDone]; simp only [taskWid] at h; rw [h]

theorem mem_dropTask {V : PVol} {t t' : Task} : t' ∈ (dropTask V t).tasks ↔ t' ∈ V.tasks ∧ t' ≠ t := by
  unfold dropTask
  simp only [List.mem_filter, decide_eq_true_eq]

/-- the frame keeps the invariant when no task is added -/
theorem StatOK.frame {x y : SysQ} (h : StatOK x) (hF : Frame x.P y.P) (hT : ∀ t ∈ y.V.tasks, t ∈ x.V.tasks) : StatOK y := by
  refine ⟨hF.led.nodup h.nodup, ?_, ?_, ?_⟩
  · rw [dom_iff]
    intro w hw
    rw [hF.led.rem] at hw
    exact hF.ks w ((dom_iff _ _).1 h.dom w hw)
  · intro t ht
    have := h.tasks t (hT t ht)
    cases t with
    | imp w =>
      simp only [unfinished] at this ⊢
      rw [importDone_eq, hF.led.imp, ← importDone_eq]; exact this
    | rem w =>
      simp only [unfinished] at this ⊢
      rw [removeDone_eq, hF.led.rem, ← removeDone_eq]; exact this
  · intro w hi hr
    exact h.excl w (hT _ hi) (hT _ hr)

/-- a new task for an unfinished wallet, the other kind of task for it not being queued -/
theorem StatOK.push {x y : SysQ} (h : StatOK x) (t : Task) (hu : unfinished x.P t = true)
    (hex : otherTask t ∉ x.V.tasks) (hP : y.P = x.P) (hT : y.V.tasks = x.V.tasks ++ [t]) : StatOK y := by
  refine ⟨by rw [hP]; exact h.nodup, by rw [hP]; exact h.dom, ?_, ?_⟩
  · intro t' ht'
    rw [hT, List.mem_append, List.mem_singleton] at ht'
    rw [hP]
    rcases ht' with ht' | ht'
    · exact h.tasks t' ht'
    · rw [ht']; exact hu
  · intro w hi hr
    rw [hT, List.mem_append, List.mem_singleton] at hi hr
    rcases hi with hi | hi <;> rcases hr with hr | hr
    · exact h.excl w hi hr
    · subst hr; exact hex hi
    · subst hi; exact hex hr
    · rw [← hi] at hr; cases hr

/-- a keystore that was not stored gets its keystore entry and its status entry; no task is added -/
theorem StatOK.add {x y : SysQ} (h : StatOK x) (w : Wid) (v : WStatus) (r : KsRec) (hfresh : AMap.get x.P.ks w = none)
    (hst : y.P.led.status = AMap.put x.P.led.status w v) (hks : y.P.ks = AMap.put x.P.ks w r)
    (hT : ∀ t ∈ y.V.tasks, t ∈ x.V.tasks) : StatOK y := by
  have hwn : w ∉ walletsOf x.P.ks := (amap_get_none_iff (m := x.P.ks) (k := w)).1 hfresh
  have hno : AMap.get x.P.led.status w = none := by
    cases hg : AMap.get x.P.led.status w with
    | none => rfl
    | some v0 => exact absurd (h.dom (w, v0) (amap_mem_of_get hg)) hwn
  have hother : ∀ t ∈ x.V.tasks, taskWid t ≠ w := by
    intro t ht e
    obtain ⟨v0, hv0⟩ := unfinished_entry (h.tasks t ht)
    rw [e, hno] at hv0
    cases hv0
  refine ⟨by rw [hst]; exact keysNodup_put h.nodup _ _, ?_, ?_, ?_⟩
  · intro e he
    rw [hks, walletsOf_put_new _ _ _ hfresh]
    rw [hst] at he
    unfold AMap.put at he
    rcases List.mem_cons.1 he with he | he
    · rw [he]; exact List.mem_cons_self ..
    · exact List.mem_cons_of_mem _ (h.dom e ((MW.Lemmas.RemoveScan.mem_erase _ _ _).1 he).1)
  · intro t ht
    have ht0 := hT t ht
    rw [← h.tasks t ht0]
    apply unfinished_congr
    rw [hst, AMap.get_put, if_neg (fun e => hother t ht0 e.symm)]
  · intro w' hi hr
    exact h.excl w' (hT _ hi) (hT _ hr)

/-- a rescan of `w`: the queued `.imp w`, if it stays queued, is still unfinished -/
theorem StatOK.impStep {x y : SysQ} {w : Wid} (h : StatOK x) (hR : ImpRel w x.P y.P) (hT : ∀ t ∈ y.V.tasks, t ∈ x.V.tasks)
    (hW : Task.imp w ∈ y.V.tasks → importDone y.P w = false) : StatOK y := by
  refine ⟨hR.nodup h.nodup, ?_, ?_, ?_⟩
  · rw [dom_iff]
    intro w' hw'
    rw [← removeDone_eq, hR.rem] at hw'
    rw [hR.ks]
    exact (dom_iff _ _).1 h.dom w' hw'
  · intro t ht
    have := h.tasks t (hT t ht)
    cases t with
    | imp w' =>
      simp only [unfinished] at this ⊢
      by_cases e : w' = w
      · subst e; rw [hW ht]; rfl
      · rw [hR.imp w' e]; exact this
    | rem w' =>
      simp only [unfinished] at this ⊢
      rw [hR.rem]; exact this
  · intro w' hi hr
    exact h.excl w' (hT _ hi) (hT _ hr)

/-- a removal of `w` whose task is queued: when the entry is gone, the task leaves the queue -/
theorem StatOK.remStep {x y : SysQ} {w : Wid} (h : StatOK x) (hR : RemRel w x.P y.P) (hT : ∀ t ∈ y.V.tasks, t ∈ x.V.tasks)
    (hq : Task.rem w ∈ x.V.tasks) (hW : removeDone y.P w = true → Task.rem w ∉ y.V.tasks) : StatOK y := by
  rcases hR with ⟨hs, hk⟩ | ⟨hs, hk⟩
  · exact h.frame (Frame.of_eq hs hk) hT
  · have hgone : removeDone y.P w = true := by
      unfold removeDone; rw [hs, AMap.get_erase, if_pos rfl]; rfl
    have hother : ∀ t ∈ y.V.tasks, taskWid t ≠ w := by
      intro t ht e
      cases t with
      | imp w' =>
        simp only [taskWid] at e
        subst e
        exact h.excl _ (hT _ ht) hq
      | rem w' =>
        simp only [taskWid] at e
        subst e
        exact hW hgone ht
    refine ⟨by rw [hs]; exact keysNodup_erase h.nodup _, ?_, ?_, ?_⟩
    · intro e he
      rw [hs] at he
      obtain ⟨he1, he2⟩ := (MW.Lemmas.RemoveScan.mem_erase _ _ _).1 he
      rw [hk]
      exact mem_walletsOf_erase.2 ⟨h.dom e he1, he2⟩
    · intro t ht
      rw [← h.tasks t (hT t ht)]
      apply unfinished_congr
      rw [hs, AMap.get_erase, if_neg (fun e => hother t ht e.symm)]
    · intro w' hi hr
      exact h.excl w' (hT _ hi) (hT _ hr)

/-- `initTaskChan`: every re-queued task is for an unfinished wallet, and no wallet is re-queued twice -/
theorem requeue_ok {P : PStore} (hn : KeysNodup P.led.status) :
    (∀ t ∈ requeue P, unfinished P t = true) ∧ (∀ w, Task.imp w ∈ requeue P → Task.rem w ∉ requeue P) := by
  have hget : ∀ e ∈ P.led.status, AMap.get P.led.status e.1 = some e.2 := fun e he => amap_get_of_mem hn (k := e.1) (v := e.2) he
  have hmem : ∀ t, t ∈ requeue P → ∃ e ∈ P.led.status,
      (e.2.removed = true ∧ t = .rem e.1) ∨ (e.2.removed = false ∧ e.2.synced.isSome = true ∧ t = .imp e.1) := by
    intro t ht
    unfold requeue at ht
    obtain ⟨e, he, hf⟩ := List.mem_filterMap.1 ht
    refine ⟨e, he, ?_⟩
    by_cases h1 : e.2.removed = true
    · rw [if_pos h1] at hf
      cases hf
      exact Or.inl ⟨h1, rfl⟩
    · rw [if_neg h1] at hf
      by_cases h2 : e.2.synced.isSome = true
      · rw [if_pos h2] at hf
        cases hf
        exact Or.inr ⟨by simpa using h1, h2, rfl⟩
      · rw [if_neg h2] at hf
        cases hf
  constructor
  · intro t ht
    obtain ⟨e, he, h1 | h1⟩ := hmem t ht
    · rw [h1.2]
      simp only [unfinished, removeDone, hget e he]
      rfl
    · rw [h1.2.2]
      simp only [unfinished, importDone, hget e he]
      cases hs : e.2.synced with
      | none => rw [hs] at h1; cases h1.2.1
      | some _ => rfl
  · intro w hi hr
    obtain ⟨e, he, h1 | h1⟩ := hmem _ hi
    · cases h1.2
    · obtain ⟨e', he', h2 | h2⟩ := hmem _ hr
      · have e1 : w = e.1 := by injection h1.2.2
        have e2 : w = e'.1 := by injection h2.2
        have g1 := hget e he
        have g2 := hget e' he'
        rw [← e1] at g1
        rw [← e2, g1] at g2
        have : e.2 = e'.2 := Option.some.inj g2
        rw [this, h2.1] at h1
        cases h1.1
      · cases h2.2.2

theorem StatOK.frameEq {x : SysQ} (h : StatOK x) (c q : List Block) {P' : PStore} {V' : PVol} (hF : Frame x.P P')
    (hT : V'.tasks = x.V.tasks) : StatOK ⟨c, q, P', V'⟩ :=
  h.frame (y := ⟨c, q, P', V'⟩) hF (fun t ht => by rw [← hT]; exact ht)

/-- a keystore that is not stored has no queued task -/
theorem StatOK.no_task {x : SysQ} (h : StatOK x) {w : Wid} (hfresh : AMap.get x.P.ks w = none) :
    ∀ t ∈ x.V.tasks, taskWid t ≠ w := by
  intro t ht e
  obtain ⟨v0, hv0⟩ := unfinished_entry (h.tasks t ht)
  rw [e] at hv0
  exact (amap_get_none_iff (m := x.P.ks) (k := w)).1 hfresh (h.dom (w, v0) (amap_mem_of_get hv0))

-- ------------------------------------------------------------------ 8. every event

/-- round 3's world: node events, handler steps, CreateWallet, NewAddress, unconfirmed transactions, crashes -/
theorem statOK_stepQ (st : Static) (n : Nat) (cr : Bool) (x : SysQ) (ev : EvQ) (h : StatOK x) :
    StatOK (stepQ st n cr x ev) := by
  cases ev with
  | extend b => exact h.frameEq _ _ (Frame.refl _) rfl
  | reorgTo k bs => exact h.frameEq _ _ (Frame.refl _) rfl
  | handle =>
    cases hq : x.queue with
    | nil => simp only [stepQ, hq]; exact h
    | cons b q =>
      simp only [stepQ, hq]
      obtain ⟨f1, f2⟩ := frame_opBlock (envAt st x.chain) n b x.P x.V
      exact h.frameEq _ _ f1 f2
  | create w =>
    show StatOK ⟨x.chain, x.queue, ((opCreate n n n w).run none x.P x.V).P, ((opCreate n n n w).run none x.P x.V).V⟩
    rw [create_none]
    by_cases hs : (AMap.get x.P.ks w).isSome = true
    · rw [if_pos hs]; exact h
    · rw [if_neg hs]
      have hfresh : AMap.get x.P.ks w = none := by
        cases hg : AMap.get x.P.ks w with
        | none => rfl
        | some v => rw [hg] at hs; exact absurd rfl hs
      exact h.add (y := ⟨x.chain, x.queue, createdStore x.P w, { x.V with keys := AMap.put x.V.keys w {} }⟩)
        w ⟨none, false⟩ {} hfresh rfl rfl (fun _ ht => ht)
  | newAddr w stk =>
    cases hu : useWallet x.P x.V w with
    | none => simp only [stepQ, hu]; exact h
    | some v =>
      simp only [stepQ, hu]
      obtain ⟨f1, f2⟩ := frame_opNewAddr (envAt st x.chain) n n n stk none x.P v
      exact h.frameEq _ _ f1 (f2.trans (useWallet_tasks hu))
  | recvTx tx =>
    obtain ⟨f1, f2⟩ := frame_recvTx (envAt st x.chain) n n tx x.P x.V
    exact h.frameEq _ _ f1 f2
  | crash =>
    cases cr with
    | false => exact h
    | true =>
      show StatOK ⟨x.chain, [], (Model.Persist.crash (envAt st x.chain) n x.P).P,
        (Model.Persist.crash (envAt st x.chain) n x.P).V⟩
      obtain ⟨f1, f2⟩ := frame_crash (envAt st x.chain) n x.P
      have h0 : StatOK ⟨x.chain, [], (Model.Persist.crash (envAt st x.chain) n x.P).P,
          { (Model.Persist.crash (envAt st x.chain) n x.P).V with tasks := [] }⟩ :=
        h.frame f1 (fun t ht => by cases ht)
      rcases f2 with f2 | f2
      · exact h.frame f1 (fun t ht => by
          have ht' : t ∈ (Model.Persist.crash (envAt st x.chain) n x.P).V.tasks := ht
          rw [f2] at ht'; cases ht')
      · obtain ⟨q1, q2⟩ := requeue_ok h0.nodup
        refine ⟨h0.nodup, h0.dom, ?_, ?_⟩
        · intro t ht
          have ht' : t ∈ (Model.Persist.crash (envAt st x.chain) n x.P).V.tasks := ht
          rw [f2] at ht'
          exact q1 t ht'
        · intro w hi hr
          have hi' : Task.imp w ∈ (Model.Persist.crash (envAt st x.chain) n x.P).V.tasks := hi
          have hr' : Task.rem w ∈ (Model.Persist.crash (envAt st x.chain) n x.P).V.tasks := hr
          rw [f2] at hi' hr'
          exact q2 w hi' hr'

theorem importWalletStore_status (s : Store) (w : Wid) (addrs : List Addr) :
    (Model.Import.importWalletStore s w addrs).status =
      AMap.put s.status w ⟨if addrs.isEmpty then none else some 0, false⟩ := by
  unfold Model.Import.importWalletStore
  dsimp only
  exact MW.Lemmas.LedgerStatus.foldl_status (fun s a => { s with addrs := AMap.put s.addrs (w, false, a) 0 })
    (fun _ _ => rfl) addrs _

/-- ImportWallet: a new keystore gets its status entry; the rescan is queued unless the wallet is ready at once -/
theorem statOK_importStart (cfg : Cfg) (cr : Bool) (x : SysQ) (w : Wid) (r : KsRec) (h : StatOK x) :
    StatOK (stepT cfg cr x (.importStart w r)) := by
  show StatOK ⟨x.chain, x.queue, ((opImportStart cfg.n w r).run none x.P x.V).P, ((opImportStart cfg.n w r).run none x.P x.V).V⟩
  rw [importStart_none]
  by_cases hs : (AMap.get x.P.ks w).isSome = true
  · rw [if_pos hs]; exact h
  · rw [if_neg hs]
    have hfresh : AMap.get x.P.ks w = none := by
      cases hg : AMap.get x.P.ks w with
      | none => rfl
      | some v => rw [hg] at hs; exact absurd rfl hs
    have hst := importWalletStore_status x.P.led w (r.addrs.map (·.2))
    by_cases he : r.addrs.isEmpty = true
    · simp only [he, if_true]
      exact h.add (y := ⟨x.chain, x.queue, ⟨Model.Import.importWalletStore x.P.led w (r.addrs.map (·.2)), AMap.put x.P.ks w r⟩,
        { x.V with keys := AMap.put x.V.keys w r }⟩) w _ r hfresh hst rfl (fun _ ht => ht)
    · simp only [he, Bool.false_eq_true, if_false]
      have h0 : StatOK ⟨x.chain, x.queue, ⟨Model.Import.importWalletStore x.P.led w (r.addrs.map (·.2)), AMap.put x.P.ks w r⟩,
          { x.V with keys := AMap.put x.V.keys w r }⟩ :=
        h.add (y := ⟨x.chain, x.queue, ⟨Model.Import.importWalletStore x.P.led w (r.addrs.map (·.2)), AMap.put x.P.ks w r⟩,
          { x.V with keys := AMap.put x.V.keys w r }⟩) w _ r hfresh hst rfl (fun _ ht => ht)
      have hne : (r.addrs.map (·.2)).isEmpty = false := by
        cases hr : r.addrs with
        | nil => rw [hr] at he; exact absurd rfl he
        | cons _ _ => rfl
      refine h0.push (.imp w) ?_ ?_ rfl rfl
      · show (!impD (Model.Import.importWalletStore x.P.led w (r.addrs.map (·.2))) w) = true
        unfold impD
        rw [hst, AMap.get_put, if_pos rfl, hne]
        rfl
      · intro hm
        exact h.no_task hfresh _ hm rfl

/-- RemoveWallet's flag: the entry keeps its key and its cursor; the removal is queued -/
theorem statOK_removeMark (cfg : Cfg) (cr : Bool) (x : SysQ) (w : Wid) (h : StatOK x) :
    StatOK (stepT cfg cr x (.removeMark w)) := by
  show StatOK ⟨x.chain, x.queue, ((opRemoveMark cfg.n w).run none x.P x.V).P, ((opRemoveMark cfg.n w).run none x.P x.V).V⟩
  rw [removeMark_closed]
  cases hst : AMap.get x.P.led.status w with
  | none => exact h
  | some stt =>
    dsimp only
    by_cases hs : stt.synced.isSome = true
    · rw [if_pos hs]; exact h
    · rw [if_neg hs]
      have hget : ∀ w', AMap.get (markedLed x.P.led w stt).status w' =
          if w = w' then some { stt with removed := true } else AMap.get x.P.led.status w' := by
        intro w'; unfold markedLed; rw [AMap.get_put]
      have hF : Frame x.P { x.P with led := markedLed x.P.led w stt } := by
        refine Frame.of_led ⟨fun hn => keysNodup_put hn _ _, fun w' => ?_, fun w' => ?_⟩
        · unfold remD
          rw [hget]
          by_cases e : w = w'
          · subst e; rw [if_pos rfl, hst]; rfl
          · rw [if_neg e]
        · unfold impD
          rw [hget]
          by_cases e : w = w'
          · subst e; rw [if_pos rfl, hst]
          · rw [if_neg e]
      have h0 : StatOK ⟨x.chain, x.queue, { x.P with led := markedLed x.P.led w stt }, x.V⟩ := h.frameEq _ _ hF rfl
      refine h0.push (.rem w) ?_ ?_ rfl rfl
      · show (!remD (markedLed x.P.led w stt) w) = true
        unfold remD
        rw [hget, if_pos rfl]
        rfl
      · intro hm
        have hm' : Task.imp w ∈ x.V.tasks := hm
        have := h.tasks _ hm'
        simp only [unfinished, importDone, hst] at this
        cases hsy : stt.synced with
        | none => rw [hsy] at this; cases this
        | some _ => rw [hsy] at hs; exact hs rfl

/-- one batch of the worker's rescan -/
theorem statOK_importStep (cfg : Cfg) (cr : Bool) (x : SysQ) (w : Wid) (h : StatOK x) :
    StatOK (stepT cfg cr x (.importStep w)) := by
  simp only [stepT]
  split
  · rename_i hg
    simp only [Bool.and_eq_true, Bool.not_eq_true'] at hg
    obtain ⟨r1, r2⟩ := impRel_importStep cfg.batch cfg.n (envAt cfg.st x.chain) w x.P x.V
    by_cases hc : (((opImportStep cfg.batch cfg.n (envAt cfg.st x.chain) w).run none x.P x.V).ok &&
        importDone ((opImportStep cfg.batch cfg.n (envAt cfg.st x.chain) w).run none x.P x.V).P w) = true
    · rw [if_pos hc]
      refine h.impStep (w := w) r1 ?_ ?_
      · intro t ht
        have := (mem_dropTask.1 ht).1
        rw [r2] at this
        exact this
      · intro ht
        exact absurd rfl (mem_dropTask.1 ht).2
    · rw [if_neg hc]
      refine h.impStep (w := w) r1 ?_ ?_
      · intro t ht
        have ht' : t ∈ ((opImportStep cfg.batch cfg.n (envAt cfg.st x.chain) w).run none x.P x.V).V.tasks := ht
        rw [r2] at ht'
        exact ht'
      · intro _
        show importDone ((opImportStep cfg.batch cfg.n (envAt cfg.st x.chain) w).run none x.P x.V).P w = false
        cases hok : ((opImportStep cfg.batch cfg.n (envAt cfg.st x.chain) w).run none x.P x.V).ok with
        | false => rw [run_fail_store _ _ _ _ hok]; exact hg.2
        | true =>
          rw [hok] at hc
          simpa using hc
  · exact h

/-- the worker runs the queued rescan to its end -/
theorem statOK_importDrain (cfg : Cfg) (cr : Bool) (x : SysQ) (w : Wid) (fuel : Nat) (h : StatOK x) :
    StatOK (stepT cfg cr x (.importDrain w fuel)) := by
  simp only [stepT]
  split
  · split
    · rename_i P' V' hl
      obtain ⟨r1, r2⟩ := impRel_importLoop cfg.batch cfg.n (envAt cfg.st x.chain) w fuel x.P x.V P' V' hl
      refine h.impStep (w := w) (y := { x with P := P', V := dropTask V' (.imp w) }) r1 ?_ ?_
      · intro t ht
        have := (mem_dropTask.1 ht).1
        rw [r2] at this
        exact this
      · intro ht
        exact absurd rfl (mem_dropTask.1 ht).2
    · exact h
  · exact h

/-- one iteration of the worker's removal -/
theorem statOK_removeStep (cfg : Cfg) (cr : Bool) (x : SysQ) (w : Wid) (h : StatOK x) :
    StatOK (stepT cfg cr x (.removeStep w)) := by
  simp only [stepT]
  split
  · rename_i hg
    simp only [Bool.and_eq_true, Bool.not_eq_true'] at hg
    have hq : Task.rem w ∈ x.V.tasks := List.contains_iff_mem.1 hg.1
    obtain ⟨r1, r2⟩ := remRel_removeStep cfg.limit cfg.n (envAt cfg.st x.chain) w (addrsOf x.V.keys w) none x.P x.V
    by_cases hc : (((opRemoveStep cfg.limit cfg.n (envAt cfg.st x.chain) w (addrsOf x.V.keys w)).run none x.P x.V).ok &&
        removeDone ((opRemoveStep cfg.limit cfg.n (envAt cfg.st x.chain) w (addrsOf x.V.keys w)).run none x.P x.V).P w) = true
    · rw [if_pos hc]
      refine h.remStep (w := w) r1 ?_ hq ?_
      · intro t ht
        have := (mem_dropTask.1 ht).1
        rw [r2] at this
        exact this
      · intro _ ht
        exact absurd rfl (mem_dropTask.1 ht).2
    · rw [if_neg hc]
      refine h.remStep (w := w) r1 ?_ hq ?_
      · intro t ht
        have ht' : t ∈ ((opRemoveStep cfg.limit cfg.n (envAt cfg.st x.chain) w (addrsOf x.V.keys w)).run none x.P x.V).V.tasks := ht
        rw [r2] at ht'
        exact ht'
      · intro hd
        exfalso
        have hd' : removeDone ((opRemoveStep cfg.limit cfg.n (envAt cfg.st x.chain) w (addrsOf x.V.keys w)).run none x.P x.V).P w = true := hd
        cases hok : ((opRemoveStep cfg.limit cfg.n (envAt cfg.st x.chain) w (addrsOf x.V.keys w)).run none x.P x.V).ok with
        | false =>
          rw [run_fail_store _ _ _ _ hok, hg.2] at hd'
          cases hd'
        | true =>
          rw [hok, hd'] at hc
          exact hc rfl
  · exact h

/-- the worker runs the queued removal to its end -/
theorem statOK_removeDrain (cfg : Cfg) (cr : Bool) (x : SysQ) (w : Wid) (h : StatOK x) :
    StatOK (stepT cfg cr x (.removeDrain w)) := by
  simp only [stepT]
  split
  · rename_i hg
    simp only [Bool.and_eq_true, Bool.not_eq_true'] at hg
    have hq : Task.rem w ∈ x.V.tasks := List.contains_iff_mem.1 hg.1
    split
    · rename_i P' V' hl
      obtain ⟨r1, r2⟩ := remRel_removeLoop cfg.limit cfg.n (envAt cfg.st x.chain) w (addrsOf x.V.keys w) _ x.P x.V P' V' hl
      refine h.remStep (w := w) (y := { x with P := P', V := dropTask V' (.rem w) }) r1 ?_ hq ?_
      · intro t ht
        have := (mem_dropTask.1 ht).1
        rw [r2] at this
        exact this
      · intro _ ht
        exact absurd rfl (mem_dropTask.1 ht).2
    · exact h
  · exact h

/-- EVERY EVENT of the world with background tasks keeps the invariant — on ARBITRARY states -/
theorem statOK_stepT (cfg : Cfg) (cr : Bool) (x : SysQ) (ev : EvT) (h : StatOK x) : StatOK (stepT cfg cr x ev) := by
  cases ev with
  | q e => exact statOK_stepQ cfg.st cfg.n cr x e h
  | importStart w r => exact statOK_importStart cfg cr x w r h
  | importStep w => exact statOK_importStep cfg cr x w h
  | removeMark w => exact statOK_removeMark cfg cr x w h
  | removeStep w => exact statOK_removeStep cfg cr x w h
  | importDrain w fuel => exact statOK_importDrain cfg cr x w fuel h
  | removeDrain w => exact statOK_removeDrain cfg cr x w h

/-- … along EVERY history (crashes included): it only has to be assumed of the initial state -/
theorem statOK_runT (cfg : Cfg) (cr : Bool) (x : SysQ) (evs : List EvT) (h : StatOK x) : StatOK (runT cfg cr x evs) := by
  induction evs generalizing x with
  | nil => exact h
  | cons ev evs ih =>
    rw [runT_cons]
    exact ih _ (statOK_stepT cfg cr x ev h)

-- ------------------------------------------------------------------ 9. the world without the second guard

/-- the world whose worker runs whatever is queued -/
def stepU (cfg : Cfg) (crashing : Bool) (x : SysQ) : EvT → SysQ
  | .q e => stepQ cfg.st cfg.n crashing x e
  | .importStart w r =>
    let res := (opImportStart cfg.n w r).run none x.P x.V
    { x with P := res.P, V := res.V }
  | .importStep w =>
    if x.V.tasks.contains (.imp w) then
      let res := (opImportStep cfg.batch cfg.n (envAt cfg.st x.chain) w).run none x.P x.V
      { x with P := res.P, V := if res.ok && importDone res.P w then dropTask res.V (.imp w) else res.V }
    else x
  | .removeMark w =>
    let res := (opRemoveMark cfg.n w).run none x.P x.V
    { x with P := res.P, V := res.V }
  | .removeStep w =>
    if x.V.tasks.contains (.rem w) then
      let res := (opRemoveStep cfg.limit cfg.n (envAt cfg.st x.chain) w (addrsOf x.V.keys w)).run none x.P x.V
      { x with P := res.P, V := if res.ok && removeDone res.P w then dropTask res.V (.rem w) else res.V }
    else x
  | .importDrain w fuel =>
    if x.V.tasks.contains (.imp w) then
      match importLoop cfg.batch cfg.n (envAt cfg.st x.chain) w fuel x.P x.V with
      | some (P', V') => { x with P := P', V := dropTask V' (.imp w) }
      | none => x
    else x
  | .removeDrain w =>
    if x.V.tasks.contains (.rem w) then
      match removeLoop cfg.limit cfg.n (envAt cfg.st x.chain) w (addrsOf x.V.keys w) (x.P.led.credits.length + 1) x.P x.V with
      | some (P', V') => { x with P := P', V := dropTask V' (.rem w) }
      | none => x
    else x

def runU (cfg : Cfg) (crashing : Bool) (x : SysQ) (evs : List EvT) : SysQ := evs.foldl (stepU cfg crashing) x

theorem runU_cons (cfg : Cfg) (cr : Bool) (x : SysQ) (ev : EvT) (evs : List EvT) :
    runU cfg cr x (ev :: evs) = runU cfg cr (stepU cfg cr x ev) evs := rfl

/-- on a state with the invariant, "queued" implies "unfinished": the two guards of `stepT` are one -/
theorem guard_imp {x : SysQ} (h : StatOK x) (w : Wid) :
    (x.V.tasks.contains (.imp w) && !importDone x.P w) = x.V.tasks.contains (.imp w) := by
  cases hc : x.V.tasks.contains (.imp w) with
  | false => rfl
  | true =>
    have := h.tasks _ (List.contains_iff_mem.1 hc)
    simp only [unfinished] at this
    rw [this]; rfl

theorem guard_rem {x : SysQ} (h : StatOK x) (w : Wid) :
    (x.V.tasks.contains (.rem w) && !removeDone x.P w) = x.V.tasks.contains (.rem w) := by
  cases hc : x.V.tasks.contains (.rem w) with
  | false => rfl
  | true =>
    have := h.tasks _ (List.contains_iff_mem.1 hc)
    simp only [unfinished] at this
    rw [this]; rfl

/-- THE SECOND GUARD IS REDUNDANT: on a state with the invariant the worker that runs whatever is queued takes the
    step of the worker that also looks at the stored status -/
theorem stepU_eq_stepT (cfg : Cfg) (cr : Bool) (x : SysQ) (ev : EvT) (h : StatOK x) : stepU cfg cr x ev = stepT cfg cr x ev := by
  cases ev with
  | q e => rfl
  | importStart w r => rfl
  | removeMark w => rfl
  | importStep w => simp only [stepU, stepT, guard_imp h w]
  | removeStep w => simp only [stepU, stepT, guard_rem h w]
  | importDrain w fuel =>
    simp only [stepU, stepT, guard_imp h w]
    split
    · rcases importLoop cfg.batch cfg.n (envAt cfg.st x.chain) w fuel x.P x.V with _ | ⟨P', V'⟩ <;> rfl
    · rfl
  | removeDrain w =>
    simp only [stepU, stepT, guard_rem h w]
    split
    · rcases removeLoop cfg.limit cfg.n (envAt cfg.st x.chain) w (addrsOf x.V.keys w) (x.P.led.credits.length + 1) x.P x.V
        with _ | ⟨P', V'⟩ <;> rfl
    · rfl

/-- … along EVERY history from a state with the invariant (e.g. the empty wallet: no status entry, no task) -/
theorem runU_eq_runT (cfg : Cfg) (cr : Bool) (x : SysQ) (evs : List EvT) (h : StatOK x) : runU cfg cr x evs = runT cfg cr x evs := by
  induction evs generalizing x with
  | nil => rfl
  | cons ev evs ih =>
    rw [runU_cons, runT_cons, stepU_eq_stepT cfg cr x ev h]
    exact ih _ (statOK_stepT cfg cr x ev h)

/-- non-vacuity: a state without status entries and without queued tasks (a fresh installation) has the invariant -/
theorem statOK_init (c q : List Block) (P : PStore) (V : PVol) (hs : P.led.status = []) (ht : V.tasks = []) :
    StatOK ⟨c, q, P, V⟩ := by
  refine ⟨?_, ?_, ?_, ?_⟩
  · show KeysNodup P.led.status
    rw [hs]; exact List.nodup_nil
  · intro e he
    have he' : e ∈ P.led.status := he
    rw [hs] at he'; cases he'
  · intro t hm
    have hm' : t ∈ V.tasks := hm
    rw [ht] at hm'; cases hm'
  · intro w hm
    have hm' : Task.imp w ∈ V.tasks := hm
    rw [ht] at hm'; cases hm'

end MW.Lemmas.Deepen4
