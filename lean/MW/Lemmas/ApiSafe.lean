/- C19: every closed function and every entry point of the skeleton model is accepted by the checker -/
import MW.Lemmas.ApiSafe0
import MW.Lemmas.ApiSafe1
import MW.Lemmas.ApiSafe2
import MW.Lemmas.ApiSafe3
import MW.Lemmas.ApiSafe4
import MW.Lemmas.ApiSafe5
import MW.Lemmas.ApiSound
namespace MW.Lemmas.ApiSafe
open MW.Model.Api

theorem closed_ok : ClosedOK prog exports imports closed := by
  intro f hf
  have hmem : f ∈ closedFns := by simpa [closed] using hf
  simp only [closedFns, List.mem_cons, List.not_mem_nil, or_false] at hmem
  rcases hmem with rfl | rfl | rfl | rfl | rfl | rfl | rfl | rfl | rfl | rfl | rfl | rfl | rfl | rfl | rfl | rfl | rfl | rfl | rfl | rfl | rfl | rfl | rfl | rfl | rfl | rfl | rfl | rfl | rfl | rfl | rfl | rfl | rfl | rfl | rfl | rfl | rfl | rfl | rfl | rfl | rfl | rfl | rfl | rfl | rfl | rfl | rfl | rfl | rfl | rfl | rfl | rfl | rfl | rfl | rfl | rfl | rfl | rfl | rfl | rfl | rfl | rfl | rfl | rfl | rfl | rfl | rfl | rfl | rfl
  · exact closed_AmountToString
  · exact closed_AmountToString_wm
  · exact closed_StringToAmount
  · exact closed_checkLocktime
  · exact closed_checkParseAmount
  · exact closed_checkFormatAmount
  · exact closed_checkWitnessAddress
  · exact closed_parseBindingTarget
  · exact closed_checkTxFeeLimit
  · exact closed_checkAddressLen
  · exact closed_checkWalletIdLen
  · exact closed_checkTransactionIdLen
  · exact closed_checkMnemonicLen
  · exact closed_checkPassLen
  · exact closed_checkRemarksLen
  · exact closed_extractAddressInfos
  · exact closed_decodeHexStr
  · exact closed_createVoutList
  · exact closed_createVinList
  · exact closed_getStatus
  · exact closed_createTxRawResult
  · exact closed_buildDecodeRawTxResponse
  · exact closed_CheckReady
  · exact closed_Wallets
  · exact closed_CreateWallet
  · exact closed_WalletBalance
  · exact closed_AddressBalance
  · exact closed_GetUtxo
  · exact closed_NewAddress
  · exact closed_GetAddresses
  · exact closed_AutoCreateRawTransaction
  · exact closed_CreateStakingTransaction
  · exact closed_CreateBindingTransaction
  · exact closed_SignRawTx
  · exact closed_GetStakingHistory
  · exact closed_GetBindingHistory
  · exact closed_SyncedTo
  · exact closed_IsAddressInCurrent
  · exact closed_CurrentWallet
  · exact closed_ChainIndexerSyncedHeight
  · exact closed_constructTxOut
  · exact closed_constructStakingTxOut
  · exact closed_estimateSignedSize
  · exact closed_findEligibleUtxos
  · exact closed_getUtxos
  · exact closed_getUtxosExcludeBindingAndStaking
  · exact closed_optOutputs
  · exact closed_EstimateManualTxFee
  · exact closed_GetTxHistory
  · exact closed_addTxIn
  · exact closed_autoConstructTxInAndChangeTxOut
  · exact closed_prepareFromAddresses
  · exact closed_maybeSubtractFeeFromAmounts
  · exact closed_PayToWitnessV0Address
  · exact closed_amountToTxOut
  · exact closed_onRelevantBlockConnected
  · exact closed_filterTxForImporting
  · exact closed_filterBlock
  · exact closed_disconnectBlock
  · exact closed_reorg
  · exact closed_getReadyWallets
  · exact closed_initTaskChan
  · exact closed_asyncImport
  · exact closed_asyncRemove
  · exact closed_processConnectedBlock
  · exact closed_proccessReceivedTx
  · exact closed_RemoveWallet
  · exact closed_ExportWallet
  · exact closed_GetMnemonic

/-- the entry points as table indexes (same order as `MW.Model.Api.roots`) -/
def rootIdList : List Nat := [Fn.GetClientStatus, Fn.QuitClient, Fn.SignRawTransaction, Fn.CreateAddress, Fn.GetAddresses_wallet_service, Fn.ValidateAddress, Fn.GetWalletBalance, Fn.GetAddressBalance, Fn.UseWallet_wallet_service, Fn.Wallets_wallet_service, Fn.GetUtxo_wallet_service, Fn.ImportWallet_wallet_service, Fn.ImportMnemonic, Fn.CreateWallet_wallet_service, Fn.ExportWallet_wallet_service, Fn.RemoveWallet_wallet_service, Fn.GetWalletMnemonic, Fn.GetTxStatus, Fn.GetRawTransaction, Fn.DecodeRawTransaction, Fn.CreateRawTransaction_tx_service, Fn.CreateStakingTransaction_tx_service, Fn.CreateBindingTransaction_tx_service, Fn.CreatePoolPkCoinbaseTransaction, Fn.AutoCreateTransaction, Fn.GetTransactionFee, Fn.TxHistory, Fn.GetStakingHistory_tx_service, Fn.GetBindingHistory_tx_service, Fn.SendRawTransaction, Fn.GetNetworkBinding, Fn.CheckPoolPkCoinbase, Fn.CheckTargetBinding, Fn.handle, Fn.worker, Fn.processConnectedBlock, Fn.proccessReceivedTx, Fn.asyncImport, Fn.asyncRemove, Fn.NewNtfnsHandler, Fn.Start_wallet, Fn.Stop_wallet, Fn.GetAllAddressesWithPubkey]

theorem rootIdList_eq : rootIdList = rootIds := by decide +kernel

theorem roots_safe : ∀ r ∈ rootIdList, safe prog exports imports closed checkFuel (.invoke r) = true := by
  intro r hr
  simp only [rootIdList, List.mem_cons, List.not_mem_nil, or_false] at hr
  rcases hr with rfl | rfl | rfl | rfl | rfl | rfl | rfl | rfl | rfl | rfl | rfl | rfl | rfl | rfl | rfl | rfl | rfl | rfl | rfl | rfl | rfl | rfl | rfl | rfl | rfl | rfl | rfl | rfl | rfl | rfl | rfl | rfl | rfl | rfl | rfl | rfl | rfl | rfl | rfl | rfl | rfl | rfl | rfl
  · exact safe_GetClientStatus
  · exact safe_QuitClient
  · exact safe_SignRawTransaction
  · exact safe_CreateAddress
  · exact safe_GetAddresses_api
  · exact safe_ValidateAddress
  · exact safe_GetWalletBalance
  · exact safe_GetAddressBalance
  · exact safe_UseWallet_api
  · exact safe_Wallets_api
  · exact safe_GetUtxo_api
  · exact safe_ImportWallet_api
  · exact safe_ImportMnemonic
  · exact safe_CreateWallet_api
  · exact safe_ExportWallet_api
  · exact safe_RemoveWallet_api
  · exact safe_GetWalletMnemonic
  · exact safe_GetTxStatus
  · exact safe_GetRawTransaction
  · exact safe_DecodeRawTransaction
  · exact safe_CreateRawTransaction_api
  · exact safe_CreateStakingTransaction_api
  · exact safe_CreateBindingTransaction_api
  · exact safe_CreatePoolPkCoinbaseTransaction
  · exact safe_AutoCreateTransaction
  · exact safe_GetTransactionFee
  · exact safe_TxHistory
  · exact safe_GetStakingHistory_api
  · exact safe_GetBindingHistory_api
  · exact safe_SendRawTransaction
  · exact safe_GetNetworkBinding
  · exact safe_CheckPoolPkCoinbase
  · exact safe_CheckTargetBinding
  · exact safe_handle
  · exact safe_worker
  · exact safe_processConnectedBlock
  · exact safe_proccessReceivedTx
  · exact safe_asyncImport
  · exact safe_asyncRemove
  · exact safe_NewNtfnsHandler
  · exact safe_Start_wm
  · exact safe_Stop_wm
  · exact safe_GetAllAddressesWithPubkey

end MW.Lemmas.ApiSafe
