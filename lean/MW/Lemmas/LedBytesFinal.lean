/-
  LedBytes, part 14 — putting it together.
  `HEnv`     the byte-level environment of the follower for one node chain: block files + keystore (`RbEnv`, `PendEnv`),
             the relevance oracle, the wallet ids, the bytes of a block's hash and its two timestamps.
  `Good`     the run hypotheses of the primitives at a byte store (all are facts about sizes: cursor below the "syncedto"
             collision height, balances written back fit 8 bytes, room in the block record).
  `primsOf`  the concrete primitives (`disconnectBlockB`, `filterBlockB`, the sync bucket, bucket `ws`) form a `Prims`
             package for any invariant `I` that implies `Good` and is kept by the two writing primitives.
  `ledger_correct_on_bytes_run`  C01's `ledger_correct` for the byte store with the CONCRETE handler `processBlockB`:
             along any history whose worlds satisfy `I` and the block-fitness conditions (`AllW`), with an empty queue the
             bytes decode to the books of the node's best chain.
-/
import MW.Lemmas.LedBytesHandler
import MW.Lemmas.LedBytesFrame
namespace MW.LedBytes
open MW MW.Gen.Codec MW.Model.TxmgrCodec MW.TxmgrCodec MW.Model.Ledger MW.Spec.Chain MW.Spec.Books MW.Lemmas.Ledger

structure HEnv (E : Env) (c : Ctx) where
  R : RbEnv E c
  P : PendEnv E c.own
  O : RelOracle E c
  walletsB : List Bytes
  wallets_eq : c.wallets = walletsB.map E.N.wal
  wallets_wf : ∀ w ∈ walletsB, w.length = 42
  hashOf : Block → Bytes
  time8 : Block → Nat
  time4 : Block → Nat

variable {E : Env} {c : Ctx}

/-- a block fits: the relevance oracle knows it, its hash bytes are named by its id, its height is below the collision
    height, its timestamps fit -/
def BlkFit (H : HEnv E c) (b : Block) : Prop :=
  H.O.dom b ∧ (H.hashOf b).length = 32 ∧ E.N.blk (H.hashOf b) = b.id ∧ b.height + 1 < collisionHeight ∧
  H.time8 b < 256 ^ 8 ∧ H.time4 b < 256 ^ 4

/-- the run hypotheses of the primitives at a byte store -/
structure Good (H : HEnv E c) (bs : BStore) : Prop where
  canon : CanonS E bs
  cursor : syncedToOf bs.sync < collisionHeight
  rb : ∀ h, RollbackBals H.R bs h
  filt : ∀ ready b, BlkFit H b → FilterOut H.P H.O bs ready b (H.hashOf b) (H.time8 b)

def discOf (H : HEnv E c) (bs : BStore) (h : Nat) : M BStore := disconnectBlockB H.R H.P bs h
def filtOf (H : HEnv E c) (bs : BStore) (ready : List Bytes) (b : Block) : M (BStore × List TxId) :=
  filterBlockB H.P H.O bs ready b (H.hashOf b) (H.time8 b) (H.time4 b)

/-- the concrete primitives as a `Prims` package -/
def primsOf (H : HEnv E c) (I : BStore → Prop) (hI : ∀ bs, I bs → Good H bs)
    (hdisc : ∀ bs h bs', I bs → discOf H bs h = .ok bs' → I bs')
    (hfilt : ∀ bs ready b x, I bs → BlkFit H b → filtOf H bs ready b = .ok x → I x.1) : Prims E c where
  I := I
  BlkOK := BlkFit H
  disc := discOf H
  filt := filtOf H
  readyB bs := readyWalletsB bs.ws H.walletsB
  canon bs h := (hI bs h).canon
  disc_sim bs h hb := by
    have g := hI bs hb
    exact ⟨(disconnectBlock_on_bytes' H.R H.P g.canon g.cursor (g.rb h)).1, fun bs' hd => hdisc bs h bs' hb hd⟩
  filt_sim bs rb b hb hf := by
    have g := hI bs hb
    exact ⟨(filterBlock_on_bytes H.P H.O g.canon hf.1 hf.2.1 hf.2.2.1 hf.2.2.2.1 hf.2.2.2.2.1 hf.2.2.2.2.2 (g.filt rb b hf)).1,
      fun x hx => hfilt bs rb b x hb hf hx⟩
  ready_sim bs hb := by
    rw [H.wallets_eq]
    exact readyWallets_on_bytes E (hI bs hb).canon H.wallets_wf

-- ------------------------------------------------------------------ histories with a per-world condition

/-- `W` holds at every world in which the history handles a notification (and at the others) -/
def AllW (pbB : PbB) (W : WorldB → Prop) : WorldB → List Ev → Prop
  | _, [] => True
  | w, ev :: evs => W w ∧ AllW pbB W (stepWB pbB w ev) evs

/-- `pbB` simulates `processBlock` at the worlds satisfying `W` -/
def PbSimOn (E : MW.LedBytes.Env) (e : Lemmas.Ledger.Env) (pbB : PbB) (W : WorldB → Prop) : Prop :=
  ∀ w b q, W w → CanonS E w.bs → w.queue = b :: q →
    absStore E (pbB w.chain w.bs w.v b).1 = (processBlock (e.ctx w.chain) (absStore E w.bs) w.v b).1 ∧
    (pbB w.chain w.bs w.v b).2 = (processBlock (e.ctx w.chain) (absStore E w.bs) w.v b).2 ∧
    CanonS E (pbB w.chain w.bs w.v b).1

theorem stepWB_abs_on {E : MW.LedBytes.Env} {e : Lemmas.Ledger.Env} {pbB : PbB} {W : WorldB → Prop} (hs : PbSimOn E e pbB W)
    (w : WorldB) (hW : W w) (hC : CanonS E w.bs) (ev : Ev) :
    absW E (stepWB pbB w ev) = stepW e (absW E w) ev ∧ CanonS E (stepWB pbB w ev).bs := by
  cases ev with
  | extend b => exact ⟨rfl, hC⟩
  | reorgTo k bs => exact ⟨rfl, hC⟩
  | handle =>
    cases hq : w.queue with
    | nil =>
      have e1 : stepWB pbB w .handle = w := by simp only [stepWB, hq]
      have e2 : stepW e (absW E w) .handle = absW E w := by simp only [stepW, absW, hq]
      rw [e1, e2]; exact ⟨rfl, hC⟩
    | cons b q =>
      obtain ⟨h1, h2, h3⟩ := hs w b q hW hC hq
      have e1 : stepWB pbB w .handle
          = { w with queue := q, bs := (pbB w.chain w.bs w.v b).1, v := (pbB w.chain w.bs w.v b).2.1 } := by
        simp only [stepWB, hq]
      have e2 : stepW e (absW E w) .handle
          = { absW E w with queue := q, s := (processBlock (e.ctx w.chain) (absStore E w.bs) w.v b).1,
                            v := (processBlock (e.ctx w.chain) (absStore E w.bs) w.v b).2.1 } := by
        simp only [stepW, absW, hq]
      rw [e1, e2]
      refine ⟨?_, h3⟩
      simp only [absW]
      rw [h1, h2]

theorem runWB_abs_on {E : MW.LedBytes.Env} {e : Lemmas.Ledger.Env} {pbB : PbB} {W : WorldB → Prop} (hs : PbSimOn E e pbB W) :
    ∀ (evs : List Ev) (w : WorldB), CanonS E w.bs → AllW pbB W w evs →
      absW E (runWB pbB w evs) = runW e (absW E w) evs ∧ CanonS E (runWB pbB w evs).bs := by
  intro evs
  induction evs with
  | nil => intro w hC _; exact ⟨rfl, hC⟩
  | cons ev evs ih =>
    intro w hC hA
    obtain ⟨h1, h2⟩ := stepWB_abs_on hs w hA.1 hC ev
    obtain ⟨i1, i2⟩ := ih (stepWB pbB w ev) h2 hA.2
    refine ⟨?_, i2⟩
    show absW E (runWB pbB (stepWB pbB w ev) evs) = runW e (stepW e (absW E w) ev) evs
    rw [i1, h1]

-- ------------------------------------------------------------------ the concrete handler

/-- the concrete byte-level handler: per node chain the environment and the invariant package -/
structure Handler (E : MW.LedBytes.Env) (e : Lemmas.Ledger.Env) where
  prims : ∀ chain : List Block, Prims E (e.ctx chain)

def Handler.pbB {E : MW.LedBytes.Env} {e : Lemmas.Ledger.Env} (Hd : Handler E e) : PbB :=
  fun chain bs v b => processBlockB (Hd.prims chain) bs v b

/-- the condition on a world: the invariant of the primitives, the follower's tip below the collision height, the node's
    blocks and the notified block fit -/
def Handler.W {E : MW.LedBytes.Env} {e : Lemmas.Ledger.Env} (Hd : Handler E e) (w : WorldB) : Prop :=
  (Hd.prims w.chain).I w.bs ∧ w.v.best.height < collisionHeight ∧
  (∀ x ∈ w.chain, (Hd.prims w.chain).BlkOK x) ∧ ∀ b ∈ w.queue, (Hd.prims w.chain).BlkOK b

theorem Handler.sim {E : MW.LedBytes.Env} {e : Lemmas.Ledger.Env} (Hd : Handler E e) : PbSimOn E e Hd.pbB Hd.W := by
  intro w b q hW _ hq
  obtain ⟨hI, hbest, hchain, hqu⟩ := hW
  have hb : (Hd.prims w.chain).BlkOK b := hqu b (by rw [hq]; exact List.mem_cons_self)
  obtain ⟨p1, p2, p3⟩ := processBlock_on_bytes (Hd.prims w.chain) (c := e.ctx w.chain) hchain hI hbest hb
  exact ⟨p1, p2, (Hd.prims w.chain).canon _ p3⟩

/-- **ledger_correct on the byte store, with the concrete handler** `processBlockB` over the primitives `disconnectBlockB`
    / `filterBlockB` / sync bucket / bucket `ws` -/
theorem ledger_correct_on_bytes_run {E : MW.LedBytes.Env} (e : Lemmas.Ledger.Env) (G : Block) (Hd : Handler E e)
    (w0 : WorldB) (evs : List Ev) (H : RunHyp e G (absW E w0) evs) (hA : AllW Hd.pbB Hd.W w0 evs)
    (h0 : InvB E (e.ctx w0.chain) w0.bs w0.chain) (hv0 : w0.v.best = tipMeta w0.chain) (hq0 : w0.queue = []) :
    (runWB Hd.pbB w0 evs).queue = [] →
      InvB E (e.ctx (runWB Hd.pbB w0 evs).chain) (runWB Hd.pbB w0 evs).bs (runWB Hd.pbB w0 evs).chain ∧
        (runWB Hd.pbB w0 evs).v.best = tipMeta (runWB Hd.pbB w0 evs).chain := by
  intro hq
  obtain ⟨r1, r2⟩ := runWB_abs_on Hd.sim evs w0 h0.1 hA
  have hq' : (runW e (absW E w0) evs).queue = [] := by rw [← r1]; exact hq
  have := MW.Lemmas.Ledger.ledger_correct e G (absW E w0) evs H h0.2 hv0 hq0 hq'
  rw [← r1] at this
  exact ⟨⟨r2, this.1⟩, this.2⟩

end MW.LedBytes
