/-
  C07 stage 1 with other wallets in the instance, part 4 — the RECORD step of the rescan (`recordForImporting`).
  The block records of the store are kept as a function of its tx records (`BlocksOK`: the record of a block lists,
  in block order, exactly the transactions of that block that have a tx record — C08's `blockRecOf`), and a tx
  record holds the block position of its transaction (`TxPos`).  Both hold for a store that follows a chain
  (`blocks_eq_blockRecOf`, `bookOf_txrecs_iff`) and both are preserved when the rescan merges a transaction into
  records that other wallets' transactions of the same block already populate: `insertByPos` puts the id at its
  block position (fix D29), i.e. it turns the filtered id list of `has` into that of `has ∪ {tx}`.
-/
import MW.Lemmas.ImportJoinTx
import MW.Lemmas.RemoveBooks
namespace MW.Lemmas.ImportJoin
open MW MW.Model.Ledger MW.Model.Import MW.Spec.Chain MW.Spec.Books MW.Lemmas.Ledger MW.Lemmas.RemoveBooks

def hasRec (s : Store) (k : TxId × BlockMeta) : Bool := (AMap.get s.txrecs k).isSome

/-- the block records are the function `blockRecOf` of the tx records -/
def BlocksOK (chain : List Block) (s : Store) : Prop := ∀ h, AMap.get s.blocks h = blockRecOf (hasRec s) chain h

/-- every tx record belongs to a transaction of the chain and holds its block-file location -/
def TxPos (C : List Occ) (s : Store) : Prop :=
  ∀ k loc, AMap.get s.txrecs k = some loc → ∃ oc ∈ C, k = (oc.t.id, oc.bm) ∧ loc = (oc.bm.hash, oc.ti)

theorem recIdsP_cons (has : TxId × BlockMeta → Bool) (oc : Occ) (ocs : List Occ) :
    recIdsP has (oc :: ocs) = if has (oc.t.id, oc.bm) then oc.t.id :: recIdsP has ocs else recIdsP has ocs := by
  unfold recIdsP
  rw [List.filterMap_cons]
  by_cases h : has (oc.t.id, oc.bm) = true <;> simp [h]

theorem insertByPos_ne_nil (s : Store) (bm : BlockMeta) (id : TxId) (pos : Nat) (l : List TxId) :
    insertByPos s bm id pos l ≠ [] := by
  cases l with
  | nil => simp [insertByPos]
  | cons t rest =>
    unfold insertByPos
    split
    · split <;> simp
    · simp

/-- every recorded transaction of the list comes later in the block: the id goes in front -/
theorem insertByPos_head (s : Store) (bm : BlockMeta) (id : TxId) (pos : Nat) (has : TxId × BlockMeta → Bool) :
    ∀ (txs : List Tx) (k : Nat), pos < k →
      (∀ m t, txs[m]? = some t → has (t.id, bm) = true →
        ∃ loc, AMap.get s.txrecs (t.id, bm) = some loc ∧ loc.2 = k + m) →
      insertByPos s bm id pos (recIdsP has (occsFrom bm txs k)) = id :: recIdsP has (occsFrom bm txs k) := by
  intro txs
  induction txs with
  | nil => intro k _ _; rfl
  | cons t r ih =>
    intro k hk hpos
    have hocc : occsFrom bm (t :: r) k = ⟨bm, k, t⟩ :: occsFrom bm r (k + 1) := rfl
    rw [hocc, recIdsP_cons]
    by_cases ht : has (t.id, bm) = true
    · simp only [ht, if_true]
      obtain ⟨loc, hl, hl2⟩ := hpos 0 t rfl ht
      unfold insertByPos
      simp only [hl]
      rw [if_pos (by omega)]
    · simp only [ht, Bool.false_eq_true, if_false]
      apply ih (k + 1) (by omega)
      intro m t' hm ht'
      obtain ⟨loc, hl, hl2⟩ := hpos (m + 1) t' (by simpa using hm) ht'
      exact ⟨loc, hl, by omega⟩

/-- **insertByPos on a filtered id list**: inserting the transaction at position `pos` of the block into the ids
    of the recorded transactions of the block gives the ids of the recorded transactions plus this one -/
theorem insertByPos_recIds (s : Store) (bm : BlockMeta) (has : TxId × BlockMeta → Bool) (t0 : Tx) (pos : Nat)
    (hno : has (t0.id, bm) = false) :
    ∀ (txs : List Tx) (k : Nat), k ≤ pos → txs[pos - k]? = some t0 →
      (∀ m t, txs[m]? = some t → t.id = t0.id → k + m = pos) →
      (∀ m t, txs[m]? = some t → has (t.id, bm) = true →
        ∃ loc, AMap.get s.txrecs (t.id, bm) = some loc ∧ loc.2 = k + m) →
      insertByPos s bm t0.id pos (recIdsP has (occsFrom bm txs k)) =
        recIdsP (fun key => has key || decide (key = (t0.id, bm))) (occsFrom bm txs k) := by
  intro txs
  induction txs with
  | nil => intro k _ hat; simp at hat
  | cons t r ih =>
    intro k hk hat hinj hpos
    have hocc : occsFrom bm (t :: r) k = ⟨bm, k, t⟩ :: occsFrom bm r (k + 1) := rfl
    rw [hocc, recIdsP_cons, recIdsP_cons]
    have hpos' : ∀ m t', r[m]? = some t' → has (t'.id, bm) = true →
        ∃ loc, AMap.get s.txrecs (t'.id, bm) = some loc ∧ loc.2 = k + 1 + m := by
      intro m t' hm ht'
      obtain ⟨loc, hl, hl2⟩ := hpos (m + 1) t' (by simpa using hm) ht'
      exact ⟨loc, hl, by omega⟩
    by_cases hkp : k = pos
    · subst hkp
      have ht0 : t = t0 := by simpa using hat
      subst ht0
      simp only [hno, Bool.false_eq_true, if_false, Bool.false_or, decide_true, if_true]
      rw [insertByPos_head s bm t.id k has r (k + 1) (by omega) hpos']
      congr 1
      apply recIdsP_congr
      intro oc hoc
      obtain ⟨m, hm, _, hbm⟩ := mem_occsFrom.1 hoc
      have hne : oc.t.id ≠ t.id := by
        intro he
        have := hinj (m + 1) oc.t (by simpa using hm) he
        omega
      rw [hbm]
      simp [hne]
    · have hlt : k < pos := by omega
      have hne : t.id ≠ t0.id := by
        intro he
        have := hinj 0 t rfl he
        omega
      have hat' : r[pos - (k + 1)]? = some t0 := by
        have : pos - k = (pos - (k + 1)) + 1 := by omega
        rw [this] at hat
        simpa using hat
      have hinj' : ∀ m t', r[m]? = some t' → t'.id = t0.id → k + 1 + m = pos := by
        intro m t' hm he
        have := hinj (m + 1) t' (by simpa using hm) he
        omega
      have hIH := ih (k + 1) (by omega) hat' hinj' hpos'
      have hdec : decide ((t.id, bm) = (t0.id, bm)) = false := by simp [hne]
      by_cases ht : has (t.id, bm) = true
      · simp only [ht, if_true, Bool.true_or]
        obtain ⟨loc, hl, hl2⟩ := hpos 0 t rfl ht
        conv => lhs; unfold insertByPos
        simp only [hl]
        rw [if_neg (by omega), hIH]
      · simp only [ht, Bool.false_eq_true, if_false, hdec, Bool.or_false]
        exact hIH

-- ------------------------------------------------------------------ the record step

theorem chain_split {chain : List Block} {h : Nat} {b : Block} (hb : chain[h]? = some b) :
    chain = chain.take h ++ b :: chain.drop (h + 1) := by
  have hlt : h < chain.length := by
    rcases Nat.lt_or_ge h chain.length with hl | hl
    · exact hl
    · rw [List.getElem?_eq_none hl] at hb; cases hb
  have hb' : chain[h] = b := by
    rw [List.getElem?_eq_getElem hlt] at hb; exact Option.some.inj hb
  rw [← hb']
  exact (List.take_append_drop h chain).symm.trans (by rw [List.drop_eq_getElem_cons hlt])

theorem occ_mem_of_get {chain : List Block} (hH : HeightsOK chain) {h : Nat} {b : Block} (hb : chain[h]? = some b)
    {m : Nat} {t : Tx} (hm : b.txs[m]? = some t) : (⟨⟨h, b.id⟩, m, t⟩ : Occ) ∈ occs chain := by
  have hbh : b.height = h := hH h b hb
  apply mem_occs.2
  refine ⟨b, List.mem_of_getElem? hb, ?_⟩
  unfold occsOfBlock
  rw [hbh]
  have := occsFrom_mem_of_get (bm := ⟨h, b.id⟩) (i := 0) hm
  simpa using this

theorem blockRecOf_some {has : TxId × BlockMeta → Bool} {chain : List Block} {h : Nat} {b : Block}
    (hb : chain[h]? = some b) {l : List TxId} (hl : recIdsP has (occsOfBlock b) = l) (hne : l ≠ []) :
    blockRecOf has chain h = some (b.id, l) := by
  unfold blockRecOf
  rw [hb]
  subst hl
  dsimp only
  generalize recIdsP has (occsOfBlock b) = l at hne ⊢
  cases l with
  | nil => exact absurd rfl hne
  | cons a l => rfl

theorem blockRecOf_other {has has' : TxId × BlockMeta → Bool} {chain : List Block} (hH : HeightsOK chain) {h h' : Nat}
    (hne : h' ≠ h) (hag : ∀ key : TxId × BlockMeta, key.2.height ≠ h → has' key = has key) :
    blockRecOf has' chain h' = blockRecOf has chain h' := by
  unfold blockRecOf
  cases hb : chain[h']? with
  | none => rfl
  | some b' =>
    have hbh : b'.height = h' := hH h' b' hb
    have : recIdsP has' (occsOfBlock b') = recIdsP has (occsOfBlock b') := by
      apply recIdsP_congr
      intro oc hoc
      apply hag
      unfold occsOfBlock at hoc
      rw [mem_occsFrom_bm hoc]
      simp only
      rw [hbh]; exact hne
    simp only [this]

/-- **the record step** on a store whose block records follow its tx records -/
theorem record_join {chain : List Block} (hH : HeightsOK chain) (hn : (idsOf (occs chain)).Nodup)
    {h : Nat} {b : Block} (hb : chain[h]? = some b) {k : Nat} {tx : Tx} (hk : b.txs[k]? = some tx)
    {s : Store} {tr : TxRec} (htx : tr.tx = tx) (hloc : tr.loc = (b.id, k))
    (hBO : BlocksOK chain s) (hTP : TxPos (occs chain) s) :
    ∃ s1, recordForImporting s tr ⟨h, b.id⟩ = .ok s1 ∧ RecOnly s s1 ∧ BlocksOK chain s1 ∧ TxPos (occs chain) s1 ∧
      (∀ key, AMap.get s1.txrecs key =
        if (tx.id, (⟨h, b.id⟩ : BlockMeta)) = key then orE (AMap.get s.txrecs key) (some (b.id, k))
        else AMap.get s.txrecs key) := by
  have hbh : b.height = h := hH h b hb
  have hocs : occsOfBlock b = occsFrom ⟨h, b.id⟩ b.txs 0 := by unfold occsOfBlock; rw [hbh]
  have hocc : (⟨⟨h, b.id⟩, k, tx⟩ : Occ) ∈ occs chain := occ_mem_of_get hH hb hk
  -- positions of the recorded transactions of this block
  have hpos : ∀ m t, b.txs[m]? = some t → hasRec s (t.id, ⟨h, b.id⟩) = true →
      ∃ loc, AMap.get s.txrecs (t.id, (⟨h, b.id⟩ : BlockMeta)) = some loc ∧ loc.2 = 0 + m := by
    intro m t hm hh
    obtain ⟨loc, hl⟩ := Option.isSome_iff_exists.1 hh
    obtain ⟨oc', hoc', hkey, hloc'⟩ := hTP _ _ hl
    have hmem := occ_mem_of_get hH hb hm
    have he : oc' = ⟨⟨h, b.id⟩, m, t⟩ := occ_eq_of_id hn hoc' hmem (by
      have := congrArg Prod.fst hkey
      exact this.symm)
    refine ⟨loc, hl, ?_⟩
    rw [hloc', he]; simp
  have hinj : ∀ m t, b.txs[m]? = some t → t.id = tx.id → 0 + m = k := by
    intro m t hm he
    have hmem := occ_mem_of_get hH hb hm
    have := occ_eq_of_id hn hmem hocc he
    injection this with _ h2 _
    omega
  unfold recordForImporting
  rw [htx]
  by_cases hex : (AMap.get s.txrecs (tx.id, (⟨h, b.id⟩ : BlockMeta))).isSome = true
  · -- the follower recorded the transaction already (another wallet needs it)
    simp only [hex, if_true]
    have hmemid : tx.id ∈ recIdsP (hasRec s) (occsOfBlock b) := by
      unfold recIdsP
      rw [List.mem_filterMap]
      refine ⟨⟨⟨h, b.id⟩, k, tx⟩, ?_, ?_⟩
      · rw [hocs]
        have := occsFrom_mem_of_get (bm := ⟨h, b.id⟩) (i := 0) hk
        simpa using this
      · have : hasRec s (tx.id, ⟨h, b.id⟩) = true := hex
        simp [this]
    have hbl : AMap.get s.blocks h = some (b.id, recIdsP (hasRec s) (occsOfBlock b)) := by
      rw [hBO h]
      exact blockRecOf_some hb rfl (List.ne_nil_of_mem hmemid)
    simp only [hbl, ne_eq, not_true_eq_false, if_false]
    refine ⟨s, rfl, ⟨rfl, rfl, rfl, rfl, rfl, SameSync.refl s⟩, hBO, hTP, ?_⟩
    intro key
    by_cases hkey : (tx.id, (⟨h, b.id⟩ : BlockMeta)) = key
    · subst hkey
      obtain ⟨x, hx⟩ := Option.isSome_iff_exists.1 hex
      simp [hx]
    · simp [hkey]
  · have hex' : AMap.get s.txrecs (tx.id, (⟨h, b.id⟩ : BlockMeta)) = none := by
      cases hg : AMap.get s.txrecs (tx.id, (⟨h, b.id⟩ : BlockMeta)) with
      | none => rfl
      | some x => rw [hg] at hex; simp at hex
    have hno : hasRec s (tx.id, ⟨h, b.id⟩) = false := by unfold hasRec; rw [hex']; rfl
    simp only [hex, Bool.false_eq_true, if_false]
    -- the new id list of the block
    have hins := insertByPos_recIds s ⟨h, b.id⟩ (hasRec s) tx k hno b.txs 0 (Nat.zero_le _) (by simpa using hk) hinj hpos
    rw [← hocs] at hins
    -- the store after the step, in both cases
    have key : ∀ (s1 : Store), s1.txrecs = AMap.put s.txrecs (tx.id, ⟨h, b.id⟩) tr.loc →
        s1.blocks = AMap.put s.blocks h (b.id, insertByPos s ⟨h, b.id⟩ tx.id k (recIdsP (hasRec s) (occsOfBlock b))) →
        BlocksOK chain s1 ∧ TxPos (occs chain) s1 ∧
        (∀ key, AMap.get s1.txrecs key =
          if (tx.id, (⟨h, b.id⟩ : BlockMeta)) = key then orE (AMap.get s.txrecs key) (some (b.id, k))
          else AMap.get s.txrecs key) := by
      intro s1 ht hbk
      have hhas : ∀ key, hasRec s1 key = (hasRec s key || decide (key = (tx.id, ⟨h, b.id⟩))) := by
        intro key
        unfold hasRec
        rw [ht, AMap.get_put]
        by_cases hkk : (tx.id, (⟨h, b.id⟩ : BlockMeta)) = key
        · subst hkk; simp
        · have : ¬ key = (tx.id, (⟨h, b.id⟩ : BlockMeta)) := fun e => hkk e.symm
          simp [hkk, this]
      refine ⟨?_, ?_, ?_⟩
      · intro h'
        rw [hbk, AMap.get_put]
        by_cases hh : h = h'
        · subst hh
          simp only [if_true]
          symm
          apply blockRecOf_some hb _ (insertByPos_ne_nil _ _ _ _ _)
          rw [hins]
          apply recIdsP_congr
          intro oc _
          exact hhas _
        · simp only [hh, if_false]
          rw [hBO h']
          symm
          apply blockRecOf_other hH (h := h) (fun e => hh e.symm)
          intro key hkey
          rw [hhas key]
          have : ¬ key = (tx.id, (⟨h, b.id⟩ : BlockMeta)) := by
            intro e; apply hkey; rw [e]
          simp [this]
      · intro key loc hl
        rw [ht, AMap.get_put] at hl
        by_cases hkk : (tx.id, (⟨h, b.id⟩ : BlockMeta)) = key
        · simp only [hkk, if_true, Option.some.injEq] at hl
          refine ⟨⟨⟨h, b.id⟩, k, tx⟩, hocc, hkk.symm, ?_⟩
          rw [← hl, hloc]
        · simp only [hkk, if_false] at hl
          exact hTP key loc hl
      · intro key
        rw [ht, AMap.get_put]
        by_cases hkk : (tx.id, (⟨h, b.id⟩ : BlockMeta)) = key
        · subst hkk
          simp [hex', hloc]
        · simp [hkk]
    cases hbl : AMap.get s.blocks h with
    | none =>
      have hnil : recIdsP (hasRec s) (occsOfBlock b) = [] := by
        have := hBO h
        rw [hbl] at this
        unfold blockRecOf at this
        rw [hb] at this
        simp only at this
        cases hl : recIdsP (hasRec s) (occsOfBlock b) with
        | nil => rfl
        | cons a l => rw [hl] at this; cases this
      simp only
      obtain ⟨h1, h2, h3⟩ := key
        { s with blocks := AMap.put s.blocks h (b.id, [tx.id]),
                 txrecs := AMap.put s.txrecs (tx.id, ⟨h, b.id⟩) tr.loc } rfl (by rw [hnil]; rfl)
      exact ⟨_, rfl, ⟨rfl, rfl, rfl, rfl, rfl, ⟨rfl, rfl, rfl, rfl⟩⟩, h1, h2, h3⟩
    | some v =>
      obtain ⟨hh, txs⟩ := v
      have hv : some (hh, txs) = blockRecOf (hasRec s) chain h := by rw [← hbl]; exact hBO h
      unfold blockRecOf at hv
      rw [hb] at hv
      simp only at hv
      have hv' : hh = b.id ∧ txs = recIdsP (hasRec s) (occsOfBlock b) := by
        cases hl : recIdsP (hasRec s) (occsOfBlock b) with
        | nil => rw [hl] at hv; cases hv
        | cons a l =>
          rw [hl] at hv
          simp only [Option.some.injEq, Prod.mk.injEq] at hv
          exact hv
      obtain ⟨rfl, rfl⟩ := hv'
      simp only [ne_eq, not_true_eq_false, if_false]
      obtain ⟨h1, h2, h3⟩ := key
        { s with blocks := AMap.put s.blocks h (b.id, insertByPos s ⟨h, b.id⟩ tx.id tr.loc.2 (recIdsP (hasRec s) (occsOfBlock b))),
                 txrecs := AMap.put s.txrecs (tx.id, ⟨h, b.id⟩) tr.loc } rfl (by rw [hloc])
      exact ⟨_, rfl, ⟨rfl, rfl, rfl, rfl, rfl, ⟨rfl, rfl, rfl, rfl⟩⟩, h1, h2, h3⟩

end MW.Lemmas.ImportJoin
