/-
  filterBlock, first loop (C01 goal 1, block level, FILTER phase): `filterTxs` – Go `filterTx` on every
  transaction of a connected block, against the store as it is when the block starts – takes none of its
  error exits and returns exactly the relevance records the books predict (`Matches`, LedgerBlock.lean).

  Setting (`FilterCtx`): the node's best chain extends the wallet's chain by the block `b` (and possibly
  more), it is valid, every owner of an address is a ready wallet, `B0` are the books when the block starts
  and the credit bucket of the store agrees with them.
-/
import MW.Lemmas.LedgerBlock
import MW.Lemmas.LedgerNode
namespace MW.Lemmas.Ledger
open MW MW.Model.Ledger MW.Spec.Chain MW.Spec.Books

structure FilterCtx (c : Ctx) (s0 : Store) (ready : List Wid) (chain rest : List Block) (b : Block) (B0 : Book) :
    Prop where
  /-- the node's best chain extends the wallet's chain by `b` and possibly more -/
  hnode : c.node.chain = chain ++ b :: rest
  hvalid : ChainValid c.own c.node.chain
  hAR : AllReady c.own ready
  /-- `B0` = the books when the block starts -/
  hglob0 : Glob c.own (occs chain) B0
  /-- every credit of the books `B0` is in the store (the store may hold more: the credits of a wallet that is
      being restored, C07) -/
  hcred0 : ∀ k, (B0.credits k).isSome = true → (AMap.get s0.credits k).isSome = true

section
variable {c : Ctx} {s0 : Store} {ready : List Wid} {chain rest : List Block} {b : Block} {B0 : Book}

theorem FilterCtx.occ_on_node (F : FilterCtx c s0 ready chain rest b B0) {oc : Occ} (h : oc ∈ occs chain) :
    oc ∈ occs c.node.chain := by
  rw [F.hnode, occs_append]
  exact List.mem_append_left _ h

-- ------------------------------------------------------------------ prevOf

/-- where filterTx finds the previous transaction of an input whose source `srcOut P id idx = some o`
    exists among the transactions before: either the lookup is skipped (no credit of that transaction in
    the store, and then the source is a transaction of the wallet's chain), or the transaction found –
    in the current block or on the node's chain – is the source itself -/
theorem prevOf_cases (F : FilterCtx c s0 ready chain rest b B0) {bm : BlockMeta} {pre : List Tx} {tx : Tx} {B : Book}
    (hG : Glob c.own (occs chain ++ occsFrom bm pre 0) B)
    (hfresh : tx.id ∉ idsOf (occs chain ++ occsFrom bm pre 0))
    {id : TxId} {idx : Nat} {o : Out} (hsrc : srcOut (occs chain ++ occsFrom bm pre 0) id idx = some o) :
    (prevOf c s0 true (pre ++ [tx]) id = .skip ∧ existCreditFromTx s0 id = false ∧
        ∃ oc0 ∈ occs chain, oc0.t.id = id ∧ oc0.t.outs[idx]? = some o) ∨
    (∃ t, prevOf c s0 true (pre ++ [tx]) id = .found t ∧ t.outs[idx]? = some o) := by
  obtain ⟨oc0, h0, hid, hout⟩ := srcOut_some_find hsrc
  have hidP : id ∈ idsOf (occs chain ++ occsFrom bm pre 0) := List.mem_map.2 ⟨oc0, h0, hid⟩
  have hne : tx.id ≠ id := fun h => hfresh (h ▸ hidP)
  unfold prevOf
  simp only [if_true]
  cases hf : (pre ++ [tx]).find? (fun t => t.id = id) with
  | some t' =>
    right
    refine ⟨t', rfl, ?_⟩
    have hmem : t' ∈ pre ++ [tx] := List.mem_of_find?_eq_some hf
    have hid' : t'.id = id := by simpa using List.find?_some hf
    have hpre : t' ∈ pre := by
      rcases List.mem_append.1 hmem with h | h
      · exact h
      · rw [List.mem_singleton] at h
        exact absurd (h ▸ hid') hne
    obtain ⟨m, hm⟩ := List.getElem?_of_mem hpre
    have hocc : (⟨bm, 0 + m, t'⟩ : Occ) ∈ occs chain ++ occsFrom bm pre 0 :=
      List.mem_append_right _ (occsFrom_mem_of_get hm)
    have := occ_eq_of_id hG.idsNodup hocc h0 (hid'.trans hid.symm)
    rw [← this] at hout
    exact hout
  | none =>
    have h0c : oc0 ∈ occs chain := by
      rcases List.mem_append.1 h0 with h | h
      · exact h
      · obtain ⟨m, hm, -, -⟩ := mem_occsFrom.1 h
        have hmem : oc0.t ∈ pre ++ [tx] := List.mem_append_left _ (List.mem_of_getElem? hm)
        have := List.find?_eq_none.1 hf oc0.t hmem
        simp [hid] at this
    cases hex : existCreditFromTx s0 id with
    | false =>
      left
      exact ⟨rfl, rfl, oc0, h0c, hid, hout⟩
    | true =>
      right
      have hfetch : c.node.fetchTx id = some oc0.t := by
        rw [← hid]
        exact fetchTx_of_occ (glob_bookOf (p := c.p) F.hvalid).idsNodup (F.occ_on_node h0c)
      refine ⟨oc0.t, ?_, hout⟩
      simp only [Bool.not_true, Bool.and_false, Bool.false_eq_true, if_false, hfetch]

/-- the TxIn loop body once the previous output is known -/
theorem filterIn_found {mined : Bool} {inBlk : List Tx} {tr : TxRec} {k : Nat} {i : Inp} {t : Tx} {o : Out}
    (hp : prevOf c s0 mined inBlk i.tx = .found t) (ho : t.outs[i.idx]? = some o) :
    filterIn c s0 mined inBlk ready tr k i =
      .ok (match ownerOf c.own o with
        | some (w, ch) =>
          if ready.contains w then
            { tr with hasBindingIn := o.cls.isBinding,
                      relIn := tr.relIn ++ [{ index := k, out := o, wallet := w, change := ch }] }
          else tr
        | none => tr) := by
  unfold filterIn ownerOf
  rw [hp]
  simp only
  rw [ho]
  simp only
  by_cases hr : o.cls = .raw
  · simp only [hr, if_true]; rfl
  · simp only [hr, if_false]
    cases AMap.get c.own o.addr with
    | none => rfl
    | some wc =>
      obtain ⟨w, ch⟩ := wc
      by_cases hw : ready.contains w = true
      · simp only [hw, if_true]; rfl
      · simp only [hw]; rfl

-- ------------------------------------------------------------------ (a) one input

theorem filterIn_spec (F : FilterCtx c s0 ready chain rest b B0) {bm : BlockMeta} {pre : List Tx} {tx : Tx} {B : Book}
    (hG : Glob c.own (occs chain ++ occsFrom bm pre 0) B)
    (hV : OccValid c.own (occs chain ++ occsFrom bm pre 0) ⟨bm, pre.length, tx⟩)
    (hcb : tx.cb = false) {k : Nat} {i : Inp} (hi : tx.ins[k]? = some i) (tr : TxRec) :
    filterIn c s0 true (pre ++ [tx]) ready tr k i =
      .ok (match lookupU B.L i.tx i.idx with
        | some u => { tr with hasBindingIn := u.out.cls.isBinding,
                              relIn := tr.relIn ++ [{ index := k, out := u.out, wallet := u.wallet, change := u.change }] }
        | none => tr) := by
  have himem : i ∈ tx.ins := List.mem_of_getElem? hi
  obtain ⟨o, ho⟩ := Option.isSome_iff_exists.1 (hV.2.1 hcb i himem)
  rcases prevOf_cases F hG hV.1 ho with ⟨hp, hex, oc0, h0, hid, hout⟩ | ⟨t, hp, hout⟩
  · -- skipped: nothing of that transaction is in the store, so the outpoint is not in the ledger
    unfold filterIn
    rw [hp]
    cases hu : lookupU B.L i.tx i.idx with
    | none => rfl
    | some u =>
      exfalso
      obtain ⟨hs, hown⟩ := glob_lookup_src' hG hu
      rw [ho] at hs
      have ho' : o = u.out := by simpa using hs
      have hcr := F.hglob0.credAll oc0 h0 i.idx o hout (by rw [ho', hown]; rfl)
      have := existCredit_of_get (F.hcred0 _ hcr)
      simp only [hid] at this
      rw [hex] at this
      cases this
  · rw [filterIn_found hp hout]
    cases hu : lookupU B.L i.tx i.idx with
    | none =>
      rw [glob_lookup_none hG hV hcb himem hu o ho]
    | some u =>
      obtain ⟨hs, hown⟩ := glob_lookup_src' hG hu
      rw [ho] at hs
      have ho' : o = u.out := by simpa using hs
      subst ho'
      rw [hown]
      simp only [ready_of_owner F.hAR hown, if_true]

-- ------------------------------------------------------------------ (b) the TxIn loop

theorem hitsFrom_cons_none {L : List UCoin} {i : Inp} {is : List Inp} {k : Nat} (h : lookupU L i.tx i.idx = none) :
    hitsFrom L (i :: is) k = hitsFrom L is (k + 1) := by
  conv => lhs; unfold hitsFrom
  rw [h]; rfl

theorem hitsFrom_cons_some {L : List UCoin} {i : Inp} {is : List Inp} {k : Nat} {u : UCoin}
    (h : lookupU L i.tx i.idx = some u) :
    hitsFrom L (i :: is) k =
      { index := k, out := u.out, wallet := u.wallet, change := u.change } :: hitsFrom L is (k + 1) := by
  conv => lhs; unfold hitsFrom
  rw [h]; rfl

theorem filterIns_spec (F : FilterCtx c s0 ready chain rest b B0) {bm : BlockMeta} {pre : List Tx} {tx : Tx} {B : Book}
    (hG : Glob c.own (occs chain ++ occsFrom bm pre 0) B)
    (hV : OccValid c.own (occs chain ++ occsFrom bm pre 0) ⟨bm, pre.length, tx⟩)
    (hcb : tx.cb = false) (is : List Inp) :
    ∀ (k : Nat) (tr : TxRec), (∀ m i, is[m]? = some i → tx.ins[k + m]? = some i) →
      ∃ tr', foldIdxM (filterIn c s0 true (pre ++ [tx]) ready) is k tr = .ok tr' ∧
        tr'.relIn = tr.relIn ++ hitsFrom B.L is k ∧ tr'.relOut = tr.relOut ∧ tr'.tx = tr.tx ∧ tr'.loc = tr.loc ∧
        (tr'.hasBindingIn = true →
          (tr.hasBindingIn = true ∨ ∃ i ∈ is, bindingSrc c.own (occs chain ++ occsFrom bm pre 0) i = true)) := by
  induction is with
  | nil =>
    intro k tr _
    exact ⟨tr, rfl, by simp [hitsFrom], rfl, rfl, rfl, fun h => Or.inl h⟩
  | cons i is ih =>
    intro k tr hidx
    have hi : tx.ins[k]? = some i := by simpa using hidx 0 i rfl
    have hidx' : ∀ m i', is[m]? = some i' → tx.ins[k + 1 + m]? = some i' := by
      intro m i' hm
      have := hidx (m + 1) i' (by simpa using hm)
      rw [show k + 1 + m = k + (m + 1) by omega]; exact this
    rw [foldIdxM_cons, filterIn_spec F hG hV hcb hi tr, M_ok_bind]
    cases hu : lookupU B.L i.tx i.idx with
    | none =>
      obtain ⟨tr', h1, h2, h3, h4, h5, h6⟩ := ih (k + 1) tr hidx'
      refine ⟨tr', h1, by rw [h2, hitsFrom_cons_none hu], h3, h4, h5, ?_⟩
      intro hb
      rcases h6 hb with h | ⟨i', hi', hb'⟩
      · exact Or.inl h
      · exact Or.inr ⟨i', List.mem_cons_of_mem _ hi', hb'⟩
    | some u =>
      obtain ⟨tr', h1, h2, h3, h4, h5, h6⟩ := ih (k + 1)
        { tr with hasBindingIn := u.out.cls.isBinding,
                  relIn := tr.relIn ++ [{ index := k, out := u.out, wallet := u.wallet, change := u.change }] } hidx'
      refine ⟨tr', h1, ?_, h3, h4, h5, ?_⟩
      · rw [h2, hitsFrom_cons_some hu]; simp
      · intro hb
        rcases h6 hb with h | ⟨i', hi', hb'⟩
        · right
          refine ⟨i, List.mem_cons_self .., ?_⟩
          obtain ⟨hs, hown⟩ := glob_lookup_src' hG hu
          have h' : u.out.cls.isBinding = true := h
          unfold bindingSrc
          rw [hs]
          simp only [hown, h', Option.isSome_some, Bool.and_self]
        · exact Or.inr ⟨i', List.mem_cons_of_mem _ hi', hb'⟩

/-- the TxIn loop never writes the output flag -/
theorem filterIn_bout {s : Store} {mined : Bool} {inBlk : List Tx} {tr tr' : TxRec} {k : Nat} {i : Inp}
    (h : filterIn c s mined inBlk ready tr k i = .ok tr') : tr'.hasBindingOut = tr.hasBindingOut := by
  unfold filterIn at h
  split at h
  · cases h; rfl
  · cases h
  · split at h
    · cases h
    · split at h
      · cases h; rfl
      · split at h
        · split at h
          · cases h; rfl
          · cases h; rfl
        · cases h; rfl

theorem filterIns_bout {s : Store} {mined : Bool} {inBlk : List Tx} (is : List Inp) :
    ∀ (k : Nat) (tr tr' : TxRec), foldIdxM (filterIn c s mined inBlk ready) is k tr = .ok tr' →
      tr'.hasBindingOut = tr.hasBindingOut := by
  induction is with
  | nil => intro k tr tr' h; cases h; rfl
  | cons i is ih =>
    intro k tr tr' h
    rw [foldIdxM_cons] at h
    cases h1 : filterIn c s mined inBlk ready tr k i with
    | error e => rw [h1] at h; cases h
    | ok tr1 =>
      rw [h1, M_ok_bind] at h
      rw [ih _ _ _ h, filterIn_bout h1]

-- ------------------------------------------------------------------ (c) the TxOut loop

theorem filterOut_eq (c : Ctx) (ready : List Wid) (tr : TxRec) (j : Nat) (o : Out) :
    filterOut c ready tr j o =
      match ownerOf c.own o with
      | some (w, ch) =>
        if ready.contains w then
          { tr with hasBindingOut := o.cls.isBinding,
                    relOut := tr.relOut ++ [{ index := j, out := o, wallet := w, change := ch }] }
        else tr
      | none => tr := by
  unfold filterOut ownerOf
  by_cases hr : o.cls = .raw
  · simp only [hr, if_true]
  · simp only [hr, if_false]; rfl

theorem ownedFrom_cons_none {own : Own} {o : Out} {os : List Out} {j : Nat} (h : ownerOf own o = none) :
    ownedFrom own (o :: os) j = ownedFrom own os (j + 1) := by
  conv => lhs; unfold ownedFrom
  rw [h]; rfl

theorem ownedFrom_cons_some {own : Own} {o : Out} {os : List Out} {j : Nat} {w : Wid} {ch : Bool}
    (h : ownerOf own o = some (w, ch)) :
    ownedFrom own (o :: os) j = { index := j, out := o, wallet := w, change := ch } :: ownedFrom own os (j + 1) := by
  conv => lhs; unfold ownedFrom
  rw [h]; rfl

theorem filterOuts_spec (hAR : AllReady c.own ready) (os : List Out) :
    ∀ (j : Nat) (tr : TxRec),
      (foldIdx (filterOut c ready) os j tr).relOut = tr.relOut ++ ownedFrom c.own os j ∧
      (foldIdx (filterOut c ready) os j tr).relIn = tr.relIn ∧
      (foldIdx (filterOut c ready) os j tr).tx = tr.tx ∧
      (foldIdx (filterOut c ready) os j tr).loc = tr.loc ∧
      (foldIdx (filterOut c ready) os j tr).hasBindingIn = tr.hasBindingIn ∧
      ((foldIdx (filterOut c ready) os j tr).hasBindingOut = true →
        tr.hasBindingOut = true ∨ ∃ o ∈ os, ((ownerOf c.own o).isSome && o.cls.isBinding) = true) := by
  induction os with
  | nil =>
    intro j tr
    exact ⟨by simp [ownedFrom], rfl, rfl, rfl, rfl, fun h => Or.inl h⟩
  | cons o os ih =>
    intro j tr
    rw [foldIdx_cons, filterOut_eq]
    cases ho : ownerOf c.own o with
    | none =>
      obtain ⟨h1, h2, h3, h4, h5, h6⟩ := ih (j + 1) tr
      refine ⟨by rw [h1, ownedFrom_cons_none ho], h2, h3, h4, h5, ?_⟩
      intro hb
      rcases h6 hb with h | ⟨o', ho', hb'⟩
      · exact Or.inl h
      · exact Or.inr ⟨o', List.mem_cons_of_mem _ ho', hb'⟩
    | some wc =>
      obtain ⟨w, ch⟩ := wc
      simp only [ready_of_owner hAR ho, if_true]
      obtain ⟨h1, h2, h3, h4, h5, h6⟩ := ih (j + 1)
        { tr with hasBindingOut := o.cls.isBinding,
                  relOut := tr.relOut ++ [{ index := j, out := o, wallet := w, change := ch }] }
      refine ⟨?_, h2, h3, h4, h5, ?_⟩
      · rw [h1, ownedFrom_cons_some ho]; simp
      · intro hb
        rcases h6 hb with h | ⟨o', ho', hb'⟩
        · right
          refine ⟨o, List.mem_cons_self .., ?_⟩
          have h' : o.cls.isBinding = true := h
          simp only [ho, h', Option.isSome_some, Bool.and_self]
        · exact Or.inr ⟨o', List.mem_cons_of_mem _ ho', hb'⟩

-- ------------------------------------------------------------------ (d) one transaction

theorem hitsFrom_isEmpty (L : List UCoin) (is : List Inp) (k : Nat) :
    (hitsFrom L is k).isEmpty = !is.any (fun i => (lookupU L i.tx i.idx).isSome) := by
  induction is generalizing k with
  | nil => rfl
  | cons i is ih =>
    cases hu : lookupU L i.tx i.idx with
    | none => rw [hitsFrom_cons_none hu, ih]; simp [hu]
    | some u => rw [hitsFrom_cons_some hu]; simp [hu]

theorem ownedFrom_isEmpty (own : Own) (os : List Out) (j : Nat) :
    (ownedFrom own os j).isEmpty = !os.any (fun o => (ownerOf own o).isSome) := by
  induction os generalizing j with
  | nil => rfl
  | cons o os ih =>
    cases ho : ownerOf own o with
    | none => rw [ownedFrom_cons_none ho, ih]; simp [ho]
    | some wc => obtain ⟨w, ch⟩ := wc; rw [ownedFrom_cons_some ho]; simp [ho]

/-- no relevant input ⇔ no input hits the ledger -/
theorem hitsFrom_eq_nil {L : List UCoin} {is : List Inp} {k : Nat} :
    hitsFrom L is k = [] ↔ is.any (fun i => (lookupU L i.tx i.idx).isSome) = false := by
  rw [← List.isEmpty_iff, hitsFrom_isEmpty]; simp

/-- no relevant output ⇔ no output pays an owned address -/
theorem ownedFrom_eq_nil {own : Own} {os : List Out} {j : Nat} :
    ownedFrom own os j = [] ↔ os.any (fun o => (ownerOf own o).isSome) = false := by
  rw [← List.isEmpty_iff, ownedFrom_isEmpty]; simp

/-- `filterTxRel` without the do-notation -/
theorem filterTxRel_eq (c : Ctx) (s : Store) (tx : Tx) (mined : Bool) (inBlk : List Tx) (ready : List Wid) :
    filterTxRel c s tx mined inBlk ready =
      ((if tx.cb = true then (pure { tx := tx } : M TxRec)
        else foldIdxM (filterIn c s mined inBlk ready) tx.ins 0 { tx := tx }) >>= fun tr1 =>
        if ((foldIdx (filterOut c ready) tx.outs 0 tr1).relIn.isEmpty &&
            (foldIdx (filterOut c ready) tx.outs 0 tr1).relOut.isEmpty) = true then Except.ok none
        else if ((foldIdx (filterOut c ready) tx.outs 0 tr1).hasBindingIn &&
            (foldIdx (filterOut c ready) tx.outs 0 tr1).hasBindingOut) = true then Except.error .bothBinding
        else Except.ok (some (foldIdx (filterOut c ready) tx.outs 0 tr1))) := by
  unfold filterTxRel
  cases tx.cb <;> rfl

theorem filterTxRel_spec (F : FilterCtx c s0 ready chain rest b B0) {bm : BlockMeta} {pre : List Tx} {tx : Tx} {B : Book}
    (hG : Glob c.own (occs chain ++ occsFrom bm pre 0) B)
    (hV : OccValid c.own (occs chain ++ occsFrom bm pre 0) ⟨bm, pre.length, tx⟩) :
    ∃ r, filterTxRel c s0 tx true (pre ++ [tx]) ready = .ok r ∧
      (touches c.own B tx = true →
        ∃ tr, r = some tr ∧ tr.tx = tx ∧ tr.relIn = (if tx.cb then [] else hitsFrom B.L tx.ins 0) ∧
          tr.relOut = ownedFrom c.own tx.outs 0) ∧
      (touches c.own B tx = false → r = none) := by
  -- the TxIn loop (skipped for a coinbase)
  have h1 : ∃ tr1 : TxRec,
      (if tx.cb = true then (pure { tx := tx } : M TxRec)
        else foldIdxM (filterIn c s0 true (pre ++ [tx]) ready) tx.ins 0 { tx := tx }) = .ok tr1 ∧
      tr1.relIn = (if tx.cb then [] else hitsFrom B.L tx.ins 0) ∧ tr1.relOut = [] ∧ tr1.tx = tx ∧
      tr1.hasBindingOut = false ∧
      (tr1.hasBindingIn = true →
        tx.cb = false ∧ ∃ i ∈ tx.ins, bindingSrc c.own (occs chain ++ occsFrom bm pre 0) i = true) := by
    cases hcb : tx.cb with
    | true =>
      refine ⟨{ tx := tx }, by simp, by simp, rfl, rfl, rfl, ?_⟩
      intro h; cases h
    | false =>
      obtain ⟨tr', e1, e2, e3, e4, _, e6⟩ :=
        filterIns_spec F hG hV hcb tx.ins 0 { tx := tx } (fun m i h => by rw [Nat.zero_add]; exact h)
      refine ⟨tr', by simpa using e1, by simpa using e2, e3, e4, filterIns_bout _ _ _ _ e1, ?_⟩
      intro hb
      rcases e6 hb with h | h
      · cases h
      · exact ⟨rfl, h⟩
  obtain ⟨tr1, e1, e2, e3, e4, e7, e5⟩ := h1
  obtain ⟨o1, o2, o3, _, o5, o6⟩ := filterOuts_spec (c := c) F.hAR tx.outs 0 tr1
  -- the record is empty exactly when the transaction does not touch the books
  have hE : ((foldIdx (filterOut c ready) tx.outs 0 tr1).relIn.isEmpty &&
      (foldIdx (filterOut c ready) tx.outs 0 tr1).relOut.isEmpty) = !touches c.own B tx := by
    rw [o1, o2, e2, e3]
    unfold touches
    cases tx.cb <;> simp [hitsFrom_isEmpty, ownedFrom_isEmpty]
  -- both-binding cannot fire: last clause of `OccValid`
  have hBB : ((foldIdx (filterOut c ready) tx.outs 0 tr1).hasBindingIn &&
      (foldIdx (filterOut c ready) tx.outs 0 tr1).hasBindingOut) = false := by
    rw [Bool.and_eq_false_iff]
    by_cases hin : (foldIdx (filterOut c ready) tx.outs 0 tr1).hasBindingIn = true
    · right
      rw [o5] at hin
      obtain ⟨hcb, i, hi, hbi⟩ := e5 hin
      cases hout : (foldIdx (filterOut c ready) tx.outs 0 tr1).hasBindingOut with
      | false => rfl
      | true =>
        exfalso
        rcases o6 hout with h | ⟨o, ho, hbo⟩
        · rw [e7] at h; cases h
        · have hv := hV.2.2.2.2
          have h1 : tx.ins.any (bindingSrc c.own (occs chain ++ occsFrom bm pre 0)) = true :=
            List.any_eq_true.2 ⟨i, hi, hbi⟩
          have h2 : tx.outs.any (fun o => (ownerOf c.own o).isSome && o.cls.isBinding) = true :=
            List.any_eq_true.2 ⟨o, ho, hbo⟩
          simp only [hcb, h1, h2, Bool.not_false, Bool.and_self] at hv
          cases hv
    · left
      simpa using hin
  rw [filterTxRel_eq, e1, M_ok_bind, hE, hBB]
  cases ht : touches c.own B tx with
  | true =>
    refine ⟨some (foldIdx (filterOut c ready) tx.outs 0 tr1), by simp, ?_, by simp⟩
    intro _
    exact ⟨_, rfl, o3.trans e4, o2.trans e2, by rw [o1, e3]; rfl⟩
  | false =>
    exact ⟨none, by simp, by simp, fun _ => rfl⟩

-- ------------------------------------------------------------------ (e) the whole block

theorem occsFrom_snoc (bm : BlockMeta) (pre : List Tx) (tx : Tx) :
    occsFrom bm (pre ++ [tx]) 0 = occsFrom bm pre 0 ++ [⟨bm, pre.length, tx⟩] := by
  rw [occsFrom_append, Nat.zero_add]; rfl

theorem filterTxs_spec (F : FilterCtx c s0 ready chain rest b B0) (post : List Tx) :
    ∀ (pre : List Tx) (acc : List TxRec) (B : Book), b.txs = pre ++ post →
      Glob c.own (occs chain ++ occsFrom ⟨b.height, b.id⟩ pre 0) B →
      ValidFrom c.own (occs chain ++ occsFrom ⟨b.height, b.id⟩ pre 0) (occsFrom ⟨b.height, b.id⟩ post pre.length) →
      ∃ recs, filterTxs c s0 ready b.id post pre pre.length acc = .ok (acc ++ recs) ∧
        Matches c.p c.own B (occsFrom ⟨b.height, b.id⟩ post pre.length) recs := by
  induction post with
  | nil =>
    intro pre acc B _ _ _
    refine ⟨[], by simp [filterTxs], ?_⟩
    simp [occsFrom, Matches]
  | cons tx post ih =>
    intro pre acc B hsplit hG hV
    obtain ⟨hV1, hV2⟩ := hV
    have hG' := glob_step (p := c.p) hG hV1
    rw [List.append_assoc, ← occsFrom_snoc] at hG' hV2
    have hlen : (pre ++ [tx]).length = pre.length + 1 := by simp
    rw [← hlen] at hV2
    have hsplit' : b.txs = (pre ++ [tx]) ++ post := by rw [hsplit]; simp
    obtain ⟨r, hr, hr1, hr2⟩ := filterTxRel_spec F hG hV1
    rw [filterTxs, hr, M_ok_bind]
    simp only [occsFrom]
    unfold Matches
    cases ht : touches c.own B tx with
    | true =>
      obtain ⟨tr, rfl, htx, hin, hout⟩ := hr1 ht
      obtain ⟨recs', h1, h2⟩ := ih (pre ++ [tx]) (acc ++ [{ tr with loc := (b.id, pre.length) }]) _ hsplit' hG' hV2
      rw [hlen] at h1 h2
      refine ⟨{ tr with loc := (b.id, pre.length) } :: recs', ?_, ?_⟩
      · simp only; rw [h1, List.append_assoc]; rfl
      · simp only [if_true]
        exact ⟨_, _, rfl, ⟨htx, rfl, hin, hout⟩, h2⟩
    | false =>
      have hnone := hr2 ht
      subst hnone
      have hun : applyOcc c.p c.own B ⟨⟨b.height, b.id⟩, pre.length, tx⟩ = B := applyOcc_untouched ht
      rw [hun] at hG'
      obtain ⟨recs', h1, h2⟩ := ih (pre ++ [tx]) acc B hsplit' hG' hV2
      rw [hlen] at h1 h2
      refine ⟨recs', h1, ?_⟩
      simp only [Bool.false_eq_true, if_false]
      rw [hun]; exact h2

/-- the first loop of filterBlock on the whole block -/
theorem filterTxs_block (F : FilterCtx c s0 ready chain rest b B0)
    (hV : ValidFrom c.own (occs chain) (occsOfBlock b)) :
    ∃ recs, filterTxs c s0 ready b.id b.txs [] 0 [] = .ok recs ∧ Matches c.p c.own B0 (occsOfBlock b) recs := by
  have := filterTxs_spec F b.txs [] [] B0 rfl (by simpa [occsFrom] using F.hglob0)
    (by simpa [occsFrom, occsOfBlock] using hV)
  simpa [occsOfBlock] using this

/-- the validity hypothesis of `filterTxs_block` follows from the validity of the node's chain -/
theorem FilterCtx.valid_block (F : FilterCtx c s0 ready chain rest b B0) :
    ValidFrom c.own (occs chain) (occsOfBlock b) := by
  have h := F.hvalid
  unfold ChainValid at h
  rw [F.hnode, occs_append, validFrom_append, List.nil_append] at h
  have h2 := h.2
  rw [show b :: rest = [b] ++ rest from rfl, occs_append, validFrom_append] at h2
  simpa [occs] using h2.1

end
end MW.Lemmas.Ledger
