/-
  Helper lemmas for C02 (eligible_only, reserve_monotone): the eligibility filter and the reservation
  cache over consecutive create calls.
-/
import MW.Lemmas.FeeLoop
namespace MW.Lemmas.FeeReserve
open MW MW.Model.Select MW.Model.Fee MW.Lemmas.SelectGreedy MW.Lemmas.FeeLoop

theorem mem_of_subMultiset {α : Type} {a b : List α} (h : SubMultiset a b) (x : α) (hx : x ∈ a) : x ∈ b := by
  obtain ⟨rest, hp⟩ := h
  exact hp.mem_iff.mp (List.mem_append_left _ hx)

theorem nodup_of_subMultiset {α β : Type} (f : α → β) {a b : List α} (h : SubMultiset a b)
    (hb : (b.map f).Nodup) : (a.map f).Nodup := by
  obtain ⟨rest, hp⟩ := h
  have h1 : ((a ++ rest).map f).Nodup := ((hp.map f).nodup_iff).mpr hb
  rw [List.map_append] at h1
  exact (List.nodup_append.mp h1).1

/-- autoConstruct only returns coins of its environment, each at most once -/
theorem autoConstruct_sub (env : Env) (outs : List Nat) (pl fee : Nat) (chg : String) (res : AutoRes)
    (h : autoConstruct env outs pl fee chg = .ok res) : SubMultiset res.ins env.coins := by
  unfold autoConstruct at h
  simp only [] at h
  cases hs : sumOuts outs with
  | error e => rw [hs] at h; cases h
  | ok outSum =>
    rw [hs] at h
    simp only [] at h
    exact (outerLoop_spec env outSum outs.length pl chg _ _ res h).sub

theorem mem_eligibleOf (r : Reserved) (addrs : List String) (cs : List WCoin) (c : Coin) (h : c ∈ eligibleOf r addrs cs) :
    ∃ w ∈ cs, w.toCoin = c ∧ eligibleFilter r addrs w = true := by
  unfold eligibleOf at h
  obtain ⟨w, hw, e⟩ := List.mem_map.mp h
  obtain ⟨hm, hf⟩ := List.mem_filter.mp hw
  exact ⟨w, hm, e, hf⟩

/-- eligible_only at the level of one create call -/
theorem createCall_eligible (s s' : Session) (q : CreateReq) (res : AutoRes) (h : createCall s q = (s', .ok res)) :
    ∀ c ∈ res.ins, ∃ w ∈ q.view, w.toCoin = c ∧ eligibleFilter s.reserved q.addrs w = true := by
  unfold createCall at h
  cases ha : autoConstruct { coins := eligibleOf s.reserved q.addrs q.view } q.outs q.payloadLen q.userFee q.chgAddr with
  | error e => rw [ha] at h; simp at h
  | ok r =>
    rw [ha] at h
    simp only [Prod.mk.injEq, Except.ok.injEq] at h
    obtain ⟨_, h2⟩ := h
    subst h2
    intro c hc
    have hsub := autoConstruct_sub _ _ _ _ _ _ ha
    exact mem_eligibleOf _ _ _ _ (mem_of_subMultiset hsub c hc)

-- ------------------------------------------------------------------ reservation cache

theorem utxoUsed_step (r : Reserved) (holder i x : String) :
    utxoUsed ((r.filter (fun e => e.1 != i)) ++ [(i, holder :: (holdersOf r i).filter (· != holder))]) x =
      (utxoUsed r x || x == i) := by
  unfold utxoUsed
  rw [List.any_append]
  by_cases hx : x = i
  · subst hx; simp
  · have hne : (i == x) = false := by simpa using fun h => hx h.symm
    have hne' : (x == i) = false := by simpa using hx
    simp only [List.any_cons, List.any_nil, Bool.or_false, hne, hne']
    rw [List.any_filter]
    congr 1
    funext e
    by_cases he : e.1 = x
    · have : (e.1 != i) = true := by simp [he, hx]
      simp [he, hx]
    · simp [he]

theorem utxoUsed_markUsed (r : Reserved) (holder : String) (ins : List String) (x : String) :
    utxoUsed (markUsed r holder ins) x = (utxoUsed r x || ins.contains x) := by
  unfold markUsed
  induction ins generalizing r with
  | nil => simp
  | cons i t ih =>
    simp only [List.foldl_cons]
    rw [ih, utxoUsed_step]
    by_cases hx : x = i
    · subst hx; simp
    · have : (x == i) = false := by simpa using hx
      simp [this, hx]

/-- invariant over a run of create calls: every input of every returned draft is reserved, and the
    drafts are pairwise disjoint -/
structure SInv (s : Session) : Prop where
  held : ∀ d ∈ s.drafts, ∀ i ∈ d.2, utxoUsed s.reserved i = true
  disjoint : s.drafts.Pairwise (fun a b => ∀ i ∈ a.2, i ∉ b.2)

theorem sinv_init : SInv {} := ⟨by simp, by simp⟩

theorem sinv_create (s : Session) (q : CreateReq) (inv : SInv s) : SInv (createCall s q).1 := by
  unfold createCall
  cases ha : autoConstruct { coins := eligibleOf s.reserved q.addrs q.view } q.outs q.payloadLen q.userFee q.chgAddr with
  | error e => simp only []; exact inv
  | ok res =>
    simp only []
    have hsub := autoConstruct_sub _ _ _ _ _ _ ha
    have hfresh : ∀ i ∈ res.ins.map (·.id), utxoUsed s.reserved i = false := by
      intro i hi
      obtain ⟨c, hc, e⟩ := List.mem_map.mp hi
      obtain ⟨w, _, hw, hf⟩ := mem_eligibleOf _ _ _ _ (mem_of_subMultiset hsub c hc)
      unfold eligibleFilter at hf
      simp only [Bool.and_eq_true, Bool.not_eq_true'] at hf
      have : w.id = i := by rw [← e, ← hw]; rfl
      rw [← this]
      exact hf.1.1.2
    constructor
    · intro d hd i hi
      rw [utxoUsed_markUsed]
      rcases List.mem_append.mp hd with hd | hd
      · simp [inv.held d hd i hi]
      · simp only [List.mem_singleton] at hd
        subst hd
        simp only [] at hi
        rw [List.contains_iff_mem.mpr hi]
        simp
    · rw [List.pairwise_append]
      refine ⟨inv.disjoint, by simp, ?_⟩
      intro a ha' b hb
      simp only [List.mem_singleton] at hb
      subst hb
      intro i hi hin
      simp only [] at hin
      have h1 := inv.held a ha' i hi
      have h2 := hfresh i hin
      rw [h1] at h2
      cases h2

theorem sinv_run (s : Session) (qs : List CreateReq) (inv : SInv s) : SInv (runCreates s qs) := by
  unfold runCreates
  induction qs generalizing s with
  | nil => exact inv
  | cons q t ih => simp only [List.foldl_cons]; exact ih _ (sinv_create s q inv)

end MW.Lemmas.FeeReserve
