/-
  LedBytes — A WHOLE HISTORY THROUGH THE CONCRETE BYTE-LEVEL HANDLER (non-vacuity of `ledger_correct_on_bytes_bounded`).
  The worked history of LedgerHistoryEx (G – B1 – B2, then the node switches to the sibling C2 of B2) with byte ids:
  32 equal bytes for transaction / block hashes and addresses, 42 bytes for the wallet id, all read as Latin-1 text.
-/
import MW.Lemmas.LedBytesBounded
import MW.Lemmas.LedgerHistoryEx
namespace MW.LedBytes.Run
open MW MW.Gen.Codec MW.Model.TxmgrCodec MW.TxmgrCodec MW.Model.Ledger MW.Spec.Chain MW.Spec.Books MW.Lemmas.Ledger
open MW.LedBytes MW.Lemmas.Ledger.Trace

-- ------------------------------------------------------------------ (a) ids, transactions, blocks

def h32 (k : UInt8) : Bytes := List.replicate 32 k
abbrev nm (b : Bytes) : String := stringOfAscii b

def zero32 : Bytes := h32 0
def hG : Bytes := h32 0x10
def hB1 : Bytes := h32 0x11
def hB2 : Bytes := h32 0x12
def hC2 : Bytes := h32 0x13
def tC1 : Bytes := h32 0x21
def tC2 : Bytes := h32 0x22
def tT1 : Bytes := h32 0x23
def tC3 : Bytes := h32 0x24
def aA1 : Bytes := h32 0x41
def aA2 : Bytes := h32 0x42
def aX : Bytes := h32 0x58
def aY : Bytes := h32 0x59
def wW1 : Bytes := List.replicate 42 0x77

/-- the input of a coinbase: the zero hash, index MaxPrevOutIndex -/
def cbIn : InB := ⟨zero32, 0xffffffff, 0⟩

/-- the five byte-level transactions; the serialization of a transaction is its index in this table -/
def txC1 : TxB := ⟨tC1, true, [cbIn], [⟨aA1, 50, .std⟩], [0]⟩
def txC2 : TxB := ⟨tC2, true, [cbIn], [⟨aX, 50, .std⟩], [1]⟩
def txT1 : TxB := ⟨tT1, false, [⟨tC1, 0, 0⟩], [⟨aY, 20, .std⟩, ⟨aA2, 30, .std⟩], [2]⟩
def txC3 : TxB := ⟨tC3, true, [cbIn], [⟨aA2, 50, .std⟩], [3]⟩
def txDef : TxB := ⟨h32 0xff, false, [], [], [4]⟩
def txTable : List TxB := [txC1, txC2, txT1, txC3, txDef]

/-- the block files at byte level: block number ↦ (hash, transactions) -/
def blkTable : List (Bytes × List TxB) := [(hG, []), (hB1, [txC1]), (hB2, [txC2, txT1]), (hC2, [txC3])]

def txsOf (ts : List TxB) : List Tx := ts.map (TxB.nm asciiNames)

def xG : Block := ⟨nm hG, nm zero32, 0, txsOf []⟩
def xB1 : Block := ⟨nm hB1, nm hG, 1, txsOf [txC1]⟩
def xB2 : Block := ⟨nm hB2, nm hB1, 2, txsOf [txC2, txT1]⟩
def xC2 : Block := ⟨nm hC2, nm hB1, 2, txsOf [txC3]⟩

def xOwn : Own := [(nm aA1, (nm wW1, false)), (nm aA2, (nm wW1, false))]

def xe : Lemmas.Ledger.Env :=
  { p := { cbMaturity := 1 }, own := xOwn, wallets := [nm wW1],
    known := [(nm hG, xG), (nm hB1, xB1), (nm hB2, xB2), (nm hC2, xC2)] }

def xEvs : List Ev := [.extend xB1, .extend xB2, .handle, .handle, .reorgTo 1 [xC2], .handle]

-- ------------------------------------------------------------------ (b) the byte-level environment

def deserB (ser : Bytes) : TxB :=
  match ser with
  | [k] => txTable.getD k.toNat txDef
  | _ => txDef

/-- block-file locations: `file` = number of the block in the block files, `txStart` = number of the transaction -/
def xloc (l : TxLocB) : BlkId × Nat := (((blkTable[l.file]?).map (fun x => nm x.1)).getD "", l.txStart)

def xE : MW.LedBytes.Env := ⟨asciiNames, xloc, fun ser => (deserB ser).nm asciiNames⟩

def xfetch (l : TxLocB) : Option TxB := (blkTable[l.file]?).bind (fun x => x.2[l.txStart]?)

def xownA (a : Bytes) : Option (Bytes × Bool) := if a = aA1 ∨ a = aA2 then some (wW1, false) else none

theorem xownA_sim (a : Bytes) : AMap.get xOwn (xE.N.adr a) = (xownA a).map (fun x => (xE.N.wal x.1, x.2)) := by
  unfold xOwn xownA
  rw [AMap.get_cons, AMap.get_cons]
  by_cases h1 : a = aA1
  · simp [h1, xE, asciiNames]
  · have n1 : nm aA1 ≠ nm a := fun e => h1 (stringOfAscii_inj _ _ e).symm
    by_cases h2 : a = aA2
    · subst h2
      have : nm aA1 ≠ nm aA2 := n1
      simp [h1, this, xE, asciiNames]
    · have n2 : nm aA2 ≠ nm a := fun e => h2 (stringOfAscii_inj _ _ e).symm
      simp [h1, h2, n1, n2, xE, asciiNames, AMap.get]

theorem xownA_wf (a : Bytes) (x : Bytes × Bool) (h : xownA a = some x) : x.1.length = 42 := by
  unfold xownA at h
  split at h
  · cases h; decide
  · cases h

theorem txTable_wf : ∀ t ∈ txTable, t.WF := by
  intro t ht
  simp only [txTable, List.mem_cons, List.not_mem_nil, or_false] at ht
  rcases ht with rfl | rfl | rfl | rfl | rfl <;>
    exact ⟨by decide, by decide, by decide, by decide⟩

theorem deserB_mem (ser : Bytes) : deserB ser ∈ txTable := by
  unfold deserB
  split
  · rename_i k
    rw [List.getD_eq_getElem?_getD]
    cases h : txTable[k.toNat]? with
    | none => simp [txTable]
    | some t => exact List.mem_of_getElem? h
  · simp [txTable]

theorem deserB_ser : ∀ t ∈ txTable, deserB t.ser = t := by
  intro t ht
  simp only [txTable, List.mem_cons, List.not_mem_nil, or_false] at ht
  rcases ht with rfl | rfl | rfl | rfl | rfl <;> rfl

def xP : PendEnv xE xe.own where
  deserB := deserB
  ownA := xownA
  deser_sim _ := rfl
  deser_wf ser := txTable_wf _ (deserB_mem ser)
  ownA_sim := xownA_sim
  ownA_wf := xownA_wf

theorem xKnown_G : AMap.get xe.known (nm hG) = some xG := by rfl
theorem xKnown_B1 : AMap.get xe.known (nm hB1) = some xB1 := by rfl
theorem xKnown_B2 : AMap.get xe.known (nm hB2) = some xB2 := by rfl
theorem xKnown_C2 : AMap.get xe.known (nm hC2) = some xC2 := by rfl
theorem xKnown_none : AMap.get xe.known "" = none := by rfl

theorem xfetch_sim (chain : List Block) (l : TxLocB) :
    (xe.ctx chain).node.txByFileLoc (xE.loc l) = (xfetch l).map (TxB.nm xE.N) := by
  obtain ⟨f, o, len, ts, tl⟩ := l
  show (match AMap.get xe.known (xloc ⟨f, o, len, ts, tl⟩).1 with
        | some b => b.txs[(xloc ⟨f, o, len, ts, tl⟩).2]?
        | none => none) = _
  match f with
  | 0 =>
    show (match AMap.get xe.known (nm hG) with | some b => b.txs[ts]? | none => none) = _
    rw [xKnown_G]; show (txsOf [])[ts]? = _; unfold txsOf; rw [List.getElem?_map]; rfl
  | 1 =>
    show (match AMap.get xe.known (nm hB1) with | some b => b.txs[ts]? | none => none) = _
    rw [xKnown_B1]; show (txsOf [txC1])[ts]? = _; unfold txsOf; rw [List.getElem?_map]; rfl
  | 2 =>
    show (match AMap.get xe.known (nm hB2) with | some b => b.txs[ts]? | none => none) = _
    rw [xKnown_B2]; show (txsOf [txC2, txT1])[ts]? = _; unfold txsOf; rw [List.getElem?_map]; rfl
  | 3 =>
    show (match AMap.get xe.known (nm hC2) with | some b => b.txs[ts]? | none => none) = _
    rw [xKnown_C2]; show (txsOf [txC3])[ts]? = _; unfold txsOf; rw [List.getElem?_map]; rfl
  | n + 4 =>
    show (match AMap.get xe.known "" with | some b => b.txs[ts]? | none => none) = _
    rw [xKnown_none]; rfl

theorem xfetch_mem {l : TxLocB} {t : TxB} (h : xfetch l = some t) : t ∈ txTable := by
  obtain ⟨f, o, len, ts, tl⟩ := l
  unfold xfetch at h
  match f, ts with
  | 0, _ => simp [blkTable] at h
  | 1, 0 => cases h; simp [txTable]
  | 1, n + 1 => simp [blkTable] at h
  | 2, 0 => cases h; simp [txTable]
  | 2, 1 => cases h; simp [txTable]
  | 2, n + 2 => simp [blkTable] at h
  | 3, 0 => cases h; simp [txTable]
  | 3, n + 1 => simp [blkTable] at h
  | n + 4, _ => simp [blkTable] at h

def xR (chain : List Block) : RbEnv xE (xe.ctx chain) where
  fetch := xfetch
  ownA := xownA
  ownS := xownA
  fetch_sim := xfetch_sim chain
  fetch_wf l t h := ⟨txTable_wf t (xfetch_mem h), by
    show (deserB t.ser).nm asciiNames = t.nm asciiNames
    rw [deserB_ser t (xfetch_mem h)]⟩
  ownA_sim := xownA_sim
  ownS_sim := xownA_sim
  ownA_wf := xownA_wf
  ownS_wf := xownA_wf

/-- the inverse of the Latin-1 naming -/
def bytesOfName (s : String) : Bytes := s.toList.map (fun c => UInt8.ofNat c.toNat)

theorem bytesOfName_nm (b : Bytes) : bytesOfName (nm b) = b := by
  unfold bytesOfName nm stringOfAscii
  rw [String.toList_ofList, List.map_map]
  conv => rhs; rw [← List.map_id b]
  apply List.map_congr_left
  intro a _
  simp only [Function.comp, id]
  rw [charOfByte_toNat]
  exact UInt8.ofNat_toNat

/-- unix time of every block (the model does not read it) -/
def xTime : Nat := 1600000000

/-- the byte-level environment of the follower while the node is at `chain`, for a relevance oracle `O` -/
def xHEnvOf (chain : List Block) (O : RelOracle xE (xe.ctx chain)) : HEnv xE (xe.ctx chain) where
  R := xR chain
  P := xP
  O := O
  walletsB := [wW1]
  wallets_eq := rfl
  wallets_wf w hw := by rw [List.mem_singleton.1 hw]; decide
  hashOf b := bytesOfName b.id
  time8 _ := xTime
  time4 _ := xTime

-- ------------------------------------------------------------------ (d) the initial bytes

/-- wallet W1 ready, zero balance, synced to genesis -/
def xBs0 : BStore :=
  { bal := [(wW1, valueBalance 0)]
    ws := [(wW1, valueWalletStatus ⟨[], 2 ^ 64 - 1, 0⟩)]
    sync := [(keySynced 0, valueSynced hG xTime), (syncedToKey, valueSyncedTo 0)] }

def xW0 : WorldB := { chain := [xG], bs := xBs0, v := { best := ⟨0, nm hG⟩ } }

theorem xBs0_sync : AMap.erase xBs0.sync syncedToKey = [(keySynced 0, valueSynced hG xTime)] := by decide

theorem xCanon0 : CanonS xE xBs0 where
  c := canon_nil _
  u := canon_nil _
  d := canon_nil _
  bal := canon_cons (cd := cdBal xE.N) (k := wW1) (v := 0)
    (by show wW1.length = 42; decide) (by show (0 : Nat) < 256 ^ 8; decide) (canon_nil _)
  t := canon_nil _
  b := canon_nil _
  sync := by
    rw [xBs0_sync]
    exact canon_cons (cd := cdSync xE.N) (k := 0) (v := (hG, xTime)) (by show (0 : Nat) < 256 ^ 8; decide)
      ⟨by decide, by decide⟩ (canon_nil _)
  ws := canon_cons (cd := cdWS xE.N) (k := wW1) (v := (2 ^ 64 - 1, 0)) (by show wW1.length = 42; decide)
    ⟨by decide, by decide⟩ (canon_nil _)
  a := canon_nil _
  lg := canon_nil _
  m := canon_nil _
  mi := canon_nil _
  mc := canon_nil _
  LG := canon_nil _

theorem xReady0 : readyWallets (absStore xE xBs0) xe.wallets = [nm wW1] := by decide

theorem xFresh0 : FreshStore (xe.ctx [xG]) (absStore xE xBs0) xG where
  credits := rfl
  unspent := rfl
  debits := rfl
  game := rfl
  txrecs := rfl
  blocks := rfl
  sync := by decide
  syncedTo := by decide
  balance w hw := by
    have e : readyWallets (absStore xE xBs0) (xe.ctx [xG]).wallets = [nm wW1] := xReady0
    rw [e] at hw
    have : w = nm wW1 := by simpa using hw
    subst this
    decide
  genesis := rfl

theorem xInvB0 : InvB xE (xe.ctx [xG]) xBs0 [xG] := ⟨xCanon0, inv_fresh xFresh0⟩

theorem xBest0 : xW0.v.best = tipMeta xW0.chain := rfl
theorem xQueue0 : xW0.queue = [] := rfl

-- ------------------------------------------------------------------ (a) the hypotheses of `ledger_correct` on this history

theorem xKnown_cases {id : BlkId} {x : Block} (h : AMap.get xe.known id = some x) :
    x = xG ∨ x = xB1 ∨ x = xB2 ∨ x = xC2 := by
  simp only [xe, AMap.get_cons, AMap.get_nil] at h
  repeat' split at h
  all_goals first | (cases h; simp; done) | cases h

theorem xOK1 : ChainOK xe xG [xG, xB1, xB2] :=
  ⟨hxGood3 rfl rfl rfl rfl rfl, by show ChainValid xOwn _; decide, rfl, by
    intro x hx
    simp only [List.mem_cons, List.not_mem_nil, or_false] at hx
    rcases hx with rfl | rfl | rfl <;> rfl⟩

theorem xOK2 : ChainOK xe xG [xG, xB1, xC2] :=
  ⟨hxGood3 rfl rfl rfl rfl rfl, by show ChainValid xOwn _; decide, rfl, by
    intro x hx
    simp only [List.mem_cons, List.not_mem_nil, or_false] at hx
    rcases hx with rfl | rfl | rfl <;> rfl⟩

theorem xChains : chainsOf xe (absW xE xW0) xEvs =
    [[xG], [xG, xB1], [xG, xB1, xB2], [xG, xB1, xB2], [xG, xB1, xB2], [xG, xB1, xC2], [xG, xB1, xC2]] := rfl

theorem xAllReady : AllReady xOwn [nm wW1] := by
  intro a w ch h
  simp only [xOwn, AMap.get_cons, AMap.get_nil] at h
  split at h
  · simp only [Option.some.injEq, Prod.mk.injEq] at h; rw [← h.1]; decide
  · split at h
    · simp only [Option.some.injEq, Prod.mk.injEq] at h; rw [← h.1]; decide
    · cases h

/-- THE HYPOTHESES OF `ledger_correct` HOLD for the history, read off the initial BYTES -/
theorem xRunHyp : RunHyp xe xG (absW xE xW0) xEvs where
  genesisOnly := by
    intro id x h h0
    rcases xKnown_cases h with rfl | rfl | rfl | rfl
    · rfl
    all_goals cases h0
  genesisPrev := by
    intro id x h
    rcases xKnown_cases h with rfl | rfl | rfl | rfl <;> decide
  chains := by
    intro ch hch
    rw [xChains] at hch
    simp only [List.mem_cons, List.not_mem_nil, or_false] at hch
    rcases hch with rfl | rfl | rfl | rfl | rfl | rfl | rfl
    · exact xOK1.take 0
    · exact xOK1.take 1
    · exact xOK1
    · exact xOK1
    · exact xOK1
    · exact xOK2
    · exact xOK2
  reorgNonempty := by
    intro ev hev
    simp only [xEvs, List.mem_cons, List.not_mem_nil, or_false] at hev
    rcases hev with rfl | rfl | rfl | rfl | rfl | rfl <;> simp [EvOK]
  ready := by
    show AllReady xOwn (readyWallets (absStore xE xBs0) xe.wallets)
    rw [xReady0]; exact xAllReady
  readyNe := by
    show (readyWallets (absStore xE xBs0) xe.wallets).isEmpty = false
    rw [xReady0]; rfl

-- ------------------------------------------------------------------ (e) the chain-level size bounds

/-- what a wallet owns is at most the sum of all amounts of the ledger list -/
theorem totalU_le_sum (L : List UCoin) (w : Wid) : totalU L w ≤ (L.map (·.out.amt)).sum := by
  unfold totalU
  induction L with
  | nil => exact Nat.le_refl _
  | cons u L ih =>
    simp only [List.filter_cons, List.map_cons, List.sum_cons]
    split
    · simp only [List.map_cons, List.sum_cons]; omega
    · omega

theorem xSupply {T : List Block} (h : ((bookOf xe.p xe.own T).L.map (·.out.amt)).sum < 2 ^ 64) (w : Wid) :
    totalU (bookOf xe.p xe.own T).L w < 2 ^ 64 := Nat.lt_of_le_of_lt (totalU_le_sum _ w) h

theorem xBounds3 {b1 b2 : Block} (h0 : ((bookOf xe.p xe.own []).L.map (·.out.amt)).sum < 2 ^ 64)
    (h1 : ((bookOf xe.p xe.own [xG]).L.map (·.out.amt)).sum < 2 ^ 64)
    (h2 : ((bookOf xe.p xe.own [xG, b1]).L.map (·.out.amt)).sum < 2 ^ 64)
    (h3 : ((bookOf xe.p xe.own [xG, b1, b2]).L.map (·.out.amt)).sum < 2 ^ 64)
    (ht1 : b1.txs.length + 1 < 2 ^ 32) (ht2 : b2.txs.length + 1 < 2 ^ 32) :
    ChainBounds xe.p xe.own [xG, b1, b2] where
  height := by show 3 < 2 ^ 62; decide
  supply n w := by
    match n with
    | 0 => exact xSupply h0 w
    | 1 => exact xSupply h1 w
    | 2 => exact xSupply h2 w
    | n + 3 =>
      have e : List.take (n + 3) [xG, b1, b2] = [xG, b1, b2] := by simp
      rw [e]; exact xSupply h3 w
  txs b hb := by
    simp only [List.mem_cons, List.not_mem_nil, or_false] at hb
    rcases hb with rfl | rfl | rfl
    · decide
    · exact ht1
    · exact ht2

theorem xBoundsB : ChainBounds xe.p xe.own [xG, xB1, xB2] :=
  xBounds3 (by decide) (by decide) (by decide) (by decide) (by decide) (by decide)

theorem xBoundsC : ChainBounds xe.p xe.own [xG, xB1, xC2] :=
  xBounds3 (by decide) (by decide) (by decide) (by decide) (by decide) (by decide)

/-- every chain the node has along the history satisfies the size bounds -/
theorem xBounds : ∀ ch ∈ chainsOf xe (absW xE xW0) xEvs, ChainBounds xe.p xe.own ch := by
  intro ch hch
  rw [xChains] at hch
  simp only [List.mem_cons, List.not_mem_nil, or_false] at hch
  rcases hch with rfl | rfl | rfl | rfl | rfl | rfl | rfl
  · exact xBoundsB.take 1
  · exact xBoundsB.take 2
  · exact xBoundsB
  · exact xBoundsB
  · exact xBoundsB
  · exact xBoundsC
  · exact xBoundsC

end MW.LedBytes.Run
