/-
  LedBytes — A WHOLE HISTORY THROUGH THE CONCRETE BYTE-LEVEL HANDLER: a fully evaluated instance of
  `ledger_correct_on_bytes_bounded` (LedBytesTop).  The worked history of LedgerHistoryEx (G – B1 – B2, then the node
  switches to the sibling C2 of B2) with byte ids: 32 equal bytes for transaction / block hashes and addresses (with the
  Latin-1 naming `asciiNames` an address is its own script hash), 42 bytes for the wallet id.
    (a) `xe xG xB1 xB2 xC2 xEvs`, `xRunHyp`          the history and the hypotheses of `ledger_correct`
    (b) `xE xP xR xHEnvOf`                           a toy but lawful block-file / wire format: location = (number of the
                                                     block in the block files, number of the transaction), serialization of
                                                     a transaction = its index in `txTable`; keystore; `hashOf` = the inverse
                                                     of the naming (`bytesOfName`)
    (c) `xRE xHs xPb`                                filterTx on bytes (`relOracleOf`, LedBytesRel) over the block files of the
                                                     node's chain (for chains of block-file blocks; else an oracle knowing nothing)
    (d) `xBs0 xW0 xInvB0`                            the initial bytes (W1 ready, zero balance, synced to genesis)
    (e) `xFit xBounds`                               the blocks fit, the chains satisfy the size bounds
    (f) `xRun_*`, `xW3_facts` …, `xCorrect`          THE RUN evaluated by the kernel (`decide +kernel`, ≈ 3 s per fact), and the
                                                     theorem applied to it
-/
import MW.Lemmas.LedBytesTop
import MW.Lemmas.LedBytesRel
import MW.Lemmas.LedgerHistoryEx
namespace MW.LedBytes.Run
open MW MW.Gen.Codec MW.Model.TxmgrCodec MW.TxmgrCodec MW.Model.Ledger MW.Spec.Chain MW.Spec.Books MW.Lemmas.Ledger
open MW.LedBytes MW.Lemmas.Ledger.Trace

-- ------------------------------------------------------------------ (a) ids, transactions, blocks

def h32 (k : UInt8) : Bytes := List.replicate 32 k
abbrev nm (b : Bytes) : String := stringOfAscii b

def zero32 : Bytes := h32 0
def hG : Bytes := h32 0x10
def hB1 : Bytes := h32 0x11
def hB2 : Bytes := h32 0x12
def hC2 : Bytes := h32 0x13
def tC1 : Bytes := h32 0x21
def tC2 : Bytes := h32 0x22
def tT1 : Bytes := h32 0x23
def tC3 : Bytes := h32 0x24
def aA1 : Bytes := h32 0x41
def aA2 : Bytes := h32 0x42
def aX : Bytes := h32 0x58
def aY : Bytes := h32 0x59
def wW1 : Bytes := List.replicate 42 0x77

/-- the input of a coinbase: the zero hash, index MaxPrevOutIndex -/
def cbIn : InB := ⟨zero32, 0xffffffff, 0⟩

/-- the five byte-level transactions; the serialization of a transaction is its index in this table -/
def txC1 : TxB := ⟨tC1, true, [cbIn], [⟨aA1, 50, .std⟩], [0]⟩
def txC2 : TxB := ⟨tC2, true, [cbIn], [⟨aX, 50, .std⟩], [1]⟩
def txT1 : TxB := ⟨tT1, false, [⟨tC1, 0, 0⟩], [⟨aY, 20, .std⟩, ⟨aA2, 30, .std⟩], [2]⟩
def txC3 : TxB := ⟨tC3, true, [cbIn], [⟨aA2, 50, .std⟩], [3]⟩
def txDef : TxB := ⟨h32 0xff, false, [], [], [4]⟩
def txTable : List TxB := [txC1, txC2, txT1, txC3, txDef]

/-- the block files at byte level: block number ↦ (hash, transactions) -/
def blkTable : List (Bytes × List TxB) := [(hG, []), (hB1, [txC1]), (hB2, [txC2, txT1]), (hC2, [txC3])]

def txsOf (ts : List TxB) : List Tx := ts.map (TxB.nm asciiNames)

def xG : Block := ⟨nm hG, nm zero32, 0, txsOf []⟩
def xB1 : Block := ⟨nm hB1, nm hG, 1, txsOf [txC1]⟩
def xB2 : Block := ⟨nm hB2, nm hB1, 2, txsOf [txC2, txT1]⟩
def xC2 : Block := ⟨nm hC2, nm hB1, 2, txsOf [txC3]⟩

def xOwn : Own := [(nm aA1, (nm wW1, false)), (nm aA2, (nm wW1, false))]

def xe : Lemmas.Ledger.Env :=
  { p := { cbMaturity := 1 }, own := xOwn, wallets := [nm wW1],
    known := [(nm hG, xG), (nm hB1, xB1), (nm hB2, xB2), (nm hC2, xC2)] }

def xEvs : List Ev := [.extend xB1, .extend xB2, .handle, .handle, .reorgTo 1 [xC2], .handle]

-- ------------------------------------------------------------------ (b) the byte-level environment

def deserB (ser : Bytes) : TxB :=
  match ser with
  | [k] => txTable.getD k.toNat txDef
  | _ => txDef

/-- block-file locations: `file` = number of the block in the block files, `txStart` = number of the transaction -/
def xloc (l : TxLocB) : BlkId × Nat := (((blkTable[l.file]?).map (fun x => nm x.1)).getD "", l.txStart)

def xE : MW.LedBytes.Env := ⟨asciiNames, xloc, fun ser => (deserB ser).nm asciiNames⟩

def xfetch (l : TxLocB) : Option TxB := (blkTable[l.file]?).bind (fun x => x.2[l.txStart]?)

def xownA (a : Bytes) : Option (Bytes × Bool) := if a = aA1 ∨ a = aA2 then some (wW1, false) else none

theorem xownA_sim (a : Bytes) : AMap.get xOwn (xE.N.adr a) = (xownA a).map (fun x => (xE.N.wal x.1, x.2)) := by
  unfold xOwn xownA
  rw [AMap.get_cons, AMap.get_cons]
  by_cases h1 : a = aA1
  · simp [h1, xE, asciiNames]
  · have n1 : nm aA1 ≠ nm a := fun e => h1 (stringOfAscii_inj _ _ e).symm
    by_cases h2 : a = aA2
    · subst h2
      have : nm aA1 ≠ nm aA2 := n1
      simp [h1, this, xE, asciiNames]
    · have n2 : nm aA2 ≠ nm a := fun e => h2 (stringOfAscii_inj _ _ e).symm
      simp [h1, h2, n1, n2, xE, asciiNames, AMap.get]

theorem xownA_wf (a : Bytes) (x : Bytes × Bool) (h : xownA a = some x) : x.1.length = 42 := by
  unfold xownA at h
  split at h
  · cases h; decide
  · cases h

theorem txTable_wf : ∀ t ∈ txTable, t.WF := by
  intro t ht
  simp only [txTable, List.mem_cons, List.not_mem_nil, or_false] at ht
  rcases ht with rfl | rfl | rfl | rfl | rfl <;>
    exact ⟨by decide, by decide, by decide, by decide⟩

theorem deserB_mem (ser : Bytes) : deserB ser ∈ txTable := by
  unfold deserB
  split
  · rename_i k
    rw [List.getD_eq_getElem?_getD]
    cases h : txTable[k.toNat]? with
    | none => simp [txTable]
    | some t => exact List.mem_of_getElem? h
  · simp [txTable]

theorem deserB_ser : ∀ t ∈ txTable, deserB t.ser = t := by
  intro t ht
  simp only [txTable, List.mem_cons, List.not_mem_nil, or_false] at ht
  rcases ht with rfl | rfl | rfl | rfl | rfl <;> rfl

def xP : PendEnv xE xe.own where
  deserB := deserB
  ownA := xownA
  deser_sim _ := rfl
  deser_wf ser := txTable_wf _ (deserB_mem ser)
  ownA_sim := xownA_sim
  ownA_wf := xownA_wf

theorem xKnown_G : AMap.get xe.known (nm hG) = some xG := by rfl
theorem xKnown_B1 : AMap.get xe.known (nm hB1) = some xB1 := by rfl
theorem xKnown_B2 : AMap.get xe.known (nm hB2) = some xB2 := by rfl
theorem xKnown_C2 : AMap.get xe.known (nm hC2) = some xC2 := by rfl
theorem xKnown_none : AMap.get xe.known "" = none := by rfl

theorem xfetch_sim (chain : List Block) (l : TxLocB) :
    (xe.ctx chain).node.txByFileLoc (xE.loc l) = (xfetch l).map (TxB.nm xE.N) := by
  obtain ⟨f, o, len, ts, tl⟩ := l
  show (match AMap.get xe.known (xloc ⟨f, o, len, ts, tl⟩).1 with
        | some b => b.txs[(xloc ⟨f, o, len, ts, tl⟩).2]?
        | none => none) = _
  match f with
  | 0 =>
    show (match AMap.get xe.known (nm hG) with | some b => b.txs[ts]? | none => none) = _
    rw [xKnown_G]; show (txsOf [])[ts]? = _; unfold txsOf; rw [List.getElem?_map]; rfl
  | 1 =>
    show (match AMap.get xe.known (nm hB1) with | some b => b.txs[ts]? | none => none) = _
    rw [xKnown_B1]; show (txsOf [txC1])[ts]? = _; unfold txsOf; rw [List.getElem?_map]; rfl
  | 2 =>
    show (match AMap.get xe.known (nm hB2) with | some b => b.txs[ts]? | none => none) = _
    rw [xKnown_B2]; show (txsOf [txC2, txT1])[ts]? = _; unfold txsOf; rw [List.getElem?_map]; rfl
  | 3 =>
    show (match AMap.get xe.known (nm hC2) with | some b => b.txs[ts]? | none => none) = _
    rw [xKnown_C2]; show (txsOf [txC3])[ts]? = _; unfold txsOf; rw [List.getElem?_map]; rfl
  | n + 4 =>
    show (match AMap.get xe.known "" with | some b => b.txs[ts]? | none => none) = _
    rw [xKnown_none]; rfl

theorem xfetch_mem {l : TxLocB} {t : TxB} (h : xfetch l = some t) : t ∈ txTable := by
  obtain ⟨f, o, len, ts, tl⟩ := l
  unfold xfetch at h
  match f, ts with
  | 0, _ => simp [blkTable] at h
  | 1, 0 => cases h; simp [txTable]
  | 1, n + 1 => simp [blkTable] at h
  | 2, 0 => cases h; simp [txTable]
  | 2, 1 => cases h; simp [txTable]
  | 2, n + 2 => simp [blkTable] at h
  | 3, 0 => cases h; simp [txTable]
  | 3, n + 1 => simp [blkTable] at h
  | n + 4, _ => simp [blkTable] at h

def xR (chain : List Block) : RbEnv xE (xe.ctx chain) where
  fetch := xfetch
  ownA := xownA
  ownS := xownA
  fetch_sim := xfetch_sim chain
  fetch_wf l t h := ⟨txTable_wf t (xfetch_mem h), by
    show (deserB t.ser).nm asciiNames = t.nm asciiNames
    rw [deserB_ser t (xfetch_mem h)]⟩
  ownA_sim := xownA_sim
  ownS_sim := xownA_sim
  ownA_wf := xownA_wf
  ownS_wf := xownA_wf

/-- the inverse of the Latin-1 naming -/
def bytesOfName (s : String) : Bytes := s.toList.map (fun c => UInt8.ofNat c.toNat)

theorem bytesOfName_nm (b : Bytes) : bytesOfName (nm b) = b := by
  unfold bytesOfName nm stringOfAscii
  rw [String.toList_ofList, List.map_map]
  conv => rhs; rw [← List.map_id b]
  apply List.map_congr_left
  intro a _
  simp only [Function.comp, id]
  rw [charOfByte_toNat]
  exact UInt8.ofNat_toNat

/-- unix time of every block (the model does not read it) -/
def xTime : Nat := 1600000000

/-- the byte-level environment of the follower while the node is at `chain`, for a relevance oracle `O` -/
def xHEnvOf (chain : List Block) (O : RelOracle xE (xe.ctx chain)) : HEnv xE (xe.ctx chain) where
  R := xR chain
  P := xP
  O := O
  walletsB := [wW1]
  wallets_eq := rfl
  wallets_wf w hw := by rw [List.mem_singleton.1 hw]; decide
  hashOf b := bytesOfName b.id
  time8 _ := xTime
  time4 _ := xTime

-- ------------------------------------------------------------------ (d) the initial bytes

/-- wallet W1 ready, zero balance, synced to genesis -/
def xBs0 : BStore :=
  { bal := [(wW1, valueBalance 0)]
    ws := [(wW1, valueWalletStatus ⟨[], 2 ^ 64 - 1, 0⟩)]
    sync := [(keySynced 0, valueSynced hG xTime), (syncedToKey, valueSyncedTo 0)] }

def xW0 : WorldB := { chain := [xG], bs := xBs0, v := { best := ⟨0, nm hG⟩ } }

theorem xBs0_sync : AMap.erase xBs0.sync syncedToKey = [(keySynced 0, valueSynced hG xTime)] := by decide

theorem xCanon0 : CanonS xE xBs0 where
  c := canon_nil _
  u := canon_nil _
  d := canon_nil _
  bal := canon_cons (cd := cdBal xE.N) (k := wW1) (v := 0)
    (by show wW1.length = 42; decide) (by show (0 : Nat) < 256 ^ 8; decide) (canon_nil _)
  t := canon_nil _
  b := canon_nil _
  sync := by
    rw [xBs0_sync]
    exact canon_cons (cd := cdSync xE.N) (k := 0) (v := (hG, xTime)) (by show (0 : Nat) < 256 ^ 8; decide)
      ⟨by decide, by decide⟩ (canon_nil _)
  ws := canon_cons (cd := cdWS xE.N) (k := wW1) (v := (2 ^ 64 - 1, 0)) (by show wW1.length = 42; decide)
    ⟨by decide, by decide⟩ (canon_nil _)
  a := canon_nil _
  lg := canon_nil _
  m := canon_nil _
  mi := canon_nil _
  mc := canon_nil _
  LG := canon_nil _

theorem xReady0 : readyWallets (absStore xE xBs0) xe.wallets = [nm wW1] := by decide

theorem xFresh0 : FreshStore (xe.ctx [xG]) (absStore xE xBs0) xG where
  credits := rfl
  unspent := rfl
  debits := rfl
  game := rfl
  txrecs := rfl
  blocks := rfl
  sync := by decide
  syncedTo := by decide
  balance w hw := by
    have e : readyWallets (absStore xE xBs0) (xe.ctx [xG]).wallets = [nm wW1] := xReady0
    rw [e] at hw
    have : w = nm wW1 := by simpa using hw
    subst this
    decide
  genesis := rfl

theorem xInvB0 : InvB xE (xe.ctx [xG]) xBs0 [xG] := ⟨xCanon0, inv_fresh xFresh0⟩

theorem xBest0 : xW0.v.best = tipMeta xW0.chain := rfl
theorem xQueue0 : xW0.queue = [] := rfl

-- ------------------------------------------------------------------ (a) the hypotheses of `ledger_correct` on this history

theorem xKnown_cases {id : BlkId} {x : Block} (h : AMap.get xe.known id = some x) :
    x = xG ∨ x = xB1 ∨ x = xB2 ∨ x = xC2 := by
  simp only [xe, AMap.get_cons, AMap.get_nil] at h
  repeat' split at h
  all_goals first | (cases h; simp; done) | cases h

theorem xOK1 : ChainOK xe xG [xG, xB1, xB2] :=
  ⟨hxGood3 rfl rfl rfl rfl rfl, by show ChainValid xOwn _; decide, rfl, by
    intro x hx
    simp only [List.mem_cons, List.not_mem_nil, or_false] at hx
    rcases hx with rfl | rfl | rfl <;> rfl⟩

theorem xOK2 : ChainOK xe xG [xG, xB1, xC2] :=
  ⟨hxGood3 rfl rfl rfl rfl rfl, by show ChainValid xOwn _; decide, rfl, by
    intro x hx
    simp only [List.mem_cons, List.not_mem_nil, or_false] at hx
    rcases hx with rfl | rfl | rfl <;> rfl⟩

theorem xChains : chainsOf xe (absW xE xW0) xEvs =
    [[xG], [xG, xB1], [xG, xB1, xB2], [xG, xB1, xB2], [xG, xB1, xB2], [xG, xB1, xC2], [xG, xB1, xC2]] := rfl

theorem xAllReady : AllReady xOwn [nm wW1] := by
  intro a w ch h
  simp only [xOwn, AMap.get_cons, AMap.get_nil] at h
  split at h
  · simp only [Option.some.injEq, Prod.mk.injEq] at h; rw [← h.1]; decide
  · split at h
    · simp only [Option.some.injEq, Prod.mk.injEq] at h; rw [← h.1]; decide
    · cases h

/-- THE HYPOTHESES OF `ledger_correct` HOLD for the history, read off the initial BYTES -/
theorem xRunHyp : RunHyp xe xG (absW xE xW0) xEvs where
  genesisOnly := by
    intro id x h h0
    rcases xKnown_cases h with rfl | rfl | rfl | rfl
    · rfl
    all_goals cases h0
  genesisPrev := by
    intro id x h
    rcases xKnown_cases h with rfl | rfl | rfl | rfl <;> decide
  chains := by
    intro ch hch
    rw [xChains] at hch
    simp only [List.mem_cons, List.not_mem_nil, or_false] at hch
    rcases hch with rfl | rfl | rfl | rfl | rfl | rfl | rfl
    · exact xOK1.take 0
    · exact xOK1.take 1
    · exact xOK1
    · exact xOK1
    · exact xOK1
    · exact xOK2
    · exact xOK2
  reorgNonempty := by
    intro ev hev
    simp only [xEvs, List.mem_cons, List.not_mem_nil, or_false] at hev
    rcases hev with rfl | rfl | rfl | rfl | rfl | rfl <;> simp [EvOK]
  ready := by
    show AllReady xOwn (readyWallets (absStore xE xBs0) xe.wallets)
    rw [xReady0]; exact xAllReady
  readyNe := by
    show (readyWallets (absStore xE xBs0) xe.wallets).isEmpty = false
    rw [xReady0]; rfl

-- ------------------------------------------------------------------ (e) the chain-level size bounds

/-- what a wallet owns is at most the sum of all amounts of the ledger list -/
theorem totalU_le_sum (L : List UCoin) (w : Wid) : totalU L w ≤ (L.map (·.out.amt)).sum := by
  unfold totalU
  induction L with
  | nil => exact Nat.le_refl _
  | cons u L ih =>
    simp only [List.filter_cons, List.map_cons, List.sum_cons]
    split
    · simp only [List.map_cons, List.sum_cons]; omega
    · omega

theorem xSupply {T : List Block} (h : ((bookOf xe.p xe.own T).L.map (·.out.amt)).sum < 2 ^ 64) (w : Wid) :
    totalU (bookOf xe.p xe.own T).L w < 2 ^ 64 := Nat.lt_of_le_of_lt (totalU_le_sum _ w) h

theorem xBounds3 {b1 b2 : Block} (h0 : ((bookOf xe.p xe.own []).L.map (·.out.amt)).sum < 2 ^ 64)
    (h1 : ((bookOf xe.p xe.own [xG]).L.map (·.out.amt)).sum < 2 ^ 64)
    (h2 : ((bookOf xe.p xe.own [xG, b1]).L.map (·.out.amt)).sum < 2 ^ 64)
    (h3 : ((bookOf xe.p xe.own [xG, b1, b2]).L.map (·.out.amt)).sum < 2 ^ 64)
    (ht1 : b1.txs.length + 1 < 2 ^ 32) (ht2 : b2.txs.length + 1 < 2 ^ 32) :
    ChainBounds xe.p xe.own [xG, b1, b2] where
  height := by show 3 < 2 ^ 62; decide
  supply n w := by
    match n with
    | 0 => exact xSupply h0 w
    | 1 => exact xSupply h1 w
    | 2 => exact xSupply h2 w
    | n + 3 =>
      have e : List.take (n + 3) [xG, b1, b2] = [xG, b1, b2] := by simp
      rw [e]; exact xSupply h3 w
  txs b hb := by
    simp only [List.mem_cons, List.not_mem_nil, or_false] at hb
    rcases hb with rfl | rfl | rfl
    · decide
    · exact ht1
    · exact ht2

theorem xBoundsB : ChainBounds xe.p xe.own [xG, xB1, xB2] :=
  xBounds3 (by decide) (by decide) (by decide) (by decide) (by decide) (by decide)

theorem xBoundsC : ChainBounds xe.p xe.own [xG, xB1, xC2] :=
  xBounds3 (by decide) (by decide) (by decide) (by decide) (by decide) (by decide)

/-- every chain the node has along the history satisfies the size bounds -/
theorem xBounds : ∀ ch ∈ chainsOf xe (absW xE xW0) xEvs, ChainBounds xe.p xe.own ch := by
  intro ch hch
  rw [xChains] at hch
  simp only [List.mem_cons, List.not_mem_nil, or_false] at hch
  rcases hch with rfl | rfl | rfl | rfl | rfl | rfl | rfl
  · exact xBoundsB.take 1
  · exact xBoundsB.take 2
  · exact xBoundsB
  · exact xBoundsB
  · exact xBoundsB
  · exact xBoundsC
  · exact xBoundsC

-- ------------------------------------------------------------------ (c) the relevance oracle: filterTx on bytes (LedBytesRel)

def xBlocks : List Block := [xG, xB1, xB2, xC2]

/-- the transactions of a block of the block files, read by its hash -/
def xTxsB (b : Block) : List TxB := ((blkTable.find? (fun x => x.1 = bytesOfName b.id)).map (·.2)).getD []

/-- the node's chain is made of blocks of the block files -/
def KnownChain (chain : List Block) : Prop := ∀ x ∈ chain, AMap.get xe.known x.id = some x

@[reducible] def blockDecEq : DecidableEq Block := fun a b =>
  decidable_of_iff (a.id = b.id ∧ a.prev = b.prev ∧ a.height = b.height ∧ a.txs = b.txs)
    ⟨fun h => by cases a; cases b; simp only at h; obtain ⟨h1, h2, h3, h4⟩ := h; subst h1 h2 h3 h4; rfl,
     fun h => by subst h; exact ⟨rfl, rfl, rfl, rfl⟩⟩
attribute [local instance] blockDecEq

instance (chain : List Block) : Decidable (KnownChain chain) :=
  inferInstanceAs (Decidable (∀ x ∈ chain, AMap.get xe.known x.id = some x))

theorem xBlocks_of_known {chain : List Block} (h : KnownChain chain) {x : Block} (hx : x ∈ chain) : x ∈ xBlocks := by
  rcases xKnown_cases (h x hx) with rfl | rfl | rfl | rfl <;> simp [xBlocks]

theorem xTxsB_sim {b : Block} (h : b ∈ xBlocks) : b.txs = (xTxsB b).map (TxB.nm xE.N) := by
  simp only [xBlocks, List.mem_cons, List.not_mem_nil, or_false] at h
  rcases h with rfl | rfl | rfl | rfl <;> rfl

theorem xTxsB_mem {b : Block} (h : b ∈ xBlocks) {t : TxB} (ht : t ∈ xTxsB b) : t ∈ txTable := by
  simp only [xBlocks, List.mem_cons, List.not_mem_nil, or_false] at h
  rcases h with rfl | rfl | rfl | rfl
  · have e : xTxsB xG = [] := by rfl
    rw [e] at ht; cases ht
  · have e : xTxsB xB1 = [txC1] := by rfl
    rw [e] at ht; simp at ht; subst ht; simp [txTable]
  · have e : xTxsB xB2 = [txC2, txT1] := by rfl
    rw [e] at ht; simp at ht; rcases ht with rfl | rfl <;> simp [txTable]
  · have e : xTxsB xC2 = [txC3] := by rfl
    rw [e] at ht; simp at ht; subst ht; simp [txTable]

theorem txTable_fit : ∀ t ∈ txTable, OutsFit t := by
  intro t ht
  simp only [txTable, List.mem_cons, List.not_mem_nil, or_false] at ht
  rcases ht with rfl | rfl | rfl | rfl | rfl <;> (unfold OutsFit; decide)

theorem findSome_map {α β γ : Type} (l : List α) (f : α → Option β) (g : α → Option γ) (m : γ → β)
    (h : ∀ a ∈ l, f a = (g a).map m) : l.findSome? f = (l.findSome? g).map m := by
  induction l with
  | nil => rfl
  | cons a l ih =>
    simp only [List.findSome?_cons]
    rw [h a List.mem_cons_self]
    cases g a with
    | some x => rfl
    | none => exact ih (fun x hx => h x (List.mem_cons_of_mem _ hx))

/-- FetchTxBySha on the block files of the node's chain -/
def xFetchTxB (chain : List Block) (h : Bytes) : Option TxB :=
  chain.reverse.findSome? (fun b => (xTxsB b).find? (fun t => t.hash = h))

theorem xFetchTx_sim {chain : List Block} (hk : KnownChain chain) (h : Bytes) :
    (xe.ctx chain).node.fetchTx (xE.N.tx h) = (xFetchTxB chain h).map (TxB.nm xE.N) := by
  unfold xFetchTxB
  show chain.reverse.findSome? (fun b => b.txs.find? (fun t => t.id = xE.N.tx h)) = _
  apply findSome_map
  intro b hb
  have hd := xBlocks_of_known hk (List.mem_reverse.1 hb)
  rw [xTxsB_sim hd]
  exact find_by_hash xE.N (xTxsB b) h

theorem xFetchTx_mem {chain : List Block} (hk : KnownChain chain) {h : Bytes} {t : TxB}
    (ht : xFetchTxB chain h = some t) : t ∈ txTable := by
  unfold xFetchTxB at ht
  obtain ⟨b, hb, hf⟩ := List.exists_of_findSome?_eq_some ht
  exact xTxsB_mem (xBlocks_of_known hk (List.mem_reverse.1 hb)) (List.mem_of_find?_eq_some hf)

/-- the location of transaction `i` of a block of the block files -/
def xLocB (b : Block) (i : Nat) : TxLocB :=
  ⟨(blkTable.findIdx? (fun x => x.1 = bytesOfName b.id)).getD 0, 0, 0, i, 0⟩

theorem xLocB_sim {b : Block} (h : b ∈ xBlocks) {i : Nat} (hi : i < b.txs.length) :
    (xLocB b i).WF = true ∧ xE.loc (xLocB b i) = (b.id, i) := by
  simp only [xBlocks, List.mem_cons, List.not_mem_nil, or_false] at h
  rcases h with rfl | rfl | rfl | rfl
  · cases hi
  · have : i = 0 := by simp [xB1, txsOf] at hi; exact hi
    subst this; exact ⟨by decide, by rfl⟩
  · have : i = 0 ∨ i = 1 := by simp [xB2, txsOf] at hi; omega
    rcases this with rfl | rfl <;> exact ⟨by decide, by rfl⟩
  · have : i = 0 := by simp [xC2, txsOf] at hi; exact hi
    subst this; exact ⟨by decide, by rfl⟩

theorem xsh_wf (a : Bytes) (x : Bytes × Bool) (h : xownA a = some x) : a.length = 32 ∧ xE.N.sh a = xE.N.adr a := by
  unfold xownA at h
  split at h
  · rename_i ha
    rcases ha with rfl | rfl <;> exact ⟨by decide, rfl⟩
  · cases h

def xRE (chain : List Block) (hk : KnownChain chain) : RelEnv xE (xe.ctx chain) where
  P := xP
  dom b := b ∈ xBlocks
  txsB := xTxsB
  txs_sim _ hd := xTxsB_sim hd
  txs_wf _ h t ht := ⟨txTable_wf t (xTxsB_mem h ht), txTable_fit t (xTxsB_mem h ht)⟩
  fetchTxB := xFetchTxB chain
  fetch_sim := xFetchTx_sim hk
  fetch_wf _ t ht := ⟨txTable_wf t (xFetchTx_mem hk ht), txTable_fit t (xFetchTx_mem hk ht)⟩
  pend_amt ser := txTable_fit _ (deserB_mem ser)
  shOf a := a
  sh_wf := xsh_wf
  locB := xLocB
  loc_sim _ _ hd hi := xLocB_sim hd hi

/-- an oracle that knows no block (for node chains outside the block files: never used by a history satisfying `RunHyp`) -/
def xNoOracle (c : Ctx) : RelOracle xE c where
  dom _ := False
  rel _ _ _ := pure []
  unrel _ _ _ _ := []
  rel_sim _ _ _ h := h.elim
  rel_ok _ _ _ _ h := h.elim
  unrel_sim _ _ _ _ h := h.elim
  unrel_ok _ _ _ _ h := h.elim

def xHs (chain : List Block) : HEnv xE (xe.ctx chain) :=
  if hk : KnownChain chain then xHEnvOf chain (relOracleOf (xRE chain hk)) else xHEnvOf chain (xNoOracle _)

/-- THE CONCRETE HANDLER of the example -/
abbrev xPb : PbB := pbBOf xHs

theorem xHs_known {chain : List Block} (hk : KnownChain chain) :
    xHs chain = xHEnvOf chain (relOracleOf (xRE chain hk)) := by
  unfold xHs; rw [dif_pos hk]

/-- every block of the block files fits (while the node's chain is made of blocks of the block files) -/
theorem xFit : ∀ chain, (∀ x ∈ chain, AMap.get xe.known x.id = some x) →
    ∀ id x, AMap.get xe.known id = some x → BlkFit (xHs chain) x := by
  intro chain hk id x hx
  rw [xHs_known hk]
  have hm : x ∈ xBlocks := by rcases xKnown_cases hx with rfl | rfl | rfl | rfl <;> simp [xBlocks]
  refine ⟨hm, ?_⟩
  show (bytesOfName x.id).length = 32 ∧ nm (bytesOfName x.id) = x.id ∧ x.height + 1 < collisionHeight ∧
    xTime < 256 ^ 8 ∧ xTime < 256 ^ 4
  rcases xKnown_cases hx with rfl | rfl | rfl | rfl
  · exact ⟨by rw [show xG.id = nm hG from rfl, bytesOfName_nm]; decide,
      by rw [show xG.id = nm hG from rfl, bytesOfName_nm], by decide, by decide, by decide⟩
  · exact ⟨by rw [show xB1.id = nm hB1 from rfl, bytesOfName_nm]; decide,
      by rw [show xB1.id = nm hB1 from rfl, bytesOfName_nm], by decide, by decide, by decide⟩
  · exact ⟨by rw [show xB2.id = nm hB2 from rfl, bytesOfName_nm]; decide,
      by rw [show xB2.id = nm hB2 from rfl, bytesOfName_nm], by decide, by decide, by decide⟩
  · exact ⟨by rw [show xC2.id = nm hC2 from rfl, bytesOfName_nm]; decide,
      by rw [show xC2.id = nm hC2 from rfl, bytesOfName_nm], by decide, by decide, by decide⟩

-- ------------------------------------------------------------------ (f) THE RUN, evaluated

/-- the world after the first `n` events -/
def xWn (n : Nat) : WorldB := runWB xPb xW0 (xEvs.take n)
/-- the final world -/
def xW6 : WorldB := runWB xPb xW0 xEvs

theorem xRun_queue : (runWB xPb xW0 xEvs).queue = [] := by decide +kernel
theorem xRun_chain : (runWB xPb xW0 xEvs).chain = [xG, xB1, xC2] := rfl
theorem xRun_best : (runWB xPb xW0 xEvs).v.best = ⟨2, nm hC2⟩ := by decide +kernel

/-- the 8 bytes under W1 in bucket `bal`: 100 = coinbase C1 (50, unspent again after the reorganisation) + coinbase C3 (50) -/
theorem xRun_bal : AMap.get (runWB xPb xW0 xEvs).bs.bal wW1 = some (valueBalance 100) := by decide +kernel
theorem xRun_bal_bytes : AMap.get (runWB xPb xW0 xEvs).bs.bal wW1 = some [0, 0, 0, 0, 0, 0, 0, 100] := by decide +kernel
theorem xRun_cursor : syncedToOf (runWB xPb xW0 xEvs).bs.sync = 2 := by decide +kernel
theorem xRun_sizes : (runWB xPb xW0 xEvs).bs.c.length = 2 ∧ (runWB xPb xW0 xEvs).bs.u.length = 2 ∧
    (runWB xPb xW0 xEvs).bs.t.length = 2 ∧ (runWB xPb xW0 xEvs).bs.b.length = 2 ∧ (runWB xPb xW0 xEvs).bs.d.length = 0 := by
  decide +kernel
/-- T1 (confirmed in B2, which the node left) is back in the pending set, with its input and its credit -/
theorem xRun_pending : (runWB xPb xW0 xEvs).bs.m.map (·.1) = [tT1] ∧
    (pendTxB xP (runWB xPb xW0 xEvs).bs.m tT1).map TxB.ser = some txT1.ser ∧
    (runWB xPb xW0 xEvs).bs.mi.map (·.1) = [canonicalOutPoint ⟨tC1, 0⟩] ∧
    (runWB xPb xW0 xEvs).bs.mc.map (·.1) = [canonicalOutPoint ⟨tT1, 1⟩] := by
  decide +kernel

-- the worlds in between (`xWn n` = the world after `n` events; each is one step of the one before)
theorem runWB_snoc (pb : PbB) (w : WorldB) (l : List Ev) (ev : Ev) :
    runWB pb w (l ++ [ev]) = stepWB pb (runWB pb w l) ev := by
  simp [runWB, List.foldl_append]

theorem xW_steps : xWn 0 = xW0 ∧ xWn 1 = stepWB xPb (xWn 0) (.extend xB1) ∧ xWn 2 = stepWB xPb (xWn 1) (.extend xB2) ∧
    xWn 3 = stepWB xPb (xWn 2) .handle ∧ xWn 4 = stepWB xPb (xWn 3) .handle ∧
    xWn 5 = stepWB xPb (xWn 4) (.reorgTo 1 [xC2]) ∧ xWn 6 = stepWB xPb (xWn 5) .handle ∧ xWn 6 = xW6 :=
  ⟨rfl, runWB_snoc xPb xW0 (xEvs.take 0) _, runWB_snoc xPb xW0 (xEvs.take 1) _, runWB_snoc xPb xW0 (xEvs.take 2) _,
   runWB_snoc xPb xW0 (xEvs.take 3) _, runWB_snoc xPb xW0 (xEvs.take 4) _, runWB_snoc xPb xW0 (xEvs.take 5) _, rfl⟩

theorem xW2_queue : (xWn 2).queue = [xB1, xB2] := rfl
theorem xW3_facts : AMap.get (xWn 3).bs.bal wW1 = some (valueBalance 50) ∧ syncedToOf (xWn 3).bs.sync = 1 ∧
    (xWn 3).bs.c.length = 1 ∧ (xWn 3).v.best = ⟨1, nm hB1⟩ := by decide +kernel
theorem xW4_facts : AMap.get (xWn 4).bs.bal wW1 = some (valueBalance 30) ∧ syncedToOf (xWn 4).bs.sync = 2 ∧
    (xWn 4).bs.c.length = 2 ∧ (xWn 4).bs.u.length = 1 ∧ (xWn 4).bs.d.length = 1 ∧ (xWn 4).bs.m.length = 0 ∧
    (xWn 4).v.best = ⟨2, nm hB2⟩ := by decide +kernel
theorem xW5_queue : (xWn 5).queue.map (·.id) = [nm hC2] ∧ (xWn 5).chain.map (·.id) = [nm hG, nm hB1, nm hC2] := by decide +kernel

-- ------------------------------------------------------------------ the theorem on this instance

/-- **`ledger_correct_on_bytes_bounded` APPLIED**: all its hypotheses hold for the worked history, so the evaluated run on
    bytes abstracts to the run of the ledger model, and the final bytes are canonical and decode to exactly the books of the
    node's new best chain G – B1 – C2 -/
theorem xCorrect :
    absW xE (runWB xPb xW0 xEvs) = runW xe (absW xE xW0) xEvs ∧
    InvB xE (xe.ctx [xG, xB1, xC2]) (runWB xPb xW0 xEvs).bs [xG, xB1, xC2] ∧
    (runWB xPb xW0 xEvs).v.best = tipMeta [xG, xB1, xC2] := by
  unfold xPb
  have h := ledger_correct_on_bytes_bounded xe xG xHs xW0 xEvs xRunHyp xBounds xFit xInvB0 xBest0 xQueue0
  have h2 := h.2 xRun_queue
  have hc : (runWB (pbBOf xHs) xW0 xEvs).chain = [xG, xB1, xC2] := xRun_chain
  rw [hc] at h2
  exact ⟨h.1, h2⟩

/-- … hence (invB_balance) the balance bytes are the big-endian total the chain pays W1 — the value computed above -/
example : totalU (bookOf xe.p xe.own [xG, xB1, xC2]).L (nm wW1) = 100 := by decide

end MW.LedBytes.Run
