/-
  onRelevantBlockConnected ⊑ fold of applyOcc over the transactions of the block (C01 goal 1, block level,
  apply phase): given the relevance records the books predict (`Matches`), AddRelevantTx over them
  succeeds and ends in agreement with the books after the whole block.
-/
import MW.Lemmas.LedgerTx
import MW.Lemmas.LedgerGlob2
namespace MW.Lemmas.Ledger
open MW MW.Model.Ledger MW.Spec.Chain MW.Spec.Books

theorem foldIdx_fix {α β : Type} (f : β → Nat → α → β) (as : List α) (i : Nat) (b : β)
    (h : ∀ i a, a ∈ as → f b i a = b) : foldIdx f as i b = b := by
  induction as generalizing i with
  | nil => rfl
  | cons a as ih =>
    rw [foldIdx_cons, h i a (List.mem_cons_self ..)]
    exact ih _ (fun i a' ha => h i a' (List.mem_cons_of_mem _ ha))

/-- a transaction that neither spends an owned coin nor pays an owned address leaves the books alone -/
theorem applyOcc_untouched {p : Params} {own : Own} {B : Book} {oc : Occ} (h : touches own B oc.t = false) :
    applyOcc p own B oc = B := by
  unfold touches at h
  rw [Bool.or_eq_false_iff] at h
  obtain ⟨h1, h2⟩ := h
  rw [applyOcc_eq]
  have hr : recStep own B oc = B := by
    unfold recStep touches
    rw [h1, h2]; rfl
  have hs : spendStep p B oc = B := by
    unfold spendStep
    by_cases hcb : oc.t.cb = true
    · simp [hcb]
    · have hcb' : oc.t.cb = false := by simpa using hcb
      simp only [hcb', Bool.false_eq_true, if_false]
      apply foldIdx_fix
      intro k i hi
      rw [hcb'] at h1
      simp only [Bool.not_false, Bool.true_and] at h1
      have := List.any_eq_false.1 h1 i hi
      apply spendB_miss
      cases hl : lookupU B.L i.tx i.idx with
      | none => rfl
      | some u => rw [hl] at this; simp at this
  have hno : ∀ o ∈ oc.t.outs, ownerOf own o = none := by
    intro o ho
    have := List.any_eq_false.1 h2 o ho
    cases hl : ownerOf own o with
    | none => rfl
    | some u => rw [hl] at this; simp at this
  rw [hr, hs]
  have hc : foldIdx (createB p own oc.t oc.bm) oc.t.outs 0 B = B :=
    foldIdx_fix _ _ _ _ (fun j o ho => createB_none (hno o ho))
  rw [hc]
  exact foldIdx_fix _ _ _ _ (fun j o ho => by unfold depositB; rw [hno o ho])

/-- `tr` is the relevance record the books predict for transaction `oc` -/
def RecOK (own : Own) (B : Book) (oc : Occ) (tr : TxRec) : Prop :=
  tr.tx = oc.t ∧ tr.loc = (oc.bm.hash, oc.ti) ∧
  tr.relIn = (if oc.t.cb then [] else hitsFrom B.L oc.t.ins 0) ∧
  tr.relOut = ownedFrom own oc.t.outs 0

/-- `recs` are the records of exactly the touching transactions among `ocs`, in order -/
def Matches (p : Params) (own : Own) : Book → List Occ → List TxRec → Prop
  | _, [], recs => recs = []
  | B, oc :: rest, recs =>
    if touches own B oc.t = true then
      ∃ tr recs', recs = tr :: recs' ∧ RecOK own B oc tr ∧ Matches p own (applyOcc p own B oc) rest recs'
    else Matches p own (applyOcc p own B oc) rest recs

theorem applyPhase_refines {p : Params} {own : Own} {ready : List Wid} (hAR : AllReady own ready) (bm : BlockMeta) :
    ∀ (ocs : List Occ) (P : List Occ) (B : Book) (recs : List TxRec) (s : Store) (bals : Bals),
      (∀ oc ∈ ocs, oc.bm = bm) → Matches p own B ocs recs → Glob own P B → ValidFrom own P ocs →
      Agree s B → AgreeBal ready bals B → Loc p own B → LocG B →
      ∃ sb', recs.foldlM (fun sb tr => addRelevantMined p own sb.1 sb.2 tr bm) (s, bals) = .ok sb' ∧
        Agree sb'.1 (ocs.foldl (applyOcc p own) B) ∧ AgreeBal ready sb'.2 (ocs.foldl (applyOcc p own) B) ∧
        Loc p own (ocs.foldl (applyOcc p own) B) ∧ LocG (ocs.foldl (applyOcc p own) B) ∧ SameSync s sb'.1 := by
  intro ocs
  induction ocs with
  | nil =>
    intro P B recs s bals _ hM _ _ hR hB hL hG
    unfold Matches at hM
    subst hM
    exact ⟨(s, bals), rfl, hR, hB, hL, hG, SameSync.refl s⟩
  | cons oc rest ih =>
    intro P B recs s bals hbm hM hGl hV hR hB hL hG
    obtain ⟨hV1, hV2⟩ := hV
    have hGl' := glob_step (p := p) hGl hV1
    have hbm' : ∀ oc' ∈ rest, oc'.bm = bm := fun oc' h => hbm oc' (List.mem_cons_of_mem _ h)
    rw [List.foldl_cons]
    unfold Matches at hM
    by_cases ht : touches own B oc.t = true
    · simp only [ht, if_true] at hM
      obtain ⟨tr, recs', hrecs, ⟨h1, h2, h3, h4⟩, hM'⟩ := hM
      have hocbm : oc.bm = bm := hbm oc (List.mem_cons_self ..)
      obtain ⟨sb1, hs1, hR1, hB1, hL1, hG1, hS1⟩ :=
        addRelevantMined_refines (p := p) hAR hR hB hL hG h1 h2 h3 h4 ht hV1.2.2.1 (glob_fresh hGl hV1)
      rw [hocbm] at hs1
      obtain ⟨sb2, hs2, hR2, hB2, hL2, hG2, hS2⟩ := ih _ _ recs' sb1.1 sb1.2 hbm' hM' hGl' hV2 hR1 hB1 hL1 hG1
      refine ⟨sb2, ?_, hR2, hB2, hL2, hG2, hS1.trans hS2⟩
      rw [hrecs, List.foldlM_cons, hs1]
      exact hs2
    · have ht' : touches own B oc.t = false := by simpa using ht
      simp only [ht, if_false] at hM
      rw [applyOcc_untouched ht'] at hM hGl' ⊢
      exact ih _ _ recs s bals hbm' hM hGl' hV2 hR hB hL hG

end MW.Lemmas.Ledger
