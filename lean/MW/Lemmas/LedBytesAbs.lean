/-
  LedBytes, part 1 — the generic abstraction from a byte-keyed bucket to a tuple-keyed bucket.

  Layers tied together by the LedBytes* files:
    L1  MW.Spec.KV.DB           nested buckets of byte keys / byte values (what `kv_refines` says leveldb.go implements)
    L2  MW.Model.TxmgrCodec     the byte codecs of every txmgr record (tables regenerated from the Go source)
    L3  MW.Model.Ledger.Store   association lists keyed by decoded tuples (the model C01 / C06–C10 reason about)

  A `Codec KB VB K V` packages, for one bucket: the byte builders of key and value on typed byte records
  (`KB`, `VB`: hashes are 32-byte strings, wallet ids 42-byte strings …), decoders, the width predicates
  (`wfK`, `wfV`) and the renaming of a typed byte record into the ledger model's tuple (hash bytes ↦ symbolic id).
  `absBucket cd` reads a byte bucket as a tuple bucket.  Under the codec laws (decode ∘ encode = some on
  well-formed records, renaming injective) and for a bucket that holds only images of well-formed records
  (`Canon`, preserved by every write), every primitive access commutes with `absBucket` — LITERALLY
  (equality of association lists, not just extensionally).   Core Lean only.
-/
import MW.Base.AMap
import MW.Base.Bytes
namespace MW.LedBytes
open MW

structure Codec (KB VB K V : Type) where
  encK : KB → Bytes
  decK : Bytes → Option KB
  encV : VB → Bytes
  decV : Bytes → Option VB
  wfK : KB → Prop
  wfV : VB → Prop
  nmK : KB → K
  nmV : VB → V

variable {KB VB K V : Type}

/-- what a codec must satisfy (each instance: consequences of `decodeBy_encode` on the regenerated tables) -/
structure Codec.Laws (cd : Codec KB VB K V) : Prop where
  decK_encK : ∀ k, cd.wfK k → cd.decK (cd.encK k) = some k
  decV_encV : ∀ v, cd.wfV v → cd.decV (cd.encV v) = some v
  nmK_inj : ∀ k k', cd.wfK k → cd.wfK k' → cd.nmK k = cd.nmK k' → k = k'

theorem Codec.Laws.encK_inj {cd : Codec KB VB K V} (L : cd.Laws) {k k' : KB} (h : cd.wfK k) (h' : cd.wfK k')
    (he : cd.encK k = cd.encK k') : k = k' := by
  have := L.decK_encK k h
  rw [he, L.decK_encK k' h'] at this
  exact (Option.some.inj this).symm

/-- one entry read through the codec -/
def absEntry (cd : Codec KB VB K V) (e : Bytes × Bytes) : Option (K × V) :=
  match cd.decK e.1, cd.decV e.2 with
  | some k, some v => some (cd.nmK k, cd.nmV v)
  | _, _ => none

/-- **the abstraction of one bucket**: every entry whose key and value decode, renamed -/
def absBucket (cd : Codec KB VB K V) (m : AMap.T Bytes Bytes) : AMap.T K V := m.filterMap (absEntry cd)

/-- the image of a typed entry -/
def encEntry (cd : Codec KB VB K V) (k : KB) (v : VB) : Bytes × Bytes := (cd.encK k, cd.encV v)

/-- the bucket holds only images of well-formed records (true of the empty bucket, kept by every write) -/
def Canon (cd : Codec KB VB K V) (m : AMap.T Bytes Bytes) : Prop :=
  ∀ e ∈ m, ∃ k v, cd.wfK k ∧ cd.wfV v ∧ e = encEntry cd k v

theorem canon_nil (cd : Codec KB VB K V) : Canon cd [] := by intro e he; simp at he

theorem canon_cons {cd : Codec KB VB K V} {k : KB} {v : VB} {m : AMap.T Bytes Bytes} (hk : cd.wfK k) (hv : cd.wfV v)
    (hm : Canon cd m) : Canon cd (encEntry cd k v :: m) := by
  intro e he
  rcases List.mem_cons.mp he with rfl | he
  · exact ⟨k, v, hk, hv, rfl⟩
  · exact hm e he

theorem canon_tail {cd : Codec KB VB K V} {e : Bytes × Bytes} {m : AMap.T Bytes Bytes} (h : Canon cd (e :: m)) :
    Canon cd m := fun x hx => h x (List.mem_cons_of_mem _ hx)

theorem canon_filter {cd : Codec KB VB K V} {m : AMap.T Bytes Bytes} (p : Bytes × Bytes → Bool) (h : Canon cd m) :
    Canon cd (m.filter p) := fun x hx => h x (List.mem_filter.mp hx).1

theorem absEntry_enc {cd : Codec KB VB K V} (L : cd.Laws) {k : KB} {v : VB} (hk : cd.wfK k) (hv : cd.wfV v) :
    absEntry cd (encEntry cd k v) = some (cd.nmK k, cd.nmV v) := by
  simp [absEntry, encEntry, L.decK_encK k hk, L.decV_encV v hv]

theorem absBucket_nil (cd : Codec KB VB K V) : absBucket cd [] = [] := rfl

theorem absBucket_cons_enc {cd : Codec KB VB K V} (L : cd.Laws) {k : KB} {v : VB} (hk : cd.wfK k) (hv : cd.wfV v)
    (m : AMap.T Bytes Bytes) : absBucket cd (encEntry cd k v :: m) = (cd.nmK k, cd.nmV v) :: absBucket cd m := by
  simp [absBucket, absEntry_enc L hk hv]

/-- a key-selecting filter commutes with the abstraction when the byte test and the tuple test agree on images -/
theorem abs_filter {cd : Codec KB VB K V} (L : cd.Laws) (bp : Bytes → Bool) (p : K → Bool)
    (hp : ∀ k, cd.wfK k → bp (cd.encK k) = p (cd.nmK k)) {m : AMap.T Bytes Bytes} (hm : Canon cd m) :
    absBucket cd (m.filter (fun e => bp e.1)) = (absBucket cd m).filter (fun e => p e.1) := by
  induction m with
  | nil => rfl
  | cons e m ih =>
    obtain ⟨k, v, hk, hv, rfl⟩ := hm _ List.mem_cons_self
    have ih := ih (canon_tail hm)
    rw [absBucket_cons_enc L hk hv]
    by_cases hb : bp (cd.encK k) = true
    · have hb' : p (cd.nmK k) = true := by rw [← hp k hk]; exact hb
      simp only [List.filter_cons, encEntry, hb, hb', if_true]
      rw [← encEntry, absBucket_cons_enc L hk hv, ih]
    · have hb' : ¬ p (cd.nmK k) = true := by rw [← hp k hk]; exact hb
      simp only [List.filter_cons, encEntry, hb, hb', Bool.false_eq_true, if_false]
      exact ih

theorem canon_erase {cd : Codec KB VB K V} {m : AMap.T Bytes Bytes} (hm : Canon cd m) (b : Bytes) :
    Canon cd (AMap.erase m b) := canon_filter _ hm

/-- what a byte-level `Get` returns in a canonical bucket is the image of a well-formed value -/
theorem canon_get {cd : Codec KB VB K V} {m : AMap.T Bytes Bytes} (hm : Canon cd m) {b bv : Bytes}
    (h : AMap.get m b = some bv) : ∃ k v, cd.wfK k ∧ cd.wfV v ∧ b = cd.encK k ∧ bv = cd.encV v := by
  induction m with
  | nil => simp [AMap.get] at h
  | cons e m ih =>
    rw [AMap.get_cons] at h
    by_cases he : e.1 = b
    · obtain ⟨k, v, hk, hv, rfl⟩ := hm _ List.mem_cons_self
      simp only [he, if_true, Option.some.injEq] at h
      exact ⟨k, v, hk, hv, he.symm, h.symm⟩
    · simp only [he, if_false] at h
      exact ih (canon_tail hm) h

/-- **prefix iteration commutes**: `GetByPrefix(pfx)` (selection by `isPrefixOf`, MW.Model.TxmgrCodec.scanPrefix) read
    through the codec is the selection of the tuples whose leading components are those of the prefix
    (`hp`: prefix exactness of the key codec, `prefix_exact_encode`) -/
theorem abs_scan {cd : Codec KB VB K V} (L : cd.Laws) (pfx : Bytes) (p : K → Bool)
    (hp : ∀ k, cd.wfK k → pfx.isPrefixOf (cd.encK k) = p (cd.nmK k)) {m : AMap.T Bytes Bytes} (hm : Canon cd m) :
    absBucket cd (AMap.scan m (fun b => pfx.isPrefixOf b)) = AMap.scan (absBucket cd m) p :=
  abs_filter L _ p hp hm

theorem abs_eraseWhere {cd : Codec KB VB K V} (L : cd.Laws) (pfx : Bytes) (p : K → Bool)
    (hp : ∀ k, cd.wfK k → pfx.isPrefixOf (cd.encK k) = p (cd.nmK k)) {m : AMap.T Bytes Bytes} (hm : Canon cd m) :
    absBucket cd (AMap.eraseWhere m (fun b => pfx.isPrefixOf b)) = AMap.eraseWhere (absBucket cd m) p := by
  unfold AMap.eraseWhere
  exact abs_filter L (fun b => !pfx.isPrefixOf b) (fun t => !p t) (fun k hk => by simp [hp k hk]) hm

/-- existence of a key under a prefix (`ExistCreditFromTx`) -/
theorem abs_any {cd : Codec KB VB K V} (L : cd.Laws) (bp : Bytes → Bool) (p : K → Bool)
    (hp : ∀ k, cd.wfK k → bp (cd.encK k) = p (cd.nmK k)) {m : AMap.T Bytes Bytes} (hm : Canon cd m) :
    (absBucket cd m).any (fun e => p e.1) = m.any (fun e => bp e.1) := by
  induction m with
  | nil => rfl
  | cons e m ih =>
    obtain ⟨k, v, hk, hv, rfl⟩ := hm _ List.mem_cons_self
    rw [absBucket_cons_enc L hk hv, List.any_cons, List.any_cons, ih (canon_tail hm)]
    simp [encEntry, hp k hk]

/-- the abstraction loses nothing on a canonical bucket: same number of entries -/
theorem abs_length {cd : Codec KB VB K V} (L : cd.Laws) {m : AMap.T Bytes Bytes} (hm : Canon cd m) :
    (absBucket cd m).length = m.length := by
  induction m with
  | nil => rfl
  | cons e m ih =>
    obtain ⟨k, v, hk, hv, rfl⟩ := hm _ List.mem_cons_self
    rw [absBucket_cons_enc L hk hv]; simp [ih (canon_tail hm)]

variable [DecidableEq K]

/-- **delete commutes** -/
theorem abs_erase {cd : Codec KB VB K V} (L : cd.Laws) {m : AMap.T Bytes Bytes} (hm : Canon cd m) {k : KB}
    (hk : cd.wfK k) : absBucket cd (AMap.erase m (cd.encK k)) = AMap.erase (absBucket cd m) (cd.nmK k) := by
  unfold AMap.erase
  refine abs_filter L (fun b => !decide (b = cd.encK k)) (fun t => !decide (t = cd.nmK k)) ?_ hm
  intro k' hk'
  by_cases h : k' = k
  · subst h; simp
  · have h1 : cd.encK k' ≠ cd.encK k := fun he => h (L.encK_inj hk' hk he)
    have h2 : cd.nmK k' ≠ cd.nmK k := fun he => h (L.nmK_inj _ _ hk' hk he)
    simp [h1, h2]

/-- **put commutes** -/
theorem abs_put {cd : Codec KB VB K V} (L : cd.Laws) {m : AMap.T Bytes Bytes} (hm : Canon cd m) {k : KB} {v : VB}
    (hk : cd.wfK k) (hv : cd.wfV v) :
    absBucket cd (AMap.put m (cd.encK k) (cd.encV v)) = AMap.put (absBucket cd m) (cd.nmK k) (cd.nmV v) := by
  unfold AMap.put
  rw [← abs_erase L hm hk]
  exact absBucket_cons_enc L hk hv _

omit [DecidableEq K] in
theorem canon_put {cd : Codec KB VB K V} {m : AMap.T Bytes Bytes} (hm : Canon cd m) {k : KB} {v : VB}
    (hk : cd.wfK k) (hv : cd.wfV v) : Canon cd (AMap.put m (cd.encK k) (cd.encV v)) :=
  canon_cons hk hv (canon_erase hm _)

/-- **get commutes**: the tuple bucket holds under the renamed key the renamed decoding of what the byte bucket holds
    under the encoded key -/
theorem abs_get {cd : Codec KB VB K V} (L : cd.Laws) {m : AMap.T Bytes Bytes} (hm : Canon cd m) {k : KB}
    (hk : cd.wfK k) :
    AMap.get (absBucket cd m) (cd.nmK k) = (AMap.get m (cd.encK k)).bind (fun bv => (cd.decV bv).map cd.nmV) := by
  induction m with
  | nil => rfl
  | cons e m ih =>
    obtain ⟨k', v', hk', hv', rfl⟩ := hm _ List.mem_cons_self
    rw [absBucket_cons_enc L hk' hv', AMap.get_cons, AMap.get_cons, ih (canon_tail hm)]
    by_cases h : k' = k
    · subst h; simp [encEntry, L.decV_encV v' hv']
    · have h1 : cd.encK k' ≠ cd.encK k := fun he => h (L.encK_inj hk' hk he)
      have h2 : cd.nmK k' ≠ cd.nmK k := fun he => h (L.nmK_inj _ _ hk' hk he)
      simp [encEntry, h1, h2]

/-- get, as the two cases a caller distinguishes (`v == nil` or not) -/
theorem abs_get_none {cd : Codec KB VB K V} (L : cd.Laws) {m : AMap.T Bytes Bytes} (hm : Canon cd m) {k : KB}
    (hk : cd.wfK k) (h : AMap.get m (cd.encK k) = none) : AMap.get (absBucket cd m) (cd.nmK k) = none := by
  rw [abs_get L hm hk, h]; rfl

theorem abs_get_some {cd : Codec KB VB K V} (L : cd.Laws) {m : AMap.T Bytes Bytes} (hm : Canon cd m) {k : KB}
    (hk : cd.wfK k) {bv : Bytes} (h : AMap.get m (cd.encK k) = some bv) :
    ∃ v, cd.wfV v ∧ bv = cd.encV v ∧ AMap.get (absBucket cd m) (cd.nmK k) = some (cd.nmV v) := by
  obtain ⟨k', v, _, hv, _, rfl⟩ := canon_get hm h
  refine ⟨v, hv, rfl, ?_⟩
  rw [abs_get L hm hk, h]
  simp [L.decV_encV v hv]

/-- get, read backwards: what the tuple bucket holds under a renamed key is the renamed decoding of bytes that ARE in
    the byte bucket under the encoded key -/
theorem abs_get_inv {cd : Codec KB VB K V} (L : cd.Laws) {m : AMap.T Bytes Bytes} (hm : Canon cd m) {k : KB}
    (hk : cd.wfK k) {t : V} (h : AMap.get (absBucket cd m) (cd.nmK k) = some t) :
    ∃ v, cd.wfV v ∧ cd.nmV v = t ∧ AMap.get m (cd.encK k) = some (cd.encV v) := by
  cases hg : AMap.get m (cd.encK k) with
  | none => rw [abs_get_none L hm hk hg] at h; cases h
  | some bv =>
    obtain ⟨v, hv, rfl, hg'⟩ := abs_get_some L hm hk hg
    rw [hg'] at h
    exact ⟨v, hv, Option.some.inj h, rfl⟩

/-- **exists commutes** -/
theorem abs_has {cd : Codec KB VB K V} (L : cd.Laws) {m : AMap.T Bytes Bytes} (hm : Canon cd m) {k : KB}
    (hk : cd.wfK k) : (AMap.get (absBucket cd m) (cd.nmK k)).isSome = (AMap.get m (cd.encK k)).isSome := by
  cases h : AMap.get m (cd.encK k) with
  | none => rw [abs_get_none L hm hk h]; rfl
  | some bv => obtain ⟨v, _, _, hg⟩ := abs_get_some L hm hk h; rw [hg]; rfl

end MW.LedBytes
