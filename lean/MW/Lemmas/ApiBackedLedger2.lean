/-
  C19, ledger-backed contract: the hypothesis `TxIdsAgree chain node` ("a transaction id names one transaction")
  is not an extra assumption in the standard situation – the wallet's chain is a prefix of the node's best chain
  (the follower is behind on the same branch, or level with it) and the node's chain is valid (`ChainValid`: no
  duplicate transaction ids, C01's hypothesis): then it is a theorem.
-/
import MW.Lemmas.ApiBackedLedger
import MW.Lemmas.LedgerNode
import Mathlib.Data.List.Nodup
namespace MW.Lemmas.ApiBacked
open MW MW.Model.Ledger MW.Spec.Books MW.Lemmas.Ledger

theorem mem_occs_of_mem_block {chain : List Block} {b : Block} {t : Tx} (hb : b ∈ chain) (ht : t ∈ b.txs) :
    ∃ oc ∈ occs chain, oc.t = t := by
  obtain ⟨m, hm, hget⟩ := List.mem_iff_getElem.1 ht
  refine ⟨⟨⟨b.height, b.id⟩, 0 + m, t⟩, ?_, rfl⟩
  unfold occs
  refine List.mem_flatMap.2 ⟨b, hb, ?_⟩
  unfold occsOfBlock
  exact mem_occsFrom.2 ⟨m, by rw [List.getElem?_eq_getElem hm, hget], rfl, rfl⟩

theorem txIdsAgree_of_prefix {own : Own} {chain rest : List Block} {node : Node}
    (hN : node.chain = chain ++ rest) (hV : ChainValid own node.chain) : TxIdsAgree chain node := by
  intro oc hoc b hb t ht hid
  have hnd : (idsOf (occs node.chain)).Nodup := (glob_bookOf (p := {}) hV).idsNodup
  have hoc' : oc ∈ occs node.chain := by
    rw [hN, occs_append]; exact List.mem_append_left _ hoc
  obtain ⟨oc2, hoc2, rfl⟩ := mem_occs_of_mem_block hb ht
  have : oc2 = oc := List.inj_on_of_nodup_map hnd hoc2 hoc' hid
  rw [this]

/-- the ledger fact with C01's own hypotheses only: the wallet's chain is a prefix of the node's valid best chain -/
theorem existsTx_index_prefix {c : Ctx} {s : Store} {chain rest : List Block} (hI : Inv c s chain)
    (hN : c.node.chain = chain ++ rest) (hV : ChainValid c.own c.node.chain) {len : Tx → Nat} {cur : Wid} {tx : TxId} {idx : Nat}
    {t : Tx} {blk : BlockMeta} (h : MW.Model.ApiLedger.existsTx len s c.node cur tx idx = some (t, blk)) :
    idx < t.outs.length ∧ t.id = tx :=
  existsTx_index hI (chainValid_prefix (hN ▸ hV)) (txIdsAgree_of_prefix hN hV) h

end MW.Lemmas.ApiBacked
