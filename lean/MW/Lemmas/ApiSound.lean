/-
  Soundness of the static checker of the C19 skeleton language (MW.Model.ApiDsl):
  a skeleton accepted by `check` never panics, for every initial state, every oracle and every fuel.
-/
import MW.Model.ApiDsl
namespace MW.Lemmas.ApiSound
open MW.Model.Api

def Holds (F : Facts) (σ : State) : Prop := ∀ c ∈ F, c.eval σ = true
def HoldsA (A : List Atom) (σ : State) : Prop := ∀ a ∈ A, a.eval σ = true

theorem set_same (σ : State) (x : Var) (n : Nat) : (σ.set x n) x = n := by simp [State.set]
theorem set_other (σ : State) (x y : Var) (n : Nat) (h : y ≠ x) : (σ.set x n) y = σ y := by simp [State.set, h]

theorem atom_congr (a : Atom) (σ τ : State) (h : ∀ y ∈ a.vars, σ y = τ y) : a.eval σ = a.eval τ := by
  cases a <;> simp [Atom.vars] at h <;> simp [Atom.eval, h]

theorem atoms_all_congr (l : List Atom) (σ τ : State) (h : ∀ y ∈ l.flatMap Atom.vars, σ y = τ y) :
    l.all (·.eval σ) = l.all (·.eval τ) := by
  induction l with
  | nil => rfl
  | cons a l ih =>
    simp only [List.all_cons]
    have h1 : a.eval σ = a.eval τ := atom_congr a σ τ (fun y hy => h y (by simp [List.flatMap_cons, hy]))
    have h2 := ih (fun y hy => h y (by simp [List.flatMap_cons]; exact Or.inr (by simpa [List.mem_flatMap] using hy)))
    rw [h1, h2]

theorem clause_congr (c : Clause) (σ τ : State) (h : ∀ y ∈ c.vars, σ y = τ y) : c.eval σ = c.eval τ := by
  unfold Clause.eval
  have h1 := atoms_all_congr c.pre σ τ (fun y hy => h y (by simp [Clause.vars]; exact Or.inl (by simpa [List.mem_flatMap] using hy)))
  have h2 := atoms_all_congr c.post σ τ (fun y hy => h y (by simp [Clause.vars]; exact Or.inr (by simpa [List.mem_flatMap] using hy)))
  rw [h1, h2]

theorem fact_eval (a : Atom) (σ : State) : (fact a).eval σ = a.eval σ := by
  simp [fact, Clause.eval]

theorem holds_facts (A : List Atom) (σ : State) : Holds (A.map fact) σ ↔ HoldsA A σ := by
  constructor
  · intro h a ha
    have := h (fact a) (List.mem_map_of_mem ha)
    rwa [fact_eval] at this
  · intro h c hc
    obtain ⟨a, ha, rfl⟩ := List.mem_map.mp hc
    rw [fact_eval]; exact h a ha

theorem holds_append {F G : Facts} {σ : State} : Holds (F ++ G) σ ↔ Holds F σ ∧ Holds G σ := by
  constructor
  · intro h; exact ⟨fun c hc => h c (List.mem_append_left _ hc), fun c hc => h c (List.mem_append_right _ hc)⟩
  · intro ⟨h1, h2⟩ c hc
    rcases List.mem_append.mp hc with h | h
    · exact h1 c h
    · exact h2 c h

theorem holds_insertC {F : Facts} {c : Clause} {σ : State} (hF : Holds F σ) (hc : c.eval σ = true) : Holds (insertC F c) σ := by
  unfold insertC
  split
  · exact hF
  · intro d hd
    rcases List.mem_append.mp hd with h | h
    · exact hF d h
    · simp only [List.mem_singleton] at h; subst h; exact hc

theorem holds_union {F G : Facts} {σ : State} (hF : Holds F σ) (hG : Holds G σ) : Holds (union F G) σ := by
  unfold union
  induction G generalizing F with
  | nil => simpa using hF
  | cons c G ih =>
    simp only [List.foldl_cons]
    exact ih (holds_insertC hF (hG c (List.mem_cons_self ..))) (fun d hd => hG d (List.mem_cons_of_mem _ hd))

theorem mem_of_contains {A : List Atom} {a : Atom} (h : A.contains a = true) : a ∈ A := by
  simpa using h

theorem entailsA_sound (A : List Atom) (σ : State) (hA : HoldsA A σ) (a : Atom) (h : entailsA A a = true) :
    a.eval σ = true := by
  unfold entailsA at h
  rcases Bool.or_eq_true _ _ |>.mp h with h | h
  · exact hA a (mem_of_contains h)
  · cases a with
    | nz x =>
      simp only [List.any_eq_true] at h
      obtain ⟨b, hb, hb2⟩ := h
      have hbe := hA b hb
      cases b with
      | eqv a b' =>
        simp only [Bool.or_eq_true, Bool.and_eq_true, beq_iff_eq] at hb2
        simp [Atom.eval] at hbe ⊢
        rcases hb2 with ⟨rfl, h2⟩ | ⟨rfl, h2⟩
        · have := hA _ (mem_of_contains h2); simp [Atom.eval] at this; omega
        · have := hA _ (mem_of_contains h2); simp [Atom.eval] at this; omega
      | nz y => simp at hb2
      | z y => simp at hb2
      | le a b' => simp at hb2
      | ge y k => simp at hb2; simp [Atom.eval] at hbe ⊢; obtain ⟨rfl, h2⟩ := hb2; omega
      | eqk y k => simp at hb2; simp [Atom.eval] at hbe ⊢; obtain ⟨rfl, h2⟩ := hb2; omega
      | lt a y => simp at hb2; simp [Atom.eval] at hbe ⊢; subst hb2; omega
    | z x =>
      have := hA _ (mem_of_contains h)
      simpa [Atom.eval] using this
    | ge xs k =>
      rcases Bool.or_eq_true _ _ |>.mp h with h | h
      · simp at h; simp [Atom.eval, h]
      · simp only [List.any_eq_true] at h
        obtain ⟨b, hb, hb2⟩ := h
        have hbe := hA b hb
        cases b <;> simp at hb2 <;> simp [Atom.eval] at hbe ⊢
        all_goals (obtain ⟨rfl, h2⟩ := hb2 <;> omega)
    | le a xs =>
      rcases Bool.or_eq_true _ _ |>.mp h with h | h
      · have := hA _ (mem_of_contains h)
        simp [Atom.eval] at this ⊢; omega
      · simp at h; subst h; simp [Atom.eval]
    | lt i xs =>
      simp only [List.any_eq_true] at h
      obtain ⟨b, hb, hb2⟩ := h
      have hbe := hA b hb
      cases b <;> simp at hb2
      rename_i j ys
      obtain ⟨rfl, h2⟩ := hb2
      simp [Atom.eval] at hbe ⊢
      rcases h2 with h2 | h2
      · have := hA _ h2; simp [Atom.eval] at this; omega
      · have := hA _ h2; simp [Atom.eval] at this; omega
    | eqk x k =>
      simp at h
      obtain ⟨rfl, h2⟩ := h
      have := hA _ h2
      simpa [Atom.eval] using this
    | eqv a b =>
      rcases Bool.or_eq_true _ _ |>.mp h with h | h
      · simp at h; subst h; simp [Atom.eval]
      · have := hA _ (mem_of_contains h)
        simp [Atom.eval] at this ⊢; omega

theorem all_entailsA_sound (A : List Atom) (σ : State) (hA : HoldsA A σ) (l : List Atom)
    (h : l.all (entailsA A) = true) : l.all (·.eval σ) = true := by
  simp only [List.all_eq_true] at h ⊢
  intro a ha
  exact entailsA_sound A σ hA a (h a ha)

theorem chainStep_sound (F : Facts) (σ : State) (hF : Holds F σ) (A : List Atom) (hA : HoldsA A σ) :
    HoldsA (chainStep F A) σ := by
  unfold chainStep
  suffices ∀ (G : Facts), (∀ c ∈ G, c.eval σ = true) → ∀ acc, HoldsA acc σ →
      HoldsA (G.foldl (fun acc c => if c.pre.isEmpty then acc
        else if c.pre.all (entailsA acc) then acc ++ c.post.filter (fun a => !(acc.contains a)) else acc) acc) σ from
    this F hF A hA
  intro G
  induction G with
  | nil => intro _ acc h; simpa using h
  | cons c G ih =>
    intro hG acc hacc
    simp only [List.foldl_cons]
    apply ih (fun c' hc' => hG c' (List.mem_cons_of_mem _ hc'))
    by_cases he : c.pre.isEmpty = true
    · simp only [he, if_true]; exact hacc
    · simp only [he, Bool.false_eq_true, if_false]
      by_cases hp : c.pre.all (entailsA acc) = true
      · simp only [hp, if_true]
        have hpre := all_entailsA_sound acc σ hacc c.pre hp
        have hc := hG c (List.mem_cons_self ..)
        unfold Clause.eval at hc
        simp only [hpre, Bool.not_true, Bool.false_or] at hc
        intro a ha
        rcases List.mem_append.mp ha with h | h
        · exact hacc a h
        · exact (List.all_eq_true.mp hc) a (List.mem_filter.mp h).1
      · simp only [hp]
        exact hacc

theorem chain_sound (F : Facts) (σ : State) (hF : Holds F σ) : ∀ n A, HoldsA A σ → HoldsA (chain F n A) σ := by
  intro n
  induction n with
  | zero => intro A h; simpa [chain] using h
  | succ n ih => intro A h; simp only [chain]; exact ih _ (chainStep_sound F σ hF A h)

theorem closure_sound (F : Facts) (σ : State) (hF : Holds F σ) : HoldsA (closure F) σ := by
  intro a ha
  unfold closure atomsOf at ha
  obtain ⟨c, hc, hac⟩ := List.mem_flatMap.mp ha
  obtain ⟨hc1, hc2⟩ := List.mem_filter.mp hc
  have hce := hF c hc1
  unfold Clause.eval at hce
  have hpre : c.pre = [] := by simpa using hc2
  simp only [hpre, List.all_nil, Bool.not_true, Bool.false_or] at hce
  exact List.all_eq_true.mp hce a hac

theorem sat_holds (F : Facts) (σ : State) (hF : Holds F σ) : Holds (sat F) σ := by
  unfold sat
  apply holds_union hF
  rw [holds_facts]
  intro a ha
  exact chain_sound F σ hF 2 _ (closure_sound F σ hF) a (List.mem_filter.mp ha).1

theorem entails_sound (F : Facts) (σ : State) (hF : Holds F σ) (a : Atom) (h : entails F a = true) :
    a.eval σ = true :=
  entailsA_sound _ σ (closure_sound F σ hF) a h

theorem all_entails_sound (F : Facts) (σ : State) (hF : Holds F σ) (l : List Atom)
    (h : l.all (entails F) = true) : HoldsA l σ := by
  intro a ha
  exact entails_sound F σ hF a (List.all_eq_true.mp h a ha)

-- ------------------------------------------------------------------ kill

theorem kill_holds (F : Facts) (σ : State) (x : Var) (n : Nat) (hF : Holds F σ) : Holds (kill x F) (σ.set x n) := by
  intro c hc
  unfold kill at hc
  obtain ⟨hc1, hc2⟩ := List.mem_filter.mp hc
  have hx : x ∉ c.vars := by simpa using hc2
  rw [clause_congr c (σ.set x n) σ (fun y hy => set_other σ x y n (fun h => hx (h ▸ hy)))]
  exact hF c hc1

theorem killAll_holds : ∀ (outs : List Var) (F : Facts) (σ : State) (vals : List Nat), Holds F σ →
    Holds (killAll outs F) (setMany σ outs vals) := by
  intro outs
  induction outs with
  | nil => intro F σ vals h; simpa [killAll, setMany] using h
  | cons x xs ih =>
    intro F σ vals h
    cases vals with
    | nil =>
      simp only [killAll, List.foldl_cons, setMany]
      exact ih (kill x F) (σ.set x 0) [] (kill_holds F σ x 0 h)
    | cons v vs =>
      simp only [killAll, List.foldl_cons, setMany]
      exact ih (kill x F) (σ.set x v) vs (kill_holds F σ x v h)

-- ------------------------------------------------------------------ conditions

theorem negAtom_sound (a : Atom) (σ : State) (h : a.eval σ = false) : HoldsA (negAtom a) σ := by
  intro b hb
  cases a <;> simp [negAtom] at hb <;> simp [Atom.eval] at h
  case nz x => subst hb; simp [Atom.eval, h]
  case z x => subst hb; simp [Atom.eval, h]
  case lt i xs => subst hb; simp [Atom.eval]; omega
  case le a xs => subst hb; simp [Atom.eval]; omega
  case ge xs k => obtain ⟨rfl, rfl⟩ := hb; simp [Atom.eval]; omega
  case eqk x k => obtain ⟨rfl, rfl⟩ := hb; simp [Atom.eval]; omega

theorem u32Pred_le (n : Nat) (h : 1 ≤ n) : u32Pred n ≤ n - 1 := by
  unfold u32Pred
  have : n ≠ 0 := by omega
  simp only [this, if_false]
  exact Nat.mod_le _ _

theorem cond_sound (F : Facts) (σ : State) (hF : Holds F σ) : ∀ c : Cond,
    (c.eval σ = true → HoldsA (c.pos F) σ) ∧ (c.eval σ = false → HoldsA (c.neg F) σ) := by
  intro c
  induction c with
  | atom a =>
    constructor
    · intro h b hb; simp [Cond.pos] at hb; subst hb; simpa [Cond.eval] using h
    · intro h; simp only [Cond.neg]; exact negAtom_sound a σ (by simpa [Cond.eval] using h)
  | not c ih =>
    constructor
    · intro h; simp only [Cond.pos]; exact ih.2 (by simpa [Cond.eval] using h)
    · intro h; simp only [Cond.neg]; exact ih.1 (by simpa [Cond.eval] using h)
  | and c d ihc ihd =>
    constructor
    · intro h
      simp only [Cond.eval, Bool.and_eq_true] at h
      simp only [Cond.pos]
      intro b hb
      rcases List.mem_append.mp hb with hb | hb
      · exact ihc.1 h.1 b hb
      · exact ihd.1 h.2 b hb
    · intro _ b hb; simp [Cond.neg] at hb
  | or c d ihc ihd =>
    constructor
    · intro _ b hb; simp [Cond.pos] at hb
    · intro h
      simp only [Cond.eval, Bool.or_eq_false_iff] at h
      simp only [Cond.neg]
      intro b hb
      rcases List.mem_append.mp hb with hb | hb
      · exact ihc.2 h.1 b hb
      · exact ihd.2 h.2 b hb
  | gtU32Pred i xs =>
    constructor
    · intro _ b hb; simp [Cond.pos] at hb
    · intro h b hb
      simp only [Cond.neg] at hb
      by_cases he : entails F (.ge xs 1) = true
      · simp only [he, if_true, List.mem_singleton] at hb
        subst hb
        have hge := entails_sound F σ hF _ he
        simp [Atom.eval] at hge
        simp [Cond.eval] at h
        have := u32Pred_le (σ xs) hge
        simp [Atom.eval]; omega
      · simp [he] at hb

-- ------------------------------------------------------------------ meet

theorem condFacts_post {e : Var} {p : Bool} {as : List Atom} {σ : State} (h : HoldsA as σ) : Holds (condFacts e p as) σ := by
  intro c hc
  obtain ⟨a, ha, rfl⟩ := List.mem_map.mp hc
  have := h a ha
  simp [Clause.eval, this]

theorem condFacts_pre {e : Var} {p : Bool} {as : List Atom} {σ : State}
    (h : (if p then Atom.nz e else Atom.z e).eval σ = false) : Holds (condFacts e p as) σ := by
  intro c hc
  obtain ⟨a, _, rfl⟩ := List.mem_map.mp hc
  simp [Clause.eval, h]

theorem discr_sound {A B : List Atom} {e : Var} (h : e ∈ discr A B) :
    entailsA A (.nz e) = true ∧ entailsA B (.z e) = true := by
  unfold discr at h
  have h1 := List.mem_of_mem_take h
  have h3 := (List.mem_filter.mp h1).2
  simpa using h3

/-- the result of `meet` holds in a state reached on the first path -/
theorem meet_some_left (A B : Facts) (σ : State) (hA : Holds A σ) :
    ∃ G, meet (some A) (some B) = some G ∧ Holds G σ := by
  refine ⟨_, rfl, ?_⟩
  have hca := closure_sound A σ hA
  apply sat_holds
  apply holds_union
  · apply holds_union
    · apply holds_union
      · apply holds_union
        · exact fun c hc => hA c (List.mem_filter.mp hc).1
        · rw [holds_facts]
          intro a ha
          exact hca a (List.mem_filter.mp ha).1
      · rw [holds_facts]
        intro a ha
        exact entailsA_sound _ σ hca a (List.mem_filter.mp ha).2
    · intro c hc
      obtain ⟨e, he, rfl⟩ := List.mem_map.mp hc
      have h3 := (List.mem_filter.mp he).2
      simp only [Bool.and_eq_true] at h3
      rw [fact_eval]
      exact entailsA_sound _ σ hca _ h3.1
  · intro c hc
    rcases List.mem_append.mp hc with h | h
    · obtain ⟨e, he, hc2⟩ := List.mem_flatMap.mp h
      obtain ⟨hnz, _⟩ := discr_sound he
      have hnz' := entailsA_sound _ σ hca _ hnz
      rcases List.mem_append.mp hc2 with h3 | h3
      · exact condFacts_post (fun a ha => hca a (List.mem_filter.mp ha).1) c h3
      · refine condFacts_pre (p := false) ?_ c h3
        simp [Atom.eval] at hnz' ⊢
        exact hnz'
    · obtain ⟨e, he, hc2⟩ := List.mem_flatMap.mp h
      obtain ⟨_, hz⟩ := discr_sound he
      have hz' := entailsA_sound _ σ hca _ hz
      rcases List.mem_append.mp hc2 with h3 | h3
      · refine condFacts_pre (p := true) ?_ c h3
        simp [Atom.eval] at hz' ⊢
        exact hz'
      · exact condFacts_post (fun a ha => hca a (List.mem_filter.mp ha).1) c h3

/-- … and in a state reached on the second path -/
theorem meet_some_right (A B : Facts) (σ : State) (hB : Holds B σ) :
    ∃ G, meet (some A) (some B) = some G ∧ Holds G σ := by
  refine ⟨_, rfl, ?_⟩
  have hcb := closure_sound B σ hB
  apply sat_holds
  apply holds_union
  · apply holds_union
    · apply holds_union
      · apply holds_union
        · intro c hc
          have := (List.mem_filter.mp hc).2
          exact hB c (by simpa using this)
        · rw [holds_facts]
          intro a ha
          exact entailsA_sound _ σ hcb a (List.mem_filter.mp ha).2
      · rw [holds_facts]
        intro a ha
        exact hcb a (List.mem_filter.mp ha).1
    · intro c hc
      obtain ⟨e, he, rfl⟩ := List.mem_map.mp hc
      have h3 := (List.mem_filter.mp he).2
      simp only [Bool.and_eq_true] at h3
      rw [fact_eval]
      exact entailsA_sound _ σ hcb _ h3.2
  · intro c hc
    rcases List.mem_append.mp hc with h | h
    · obtain ⟨e, he, hc2⟩ := List.mem_flatMap.mp h
      obtain ⟨_, hz⟩ := discr_sound he
      have hz' := entailsA_sound _ σ hcb _ hz
      rcases List.mem_append.mp hc2 with h3 | h3
      · refine condFacts_pre (p := true) ?_ c h3
        simp [Atom.eval] at hz' ⊢
        exact hz'
      · exact condFacts_post (fun a ha => hcb a (List.mem_filter.mp ha).1) c h3
    · obtain ⟨e, he, hc2⟩ := List.mem_flatMap.mp h
      obtain ⟨hnz, _⟩ := discr_sound he
      have hnz' := entailsA_sound _ σ hcb _ hnz
      rcases List.mem_append.mp hc2 with h3 | h3
      · exact condFacts_post (fun a ha => hcb a (List.mem_filter.mp ha).1) c h3
      · refine condFacts_pre (p := false) ?_ c h3
        simp [Atom.eval] at hnz' ⊢
        exact hnz'

theorem meet_left {X Y : Option Facts} {σ : State} (h : ∃ G, X = some G ∧ Holds G σ) :
    ∃ G, meet X Y = some G ∧ Holds G σ := by
  obtain ⟨G, rfl, hG⟩ := h
  cases Y with
  | none => exact ⟨G, rfl, hG⟩
  | some B => exact meet_some_left G B σ hG

theorem meet_right {X Y : Option Facts} {σ : State} (h : ∃ G, Y = some G ∧ Holds G σ) :
    ∃ G, meet X Y = some G ∧ Holds G σ := by
  obtain ⟨G, rfl, hG⟩ := h
  cases X with
  | none => exact ⟨G, rfl, hG⟩
  | some A => exact meet_some_right A G σ hG

theorem inconsistent_sound (F : Facts) (σ : State) (hF : Holds F σ) : inconsistent F = false := by
  cases h' : inconsistent F with
  | false => rfl
  | true =>
    exfalso
    unfold inconsistent at h'
    simp only [List.any_eq_true] at h'
    obtain ⟨a, ha, hz⟩ := h'
    have hc := closure_sound F σ hF
    cases a <;> simp at hz
    rename_i x
    have h1 := hc _ ha
    have h2 := entailsA_sound _ σ hc _ hz
    simp [Atom.eval] at h1 h2
    exact h1 h2

-- ------------------------------------------------------------------ frame: a run changes only assigned variables

def stOf : Flow → State
  | .norm σ => σ
  | .retd σ => σ

theorem setMany_other (outs : List Var) : ∀ (σ : State) (vals : List Nat) (y : Var), y ∉ outs → setMany σ outs vals y = σ y := by
  induction outs with
  | nil => intro σ vals y _; simp [setMany]
  | cons x xs ih =>
    intro σ vals y hy
    have hyx : y ≠ x := fun h => hy (h ▸ List.mem_cons_self ..)
    have hyxs : y ∉ xs := fun h => hy (List.mem_cons_of_mem _ h)
    cases vals with
    | nil => simp only [setMany]; rw [ih _ _ y hyxs, set_other σ x y 0 hyx]
    | cons v vs => simp only [setMany]; rw [ih _ _ y hyxs, set_other σ x y v hyx]

def Frame (P : Prog) (O : Oracle) (n : Nat) : Prop :=
  ∀ m s L σ fl, assigned P m s = some L → run P O n s σ = .ok fl → ∀ y, y ∉ L → stOf fl y = σ y

theorem frame_step (P : Prog) (O : Oracle) (n : Nat) (ih : Frame P O n) : Frame P O (n + 1) := by
  intro m s L σ fl ha hr y hy
  cases m with
  | zero => simp [assigned] at ha
  | succ m =>
  cases s with
  | skip => simp only [run, Except.ok.injEq] at hr; subst hr; rfl
  | seq a b =>
    simp only [assigned] at ha
    simp only [run] at hr
    cases haa : assigned P m a with
    | none => simp [haa] at ha
    | some La =>
      cases hab : assigned P m b with
      | none => simp [haa, hab] at ha
      | some Lb =>
        simp only [haa, hab, Option.some.injEq] at ha
        subst ha
        have hya : y ∉ La := fun h => hy (List.mem_append_left _ h)
        have hyb : y ∉ Lb := fun h => hy (List.mem_append_right _ h)
        generalize hra : run P O n a σ = ra at hr
        match ra, hr with
        | .ok (.norm σ'), hr =>
          simp only at hr
          have h1 := ih m a La σ _ haa hra y hya
          have h2 := ih m b Lb σ' fl hab hr y hyb
          simp only [stOf] at h1
          rw [h2, h1]
        | .ok (.retd σ'), hr =>
          simp only [Except.ok.injEq] at hr
          subst hr
          exact ih m a La σ _ haa hra y hya
        | .error e, hr => simp at hr
  | site kind text req =>
    simp only [run] at hr
    cases req with
    | none => simp only [Except.ok.injEq] at hr; subst hr; rfl
    | some a =>
      simp only at hr
      split at hr
      · simp only [Except.ok.injEq] at hr; subst hr; rfl
      · simp at hr
  | call f outs ens =>
    simp only [assigned, Option.some.injEq] at ha
    subst ha
    simp only [run] at hr
    split at hr
    · simp only [Except.ok.injEq] at hr; subst hr
      exact setMany_other outs σ _ y hy
    · simp at hr
  | set x a =>
    simp only [assigned, Option.some.injEq] at ha
    subst ha
    simp only [run, Except.ok.injEq] at hr
    subst hr
    exact set_other σ x y _ (fun h => hy (h ▸ List.mem_singleton.mpr rfl))
  | ite c t e =>
    simp only [assigned] at ha
    simp only [run] at hr
    cases hat : assigned P m t with
    | none => simp [hat] at ha
    | some Lt =>
      cases hae : assigned P m e with
      | none => simp [hat, hae] at ha
      | some Le =>
        simp only [hat, hae, Option.some.injEq] at ha
        subst ha
        split at hr
        · exact ih m t Lt σ fl hat hr y (fun h => hy (List.mem_append_left _ h))
        · exact ih m e Le σ fl hae hr y (fun h => hy (List.mem_append_right _ h))
  | loop i cnt inv body =>
    simp only [run] at hr
    simp only [assigned] at ha
    exact ih (m + 1) (.iter i cnt 0 body) L σ fl (by simpa [assigned] using ha) hr y hy
  | iter i cnt k body =>
    simp only [assigned] at ha
    cases hab : assigned P m body with
    | none => simp [hab] at ha
    | some Lb =>
      simp only [hab, Option.map_some, Option.some.injEq] at ha
      subst ha
      have hyi : y ≠ i := fun h => hy (h ▸ List.mem_cons_self ..)
      have hyb : y ∉ Lb := fun h => hy (List.mem_cons_of_mem _ h)
      simp only [run] at hr
      split at hr
      · generalize hrb : run P O n body (σ.set i k) = rb at hr
        match rb, hr with
        | .ok (.norm σ'), hr =>
          simp only at hr
          have h1 := ih m body Lb _ _ hab hrb y hyb
          have h2 := ih (m + 1) (.iter i cnt (k + 1) body) (i :: Lb) σ' fl (by simp [assigned, hab]) hr y hy
          simp only [stOf] at h1
          rw [h2, h1, set_other σ i y k hyi]
        | .ok (.retd σ'), hr =>
          simp only [Except.ok.injEq] at hr
          subst hr
          have h1 := ih m body Lb _ _ hab hrb y hyb
          simp only [stOf] at h1 ⊢
          rw [h1, set_other σ i y k hyi]
        | .error e, hr => simp at hr
      · simp only [Except.ok.injEq] at hr; subst hr; rfl
  | invoke f =>
    simp only [assigned] at ha
    simp only [run] at hr
    cases hP : P f with
    | none => simp [hP] at hr
    | some body =>
      simp only [hP] at ha hr
      generalize hrb : run P O n body σ = rb at hr
      match rb, hr with
      | .ok (.norm σ'), hr =>
        simp only [Except.ok.injEq] at hr; subst hr
        exact ih m body L σ _ ha hrb y hy
      | .ok (.retd σ'), hr =>
        simp only [Except.ok.injEq] at hr; subst hr
        exact ih m body L σ _ ha hrb y hy
      | .error e, hr => simp at hr
  | scope body =>
    simp only [assigned] at ha
    simp only [run] at hr
    generalize hrb : run P O n body σ = rb at hr
    match rb, hr with
    | .ok (.norm σ'), hr =>
      simp only [Except.ok.injEq] at hr; subst hr
      exact ih m body L σ _ ha hrb y hy
    | .ok (.retd σ'), hr =>
      simp only [Except.ok.injEq] at hr; subst hr
      exact ih m body L σ _ ha hrb y hy
    | .error e, hr => simp at hr
  | ret => simp only [run, Except.ok.injEq] at hr; subst hr; rfl

theorem frame (P : Prog) (O : Oracle) : ∀ n, Frame P O n := by
  intro n
  induction n with
  | zero => intro m s L σ fl _ hr; simp [run] at hr
  | succ n ih => exact frame_step P O n ih

-- ------------------------------------------------------------------ main theorem

/-- what `check`'s answer promises about a run -/
def Post (r : Except Fault Flow) (Fn Fr : Option Facts) : Prop :=
  match r with
  | .error (.panic _ _) => False
  | .error _ => True
  | .ok (.norm σ') => ∃ G, Fn = some G ∧ Holds G σ'
  | .ok (.retd σ') => ∃ G, Fr = some G ∧ Holds G σ'

def Main (P : Prog) (X I : Nat → List Var) (C : Nat → Bool) (O : Oracle) (n : Nat) : Prop :=
  ∀ m F s Fn Fr σ, check P X I C m F s = some (Fn, Fr) → Holds F σ → Post (run P O n s σ) Fn Fr

def IterOK (P : Prog) (X I : Nat → List Var) (C : Nat → Bool) (O : Oracle) (n : Nat) : Prop :=
  ∀ m m' i cnt inv body L (Fk : Facts) Bn Br k σ,
    assigned P m' body = some L →
    (∀ c ∈ Fk, ∀ x ∈ c.vars, x ≠ i ∧ x ∉ L) →
    check P X I C m (sat (union (union Fk (inv.map fact)) [fact (.lt i cnt)])) body = some (Bn, Br) →
    invKept inv Bn = true →
    (∀ a ∈ inv, i ∉ a.vars) → i ≠ cnt → Holds Fk σ → HoldsA inv σ →
    Post (run P O n (.iter i cnt k body) σ) (some (union Fk (inv.map fact))) Br

theorem post_mono_ret {r : Except Fault Flow} {Fn Fr Fr' : Option Facts}
    (h : Post r Fn Fr) (hr : ∀ σ, (∃ G, Fr = some G ∧ Holds G σ) → ∃ G, Fr' = some G ∧ Holds G σ) :
    Post r Fn Fr' := by
  match r, h with
  | .ok (.norm σ'), h => exact h
  | .ok (.retd σ'), h => exact hr σ' h
  | .error (.panic x y), h => exact absurd h (by simp [Post])
  | .error (.contract f), _ => simp [Post]
  | .error .fuel, _ => simp [Post]
  | .error (.unknownFn f), _ => simp [Post]

theorem iter_step (P : Prog) (X I : Nat → List Var) (C : Nat → Bool) (O : Oracle) (n : Nat) (hM : Main P X I C O n) (hI : IterOK P X I C O n) : IterOK P X I C O (n + 1) := by
  intro m m' i cnt inv body L Fk Bn Br k σ hasg hFk hchk hBn hi hne hk0 hinv
  simp only [run]
  by_cases hk : k < σ cnt
  · simp only [hk, if_true]
    have hinv1 : HoldsA inv (σ.set i k) := by
      intro a ha
      rw [atom_congr a (σ.set i k) σ (fun y hy => set_other σ i y k (fun h => hi a ha (h ▸ hy)))]
      exact hinv a ha
    have hk1 : Holds Fk (σ.set i k) := by
      intro c hc
      rw [clause_congr c (σ.set i k) σ (fun y hy => set_other σ i y k (hFk c hc y hy).1)]
      exact hk0 c hc
    have hF0 : Holds (sat (union (union Fk (inv.map fact)) [fact (.lt i cnt)])) (σ.set i k) := by
      apply sat_holds
      apply holds_union
      · exact holds_union hk1 ((holds_facts inv _).mpr hinv1)
      · intro c hc
        simp only [List.mem_singleton] at hc
        subst hc
        rw [fact_eval]
        simp [Atom.eval, set_same, set_other σ i cnt k (Ne.symm hne), hk]
    have hb := hM m _ body Bn Br (σ.set i k) hchk hF0
    generalize hr : run P O n body (σ.set i k) = r at hb
    match r, hb with
    | .ok (.norm σ'), hb =>
      simp only
      obtain ⟨G, hG1, hG2⟩ := hb
      subst hG1
      have hinv' := all_entails_sound G σ' hG2 inv (by simpa [invKept] using hBn)
      have hfr := frame P O n m' body L (σ.set i k) _ hasg hr
      have hk' : Holds Fk σ' := by
        intro c hc
        rw [clause_congr c σ' (σ.set i k) (fun y hy => by
          have := hfr y (hFk c hc y hy).2
          simpa [stOf] using this)]
        exact hk1 c hc
      exact hI m m' i cnt inv body L Fk (some G) Br (k + 1) σ' hasg hFk hchk hBn hi hne hk' hinv'
    | .ok (.retd σ'), hb => simpa [Post] using hb
    | .error (.panic a b), hb => exact absurd hb (by simp [Post])
    | .error (.contract f), _ => simp [Post]
    | .error .fuel, _ => simp [Post]
    | .error (.unknownFn f), _ => simp [Post]
  · simp only [hk, if_false]
    exact ⟨_, rfl, holds_union hk0 ((holds_facts inv σ).mpr hinv)⟩

theorem main_step (P : Prog) (X I : Nat → List Var) (C : Nat → Bool) (hC : ClosedOK P X I C) (O : Oracle) (n : Nat) (hM : Main P X I C O n) (hI : IterOK P X I C O n) : Main P X I C O (n + 1) := by
  intro m F s Fn Fr σ hchk hF
  cases m with
  | zero => simp [check] at hchk
  | succ m =>
  cases s with
  | skip =>
    simp only [check, Option.some.injEq, Prod.mk.injEq] at hchk
    obtain ⟨rfl, rfl⟩ := hchk
    simp only [run]; exact ⟨F, rfl, hF⟩
  | seq a b =>
    simp only [check] at hchk
    simp only [run]
    generalize hca : check P X I C m F a = ca at hchk
    match ca, hchk with
    | some (none, Fr1), hchk =>
      simp only [Option.some.injEq, Prod.mk.injEq] at hchk
      obtain ⟨rfl, rfl⟩ := hchk
      have ha := hM m F a _ _ σ hca hF
      generalize hr : run P O n a σ = r at ha
      match r, ha with
      | .ok (.norm σ'), ha => obtain ⟨G, hG, _⟩ := ha; simp at hG
      | .ok (.retd σ'), ha => simpa [Post] using ha
      | .error (.panic x y), ha => exact absurd ha (by simp [Post])
      | .error (.contract f), _ => simp [Post]
      | .error .fuel, _ => simp [Post]
      | .error (.unknownFn f), _ => simp [Post]
    | some (some G, Fr1), hchk =>
      simp only at hchk
      generalize hcb : check P X I C m G b = cb at hchk
      match cb, hchk with
      | some (Gn, Gr), hchk =>
        simp only [Option.some.injEq, Prod.mk.injEq] at hchk
        obtain ⟨rfl, rfl⟩ := hchk
        have ha := hM m F a _ _ σ hca hF
        generalize hr : run P O n a σ = r at ha
        match r, ha with
        | .ok (.norm σ'), ha =>
          simp only
          obtain ⟨G', hG', hG2⟩ := ha
          simp only [Option.some.injEq] at hG'
          subst hG'
          have hb := hM m _ b _ _ σ' hcb hG2
          exact post_mono_ret hb (fun τ h => meet_right h)
        | .ok (.retd σ'), ha =>
          simp only [Post] at ha ⊢
          exact meet_left ha
        | .error (.panic x y), ha => exact absurd ha (by simp [Post])
        | .error (.contract f), _ => simp [Post]
        | .error .fuel, _ => simp [Post]
        | .error (.unknownFn f), _ => simp [Post]
  | site kind text req =>
    simp only [check] at hchk
    simp only [run]
    cases req with
    | none =>
      simp only [Option.some.injEq, Prod.mk.injEq] at hchk
      obtain ⟨rfl, rfl⟩ := hchk
      exact ⟨F, rfl, hF⟩
    | some a =>
      simp only at hchk ⊢
      by_cases he : entails F a = true
      · simp only [he, if_true, Option.some.injEq, Prod.mk.injEq] at hchk
        obtain ⟨rfl, rfl⟩ := hchk
        have := entails_sound F σ hF a he
        simp only [this, if_true]
        exact ⟨F, rfl, hF⟩
      · simp [he] at hchk
  | call f outs ens =>
    simp only [check, Option.some.injEq, Prod.mk.injEq] at hchk
    obtain ⟨rfl, rfl⟩ := hchk
    simp only [run]
    by_cases hens : ens.all (·.eval (setMany σ outs (O f σ))) = true
    · simp only [hens, if_true]
      refine ⟨_, rfl, ?_⟩
      exact sat_holds _ _ (holds_union (killAll_holds outs F σ _ hF) (fun c hc => List.all_eq_true.mp hens c hc))
    · simp only [hens]
      simp [Post]
  | set x a =>
    simp only [check] at hchk
    simp only [run]
    have hk := kill_holds F σ x (a.eval σ) hF
    cases a with
    | k v =>
      simp only [Option.some.injEq, Prod.mk.injEq] at hchk
      obtain ⟨rfl, rfl⟩ := hchk
      refine ⟨_, rfl, ?_⟩
      apply sat_holds
      refine holds_union hk ?_
      intro c hc
      simp only [List.mem_singleton] at hc
      subst hc
      simp [fact_eval, Atom.eval, Arg.eval, set_same]
    | v y =>
      simp only at hchk
      by_cases hy : y = x
      · simp only [hy, if_true, Option.some.injEq, Prod.mk.injEq] at hchk
        obtain ⟨rfl, rfl⟩ := hchk
        exact ⟨_, rfl, hk⟩
      · simp only [hy, if_false, Option.some.injEq, Prod.mk.injEq] at hchk
        obtain ⟨rfl, rfl⟩ := hchk
        refine ⟨_, rfl, ?_⟩
        apply sat_holds
        refine holds_union hk ?_
        intro c hc
        simp only [List.mem_singleton] at hc
        subst hc
        simp [fact_eval, Atom.eval, Arg.eval, set_same, set_other σ x y _ hy]
  | ite c t e =>
    simp only [check] at hchk
    simp only [run]
    have hcs := cond_sound F σ hF c
    generalize hct : (if inconsistent (sat (union F ((c.pos F).map fact))) then some (none, none)
      else check P X I C m (sat (union F ((c.pos F).map fact))) t) = ct at hchk
    generalize hce : (if inconsistent (sat (union F ((c.neg F).map fact))) then some (none, none)
      else check P X I C m (sat (union F ((c.neg F).map fact))) e) = ce at hchk
    match ct, ce, hchk with
    | some (Tn, Tr), some (En, Er), hchk =>
      simp only [Option.some.injEq, Prod.mk.injEq] at hchk
      obtain ⟨rfl, rfl⟩ := hchk
      by_cases hc : c.eval σ = true
      · simp only [hc, if_true]
        have hF' : Holds (sat (union F ((c.pos F).map fact))) σ := sat_holds _ _ (holds_union hF ((holds_facts _ σ).mpr (hcs.1 hc)))
        rw [inconsistent_sound _ σ hF'] at hct
        simp only [Bool.false_eq_true, if_false] at hct
        have ht := hM m _ t _ _ σ hct hF'
        generalize run P O n t σ = r at ht
        match r, ht with
        | .ok (.norm σ'), ht => exact meet_left ht
        | .ok (.retd σ'), ht => exact meet_left ht
        | .error (.panic x y), ht => exact absurd ht (by simp [Post])
        | .error (.contract f), _ => simp [Post]
        | .error .fuel, _ => simp [Post]
        | .error (.unknownFn f), _ => simp [Post]
      · have hc' : c.eval σ = false := by simpa using hc
        simp only [hc', Bool.false_eq_true, if_false]
        have hF' : Holds (sat (union F ((c.neg F).map fact))) σ := sat_holds _ _ (holds_union hF ((holds_facts _ σ).mpr (hcs.2 hc')))
        rw [inconsistent_sound _ σ hF'] at hce
        simp only [Bool.false_eq_true, if_false] at hce
        have he := hM m _ e _ _ σ hce hF'
        generalize run P O n e σ = r at he
        match r, he with
        | .ok (.norm σ'), he => exact meet_right he
        | .ok (.retd σ'), he => exact meet_right he
        | .error (.panic x y), he => exact absurd he (by simp [Post])
        | .error (.contract f), _ => simp [Post]
        | .error .fuel, _ => simp [Post]
        | .error (.unknownFn f), _ => simp [Post]
  | loop i cnt inv body =>
    simp only [check] at hchk
    simp only [run]
    cases hasg : assigned P m body with
    | none => simp [hasg] at hchk
    | some L =>
      simp only [hasg] at hchk
      split at hchk
      · simp at hchk
      · rename_i h1
        split at hchk
        · simp at hchk
        · rename_i h2
          split at hchk
          · simp at hchk
          · rename_i Bn Br hcb
            split at hchk
            · rename_i hok
              simp only [Option.some.injEq, Prod.mk.injEq] at hchk
              obtain ⟨rfl, rfl⟩ := hchk
              have h1' : inv.all (entails F) = true := by simpa using h1
              have h2' : (∀ a ∈ inv, i ∉ a.vars) ∧ i ≠ cnt := by
                simp only [Bool.or_eq_true, not_or, List.any_eq_true, not_exists, not_and] at h2
                refine ⟨fun a ha => ?_, ?_⟩
                · have := h2.1 a ha; simpa using this
                · have := h2.2; simpa using this
              refine hI m m i cnt inv body L _ Bn Br 0 σ hasg ?_ hcb hok h2'.1 h2'.2 ?_ (all_entails_sound F σ hF inv h1')
              · intro c hc x hx
                have := (List.mem_filter.mp hc).2
                simp only [Bool.not_eq_true', List.any_eq_false, Bool.or_eq_false_iff] at this
                have hx' := this x hx
                simp only [Bool.or_eq_true, not_or] at hx'
                constructor
                · intro h; apply hx'.1; simp [h]
                · intro h; apply hx'.2; simpa using h
              · exact fun c hc => hF c (List.mem_filter.mp hc).1
            · simp at hchk
  | iter i cnt k body => simp [check] at hchk
  | invoke f =>
    simp only [check] at hchk
    simp only [run]
    cases hP : P f with
    | none => simp [hP] at hchk
    | some body =>
      simp only [hP] at hchk ⊢
      cases hasg : assigned P m body with
      | none => simp [hasg] at hchk
      | some L =>
        simp only [hasg] at hchk
        have hfr := frame P O n m body L σ
        have hkeep : ∀ fl, run P O n body σ = .ok fl →
            Holds (F.filter (fun c => !(c.vars.any (fun x => L.contains x)))) (stOf fl) := by
          intro fl hrun c hc
          obtain ⟨hc1, hc2⟩ := List.mem_filter.mp hc
          rw [clause_congr c (stOf fl) σ (fun y hy => by
            apply hfr fl hasg hrun y
            intro hyL
            simp only [Bool.not_eq_true', List.any_eq_false] at hc2
            have := hc2 y hy
            simp [hyL] at this)]
          exact hF c hc1
        by_cases hcl : C f = true
        · -- closed function: safe from no assumptions
          simp only [hcl, if_true, Option.some.injEq, Prod.mk.injEq] at hchk
          obtain ⟨rfl, rfl⟩ := hchk
          obtain ⟨body', m', hP', hok⟩ := hC f hcl
          rw [hP] at hP'
          simp only [Option.some.injEq] at hP'
          subst hP'
          cases hck : check P X I C m' [] body with
          | none => simp [hck] at hok
          | some R0 =>
            obtain ⟨Bn0, Br0⟩ := R0
            have hb := hM m' [] body Bn0 Br0 σ hck (fun c hc => by simp at hc)
            generalize hr : run P O n body σ = r at hb hkeep
            match r, hb with
            | .ok (.norm σ'), _ => exact ⟨_, rfl, hkeep _ rfl⟩
            | .ok (.retd σ'), _ => exact ⟨_, rfl, hkeep _ rfl⟩
            | .error (.panic x y), hb => exact absurd hb (by simp [Post])
            | .error (.contract f), _ => simp [Post]
            | .error .fuel, _ => simp [Post]
            | .error (.unknownFn f), _ => simp [Post]
        · simp only [hcl, Bool.false_eq_true, if_false] at hchk
          generalize hcb : check P X I C m (F.filter (fun c => c.vars.all (fun x => (I f).contains x))) body = cb at hchk
          match cb, hchk with
          | some (Bn, Br), hchk =>
            simp only at hchk
            have hFin : Holds (F.filter (fun c => c.vars.all (fun x => (I f).contains x))) σ :=
              fun c hc => hF c (List.mem_filter.mp hc).1
            have hb := hM m _ body _ _ σ hcb hFin
            generalize hr : run P O n body σ = r at hb hkeep
            have hfin : ∀ σ', (∃ G, meet Bn Br = some G ∧ Holds G σ') →
                Holds (F.filter (fun c => !(c.vars.any (fun x => L.contains x)))) σ' →
                ∃ G, Fn = some G ∧ Holds G σ' := by
              intro σ' ⟨G, hG1, hG2⟩ hk
              rw [hG1] at hchk
              simp only [Option.some.injEq, Prod.mk.injEq] at hchk
              refine ⟨_, hchk.1.symm, ?_⟩
              apply sat_holds
              exact holds_union hk (fun c hc => hG2 c (List.mem_filter.mp hc).1)
            match r, hb with
            | .ok (.norm σ'), hb => exact hfin σ' (meet_left hb) (hkeep _ rfl)
            | .ok (.retd σ'), hb => exact hfin σ' (meet_right hb) (hkeep _ rfl)
            | .error (.panic x y), hb => exact absurd hb (by simp [Post])
            | .error (.contract f), _ => simp [Post]
            | .error .fuel, _ => simp [Post]
            | .error (.unknownFn f), _ => simp [Post]
  | scope body =>
    simp only [check] at hchk
    simp only [run]
    generalize hcb : check P X I C m F body = cb at hchk
    match cb, hchk with
    | some (Bn, Br), hchk =>
      simp only [Option.some.injEq, Prod.mk.injEq] at hchk
      obtain ⟨rfl, rfl⟩ := hchk
      have hb := hM m F body _ _ σ hcb hF
      generalize run P O n body σ = r at hb
      match r, hb with
      | .ok (.norm σ'), hb => exact meet_left hb
      | .ok (.retd σ'), hb => exact meet_right hb
      | .error (.panic x y), hb => exact absurd hb (by simp [Post])
      | .error (.contract f), _ => simp [Post]
      | .error .fuel, _ => simp [Post]
      | .error (.unknownFn f), _ => simp [Post]
  | ret =>
    simp only [check, Option.some.injEq, Prod.mk.injEq] at hchk
    obtain ⟨rfl, rfl⟩ := hchk
    simp only [run]; exact ⟨F, rfl, hF⟩

theorem main_and_iter (P : Prog) (X I : Nat → List Var) (C : Nat → Bool) (hC : ClosedOK P X I C) (O : Oracle) : ∀ n, Main P X I C O n ∧ IterOK P X I C O n := by
  intro n
  induction n with
  | zero =>
    constructor
    · intro m F s Fn Fr σ _ _; simp [run, Post]
    · intro m m' i cnt inv body L Fk Bn Br k σ _ _ _ _ _ _ _ _; simp [run, Post]
  | succ n ih => exact ⟨main_step P X I C hC O n ih.1 ih.2, iter_step P X I C O n ih.1 ih.2⟩

/-- SOUNDNESS: a skeleton accepted by the checker never panics. -/
theorem check_sound (P : Prog) (X I : Nat → List Var) (C : Nat → Bool) (hC : ClosedOK P X I C) (O : Oracle) (n m : Nat) (F : Facts) (s : Stmt) (Fn Fr : Option Facts) (σ : State)
    (hc : check P X I C m F s = some (Fn, Fr)) (hF : Holds F σ) : Post (run P O n s σ) Fn Fr :=
  (main_and_iter P X I C hC O n).1 m F s Fn Fr σ hc hF

/-- corollary used by the property theorems: accepted from no assumptions ⇒ never `Fault.panic` -/
theorem safe_never_panics (P : Prog) (X I : Nat → List Var) (C : Nat → Bool) (hC : ClosedOK P X I C) (s : Stmt) (fuel : Nat) (h : safe P X I C fuel s = true)
    (O : Oracle) (n : Nat) (σ : State) (kind text : String) : run P O n s σ ≠ .error (.panic kind text) := by
  unfold safe at h
  cases hc : check P X I C fuel [] s with
  | none => simp [hc] at h
  | some r =>
    obtain ⟨Fn, Fr⟩ := r
    have := check_sound P X I C hC O n fuel [] s Fn Fr σ hc (fun c hc => by simp at hc)
    intro heq
    rw [heq] at this
    exact this

end MW.Lemmas.ApiSound
