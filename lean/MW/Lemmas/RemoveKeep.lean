/-
  C08, the D45 repair as an invariant of the removal steps, for ARBITRARY stores: "Rollback reaches whatever is left".

  TxStore.Rollback undoes a block through its block record → the tx records listed there → the credits / debits keyed
  by (tx id, block).  A credit or a debit whose transaction has no tx record is out of its reach for ever.  `Reach s`:
  every credit and every debit of the store has the tx record of its transaction (creator resp. spender).  It holds of
  every store that satisfies C01's invariant (`inv_reach`: `credit_txrec`, `debit_txrec`) and — since the repair — every
  transaction of asyncRemove keeps it (`rrt_reach`, `removeStep_reach`, `run_reach`), whatever the step size, however
  many steps the removal takes.  Before the repair the first step of `MW.Lemmas.RemoveMidCex` broke it (the debit
  (X3, B2, 0) lost X3's record: `RemoveMidCex.Unrepaired`).
-/
import MW.Lemmas.RemoveMain
namespace MW.Lemmas.RemoveKeep
open MW MW.Model.Ledger MW.Model.Remove MW.Spec.Chain MW.Spec.Books MW.Lemmas.Ledger MW.Lemmas.RemoveChar
  MW.Lemmas.RemoveBooks MW.Lemmas.RemoveMain

/-- every credit / debit record has the tx record of its transaction (same tx id, same block) -/
structure Reach (s : Store) : Prop where
  credits : ∀ ck cr, AMap.get s.credits ck = some cr → (AMap.get s.txrecs (ck.tx, ck.blk)).isSome = true
  debits : ∀ dk d, AMap.get s.debits dk = some d → (AMap.get s.txrecs (dk.tx, dk.blk)).isSome = true

/-- C01's invariant gives `Reach` -/
theorem inv_reach {c : Ctx} {s : Store} {chain : List Block} (hI : Inv c s chain) (hV : ChainValid c.own chain) :
    Reach s := by
  constructor
  · intro ck cr h
    rw [hI.agree.credits] at h
    obtain ⟨loc, hl⟩ := credit_txrec hV h
    rw [hI.agree.txrecs, hl]; rfl
  · intro dk d h
    rw [hI.agree.debits] at h
    obtain ⟨loc, hl⟩ := debit_txrec hV h
    rw [hI.agree.txrecs, hl]; rfl

theorem inUse_of_credit {s : Store} {ck : CredKey} {cr : Credit} (h : AMap.get s.credits ck = some cr) :
    inUse s (ck.tx, ck.blk) = true := by
  unfold inUse
  simp only [Bool.or_eq_true, List.any_eq_true, Bool.and_eq_true, decide_eq_true_eq]
  exact Or.inl ⟨(ck, cr), get_mem h, rfl, rfl⟩

theorem inUse_of_debit {s : Store} {dk : CredKey} {d : Nat × CredKey} (h : AMap.get s.debits dk = some d) :
    inUse s (dk.tx, dk.blk) = true := by
  unfold inUse
  simp only [Bool.or_eq_true, List.any_eq_true, Bool.and_eq_true, decide_eq_true_eq]
  exact Or.inr ⟨(dk, d), get_mem h, rfl, rfl⟩

/-- one RemoveRelevantTx keeps `Reach`: a tx record goes only when no credit / debit under its key is left -/
theorem rrt_reach (limit : Nat) (c : Ctx) (s : Store) (addrs : List Addr) (o : StepOut) (hne : addrs ≠ [])
    (h : removeRelevantTx limit c s addrs = some o) (hR : Reach s) : Reach o.s := by
  obtain ⟨DEL, HOF, ERA, hC⟩ := rrt_char limit c s addrs o hne h
  constructor
  · intro ck cr hg
    have hgs : AMap.get s.credits ck = some cr := by
      have := hC.credits ck
      rw [hg] at this
      by_cases hk : ck ∈ DEL.map (·.1)
      · rw [if_pos hk] at this; cases this
      · rw [if_neg hk] at this; exact this.symm
    rw [hC.txrecs]
    by_cases hk : (ck.tx, ck.blk) ∈ ERA
    · have := (hC.sound _ hk).2.1
      rw [inUse_of_credit hg] at this; cases this
    · rw [if_neg hk]; exact hR.credits ck cr hgs
  · intro dk d hg
    have hgs : AMap.get s.debits dk = some d := by
      have := hC.debits dk
      rw [hg] at this
      by_cases hk : dk ∈ DEL.filterMap (fun e => spKey e.2)
      · rw [if_pos hk] at this; cases this
      · rw [if_neg hk] at this; exact this.symm
    rw [hC.txrecs]
    by_cases hk : (dk.tx, dk.blk) ∈ ERA
    · have := (hC.sound _ hk).2.1
      rw [inUse_of_debit hg] at this; cases this
    · rw [if_neg hk]; exact hR.debits dk d hgs

/-- one transaction of asyncRemove (finishing or not) keeps `Reach` -/
theorem removeStep_reach (limit : Nat) (c : Ctx) (w : Wid) (addrs : List Addr) (s : Store) (o : StepOut)
    (hne : addrs ≠ []) (h : removeStep limit c w addrs s = some o) (hR : Reach s) : Reach o.s := by
  cases hf : o.finish with
  | false => exact rrt_reach limit c s addrs o hne (removeStep_parked h hf) hR
  | true =>
    obtain ⟨o1, h1, _, hos⟩ := removeStep_finish h hf
    have := rrt_reach limit c s addrs o1 hne h1 hR
    rw [hos]
    exact ⟨this.credits, this.debits⟩

/-- the worker loop: every store it goes through, and the one it ends with, satisfies `Reach` -/
theorem run_reach (limit : Nat) (c : Ctx) (w : Wid) (addrs : List Addr) (hne : addrs ≠ []) (n : Nat) {s s' : Store}
    (hR : Reach s) (h : run limit c w addrs n s = .done s') : Reach s' := by
  induction n generalizing s with
  | zero => simp [run] at h
  | succ n ih =>
    unfold run at h
    cases hstep : removeStep limit c w addrs s with
    | none => simp [hstep] at h
    | some o =>
      simp only [hstep] at h
      have hR' := removeStep_reach limit c w addrs s o hne hstep hR
      by_cases hfin : o.finish = true
      · simp only [hfin, if_true, RunRes.done.injEq] at h
        subst h
        exact hR'
      · simp only [hfin, Bool.false_eq_true, if_false] at h
        exact ih hR' h

end MW.Lemmas.RemoveKeep
