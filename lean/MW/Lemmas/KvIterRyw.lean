/-
  Round 4: the iterator INSIDE a write transaction against the read-your-writes view.

  `iter_write_shape` (MW.Lemmas.KvIterW) says what it yields: the committed entries of the range, then
  the batch's net puts in the range.  Here:
  * the limit NewIterator computes is never nil (`iterBounds_limit_some`);
  * `iterW_superset`: every entry of the read-your-writes view in the range has its KEY yielded
    (no false negative – what ExistCreditFromTx needs);
  * `iterW_ryw`: if the batch has neither deleted nor (re-)put a committed key of the range
    (`RangeUntouched`), the yielded entries, sorted by key, ARE the range of the store the
    transaction would commit – each entry once; sufficient conditions: an empty batch, or a batch
    that touched no key of the range.
-/
import MW.Lemmas.KvIterW
import MW.Lemmas.KvSim
import MW.Lemmas.KvPrefix
namespace MW.Model.KV
open MW MW.KV

theorem clampLimit_some (s x : Bytes) : ∃ y, clampLimit s (some x) = some y := by
  simp only [clampLimit]
  by_cases h : blt x s = true
  · exact ⟨s, by simp [h]⟩
  · exact ⟨x, by simp [h]⟩

theorem iterBounds_limit_some (b : Bucket) (st l : Bytes) : ∃ lim, (b.iterBounds st l).2 = some lim := by
  unfold Bucket.iterBounds
  simp only
  by_cases hl : (l.length == 0) = true
  · have hnil : l = [] := List.length_eq_zero_iff.mp (by simpa using hl)
    subst hnil
    simp only [List.length_nil, BEq.rfl, if_true]
    have : ∃ x, bytesPrefixLimit (b.innerKeyForIterator []) = some x := by
      unfold bytesPrefixLimit Bucket.innerKeyForIterator
      simp only [List.reverse_append, List.reverse_cons, List.reverse_nil, List.nil_append, List.singleton_append]
      have hs : sep < 0xff := by decide
      simp only [incLast, hs, if_true, Option.map_some]
      exact ⟨_, rfl⟩
    obtain ⟨x, hx⟩ := this
    rw [hx]
    exact clampLimit_some _ _
  · simp only [hl, Bool.false_eq_true, if_false]
    exact clampLimit_some _ _

/-- the entries a fresh iterator inside a write transaction yields (before the final `false`) -/
def iterWEntries (tx : Tx) (s' lim : Bytes) : List (Bytes × Bytes) :=
  tx.db.range s' (some lim) ++ (tx.b.netPuts []).filter fun e => ble s' e.1 && blt e.1 lim

/-- the batch has neither deleted nor put any committed key of the range -/
def RangeUntouched (tx : Tx) (s' lim : Bytes) : Prop :=
  ∀ e ∈ tx.db.range s' (some lim), tx.b.get e.1 = (none, false)

theorem commit_mem_iff {tx : Tx} (h : tx.Inv) (hw : tx.readOnly = false) (k v : Bytes) :
    (k, v) ∈ tx.commit ↔ view tx.db tx.b k = some v := by
  have hc : tx.commit = applyLog tx.db tx.b.log := by simp [Tx.commit, hw]
  constructor
  · intro hm
    have := SMap.get_of_mem (Tx.commit_sorted h) hm
    rw [hc, h.batch.viewOk] at this; exact this
  · intro hv
    apply SMap.mem_of_get
    rw [hc, h.batch.viewOk]; exact hv

/-- no false negative: every entry of the read-your-writes view in the range has its key among
    the yielded entries (with the committed value first if the transaction overwrote it) -/
theorem iterW_superset {tx : Tx} (h : tx.Inv) (hw : tx.readOnly = false) (s' lim : Bytes) :
    ∀ e ∈ tx.commit.range s' (some lim), ∃ e' ∈ iterWEntries tx s' lim, e'.1 = e.1 := by
  intro e he
  obtain ⟨k, v⟩ := e
  rw [SMap.mem_range] at he
  obtain ⟨hm, hs, hl⟩ := he
  simp only at hl hs
  have hv := (commit_mem_iff h hw k v).mp hm
  unfold view at hv
  unfold iterWEntries
  rcases Batch.get_cases tx.b k with hg | ⟨v', hg⟩ | hg
  · rw [hg] at hv; cases hv
  · rw [hg] at hv
    simp only [Option.some.injEq] at hv
    subst hv
    refine ⟨(k, v'), List.mem_append_right _ ?_, rfl⟩
    rw [List.mem_filter]
    exact ⟨(Batch.mem_netPuts h.batch [] k v').mpr ⟨List.nil_prefix, hg⟩, by simp [hs, hl]⟩
  · rw [hg] at hv
    simp only at hv
    refine ⟨(k, v), List.mem_append_left _ ?_, rfl⟩
    rw [SMap.mem_range]
    exact ⟨SMap.mem_of_get hv, hs, hl⟩

/-- under `RangeUntouched` the yielded entries are exactly the entries of the view's range -/
theorem iterW_mem_iff {tx : Tx} (h : tx.Inv) (hw : tx.readOnly = false) (s' lim : Bytes)
    (hu : RangeUntouched tx s' lim) (e : Bytes × Bytes) :
    e ∈ iterWEntries tx s' lim ↔ e ∈ tx.commit.range s' (some lim) := by
  obtain ⟨k, v⟩ := e
  unfold iterWEntries
  rw [List.mem_append, SMap.mem_range, SMap.mem_range, List.mem_filter, commit_mem_iff h hw]
  simp only [Bool.and_eq_true]
  constructor
  · rintro (⟨hm, hs, hl⟩ | ⟨hn, hs, hl⟩)
    · have hg := hu (k, v) (SMap.mem_range.mpr ⟨hm, hs, hl⟩)
      simp only at hg
      refine ⟨?_, hs, hl⟩
      unfold view; rw [hg]; exact SMap.get_of_mem h.dbSorted hm
    · have hg := ((Batch.mem_netPuts h.batch [] k v).mp hn).2
      refine ⟨?_, hs, hl⟩
      unfold view; rw [hg]
  · rintro ⟨hv, hs, hl⟩
    unfold view at hv
    rcases Batch.get_cases tx.b k with hg | ⟨v', hg⟩ | hg
    · rw [hg] at hv; cases hv
    · rw [hg] at hv
      simp only [Option.some.injEq] at hv
      subst hv
      exact Or.inr ⟨(Batch.mem_netPuts h.batch [] k v').mpr ⟨List.nil_prefix, hg⟩, hs, hl⟩
    · rw [hg] at hv
      exact Or.inl ⟨SMap.mem_of_get hv, hs, hl⟩

/-- `iterW_ryw`: under `RangeUntouched`, the yielded entries sorted by key are the range of the
    store the transaction would commit (each entry exactly once) -/
theorem iterW_ryw {tx : Tx} (h : tx.Inv) (hw : tx.readOnly = false) (s' lim : Bytes)
    (hu : RangeUntouched tx s' lim) :
    sortBy (fun a b : Bytes × Bytes => blt a.1 b.1) (iterWEntries tx s' lim) = tx.commit.range s' (some lim) := by
  apply pairwise_ext (R := fun a b : Bytes × Bytes => blt a.1 b.1 = true)
    (fun a => by simp [blt_irrefl]) (fun a b c => blt_trans)
  · apply sortBy_pairwise (fun a b : Bytes × Bytes => blt a.1 b.1) (fun a b c => blt_trans)
    unfold iterWEntries
    rw [List.pairwise_append]
    refine ⟨?_, ?_, ?_⟩
    · exact List.Pairwise.imp (fun hab => Or.inl hab) (SMap.range_sorted h.dbSorted _ _)
    · exact List.Pairwise.imp (fun hab => Or.inl hab)
        (List.Pairwise.filter _ (Batch.netPuts_sorted h.batch []))
    · intro a ha b hb
      have hga := hu a ha
      rw [List.mem_filter] at hb
      have hgb := ((Batch.mem_netPuts h.batch [] b.1 b.2).mp hb.1).2
      have hne : a.1 ≠ b.1 := by
        intro e; rw [e, hgb] at hga; cases hga
      cases h1 : blt a.1 b.1 with
      | true => exact Or.inl rfl
      | false =>
        cases h2 : blt b.1 a.1 with
        | true => exact Or.inr rfl
        | false => exact absurd (eq_of_not_blt h1 h2) hne
  · exact SMap.range_sorted (Tx.commit_sorted h) _ _
  · intro x
    rw [mem_sortBy]
    exact iterW_mem_iff h hw s' lim hu x

/-- a transaction that has written nothing yet (the first thing the wallet's removal step does is
    such an iteration) -/
theorem rangeUntouched_of_empty {tx : Tx} (hb : tx.b = {}) (s' lim : Bytes) : RangeUntouched tx s' lim := by
  intro e _
  rw [hb]; rfl

/-- a transaction whose batch holds no entry (put or delete) for any key of the range – e.g. it
    has only written to OTHER buckets (`prefix_isolated`: their keys are outside the range) -/
theorem rangeUntouched_of_outside {tx : Tx} (s' lim : Bytes)
    (ho : ∀ k, ble s' k = true → blt k lim = true → tx.b.puts.get k = none ∧ tx.b.deletes.get k = none) :
    RangeUntouched tx s' lim := by
  intro e he
  rw [SMap.mem_range] at he
  obtain ⟨h1, h2⟩ := ho e.1 he.2.1 he.2.2
  unfold Batch.get
  rw [h1, h2]

/-- exactly when the iterator yields something: the view's range is non-empty, or the committed
    range is non-empty and the transaction has deleted ALL of it (the one false positive of
    "is there an entry in this range": `ExistCreditFromTx`) -/
theorem iterW_nonempty_iff {tx : Tx} (h : tx.Inv) (hw : tx.readOnly = false) (s' lim : Bytes) :
    iterWEntries tx s' lim ≠ [] ↔
      (tx.commit.range s' (some lim) ≠ [] ∨
       (tx.db.range s' (some lim) ≠ [] ∧ ∀ e ∈ tx.db.range s' (some lim), (tx.b.get e.1).2 = true)) := by
  constructor
  · intro hne
    by_cases hv : tx.commit.range s' (some lim) = []
    · right
      -- no net put lies in the range (it would be in the view)
      have hN : ((tx.b.netPuts []).filter fun e => ble s' e.1 && blt e.1 lim) = [] := by
        rw [List.eq_nil_iff_forall_not_mem]
        intro e he
        rw [List.mem_filter] at he
        obtain ⟨k, v⟩ := e
        have hg := ((Batch.mem_netPuts h.batch [] k v).mp he.1).2
        have hr := he.2
        simp only [Bool.and_eq_true] at hr
        have : (k, v) ∈ tx.commit.range s' (some lim) := by
          rw [SMap.mem_range]
          refine ⟨(commit_mem_iff h hw k v).mpr ?_, hr.1, hr.2⟩
          unfold view; rw [hg]
        rw [hv] at this; cases this
      have hC : tx.db.range s' (some lim) ≠ [] := by
        intro hC; apply hne; unfold iterWEntries; rw [hC, hN]; rfl
      refine ⟨hC, ?_⟩
      intro e he
      obtain ⟨k, v⟩ := e
      have hm := SMap.mem_range.mp he
      rcases Batch.get_cases tx.b k with hg | ⟨v', hg⟩ | hg
      · simp only [hg]
      · have : (k, v') ∈ tx.commit.range s' (some lim) := by
          rw [SMap.mem_range]
          refine ⟨(commit_mem_iff h hw k v').mpr ?_, hm.2.1, hm.2.2⟩
          unfold view; rw [hg]
        rw [hv] at this; cases this
      · have : (k, v) ∈ tx.commit.range s' (some lim) := by
          rw [SMap.mem_range]
          refine ⟨(commit_mem_iff h hw k v).mpr ?_, hm.2.1, hm.2.2⟩
          unfold view; rw [hg]; exact SMap.get_of_mem h.dbSorted hm.1
        rw [hv] at this; cases this
    · exact Or.inl hv
  · rintro (hv | ⟨hC, _⟩)
    · intro hnil
      obtain ⟨e, he⟩ := List.exists_mem_of_ne_nil _ hv
      obtain ⟨e', he', _⟩ := iterW_superset h hw s' lim e he
      rw [hnil] at he'; cases he'
    · intro hnil
      unfold iterWEntries at hnil
      exact hC (List.append_eq_nil_iff.mp hnil).1

theorem drain_head (b : Bucket) (fuel : Nat) (it : LevelIter) :
    ((drain b (fuel + 1) it).2.head?).map (·.1) = some (it.next).2 := by
  simp only [drain]
  cases it.next with
  | mk it1 ok => cases ok <;> simp

/-- the first `Next()` of a fresh iterator inside a write transaction succeeds iff it has anything
    to yield -/
theorem first_next_iff (tx : Tx) (hw : tx.readOnly = false) (b : Bucket) (st l lim : Bytes)
    (hl : (b.iterBounds st l).2 = some lim) :
    ((b.newIterator tx st l).next).2 = true ↔ iterWEntries tx (b.iterBounds st l).1 lim ≠ [] := by
  have hshape := iter_write_shape tx hw b st l
  simp only [hl] at hshape
  have hf : drainFuel (b.newIterator tx st l) = (drainFuel (b.newIterator tx st l) - 1) + 1 := by
    unfold drainFuel; omega
  have hrun : runScript b (b.newIterator tx st l) [.all] =
      (drain b (drainFuel (b.newIterator tx st l)) (b.newIterator tx st l)).2 := by
    simp only [runScript, List.append_nil]
  have hhead := drain_head b (drainFuel (b.newIterator tx st l) - 1) (b.newIterator tx st l)
  rw [← hf, ← hrun, hshape, ← List.map_append] at hhead
  unfold iterWEntries
  cases hE : tx.db.range (b.iterBounds st l).1 (some lim) ++
      (tx.b.netPuts []).filter (fun e => ble (b.iterBounds st l).1 e.1 && blt e.1 lim) with
  | nil =>
    rw [hE] at hhead
    simp only [List.map_nil, List.nil_append, List.head?_cons, Option.map_some, Option.some.injEq] at hhead
    rw [← hhead]; simp
  | cons e rest =>
    rw [hE] at hhead
    simp only [List.map_cons, List.cons_append, List.head?_cons, Option.map_some, Option.some.injEq, yielded] at hhead
    rw [← hhead]; simp

/-- iterating a WHOLE bucket (`NewIterator(nil)`, as the wallet's removal does) in a transaction that
    has so far written only to OTHER buckets or to the bucket index: the condition holds
    (`prefix_isolated`: those keys lie outside the bucket's range) -/
theorem rangeUntouched_other_buckets {tx : Tx} {b : Bucket} {p : Path} (hb : b.IsAt p) (lim : Bytes)
    (hl : (b.iterBounds [] []).2 = some lim)
    (hk : ∀ k, ((tx.b.puts.get k).isSome = true ∨ (tx.b.deletes.get k).isSome = true) →
      (∃ q kk, NoSep q ∧ q ≠ p ∧ k = dataKey q kk) ∨ ∃ s, k = indexKey s) :
    RangeUntouched tx (b.iterBounds [] []).1 lim := by
  have hs : (b.iterBounds [] []).1 = dataKey p [] := by
    simp only [Bucket.iterBounds, Bucket.innerKeyForIterator, hb.path]; rfl
  rw [hs]
  -- the limit is the end of the bucket's prefix range, or the range is empty
  have hlim : lim = dataKey p [] ∨ bytesPrefixLimit (dataKey p []) = some lim := by
    simp only [Bucket.iterBounds, Bucket.innerKeyForIterator, hb.path, List.length_nil, BEq.rfl, if_true] at hl
    have hd : pathBytes p ++ [sep] = dataKey p [] := rfl
    rw [hd] at hl
    cases hbl : bytesPrefixLimit (dataKey p []) with
    | none => rw [hbl] at hl; simp [clampLimit] at hl
    | some x =>
      rw [hbl] at hl
      simp only [clampLimit] at hl
      by_cases hc : blt x (dataKey p []) = true
      · simp only [hc, if_true, Option.some.injEq] at hl; exact Or.inl hl.symm
      · simp only [hc, Bool.false_eq_true, if_false, Option.some.injEq] at hl; right; rw [hl]
  intro e he
  rw [SMap.mem_range] at he
  obtain ⟨_, hlo, hhi⟩ := he
  simp only at hhi
  rcases hlim with hlim | hlim
  · -- empty range: start ≤ k < start is impossible
    rw [hlim] at hhi
    have := blt_of_ble_of_blt hlo hhi
    rw [blt_irrefl] at this; cases this
  · have hpre : dataKey p [] <+: e.1 := by
      rw [← inRange_bytesPrefix_iff, hlim]
      exact ⟨hlo, hhi⟩
    have hnone : tx.b.puts.get e.1 = none ∧ tx.b.deletes.get e.1 = none := by
      have hcontra : ¬ ((tx.b.puts.get e.1).isSome = true ∨ (tx.b.deletes.get e.1).isSome = true) := by
        intro ht
        rcases hk e.1 ht with ⟨q, kk, hq, hne, heq⟩ | ⟨s0, heq⟩
        · rw [heq] at hpre
          exact hne ((dataKey_prefix_iff hq hb.noSep [] kk).mp hpre).1
        · rw [heq] at hpre
          exact dataPrefix_not_prefix_indexKey p [] s0 hpre
      constructor
      · cases hg : tx.b.puts.get e.1 with
        | none => rfl
        | some x => exact absurd (Or.inl (by rw [hg]; rfl)) hcontra
      · cases hg : tx.b.deletes.get e.1 with
        | none => rfl
        | some x => exact absurd (Or.inr (by rw [hg]; rfl)) hcontra
    unfold Batch.get
    rw [hnone.1, hnone.2]

end MW.Model.KV
