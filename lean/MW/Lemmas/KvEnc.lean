/-
  The key encoding of leveldb.go:  data key  <depth>_<n1>_…_<nd>_<key>,
  bucket index key  b_<depth>_<n1>_…_<nd>.   Injectivity, bucket isolation of prefix scans,
  disjointness of data and index keys – for bucket names accepted by isValidBucketName and for
  arbitrary key bytes.  All facts about the constants are re-decided from MW.Gen.Kv.
-/
import MW.Model.KV
import MW.Lemmas.KvSplit
import MW.Lemmas.KvPrefix
namespace MW.Model.KV
open MW MW.KV

def ValidName (n : Bytes) : Prop := isValidBucketName n = true

/-- the `path` string of the bucket reached through the names `p` -/
def pathBytes (p : Path) : Bytes := join (itoa p.length :: p)
/-- innerKey of bucket `p` for key `k` -/
def dataKey (p : Path) (k : Bytes) : Bytes := pathBytes p ++ sep :: k
/-- the bucket-name index key of bucket `p` -/
def idxKey (p : Path) : Bytes := indexKey (pathBytes p)

/-! facts about today's constants (regenerated file MW.Gen.Kv) -/
theorem sep_not_digit : Dec.isDigit sep = false := by decide
theorem sep_not_mem_tag : sep ∉ tag := by decide
theorem tag_head_not_digit : tag.head?.map Dec.isDigit = some false := by decide
theorem topDepth_eq_itoa_one : topDepth = itoa 1 := by
  unfold itoa; rw [Dec.render]; decide

theorem ValidName.noSep {n : Bytes} (h : ValidName n) : sep ∉ n := by
  unfold ValidName isValidBucketName at h
  simp at h
  exact h.2

theorem ValidName.ne_nil {n : Bytes} (h : ValidName n) : n ≠ [] := by
  unfold ValidName isValidBucketName at h
  intro e; subst e; simp at h

theorem sep_not_mem_itoa (d : Nat) : sep ∉ itoa d := by
  intro h
  have := KV.DecL.render_all_digits d sep h
  rw [sep_not_digit] at this; cases this

theorem itoa_injective {a b : Nat} (h : itoa a = itoa b) : a = b := KV.DecL.render_injective h

/-- names free of the separator (what isValidBucketName guarantees) -/
def NoSep (p : Path) : Prop := ∀ n ∈ p, sep ∉ n

theorem noSep_of_valid {p : Path} (h : ∀ n ∈ p, ValidName n) : NoSep p := fun n hn => (h n hn).noSep

theorem noSep_tokens {p : Path} (h : NoSep p) (d : Nat) : ∀ a ∈ itoa d :: p, sep ∉ a := by
  intro a ha
  rcases List.mem_cons.mp ha with ha | ha
  · subst ha; exact sep_not_mem_itoa d
  · exact h a ha

theorem split_pathBytes {p : Path} (h : NoSep p) : split (pathBytes p) = itoa p.length :: p :=
  splitSep_joinSep sep _ (by simp) (noSep_tokens h _)

theorem split_dataKey {p : Path} (h : NoSep p) (k : Bytes) :
    split (dataKey p k) = (itoa p.length :: p) ++ split k :=
  splitSep_joinSep_append sep _ (by simp) (noSep_tokens h _) k

theorem split_idxKey {p : Path} (h : NoSep p) : split (idxKey p) = tag :: itoa p.length :: p := by
  unfold idxKey indexKey join
  rw [joinSep_cons_cons]
  simp only [joinSep]
  rw [show split (tag ++ sep :: pathBytes p) = splitSep sep (tag ++ sep :: pathBytes p) from rfl,
    splitSep_append sep tag sep_not_mem_tag]
  have := split_pathBytes h
  unfold split at this
  rw [this]

theorem pathBytes_injective {p q : Path} (hp : NoSep p) (hq : NoSep q) (h : pathBytes p = pathBytes q) : p = q := by
  have := congrArg split h
  rw [split_pathBytes hp, split_pathBytes hq] at this
  exact (List.cons.inj this).2

/-- distinct (bucket, key) pairs have distinct encodings, whatever bytes the keys contain -/
theorem dataKey_injective {p q : Path} (hp : NoSep p) (hq : NoSep q) {k k' : Bytes}
    (h : dataKey p k = dataKey q k') : p = q ∧ k = k' := by
  have hs := congrArg split h
  rw [split_dataKey hp, split_dataKey hq] at hs
  have hhead : itoa p.length = itoa q.length := by
    have := congrArg List.head? hs
    simpa using this
  have hlen : p.length = q.length := itoa_injective hhead
  have := List.append_inj hs (by simp [hlen])
  refine ⟨(List.cons.inj this.1).2, ?_⟩
  exact splitSep_injective sep this.2

theorem idxKey_injective {p q : Path} (hp : NoSep p) (hq : NoSep q) (h : idxKey p = idxKey q) : p = q := by
  have := congrArg split h
  rw [split_idxKey hp, split_idxKey hq] at this
  exact (List.cons.inj (List.cons.inj this).2).2

theorem head_pathBytes_digit (p : Path) : ∃ c rest, pathBytes p = c :: rest ∧ Dec.isDigit c = true := by
  have hne := KV.DecL.render_ne_nil p.length
  have hd := KV.DecL.render_all_digits p.length
  unfold pathBytes join itoa
  cases hr : Dec.render p.length with
  | nil => exact absurd hr hne
  | cons c cs =>
    rw [hr] at hd
    have hc := hd c List.mem_cons_self
    cases p with
    | nil => exact ⟨c, cs, by simp [joinSep], hc⟩
    | cons a r => exact ⟨c, _, by rw [joinSep_cons_cons]; rfl, hc⟩

theorem head_idxKey_not_digit (s : Bytes) : ∃ c rest, indexKey s = c :: rest ∧ Dec.isDigit c = false := by
  have h := tag_head_not_digit
  unfold indexKey join
  rw [joinSep_cons_cons]
  cases ht : tag with
  | nil => rw [ht] at h; simp at h
  | cons c cs =>
    rw [ht] at h
    simp at h
    exact ⟨c, _, rfl, h⟩

/-- data keys and bucket index keys never collide -/
theorem dataKey_ne_indexKey (p : Path) (k s : Bytes) : dataKey p k ≠ indexKey s := by
  obtain ⟨c, r, h1, hc⟩ := head_pathBytes_digit p
  obtain ⟨c', r', h2, hc'⟩ := head_idxKey_not_digit s
  intro h
  unfold dataKey at h
  rw [h1, h2] at h
  have := (List.cons.inj h).1
  subst this
  rw [hc] at hc'; cases hc'

/-- no prefix scan of a bucket (`<path>_<prefix>`) matches an index key -/
theorem dataPrefix_not_prefix_indexKey (p : Path) (pfx s : Bytes) : ¬ (dataKey p pfx <+: indexKey s) := by
  obtain ⟨c, r, h1, hc⟩ := head_pathBytes_digit p
  obtain ⟨c', r', h2, hc'⟩ := head_idxKey_not_digit s
  rintro ⟨t, ht⟩
  unfold dataKey at ht
  rw [h1, h2] at ht
  have := (List.cons.inj ht).1
  subst this
  rw [hc] at hc'; cases hc'

/-- no index scan (`b_…`) matches a data key -/
theorem indexPrefix_not_prefix_dataKey (s : Bytes) (t : Bytes) (p : Path) (k : Bytes) :
    ¬ (indexKey s ++ t <+: dataKey p k) := by
  obtain ⟨c, r, h1, hc⟩ := head_pathBytes_digit p
  obtain ⟨c', r', h2, hc'⟩ := head_idxKey_not_digit s
  rintro ⟨u, hu⟩
  unfold dataKey at hu
  rw [h1, h2] at hu
  have := (List.cons.inj hu).1
  subst this
  rw [hc] at hc'; cases hc'

/-- a prefix scan of bucket `q` matches a data key of bucket `p` only if `p = q` (and then exactly
    when the key has the prefix), whatever bytes key and prefix contain -/
theorem dataKey_prefix_iff {p q : Path} (hp : NoSep p) (hq : NoSep q) (pfx k : Bytes) :
    dataKey q pfx <+: dataKey p k ↔ p = q ∧ pfx <+: k := by
  constructor
  · rintro ⟨t, ht⟩
    have : dataKey q (pfx ++ t) = dataKey p k := by
      rw [← ht]; simp [dataKey]
    obtain ⟨h1, h2⟩ := dataKey_injective hq hp this
    exact ⟨h1.symm, ⟨t, h2⟩⟩
  · rintro ⟨rfl, t, rfl⟩
    exact ⟨t, by simp [dataKey]⟩

/-- the scan prefix of BucketNames for the children of `q`:  b_<|q|+1>_<q…>_ -/
def childScanPrefix (q : Path) : Bytes := join [tag, join (itoa (q.length + 1) :: q ++ [[]])]

theorem childScanPrefix_eq (q : Path) : childScanPrefix q = indexKey (join (itoa (q.length + 1) :: q)) ++ [sep] := by
  unfold childScanPrefix indexKey join
  rw [joinSep_cons_cons, joinSep_cons_cons]
  simp only [joinSep]
  rw [show itoa (q.length + 1) :: q ++ [[]] = (itoa (q.length + 1) :: q) ++ [[]] from rfl,
    joinSep_append_singleton sep _ (by simp)]
  simp

/-- the index scan for the children of `q` matches exactly the index keys of the buckets `q ++ [n]` -/
theorem childScan_matches_iff {q r : Path} (hq : NoSep q) (hr : NoSep r) :
    childScanPrefix q <+: idxKey r ↔ ∃ n, r = q ++ [n] := by
  constructor
  · rintro ⟨t, ht⟩
    rw [childScanPrefix_eq] at ht
    have hs := congrArg split ht
    rw [split_idxKey hr] at hs
    unfold indexKey join at hs
    rw [joinSep_cons_cons] at hs
    simp only [joinSep] at hs
    rw [show split ((tag ++ sep :: joinSep sep (itoa (q.length + 1) :: q)) ++ [sep] ++ t)
          = splitSep sep (tag ++ sep :: (joinSep sep (itoa (q.length + 1) :: q) ++ sep :: t)) by simp [split],
      splitSep_append sep tag sep_not_mem_tag,
      splitSep_joinSep_append sep _ (by simp) (noSep_tokens hq _)] at hs
    have h2 := (List.cons.inj hs).2
    rw [List.cons_append] at h2
    have h3 := List.cons.inj h2
    have hlen : q.length + 1 = r.length := itoa_injective h3.1
    have hr' : q ++ splitSep sep t = r := h3.2
    have hl : (splitSep sep t).length = 1 := by
      have := congrArg List.length hr'
      simp at this; omega
    match hsp : splitSep sep t, hl with
    | [n], _ => exact ⟨n, by rw [← hr', hsp]⟩
  · rintro ⟨n, rfl⟩
    refine ⟨n, ?_⟩
    rw [childScanPrefix_eq]
    unfold idxKey indexKey pathBytes join
    rw [joinSep_cons_cons, joinSep_cons_cons]
    simp only [joinSep, List.length_append, List.length_singleton]
    rw [show itoa (q.length + 1) :: (q ++ [n]) = (itoa (q.length + 1) :: q) ++ [n] from rfl,
      joinSep_append_singleton sep _ (by simp)]
    simp

end MW.Model.KV
