/-
  C08, removal interleaved with follower events — THE PENDING-SIDE CLAUSE IS AN INVARIANT.
  The removal proofs need, at every removal step, `PendOK addrs s X` ("no unmined credit of ANOTHER wallet belongs to
  a transaction of the followed chain `X`", RemoveGlue).  Here: it is part of an invariant `PCI` of the interleaved
  histories (`IEv` / `istep` / `irun`, RemoveInterleave) whose block events extend the tip, so it need only be assumed
  where the removal starts — and there it follows from C09's invariant `HInvC`.

    `Sc a' a`        the pending-credit bucket of `a'` is a KEY scan of that of `a` (only whole keys are erased)
    `PFrX ex a a'`   C09's credit frame `CFrX` without its deposit-record clauses (those need every owner ready,
                     which is false while a wallet is flagged) + `Sc`
    `PCI`            the invariant;  clause (d) `KeysNodup s.pendCred` is needed because `PendOK` speaks about the
                     ENTRIES of the bucket and clause (b) about its lookups
    `pci_recv` `pci_rem` `pci_connect` `pci_restart`   preservation
    `DomP` / `pci_istep` / `pendOK_run`                the history level
    `pci_of_hinvc` / `pci_flag`                        the start
-/
import MW.Lemmas.RemoveInterleave
import MW.Lemmas.RemoveGlue
import MW.Lemmas.RemoveReach
import MW.Lemmas.PendHistCredRun
namespace MW.Lemmas.RemovePend
open MW MW.Model.Ledger MW.Model.Remove MW.Spec.Chain MW.Spec.Books MW.Spec.Pending MW.Lemmas.Ledger
  MW.Lemmas.LedgerPending MW.Lemmas.PendHist MW.Lemmas.PendHist.Cred MW.Lemmas.RemoveGlue MW.Lemmas.RemoveInterleave

-- ------------------------------------------------------------------ key scans of the pending-credit bucket

/-- the pending-credit bucket of `a'` is that of `a` with the records of some KEYS erased -/
def Sc (a' a : Store) : Prop := ∃ p, a'.pendCred = AMap.scan a.pendCred p

theorem Sc.refl (a : Store) : Sc a a := ⟨fun _ => true, (scan_true _).symm⟩

theorem sc_of_eq {a' a : Store} (h : a'.pendCred = a.pendCred) : Sc a' a := ⟨fun _ => true, by rw [h, scan_true]⟩

theorem Sc.trans {a b c : Store} (h1 : Sc a b) (h2 : Sc b c) : Sc a c := by
  obtain ⟨p, hp⟩ := h1
  obtain ⟨q, hq⟩ := h2
  exact ⟨fun k => q k && p k, by rw [hp, hq, scan_scan]⟩

theorem sc_eraseCred (a : Store) (k : TxId × Nat) : Sc { a with pendCred := AMap.erase a.pendCred k } a :=
  ⟨_, erase_eq_scan _ _⟩

theorem Sc.get_some {a' a : Store} (h : Sc a' a) {k : TxId × Nat} {v : Credit}
    (hg : AMap.get a'.pendCred k = some v) : AMap.get a.pendCred k = some v := by
  obtain ⟨p, hp⟩ := h
  rw [hp, get_scan] at hg
  by_cases hpk : p k <;> simp [hpk] at hg
  exact hg

theorem Sc.get_none {a' a : Store} (h : Sc a' a) {k : TxId × Nat}
    (hg : AMap.get a.pendCred k = none) : AMap.get a'.pendCred k = none := by
  obtain ⟨p, hp⟩ := h
  rw [hp, get_scan]
  by_cases hpk : p k <;> simp [hpk, hg]

theorem Sc.mem {a' a : Store} (h : Sc a' a) {e : (TxId × Nat) × Credit} (he : e ∈ a'.pendCred) : e ∈ a.pendCred := by
  obtain ⟨p, hp⟩ := h
  rw [hp] at he
  exact (List.mem_filter.1 he).1

theorem Sc.nodup {a' a : Store} (h : Sc a' a) (hn : KeysNodup a.pendCred) : KeysNodup a'.pendCred := by
  obtain ⟨p, hp⟩ := h
  unfold KeysNodup at *
  rw [hp]
  exact (List.Sublist.map _ List.filter_sublist).nodup hn

theorem removeConflict_sc (own : Own) : ∀ fuel s tx, Sc (removeConflict own fuel s tx) s := by
  intro fuel
  induction fuel with
  | zero => intro s tx; exact Sc.refl s
  | succ n ih =>
    intro s tx
    rw [removeConflict_succ]
    have h1 : Sc ((List.range tx.outs.length).foldl (killOut own n tx.id) s) s := by
      apply foldl_inv (fun a => Sc a s) _ _ _ (Sc.refl s)
      intro a i _ ha
      have := killSpenders_inv (fun b => Sc b s) own n (fun b t hb => (ih b t).trans hb) a
        ((AMap.get a.pendIns (tx.id, i)).getD []) ha
      exact (sc_eraseCred _ _).trans this
    have hf1 := removeUnminedInputsOf_frame ((List.range tx.outs.length).foldl (killOut own n tx.id) s) tx
    simp only [exceptIns, Prod.mk.injEq] at hf1
    have hf2 := removeUnminedGameHistory_frame own
      (removeUnminedInputsOf ((List.range tx.outs.length).foldl (killOut own n tx.id) s) tx) tx
    simp only [exceptGame, Prod.mk.injEq] at hf2
    exact (sc_of_eq (a' := { removeUnminedGameHistory own _ tx with pending := _ }) hf2.2.2.1).trans
      ((sc_of_eq hf1.2.1).trans h1)

theorem killSpenders_sc (own : Own) (n : Nat) (a : Store) (l : List TxId) : Sc (killSpenders own n a l) a :=
  killSpenders_inv (fun b => Sc b a) own n (fun b t hb => (removeConflict_sc own n b t).trans hb) a l (Sc.refl a)

theorem removeDoubleSpends_sc (own : Own) (a : Store) (tr : TxRec) : Sc (removeDoubleSpends own a tr) a := by
  rw [removeDoubleSpends_eq]
  have hfr := deleteUnminedInputs_frame (dsLoop own (a.pending.length + 1) a tr.tx.ins) tr.tx
  simp only [exceptIns, Prod.mk.injEq] at hfr
  refine (sc_of_eq hfr.2.1).trans ?_
  unfold dsLoop
  apply foldl_inv (fun x => Sc x a) _ _ _ (Sc.refl a)
  intro x i _ hx
  exact (killSpenders_sc own _ x _).trans hx

theorem deleteUnminedCredits_sc (a : Store) (tx : Tx) : Sc (deleteUnminedCredits a tx) a := by
  unfold deleteUnminedCredits
  apply foldl_inv (fun x => Sc x a) _ _ _ (Sc.refl a)
  intro x i _ hx
  exact (sc_eraseCred x _).trans hx

theorem unpendMined_sc (a : Store) (tx : Tx) : Sc (unpendMined a tx) a := by
  unfold unpendMined
  split
  · exact (sc_of_eq (a' := { deleteUnminedCredits a tx with pending := _ }) rfl).trans (deleteUnminedCredits_sc a tx)
  · exact Sc.refl a

theorem confirmPending_sc (own : Own) (a : Store) (tr : TxRec) : Sc (confirmPending own a tr) a := by
  unfold confirmPending
  exact (removeDoubleSpends_sc own _ tr).trans (unpendMined_sc a tr.tx)

theorem purgeUnrelated_sc (own : Own) : ∀ (txs : List Tx) (s : Store), Sc (purgeUnrelated own s txs) s := by
  intro txs
  induction txs with
  | nil => intro s; exact Sc.refl s
  | cons t txs ih => intro s; exact (ih _).trans (removeDoubleSpends_sc own s { tx := t })

-- ------------------------------------------------------------------ the credit frame without the deposit records

/-- `CFrX` (PendHistCredFrame) without its deposit-record clauses, with the key-scan clause: going from `a` to `a'`
    no pending record appears or changes, the pending-credit bucket loses whole keys only, and a transaction that was
    pending and is not any more has no pending credit left at any of its output indexes -/
structure PFrX (ex : TxId → Prop) (a a' : Store) : Prop where
  pend : ∀ id t, AMap.get a'.pending id = some t → AMap.get a.pending id = some t
  sc : Sc a' a
  gone : ∀ t, ¬ ex t.id → AMap.get a.pending t.id = some t → AMap.get a'.pending t.id = none →
    ∀ j, j < t.outs.length → AMap.get a'.pendCred (t.id, j) = none

abbrev PFr := PFrX (fun _ => False)

theorem PFrX.refl (ex : TxId → Prop) (a : Store) : PFrX ex a a :=
  ⟨fun _ _ h => h, Sc.refl a, fun t _ h1 h2 => by rw [h1] at h2; cases h2⟩

theorem pfr_of_eq (ex : TxId → Prop) {a a' : Store} (h1 : a'.pending = a.pending) (h2 : a'.pendCred = a.pendCred) :
    PFrX ex a a' :=
  ⟨fun id t h => by rw [← h1]; exact h, sc_of_eq h2, fun t _ ha hn => by rw [h1, ha] at hn; cases hn⟩

theorem PFrX.of_cfrx {own : Own} {ex : TxId → Prop} {a a' : Store} (h : CFrX own ex a a') (hs : Sc a' a) :
    PFrX ex a a' :=
  ⟨h.pend, hs, fun t hn ha hg => (h.gone t hn ha hg).1⟩

theorem PFrX.weaken {ex ex' : TxId → Prop} {a a' : Store} (h : PFrX ex a a') (hsub : ∀ id, ex id → ex' id) :
    PFrX ex' a a' :=
  ⟨h.pend, h.sc, fun t hn => h.gone t (fun he => hn (hsub _ he))⟩

theorem PFrX.trans {ex : TxId → Prop} {a b c : Store} (h1 : PFrX ex a b) (h2 : PFrX ex b c) : PFrX ex a c := by
  refine ⟨fun id t h => h1.pend id t (h2.pend id t h), h2.sc.trans h1.sc, ?_⟩
  intro t hn ha hc j hj
  cases hb : AMap.get b.pending t.id with
  | none => exact h2.sc.get_none (h1.gone t hn ha hb j hj)
  | some t' =>
    have : t' = t := by have := h1.pend _ _ hb; rw [ha] at this; cases this; rfl
    subst this
    exact h2.gone t' hn hb hc j hj

theorem PFrX.keyId {ex : TxId → Prop} {a a' : Store} (h : PFrX ex a a') (hk : KeyId a) : KeyId a' :=
  fun id t hg => hk id t (h.pend id t hg)

theorem PFrX.pend_none {ex : TxId → Prop} {a a' : Store} (h : PFrX ex a a') {id : TxId}
    (hg : AMap.get a.pending id = none) : AMap.get a'.pending id = none := by
  cases hg' : AMap.get a'.pending id with
  | none => rfl
  | some t => rw [h.pend _ _ hg'] at hg; cases hg

/-- closing the exception of a confirm step -/
theorem PFrX.close {a a' : Store} {tx : Tx} (h : PFrX (fun id => id = tx.id) a a')
    (hroot : ∀ t, AMap.get a.pending tx.id = some t → t = tx)
    (hc : AMap.get a.pending tx.id = some tx → ∀ j, j < tx.outs.length → AMap.get a'.pendCred (tx.id, j) = none) :
    PFr a a' := by
  refine ⟨h.pend, h.sc, ?_⟩
  intro t _ ha hn
  by_cases he : t.id = tx.id
  · have : t = tx := hroot t (by rw [← he]; exact ha)
    subst this
    exact hc ha
  · exact h.gone t he ha hn

-- ------------------------------------------------------------------ one relevant record of a block

/-- AddRelevantTx (mined) for a record without transaction record yet: a frame, the record is written, and the
    transaction is not pending afterwards.  No hypothesis about the ready set. -/
theorem addRelevantMined_pfr (p : Params) (own : Own) (s s' : Store) (bals bals' : Bals) (tr : TxRec)
    (blk : BlockMeta) (h : addRelevantMined p own s bals tr blk = .ok (s', bals'))
    (hno : AMap.get s.txrecs (tr.tx.id, blk) = none) (hk : KeyId s)
    (hsame : ∀ t, AMap.get s.pending tr.tx.id = some t → t = tr.tx) :
    PFr s s' ∧ s'.txrecs = AMap.put s.txrecs (tr.tx.id, blk) tr.loc ∧ AMap.get s'.pending tr.tx.id = none := by
  obtain ⟨_, _, _, _, _, htr⟩ := addRelevantMined_trace p own s s' bals bals' tr blk h hno
  unfold addRelevantMined at h
  simp only [bind, Except.bind] at h
  cases hi : insertMinedTx own s bals tr blk with
  | error e => rw [hi] at h; cases h
  | ok r =>
    rw [hi] at h
    obtain ⟨sa, ba, ex⟩ := r
    simp only at h
    have hex : ex = false := by
      unfold insertMinedTx at hi
      rw [hno] at hi
      simp only [Option.isSome_none, Bool.false_eq_true, if_false, bind, Except.bind] at hi
      split at hi
      · cases hi
      · simp only [pure, Except.pure, Except.ok.injEq, Prod.mk.injEq] at hi
        exact hi.2.2.symm
    subst hex
    obtain ⟨s1, hps, hsa⟩ := insertMinedTx_pending own s bals tr blk sa ba hi
    simp only [pendSide, Prod.mk.injEq] at hps
    obtain ⟨q1, _, q3, _⟩ := hps
    have c1 : PFrX (fun id => id = tr.tx.id) s s1 := pfr_of_eq _ q1 q3
    have hk1 : KeyId s1 := c1.keyId hk
    have c2 : PFrX (fun id => id = tr.tx.id) s1 sa := by
      rw [hsa]; exact PFrX.of_cfrx (confirmPending_cfrx own s1 hk1 tr) (confirmPending_sc own s1 tr)
    obtain ⟨a1, a2, _⟩ := addCredits_exact p sa s' ba bals' tr blk h
    have c3 : PFrX (fun id => id = tr.tx.id) sa s' := pfr_of_eq _ a1 a2
    have hall := c1.trans (c2.trans c3)
    have hk' : KeyId (unpendMined s1 tr.tx) := hk1.mono (sub_unpendMined s1 tr.tx)
    have hgone : AMap.get s'.pending tr.tx.id = none := by
      rw [a1, hsa]
      cases hg : AMap.get (confirmPending own s1 tr).pending tr.tx.id with
      | none => rfl
      | some t =>
        have := (removeDoubleSpends_cfr own _ hk' tr).pend _ _ hg
        rw [unpendMined_pending] at this; cases this
    refine ⟨hall.close hsame ?_, htr, hgone⟩
    intro hp j hj
    rw [a2, hsa]
    have h0 : AMap.get (unpendMined s1 tr.tx).pendCred (tr.tx.id, j) = none :=
      unpendMined_cred s1 tr.tx (by rw [q1, hp]; rfl) j hj
    exact (removeDoubleSpends_sc own _ tr).get_none h0

/-- the loop of onRelevantBlockConnected: a frame, and none of the records' transactions is pending afterwards -/
theorem relevantFold_pfr (p : Params) (own : Own) (bm : BlockMeta) :
    ∀ (recs : List TxRec) (sb r : Store × Bals),
      recs.foldlM (fun (sb : Store × Bals) tr => addRelevantMined p own sb.1 sb.2 tr bm) sb = .ok r →
      (∀ tr ∈ recs, AMap.get sb.1.txrecs (tr.tx.id, bm) = none) →
      (recs.map (·.tx.id)).Nodup → KeyId sb.1 →
      (∀ tr ∈ recs, ∀ t, AMap.get sb.1.pending tr.tx.id = some t → t = tr.tx) →
      PFr sb.1 r.1 ∧ ∀ tr ∈ recs, AMap.get r.1.pending tr.tx.id = none := by
  intro recs
  induction recs with
  | nil =>
    intro sb r h _ _ _ _
    simp only [List.foldlM, pure, Except.pure, Except.ok.injEq] at h
    rw [← h]; exact ⟨PFrX.refl _ _, fun _ h => by cases h⟩
  | cons tr rest ih =>
    intro sb r h hno hnd hk hsame
    simp only [List.foldlM, bind, Except.bind] at h
    cases hf : addRelevantMined p own sb.1 sb.2 tr bm with
    | error e => rw [hf] at h; cases h
    | ok sb' =>
      rw [hf] at h
      obtain ⟨c1, h5, h6⟩ := addRelevantMined_pfr p own sb.1 sb'.1 sb.2 sb'.2 tr bm hf (hno tr (List.mem_cons_self ..)) hk
        (hsame tr (List.mem_cons_self ..))
      rw [List.map_cons, List.nodup_cons] at hnd
      obtain ⟨c2, hrest⟩ := ih sb' r h (by
        intro tr' htr'
        rw [h5, AMap.get_put]
        have hne : ¬ (tr.tx.id, bm) = (tr'.tx.id, bm) := by
          intro he
          have : tr.tx.id = tr'.tx.id := (Prod.mk.inj he).1
          exact hnd.1 (this ▸ List.mem_map.2 ⟨tr', htr', rfl⟩)
        rw [if_neg hne]
        exact hno tr' (List.mem_cons_of_mem _ htr')) hnd.2 (c1.keyId hk) (by
        intro tr' htr' t ht
        exact hsame tr' (List.mem_cons_of_mem _ htr') t (c1.pend _ _ ht))
      refine ⟨c1.trans c2, ?_⟩
      intro tr' htr'
      rcases List.mem_cons.1 htr' with rfl | h'
      · exact c2.pend_none h6
      · exact hrest tr' h'

theorem applyRelevant_pfr (c : Ctx) (s s' : Store) (ready : List Wid) (bm : BlockMeta) (recs : List TxRec)
    (h : applyRelevant c s ready bm recs = .ok s')
    (hno : ∀ tr ∈ recs, AMap.get s.txrecs (tr.tx.id, bm) = none) (hnd : (recs.map (·.tx.id)).Nodup)
    (hk : KeyId s) (hsame : ∀ tr ∈ recs, ∀ t, AMap.get s.pending tr.tx.id = some t → t = tr.tx) :
    PFr s s' ∧ ∀ tr ∈ recs, AMap.get s'.pending tr.tx.id = none := by
  unfold applyRelevant at h
  split at h
  · rename_i hemp
    cases h
    refine ⟨PFrX.refl _ _, ?_⟩
    intro tr htr
    rw [List.isEmpty_iff.1 hemp] at htr; cases htr
  · simp only [bind, Except.bind, pure, Except.pure] at h
    split at h
    · cases h
    · rename_i r hr
      cases h
      obtain ⟨c1, h1⟩ := relevantFold_pfr c.p c.own bm recs _ r hr hno hnd hk hsame
      exact ⟨c1.trans (pfr_of_eq _ rfl rfl), h1⟩

-- ------------------------------------------------------------------ filterTx: the relevant outputs (any ready set)

/-- an output of `t` pays a managed address of a READY wallet -/
def PaysReady (own : Own) (ready : List Wid) (t : Tx) : Prop :=
  ∃ (j : Nat) (o : Out) (w' : Wid) (ch : Bool),
    t.outs[j]? = some o ∧ o.cls ≠ .raw ∧ AMap.get own o.addr = some (w', ch) ∧ ready.contains w' = true

theorem filterOut_relOut_ne (c : Ctx) (ready : List Wid) (tr : TxRec) (cur : Nat) (o : Out) (h : tr.relOut ≠ []) :
    (filterOut c ready tr cur o).relOut ≠ [] := by
  unfold filterOut
  repeat' split
  all_goals first | exact h | simp

theorem filterOut_hit (c : Ctx) (ready : List Wid) (tr : TxRec) (cur : Nat) (o : Out) (w' : Wid) (ch : Bool)
    (h1 : o.cls ≠ .raw) (h2 : AMap.get c.own o.addr = some (w', ch)) (h3 : ready.contains w' = true) :
    (filterOut c ready tr cur o).relOut ≠ [] := by
  unfold filterOut
  rw [if_neg h1]
  simp only [h2, h3, if_true]
  simp

theorem filterOuts_hit (c : Ctx) (ready : List Wid) : ∀ (os : List Out) (n : Nat) (tr : TxRec) (j : Nat) (o : Out)
    (w' : Wid) (ch : Bool), os[j]? = some o → o.cls ≠ .raw → AMap.get c.own o.addr = some (w', ch) →
    ready.contains w' = true → (foldIdx (filterOut c ready) os n tr).relOut ≠ [] := by
  intro os
  induction os with
  | nil => intro n tr j o w' ch h; simp at h
  | cons x os ih =>
    intro n tr j o w' ch hj h1 h2 h3
    rw [show foldIdx (filterOut c ready) (x :: os) n tr = foldIdx (filterOut c ready) os (n + 1) (filterOut c ready tr n x)
      from rfl]
    cases j with
    | zero =>
      simp only [List.getElem?_cons_zero, Option.some.injEq] at hj
      subst hj
      exact foldIdx_inv (fun (a : TxRec) => a.relOut ≠ []) _ _ _ _ (filterOut_hit c ready tr n x w' ch h1 h2 h3)
        (fun a i y ha => filterOut_relOut_ne c ready a i y ha)
    | succ j =>
      simp only [List.getElem?_cons_succ] at hj
      exact ih (n + 1) _ j o w' ch hj h1 h2 h3

/-- what a relevant-output record says -/
def RelOK (own : Own) (ready : List Wid) (os : List Out) (rel : Rel) : Prop :=
  os[rel.index]? = some rel.out ∧ rel.out.cls ≠ .raw ∧ AMap.get own rel.out.addr = some (rel.wallet, rel.change) ∧
    ready.contains rel.wallet = true

theorem filterOuts_mem (c : Ctx) (ready : List Wid) : ∀ (os : List Out) (n : Nat) (tr : TxRec) (rel : Rel),
    rel ∈ (foldIdx (filterOut c ready) os n tr).relOut → rel ∈ tr.relOut ∨
      ∃ j, rel.index = n + j ∧ os[j]? = some rel.out ∧ rel.out.cls ≠ .raw ∧
        AMap.get c.own rel.out.addr = some (rel.wallet, rel.change) ∧ ready.contains rel.wallet = true := by
  intro os
  induction os with
  | nil => intro n tr rel h; exact Or.inl h
  | cons x os ih =>
    intro n tr rel h
    rw [show foldIdx (filterOut c ready) (x :: os) n tr = foldIdx (filterOut c ready) os (n + 1) (filterOut c ready tr n x)
      from rfl] at h
    rcases ih (n + 1) _ rel h with h1 | ⟨j, e1, e2, e3, e4, e5⟩
    · unfold filterOut at h1
      split at h1
      · exact Or.inl h1
      · rename_i hraw
        split at h1
        · rename_i w ch hown
          split at h1
          · rename_i hr
            rcases List.mem_append.1 h1 with h1 | h1
            · exact Or.inl h1
            · rw [List.mem_singleton] at h1
              subst h1
              exact Or.inr ⟨0, rfl, rfl, hraw, hown, hr⟩
          · exact Or.inl h1
        · exact Or.inl h1
    · exact Or.inr ⟨j + 1, by omega, by simpa using e2, e3, e4, e5⟩

/-- filterTx on a transaction that pays a ready wallet finds it relevant -/
theorem filterTxRel_some_of_pays (c : Ctx) (s : Store) (tx : Tx) (mined : Bool) (inBlk : List Tx) (ready : List Wid)
    (r : Option TxRec) (h : filterTxRel c s tx mined inBlk ready = .ok r) (hp : PaysReady c.own ready tx) :
    ∃ tr, r = some tr := by
  obtain ⟨j, o, w', ch, hj, h1, h2, h3⟩ := hp
  rw [MW.Lemmas.Ledger.filterTxRel_eq] at h
  simp only [bind, Except.bind] at h
  split at h
  · cases h
  · rename_i tr1 _
    have hne := filterOuts_hit c ready tx.outs 0 tr1 j o w' ch hj h1 h2 h3
    have hemp : (foldIdx (filterOut c ready) tx.outs 0 tr1).relOut.isEmpty = false := by
      cases hh : (foldIdx (filterOut c ready) tx.outs 0 tr1).relOut with
      | nil => exact absurd hh hne
      | cons _ _ => rfl
    rw [hemp, Bool.and_false] at h
    simp only [Bool.false_eq_true, if_false] at h
    split at h
    · cases h
    · cases h; exact ⟨_, rfl⟩

/-- the relevant outputs of a record found by filterTx: existing outputs paying managed addresses of ready wallets -/
theorem filterTxRel_relOK (c : Ctx) (s : Store) (tx : Tx) (mined : Bool) (inBlk : List Tx) (ready : List Wid)
    (tr : TxRec) (h : filterTxRel c s tx mined inBlk ready = .ok (some tr)) :
    ∀ rel ∈ tr.relOut, RelOK c.own ready tx.outs rel := by
  rw [MW.Lemmas.Ledger.filterTxRel_eq] at h
  simp only [bind, Except.bind] at h
  split at h
  · cases h
  · rename_i tr1 h1
    have e1 : tr1.relOut = [] := by
      split at h1
      · cases h1; rfl
      · exact foldIdxM_ok_inv (fun _ (a : TxRec) => a.relOut = []) _ _ _ _ _ rfl
          (fun a i x b' ha hf => (filterIn_relOut c s mined inBlk ready a b' i x hf).trans ha) h1
    have hm : ∀ rel ∈ (foldIdx (filterOut c ready) tx.outs 0 tr1).relOut, RelOK c.own ready tx.outs rel := by
      intro rel hrel
      rcases filterOuts_mem c ready tx.outs 0 tr1 rel hrel with h0 | ⟨j, e, e2, e3, e4, e5⟩
      · rw [e1] at h0; cases h0
      · refine ⟨?_, e3, e4, e5⟩
        rw [e, Nat.zero_add]; exact e2
    split at h
    · cases h
    · split at h
      · cases h
      · cases h; exact hm

/-- the first loop of filterBlock finds every transaction of the block that pays a ready wallet -/
theorem filterTxs_hit (c : Ctx) (s : Store) (ready : List Wid) (bid : BlkId) :
    ∀ (post seen : List Tx) (ti : Nat) (acc r : List TxRec),
      filterTxs c s ready bid post seen ti acc = .ok r →
      ∀ u ∈ post, PaysReady c.own ready u → ∃ tr ∈ r, tr.tx = u := by
  intro post
  induction post with
  | nil => intro seen ti acc r _ u hu; cases hu
  | cons tx rest ih =>
    intro seen ti acc r h u hu hp
    simp only [filterTxs, bind, Except.bind] at h
    cases hx : filterTxRel c s tx true (seen ++ [tx]) ready with
    | error e => rw [hx] at h; cases h
    | ok o =>
      rw [hx] at h
      rcases List.mem_cons.1 hu with rfl | hu'
      · obtain ⟨tr, rfl⟩ := filterTxRel_some_of_pays c s u true _ ready o hx hp
        simp only at h
        obtain ⟨recs, h1, _⟩ := filterTxs_sublist c s ready bid rest _ _ _ r h
        refine ⟨{ tr with loc := (bid, ti) }, ?_, filterTxRel_tx c s u true _ ready tr hx⟩
        rw [h1]; simp
      · cases o with
        | none => exact ih _ _ _ _ h u hu' hp
        | some tr => exact ih _ _ _ _ h u hu' hp

-- ------------------------------------------------------------------ CONNECTING A BLOCK (any ready set)

/-- filterBlock is a frame of the pending side, and no transaction of the block that pays a ready wallet is pending
    afterwards -/
theorem filterBlock_pfr (c : Ctx) (s s' : Store) (ready : List Wid) (b : Block) (conf : List TxId)
    (h : filterBlock c s ready b = .ok (s', conf))
    (hnorec : ∀ u ∈ b.txs, AMap.get s.txrecs (u.id, ⟨b.height, b.id⟩) = none)
    (hbnd : (b.txs.map (·.id)).Nodup) (hk : KeyId s)
    (hsame : ∀ u ∈ b.txs, ∀ t, AMap.get s.pending u.id = some t → t = u) :
    PFr s s' ∧ ∀ u ∈ b.txs, PaysReady c.own ready u → AMap.get s'.pending u.id = none := by
  unfold filterBlock at h
  simp only [throw, throwThe, MonadExceptOf.throw] at h
  split at h
  · cases h
  · split at h
    · cases h
    · cases hne : ready.isEmpty with
      | true =>
        have hr : ready = [] := List.isEmpty_iff.1 hne
        simp only [hne, if_true, bind, Except.bind, pure, Except.pure, applyRelevant, List.isEmpty_nil] at h
        cases hp : putSyncedTo (purgeUnrelated c.own s []) ⟨b.height, b.id⟩ with
        | error e => rw [hp] at h; cases h
        | ok s2 =>
          rw [hp] at h
          simp only [Except.ok.injEq, Prod.mk.injEq] at h
          obtain ⟨hs2, _⟩ := h
          subst hs2
          obtain ⟨q1, q2, _⟩ := putSyncedTo_cred _ _ _ hp
          refine ⟨pfr_of_eq _ q1 q2, ?_⟩
          rintro u _ ⟨_, _, w', _, _, _, _, h3⟩
          rw [hr] at h3; cases h3
      | false =>
        simp only [hne, Bool.false_eq_true, if_false, bind, Except.bind] at h
        cases hf : filterTxs c s ready b.id b.txs [] 0 [] with
        | error e => rw [hf] at h; cases h
        | ok recs =>
          rw [hf] at h
          simp only at h
          obtain ⟨recs', hr, hsub⟩ := filterTxs_sublist c s ready b.id b.txs [] 0 [] recs hf
          rw [List.nil_append] at hr
          subst hr
          cases ha : applyRelevant c s ready ⟨b.height, b.id⟩ recs with
          | error e => rw [ha] at h; cases h
          | ok s1 =>
            rw [ha] at h
            simp only at h
            cases hp : putSyncedTo (purgeUnrelated c.own s1 (unrelatedTxs b.txs recs)) ⟨b.height, b.id⟩ with
            | error e => rw [hp] at h; cases h
            | ok s2 =>
              rw [hp] at h
              simp only [pure, Except.pure, Except.ok.injEq, Prod.mk.injEq] at h
              obtain ⟨hs2, _⟩ := h
              subst hs2
              have hrecb : ∀ tr ∈ recs, tr.tx ∈ b.txs := fun tr htr => hsub.subset (List.mem_map.2 ⟨tr, htr, rfl⟩)
              have hnd : (recs.map (·.tx.id)).Nodup := by
                have : recs.map (·.tx.id) = (recs.map (·.tx)).map (·.id) := by rw [List.map_map]; rfl
                rw [this]
                exact (hsub.map (·.id)).nodup hbnd
              have hno : ∀ tr ∈ recs, AMap.get s.txrecs (tr.tx.id, ⟨b.height, b.id⟩) = none :=
                fun tr htr => hnorec tr.tx (hrecb tr htr)
              obtain ⟨c1, hg1⟩ := applyRelevant_pfr c s s1 ready _ recs ha hno hnd hk
                (fun tr htr => hsame tr.tx (hrecb tr htr))
              have c2 : PFr s1 (purgeUnrelated c.own s1 (unrelatedTxs b.txs recs)) :=
                PFrX.of_cfrx (purgeUnrelated_cfr c.own (unrelatedTxs b.txs recs) s1 (c1.keyId hk))
                  (purgeUnrelated_sc c.own _ s1)
              obtain ⟨q1, q2, _⟩ := putSyncedTo_cred _ _ _ hp
              have c3 : PFr (purgeUnrelated c.own s1 (unrelatedTxs b.txs recs)) s2 := pfr_of_eq _ q1 q2
              refine ⟨c1.trans (c2.trans c3), ?_⟩
              intro u hu hpay
              obtain ⟨tr, htr, he⟩ := filterTxs_hit c s ready b.id b.txs [] 0 [] recs hf u hu hpay
              have := (c2.trans c3).pend_none (hg1 tr htr)
              rw [he] at this; exact this

end MW.Lemmas.RemovePend
