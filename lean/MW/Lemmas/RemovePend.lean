/-
  C08, removal interleaved with follower events — THE PENDING-SIDE CLAUSE IS AN INVARIANT.
  The removal proofs need, at every removal step, `PendOK addrs s X` ("no unmined credit of ANOTHER wallet belongs to
  a transaction of the followed chain `X`", RemoveGlue).  Here: it is part of an invariant `PCI` of the interleaved
  histories (`IEv` / `istep` / `irun`, RemoveInterleave) whose block events extend the tip, so it need only be assumed
  where the removal starts — and there it follows from C09's invariant `HInvC`.

    `Sc a' a`        the pending-credit bucket of `a'` is a KEY scan of that of `a` (only whole keys are erased)
    `PFrX ex a a'`   C09's credit frame `CFrX` without its deposit-record clauses (those need every owner ready,
                     which is false while a wallet is flagged) + `Sc`
    `PCI`            the invariant;  clause (d) `KeysNodup s.pendCred` is needed because `PendOK` speaks about the
                     ENTRIES of the bucket and clause (b) about its lookups
    `pci_recv` `pci_rem` `pci_connect` `pci_restart`   preservation
    `DomP` / `pci_istep` / `pendOK_run`                the history level
    `pci_of_hinvc` / `pci_flag`                        the start
-/
import MW.Lemmas.RemoveInterleave
import MW.Lemmas.RemoveGlue
import MW.Lemmas.RemoveReach
import MW.Lemmas.PendHistCredRun
namespace MW.Lemmas.RemovePend
open MW MW.Model.Ledger MW.Model.Remove MW.Spec.Chain MW.Spec.Books MW.Spec.Pending MW.Lemmas.Ledger
  MW.Lemmas.LedgerPending MW.Lemmas.PendHist MW.Lemmas.PendHist.Cred MW.Lemmas.RemoveGlue MW.Lemmas.RemoveInterleave

-- ------------------------------------------------------------------ key scans of the pending-credit bucket

/-- the pending-credit bucket of `a'` is that of `a` with the records of some KEYS erased -/
def Sc (a' a : Store) : Prop := ∃ p, a'.pendCred = AMap.scan a.pendCred p

theorem Sc.refl (a : Store) : Sc a a := ⟨fun _ => true, (scan_true _).symm⟩

theorem sc_of_eq {a' a : Store} (h : a'.pendCred = a.pendCred) : Sc a' a := ⟨fun _ => true, by rw [h, scan_true]⟩

theorem Sc.trans {a b c : Store} (h1 : Sc a b) (h2 : Sc b c) : Sc a c := by
  obtain ⟨p, hp⟩ := h1
  obtain ⟨q, hq⟩ := h2
  exact ⟨fun k => q k && p k, by rw [hp, hq, scan_scan]⟩

theorem sc_eraseCred (a : Store) (k : TxId × Nat) : Sc { a with pendCred := AMap.erase a.pendCred k } a :=
  ⟨_, erase_eq_scan _ _⟩

theorem Sc.get_some {a' a : Store} (h : Sc a' a) {k : TxId × Nat} {v : Credit}
    (hg : AMap.get a'.pendCred k = some v) : AMap.get a.pendCred k = some v := by
  obtain ⟨p, hp⟩ := h
  rw [hp, get_scan] at hg
  by_cases hpk : p k <;> simp [hpk] at hg
  exact hg

theorem Sc.get_none {a' a : Store} (h : Sc a' a) {k : TxId × Nat}
    (hg : AMap.get a.pendCred k = none) : AMap.get a'.pendCred k = none := by
  obtain ⟨p, hp⟩ := h
  rw [hp, get_scan]
  by_cases hpk : p k <;> simp [hpk, hg]

theorem Sc.mem {a' a : Store} (h : Sc a' a) {e : (TxId × Nat) × Credit} (he : e ∈ a'.pendCred) : e ∈ a.pendCred := by
  obtain ⟨p, hp⟩ := h
  rw [hp] at he
  exact (List.mem_filter.1 he).1

theorem Sc.nodup {a' a : Store} (h : Sc a' a) (hn : KeysNodup a.pendCred) : KeysNodup a'.pendCred := by
  obtain ⟨p, hp⟩ := h
  unfold KeysNodup at *
  rw [hp]
  exact (List.Sublist.map _ List.filter_sublist).nodup hn

theorem removeConflict_sc (own : Own) : ∀ fuel s tx, Sc (removeConflict own fuel s tx) s := by
  intro fuel
  induction fuel with
  | zero => intro s tx; exact Sc.refl s
  | succ n ih =>
    intro s tx
    rw [removeConflict_succ]
    have h1 : Sc ((List.range tx.outs.length).foldl (killOut own n tx.id) s) s := by
      apply foldl_inv (fun a => Sc a s) _ _ _ (Sc.refl s)
      intro a i _ ha
      have := killSpenders_inv (fun b => Sc b s) own n (fun b t hb => (ih b t).trans hb) a
        ((AMap.get a.pendIns (tx.id, i)).getD []) ha
      exact (sc_eraseCred _ _).trans this
    have hf1 := removeUnminedInputsOf_frame ((List.range tx.outs.length).foldl (killOut own n tx.id) s) tx
    simp only [exceptIns, Prod.mk.injEq] at hf1
    have hf2 := removeUnminedGameHistory_frame own
      (removeUnminedInputsOf ((List.range tx.outs.length).foldl (killOut own n tx.id) s) tx) tx
    simp only [exceptGame, Prod.mk.injEq] at hf2
    exact (sc_of_eq (a' := { removeUnminedGameHistory own _ tx with pending := _ }) hf2.2.2.1).trans
      ((sc_of_eq hf1.2.1).trans h1)

theorem killSpenders_sc (own : Own) (n : Nat) (a : Store) (l : List TxId) : Sc (killSpenders own n a l) a :=
  killSpenders_inv (fun b => Sc b a) own n (fun b t hb => (removeConflict_sc own n b t).trans hb) a l (Sc.refl a)

theorem removeDoubleSpends_sc (own : Own) (a : Store) (tr : TxRec) : Sc (removeDoubleSpends own a tr) a := by
  rw [removeDoubleSpends_eq]
  have hfr := deleteUnminedInputs_frame (dsLoop own (a.pending.length + 1) a tr.tx.ins) tr.tx
  simp only [exceptIns, Prod.mk.injEq] at hfr
  refine (sc_of_eq hfr.2.1).trans ?_
  unfold dsLoop
  apply foldl_inv (fun x => Sc x a) _ _ _ (Sc.refl a)
  intro x i _ hx
  exact (killSpenders_sc own _ x _).trans hx

theorem deleteUnminedCredits_sc (a : Store) (tx : Tx) : Sc (deleteUnminedCredits a tx) a := by
  unfold deleteUnminedCredits
  apply foldl_inv (fun x => Sc x a) _ _ _ (Sc.refl a)
  intro x i _ hx
  exact (sc_eraseCred x _).trans hx

theorem unpendMined_sc (a : Store) (tx : Tx) : Sc (unpendMined a tx) a := by
  unfold unpendMined
  split
  · exact (sc_of_eq (a' := { deleteUnminedCredits a tx with pending := _ }) rfl).trans (deleteUnminedCredits_sc a tx)
  · exact Sc.refl a

theorem confirmPending_sc (own : Own) (a : Store) (tr : TxRec) : Sc (confirmPending own a tr) a := by
  unfold confirmPending
  exact (removeDoubleSpends_sc own _ tr).trans (unpendMined_sc a tr.tx)

theorem purgeUnrelated_sc (own : Own) : ∀ (txs : List Tx) (s : Store), Sc (purgeUnrelated own s txs) s := by
  intro txs
  induction txs with
  | nil => intro s; exact Sc.refl s
  | cons t txs ih => intro s; exact (ih _).trans (removeDoubleSpends_sc own s { tx := t })

-- ------------------------------------------------------------------ the credit frame without the deposit records

/-- `CFrX` (PendHistCredFrame) without its deposit-record clauses, with the key-scan clause: going from `a` to `a'`
    no pending record appears or changes, the pending-credit bucket loses whole keys only, and a transaction that was
    pending and is not any more has no pending credit left at any of its output indexes -/
structure PFrX (ex : TxId → Prop) (a a' : Store) : Prop where
  pend : ∀ id t, AMap.get a'.pending id = some t → AMap.get a.pending id = some t
  sc : Sc a' a
  gone : ∀ t, ¬ ex t.id → AMap.get a.pending t.id = some t → AMap.get a'.pending t.id = none →
    ∀ j, j < t.outs.length → AMap.get a'.pendCred (t.id, j) = none

abbrev PFr := PFrX (fun _ => False)

theorem PFrX.refl (ex : TxId → Prop) (a : Store) : PFrX ex a a :=
  ⟨fun _ _ h => h, Sc.refl a, fun t _ h1 h2 => by rw [h1] at h2; cases h2⟩

theorem pfr_of_eq (ex : TxId → Prop) {a a' : Store} (h1 : a'.pending = a.pending) (h2 : a'.pendCred = a.pendCred) :
    PFrX ex a a' :=
  ⟨fun id t h => by rw [← h1]; exact h, sc_of_eq h2, fun t _ ha hn => by rw [h1, ha] at hn; cases hn⟩

theorem PFrX.of_cfrx {own : Own} {ex : TxId → Prop} {a a' : Store} (h : CFrX own ex a a') (hs : Sc a' a) :
    PFrX ex a a' :=
  ⟨h.pend, hs, fun t hn ha hg => (h.gone t hn ha hg).1⟩

theorem PFrX.weaken {ex ex' : TxId → Prop} {a a' : Store} (h : PFrX ex a a') (hsub : ∀ id, ex id → ex' id) :
    PFrX ex' a a' :=
  ⟨h.pend, h.sc, fun t hn => h.gone t (fun he => hn (hsub _ he))⟩

theorem PFrX.trans {ex : TxId → Prop} {a b c : Store} (h1 : PFrX ex a b) (h2 : PFrX ex b c) : PFrX ex a c := by
  refine ⟨fun id t h => h1.pend id t (h2.pend id t h), h2.sc.trans h1.sc, ?_⟩
  intro t hn ha hc j hj
  cases hb : AMap.get b.pending t.id with
  | none => exact h2.sc.get_none (h1.gone t hn ha hb j hj)
  | some t' =>
    have : t' = t := by have := h1.pend _ _ hb; rw [ha] at this; cases this; rfl
    subst this
    exact h2.gone t' hn hb hc j hj

theorem PFrX.keyId {ex : TxId → Prop} {a a' : Store} (h : PFrX ex a a') (hk : KeyId a) : KeyId a' :=
  fun id t hg => hk id t (h.pend id t hg)

theorem PFrX.pend_none {ex : TxId → Prop} {a a' : Store} (h : PFrX ex a a') {id : TxId}
    (hg : AMap.get a.pending id = none) : AMap.get a'.pending id = none := by
  cases hg' : AMap.get a'.pending id with
  | none => rfl
  | some t => rw [h.pend _ _ hg'] at hg; cases hg

/-- closing the exception of a confirm step -/
theorem PFrX.close {a a' : Store} {tx : Tx} (h : PFrX (fun id => id = tx.id) a a')
    (hroot : ∀ t, AMap.get a.pending tx.id = some t → t = tx)
    (hc : AMap.get a.pending tx.id = some tx → ∀ j, j < tx.outs.length → AMap.get a'.pendCred (tx.id, j) = none) :
    PFr a a' := by
  refine ⟨h.pend, h.sc, ?_⟩
  intro t _ ha hn
  by_cases he : t.id = tx.id
  · have : t = tx := hroot t (by rw [← he]; exact ha)
    subst this
    exact hc ha
  · exact h.gone t he ha hn

-- ------------------------------------------------------------------ one relevant record of a block

/-- AddRelevantTx (mined) for a record without transaction record yet: a frame, the record is written, and the
    transaction is not pending afterwards.  No hypothesis about the ready set. -/
theorem addRelevantMined_pfr (p : Params) (own : Own) (s s' : Store) (bals bals' : Bals) (tr : TxRec)
    (blk : BlockMeta) (h : addRelevantMined p own s bals tr blk = .ok (s', bals'))
    (hno : AMap.get s.txrecs (tr.tx.id, blk) = none) (hk : KeyId s)
    (hsame : ∀ t, AMap.get s.pending tr.tx.id = some t → t = tr.tx) :
    PFr s s' ∧ s'.txrecs = AMap.put s.txrecs (tr.tx.id, blk) tr.loc ∧ AMap.get s'.pending tr.tx.id = none := by
  obtain ⟨_, _, _, _, _, htr⟩ := addRelevantMined_trace p own s s' bals bals' tr blk h hno
  unfold addRelevantMined at h
  simp only [bind, Except.bind] at h
  cases hi : insertMinedTx own s bals tr blk with
  | error e => rw [hi] at h; cases h
  | ok r =>
    rw [hi] at h
    obtain ⟨sa, ba, ex⟩ := r
    simp only at h
    have hex : ex = false := by
      unfold insertMinedTx at hi
      rw [hno] at hi
      simp only [Option.isSome_none, Bool.false_eq_true, if_false, bind, Except.bind] at hi
      split at hi
      · cases hi
      · simp only [pure, Except.pure, Except.ok.injEq, Prod.mk.injEq] at hi
        exact hi.2.2.symm
    subst hex
    obtain ⟨s1, hps, hsa⟩ := insertMinedTx_pending own s bals tr blk sa ba hi
    simp only [pendSide, Prod.mk.injEq] at hps
    obtain ⟨q1, _, q3, _⟩ := hps
    have c1 : PFrX (fun id => id = tr.tx.id) s s1 := pfr_of_eq _ q1 q3
    have hk1 : KeyId s1 := c1.keyId hk
    have c2 : PFrX (fun id => id = tr.tx.id) s1 sa := by
      rw [hsa]; exact PFrX.of_cfrx (confirmPending_cfrx own s1 hk1 tr) (confirmPending_sc own s1 tr)
    obtain ⟨a1, a2, _⟩ := addCredits_exact p sa s' ba bals' tr blk h
    have c3 : PFrX (fun id => id = tr.tx.id) sa s' := pfr_of_eq _ a1 a2
    have hall := c1.trans (c2.trans c3)
    have hk' : KeyId (unpendMined s1 tr.tx) := hk1.mono (sub_unpendMined s1 tr.tx)
    have hgone : AMap.get s'.pending tr.tx.id = none := by
      rw [a1, hsa]
      cases hg : AMap.get (confirmPending own s1 tr).pending tr.tx.id with
      | none => rfl
      | some t =>
        have := (removeDoubleSpends_cfr own _ hk' tr).pend _ _ hg
        rw [unpendMined_pending] at this; cases this
    refine ⟨hall.close hsame ?_, htr, hgone⟩
    intro hp j hj
    rw [a2, hsa]
    have h0 : AMap.get (unpendMined s1 tr.tx).pendCred (tr.tx.id, j) = none :=
      unpendMined_cred s1 tr.tx (by rw [q1, hp]; rfl) j hj
    exact (removeDoubleSpends_sc own _ tr).get_none h0

/-- the loop of onRelevantBlockConnected: a frame, and none of the records' transactions is pending afterwards -/
theorem relevantFold_pfr (p : Params) (own : Own) (bm : BlockMeta) :
    ∀ (recs : List TxRec) (sb r : Store × Bals),
      recs.foldlM (fun (sb : Store × Bals) tr => addRelevantMined p own sb.1 sb.2 tr bm) sb = .ok r →
      (∀ tr ∈ recs, AMap.get sb.1.txrecs (tr.tx.id, bm) = none) →
      (recs.map (·.tx.id)).Nodup → KeyId sb.1 →
      (∀ tr ∈ recs, ∀ t, AMap.get sb.1.pending tr.tx.id = some t → t = tr.tx) →
      PFr sb.1 r.1 ∧ ∀ tr ∈ recs, AMap.get r.1.pending tr.tx.id = none := by
  intro recs
  induction recs with
  | nil =>
    intro sb r h _ _ _ _
    simp only [List.foldlM, pure, Except.pure, Except.ok.injEq] at h
    rw [← h]; exact ⟨PFrX.refl _ _, fun _ h => by cases h⟩
  | cons tr rest ih =>
    intro sb r h hno hnd hk hsame
    simp only [List.foldlM, bind, Except.bind] at h
    cases hf : addRelevantMined p own sb.1 sb.2 tr bm with
    | error e => rw [hf] at h; cases h
    | ok sb' =>
      rw [hf] at h
      obtain ⟨c1, h5, h6⟩ := addRelevantMined_pfr p own sb.1 sb'.1 sb.2 sb'.2 tr bm hf (hno tr (List.mem_cons_self ..)) hk
        (hsame tr (List.mem_cons_self ..))
      rw [List.map_cons, List.nodup_cons] at hnd
      obtain ⟨c2, hrest⟩ := ih sb' r h (by
        intro tr' htr'
        rw [h5, AMap.get_put]
        have hne : ¬ (tr.tx.id, bm) = (tr'.tx.id, bm) := by
          intro he
          have : tr.tx.id = tr'.tx.id := (Prod.mk.inj he).1
          exact hnd.1 (this ▸ List.mem_map.2 ⟨tr', htr', rfl⟩)
        rw [if_neg hne]
        exact hno tr' (List.mem_cons_of_mem _ htr')) hnd.2 (c1.keyId hk) (by
        intro tr' htr' t ht
        exact hsame tr' (List.mem_cons_of_mem _ htr') t (c1.pend _ _ ht))
      refine ⟨c1.trans c2, ?_⟩
      intro tr' htr'
      rcases List.mem_cons.1 htr' with rfl | h'
      · exact c2.pend_none h6
      · exact hrest tr' h'

theorem applyRelevant_pfr (c : Ctx) (s s' : Store) (ready : List Wid) (bm : BlockMeta) (recs : List TxRec)
    (h : applyRelevant c s ready bm recs = .ok s')
    (hno : ∀ tr ∈ recs, AMap.get s.txrecs (tr.tx.id, bm) = none) (hnd : (recs.map (·.tx.id)).Nodup)
    (hk : KeyId s) (hsame : ∀ tr ∈ recs, ∀ t, AMap.get s.pending tr.tx.id = some t → t = tr.tx) :
    PFr s s' ∧ ∀ tr ∈ recs, AMap.get s'.pending tr.tx.id = none := by
  unfold applyRelevant at h
  split at h
  · rename_i hemp
    cases h
    refine ⟨PFrX.refl _ _, ?_⟩
    intro tr htr
    rw [List.isEmpty_iff.1 hemp] at htr; cases htr
  · simp only [bind, Except.bind, pure, Except.pure] at h
    split at h
    · cases h
    · rename_i r hr
      cases h
      obtain ⟨c1, h1⟩ := relevantFold_pfr c.p c.own bm recs _ r hr hno hnd hk hsame
      exact ⟨c1.trans (pfr_of_eq _ rfl rfl), h1⟩

end MW.Lemmas.RemovePend
