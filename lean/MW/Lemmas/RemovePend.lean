/-
  C08, removal interleaved with follower events — THE PENDING-SIDE CLAUSE IS AN INVARIANT.
  The removal proofs need, at every removal step, `PendOK addrs s X` ("no unmined credit of ANOTHER wallet belongs to
  a transaction of the followed chain `X`", RemoveGlue).  Here: it is part of an invariant `PCI` of the interleaved
  histories (`IEv` / `istep` / `irun`, RemoveInterleave) whose block events extend the tip, so it need only be assumed
  where the removal starts — and there it follows from C09's invariant `HInvC`.

    `Sc a' a`        the pending-credit bucket of `a'` is a KEY scan of that of `a` (only whole keys are erased)
    `PFrX ex a a'`   C09's credit frame `CFrX` without its deposit-record clauses (those need every owner ready,
                     which is false while a wallet is flagged) + `Sc`
    `PCI`            the invariant;  clause (d) `KeysNodup s.pendCred` is needed because `PendOK` speaks about the
                     ENTRIES of the bucket and clause (b) about its lookups
    `pci_recv` `pci_rem` `pci_connect` `pci_restart`   preservation
    `DomP` / `pci_istep` / `pendOK_run`                the history level
    `pci_of_hinvc` / `pci_flag` / `pci_start`          the start: C09's invariant + distinct keys give `PCI`; the flag keeps it
    `pendNodup_stepH` / `pendNodup_runH`               clause (d) along EVERY C09 history (`filterBlock_sc`, `pn_disconnectBlock`,
                                                       `pn_recvTx`: the follower only puts / erases whole keys)
    `pci_reachable`                                    hence `PCI` where a removal starts after a C09 history in the domain
    `Ex`                                               a concrete interleaved history inside `DomP`
  NOT covered: reorganising notifications (Rollback re-creates pending credits from the mined ones; their transactions
  leave the chain): `EvDom` asks every `notify` to extend the follower's tip.
  Deviation from the plan: clause (a) is stated in lookup form (`AMap.get`), which is what C09 provides and all that is used.
-/
import MW.Lemmas.RemoveInterleave
import MW.Lemmas.RemoveGlue
import MW.Lemmas.RemoveReach
import MW.Lemmas.PendHistCredRun
namespace MW.Lemmas.RemovePend
open MW MW.Model.Ledger MW.Model.Remove MW.Spec.Chain MW.Spec.Books MW.Spec.Pending MW.Lemmas.Ledger
  MW.Lemmas.LedgerPending MW.Lemmas.PendHist MW.Lemmas.PendHist.Cred MW.Lemmas.RemoveGlue MW.Lemmas.RemoveInterleave

-- ------------------------------------------------------------------ key scans of the pending-credit bucket

/-- the pending-credit bucket of `a'` is that of `a` with the records of some KEYS erased -/
def Sc (a' a : Store) : Prop := ∃ p, a'.pendCred = AMap.scan a.pendCred p

theorem Sc.refl (a : Store) : Sc a a := ⟨fun _ => true, (scan_true _).symm⟩

theorem sc_of_eq {a' a : Store} (h : a'.pendCred = a.pendCred) : Sc a' a := ⟨fun _ => true, by rw [h, scan_true]⟩

theorem Sc.trans {a b c : Store} (h1 : Sc a b) (h2 : Sc b c) : Sc a c := by
  obtain ⟨p, hp⟩ := h1
  obtain ⟨q, hq⟩ := h2
  exact ⟨fun k => q k && p k, by rw [hp, hq, scan_scan]⟩

theorem sc_eraseCred (a : Store) (k : TxId × Nat) : Sc { a with pendCred := AMap.erase a.pendCred k } a :=
  ⟨_, erase_eq_scan _ _⟩

theorem Sc.get_some {a' a : Store} (h : Sc a' a) {k : TxId × Nat} {v : Credit}
    (hg : AMap.get a'.pendCred k = some v) : AMap.get a.pendCred k = some v := by
  obtain ⟨p, hp⟩ := h
  rw [hp, get_scan] at hg
  by_cases hpk : p k <;> simp [hpk] at hg
  exact hg

theorem Sc.get_none {a' a : Store} (h : Sc a' a) {k : TxId × Nat}
    (hg : AMap.get a.pendCred k = none) : AMap.get a'.pendCred k = none := by
  obtain ⟨p, hp⟩ := h
  rw [hp, get_scan]
  by_cases hpk : p k <;> simp [hpk, hg]

theorem Sc.mem {a' a : Store} (h : Sc a' a) {e : (TxId × Nat) × Credit} (he : e ∈ a'.pendCred) : e ∈ a.pendCred := by
  obtain ⟨p, hp⟩ := h
  rw [hp] at he
  exact (List.mem_filter.1 he).1

theorem Sc.nodup {a' a : Store} (h : Sc a' a) (hn : KeysNodup a.pendCred) : KeysNodup a'.pendCred := by
  obtain ⟨p, hp⟩ := h
  unfold KeysNodup at *
  rw [hp]
  exact (List.Sublist.map _ List.filter_sublist).nodup hn

theorem removeConflict_sc (own : Own) : ∀ fuel s tx, Sc (removeConflict own fuel s tx) s := by
  intro fuel
  induction fuel with
  | zero => intro s tx; exact Sc.refl s
  | succ n ih =>
    intro s tx
    rw [removeConflict_succ]
    have h1 : Sc ((List.range tx.outs.length).foldl (killOut own n tx.id) s) s := by
      apply foldl_inv (fun a => Sc a s) _ _ _ (Sc.refl s)
      intro a i _ ha
      have := killSpenders_inv (fun b => Sc b s) own n (fun b t hb => (ih b t).trans hb) a
        ((AMap.get a.pendIns (tx.id, i)).getD []) ha
      exact (sc_eraseCred _ _).trans this
    have hf1 := removeUnminedInputsOf_frame ((List.range tx.outs.length).foldl (killOut own n tx.id) s) tx
    simp only [exceptIns, Prod.mk.injEq] at hf1
    have hf2 := removeUnminedGameHistory_frame own
      (removeUnminedInputsOf ((List.range tx.outs.length).foldl (killOut own n tx.id) s) tx) tx
    simp only [exceptGame, Prod.mk.injEq] at hf2
    exact (sc_of_eq (a' := { removeUnminedGameHistory own _ tx with pending := _ }) hf2.2.2.1).trans
      ((sc_of_eq hf1.2.1).trans h1)

theorem killSpenders_sc (own : Own) (n : Nat) (a : Store) (l : List TxId) : Sc (killSpenders own n a l) a :=
  killSpenders_inv (fun b => Sc b a) own n (fun b t hb => (removeConflict_sc own n b t).trans hb) a l (Sc.refl a)

theorem removeDoubleSpends_sc (own : Own) (a : Store) (tr : TxRec) : Sc (removeDoubleSpends own a tr) a := by
  rw [removeDoubleSpends_eq]
  have hfr := deleteUnminedInputs_frame (dsLoop own (a.pending.length + 1) a tr.tx.ins) tr.tx
  simp only [exceptIns, Prod.mk.injEq] at hfr
  refine (sc_of_eq hfr.2.1).trans ?_
  unfold dsLoop
  apply foldl_inv (fun x => Sc x a) _ _ _ (Sc.refl a)
  intro x i _ hx
  exact (killSpenders_sc own _ x _).trans hx

theorem deleteUnminedCredits_sc (a : Store) (tx : Tx) : Sc (deleteUnminedCredits a tx) a := by
  unfold deleteUnminedCredits
  apply foldl_inv (fun x => Sc x a) _ _ _ (Sc.refl a)
  intro x i _ hx
  exact (sc_eraseCred x _).trans hx

theorem unpendMined_sc (a : Store) (tx : Tx) : Sc (unpendMined a tx) a := by
  unfold unpendMined
  split
  · exact (sc_of_eq (a' := { deleteUnminedCredits a tx with pending := _ }) rfl).trans (deleteUnminedCredits_sc a tx)
  · exact Sc.refl a

theorem confirmPending_sc (own : Own) (a : Store) (tr : TxRec) : Sc (confirmPending own a tr) a := by
  unfold confirmPending
  exact (removeDoubleSpends_sc own _ tr).trans (unpendMined_sc a tr.tx)

theorem purgeUnrelated_sc (own : Own) : ∀ (txs : List Tx) (s : Store), Sc (purgeUnrelated own s txs) s := by
  intro txs
  induction txs with
  | nil => intro s; exact Sc.refl s
  | cons t txs ih => intro s; exact (ih _).trans (removeDoubleSpends_sc own s { tx := t })

-- ------------------------------------------------------------------ the credit frame without the deposit records

/-- `CFrX` (PendHistCredFrame) without its deposit-record clauses, with the key-scan clause: going from `a` to `a'`
    no pending record appears or changes, the pending-credit bucket loses whole keys only, and a transaction that was
    pending and is not any more has no pending credit left at any of its output indexes -/
structure PFrX (ex : TxId → Prop) (a a' : Store) : Prop where
  pend : ∀ id t, AMap.get a'.pending id = some t → AMap.get a.pending id = some t
  sc : Sc a' a
  gone : ∀ t, ¬ ex t.id → AMap.get a.pending t.id = some t → AMap.get a'.pending t.id = none →
    ∀ j, j < t.outs.length → AMap.get a'.pendCred (t.id, j) = none

abbrev PFr := PFrX (fun _ => False)

theorem PFrX.refl (ex : TxId → Prop) (a : Store) : PFrX ex a a :=
  ⟨fun _ _ h => h, Sc.refl a, fun t _ h1 h2 => by rw [h1] at h2; cases h2⟩

theorem pfr_of_eq (ex : TxId → Prop) {a a' : Store} (h1 : a'.pending = a.pending) (h2 : a'.pendCred = a.pendCred) :
    PFrX ex a a' :=
  ⟨fun id t h => by rw [← h1]; exact h, sc_of_eq h2, fun t _ ha hn => by rw [h1, ha] at hn; cases hn⟩

theorem PFrX.of_cfrx {own : Own} {ex : TxId → Prop} {a a' : Store} (h : CFrX own ex a a') (hs : Sc a' a) :
    PFrX ex a a' :=
  ⟨h.pend, hs, fun t hn ha hg => (h.gone t hn ha hg).1⟩

theorem PFrX.weaken {ex ex' : TxId → Prop} {a a' : Store} (h : PFrX ex a a') (hsub : ∀ id, ex id → ex' id) :
    PFrX ex' a a' :=
  ⟨h.pend, h.sc, fun t hn => h.gone t (fun he => hn (hsub _ he))⟩

theorem PFrX.trans {ex : TxId → Prop} {a b c : Store} (h1 : PFrX ex a b) (h2 : PFrX ex b c) : PFrX ex a c := by
  refine ⟨fun id t h => h1.pend id t (h2.pend id t h), h2.sc.trans h1.sc, ?_⟩
  intro t hn ha hc j hj
  cases hb : AMap.get b.pending t.id with
  | none => exact h2.sc.get_none (h1.gone t hn ha hb j hj)
  | some t' =>
    have : t' = t := by have := h1.pend _ _ hb; rw [ha] at this; cases this; rfl
    subst this
    exact h2.gone t' hn hb hc j hj

theorem PFrX.keyId {ex : TxId → Prop} {a a' : Store} (h : PFrX ex a a') (hk : KeyId a) : KeyId a' :=
  fun id t hg => hk id t (h.pend id t hg)

theorem PFrX.pend_none {ex : TxId → Prop} {a a' : Store} (h : PFrX ex a a') {id : TxId}
    (hg : AMap.get a.pending id = none) : AMap.get a'.pending id = none := by
  cases hg' : AMap.get a'.pending id with
  | none => rfl
  | some t => rw [h.pend _ _ hg'] at hg; cases hg

/-- closing the exception of a confirm step -/
theorem PFrX.close {a a' : Store} {tx : Tx} (h : PFrX (fun id => id = tx.id) a a')
    (hroot : ∀ t, AMap.get a.pending tx.id = some t → t = tx)
    (hc : AMap.get a.pending tx.id = some tx → ∀ j, j < tx.outs.length → AMap.get a'.pendCred (tx.id, j) = none) :
    PFr a a' := by
  refine ⟨h.pend, h.sc, ?_⟩
  intro t _ ha hn
  by_cases he : t.id = tx.id
  · have : t = tx := hroot t (by rw [← he]; exact ha)
    subst this
    exact hc ha
  · exact h.gone t he ha hn

-- ------------------------------------------------------------------ one relevant record of a block

/-- AddRelevantTx (mined) for a record without transaction record yet: a frame, the record is written, and the
    transaction is not pending afterwards.  No hypothesis about the ready set. -/
theorem addRelevantMined_pfr (p : Params) (own : Own) (s s' : Store) (bals bals' : Bals) (tr : TxRec)
    (blk : BlockMeta) (h : addRelevantMined p own s bals tr blk = .ok (s', bals'))
    (hno : AMap.get s.txrecs (tr.tx.id, blk) = none) (hk : KeyId s)
    (hsame : ∀ t, AMap.get s.pending tr.tx.id = some t → t = tr.tx) :
    PFr s s' ∧ s'.txrecs = AMap.put s.txrecs (tr.tx.id, blk) tr.loc ∧ AMap.get s'.pending tr.tx.id = none := by
  obtain ⟨_, _, _, _, _, htr⟩ := addRelevantMined_trace p own s s' bals bals' tr blk h hno
  unfold addRelevantMined at h
  simp only [bind, Except.bind] at h
  cases hi : insertMinedTx own s bals tr blk with
  | error e => rw [hi] at h; cases h
  | ok r =>
    rw [hi] at h
    obtain ⟨sa, ba, ex⟩ := r
    simp only at h
    have hex : ex = false := by
      unfold insertMinedTx at hi
      rw [hno] at hi
      simp only [Option.isSome_none, Bool.false_eq_true, if_false, bind, Except.bind] at hi
      split at hi
      · cases hi
      · simp only [pure, Except.pure, Except.ok.injEq, Prod.mk.injEq] at hi
        exact hi.2.2.symm
    subst hex
    obtain ⟨s1, hps, hsa⟩ := insertMinedTx_pending own s bals tr blk sa ba hi
    simp only [pendSide, Prod.mk.injEq] at hps
    obtain ⟨q1, _, q3, _⟩ := hps
    have c1 : PFrX (fun id => id = tr.tx.id) s s1 := pfr_of_eq _ q1 q3
    have hk1 : KeyId s1 := c1.keyId hk
    have c2 : PFrX (fun id => id = tr.tx.id) s1 sa := by
      rw [hsa]; exact PFrX.of_cfrx (confirmPending_cfrx own s1 hk1 tr) (confirmPending_sc own s1 tr)
    obtain ⟨a1, a2, _⟩ := addCredits_exact p sa s' ba bals' tr blk h
    have c3 : PFrX (fun id => id = tr.tx.id) sa s' := pfr_of_eq _ a1 a2
    have hall := c1.trans (c2.trans c3)
    have hk' : KeyId (unpendMined s1 tr.tx) := hk1.mono (sub_unpendMined s1 tr.tx)
    have hgone : AMap.get s'.pending tr.tx.id = none := by
      rw [a1, hsa]
      cases hg : AMap.get (confirmPending own s1 tr).pending tr.tx.id with
      | none => rfl
      | some t =>
        have := (removeDoubleSpends_cfr own _ hk' tr).pend _ _ hg
        rw [unpendMined_pending] at this; cases this
    refine ⟨hall.close hsame ?_, htr, hgone⟩
    intro hp j hj
    rw [a2, hsa]
    have h0 : AMap.get (unpendMined s1 tr.tx).pendCred (tr.tx.id, j) = none :=
      unpendMined_cred s1 tr.tx (by rw [q1, hp]; rfl) j hj
    exact (removeDoubleSpends_sc own _ tr).get_none h0

/-- the loop of onRelevantBlockConnected: a frame, and none of the records' transactions is pending afterwards -/
theorem relevantFold_pfr (p : Params) (own : Own) (bm : BlockMeta) :
    ∀ (recs : List TxRec) (sb r : Store × Bals),
      recs.foldlM (fun (sb : Store × Bals) tr => addRelevantMined p own sb.1 sb.2 tr bm) sb = .ok r →
      (∀ tr ∈ recs, AMap.get sb.1.txrecs (tr.tx.id, bm) = none) →
      (recs.map (·.tx.id)).Nodup → KeyId sb.1 →
      (∀ tr ∈ recs, ∀ t, AMap.get sb.1.pending tr.tx.id = some t → t = tr.tx) →
      PFr sb.1 r.1 ∧ ∀ tr ∈ recs, AMap.get r.1.pending tr.tx.id = none := by
  intro recs
  induction recs with
  | nil =>
    intro sb r h _ _ _ _
    simp only [List.foldlM, pure, Except.pure, Except.ok.injEq] at h
    rw [← h]; exact ⟨PFrX.refl _ _, fun _ h => by cases h⟩
  | cons tr rest ih =>
    intro sb r h hno hnd hk hsame
    simp only [List.foldlM, bind, Except.bind] at h
    cases hf : addRelevantMined p own sb.1 sb.2 tr bm with
    | error e => rw [hf] at h; cases h
    | ok sb' =>
      rw [hf] at h
      obtain ⟨c1, h5, h6⟩ := addRelevantMined_pfr p own sb.1 sb'.1 sb.2 sb'.2 tr bm hf (hno tr (List.mem_cons_self ..)) hk
        (hsame tr (List.mem_cons_self ..))
      rw [List.map_cons, List.nodup_cons] at hnd
      obtain ⟨c2, hrest⟩ := ih sb' r h (by
        intro tr' htr'
        rw [h5, AMap.get_put]
        have hne : ¬ (tr.tx.id, bm) = (tr'.tx.id, bm) := by
          intro he
          have : tr.tx.id = tr'.tx.id := (Prod.mk.inj he).1
          exact hnd.1 (this ▸ List.mem_map.2 ⟨tr', htr', rfl⟩)
        rw [if_neg hne]
        exact hno tr' (List.mem_cons_of_mem _ htr')) hnd.2 (c1.keyId hk) (by
        intro tr' htr' t ht
        exact hsame tr' (List.mem_cons_of_mem _ htr') t (c1.pend _ _ ht))
      refine ⟨c1.trans c2, ?_⟩
      intro tr' htr'
      rcases List.mem_cons.1 htr' with rfl | h'
      · exact c2.pend_none h6
      · exact hrest tr' h'

theorem applyRelevant_pfr (c : Ctx) (s s' : Store) (ready : List Wid) (bm : BlockMeta) (recs : List TxRec)
    (h : applyRelevant c s ready bm recs = .ok s')
    (hno : ∀ tr ∈ recs, AMap.get s.txrecs (tr.tx.id, bm) = none) (hnd : (recs.map (·.tx.id)).Nodup)
    (hk : KeyId s) (hsame : ∀ tr ∈ recs, ∀ t, AMap.get s.pending tr.tx.id = some t → t = tr.tx) :
    PFr s s' ∧ ∀ tr ∈ recs, AMap.get s'.pending tr.tx.id = none := by
  unfold applyRelevant at h
  split at h
  · rename_i hemp
    cases h
    refine ⟨PFrX.refl _ _, ?_⟩
    intro tr htr
    rw [List.isEmpty_iff.1 hemp] at htr; cases htr
  · simp only [bind, Except.bind, pure, Except.pure] at h
    split at h
    · cases h
    · rename_i r hr
      cases h
      obtain ⟨c1, h1⟩ := relevantFold_pfr c.p c.own bm recs _ r hr hno hnd hk hsame
      exact ⟨c1.trans (pfr_of_eq _ rfl rfl), h1⟩

-- ------------------------------------------------------------------ filterTx: the relevant outputs (any ready set)

/-- an output of `t` pays a managed address of a READY wallet -/
def PaysReady (own : Own) (ready : List Wid) (t : Tx) : Prop :=
  ∃ (j : Nat) (o : Out) (w' : Wid) (ch : Bool),
    t.outs[j]? = some o ∧ o.cls ≠ .raw ∧ AMap.get own o.addr = some (w', ch) ∧ ready.contains w' = true

theorem filterOut_relOut_ne (c : Ctx) (ready : List Wid) (tr : TxRec) (cur : Nat) (o : Out) (h : tr.relOut ≠ []) :
    (filterOut c ready tr cur o).relOut ≠ [] := by
  unfold filterOut
  repeat' split
  all_goals first | exact h | simp

theorem filterOut_hit (c : Ctx) (ready : List Wid) (tr : TxRec) (cur : Nat) (o : Out) (w' : Wid) (ch : Bool)
    (h1 : o.cls ≠ .raw) (h2 : AMap.get c.own o.addr = some (w', ch)) (h3 : ready.contains w' = true) :
    (filterOut c ready tr cur o).relOut ≠ [] := by
  unfold filterOut
  rw [if_neg h1]
  simp only [h2, h3, if_true]
  simp

theorem filterOuts_hit (c : Ctx) (ready : List Wid) : ∀ (os : List Out) (n : Nat) (tr : TxRec) (j : Nat) (o : Out)
    (w' : Wid) (ch : Bool), os[j]? = some o → o.cls ≠ .raw → AMap.get c.own o.addr = some (w', ch) →
    ready.contains w' = true → (foldIdx (filterOut c ready) os n tr).relOut ≠ [] := by
  intro os
  induction os with
  | nil => intro n tr j o w' ch h; simp at h
  | cons x os ih =>
    intro n tr j o w' ch hj h1 h2 h3
    rw [show foldIdx (filterOut c ready) (x :: os) n tr = foldIdx (filterOut c ready) os (n + 1) (filterOut c ready tr n x)
      from rfl]
    cases j with
    | zero =>
      simp only [List.getElem?_cons_zero, Option.some.injEq] at hj
      subst hj
      exact foldIdx_inv (fun (a : TxRec) => a.relOut ≠ []) _ _ _ _ (filterOut_hit c ready tr n x w' ch h1 h2 h3)
        (fun a i y ha => filterOut_relOut_ne c ready a i y ha)
    | succ j =>
      simp only [List.getElem?_cons_succ] at hj
      exact ih (n + 1) _ j o w' ch hj h1 h2 h3

/-- what a relevant-output record says -/
def RelOK (own : Own) (ready : List Wid) (os : List Out) (rel : Rel) : Prop :=
  os[rel.index]? = some rel.out ∧ rel.out.cls ≠ .raw ∧ AMap.get own rel.out.addr = some (rel.wallet, rel.change) ∧
    ready.contains rel.wallet = true

theorem filterOuts_mem (c : Ctx) (ready : List Wid) : ∀ (os : List Out) (n : Nat) (tr : TxRec) (rel : Rel),
    rel ∈ (foldIdx (filterOut c ready) os n tr).relOut → rel ∈ tr.relOut ∨
      ∃ j, rel.index = n + j ∧ os[j]? = some rel.out ∧ rel.out.cls ≠ .raw ∧
        AMap.get c.own rel.out.addr = some (rel.wallet, rel.change) ∧ ready.contains rel.wallet = true := by
  intro os
  induction os with
  | nil => intro n tr rel h; exact Or.inl h
  | cons x os ih =>
    intro n tr rel h
    rw [show foldIdx (filterOut c ready) (x :: os) n tr = foldIdx (filterOut c ready) os (n + 1) (filterOut c ready tr n x)
      from rfl] at h
    rcases ih (n + 1) _ rel h with h1 | ⟨j, e1, e2, e3, e4, e5⟩
    · unfold filterOut at h1
      split at h1
      · exact Or.inl h1
      · rename_i hraw
        split at h1
        · rename_i w ch hown
          split at h1
          · rename_i hr
            rcases List.mem_append.1 h1 with h1 | h1
            · exact Or.inl h1
            · rw [List.mem_singleton] at h1
              subst h1
              exact Or.inr ⟨0, rfl, rfl, hraw, hown, hr⟩
          · exact Or.inl h1
        · exact Or.inl h1
    · exact Or.inr ⟨j + 1, by omega, by simpa using e2, e3, e4, e5⟩

/-- filterTx on a transaction that pays a ready wallet finds it relevant -/
theorem filterTxRel_some_of_pays (c : Ctx) (s : Store) (tx : Tx) (mined : Bool) (inBlk : List Tx) (ready : List Wid)
    (r : Option TxRec) (h : filterTxRel c s tx mined inBlk ready = .ok r) (hp : PaysReady c.own ready tx) :
    ∃ tr, r = some tr := by
  obtain ⟨j, o, w', ch, hj, h1, h2, h3⟩ := hp
  rw [MW.Lemmas.Ledger.filterTxRel_eq] at h
  simp only [bind, Except.bind] at h
  split at h
  · cases h
  · rename_i tr1 _
    have hne := filterOuts_hit c ready tx.outs 0 tr1 j o w' ch hj h1 h2 h3
    have hemp : (foldIdx (filterOut c ready) tx.outs 0 tr1).relOut.isEmpty = false := by
      cases hh : (foldIdx (filterOut c ready) tx.outs 0 tr1).relOut with
      | nil => exact absurd hh hne
      | cons _ _ => rfl
    rw [hemp, Bool.and_false] at h
    simp only [Bool.false_eq_true, if_false] at h
    split at h
    · cases h
    · cases h; exact ⟨_, rfl⟩

/-- the relevant outputs of a record found by filterTx: existing outputs paying managed addresses of ready wallets -/
theorem filterTxRel_relOK (c : Ctx) (s : Store) (tx : Tx) (mined : Bool) (inBlk : List Tx) (ready : List Wid)
    (tr : TxRec) (h : filterTxRel c s tx mined inBlk ready = .ok (some tr)) :
    ∀ rel ∈ tr.relOut, RelOK c.own ready tx.outs rel := by
  rw [MW.Lemmas.Ledger.filterTxRel_eq] at h
  simp only [bind, Except.bind] at h
  split at h
  · cases h
  · rename_i tr1 h1
    have e1 : tr1.relOut = [] := by
      split at h1
      · cases h1; rfl
      · exact foldIdxM_ok_inv (fun _ (a : TxRec) => a.relOut = []) _ _ _ _ _ rfl
          (fun a i x b' ha hf => (filterIn_relOut c s mined inBlk ready a b' i x hf).trans ha) h1
    have hm : ∀ rel ∈ (foldIdx (filterOut c ready) tx.outs 0 tr1).relOut, RelOK c.own ready tx.outs rel := by
      intro rel hrel
      rcases filterOuts_mem c ready tx.outs 0 tr1 rel hrel with h0 | ⟨j, e, e2, e3, e4, e5⟩
      · rw [e1] at h0; cases h0
      · refine ⟨?_, e3, e4, e5⟩
        rw [e, Nat.zero_add]; exact e2
    split at h
    · cases h
    · split at h
      · cases h
      · cases h; exact hm

/-- the first loop of filterBlock finds every transaction of the block that pays a ready wallet -/
theorem filterTxs_hit (c : Ctx) (s : Store) (ready : List Wid) (bid : BlkId) :
    ∀ (post seen : List Tx) (ti : Nat) (acc r : List TxRec),
      filterTxs c s ready bid post seen ti acc = .ok r →
      ∀ u ∈ post, PaysReady c.own ready u → ∃ tr ∈ r, tr.tx = u := by
  intro post
  induction post with
  | nil => intro seen ti acc r _ u hu; cases hu
  | cons tx rest ih =>
    intro seen ti acc r h u hu hp
    simp only [filterTxs, bind, Except.bind] at h
    cases hx : filterTxRel c s tx true (seen ++ [tx]) ready with
    | error e => rw [hx] at h; cases h
    | ok o =>
      rw [hx] at h
      rcases List.mem_cons.1 hu with rfl | hu'
      · obtain ⟨tr, rfl⟩ := filterTxRel_some_of_pays c s u true _ ready o hx hp
        simp only at h
        obtain ⟨recs, h1, _⟩ := filterTxs_sublist c s ready bid rest _ _ _ r h
        refine ⟨{ tr with loc := (bid, ti) }, ?_, filterTxRel_tx c s u true _ ready tr hx⟩
        rw [h1]; simp
      · cases o with
        | none => exact ih _ _ _ _ h u hu' hp
        | some tr => exact ih _ _ _ _ h u hu' hp

-- ------------------------------------------------------------------ CONNECTING A BLOCK (any ready set)

/-- filterBlock is a frame of the pending side, and no transaction of the block that pays a ready wallet is pending
    afterwards -/
theorem filterBlock_pfr (c : Ctx) (s s' : Store) (ready : List Wid) (b : Block) (conf : List TxId)
    (h : filterBlock c s ready b = .ok (s', conf))
    (hnorec : ∀ u ∈ b.txs, AMap.get s.txrecs (u.id, ⟨b.height, b.id⟩) = none)
    (hbnd : (b.txs.map (·.id)).Nodup) (hk : KeyId s)
    (hsame : ∀ u ∈ b.txs, ∀ t, AMap.get s.pending u.id = some t → t = u) :
    PFr s s' ∧ ∀ u ∈ b.txs, PaysReady c.own ready u → AMap.get s'.pending u.id = none := by
  unfold filterBlock at h
  simp only [throw, throwThe, MonadExceptOf.throw] at h
  split at h
  · cases h
  · split at h
    · cases h
    · cases hne : ready.isEmpty with
      | true =>
        have hr : ready = [] := List.isEmpty_iff.1 hne
        simp only [hne, if_true, bind, Except.bind, pure, Except.pure, applyRelevant, List.isEmpty_nil] at h
        cases hp : putSyncedTo (purgeUnrelated c.own s []) ⟨b.height, b.id⟩ with
        | error e => rw [hp] at h; cases h
        | ok s2 =>
          rw [hp] at h
          simp only [Except.ok.injEq, Prod.mk.injEq] at h
          obtain ⟨hs2, _⟩ := h
          subst hs2
          obtain ⟨q1, q2, _⟩ := putSyncedTo_cred _ _ _ hp
          refine ⟨pfr_of_eq _ q1 q2, ?_⟩
          rintro u _ ⟨_, _, w', _, _, _, _, h3⟩
          rw [hr] at h3; cases h3
      | false =>
        simp only [hne, Bool.false_eq_true, if_false, bind, Except.bind] at h
        cases hf : filterTxs c s ready b.id b.txs [] 0 [] with
        | error e => rw [hf] at h; cases h
        | ok recs =>
          rw [hf] at h
          simp only at h
          obtain ⟨recs', hr, hsub⟩ := filterTxs_sublist c s ready b.id b.txs [] 0 [] recs hf
          rw [List.nil_append] at hr
          subst hr
          cases ha : applyRelevant c s ready ⟨b.height, b.id⟩ recs with
          | error e => rw [ha] at h; cases h
          | ok s1 =>
            rw [ha] at h
            simp only at h
            cases hp : putSyncedTo (purgeUnrelated c.own s1 (unrelatedTxs b.txs recs)) ⟨b.height, b.id⟩ with
            | error e => rw [hp] at h; cases h
            | ok s2 =>
              rw [hp] at h
              simp only [pure, Except.pure, Except.ok.injEq, Prod.mk.injEq] at h
              obtain ⟨hs2, _⟩ := h
              subst hs2
              have hrecb : ∀ tr ∈ recs, tr.tx ∈ b.txs := fun tr htr => hsub.subset (List.mem_map.2 ⟨tr, htr, rfl⟩)
              have hnd : (recs.map (·.tx.id)).Nodup := by
                have : recs.map (·.tx.id) = (recs.map (·.tx)).map (·.id) := by rw [List.map_map]; rfl
                rw [this]
                exact (hsub.map (·.id)).nodup hbnd
              have hno : ∀ tr ∈ recs, AMap.get s.txrecs (tr.tx.id, ⟨b.height, b.id⟩) = none :=
                fun tr htr => hnorec tr.tx (hrecb tr htr)
              obtain ⟨c1, hg1⟩ := applyRelevant_pfr c s s1 ready _ recs ha hno hnd hk
                (fun tr htr => hsame tr.tx (hrecb tr htr))
              have c2 : PFr s1 (purgeUnrelated c.own s1 (unrelatedTxs b.txs recs)) :=
                PFrX.of_cfrx (purgeUnrelated_cfr c.own (unrelatedTxs b.txs recs) s1 (c1.keyId hk))
                  (purgeUnrelated_sc c.own _ s1)
              obtain ⟨q1, q2, _⟩ := putSyncedTo_cred _ _ _ hp
              have c3 : PFr (purgeUnrelated c.own s1 (unrelatedTxs b.txs recs)) s2 := pfr_of_eq _ q1 q2
              refine ⟨c1.trans (c2.trans c3), ?_⟩
              intro u hu hpay
              obtain ⟨tr, htr, he⟩ := filterTxs_hit c s ready b.id b.txs [] 0 [] recs hf u hu hpay
              have := (c2.trans c3).pend_none (hg1 tr htr)
              rw [he] at this; exact this

-- ------------------------------------------------------------------ THE INVARIANT

/-- the pending-side invariant of a removal in progress (`addrs` = the script hashes of the wallet being removed,
    `X` = the chain the follower has booked):
    (a) pending records are stored under their ids (lookup form: the follower and the removal only look records up),
    (b) an unmined credit of ANOTHER wallet belongs to a PENDING transaction, at an output paying a managed address,
    (c) `PendOK`: no unmined credit of another wallet belongs to a transaction of `X`,
    (d) the keys of the pending-credit bucket are pairwise distinct — needed because (c) and the removal
        (`removeRelevantUnminedCredit` filters the ENTRIES) speak about entries, (b) and the follower about lookups. -/
structure PCI (c : Ctx) (addrs : List Addr) (s : Store) (X : List Block) : Prop where
  keyId : ∀ id t, AMap.get s.pending id = some t → t.id = id
  owned : ∀ id j cr, AMap.get s.pendCred (id, j) = some cr → addrs.contains cr.sh = false →
    ∃ (t : Tx) (o : Out) (w' : Wid) (ch : Bool), AMap.get s.pending id = some t ∧ t.outs[j]? = some o ∧
      o.addr = cr.sh ∧ o.cls ≠ .raw ∧ AMap.get c.own o.addr = some (w', ch)
  pendOK : PendOK addrs s X
  nodup : KeysNodup s.pendCred

/-- only the keystore view of the context is read -/
theorem PCI.own {c c' : Ctx} {addrs : List Addr} {s : Store} {X : List Block} (H : PCI c addrs s X)
    (h : c'.own = c.own) : PCI c' addrs s X :=
  ⟨H.keyId, fun id j cr hg hs => by rw [h]; exact H.owned id j cr hg hs, H.pendOK, H.nodup⟩

theorem PCI.get_of_mem {c : Ctx} {addrs : List Addr} {s : Store} {X : List Block} (H : PCI c addrs s X)
    {e : (TxId × Nat) × Credit} (he : e ∈ s.pendCred) : AMap.get s.pendCred e.1 = some e.2 :=
  (mem_iff_get_of_nodup H.nodup e.1 e.2).1 he

/-- the ids of the chain extended by `b` -/
theorem mem_ids_snoc {X : List Block} {b : Block} {id : TxId} (h : id ∈ idsOf (occs (X ++ [b]))) :
    id ∈ idsOf (occs X) ∨ ∃ u ∈ b.txs, u.id = id := by
  rw [occs_append] at h
  unfold idsOf at h
  rw [List.map_append, List.mem_append] at h
  rcases h with h | h
  · exact Or.inl h
  · obtain ⟨oc, hoc, hid⟩ := List.mem_map.1 h
    obtain ⟨b', hb', hob⟩ := mem_occs.1 hoc
    rw [List.mem_singleton] at hb'
    subst hb'
    obtain ⟨m, hm, _, _⟩ := mem_occsFrom.1 hob
    exact Or.inr ⟨oc.t, List.mem_of_getElem? hm, hid⟩

-- ------------------------------------------------------------------ preservation: CONNECT

/-- CONNECTING a block `b` on top of the followed chain keeps the invariant, whatever the ready set, provided it
    holds the owner of every managed address that is not the removed wallet's.
    `hsame` = ids denote transactions (C09's `ConnOK.ident`), `hfresh` = no transaction record at this block yet
    (`insertMinedTx` does not take its "already recorded" branch), `hbnd` = the block's ids are pairwise distinct;
    what the node must answer is in `h` (the database transaction succeeded). -/
theorem pci_connect {c : Ctx} {addrs : List Addr} {s s' : Store} {X : List Block} {ready : List Wid} {b : Block}
    {conf : List TxId} (H : PCI c addrs s X) (h : filterBlock c s ready b = .ok (s', conf))
    (hready : ∀ a w' ch, AMap.get c.own a = some (w', ch) → addrs.contains a = false → ready.contains w' = true)
    (hsame : ∀ t' ∈ b.txs, ∀ t, AMap.get s.pending t'.id = some t → t = t')
    (hfresh : ∀ id, AMap.get s.txrecs (id, ⟨b.height, b.id⟩) = none)
    (hbnd : (b.txs.map (·.id)).Nodup) : PCI c addrs s' (X ++ [b]) := by
  obtain ⟨fr, hgone⟩ := filterBlock_pfr c s s' ready b conf h (fun u _ => hfresh u.id) hbnd H.keyId hsame
  have hown : ∀ id j cr, AMap.get s'.pendCred (id, j) = some cr → addrs.contains cr.sh = false →
      ∃ (t : Tx) (o : Out) (w' : Wid) (ch : Bool), AMap.get s'.pending id = some t ∧ t.outs[j]? = some o ∧
        o.addr = cr.sh ∧ o.cls ≠ .raw ∧ AMap.get c.own o.addr = some (w', ch) := by
    intro id j cr hg hsh
    obtain ⟨t, o, w', ch, hp, ho, ha, hr, hw⟩ := H.owned id j cr (fr.sc.get_some hg) hsh
    cases hp' : AMap.get s'.pending id with
    | none =>
      have hid := H.keyId id t hp
      have hlt : j < t.outs.length := by
        rcases Nat.lt_or_ge j t.outs.length with h1 | h1
        · exact h1
        · rw [List.getElem?_eq_none h1] at ho; cases ho
      have := fr.gone t (fun hf => hf) (by rw [hid]; exact hp) (by rw [hid]; exact hp') j hlt
      rw [hid, hg] at this; cases this
    | some t2 =>
      have := fr.pend _ _ hp'
      rw [hp] at this; cases this
      exact ⟨t, o, w', ch, rfl, ho, ha, hr, hw⟩
  have hnd : KeysNodup s'.pendCred := fr.sc.nodup H.nodup
  refine ⟨fr.keyId H.keyId, hown, ?_, hnd⟩
  intro e he hsh hmem
  rcases mem_ids_snoc hmem with h1 | ⟨u, hu, hid⟩
  · exact H.pendOK e (fr.sc.mem he) hsh h1
  · have hg : AMap.get s'.pendCred (e.1.1, e.1.2) = some e.2 := (mem_iff_get_of_nodup hnd e.1 e.2).1 he
    obtain ⟨t, o, w', ch, hp, ho, ha, hr, hw⟩ := hown e.1.1 e.1.2 e.2 hg hsh
    have hps : AMap.get s.pending u.id = some t := by rw [hid]; exact fr.pend _ _ hp
    have htu : t = u := hsame u hu t hps
    subst htu
    have hpay : PaysReady c.own ready t :=
      ⟨e.1.2, o, w', ch, ho, hr, hw, hready o.addr w' ch hw (by rw [ha]; exact hsh)⟩
    have := hgone t hu hpay
    rw [hid, hp] at this; cases this

-- ------------------------------------------------------------------ preservation: RECEIVE

theorem addUnminedCredits_nodup (s s' : Store) (tr : TxRec) (h : addUnminedCredits s tr = .ok s')
    (hn : KeysNodup s.pendCred) : KeysNodup s'.pendCred := by
  unfold addUnminedCredits at h
  simp only [bind, Except.bind] at h
  cases hf : List.foldlM (addUnminedCredit tr) s tr.relOut with
  | error e => rw [hf] at h; cases h
  | ok s1 =>
    rw [hf] at h
    simp only [pure, Except.pure, Except.ok.injEq] at h
    have h1 : KeysNodup s1.pendCred :=
      foldlM_ok_inv (fun (a : Store) => KeysNodup a.pendCred) _ _ _ _ hn (fun a x b' ha hx => by
        rw [(addUnminedCredit_ok tr a b' x hx).1]; exact keysNodup_put ha _ _) hf
    rw [← h, (gamePut_exact tr.tx.id (gameOuts tr) s1).2.1]
    exact h1

/-- what insertMemPoolTx + AddCredits(unmined) does to the pending records and the pending credits -/
theorem addRelevantUnmined_shape (s s' : Store) (tr : TxRec) (h : addRelevantUnmined s tr = .ok s') :
    ∃ s0 : Store, s0.pendCred = s.pendCred ∧
      ((s0.pending = s.pending ∧ (AMap.get s.pending tr.tx.id).isSome = true) ∨
       (s0.pending = AMap.put s.pending tr.tx.id tr.tx ∧ AMap.get s.pending tr.tx.id = none)) ∧
      (s' = s0 ∨ addUnminedCredits s0 tr = .ok s') := by
  unfold addRelevantUnmined at h
  simp only [throw, throwThe, MonadExceptOf.throw, pure, Except.pure] at h
  split at h
  · cases h
  · split at h
    · rename_i hp
      refine ⟨s, rfl, Or.inl ⟨rfl, hp⟩, ?_⟩
      split at h
      · cases h; exact Or.inl rfl
      · exact Or.inr h
    · rename_i hp
      have hf := insertUnminedInputs_frame { s with pending := AMap.put s.pending tr.tx.id tr.tx } tr
      simp only [exceptIns, Prod.mk.injEq] at hf
      refine ⟨insertUnminedInputs { s with pending := AMap.put s.pending tr.tx.id tr.tx } tr, hf.2.1,
        Or.inr ⟨hf.1, ?_⟩, ?_⟩
      · cases hg : AMap.get s.pending tr.tx.id with
        | none => rfl
        | some x => rw [hg] at hp; simp at hp
      · split at h
        · cases h; exact Or.inl rfl
        · exact Or.inr h

/-- RECEIVING an unconfirmed transaction keeps the invariant (any ready set — it is the store's).
    `hfresh`: the delivered transaction is not on the followed chain (C09's `fresh`); `hid`: if its id is already
    pending, it is that transaction (ids denote transactions; AddCredits runs again on an already pending id). -/
theorem pci_recv {c : Ctx} {addrs : List Addr} {s : Store} {X : List Block} (v : Vol) (t : Tx)
    (H : PCI c addrs s X) (hfresh : t.id ∉ idsOf (occs X))
    (hid : ∀ t0, AMap.get s.pending t.id = some t0 → t0 = t) : PCI c addrs (recvTx c s v t).1 X := by
  by_cases hm : v.mempool.contains t.id = true
  · rw [recvTx_of_mem c s v t hm]; exact H
  cases hf : filterTxRel c s t false [] (readyWallets s c.wallets) with
  | error err => rw [recvTx_of_error c s v t err hf]; exact H
  | ok r =>
    cases r with
    | none => rw [recvTx_of_none c s v t hf]; exact H
    | some tr =>
      cases ha : addRelevantUnmined s tr with
      | error err => rw [recvTx_of_adderr c s v t tr err hf ha]; exact H
      | ok s' =>
        rw [recvTx_of_addok c s v t tr s' hm hf ha]
        have htx : tr.tx = t := filterTxRel_tx c s t false [] _ tr hf
        have hrel := filterTxRel_relOK c s t false [] _ tr hf
        obtain ⟨s0, hc0, hp0, hs'⟩ := addRelevantUnmined_shape s s' tr ha
        rw [htx] at hp0
        -- the intermediate store
        have hget0 : ∀ id, AMap.get s0.pending id = if t.id = id then some t else AMap.get s.pending id := by
          intro id
          rcases hp0 with ⟨e, hsome⟩ | ⟨e, _⟩
          · rw [e]
            split
            · rename_i he
              obtain ⟨t0, h0⟩ := Option.isSome_iff_exists.1 hsome
              rw [← he, h0, hid t0 h0]
            · rfl
          · rw [e, AMap.get_put]
        have H0 : PCI c addrs s0 X := by
          refine ⟨?_, ?_, ?_, by rw [hc0]; exact H.nodup⟩
          · intro id t0 hg
            rw [hget0] at hg
            split at hg
            · rename_i he; cases hg; exact he
            · exact H.keyId id t0 hg
          · intro id j cr hg hsh
            rw [hc0] at hg
            obtain ⟨t0, o, w', ch, hp, rest⟩ := H.owned id j cr hg hsh
            refine ⟨t0, o, w', ch, ?_, rest⟩
            rw [hget0]
            split
            · rename_i he; rw [← he] at hp; rw [hid t0 hp]
            · exact hp
          · intro e he; rw [hc0] at he; exact H.pendOK e he
        rcases hs' with rfl | hadd
        · exact H0
        · obtain ⟨l1, _, _, l4, _⟩ := addUnminedCredits_exact s0 s' tr hadd
          have hnd := addUnminedCredits_nodup s0 s' tr hadd H0.nodup
          refine ⟨fun id t0 hg => H0.keyId id t0 (by rw [← l1]; exact hg), ?_, ?_, hnd⟩
          · intro id j cr hg hsh
            rw [l1]
            rcases l4 (id, j) cr hg with hold | ⟨rel, hrel', hk, hcr⟩
            · exact H0.owned id j cr hold hsh
            · obtain ⟨r1, r2, r3, _⟩ := hrel rel hrel'
              simp only [Prod.mk.injEq] at hk
              refine ⟨t, rel.out, rel.wallet, rel.change, ?_, ?_, ?_, r2, r3⟩
              · rw [hk.1, htx, hget0, if_pos rfl]
              · rw [hk.2]; exact r1
              · rw [hcr]; rfl
          · intro e he hsh
            have hg : AMap.get s'.pendCred e.1 = some e.2 := (mem_iff_get_of_nodup hnd e.1 e.2).1 he
            rcases l4 e.1 e.2 hg with hold | ⟨rel, _, hk, _⟩
            · exact H0.pendOK e ((mem_iff_get_of_nodup H0.nodup e.1 e.2).2 hold) hsh
            · rw [hk, htx]; exact hfresh

-- ------------------------------------------------------------------ preservation: a REMOVAL step

/-- no output of `t` pays a managed address outside `addrs` (the output half of `removable`) -/
def NoOther (own : Own) (addrs : List Addr) (t : Tx) : Prop :=
  t.outs.any (fun o => o.cls != .raw && !addrs.contains o.addr && (AMap.get own o.addr).isSome) = false

/-- the pending records only shrink, and an erased record pays no other managed address -/
def PShr (own : Own) (addrs : List Addr) (a a' : Store) : Prop :=
  (∀ id t, AMap.get a'.pending id = some t → AMap.get a.pending id = some t) ∧
  (∀ id t, AMap.get a.pending id = some t → AMap.get a'.pending id = none → NoOther own addrs t)

theorem PShr.of_eq {own : Own} {addrs : List Addr} {a a' : Store} (h : a'.pending = a.pending) : PShr own addrs a a' :=
  ⟨fun id t hg => by rw [← h]; exact hg, fun id t hg hn => by rw [h, hg] at hn; cases hn⟩

theorem PShr.trans {own : Own} {addrs : List Addr} {a b c : Store} (h1 : PShr own addrs a b) (h2 : PShr own addrs b c) :
    PShr own addrs a c := by
  refine ⟨fun id t hg => h1.1 id t (h2.1 id t hg), ?_⟩
  intro id t hg hn
  cases hb : AMap.get b.pending id with
  | none => exact h1.2 id t hg hb
  | some t' =>
    have := h1.1 id t' hb
    rw [hg] at this; cases this
    exact h2.2 id t hb hn

theorem removeUnminedTxs_pshr (own : Own) (s : Store) (addrs : List Addr) (hs : List TxId) :
    PShr own addrs s (removeUnminedTxs own s addrs hs).1 := by
  unfold removeUnminedTxs
  apply foldl_inv (fun (acc : Store × List TxId) => PShr own addrs s acc.1) _ _ _ (PShr.of_eq rfl)
  intro acc h _ hacc
  rcases MW.Lemmas.RemoveFrame.unminedStep_cases own addrs acc h with e | ⟨tx, htx, hrem, e⟩
  · rw [e]; exact hacc
  · rw [e]
    refine hacc.trans ⟨?_, ?_⟩
    · intro id t hg
      have hg' : AMap.get (AMap.erase acc.1.pending h) id = some t := hg
      rw [AMap.get_erase] at hg'
      split at hg'
      · cases hg'
      · exact hg'
    · intro id t hg hn
      have hn' : AMap.get (AMap.erase acc.1.pending h) id = none := hn
      rw [AMap.get_erase] at hn'
      split at hn'
      · rename_i he
        rw [← he, htx] at hg; cases hg
        unfold removable at hrem
        rw [Bool.and_eq_true, Bool.not_eq_true'] at hrem
        exact hrem.1
      · rw [hg] at hn'; cases hn'

/-- RemoveRelevantTx on the pending records -/
theorem removeRelevantTx_pshr (limit : Nat) (c : Ctx) (s : Store) (addrs : List Addr) (o : StepOut)
    (hne : addrs ≠ []) (h : removeRelevantTx limit c s addrs = some o) : PShr c.own addrs s o.s := by
  obtain ⟨uh, del1, del3, s2, del2, _, hr, rfl⟩ := (MW.Lemmas.RemoveStep.removeRelevantTx_pipeline limit c s addrs o hne h).ex
  have e0 : PShr c.own addrs s (removeRelevantUnminedCredit s addrs).1 := PShr.of_eq (MW.Lemmas.RemoveStep.unminedCredit_pending _ _)
  have e1 := removeUnminedTxs_pshr c.own (removeRelevantUnminedCredit s addrs).1 addrs uh
  have e2 : PShr c.own addrs (removeUnminedTxs c.own (removeRelevantUnminedCredit s addrs).1 addrs uh).1
      (removeRelevantCredit limit (removeUnminedTxs c.own (removeRelevantUnminedCredit s addrs).1 addrs uh).1 addrs).s :=
    PShr.of_eq (MW.Lemmas.RemoveStep.scan_recs_pending limit _ addrs).2
  have e3 := removeUnminedTxs_pshr c.own
    (removeRelevantCredit limit (removeUnminedTxs c.own (removeRelevantUnminedCredit s addrs).1 addrs uh).1 addrs).s addrs
    (removeRelevantCredit limit (removeUnminedTxs c.own (removeRelevantUnminedCredit s addrs).1 addrs uh).1 addrs).spenders
  have e4 : PShr c.own addrs (removeUnminedTxs c.own
      (removeRelevantCredit limit (removeUnminedTxs c.own (removeRelevantUnminedCredit s addrs).1 addrs uh).1 addrs).s addrs
      (removeRelevantCredit limit (removeUnminedTxs c.own (removeRelevantUnminedCredit s addrs).1 addrs uh).1 addrs).spenders).1
      (checkBlockRecords s2 del2) := PShr.of_eq (by
    rw [MW.Lemmas.RemoveStep.blockRecords_proj Store.pending (fun _ _ => rfl)]
    exact MW.Lemmas.RemoveStep.minedTxs_proj Store.pending (fun _ _ => rfl) c _ addrs _ (s2, del2) hr)
  exact e0.trans (e1.trans (e2.trans (e3.trans e4)))

/-- ONE RemoveRelevantTx (a removal step that does not finish: `removeStep_parked`) keeps the invariant: the
    pending-credit bucket is filtered to the entries of the other script hashes; a pending record is erased only if
    `removable`, and then none of its outputs pays another managed address — by (b) it carries no surviving credit. -/
theorem pci_rem {limit : Nat} {c : Ctx} {addrs : List Addr} {s : Store} {X : List Block} {o : StepOut}
    (H : PCI c addrs s X) (h : removeRelevantTx limit c s addrs = some o) : PCI c addrs o.s X := by
  by_cases hne : addrs = []
  · unfold removeRelevantTx at h
    rw [hne] at h
    simp only [List.isEmpty_nil, if_true, Option.some.injEq] at h
    rw [← h, hne]; rw [hne] at H; exact H
  have hpc := (MW.Lemmas.RemoveStep.removeRelevantTx_spec limit c s addrs o hne h).pendCred
  obtain ⟨p1, p2⟩ := removeRelevantTx_pshr limit c s addrs o hne h
  have hmem : ∀ e, e ∈ o.s.pendCred → e ∈ s.pendCred := by
    intro e he; rw [hpc] at he; exact (List.mem_filter.1 he).1
  have hnd : KeysNodup o.s.pendCred := by
    unfold KeysNodup at *
    rw [hpc]
    exact (List.Sublist.map _ List.filter_sublist).nodup H.nodup
  refine ⟨fun id t hg => H.keyId id t (p1 id t hg), ?_, fun e he hsh => H.pendOK e (hmem e he) hsh, hnd⟩
  intro id j cr hg hsh
  have hg0 : AMap.get s.pendCred (id, j) = some cr :=
    (mem_iff_get_of_nodup H.nodup _ _).1 (hmem _ (MW.Lemmas.LedgerPending.mem_of_get hg))
  obtain ⟨t, o', w', ch, hp, ho, ha, hr, hw⟩ := H.owned id j cr hg0 hsh
  cases hp' : AMap.get o.s.pending id with
  | some t2 =>
    have := p1 _ _ hp'
    rw [hp] at this; cases this
    exact ⟨t, o', w', ch, rfl, ho, ha, hr, hw⟩
  | none =>
    have hno := p2 id t hp hp'
    unfold NoOther at hno
    have : t.outs.any (fun o => o.cls != .raw && !addrs.contains o.addr && (AMap.get c.own o.addr).isSome) = true := by
      apply List.any_eq_true.2
      refine ⟨o', List.mem_of_getElem? ho, ?_⟩
      rw [← ha] at hsh
      rw [hsh, hw]
      simp [hr]
    rw [hno] at this; cases this

/-- RESTART: the store is unchanged -/
theorem pci_restart {c : Ctx} {addrs : List Addr} {s : Store} {X : List Block} (H : PCI c addrs s X) : PCI c addrs s X := H

-- ------------------------------------------------------------------ the history level

/-- the invariant reads the pending records and the pending-credit bucket only -/
theorem PCI.congr {c : Ctx} {addrs : List Addr} {s s' : Store} {X : List Block} (H : PCI c addrs s X)
    (h1 : s'.pending = s.pending) (h2 : s'.pendCred = s.pendCred) : PCI c addrs s' X :=
  ⟨fun id t hg => H.keyId id t (by rw [← h1]; exact hg),
   fun id j cr hg hs => by rw [h1]; exact H.owned id j cr (by rw [← h2]; exact hg) hs,
   fun e he => H.pendOK e (by rw [← h2]; exact he), by rw [h2]; exact H.nodup⟩

/-- a tip notification whose block extends the follower's best block is ONE `filterBlock` on the store's ready set -/
theorem processBlock_extend (c : Ctx) (s : Store) (v : Vol) (b : Block) (hprev : b.prev = v.best.hash)
    (hok : (processBlock c s v b).2.2 = true) :
    ∃ conf, filterBlock c s (readyWallets s c.wallets) b = .ok ((processBlock c s v b).1, conf) := by
  unfold processBlock at hok ⊢
  simp only [hprev, if_true, bind, Except.bind] at hok ⊢
  cases hf : filterBlock c s (readyWallets s c.wallets) b with
  | error e => rw [hf] at hok; simp at hok
  | ok r => exact ⟨r.2, rfl⟩

/-- a removal step (finishing or not) changes the pending side as its RemoveRelevantTx does -/
theorem removeStep_pendSide {limit : Nat} {c : Ctx} {w : Wid} {addrs : List Addr} {s : Store} {o : StepOut}
    (h : removeStep limit c w addrs s = some o) :
    ∃ o1, removeRelevantTx limit c s addrs = some o1 ∧ o.s.pending = o1.s.pending ∧ o.s.pendCred = o1.s.pendCred := by
  unfold removeStep at h
  cases hr : removeRelevantTx limit c s addrs with
  | none => rw [hr] at h; cases h
  | some o1 =>
    rw [hr] at h
    simp only at h
    split at h
    · cases h; exact ⟨_, rfl, rfl, rfl⟩
    · cases h; exact ⟨_, rfl, rfl, rfl⟩

/-- DOMAIN of one event at a state of an interleaved history:
    `recv t`     the delivered transaction is not on the followed chain, and if its id is pending it is that transaction;
    `notify n b` the announced chain is the followed chain extended by `b`, `b` extends the follower's best block, and
                 the hypotheses of `pci_connect` at that state (ready set = the store's);
    `rem`, `restart`  nothing. -/
def EvDom (c : Ctx) (addrs : List Addr) (x : ISt) : IEv → Prop
  | .rem => True
  | .restart _ => True
  | .recv t => t.id ∉ idsOf (occs x.node.chain) ∧ ∀ t0, AMap.get x.s.pending t.id = some t0 → t0 = t
  | .notify n b => n.chain = x.node.chain ++ [b] ∧ b.prev = x.v.best.hash ∧
      (∀ a w' ch, AMap.get c.own a = some (w', ch) → addrs.contains a = false →
        (readyWallets x.s c.wallets).contains w' = true) ∧
      (∀ t' ∈ b.txs, ∀ t, AMap.get x.s.pending t'.id = some t → t = t') ∧
      (∀ id, AMap.get x.s.txrecs (id, ⟨b.height, b.id⟩) = none) ∧
      (b.txs.map (·.id)).Nodup

/-- the domain along a history (each event at the state it happens in) -/
def DomP (limit : Nat) (c : Ctx) (w : Wid) (addrs : List Addr) : ISt → List IEv → Prop
  | _, [] => True
  | x, ev :: evs => EvDom c addrs x ev ∧
    match istep limit c w addrs x ev with
    | none => True
    | some x' => DomP limit c w addrs x' evs

/-- ONE EVENT keeps the invariant (on the chain the follower was last told about) -/
theorem pci_istep {limit : Nat} {c : Ctx} {w : Wid} {addrs : List Addr} {x x' : ISt} {ev : IEv}
    (H : PCI c addrs x.s x.node.chain) (D : EvDom c addrs x ev) (h : istep limit c w addrs x ev = some x') :
    PCI c addrs x'.s x'.node.chain := by
  cases ev with
  | rem =>
    simp only [istep] at h
    split at h
    · cases h
    · split at h
      · cases h
      · rename_i o ho
        injection h with h; rw [← h]
        obtain ⟨o1, hr, e1, e2⟩ := removeStep_pendSide ho
        have := pci_rem (H.own (c' := { c with node := x.node }) rfl) hr
        exact (this.congr e1 e2).own rfl
  | notify n b =>
    obtain ⟨hch, hprev, hready, hsame, hfresh, hbnd⟩ := D
    simp only [istep] at h
    split at h
    · cases h
    · split at h
      · rename_i hok
        injection h with h; rw [← h]
        obtain ⟨conf, hf⟩ := processBlock_extend { c with node := n } x.s x.v b hprev hok
        show PCI c addrs (processBlock { c with node := n } x.s x.v b).1 n.chain
        rw [hch]
        exact (pci_connect (H.own (c' := { c with node := n }) rfl) hf hready hsame hfresh hbnd).own rfl
      · cases h
  | recv t =>
    simp only [istep] at h
    split at h
    · cases h
    · split at h
      · injection h with h; rw [← h]
        exact (pci_recv x.v t (H.own (c' := { c with node := x.node }) rfl) D.1 D.2).own rfl
      · cases h
  | restart v =>
    simp only [istep] at h
    split at h
    · cases h
    · injection h with h; rw [← h]; exact H

theorem pci_irun {limit : Nat} {c : Ctx} {w : Wid} {addrs : List Addr} :
    ∀ (evs : List IEv) (x x' : ISt), PCI c addrs x.s x.node.chain → DomP limit c w addrs x evs →
      irun limit c w addrs x evs = some x' → PCI c addrs x'.s x'.node.chain := by
  intro evs
  induction evs with
  | nil => intro x x' H _ h; simp only [irun] at h; injection h with h; rw [← h]; exact H
  | cons ev evs ih =>
    intro x x' H D h
    simp only [irun] at h
    obtain ⟨D1, D2⟩ := D
    cases hs : istep limit c w addrs x ev with
    | none => rw [hs] at h; cases h
    | some x1 =>
      rw [hs] at h D2
      exact ih x1 x' (pci_istep H D1 hs) D2 h

theorem domP_prefix {limit : Nat} {c : Ctx} {w : Wid} {addrs : List Addr} :
    ∀ (pre suf : List IEv) (x : ISt), DomP limit c w addrs x (pre ++ suf) → DomP limit c w addrs x pre := by
  intro pre
  induction pre with
  | nil => intro _ _ _; trivial
  | cons ev pre ih =>
    intro suf x D
    obtain ⟨D1, D2⟩ := D
    refine ⟨D1, ?_⟩
    cases hs : istep limit c w addrs x ev with
    | none => trivial
    | some x1 => rw [hs] at D2; exact ih suf x1 D2

/-- **THE PENDING-SIDE CLAUSE ALONG INTERLEAVED HISTORIES**: from a state satisfying `PCI`, inside the domain, EVERY
    state of the run (the state after every prefix of the history) satisfies `PCI`, in particular `PendOK` for the
    chain the follower was last told about — the hypothesis the removal steps need -/
theorem pendOK_run {limit : Nat} {c : Ctx} {w : Wid} {addrs : List Addr} {x0 : ISt} {evs : List IEv}
    (H0 : PCI c addrs x0.s x0.node.chain) (D : DomP limit c w addrs x0 evs) :
    ∀ (pre suf : List IEv) (y : ISt), evs = pre ++ suf → irun limit c w addrs x0 pre = some y →
      PCI c addrs y.s y.node.chain ∧ PendOK addrs y.s y.node.chain := by
  intro pre suf y he hr
  have := pci_irun pre x0 y H0 (domP_prefix pre suf x0 (he ▸ D)) hr
  exact ⟨this, this.pendOK⟩

-- ------------------------------------------------------------------ the start: C09's invariant, the removal flag

/-- C09's invariant gives `PCI`, for any set of script hashes: the pending credits are the owned outputs of the
    specification's pending transactions (`CredRel.csound`), which are the pending records (`PendRel.ids`) and are
    not on the wallet's chain (`Consistent`).  The distinctness of the bucket's keys is not part of C09's relations
    (they speak about lookups): it is asked for. -/
theorem pci_of_hinvc {rank : TxId → Nat} {E : HEnv} {w0 : HW} (H : HInvC rank E w0)
    (hn : KeysNodup w0.s.pendCred) (addrs : List Addr) : PCI (E.ctx w0.node) addrs w0.s w0.sp.chain := by
  refine ⟨keyId_of_rel H.inv.rel, ?_, fun e he _ => MW.Lemmas.RemoveReach.pendOff_of_hinvc H e he, hn⟩
  intro id j cr hg _
  obtain ⟨t, ht, hid, o, ho, hown, _, _, hsh⟩ := H.cred.csound id j cr hg
  obtain ⟨w', ch, hw⟩ := (ownedOut_iff_ownerOf E.env o).1 hown
  unfold ownerOf at hw
  split at hw
  · cases hw
  · rename_i hraw
    exact ⟨t, o, w', ch, (H.inv.rel.ids id t).2 ⟨ht, hid⟩, ho, hsh.symm, hraw, hw⟩

/-- setting the removal flag (`removeWallet`: the status bucket only) keeps the invariant, whatever the outcome -/
theorem pci_flag {c : Ctx} {addrs : List Addr} {s : Store} {X : List Block} (H : PCI c addrs s X)
    (queueLen : Nat) (keystores : List Wid) (passOk : Bool) (w : Wid) :
    PCI c addrs (removeWallet queueLen keystores passOk s w).2 X := by
  apply H.congr
  · unfold removeWallet; repeat' split
    all_goals rfl
  · unfold removeWallet; repeat' split
    all_goals rfl

/-- … so the invariant holds where every removal starts in a state reached by a C09 history -/
theorem pci_start {rank : TxId → Nat} {E : HEnv} {w0 : HW} (H : HInvC rank E w0) (hn : KeysNodup w0.s.pendCred)
    (addrs : List Addr) (queueLen : Nat) (keystores : List Wid) (passOk : Bool) (w : Wid) :
    PCI (E.ctx w0.node) addrs (removeWallet queueLen keystores passOk w0.s w).2 w0.sp.chain :=
  pci_flag (pci_of_hinvc H hn addrs) queueLen keystores passOk w

-- ------------------------------------------------------------------ clause (d) along C09 histories (no domain needed)

theorem insertMinedTx_sc {own : Own} {s : Store} {bals : Bals} {tr : TxRec} {blk : BlockMeta}
    {r : Store × Bals × Bool} (h : insertMinedTx own s bals tr blk = .ok r) : Sc r.1 s := by
  unfold insertMinedTx at h
  split at h
  · cases h; exact Sc.refl s
  · obtain ⟨r1, h1, h2⟩ := M_bind_ok h
    cases h2
    have hp := updateMinedBalance_pendSide _ _ _ _ _ h1
    simp only [pendSide, Prod.mk.injEq] at hp
    have e : r1.1.pendCred = s.pendCred := hp.2.2.1
    exact ((removeDoubleSpends_sc own _ tr).trans (unpendMined_sc r1.1 tr.tx)).trans (sc_of_eq e)

theorem addRelevantMined_sc {p : Params} {own : Own} {s : Store} {bals : Bals} {tr : TxRec} {blk : BlockMeta}
    {r : Store × Bals} (h : addRelevantMined p own s bals tr blk = .ok r) : Sc r.1 s := by
  unfold addRelevantMined at h
  obtain ⟨r1, h1, h2⟩ := M_bind_ok h
  obtain ⟨sa, ba, ex⟩ := r1
  obtain ⟨s', b'⟩ := r
  exact (sc_of_eq (addCredits_exact p sa s' ba b' tr blk h2).2.1).trans (insertMinedTx_sc h1)

theorem applyRelevant_sc {c : Ctx} {s s' : Store} {ready : List Wid} {bm : BlockMeta} {recs : List TxRec}
    (h : applyRelevant c s ready bm recs = .ok s') : Sc s' s := by
  unfold applyRelevant at h
  split at h
  · cases h; exact Sc.refl s
  · obtain ⟨r, h1, h2⟩ := M_bind_ok h
    cases h2
    have : Sc r.1 s := foldlM_preserves_store (·.1) (fun x => Sc x s) _ _
      (fun _ _ _ _ hb hf => (addRelevantMined_sc hf).trans hb) (b := (s, _)) (Sc.refl s) h1
    exact (sc_of_eq (a' := { r.1 with balance := _ }) rfl).trans this

/-- filterBlock erases whole keys of the pending-credit bucket, nothing else — no hypothesis -/
theorem filterBlock_sc {c : Ctx} {s : Store} {ready : List Wid} {b : Block} {r : Store × List TxId}
    (h : filterBlock c s ready b = .ok r) : Sc r.1 s := by
  unfold filterBlock at h
  simp only [throw, throwThe, MonadExceptOf.throw] at h
  split at h
  · cases h
  · split at h
    · cases h
    · split at h
      all_goals
        obtain ⟨recs, _, h2⟩ := M_bind_ok h
        obtain ⟨s1, h3, h4⟩ := M_bind_ok h2
        obtain ⟨s2, h5, h6⟩ := M_bind_ok h4
        cases h6
        exact (sc_of_eq (putSyncedTo_cred _ _ _ h5).2.1).trans
          ((purgeUnrelated_sc c.own _ s1).trans (applyRelevant_sc h3))

theorem rollbackAddr_pendCred (s : Store) (w : Wid) (o : Out) (h : Nat) :
    (rollbackAddr s w o h).pendCred = s.pendCred := by
  unfold rollbackAddr
  dsimp only
  repeat' split
  all_goals rfl

theorem pn_rollbackOwnedOut {id : TxId} {blk : BlockMeta} {sb sb' : Store × Bals} {i : Nat} {o : Out} {w : Wid}
    (h : rollbackOwnedOut id blk sb i o w = .ok sb') : sb'.1.pendCred = sb.1.pendCred := by
  unfold rollbackOwnedOut at h
  repeat' split at h
  all_goals cases h
  all_goals exact rollbackAddr_pendCred _ w o blk.height

theorem pn_rollbackCbOut {c : Ctx} {id : TxId} {blk : BlockMeta} {acc acc' : (Store × Bals) × List (TxId × Nat)}
    {i : Nat} {o : Out} (hq : KeysNodup acc.1.1.pendCred) (h : rollbackCbOut c id blk acc i o = .ok acc') :
    KeysNodup acc'.1.1.pendCred := by
  unfold rollbackCbOut at h
  dsimp only at h
  split at h
  · cases h; exact hq
  · split at h
    · cases h
    · split at h
      · cases h; exact hq
      · obtain ⟨sb1, h1, h2⟩ := M_bind_ok h
        have hq1 : KeysNodup sb1.1.pendCred := by rw [pn_rollbackOwnedOut h1]; exact hq
        split at h2 <;> cases h2 <;> exact hq1

theorem pn_rollbackIn {c : Ctx} {id : TxId} {blk : BlockMeta} {sb sb' : Store × Bals} {cur : Nat} {i : Inp}
    (hq : KeysNodup sb.1.pendCred) (h : rollbackIn c id blk sb cur i = .ok sb') : KeysNodup sb'.1.pendCred := by
  unfold rollbackIn at h
  dsimp only at h
  repeat' split at h
  all_goals cases h
  all_goals exact hq

theorem pn_rollbackOut {c : Ctx} {id : TxId} {blk : BlockMeta} {sb sb' : Store × Bals} {i : Nat} {o : Out}
    (hq : KeysNodup sb.1.pendCred) (h : rollbackOut c id blk sb i o = .ok sb') : KeysNodup sb'.1.pendCred := by
  unfold rollbackOut at h
  dsimp only at h
  split at h
  · cases h; exact hq
  · split at h
    · cases h
    · split at h
      · cases h; exact keysNodup_put hq _ _
      · obtain ⟨sb1, h1, h2⟩ := M_bind_ok h
        have hq1 : KeysNodup sb1.1.pendCred := by rw [pn_rollbackOwnedOut h1]; exact keysNodup_put hq _ _
        split at h2 <;> cases h2 <;> exact hq1

theorem pn_rollbackTx {c : Ctx} {s : Store} {bals : Bals} {blk : BlockMeta} {id : TxId}
    {r : Store × Bals × List (TxId × Nat)} (hq : KeysNodup s.pendCred) (h : rollbackTx c s bals blk id = .ok r) :
    KeysNodup r.1.pendCred := by
  unfold rollbackTx at h
  split at h
  · cases h; exact hq
  · split at h
    · cases h
    · dsimp only at h
      split at h
      · obtain ⟨r1, h1, h2⟩ := M_bind_ok h
        cases h2
        exact foldIdxM_preserves_store (·.1.1) (fun s => KeysNodup s.pendCred) _ _
          (fun _ _ _ _ _ hb hf => pn_rollbackCbOut hb hf) (b := (({ s with txrecs := _ }, bals), [])) hq h1
      · obtain ⟨sb1, h1, h2⟩ := M_bind_ok h
        obtain ⟨sb2, h3, h4⟩ := M_bind_ok h2
        cases h4
        have hq1 : KeysNodup sb1.1.pendCred :=
          foldIdxM_preserves_store (·.1) (fun s => KeysNodup s.pendCred) _ _
            (fun _ _ _ _ _ hb hf => pn_rollbackIn hb hf)
            (b := ({ s with txrecs := _, pending := _ }, bals)) hq h1
        exact foldIdxM_preserves_store (·.1) (fun s => KeysNodup s.pendCred) _ _
          (fun _ _ _ _ _ hb hf => pn_rollbackOut hb hf) hq1 h3

theorem pn_rollbackBlockAt {c : Ctx} {acc acc' : RbAcc} {cur : Nat}
    (hq : KeysNodup acc.s.pendCred) (h : rollbackBlockAt c acc cur = .ok acc') : KeysNodup acc'.s.pendCred := by
  unfold rollbackBlockAt at h
  split at h
  · cases h; exact hq
  · refine foldlM_preserves_store (·.s) (fun s => KeysNodup s.pendCred) _ _ ?_
      (b := { acc with heights := acc.heights ++ [cur] }) hq h
    intro a id a' _ ha hf
    obtain ⟨r, h1, h2⟩ := M_bind_ok hf
    cases h2
    exact pn_rollbackTx ha h1

theorem purgeSpenders_sc (own : Own) (a : Store) (op : TxId × Nat) : Sc (purgeSpenders own a op) a := by
  rw [purgeSpenders_eq']
  apply foldl_inv (fun x => Sc x a) _ _ _ (Sc.refl a)
  intro x sp _ hx
  split
  · exact (removeConflict_sc own _ x _).trans hx
  · exact hx

theorem pn_rollback {c : Ctx} {s s' : Store} {height : Nat}
    (hq : KeysNodup s.pendCred) (h : rollback c s height = .ok s') : KeysNodup s'.pendCred := by
  unfold rollback at h
  obtain ⟨acc, h1, h2⟩ := M_bind_ok h
  cases h2
  have hq1 : KeysNodup acc.s.pendCred :=
    foldlM_preserves_store (·.s) (fun s => KeysNodup s.pendCred) _ _
      (fun _ _ _ _ hb hf => pn_rollbackBlockAt hb hf) (b := { s := s, bals := s.balance }) hq h1
  have e1 : ∀ (l : List Nat) (s : Store),
      (l.foldl (fun s h => { s with blocks := AMap.erase s.blocks h }) s).pendCred = s.pendCred := by
    intro l s
    exact foldl_inv (fun (a : Store) => a.pendCred = s.pendCred) _ _ _ rfl (fun a x _ ha => ha)
  show KeysNodup (List.foldl (purgeSpenders c.own) _ acc.cb).pendCred
  have : Sc (List.foldl (purgeSpenders c.own)
      (acc.heights.foldl (fun s h => { s with blocks := AMap.erase s.blocks h }) acc.s) acc.cb)
      (acc.heights.foldl (fun s h => { s with blocks := AMap.erase s.blocks h }) acc.s) :=
    foldl_inv (fun x => Sc x _) _ _ _ (Sc.refl _) (fun x op _ hx => (purgeSpenders_sc c.own x op).trans hx)
  exact this.nodup (by rw [e1]; exact hq1)

theorem pn_disconnectBlock {c : Ctx} {s s' : Store} {height : Nat}
    (hq : KeysNodup s.pendCred) (h : disconnectBlock c s height = .ok s') : KeysNodup s'.pendCred := by
  unfold disconnectBlock at h
  split at h
  · cases h
  · split at h
    · cases h; exact hq
    · obtain ⟨s1, h1, h2⟩ := M_bind_ok h
      cases h2
      show KeysNodup s1.pendCred
      exact pn_rollback hq h1

theorem pn_recvTx {c : Ctx} {s : Store} {v : Vol} {t : Tx} (hq : KeysNodup s.pendCred) :
    KeysNodup (recvTx c s v t).1.pendCred := by
  by_cases hm : v.mempool.contains t.id = true
  · rw [recvTx_of_mem c s v t hm]; exact hq
  cases hf : filterTxRel c s t false [] (readyWallets s c.wallets) with
  | error err => rw [recvTx_of_error c s v t err hf]; exact hq
  | ok r =>
    cases r with
    | none => rw [recvTx_of_none c s v t hf]; exact hq
    | some tr =>
      cases ha : addRelevantUnmined s tr with
      | error err => rw [recvTx_of_adderr c s v t tr err hf ha]; exact hq
      | ok s' =>
        rw [recvTx_of_addok c s v t tr s' hm hf ha]
        obtain ⟨s0, hc0, _, hs'⟩ := addRelevantUnmined_shape s s' tr ha
        rcases hs' with rfl | hadd
        · rw [hc0]; exact hq
        · exact addUnminedCredits_nodup s0 s' tr hadd (by rw [hc0]; exact hq)

/-- the keys of the pending-credit bucket stay pairwise distinct along EVERY C09 history (a failing step leaves the
    store alone): clause (d) needs to be known only for the first store — e.g. the fresh wallet's empty bucket -/
theorem pendNodup_stepH (E : HEnv) (w : HW) (ev : HEv) (h : KeysNodup w.s.pendCred) :
    KeysNodup (stepH E w ev).s.pendCred := by
  cases ev with
  | node n => exact h
  | vol v => exact h
  | recv t => exact pn_recvTx h
  | connect b =>
    cases hf : filterBlock (E.ctx w.node) w.s (readyWallets w.s E.wallets) b with
    | error e => simp only [stepH, hf]; exact h
    | ok r => simp only [stepH, hf]; exact (filterBlock_sc hf).nodup h
  | disconnect =>
    cases hl : w.sp.chain.getLast? with
    | none => simp only [stepH, hl]; exact h
    | some b =>
      cases hd : disconnectBlock (E.ctx w.node) w.s b.height with
      | error e => simp only [stepH, hl, hd]; exact h
      | ok s' => simp only [stepH, hl, hd]; exact pn_disconnectBlock h hd

theorem pendNodup_runH (E : HEnv) (evs : List HEv) (w : HW) (h : KeysNodup w.s.pendCred) :
    KeysNodup (runH E w evs).s.pendCred := by
  induction evs generalizing w with
  | nil => exact h
  | cons ev evs ih => exact ih _ (pendNodup_stepH E w ev h)

/-- **the invariant where a removal starts, after any C09 history inside the domain** from a world satisfying C09's
    invariant whose pending-credit bucket has distinct keys: no hypothesis about the reached store is left -/
theorem pci_reachable {rank : TxId → Nat} {E : HEnv} (evs : List HEv) (w0 : HW) (H0 : HInvC rank E w0)
    (hn0 : KeysNodup w0.s.pendCred) (hD : ∀ x ∈ worldsH E w0 evs, HOKc rank E x.1 x.2)
    (addrs : List Addr) (queueLen : Nat) (keystores : List Wid) (passOk : Bool) (w : Wid) :
    PCI (E.ctx (runH E w0 evs).node) addrs (removeWallet queueLen keystores passOk (runH E w0 evs).s w).2
      (runH E w0 evs).sp.chain :=
  pci_start (hinvc_run evs w0 H0 hD) (pendNodup_runH E evs w0 hn0) addrs queueLen keystores passOk w

/-- `pci_reachable` on the concrete C09 history of `MW.Lemmas.RemoveReach` (fresh wallet · connect B1 · recv T1 · recv T2):
    the pending-credit bucket holds T1:0 (it pays W1) when the removal of W1 is requested; every hypothesis is met -/
example : PCI (exE.ctx MW.Lemmas.RemoveReach.exWm.node) ["A1"]
      (removeWallet 0 ["W1"] true MW.Lemmas.RemoveReach.exWm.s "W1").2 MW.Lemmas.RemoveReach.exWm.sp.chain ∧
    MW.Lemmas.RemoveReach.exWm.s.pendCred.map (·.1) = [("T1", 0)] :=
  ⟨pci_reachable (exEvs.take 3) exW0 MW.Lemmas.RemoveReach.exHInvC0 List.nodup_nil
      (fun x hx => MW.Lemmas.RemoveReach.exDomainC x (MW.Lemmas.RemoveReach.worldsH_take exE 3 exEvs exW0 x hx))
      ["A1"] 0 ["W1"] true "W1", by decide⟩

-- ------------------------------------------------------------------ a concrete instance

namespace Ex

/-- W1 survives, W2 (script hash A2) is being removed -/
def own : Own := [("A1", ("W1", false)), ("A2", ("W2", false))]
def g : Block := ⟨"G", "", 0, []⟩
/-- pending, pays the survivor; confirmed by B1 -/
def t1 : Tx := ⟨"T1", false, [], [⟨"A1", 5, .std⟩]⟩
/-- pending, pays the removed wallet only -/
def t2 : Tx := ⟨"T2", false, [], [⟨"A2", 7, .std⟩]⟩
/-- pending, pays the survivor; stays unconfirmed -/
def t3 : Tx := ⟨"T3", false, [], [⟨"A1", 9, .std⟩]⟩
def b1 : Block := ⟨"B1", "G", 1, [t1]⟩
def node0 : Node := { chain := [g], known := [("G", g)] }
def node1 : Node := { chain := [g, b1], known := [("G", g), ("B1", b1)] }
def ctx : Ctx := { p := {}, own := own, wallets := ["W1", "W2"], node := node0 }
def cred (a : Addr) (n : Nat) : Credit := unminedCreditOf ⟨0, ⟨a, n, .std⟩, "", false⟩
/-- the store follows chain G; W2 is flagged; three pending transactions with their unmined credits -/
def s0 : Store :=
  { status := [("W1", ⟨none, false⟩), ("W2", ⟨none, true⟩)], balance := [("W1", 0), ("W2", 0)],
    sync := [(0, "G")], syncedTo := 0,
    pending := [("T1", t1), ("T2", t2), ("T3", t3)],
    pendCred := [(("T1", 0), cred "A1" 5), (("T2", 0), cred "A2" 7), (("T3", 0), cred "A1" 9)] }
def x0 : ISt := { s := s0, v := { best := ⟨0, "G"⟩ }, node := node0 }
/-- the extension block B1 (confirms T1) · a removal step -/
def evs : List IEv := [.notify node1 b1, .rem]

/-- the history runs: after the block T1 is confirmed and un-pended (T2, T3 and their credits stay); the removal step
    (the finishing one: W2 has no mined credit) erases T2 and its credit; T3 and its credit survive -/
theorem runs :
    (irun 1 ctx "W2" ["A2"] x0 [.notify node1 b1]).map (fun x => (x.s.pending.map (·.1), x.s.pendCred.map (·.1))) =
      some (["T2", "T3"], [("T2", 0), ("T3", 0)]) ∧
    (irun 1 ctx "W2" ["A2"] x0 evs).map (fun x => (x.fin, x.s.pending.map (·.1), x.s.pendCred.map (·.1))) =
      some (true, ["T3"], [("T3", 0)]) := by decide

theorem pci0 : PCI ctx ["A2"] x0.s x0.node.chain := by
  refine ⟨?_, ?_, by unfold PendOK; decide, by unfold KeysNodup; decide⟩
  · intro id t h
    have hm := MW.Lemmas.LedgerPending.mem_of_get h
    simp only [x0, s0, List.mem_cons, Prod.mk.injEq, List.not_mem_nil, or_false] at hm
    rcases hm with ⟨rfl, rfl⟩ | ⟨rfl, rfl⟩ | ⟨rfl, rfl⟩ <;> rfl
  · intro id j cr h hs
    have hm := MW.Lemmas.LedgerPending.mem_of_get h
    simp only [x0, s0, List.mem_cons, Prod.mk.injEq, List.not_mem_nil, or_false] at hm
    rcases hm with ⟨⟨rfl, rfl⟩, rfl⟩ | ⟨⟨rfl, rfl⟩, rfl⟩ | ⟨⟨rfl, rfl⟩, rfl⟩
    · exact ⟨t1, ⟨"A1", 5, .std⟩, "W1", false, rfl, rfl, rfl, by decide, rfl⟩
    · exact absurd hs (by decide)
    · exact ⟨t3, ⟨"A1", 9, .std⟩, "W1", false, rfl, rfl, rfl, by decide, rfl⟩

theorem dom : DomP 1 ctx "W2" ["A2"] x0 evs := by
  refine ⟨⟨rfl, rfl, ?_, ?_, fun _ => rfl, by decide⟩, ?_⟩
  · intro a w' ch h hs
    have hm := MW.Lemmas.LedgerPending.mem_of_get h
    simp only [ctx, own, List.mem_cons, Prod.mk.injEq, List.not_mem_nil, or_false] at hm
    rcases hm with ⟨rfl, rfl, rfl⟩ | ⟨rfl, rfl, rfl⟩
    · decide
    · exact absurd hs (by decide)
  · intro t' ht' t h
    simp only [b1, List.mem_cons, List.not_mem_nil, or_false] at ht'
    subst ht'
    have : AMap.get x0.s.pending t1.id = some t1 := rfl
    rw [this] at h; cases h; rfl
  · cases istep 1 ctx "W2" ["A2"] x0 (.notify node1 b1) with
    | none => trivial
    | some x1 =>
      refine ⟨trivial, ?_⟩
      cases istep 1 ctx "W2" ["A2"] x1 .rem <;> trivial

/-- `PCI` (hence `PendOK`) at each state of the history: at the start, after the block, after the removal step -/
example : ∀ (pre suf : List IEv) (y : ISt), evs = pre ++ suf → irun 1 ctx "W2" ["A2"] x0 pre = some y →
    PCI ctx ["A2"] y.s y.node.chain ∧ PendOK ["A2"] y.s y.node.chain :=
  pendOK_run pci0 dom

/-- the single steps: `pci_connect` for the block, `pci_rem` for RemoveRelevantTx on the store after it -/
example (s1 : Store) (conf : List TxId)
    (h : filterBlock { ctx with node := node1 } s0 (readyWallets s0 ["W1", "W2"]) b1 = .ok (s1, conf))
    (o : StepOut) (hr : removeRelevantTx 1 { ctx with node := node1 } s1 ["A2"] = some o) :
    PCI ctx ["A2"] s1 [g, b1] ∧ PCI ctx ["A2"] o.s [g, b1] := by
  obtain ⟨⟨_, _, d3, d4, d5, d6⟩, _⟩ := dom
  have h1 : PCI { ctx with node := node1 } ["A2"] s1 ([g] ++ [b1]) :=
    pci_connect (pci0.own (c' := { ctx with node := node1 }) rfl) h d3 d4 d5 d6
  exact ⟨h1.own rfl, (pci_rem h1 hr).own rfl⟩

end Ex

end MW.Lemmas.RemovePend
