/-
  The loops of the mined side refine the folds of the books (C01 goal 1, loop level):
  updateMinedBalance ⊑ fold of spendB, AddCredits ⊑ folds of createB / depositB.
  `hitsFrom` / `ownedFrom` are the relevance lists (RelevantTxIn / RelevantTxOut) the books predict.
-/
import MW.Lemmas.LedgerRefine
import MW.Lemmas.LedgerValid
namespace MW.Lemmas.Ledger
open MW MW.Model.Ledger MW.Spec.Chain MW.Spec.Books

/-- every owner of an address is a ready wallet (importing / removed wallets: C07, C08) -/
def AllReady (own : Own) (ready : List Wid) : Prop :=
  ∀ a w ch, AMap.get own a = some (w, ch) → ready.contains w = true

theorem ready_of_owner {own : Own} {ready : List Wid} (h : AllReady own ready) {o : Out} {w : Wid} {ch : Bool}
    (ho : ownerOf own o = some (w, ch)) : ready.contains w = true := by
  unfold ownerOf at ho
  by_cases hr : o.cls = .raw
  · simp [hr] at ho
  · simp only [hr, if_false] at ho
    exact h _ _ _ ho

/-- RelevantTxIn as the books predict it: the inputs that hit the ledger, in input order -/
def hitsFrom (L : List UCoin) : List Inp → Nat → List Model.Ledger.Rel
  | [], _ => []
  | i :: is, k =>
    (match lookupU L i.tx i.idx with
      | some u => [{ index := k, out := u.out, wallet := u.wallet, change := u.change }]
      | none => []) ++ hitsFrom L is (k + 1)

/-- RelevantTxOut as the books predict it: the owned outputs, in output order -/
def ownedFrom (own : Own) : List Out → Nat → List Model.Ledger.Rel
  | [], _ => []
  | o :: os, j =>
    (match ownerOf own o with
      | some (w, ch) => [{ index := j, out := o, wallet := w, change := ch }]
      | none => []) ++ ownedFrom own os (j + 1)

theorem hitsFrom_filter (L : List UCoin) (a : TxId) (b : Nat) (is : List Inp) (k : Nat)
    (h : ∀ i ∈ is, ¬ (a = i.tx ∧ b = i.idx)) :
    hitsFrom (L.filter (fun u' => !UCoin.at a b u')) is k = hitsFrom L is k := by
  induction is generalizing k with
  | nil => rfl
  | cons i is ih =>
    unfold hitsFrom
    rw [lookupU_filter, ih (k + 1) (fun i' hi' => h i' (List.mem_cons_of_mem _ hi'))]
    simp [h i (List.mem_cons_self ..)]

theorem spendB_miss {p : Params} {t : Tx} {bm : BlockMeta} {B : Book} {k : Nat} {i : Inp}
    (h : lookupU B.L i.tx i.idx = none) : spendB p t bm B k i = B := by
  unfold spendB; rw [h]

theorem spendB_L_hit {p : Params} {t : Tx} {bm : BlockMeta} {B : Book} {k : Nat} {i : Inp} {u : UCoin}
    (h : lookupU B.L i.tx i.idx = some u) :
    (spendB p t bm B k i).L = B.L.filter (fun u' => !UCoin.at i.tx i.idx u') := by
  unfold spendB; rw [h]

-- ------------------------------------------------------------------ updateMinedBalance ⊑ fold spendB

theorem spendFold_refines {p : Params} {own : Own} {ready : List Wid} {tr : TxRec} {blk : BlockMeta}
    (hAR : AllReady own ready) (is : List Inp) :
    ∀ (k : Nat) (s : Store) (bals : Bals) (B : Book),
      Agree s B → AgreeBal ready bals B → Loc p own B → LocG B →
      (∀ m i, is[m]? = some i → tr.tx.ins[k + m]? = some i) →
      (is.map opOf).Nodup →
      ∃ sb', (hitsFrom B.L is k).foldlM (spendOne tr blk) (s, bals) = .ok sb' ∧
        Agree sb'.1 (foldIdx (spendB p tr.tx blk) is k B) ∧
        AgreeBal ready sb'.2 (foldIdx (spendB p tr.tx blk) is k B) ∧
        Loc p own (foldIdx (spendB p tr.tx blk) is k B) ∧ LocG (foldIdx (spendB p tr.tx blk) is k B) ∧
        SameSync s sb'.1 := by
  induction is with
  | nil =>
    intro k s bals B hR hB hL hG _ _
    exact ⟨(s, bals), rfl, hR, hB, hL, hG, SameSync.refl s⟩
  | cons i is ih =>
    intro k s bals B hR hB hL hG hidx hnd
    have hi : tr.tx.ins[k]? = some i := by simpa using hidx 0 i rfl
    have hidx' : ∀ m i', is[m]? = some i' → tr.tx.ins[k + 1 + m]? = some i' := by
      intro m i' hm
      have := hidx (m + 1) i' (by simpa using hm)
      rw [show k + 1 + m = k + (m + 1) by omega]; exact this
    simp only [List.map_cons, List.nodup_cons] at hnd
    have hne : ∀ i' ∈ is, ¬ (i.tx = i'.tx ∧ i.idx = i'.idx) := by
      intro i' hi' hk
      apply hnd.1
      have : opOf i = opOf i' := by unfold opOf; rw [hk.1, hk.2]
      rw [this]; exact List.mem_map.2 ⟨i', hi', rfl⟩
    rw [foldIdx_cons]
    cases hu : lookupU B.L i.tx i.idx with
    | none =>
      rw [spendB_miss hu]
      have : hitsFrom B.L (i :: is) k = hitsFrom B.L is (k + 1) := by
        conv => lhs; unfold hitsFrom
        rw [hu]; rfl
      rw [this]
      exact ih (k + 1) s bals B hR hB hL hG hidx' hnd.2
    | some u =>
      have hmem := (lookupU_some hu).1
      have hready : ready.contains u.wallet = true := ready_of_owner hAR (hL.own u hmem)
      obtain ⟨sb1, h1, hR1, hB1, hL1, hG1, hS1⟩ :=
        spendOne_refines (tr := tr) (blk := blk) (k := k) hR hB hL hG hi hu hready
      have hh : hitsFrom B.L (i :: is) k =
          { index := k, out := u.out, wallet := u.wallet, change := u.change } :: hitsFrom B.L is (k + 1) := by
        conv => lhs; unfold hitsFrom
        rw [hu]; rfl
      have hf : hitsFrom B.L is (k + 1) = hitsFrom (spendB p tr.tx blk B k i).L is (k + 1) := by
        rw [spendB_L_hit hu, hitsFrom_filter _ _ _ _ _ hne]
      rw [hh, List.foldlM_cons, h1, hf]
      obtain ⟨sb2, h2, hR2, hB2, hL2, hG2, hS2⟩ :=
        ih (k + 1) sb1.1 sb1.2 (spendB p tr.tx blk B k i) hR1 hB1 hL1 hG1 hidx' hnd.2
      exact ⟨sb2, h2, hR2, hB2, hL2, hG2, hS1.trans hS2⟩

-- ------------------------------------------------------------------ AddCredits, first loop ⊑ fold createB

theorem createB_none {p : Params} {own : Own} {t : Tx} {bm : BlockMeta} {B : Book} {j : Nat} {o : Out}
    (h : ownerOf own o = none) : createB p own t bm B j o = B := by
  unfold createB; rw [h]

theorem createB_owned {p : Params} {own : Own} {t : Tx} {bm : BlockMeta} {B : Book} {j : Nat} {o : Out}
    {w : Wid} {ch : Bool} (h : ownerOf own o = some (w, ch)) :
    (createB p own t bm B j o).L = B.L ++ [⟨w, t.id, j, bm, t.cb, o, ch⟩] ∧
    (createB p own t bm B j o).credits = upd B.credits ⟨t.id, bm, j⟩ (some (creditOf p ⟨w, t.id, j, bm, t.cb, o, ch⟩)) := by
  unfold createB; rw [h]; exact ⟨rfl, rfl⟩

theorem createFold_refines {p : Params} {own : Own} {ready : List Wid} {tr : TxRec} {blk : BlockMeta}
    (hAR : AllReady own ready) (os : List Out) :
    ∀ (j : Nat) (s : Store) (bals : Bals) (B : Book),
      Agree s B → AgreeBal ready bals B → Loc p own B → LocGx tr.tx.id B →
      (∀ j', j ≤ j' → B.credits ⟨tr.tx.id, blk, j'⟩ = none ∧ lookupU B.L tr.tx.id j' = none) →
      ∃ sb', (ownedFrom own os j).foldlM (creditOne p tr blk) (s, bals) = .ok sb' ∧
        Agree sb'.1 (foldIdx (createB p own tr.tx blk) os j B) ∧
        AgreeBal ready sb'.2 (foldIdx (createB p own tr.tx blk) os j B) ∧
        Loc p own (foldIdx (createB p own tr.tx blk) os j B) ∧
        LocGx tr.tx.id (foldIdx (createB p own tr.tx blk) os j B) ∧
        SameSync s sb'.1 ∧ sb'.1.pendGame = s.pendGame := by
  induction os with
  | nil =>
    intro j s bals B hR hB hL hG _
    exact ⟨(s, bals), rfl, hR, hB, hL, hG, SameSync.refl s, rfl⟩
  | cons o os ih =>
    intro j s bals B hR hB hL hG hfresh
    rw [foldIdx_cons]
    cases ho : ownerOf own o with
    | none =>
      rw [createB_none ho]
      have : ownedFrom own (o :: os) j = ownedFrom own os (j + 1) := by
        conv => lhs; unfold ownedFrom
        rw [ho]; rfl
      rw [this]
      exact ih (j + 1) s bals B hR hB hL hG (fun j' hj' => hfresh j' (by omega))
    | some wc =>
      obtain ⟨w, ch⟩ := wc
      have hready := ready_of_owner hAR ho
      obtain ⟨sb1, h1, hR1, hB1, hL1, hG1, hS1⟩ :=
        creditOne_refines (tr := tr) (blk := blk) (j := j) hR hB hL hG ho hready (hfresh j (Nat.le_refl _)).1
          (hfresh j (Nat.le_refl _)).2
      have hh : ownedFrom own (o :: os) j =
          { index := j, out := o, wallet := w, change := ch } :: ownedFrom own os (j + 1) := by
        conv => lhs; unfold ownedFrom
        rw [ho]; rfl
      rw [hh, List.foldlM_cons, h1]
      have hfresh' : ∀ j', j + 1 ≤ j' →
          (createB p own tr.tx blk B j o).credits ⟨tr.tx.id, blk, j'⟩ = none ∧
          lookupU (createB p own tr.tx blk B j o).L tr.tx.id j' = none := by
        intro j' hj'
        obtain ⟨hLe, hCe⟩ := createB_owned (p := p) (t := tr.tx) (bm := blk) (B := B) (j := j) ho
        rw [hLe, hCe]
        have hf := hfresh j' (by omega)
        constructor
        · have : ¬ ((⟨tr.tx.id, blk, j⟩ : CredKey) = ⟨tr.tx.id, blk, j'⟩) := by
            intro h; injection h with _ _ h3; omega
          simp only [upd_apply, this, if_false]; exact hf.1
        · rw [lookupU_append_single, hf.2]
          have : ¬ (j = j') := by omega
          simp [this]
      obtain ⟨sb2, h2, hR2, hB2, hL2, hG2, hS2, hP2⟩ :=
        ih (j + 1) sb1.1 sb1.2 (createB p own tr.tx blk B j o) hR1 hB1 hL1 hG1 hfresh'
      refine ⟨sb2, h2, hR2, hB2, hL2, hG2, hS1.trans hS2, ?_⟩
      rw [hP2]
      have : sb1 = creditApply p tr blk (s, bals) ⟨j, o, w, ch⟩ := by
        unfold creditOne at h1
        split at h1
        · cases h1
        · simpa using h1.symm
      rw [this]; rfl

end MW.Lemmas.Ledger
