/-
  C19 contracts backed by the keystore model of C04 / C12 (MW.Model.Keystore):
    `w.ksmgr.NextAddresses(…, false, 1, gap, class)`: on success exactly one managed address is returned
    (`len(mas) ≥ 1`, `mas[0] != nil`) – `ksNextAddresses … 1 gap` returns the list
    `(List.range' next 1).map mkAddr`, of length 1.
-/
import MW.Lemmas.ApiContracts
import MW.Model.Keystore
namespace MW.Lemmas.ApiBacked
open MW MW.Model.Api MW.Lemmas.ApiContracts MW.Model.Keystore

section
variable {Priv Pub Addr : Type} [DecidableEq Addr]

/-- a successful `nextAddresses … num gap` returns `num` managed addresses -/
theorem nextAddresses_length (sch : Scheme Priv Pub Addr) (r r' : Rec Priv Pub) (m : Mgr Pub Addr)
    (used : Addr → Bool) (internal : Bool) (num gap : Nat) (mas : List (MAddr Pub Addr))
    (h : nextAddresses sch r m used internal num gap = .ok (r', mas)) : mas.length = num := by
  unfold nextAddresses at h
  simp only at h
  split at h
  · cases h
  · split at h
    · cases h
    · split at h
      · cases h
      · cases h
      · simp only [Except.ok.injEq, Prod.mk.injEq] at h
        rw [← h.2]; simp

theorem ksNextAddresses_length (sch : Scheme Priv Pub Addr) (ks ks' : KS Priv Pub Addr) (used : Addr → Bool)
    (internal : Bool) (num gap : Nat) (mas : List (MAddr Pub Addr))
    (h : ksNextAddresses sch ks used internal num gap = .ok (ks', mas)) : mas.length = num := by
  unfold ksNextAddresses at h
  split at h
  · cases h
  · split at h
    · split at h
      · cases h
      · rename_i r' mas' hn
        simp only [Except.ok.injEq, Prod.mk.injEq] at h
        rw [← h.2]
        exact nextAddresses_length sch _ _ _ _ _ _ _ _ hn
    · cases h

/-- what `NewAddress` reads of `w.ksmgr.NextAddresses(…, 1, …)`: [len(mas), error id, mas[0] ≠ nil] -/
def nextAddressesAnswer (r : Except Err (KS Priv Pub Addr × List (MAddr Pub Addr))) : List Nat :=
  match r with
  | .ok (_, mas) => [mas.length, 0, if mas.length = 0 then 0 else 1]
  | .error _ => [0, E.other, 0]
end

/-- what a skeleton reads of a keystore lookup `(result, err)`: [result ≠ nil, error id] -/
def lookupAnswer {α : Type} (r : Option α) : List Nat :=
  match r with
  | some _ => [1, 0]
  | none => [0, E.addressNotFound]

theorem lookupAnswer_ok {α : Type} (r : Option α) : (lookupAnswer r).getD 1 0 = 0 → (lookupAnswer r).getD 0 0 ≠ 0 := by
  cases r with
  | none => intro h; simp [lookupAnswer, E.addressNotFound] at h
  | some a => intro _; simp [lookupAnswer]

/-- GetManagedAddressByScriptHashInCurrent: the managed address of the keystore in use -/
def addrInCurrent {Priv Pub Addr : Type} [DecidableEq Addr] (ks : KS Priv Pub Addr) (a : Addr) : Option (MAddr Pub Addr) :=
  match ks.current with
  | none => none
  | some id => (AMap.get ks.mgrs id).bind (fun m => AMap.get m.addrs a)

/-- the oracle answers the keystore calls by running the keystore model (any scheme, any keystore state,
    any used-address predicate, any gap limit, any address / wallet id):
    `NextAddresses` for ONE external address; `Address` by the address cache of an account manager;
    `GetAddrManager` by `findMgr`; `GetAddrManagerByAccountID` by the table of managed keystores;
    `GetManagedAddressByScriptHashInCurrent` by the cache of the keystore in use -/
structure KeystoreBacked (O : Oracle) : Prop where
  next : ∀ σ, ∃ (Priv Pub Addr : Type) (_ : DecidableEq Addr) (sch : Scheme Priv Pub Addr) (ks : KS Priv Pub Addr)
      (used : Addr → Bool) (gap : Nat),
    O "w.ksmgr.NextAddresses" σ = nextAddressesAnswer (ksNextAddresses sch ks used false 1 gap)
  address : ∀ f, f = "ks.Address(from)" ∨ f = "acctM.Address" → ∀ σ,
    ∃ (Pub Addr : Type) (_ : DecidableEq Addr) (m : Mgr Pub Addr) (a : Addr), O f σ = lookupAnswer (AMap.get m.addrs a)
  mgrOf : ∀ σ, ∃ (Priv Pub Addr : Type) (_ : DecidableEq Addr) (ks : KS Priv Pub Addr) (a : Addr),
    O "w.ksmgr.GetAddrManager" σ = lookupAnswer (findMgr ks a)
  mgrById : ∀ σ, ∃ (Priv Pub Addr : Type) (ks : KS Priv Pub Addr) (id : String),
    O "w.ksmgr.GetAddrManagerByAccountID" σ = lookupAnswer (AMap.get ks.mgrs id)
  inCurrent : ∀ σ, ∃ (Priv Pub Addr : Type) (_ : DecidableEq Addr) (ks : KS Priv Pub Addr) (a : Addr),
    O "w.ksmgr.GetManagedAddressByScriptHashInCurrent" σ = lookupAnswer (addrInCurrent ks a)

/-- the keystore lookups of the model that carry the contract "err == nil → result != nil" -/
def lookupNodes : List CallNode := [
  ("ks.Address(from)", [V "ma", V "err"], onOk "err" [.nz "ma"]),
  ("acctM.Address", [V "mAddr", V "err"], onOk "err" [.nz "mAddr"]),
  ("acctM.Address", [V "mAddr", V "cb.err"], onOk "cb.err" [.nz "mAddr"]),
  ("w.ksmgr.GetAddrManager", [V "acctM", V "err"], onOk "err" [.nz "acctM"]),
  ("w.ksmgr.GetAddrManagerByAccountID", [V "mgr", V "err"], onOk "err" [.nz "mgr"]),
  ("w.ksmgr.GetAddrManagerByAccountID", [V "addrmgr", V "err"], onOk "err" [.nz "addrmgr"]),
  ("w.ksmgr.GetManagedAddressByScriptHashInCurrent", [V "mAddr", V "err"], onOk "err" [.nz "mAddr"])]

/-- CONTRACT (keystore): a lookup that reports no error returns a manager / managed address (the model
    functions return a value or nothing; there is no third outcome) -/
theorem contract_keystore_lookups {O : Oracle} (h : KeystoreBacked O) : ∀ c ∈ lookupNodes, Holds O c := by
  intro c hc
  simp only [lookupNodes, List.mem_cons, List.not_mem_nil, or_false] at hc
  rcases hc with rfl | rfl | rfl | rfl | rfl | rfl | rfl
  · exact holds_onOk_first O _ _ _ _ (by decide) (fun σ => by
      obtain ⟨_, _, _, m, a, e⟩ := h.address _ (Or.inl rfl) σ; rw [e]; exact lookupAnswer_ok _)
  · exact holds_onOk_first O _ _ _ _ (by decide) (fun σ => by
      obtain ⟨_, _, _, m, a, e⟩ := h.address _ (Or.inr rfl) σ; rw [e]; exact lookupAnswer_ok _)
  · exact holds_onOk_first O _ _ _ _ (by decide) (fun σ => by
      obtain ⟨_, _, _, m, a, e⟩ := h.address _ (Or.inr rfl) σ; rw [e]; exact lookupAnswer_ok _)
  · exact holds_onOk_first O _ _ _ _ (by decide) (fun σ => by
      obtain ⟨_, _, _, _, ks, a, e⟩ := h.mgrOf σ; rw [e]; exact lookupAnswer_ok _)
  · exact holds_onOk_first O _ _ _ _ (by decide) (fun σ => by
      obtain ⟨_, _, _, ks, id, e⟩ := h.mgrById σ; rw [e]; exact lookupAnswer_ok _)
  · exact holds_onOk_first O _ _ _ _ (by decide) (fun σ => by
      obtain ⟨_, _, _, ks, id, e⟩ := h.mgrById σ; rw [e]; exact lookupAnswer_ok _)
  · exact holds_onOk_first O _ _ _ _ (by decide) (fun σ => by
      obtain ⟨_, _, _, _, ks, a, e⟩ := h.inCurrent σ; rw [e]; exact lookupAnswer_ok _)

def nextAddressesNode : CallNode :=
  ("w.ksmgr.NextAddresses", [V "mas", V "err", V "mas[0]"], onOk "err" [.ge "mas" 1, .nz "mas[0]"])

/-- CONTRACT (keystore): a successful NextAddresses(1) returns one non-nil managed address -/
theorem contract_keystore_NextAddresses {O : Oracle} (h : KeystoreBacked O) : Holds O nextAddressesNode := by
  intro σ
  obtain ⟨Priv, Pub, Addr, _, sch, ks, used, gap, hO⟩ := h.next σ
  have hnd : ([V "mas", V "err", V "mas[0]"] : List Var).Nodup := by decide
  have g := setMany_get _ σ (O "w.ksmgr.NextAddresses" σ) hnd
  have g0 := g 0 (by decide)
  have g1 := g 1 (by decide)
  have g2 := g 2 (by decide)
  simp only [List.getElem_cons_zero, List.getElem_cons_succ] at g0 g1 g2
  rw [hO] at g0 g1 g2
  simp only [HoldsAt, nextAddressesNode, onOk, List.map_cons, List.map_nil, List.all_cons, List.all_nil, Bool.and_true,
    Clause.eval, Atom.eval, hO, g0, g1, g2]
  cases hr : ksNextAddresses sch ks used false 1 gap with
  | error e => simp [nextAddressesAnswer, E.other]
  | ok r =>
    obtain ⟨ks', mas⟩ := r
    have := ksNextAddresses_length sch ks ks' used false 1 gap mas hr
    simp [nextAddressesAnswer, this]

end MW.Lemmas.ApiBacked
