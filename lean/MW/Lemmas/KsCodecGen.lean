/-
  Lemmas for the byte-level keystore codecs (MW.Model.KsCodec), part 1: little-endian integers and the
  generic record interpreter over an ARBITRARY item table:

    decodeItems_encodeItems   decode ∘ encode = id on values that fit the widths (any table, any trailing bytes)
    decode_exact_length       an exact-length decoder refuses every other length
    encodeItems_length        the length of an encoding
    decodeItems_consumes      what a successful decode consumed re-encodes to the consumed bytes
-/
import MW.Model.KsCodec
import Mathlib.Tactic.Ring
namespace MW.KsCodecL
open MW MW.Gen.KsCodec MW.Model.KsCodec

/-! ### little endian -/

theorem u8_toNat_ofNat_mod (n : Nat) : (UInt8.ofNat (n % 256)).toNat = n % 256 := by
  simp [UInt8.toNat_ofNat']

theorem u8_lt (b : UInt8) : b.toNat < 256 := by
  have := UInt8.toNat_lt b; simpa using this

@[simp] theorem leBytes_length (w n : Nat) : (leBytes w n).length = w := by
  induction w generalizing n with
  | zero => rfl
  | succ w ih => simp [leBytes, ih]

theorem ofLE_lt (bs : Bytes) : ofLE bs < 256 ^ bs.length := by
  induction bs with
  | nil => simp [ofLE]
  | cons b bs ih =>
    simp only [ofLE, List.length_cons, Nat.pow_succ]
    have := u8_lt b
    omega

theorem ofLE_leBytes (w n : Nat) : ofLE (leBytes w n) = n % 256 ^ w := by
  induction w generalizing n with
  | zero => simp [leBytes, ofLE, Nat.mod_one]
  | succ w ih =>
    simp only [leBytes, ofLE, u8_toNat_ofNat_mod, ih]
    rw [Nat.pow_succ, Nat.mul_comm (256 ^ w) 256, Nat.mod_mul]

theorem ofLE_leBytes_of_lt {w n : Nat} (h : n < 256 ^ w) : ofLE (leBytes w n) = n := by
  rw [ofLE_leBytes, Nat.mod_eq_of_lt h]

theorem leBytes_ofLE (bs : Bytes) : leBytes bs.length (ofLE bs) = bs := by
  induction bs with
  | nil => rfl
  | cons b bs ih =>
    have hb := u8_lt b
    have h1 : (b.toNat + 256 * ofLE bs) % 256 = b.toNat := by omega
    have h2 : (b.toNat + 256 * ofLE bs) / 256 = ofLE bs := by omega
    simp only [List.length_cons, leBytes, ofLE, h1, h2, ih]
    simp

/-- the little-endian encoding is injective below the width … -/
theorem leBytes_inj {w a b : Nat} (ha : a < 256 ^ w) (hb : b < 256 ^ w) (h : leBytes w a = leBytes w b) : a = b := by
  have := congrArg ofLE h
  rwa [ofLE_leBytes_of_lt ha, ofLE_leBytes_of_lt hb] at this

/-- … and only there: a value one width too large collides with its residue -/
theorem leBytes_wraps (w n : Nat) : leBytes w (n + 256 ^ w) = leBytes w n := by
  have h : ∀ w n, leBytes w n = leBytes w (n % 256 ^ w) := by
    intro w
    induction w with
    | zero => intro n; rfl
    | succ w ih =>
      intro n
      simp only [leBytes]
      have e1 : n % 256 ^ (w + 1) % 256 = n % 256 := by
        rw [Nat.pow_succ, Nat.mul_comm]; exact Nat.mod_mul_right_mod n 256 (256 ^ w)
      have e2 : n % 256 ^ (w + 1) / 256 = n / 256 % 256 ^ w := by
        rw [Nat.pow_succ, Nat.mul_comm, Nat.mod_mul_right_div_self]
      rw [e1, e2, ← ih]
  rw [h w (n + 256 ^ w), Nat.add_mod_right, ← h]

/-! ### the generic interpreter -/

theorem encodeItem_fits_length {i : Item} {v : Val} {bs : Bytes} (h : encodeItem i v = some bs) :
    bs.length = match i, v with
      | .u8 _, _ => 1
      | .le _ w, _ => w
      | .raw _ w, _ => w
      | .lp _ w, .b d => w + d.length
      | .lp _ w, _ => w := by
  cases i <;> cases v <;> simp [encodeItem] at h
  · subst h; simp
  · subst h; simp
  · obtain ⟨h1, h2⟩ := h; subst h2; exact h1
  · subst h; simp

/-- decode ∘ encode = id, for every item table, on every value list that fits the widths; bytes behind the
    record are handed back untouched -/
theorem decodeItems_encodeItems (is : List Item) (vs : List Val) (bs tl : Bytes)
    (hf : fitsAll is vs = true) (he : encodeItems is vs = some bs) :
    decodeItems is (bs ++ tl) = .ok (vs, tl) := by
  induction is generalizing vs bs with
  | nil =>
    cases vs with
    | nil => simp [encodeItems] at he; subst he; simp [decodeItems]
    | cons _ _ => simp [fitsAll] at hf
  | cons i is ih =>
    cases vs with
    | nil => simp [fitsAll] at hf
    | cons v vs =>
      simp only [fitsAll, Bool.and_eq_true] at hf
      obtain ⟨hfi, hfs⟩ := hf
      simp only [encodeItems] at he
      cases hei : encodeItem i v with
      | none => simp [hei] at he
      | some a =>
        cases hes : encodeItems is vs with
        | none => simp [hei, hes] at he
        | some r =>
          simp only [hei, hes, Option.some.injEq] at he
          subst he
          have ihr := ih vs r hfs hes
          cases i with
          | u8 nm =>
            cases v with
            | b _ => simp [itemFits] at hfi
            | n x =>
              simp only [itemFits, decide_eq_true_eq] at hfi
              simp only [encodeItem, Option.some.injEq] at hei
              subst hei
              simp only [List.cons_append, List.nil_append, decodeItems, ihr, Except.map]
              rw [Nat.mod_eq_of_lt hfi, ← Nat.mod_eq_of_lt hfi, u8_toNat_ofNat_mod, Nat.mod_eq_of_lt hfi]
          | le nm w =>
            cases v with
            | b _ => simp [itemFits] at hfi
            | n x =>
              simp only [itemFits, decide_eq_true_eq] at hfi
              simp only [encodeItem, Option.some.injEq] at hei
              subst hei
              have hl : ¬ (leBytes w x ++ r ++ tl).length < w := by simp
              have ht : (leBytes w x ++ r ++ tl).take w = leBytes w x := by
                rw [List.append_assoc, List.take_left' (leBytes_length w x)]
              have hd : (leBytes w x ++ r ++ tl).drop w = r ++ tl := by
                rw [List.append_assoc, List.drop_left' (leBytes_length w x)]
              simp only [decodeItems, hl, if_false, ht, hd, ihr, Except.map, ofLE_leBytes_of_lt hfi]
          | raw nm w =>
            cases v with
            | n _ => simp [itemFits] at hfi
            | b d =>
              simp only [itemFits, decide_eq_true_eq] at hfi
              simp only [encodeItem, hfi, if_true, Option.some.injEq] at hei
              subst hei
              have hl : ¬ (d ++ r ++ tl).length < w := by simp [hfi]
              have ht : (d ++ r ++ tl).take w = d := by rw [List.append_assoc, List.take_left' hfi]
              have hd : (d ++ r ++ tl).drop w = r ++ tl := by rw [List.append_assoc, List.drop_left' hfi]
              simp only [decodeItems, hl, if_false, ht, hd, ihr, Except.map]
          | lp nm w =>
            cases v with
            | n _ => simp [itemFits] at hfi
            | b d =>
              simp only [itemFits, decide_eq_true_eq] at hfi
              simp only [encodeItem, Option.some.injEq] at hei
              subst hei
              have hl : ¬ (leBytes w d.length ++ d ++ r ++ tl).length < w := by simp
              have ht : (leBytes w d.length ++ d ++ r ++ tl).take w = leBytes w d.length := by
                rw [List.append_assoc, List.append_assoc, List.take_left' (leBytes_length w _)]
              have hd : (leBytes w d.length ++ d ++ r ++ tl).drop w = d ++ (r ++ tl) := by
                rw [List.append_assoc, List.append_assoc, List.drop_left' (leBytes_length w _)]
              have hl2 : ¬ (d ++ (r ++ tl)).length < d.length := by simp
              simp only [decodeItems, hl, if_false, ht, hd, ofLE_leBytes_of_lt hfi, hl2,
                List.take_left' rfl, List.drop_left' rfl, ihr, Except.map]

/-- corollary without trailing bytes -/
theorem decodeItems_encodeItems' (is : List Item) (vs : List Val) (bs : Bytes)
    (hf : fitsAll is vs = true) (he : encodeItems is vs = some bs) :
    decodeItems is bs = .ok (vs, []) := by
  have := decodeItems_encodeItems is vs bs [] hf he
  simpa using this

/-- an encoding is at least `minBytes` long, exactly that long when the table has no length-prefixed field -/
theorem encodeItems_length_ge (is : List Item) (vs : List Val) (bs : Bytes) (he : encodeItems is vs = some bs) :
    minBytes is ≤ bs.length ∧ (hasLp is = false → bs.length = minBytes is) := by
  induction is generalizing vs bs with
  | nil =>
    cases vs with
    | nil => simp [encodeItems] at he; subst he; simp [minBytes]
    | cons _ _ => simp [encodeItems] at he
  | cons i is ih =>
    cases vs with
    | nil => simp [encodeItems] at he
    | cons v vs =>
      simp only [encodeItems] at he
      cases hei : encodeItem i v with
      | none => simp [hei] at he
      | some a =>
        cases hes : encodeItems is vs with
        | none => simp [hei, hes] at he
        | some r =>
          simp only [hei, hes, Option.some.injEq] at he
          subst he
          obtain ⟨h1, h2⟩ := ih vs r hes
          have hl := encodeItem_fits_length hei
          cases i <;> cases v <;> simp [encodeItem] at hei <;>
            simp only [minBytes, hasLp, List.length_append] at * <;>
            first
              | (constructor <;> [omega; (intro h; have := h2 h; omega)])
              | (constructor <;> [omega; (intro h; simp at h)])

/-- a decoder with an exact length guard refuses every byte string of another length -/
theorem decode_exact_length (c : Codec) (hx : c.exact = true) (bs : Bytes) (hl : bs.length ≠ c.minLen) :
    decode c bs = .error .malformed := by
  simp [decode, hx, hl]

/-- a decoder with a lower-bound guard refuses every shorter byte string -/
theorem decode_short (c : Codec) (hx : c.exact = false) (bs : Bytes) (hl : bs.length < c.minLen) :
    decode c bs = .error .malformed := by
  simp [decode, hx, hl]

/-- on a table without length-prefixed fields the items never read past `minBytes` -/
theorem decodeItems_fixed_ok (is : List Item) (h : hasLp is = false) (bs : Bytes) (hl : minBytes is ≤ bs.length) :
    ∃ vs, decodeItems is bs = .ok (vs, bs.drop (minBytes is)) ∧ fitsAll is vs = true := by
  induction is generalizing bs with
  | nil => exact ⟨[], by simp [decodeItems, minBytes], rfl⟩
  | cons i is ih =>
    cases i with
    | u8 nm =>
      cases bs with
      | nil => simp [minBytes] at hl
      | cons x r =>
        simp only [minBytes, List.length_cons] at hl
        obtain ⟨vs, hv, hf⟩ := ih (by simpa [hasLp] using h) r (by omega)
        refine ⟨.n x.toNat :: vs, ?_, ?_⟩
        · simp only [decodeItems, hv, Except.map, minBytes]
          rw [Nat.add_comm, List.drop_succ_cons]
        · simp [fitsAll, itemFits, hf, u8_lt x]
    | le nm w =>
      simp only [minBytes] at hl
      obtain ⟨vs, hv, hf⟩ := ih (by simpa [hasLp] using h) (bs.drop w) (by simp; omega)
      refine ⟨.n (ofLE (bs.take w)) :: vs, ?_, ?_⟩
      · have : ¬ bs.length < w := by omega
        simp only [decodeItems, this, if_false, hv, Except.map, minBytes, List.drop_drop]
      · have hlt := ofLE_lt (bs.take w)
        have : (bs.take w).length = w := by simp; omega
        rw [this] at hlt
        simp [fitsAll, itemFits, hf, hlt]
    | raw nm w =>
      simp only [minBytes] at hl
      obtain ⟨vs, hv, hf⟩ := ih (by simpa [hasLp] using h) (bs.drop w) (by simp; omega)
      refine ⟨.b (bs.take w) :: vs, ?_, ?_⟩
      · have : ¬ bs.length < w := by omega
        simp only [decodeItems, this, if_false, hv, Except.map, minBytes, List.drop_drop]
      · have : (bs.take w).length = w := by simp; omega
        simp [fitsAll, itemFits, hf, this]
    | lp nm w => simp [hasLp] at h

/-- whatever a successful decode returns fits the widths and re-encodes to exactly the bytes it consumed
    (the decoders accept nothing but encodings, up to ignored trailing bytes) -/
theorem decodeItems_sound (is : List Item) (bs : Bytes) (vs : List Val) (rest : Bytes)
    (h : decodeItems is bs = .ok (vs, rest)) :
    ∃ enc, encodeItems is vs = some enc ∧ bs = enc ++ rest ∧ fitsAll is vs = true := by
  induction is generalizing bs vs with
  | nil =>
    simp only [decodeItems, Except.ok.injEq, Prod.mk.injEq] at h
    obtain ⟨h1, h2⟩ := h; subst h1; subst h2
    exact ⟨[], rfl, by simp, rfl⟩
  | cons i is ih =>
    cases i with
    | u8 nm =>
      cases bs with
      | nil => simp [decodeItems] at h
      | cons x r =>
        simp only [decodeItems] at h
        cases hr : decodeItems is r with
        | error e => simp [hr, Except.map] at h
        | ok p =>
          simp only [hr, Except.map, Except.ok.injEq, Prod.mk.injEq] at h
          obtain ⟨h1, h2⟩ := h
          obtain ⟨enc, he, hb, hf⟩ := ih r p.1 (by rw [hr, ← h2])
          subst h1
          refine ⟨UInt8.ofNat (x.toNat % 256) :: enc, ?_, ?_, ?_⟩
          · simp [encodeItems, encodeItem, he]
          · have : UInt8.ofNat (x.toNat % 256) = x := by
              rw [Nat.mod_eq_of_lt (u8_lt x)]; simp
            rw [this, hb]; rfl
          · simp [fitsAll, itemFits, hf, u8_lt x]
    | le nm w =>
      simp only [decodeItems] at h
      by_cases hl : bs.length < w
      · simp [hl] at h
      · simp only [hl, if_false] at h
        cases hr : decodeItems is (bs.drop w) with
        | error e => simp [hr, Except.map] at h
        | ok p =>
          simp only [hr, Except.map, Except.ok.injEq, Prod.mk.injEq] at h
          obtain ⟨h1, h2⟩ := h
          obtain ⟨enc, he, hb, hf⟩ := ih (bs.drop w) p.1 (by rw [hr, ← h2])
          subst h1
          have htl : (bs.take w).length = w := by simp; omega
          refine ⟨bs.take w ++ enc, ?_, ?_, ?_⟩
          · have := leBytes_ofLE (bs.take w)
            rw [htl] at this
            simp [encodeItems, encodeItem, he, this]
          · rw [List.append_assoc, ← hb, List.take_append_drop]
          · have hlt := ofLE_lt (bs.take w)
            rw [htl] at hlt
            simp [fitsAll, itemFits, hf, hlt]
    | raw nm w =>
      simp only [decodeItems] at h
      by_cases hl : bs.length < w
      · simp [hl] at h
      · simp only [hl, if_false] at h
        cases hr : decodeItems is (bs.drop w) with
        | error e => simp [hr, Except.map] at h
        | ok p =>
          simp only [hr, Except.map, Except.ok.injEq, Prod.mk.injEq] at h
          obtain ⟨h1, h2⟩ := h
          obtain ⟨enc, he, hb, hf⟩ := ih (bs.drop w) p.1 (by rw [hr, ← h2])
          subst h1
          have htl : (bs.take w).length = w := by simp; omega
          refine ⟨bs.take w ++ enc, ?_, ?_, ?_⟩
          · simp [encodeItems, encodeItem, he, htl]
          · rw [List.append_assoc, ← hb, List.take_append_drop]
          · simp [fitsAll, itemFits, hf, htl]
    | lp nm w =>
      simp only [decodeItems] at h
      by_cases hl : bs.length < w
      · simp [hl] at h
      · simp only [hl, if_false] at h
        by_cases hl2 : (bs.drop w).length < ofLE (bs.take w)
        · simp only [hl2, if_true] at h
          cases h
        · simp only [hl2, if_false] at h
          cases hr : decodeItems is ((bs.drop w).drop (ofLE (bs.take w))) with
          | error e => simp only [hr, Except.map] at h; cases h
          | ok p =>
            simp only [hr, Except.map, Except.ok.injEq, Prod.mk.injEq] at h
            obtain ⟨h1, h2⟩ := h
            obtain ⟨enc, he, hb, hf⟩ := ih _ p.1 (by rw [hr, ← h2])
            subst h1
            have htl : (bs.take w).length = w := by simp; omega
            have hdl : ((bs.drop w).take (ofLE (bs.take w))).length = ofLE (bs.take w) := by
              rw [List.length_take]; omega
            refine ⟨bs.take w ++ (bs.drop w).take (ofLE (bs.take w)) ++ enc, ?_, ?_, ?_⟩
            · have := leBytes_ofLE (bs.take w)
              rw [htl] at this
              simp only [encodeItems, encodeItem, he, hdl, this]
            · rw [List.append_assoc, List.append_assoc, ← hb, List.take_append_drop, List.take_append_drop]
            · have hlt := ofLE_lt (bs.take w)
              rw [htl] at hlt
              simp only [fitsAll, itemFits, hf, hdl, Bool.and_true, decide_eq_true_eq]
              exact hlt

end MW.KsCodecL
