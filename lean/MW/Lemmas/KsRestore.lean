/-
  Helper lemmas for C12 / C04: what createManagerKeyScope writes (restoreBranch, createScope).
-/
import MW.Lemmas.KsAbs
namespace MW.Lemmas.KsRestore
open MW MW.Model.Keystore MW.Spec.Keystore MW.Lemmas.KsAbs

variable {Priv Pub Addr : Type}

/-- writing the keys of indexes 0..n-1 of one branch into bucket "pub" -/
theorem get_putRange (b n : Nat) (f : Nat → Pub) (p0 : AMap.T (Nat × Nat) Pub) (b' k : Nat) :
    AMap.get (((List.range n).map (fun i => (i, f i))).foldl (fun p e => AMap.put p (b, e.1) e.2) p0) (b', k) =
      if b' = b ∧ k < n then some (f k) else AMap.get p0 (b', k) := by
  induction n with
  | zero => simp
  | succ n ih =>
    rw [List.range_succ, List.map_append, List.foldl_append]
    simp only [List.map_cons, List.map_nil, List.foldl_cons, List.foldl_nil]
    rw [AMap.get_put, ih]
    by_cases hb : b' = b
    · subst hb
      by_cases hk : k = n
      · subst hk; simp
      · have h1 : ¬ ((b', n) = (b', k)) := by intro h; injection h with _ h2; exact hk h2.symm
        by_cases hlt : k < n
        · have : k < n + 1 := by omega
          simp [h1, hlt, this]
        · have : ¬ (k < n + 1) := by omega
          simp [h1, hlt, this]
    · have h1 : ¬ ((b, n) = (b', k)) := by intro h; injection h with h2 _; exact hb h2.symm
      simp [h1, hb]

section
variable [DecidableEq Addr] (sch : Scheme Priv Pub Addr)

/-- what one branch of the restore returns -/
theorem restoreBranch_ok (brPub : Pub) (used : Addr → Bool) (gap hint fuel n : Nat) (l : List (Nat × Pub))
    (h : restoreBranch sch brPub used gap hint fuel = .ok (n, l)) :
    l = (List.range n).map (fun i => (i, sch.ckdPub brPub i)) ∧ hint ≤ n ∧
    (hint ≠ 0 → ∃ cnt nx, scan (fun i => used (sch.addrOf (sch.ckdPub brPub i))) gap hint fuel 0 0 = some (cnt, nx) ∧
        n = (if nx < hint then hint else nx)) := by
  unfold restoreBranch at h
  by_cases h0 : hint = 0
  · simp [h0] at h; obtain ⟨rfl, rfl⟩ := h; simp [h0]
  · simp only [h0, if_false] at h
    cases hs : scan (fun i => used (sch.addrOf (sch.ckdPub brPub i))) gap hint fuel 0 0 with
    | none => rw [hs] at h; simp at h
    | some r =>
      obtain ⟨cnt, nx⟩ := r
      rw [hs] at h
      simp only [Except.ok.injEq, Prod.mk.injEq] at h
      obtain ⟨rfl, rfl⟩ := h
      refine ⟨rfl, ?_, fun _ => ⟨cnt, nx, rfl, rfl⟩⟩
      by_cases hlt : nx < hint
      · simp [hlt]
      · simp [hlt]; omega

/-- RESTORE DISCOVERS, one branch: under the gap hypothesis every used index below `n` is restored -/
theorem restoreBranch_discovers (brPub : Pub) (used : Addr → Bool) (gap hint fuel n n' : Nat) (l : List (Nat × Pub))
    (hh : hint ≠ 0)
    (hG : GapOK (fun i => used (sch.addrOf (sch.ckdPub brPub i))) gap n) (hov : n + gap < 2^32)
    (h : restoreBranch sch brPub used gap hint fuel = .ok (n', l)) :
    ∀ k, k < n → used (sch.addrOf (sch.ckdPub brPub k)) = true → k < n' ∧ (k, sch.ckdPub brPub k) ∈ l := by
  obtain ⟨hl, _, hs⟩ := restoreBranch_ok sch brPub used gap hint fuel n' l h
  obtain ⟨cnt, nx, hscan, hn'⟩ := hs hh
  intro k hk hu
  have hlt := scan_discovers _ gap hint n fuel cnt nx hG hov hscan k hk hu
  have hkn' : k < n' := by
    rw [hn']; by_cases hc : nx < hint
    · simp [hc]; omega
    · simp [hc]; exact hlt
  refine ⟨hkn', ?_⟩
  rw [hl, List.mem_map]
  exact ⟨k, List.mem_range.mpr hkn', rfl⟩

/-- with finitely many used indexes the restore does not run out of fuel -/
theorem restoreBranch_fuel (brPub : Pub) (used : Addr → Bool) (gap hint N fuel : Nat)
    (hN : ∀ i, N ≤ i → used (sch.addrOf (sch.ckdPub brPub i)) = false)
    (hov1 : N + gap < 2^32) (hov2 : hint + gap < 2^32) (hf : max N hint + gap + 1 < fuel) :
    ∃ r, restoreBranch sch brPub used gap hint fuel = .ok r := by
  unfold restoreBranch
  by_cases h0 : hint = 0
  · simp [h0]
  · simp only [h0, if_false]
    obtain ⟨r, hr⟩ := scan_fuel _ gap hint N hN hov1 hov2 fuel 0 0 (Nat.zero_le _) (by omega)
    rw [hr]; exact ⟨_, rfl⟩

/-- everything createScope determines about the account bucket it writes -/
structure Created (ks : KS Priv Pub Addr) (mn pass : String) (coin hintEx hintIn : Nat) (used : Addr → Bool)
    (gap fuel : Nat) (id : String) (r : Rec Priv Pub) : Prop where
  id_eq : id = sch.idOf (sch.pubOf (sch.master mn pass coin))
  fresh : AMap.get ks.recs id = none
  mnemonic_eq : r.mnemonic = mn
  pass_eq : r.pass = pass
  coin_eq : r.coin = coin
  pubParams_eq : r.pubParams = ks.pubPass
  acctPriv_eq : r.acctPriv = sch.master mn pass coin
  acctPub_eq : r.acctPub = sch.pubOf (sch.master mn pass coin)
  exPub_eq : r.exPub = sch.pubOf (sch.ckdPriv (sch.master mn pass coin) externalBranch)
  inPub_eq : r.inPub = sch.pubOf (sch.ckdPriv (sch.master mn pass coin) internalBranch)
  exBranch : ∃ l, restoreBranch sch r.exPub used gap hintEx fuel = .ok (r.exNum, l)
  inBranch : ∃ l, restoreBranch sch r.inPub used gap hintIn fuel = .ok (r.inNum, l)
  pubs : ∀ b k, AMap.get r.pubs (b, k) =
    if b = externalBranch ∧ k < r.exNum then some (sch.ckdPub r.exPub k)
    else if b = internalBranch ∧ k < r.inNum then some (sch.ckdPub r.inPub k) else none

theorem createScope_ok (ks : KS Priv Pub Addr) (mn pass : String) (coin hintEx hintIn : Nat) (used : Addr → Bool)
    (gap fuel : Nat) (id : String) (r : Rec Priv Pub)
    (h : createScope sch ks mn pass coin hintEx hintIn used gap fuel = .ok (id, r)) :
    Created sch ks mn pass coin hintEx hintIn used gap fuel id r := by
  unfold createScope at h
  simp only at h
  by_cases hd : (AMap.get ks.recs (sch.idOf (sch.pubOf (sch.master mn pass coin)))).isSome = true
  · rw [if_pos hd] at h; cases h
  · rw [if_neg hd] at h
    cases hi : restoreBranch sch (sch.pubOf (sch.ckdPriv (sch.master mn pass coin) internalBranch)) used gap hintIn fuel with
    | error e => rw [hi] at h; cases h
    | ok ri =>
      obtain ⟨inNum, inPubs⟩ := ri
      rw [hi] at h
      simp only at h
      cases he : restoreBranch sch (sch.pubOf (sch.ckdPriv (sch.master mn pass coin) externalBranch)) used gap hintEx fuel with
      | error e => rw [he] at h; cases h
      | ok re =>
        obtain ⟨exNum, exPubs⟩ := re
        rw [he] at h
        simp only [Except.ok.injEq, Prod.mk.injEq] at h
        obtain ⟨rfl, rfl⟩ := h
        have hl1 := (restoreBranch_ok sch _ used gap hintIn fuel inNum inPubs hi).1
        have hl2 := (restoreBranch_ok sch _ used gap hintEx fuel exNum exPubs he).1
        refine ⟨rfl, ?_, rfl, rfl, rfl, rfl, rfl, rfl, rfl, rfl, ⟨exPubs, he⟩, ⟨inPubs, hi⟩, ?_⟩
        · cases hg : AMap.get ks.recs (sch.idOf (sch.pubOf (sch.master mn pass coin))) with
          | none => rfl
          | some x => rw [hg] at hd; simp at hd
        · intro b k
          simp only
          rw [hl2, get_putRange, hl1, get_putRange]
          by_cases h1 : b = externalBranch ∧ k < exNum
          · simp [h1]
          · simp only [h1, if_false]
            by_cases h2 : b = internalBranch ∧ k < inNum
            · simp [h2]
            · simp [h2, AMap.get]

end
end MW.Lemmas.KsRestore
