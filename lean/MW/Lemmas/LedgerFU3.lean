/-
  ADDRESS RECORDS = FIRST-USE HEIGHTS, part 3: REORG AND ARBITRARY NOTIFICATIONS.

  `reorg` is, as far as the store goes, a sequence of `disconnectBlock`s at the heights it reports as rolled
  back (`discSeq`, `reorgDisconnect_trace`: read off the three walk loops, no invariant needed) followed by
  `connectAll`. The reorg theorems of C01 say where that sequence leads (`reorgDisconnect_spec`,
  `processM_stale`); along it every step is a tip disconnect (`disconnect_addr`) or a connect of the next block
  of the node's chain (`connect_addr`), so the address clause arrives too:
    processM_addr      one database transaction of processConnectedBlock, for an ARBITRARY notified block
    handler_step_addr  `processBlock_total` with the address clause
-/
import MW.Lemmas.LedgerReorg3
import MW.Lemmas.LedgerFU2
namespace MW.Lemmas.LedgerFU
open MW MW.Model.Ledger MW.Spec.Chain MW.Spec.Books MW.Lemmas.Ledger

-- ------------------------------------------------------------------ 1. the disconnects of reorg, as a sequence

/-- disconnect the given heights one after the other -/
def discSeq (c : Ctx) : Store → List Nat → M Store
  | s, [] => pure s
  | s, h :: hs => disconnectBlock c s h >>= fun s1 => discSeq c s1 hs

theorem discSeq_append (c : Ctx) (a b : List Nat) :
    ∀ (s : Store), discSeq c s (a ++ b) = (discSeq c s a >>= fun s1 => discSeq c s1 b) := by
  induction a with
  | nil => intro s; rfl
  | cons h a ih =>
    intro s
    simp only [List.cons_append, discSeq]
    cases disconnectBlock c s h with
    | error e => rfl
    | ok s1 => simp only [M_ok_bind]; exact ih s1

theorem disconnectDown_trace {c : Ctx} (nbH : Nat) :
    ∀ (fuel : Nat) (s : Store) (curH : Nat) (rolled : List Nat) (r : Store × Nat × List Nat),
      disconnectDown c nbH fuel s curH rolled = .ok r →
      r.2.1 ≤ curH ∧ r.2.2 = rolled ++ descList curH r.2.1 ∧ discSeq c s (descList curH r.2.1) = .ok r.1 := by
  intro fuel
  induction fuel with
  | zero =>
    intro s curH rolled r h
    simp only [disconnectDown, M_pure_eq, Except.ok.injEq] at h
    subst h
    simp [descList_self, discSeq]
  | succ fuel ih =>
    intro s curH rolled r h
    unfold disconnectDown at h
    by_cases hgt : curH > nbH
    · simp only [hgt, if_true] at h
      cases h1 : disconnectBlock c s curH with
      | error e => rw [h1] at h; cases h
      | ok s1 =>
        rw [h1, M_ok_bind] at h
        obtain ⟨g1, g2, g3⟩ := ih s1 (curH - 1) (rolled ++ [curH]) r h
        have hlt : r.2.1 < curH := by omega
        refine ⟨by omega, ?_, ?_⟩
        · rw [g2, descList_cons hlt]; simp
        · rw [descList_cons hlt]
          simp only [discSeq]
          rw [h1, M_ok_bind]
          exact g3
    · simp only [hgt, if_false, M_pure_eq, Except.ok.injEq] at h
      subst h
      simp [descList_self, discSeq]

theorem walkBack_trace {c : Ctx} :
    ∀ (fuel : Nat) (w : Walk) (r : Walk × Bool), walkBack c fuel w = .ok r →
      r.1.prevH ≤ w.prevH ∧ r.1.rolled = w.rolled ++ descList (w.prevH + 1) (r.1.prevH + 1) ∧
        discSeq c w.s (descList (w.prevH + 1) (r.1.prevH + 1)) = .ok r.1.s := by
  intro fuel
  induction fuel with
  | zero =>
    intro w r h
    simp only [walkBack, M_pure_eq, Except.ok.injEq] at h
    subst h
    simp [descList_self, discSeq]
  | succ fuel ih =>
    intro w r h
    unfold walkBack at h
    by_cases hne : w.tail.prev ≠ w.prevHash
    · rw [if_pos hne] at h
      cases h1 : disconnectBlock c w.s (w.prevH + 1) with
      | error e => rw [h1] at h; cases h
      | ok s1 =>
        rw [h1, M_ok_bind] at h
        by_cases h0 : w.prevH = 0
        · simp only [h0, if_true] at h; cases h
        · simp only [h0, if_false] at h
          cases hs : AMap.get s1.sync (w.prevH - 1) with
          | none => rw [hs] at h; cases h
          | some ph' =>
            rw [hs] at h
            simp only at h
            cases hf : c.node.fetchBlock w.tail.prev with
            | none => rw [hf] at h; cases h
            | some pb =>
              rw [hf] at h
              simp only at h
              obtain ⟨g1, g2, g3⟩ := ih _ r h
              dsimp only at g1 g2 g3
              have hlt : r.1.prevH + 1 < w.prevH + 1 := by omega
              have hpm : w.prevH - 1 + 1 = w.prevH := by omega
              rw [hpm] at g2 g3
              refine ⟨by omega, ?_, ?_⟩
              · rw [g2, descList_cons hlt]; simp
              · rw [descList_cons hlt]
                simp only [discSeq, Nat.add_sub_cancel]
                rw [h1, M_ok_bind]
                exact g3
    · rw [if_neg hne] at h
      simp only [M_pure_eq, Except.ok.injEq] at h
      subst h
      simp [descList_self, discSeq]

/-- reorg step 2 only disconnects, and exactly at the heights it reports, which descend from the tip -/
theorem reorgDisconnect_trace {c : Ctx} {s s1 : Store} {best : BlockMeta} {nb : Block} {tc tc' : List Block}
    {rolled : List Nat} (h : reorgDisconnect c s best nb tc = .ok (s1, rolled, tc')) :
    ∃ k, k ≤ best.height ∧ rolled = descList best.height k ∧ discSeq c s rolled = .ok s1 := by
  unfold reorgDisconnect at h
  by_cases hid : best.hash = nb.id
  · simp only [hid, if_true, M_pure_eq, Except.ok.injEq, Prod.mk.injEq] at h
    obtain ⟨rfl, rfl, _⟩ := h
    exact ⟨best.height, Nat.le_refl _, (descList_self _).symm, rfl⟩
  · simp only [hid, if_false] at h
    cases h1 : disconnectDown c nb.height (best.height + 1) s best.height [] with
    | error e => rw [h1] at h; cases h
    | ok r1 =>
      obtain ⟨sa, curH, rolled1⟩ := r1
      rw [h1, M_ok_bind] at h
      obtain ⟨g1, g2, g3⟩ := disconnectDown_trace _ _ _ _ _ _ h1
      simp only [List.nil_append] at g1 g2 g3
      simp only at h
      cases hs : AMap.get sa.sync curH with
      | none => rw [hs] at h; cases h
      | some bh =>
        rw [hs] at h
        simp only at h
        by_cases hb : bh = nb.id
        · simp only [hb, if_true, M_pure_eq, Except.ok.injEq, Prod.mk.injEq] at h
          obtain ⟨rfl, rfl, _⟩ := h
          exact ⟨curH, g1, g2, by rw [g2]; exact g3⟩
        · simp only [hb, if_false] at h
          by_cases h0 : curH = 0
          · simp only [h0, if_true] at h; cases h
          · simp only [h0, if_false] at h
            cases hs2 : AMap.get sa.sync (curH - 1) with
            | none => rw [hs2] at h; cases h
            | some ph =>
              rw [hs2] at h
              simp only at h
              cases hw : walkBack c (best.height + 2)
                  { s := sa, prevH := curH - 1, prevHash := ph, tail := nb, tc := tc, rolled := rolled1 } with
              | error e => rw [hw] at h; cases h
              | ok rw_ =>
                obtain ⟨w, done⟩ := rw_
                rw [hw, M_ok_bind] at h
                cases done with
                | false => simp at h
                | true =>
                  simp only [Bool.not_true, Bool.false_eq_true, if_false] at h
                  cases hd : disconnectBlock c w.s (w.prevH + 1) with
                  | error e => rw [hd] at h; cases h
                  | ok s2 =>
                    rw [hd, M_ok_bind] at h
                    simp only [M_pure_eq, Except.ok.injEq, Prod.mk.injEq] at h
                    obtain ⟨rfl, rfl, _⟩ := h
                    obtain ⟨k1, k2, k3⟩ := walkBack_trace _ _ _ hw
                    simp only at k1 k2 k3
                    have hpm : curH - 1 + 1 = curH := by omega
                    rw [hpm] at k2 k3
                    have hshape : w.rolled ++ [w.prevH + 1] = descList best.height w.prevH := by
                      rw [k2, g2, descList_append g1 (by omega),
                        descList_concat (hi := best.height) (lo := w.prevH) (by omega)]
                    refine ⟨w.prevH, by omega, hshape, ?_⟩
                    rw [k2, g2, List.append_assoc, discSeq_append, g3, M_ok_bind, discSeq_append, k3, M_ok_bind]
                    simp only [discSeq]
                    rw [hd]; rfl

-- ------------------------------------------------------------------ 2. the clause along the sequence

/-- the disconnects `curH, curH-1, …, f+1` from a store that holds the first `curH+1` blocks of `S` -/
theorem discSeq_addr {c : Ctx} {S : List Block} (H : ReorgHyp c S) (f : Nat) :
    ∀ (n : Nat) (s : Store) (curH : Nat) (s1 : Store), curH - f = n →
      Inv c s (S.take (curH + 1)) → AddrInv c s (S.take (curH + 1)) → curH < S.length → f ≤ curH →
      AllReady c.own (readyWallets s c.wallets) →
      discSeq c s (descList curH f) = .ok s1 →
      Inv c s1 (S.take (f + 1)) ∧ AddrInv c s1 (S.take (f + 1)) := by
  intro n
  induction n with
  | zero =>
    intro s curH s1 hn hI hA _ hle _ h
    have : curH = f := by omega
    subst this
    rw [descList_self] at h
    cases h
    exact ⟨hI, hA⟩
  | succ n ih =>
    intro s curH s1 hn hI hA hlen hle hAR h
    have hlt : f < curH := by omega
    rw [descList_cons hlt] at h
    simp only [discSeq] at h
    obtain ⟨s2, h2, hI2, hr2⟩ := disconnect_step H (k := curH) (by omega) hlen hI hAR
    rw [h2, M_ok_bind] at h
    have hx : S[curH]? = some S[curH] := List.getElem?_eq_getElem hlen
    have e := take_succ_of_get hx
    have hne : S.take curH ≠ [] := by
      intro h0
      have := congrArg List.length h0
      rw [List.length_take, List.length_nil] at this
      omega
    have hh : S[curH].height = curH := H.goodS.height_at hx
    have hA2 : AddrInv c s2 (S.take curH) :=
      disconnect_addr (b := S[curH]) (by rw [← e]; exact hI) (by rw [← e]; exact hA) hne
        (by rw [← e]; exact chainValid_take H.validS _) (by rw [← e]; exact heightsOK_take H.goodS.heights _)
        (H.known _ (mem_of_get hx)) hAR (by rw [hh]; exact h2)
    have hpm : curH - 1 + 1 = curH := by omega
    exact ih s2 (curH - 1) s1 (by omega) (by rw [hpm]; exact hI2) (by rw [hpm]; exact hA2) (by omega) (by omega)
      (by rw [hr2]; exact hAR) h

/-- connecting the next blocks of the node's chain one after the other (cf. `connectAll_sound`) -/
theorem connectAll_addr {c : Ctx} (tc : List Block) :
    ∀ (s : Store) (chain rest : List Block) (added : List (Nat × List TxId))
      (r : Store × List (Nat × List TxId)),
      Inv c s chain → AddrInv c s chain → c.node.chain = chain ++ tc ++ rest → ChainValid c.own c.node.chain →
      HeightsOK c.node.chain →
      AllReady c.own (readyWallets s c.wallets) → (readyWallets s c.wallets).isEmpty = false →
      connectAll c (readyWallets s c.wallets) tc s added = .ok r → AddrInv c r.1 (chain ++ tc) := by
  induction tc with
  | nil =>
    intro s chain rest added r _ hA _ _ _ _ _ h
    simp only [connectAll, M_pure_eq, Except.ok.injEq] at h
    subst h
    simpa using hA
  | cons b tc ih =>
    intro s chain rest added r hI hA hnode hvalid hH hAR hne h
    have hnode' : c.node.chain = chain ++ b :: (tc ++ rest) := by rw [hnode]; simp
    have hheight : b.height = chain.length := by
      have hH' : ∀ (i : Nat) (b : Block), c.node.chain[i]? = some b → b.height = i := hH
      apply hH' chain.length b
      rw [hnode']; simp
    obtain ⟨s1, conf, h1, hI1, hst1⟩ := connect_sound hI hnode' hvalid hheight hAR hne
    have hA1 := connect_addr hI hA hnode' hvalid hheight hAR hne h1
    have hrw := readyWallets_congr hst1 c.wallets
    unfold connectAll at h
    rw [h1, M_ok_bind] at h
    simp only at h
    rw [← hrw] at h
    have := ih s1 (chain ++ [b]) rest (added ++ [(b.height, conf)]) r hI1 hA1
      (by rw [hnode]; simp) hvalid hH (by rw [hrw]; exact hAR) (by rw [hrw]; exact hne) h
    simpa using this

theorem connectAll_added_length {c : Ctx} {ready : List Wid} (tc : List Block) :
    ∀ (s : Store) (added : List (Nat × List TxId)) (r : Store × List (Nat × List TxId)),
      connectAll c ready tc s added = .ok r → r.2.length = added.length + tc.length := by
  induction tc with
  | nil =>
    intro s added r h
    simp only [connectAll, M_pure_eq, Except.ok.injEq] at h
    subst h; simp
  | cons b tc ih =>
    intro s added r h
    unfold connectAll at h
    cases hf : filterBlock c s ready b with
    | error e => rw [hf] at h; cases h
    | ok r1 =>
      rw [hf, M_ok_bind] at h
      have := ih _ _ _ h
      rw [this]; simp; omega

-- ------------------------------------------------------------------ 3. one database transaction

/-- what `processM` runs: the direct connect, or disconnects at descending heights then `connectAll` -/
theorem processM_trace {c : Ctx} {s s' : Store} {v : Vol} {b : Block} {rolled : List Nat}
    {added : List (Nat × List TxId)} (h : processM c s v b = .ok (s', rolled, added)) :
    (b.prev = v.best.hash ∧ ∃ conf, filterBlock c s (readyWallets s c.wallets) b = .ok (s', conf)) ∨
    (b.prev ≠ v.best.hash ∧ ∃ s1 tc k, k ≤ v.best.height ∧ rolled = descList v.best.height k ∧
      discSeq c s rolled = .ok s1 ∧ connectAll c (readyWallets s1 c.wallets) tc s1 [] = .ok (s', added)) := by
  unfold processM at h
  by_cases hp : b.prev = v.best.hash
  · simp only [hp, if_true] at h
    cases hf : filterBlock c s (readyWallets s c.wallets) b with
    | error e => rw [hf] at h; cases h
    | ok r =>
      rw [hf, M_ok_bind] at h
      simp only [M_pure_eq, Except.ok.injEq, Prod.mk.injEq] at h
      exact Or.inl ⟨hp, r.2, by rw [← h.1]⟩
  · simp only [hp, if_false] at h
    unfold reorg at h
    cases ha : alignNew c v.best.height (b.height + 1) b [] with
    | error e => rw [ha] at h; cases h
    | ok r =>
      obtain ⟨nb, tc⟩ := r
      rw [ha] at h
      simp only [M_ok_bind] at h
      cases hr : reorgDisconnect c s v.best nb tc with
      | error e => rw [hr] at h; cases h
      | ok r =>
        obtain ⟨s2, rolled2, tc2⟩ := r
        rw [hr] at h
        simp only [M_ok_bind] at h
        cases hc : connectAll c (readyWallets s2 c.wallets) tc2 s2 [] with
        | error e => rw [hc] at h; cases h
        | ok r =>
          obtain ⟨s3, added3⟩ := r
          rw [hc] at h
          simp only [M_ok_bind, M_pure_eq, Except.ok.injEq, Prod.mk.injEq] at h
          obtain ⟨rfl, rfl, rfl⟩ := h
          obtain ⟨k, hk1, hk2, hk3⟩ := reorgDisconnect_trace hr
          exact Or.inr ⟨hp, s2, tc2, k, hk1, hk2, hk3, hc⟩

/-- ONE DATABASE TRANSACTION of processConnectedBlock, for an ARBITRARY notified block, keeps the address
    clause: it holds for whichever chain `processBlock_total` says the store then holds. -/
theorem processM_addr {c : Ctx} {S : List Block} (H : ReorgHyp c S) {s : Store} {v : Vol} {b : Block}
    {s' : Store} {rolled : List Nat} {added : List (Nat × List TxId)}
    (hinj : IdInj (b :: (S ++ c.node.chain))) (hI : Inv c s S) (hA : AddrInv c s S) (hv : v.best = tipMeta S)
    (hgen : b.height = 0 → b.prev ≠ (tipMeta S).hash)
    (hAR : AllReady c.own (readyWallets s c.wallets)) (hne : (readyWallets s c.wallets).isEmpty = false)
    (h : processM c s v b = .ok (s', rolled, added)) :
    (c.node.chain[b.height]? = some b → AddrInv c s' (c.node.chain.take (b.height + 1))) ∧
    (c.node.chain[b.height]? ≠ some b → AddrInv c s' (S.take (b.height + 1))) := by
  obtain ⟨xH, hxH, htip⟩ := tipMeta_good H.goodS
  have hSpos := H.goodS.length_pos
  have hSlen : S.length - 1 + 1 = S.length := by omega
  have hItop : Inv c s (S.take (S.length - 1 + 1)) := by rw [hSlen, List.take_length]; exact hI
  have hAtop : AddrInv c s (S.take (S.length - 1 + 1)) := by rw [hSlen, List.take_length]; exact hA
  have hbest : v.best.height = S.length - 1 := by rw [hv, htip]
  constructor
  · intro hb
    rcases processM_trace h with ⟨hp, conf, hf⟩ | ⟨hp, s1, tc, k, hk1, hk2, hk3, hc⟩
    · -- direct path: `b` extends the stored chain
      rw [hv] at hp
      have hB0 : ¬ b.height = 0 := fun h0 => hgen h0 hp
      obtain ⟨k, hk⟩ : ∃ k, b.height = k + 1 := ⟨b.height - 1, by omega⟩
      rw [hk] at hb
      have hkN : k < c.node.chain.length := by have := (List.getElem?_eq_some_iff.1 hb).1; omega
      have hy : c.node.chain[k]? = some c.node.chain[k] := List.getElem?_eq_getElem hkN
      have hid : xH.id = c.node.chain[k].id := by
        rw [← H.goodN.prev_at hy hb, hp, htip]
      have hpos := pos_of_id H.goodS H.goodN H.inj hxH hy hid
      have hpre := prefix_of_id H.goodS H.goodN H.inj _ _ _ hxH (by rw [hpos]; exact hy) hid
      rw [show S.length - 1 + 1 = S.length by omega, List.take_length] at hpre
      have hSlen' : S.length = k + 1 := by omega
      replace hpre : S = c.node.chain.take (k + 1) := by rw [← hSlen']; exact hpre
      have hnode : c.node.chain = S ++ b :: c.node.chain.drop (k + 2) := by
        conv => rhs; rw [hpre]
        have : c.node.chain.drop (k + 1) = b :: c.node.chain.drop (k + 2) := by
          rw [List.drop_eq_getElem?_toList_append, hb]; rfl
        rw [← this, List.take_append_drop]
      have := connect_addr hI hA hnode H.validN (by omega) hAR hne hf
      rw [hk, take_succ_of_get hb, ← hpre]; exact this
    · -- reorg path
      obtain ⟨nb, hnb, hal⟩ := alignNew_min H.goodN H.inj.right (S.length - 1) hb
      obtain ⟨f, s1', hfh, hf, hmax, hrd, hI1, hr1⟩ :=
        reorgDisconnect_spec H (h := min b.height (S.length - 1)) (nb := nb)
          ((c.node.chain.take (b.height + 1)).drop (min b.height (S.length - 1) + 1)) hI (by omega) hnb hAR
      rw [seg_append _ hfh (by omega)] at hrd
      have hfb : f ≤ b.height := by omega
      -- the run of `processM` is the run the reorg theorems describe
      have hrun := h
      unfold processM at hrun
      rw [hv] at hp
      rw [hv] at hrun
      simp only [hp, if_false] at hrun
      unfold reorg at hrun
      have hth : (tipMeta S).height = S.length - 1 := by rw [htip]
      rw [hth, hal] at hrun
      simp only [M_ok_bind] at hrun
      rw [hrd] at hrun
      simp only [M_ok_bind] at hrun
      obtain ⟨k', _, _, hd'⟩ := reorgDisconnect_trace hrd
      obtain ⟨hI1', hA1⟩ := discSeq_addr H f (S.length - 1 - f) s (S.length - 1) s1' rfl hItop hAtop (by omega)
        (by omega) hAR hd'
      cases hca : connectAll c (readyWallets s1' c.wallets) ((c.node.chain.take (b.height + 1)).drop (f + 1)) s1' [] with
      | error e => rw [hca] at hrun; cases hrun
      | ok r =>
        rw [hca] at hrun
        simp only [M_ok_bind, M_pure_eq, Except.ok.injEq, Prod.mk.injEq] at hrun
        have := connectAll_addr ((c.node.chain.take (b.height + 1)).drop (f + 1)) s1' (c.node.chain.take (f + 1))
          (c.node.chain.drop (b.height + 1)) [] r (by rw [← hf]; exact hI1) (by rw [← hf]; exact hA1)
          (chain_split _ hfb) H.validN H.goodN.heights (by rw [hr1]; exact hAR) (by rw [hr1]; exact hne) hca
        rw [take_append_seg _ hfb, hrun.1] at this
        exact this
  · intro hoff
    obtain ⟨g1, g2, g3, _⟩ := processM_stale H hinj hI hv hAR hoff h
    rcases processM_trace h with ⟨_, conf, hf⟩ | ⟨_, s1, tc, k, hk1, hk2, hk3, hc⟩
    · exact absurd (filterBlock_ok_onChain hinj hf) hoff
    · subst g3
      have hlen := connectAll_added_length _ _ _ _ hc
      simp only [List.length_nil, Nat.zero_add] at hlen
      have htc : tc = [] := List.eq_nil_of_length_eq_zero hlen.symm
      subst htc
      simp only [connectAll, M_pure_eq, Except.ok.injEq, Prod.mk.injEq] at hc
      obtain ⟨rfl, _⟩ := hc
      rw [hbest] at hk1 hk2
      rw [hk2] at hk3
      obtain ⟨hI1, hA1⟩ := discSeq_addr H k (S.length - 1 - k) s (S.length - 1) s1 rfl hItop hAtop (by omega)
        hk1 hAR hk3
      have hbl : b.height < S.length := (List.getElem?_eq_some_iff.1 g1).1
      have e1 := hI1.syncedTo
      have e2 := g2.syncedTo
      rw [List.length_take] at e1 e2
      have : k = b.height := by omega
      rw [← this]; exact hA1

/-- `handler_step` (`processBlock_total`) WITH THE ADDRESS CLAUSE: for an arbitrary notified block the handler
    step either fails and changes nothing, or succeeds and the store holds books AND first-use heights of the
    node's chain up to the block, resp. – a stale block still on the wallet's chain – of its own chain up to it -/
theorem handler_step_addr {c : Ctx} {S : List Block} (H : ReorgHyp c S) {s : Store} {v : Vol} {b : Block}
    (hinj : IdInj (b :: (S ++ c.node.chain))) (hI : Inv c s S) (hA : AddrInv c s S) (hv : v.best = tipMeta S)
    (hgen : b.height = 0 → b.prev ≠ (tipMeta S).hash)
    (hAR : AllReady c.own (readyWallets s c.wallets)) (hne : (readyWallets s c.wallets).isEmpty = false) :
    ∃ s' v' ok, processBlock c s v b = (s', v', ok) ∧
      ((ok = false ∧ s' = s ∧ v' = v) ∨
       (ok = true ∧ v'.best = ⟨b.height, b.id⟩ ∧ (∀ ws, readyWallets s' ws = readyWallets s ws) ∧
        ((c.node.chain[b.height]? = some b ∧ Inv c s' (c.node.chain.take (b.height + 1)) ∧
            AddrInv c s' (c.node.chain.take (b.height + 1))) ∨
         (S[b.height]? = some b ∧ Inv c s' (S.take (b.height + 1)) ∧ AddrInv c s' (S.take (b.height + 1)))))) := by
  cases hr : processM c s v b with
  | error e => exact ⟨s, v, false, processBlock_of_error hr, Or.inl ⟨rfl, rfl, rfl⟩⟩
  | ok r =>
    obtain ⟨s', rolled, added⟩ := r
    obtain ⟨v', h1, h2⟩ := processBlock_of_ok hr
    obtain ⟨a1, a2⟩ := processM_addr H hinj hI hA hv hgen hAR hne hr
    obtain ⟨s'', v'', ok, p1, p2⟩ := processBlock_total H hinj hI hv hgen hAR hne
    rw [h1] at p1
    simp only [Prod.mk.injEq] at p1
    obtain ⟨rfl, rfl, rfl⟩ := p1
    rcases p2 with ⟨hf, _, _⟩ | ⟨_, q2, q3, q4⟩
    · cases hf
    · refine ⟨s', v', true, h1, Or.inr ⟨rfl, q2, q3, ?_⟩⟩
      by_cases hb : c.node.chain[b.height]? = some b
      · rcases q4 with ⟨_, qi⟩ | ⟨qs, qi⟩
        · exact Or.inl ⟨hb, qi, a1 hb⟩
        · -- both descriptions hold; use the node-chain one through `processBlock_reaches`
          obtain ⟨s3, v3, r1, r2, _, _, _⟩ := processBlock_reaches H hI hb hv hgen hAR hne
          rw [h1] at r1
          simp only [Prod.mk.injEq] at r1
          obtain ⟨rfl, _, _⟩ := r1
          exact Or.inl ⟨hb, r2, a1 hb⟩
      · rcases q4 with ⟨qb, _⟩ | ⟨qs, qi⟩
        · exact absurd qb hb
        · exact Or.inr ⟨qs, qi, a2 hb⟩

end MW.Lemmas.LedgerFU
