/-
  The invariant holds for a fresh wallet database: empty ledger buckets, synced to an empty genesis block,
  zero balances (base case of build_sound / ledger_correct).
-/
import MW.Lemmas.LedgerConnect
namespace MW.Lemmas.Ledger
open MW MW.Model.Ledger MW.Spec.Chain MW.Spec.Books

theorem bookOf_genesis (p : Params) (own : Own) (G : Block) (hG : G.txs = []) : bookOf p own [G] = {} := by
  simp [bookOf, occs, occsOfBlock, hG, occsFrom]

/-- a store with empty ledger buckets, synced to the (transaction-free) genesis block -/
structure FreshStore (c : Ctx) (s : Store) (G : Block) : Prop where
  credits : s.credits = []
  unspent : s.unspent = []
  debits : s.debits = []
  game : s.game = []
  txrecs : s.txrecs = []
  blocks : s.blocks = []
  sync : s.sync = [(0, G.id)]
  syncedTo : s.syncedTo = 0
  balance : ∀ w, (readyWallets s c.wallets).contains w = true → AMap.get s.balance w = some 0
  genesis : G.txs = []

theorem inv_fresh {c : Ctx} {s : Store} {G : Block} (h : FreshStore c s G) : Inv c s [G] := by
  have hB := bookOf_genesis c.p c.own G h.genesis
  constructor
  · rw [hB]
    constructor
    · intro w tx idx; rw [h.unspent]; rfl
    · intro k; rw [h.credits]; rfl
    · intro k; rw [h.debits]; rfl
    · intro k; rw [h.game]; rfl
    · intro k; rw [h.txrecs]; rfl
    · intro k; rw [h.blocks]; rfl
  · intro w hw
    rw [hB, h.balance w hw]; rfl
  · intro k
    rw [h.sync, AMap.get_cons]
    unfold syncOf
    cases k with
    | zero => simp
    | succ n => simp [AMap.get_nil]
  · rw [h.syncedTo]; rfl

/-- … including the address records, relative to the records the store starts with (the issued addresses) -/
theorem invFull_fresh {c : Ctx} {s : Store} {G : Block} (h : FreshStore c s G) :
    InvFull c s (fun k => AMap.get s.addrs k) [G] := by
  refine ⟨inv_fresh h, fun k => ?_⟩
  simp [booksFrom, occs, occsOfBlock, h.genesis, occsFrom]

end MW.Lemmas.Ledger
