/-
  Insertion sort `sortBy` (MW.Base.KvOps) and uniqueness of strictly ascending lists.
-/
import MW.Base.KvOps
import MW.Lemmas.KvOrder
namespace MW.KV

theorem mem_insertBy {α : Type} (lt : α → α → Bool) (x y : α) (l : List α) :
    y ∈ insertBy lt x l ↔ y = x ∨ y ∈ l := by
  induction l with
  | nil => simp [insertBy]
  | cons a r ih =>
    simp only [insertBy]
    by_cases h : lt x a = true
    · simp [h]
    · simp only [h, Bool.false_eq_true, if_false, List.mem_cons, ih]
      constructor
      · rintro (h | h | h)
        · exact Or.inr (Or.inl h)
        · exact Or.inl h
        · exact Or.inr (Or.inr h)
      · rintro (h | h | h)
        · exact Or.inr (Or.inl h)
        · exact Or.inl h
        · exact Or.inr (Or.inr h)

theorem mem_sortBy {α : Type} (lt : α → α → Bool) (y : α) (l : List α) : y ∈ sortBy lt l ↔ y ∈ l := by
  induction l with
  | nil => simp [sortBy]
  | cons a r ih =>
    simp only [sortBy, List.foldr_cons] at ih ⊢
    rw [mem_insertBy, ih]; simp

/-- insertion keeps a list strictly ascending when the new element is comparable with all of it -/
theorem insertBy_pairwise {α : Type} (lt : α → α → Bool)
    (trans : ∀ a b c, lt a b = true → lt b c = true → lt a c = true)
    (x : α) (l : List α) (hl : l.Pairwise (fun a b => lt a b = true))
    (htot : ∀ y ∈ l, lt x y = true ∨ lt y x = true) :
    (insertBy lt x l).Pairwise (fun a b => lt a b = true) := by
  induction l with
  | nil => simp [insertBy]
  | cons a r ih =>
    have hl' := List.pairwise_cons.mp hl
    simp only [insertBy]
    by_cases h : lt x a = true
    · simp only [h, if_true]
      refine List.pairwise_cons.mpr ⟨?_, hl⟩
      intro y hy
      rcases List.mem_cons.mp hy with hy | hy
      · rw [hy]; exact h
      · exact trans _ _ _ h (hl'.1 y hy)
    · simp only [h, Bool.false_eq_true, if_false]
      refine List.pairwise_cons.mpr ⟨?_, ih hl'.2 (fun y hy => htot y (List.mem_cons_of_mem _ hy))⟩
      intro y hy
      rcases (mem_insertBy lt x y r).mp hy with hy | hy
      · rw [hy]
        rcases htot a List.mem_cons_self with h' | h'
        · exact absurd h' h
        · exact h'
      · exact hl'.1 y hy

theorem sortBy_pairwise {α : Type} (lt : α → α → Bool)
    (trans : ∀ a b c, lt a b = true → lt b c = true → lt a c = true)
    (l : List α) (htot : l.Pairwise (fun a b => lt a b = true ∨ lt b a = true)) :
    (sortBy lt l).Pairwise (fun a b => lt a b = true) := by
  induction l with
  | nil => simp [sortBy]
  | cons a r ih =>
    have h' := List.pairwise_cons.mp htot
    simp only [sortBy, List.foldr_cons] at ih ⊢
    apply insertBy_pairwise lt trans a _ (ih h'.2)
    intro y hy
    exact h'.1 y ((mem_sortBy lt y r).mp hy)

/-- two strictly ascending lists with the same members are equal -/
theorem pairwise_ext {α : Type} {R : α → α → Prop} (irr : ∀ a, ¬ R a a) (trans : ∀ a b c, R a b → R b c → R a c) :
    ∀ (l1 l2 : List α), l1.Pairwise R → l2.Pairwise R → (∀ x, x ∈ l1 ↔ x ∈ l2) → l1 = l2 := by
  intro l1
  induction l1 with
  | nil =>
    intro l2 _ _ h
    cases l2 with
    | nil => rfl
    | cons b r => exact absurd ((h b).mpr List.mem_cons_self) (by simp)
  | cons a r1 ih =>
    intro l2 h1 h2 h
    cases l2 with
    | nil => exact absurd ((h a).mp List.mem_cons_self) (by simp)
    | cons b r2 =>
      have s1 := List.pairwise_cons.mp h1
      have s2 := List.pairwise_cons.mp h2
      have hab : a = b := by
        rcases List.mem_cons.mp ((h a).mp List.mem_cons_self) with e | ha
        · exact e
        · rcases List.mem_cons.mp ((h b).mpr List.mem_cons_self) with e | hb
          · exact e.symm
          · exact absurd (trans _ _ _ (s1.1 b hb) (s2.1 a ha)) (irr a)
      subst hab
      congr 1
      apply ih r2 s1.2 s2.2
      intro x
      constructor
      · intro hx
        rcases List.mem_cons.mp ((h x).mp (List.mem_cons_of_mem _ hx)) with e | hx'
        · subst e; exact absurd (s1.1 x hx) (irr x)
        · exact hx'
      · intro hx
        rcases List.mem_cons.mp ((h x).mpr (List.mem_cons_of_mem _ hx)) with e | hx'
        · subst e; exact absurd (s2.1 x hx) (irr x)
        · exact hx'

end MW.KV
