/-
  C16 helper lemmas, part 3: the txscript predicates as functions of the opcode shape, the class of
  every script, and the readings of the wallet / the library / the API in terms of the byte-level template.
-/
import MW.Lemmas.ScriptTemplate
namespace MW.Lemmas.ScriptClassify
open MW MW.Model.Script MW.Lemmas.ScriptTok MW.Lemmas.ScriptTemplate


@[simp] theorem OP_0_eq : OP_0 = 0 := rfl
@[simp] theorem OP_DATA_8_eq : OP_DATA_8 = 0x08 := rfl
@[simp] theorem OP_DATA_20_eq : OP_DATA_20 = 0x14 := rfl
@[simp] theorem OP_DATA_22_eq : OP_DATA_22 = 0x16 := rfl
@[simp] theorem OP_DATA_32_eq : OP_DATA_32 = 0x20 := rfl

theorem idx_lt {α} (l : List α) (i : Nat) (h : i < l.length) : idx l i = .ok l[i] := by
  unfold idx; rw [List.getElem?_eq_getElem h]

def shapeWsh : List Pop → Bool
  | [p0, p1] => p0.op == 0 && p1.op == 0x20
  | _ => false
def shapeStaking : List Pop → Bool
  | [p0, p1, p2] => p0.op == 0 && p1.op == 0x20 && p2.op == 0x08
  | _ => false
def shapeBinding : List Pop → Bool
  | [p0, p1, p2] => p0.op == 0 && p1.op == 0x20 && (p2.op == 0x14 || p2.op == 0x16)
  | _ => false

theorem templateShape_eq (pops : List Pop) :
    templateShape pops = (shapeWsh pops || shapeStaking pops || shapeBinding pops) := by
  match pops with
  | [] => rfl
  | [_] => rfl
  | [_, _] => simp [templateShape, shapeWsh, shapeStaking, shapeBinding]
  | [p0, p1, p2] =>
    simp only [templateShape, shapeWsh, shapeStaking, shapeBinding]
    cases (p0.op == 0) <;> cases (p1.op == 0x20) <;> cases (p2.op == 0x08) <;> rfl
  | _ :: _ :: _ :: _ :: _ => rfl

theorem isWitnessScriptHash_eq (pops : List Pop) : isWitnessScriptHash pops = .ok (shapeWsh pops) := by
  unfold isWitnessScriptHash shapeWsh
  match pops with
  | [] => rfl
  | [_] => rfl
  | [p0, p1] =>
    simp [idx, bind, Except.bind, pure, Except.pure]
    by_cases h : p0.op = 0 <;> simp [h]
  | _ :: _ :: _ :: _ => simp [pure, Except.pure]

theorem isMultiSig_total (pops : List Pop) : ∃ b, isMultiSig pops = .ok b := by
  unfold isMultiSig
  by_cases h : pops.length < 4
  · simp [h, pure, Except.pure]
  · have h0 := idx_lt pops 0 (by omega)
    have h1 := idx_lt pops (pops.length - 2) (by omega)
    have h2 := idx_lt pops (pops.length - 1) (by omega)
    have h3 : slice pops 1 (pops.length - 2) = .ok ((pops.drop 1).take (pops.length - 2 - 1)) := by
      unfold slice; rw [if_pos (by omega)]
    simp only [h, if_false, h0, h1, h2, h3, bind, Except.bind]
    repeat' split
    all_goals exact ⟨_, rfl⟩

theorem isWitnessStakingScript_eq (pops : List Pop) : isWitnessStakingScript pops = .ok (shapeStaking pops) := by
  unfold isWitnessStakingScript shapeStaking
  match pops with
  | [] => rfl
  | [_] => rfl
  | [_, _] => rfl
  | [p0, p1, p2] =>
    simp [idx, bind, Except.bind, pure, Except.pure]
    by_cases h : p0.op = 0 <;> by_cases h' : p1.op = 0x20 <;> simp [h, h']
  | _ :: _ :: _ :: _ :: _ => simp [pure, Except.pure]

theorem isWitnessBindingScript_eq (pops : List Pop) : isWitnessBindingScript pops = .ok (shapeBinding pops) := by
  unfold isWitnessBindingScript shapeBinding
  match pops with
  | [] => rfl
  | [_] => rfl
  | [_, _] => rfl
  | [p0, p1, p2] =>
    simp [idx, bind, Except.bind, pure, Except.pure]
    by_cases h : p0.op = 0 <;> by_cases h' : p1.op = 0x20 <;> by_cases h'' : p2.op = 0x14 <;> simp [h, h', h'']
  | _ :: _ :: _ :: _ :: _ => simp [pure, Except.pure]

theorem isNullData2_total (pops : List Pop) : ∃ b, isNullData2 pops = .ok b := by
  unfold isNullData2
  match pops with
  | [] => exact ⟨_, rfl⟩
  | [_] => exact ⟨_, rfl⟩
  | [p0, p1] =>
    simp only [idx, bind, Except.bind]
    repeat' split
    all_goals first | exact ⟨_, rfl⟩ | simp_all
  | _ :: _ :: _ :: _ => simp [pure, Except.pure]

theorem isNullData_total (pops : List Pop) : ∃ b, isNullData pops = .ok b := by
  unfold isNullData
  match pops with
  | [] => simpa using isNullData2_total ([] : List Pop)
  | [p0] =>
    simp only [idx, bind, Except.bind]
    repeat' split
    all_goals first | exact ⟨_, rfl⟩ | exact isNullData2_total _ | simp_all
  | _ :: _ :: _ => simpa using isNullData2_total _

def nonTemplate (c : Class) : Prop := c = .multiSig ∨ c = .nullData ∨ c = .nonStandard

theorem typeOfScript_other (pops : List Pop) (h : templateShape pops = false) :
    ∃ c, typeOfScript pops = .ok c ∧ nonTemplate c := by
  unfold typeOfScript
  rw [isWitnessScriptHash_eq, isWitnessStakingScript_eq, isWitnessBindingScript_eq]
  obtain ⟨bm, hm⟩ := isMultiSig_total pops
  obtain ⟨bn, hn⟩ := isNullData_total pops
  rw [hm, hn]
  rw [templateShape_eq] at h
  simp only [Bool.or_eq_false_iff] at h
  rw [h.1.1, h.1.2, h.2]
  simp only [bind, Except.bind, pure, Except.pure]
  cases bm <;> cases bn <;> simp [nonTemplate]

open MW.Spec.Script (template Template legalTarget22 bindingLockedPeriod)

theorem parseScript_of_toks (s : Bytes) (pops : List Pop) (h : Toks s pops) : parseScript s = .ok pops := by
  rw [parseScript_eq]; exact (tokF_ok_iff _ _ _ (Nat.le_refl _)).mpr h

/-- the result of parseScript: an error that is not a panic, or the unique tokenization -/
theorem parseScript_cases (s : Bytes) :
    (∃ e, parseScript s = .error (.err e)) ∨ (∃ pops, parseScript s = .ok pops ∧ Toks s pops) := by
  cases h : parseScript s with
  | error f =>
    cases f with
    | err e => exact Or.inl ⟨e, rfl⟩
    | panic k => exact absurd h (parseScript_not_panic s k)
  | ok pops =>
    refine Or.inr ⟨pops, rfl, ?_⟩
    rw [parseScript_eq] at h
    exact (tokF_ok_iff _ _ _ (Nat.le_refl _)).mp h

theorem typeOfScript_wsh (h : Bytes) : typeOfScript [⟨0, []⟩, ⟨0x20, h⟩] = .ok .witnessV0ScriptHash := by
  unfold typeOfScript
  rw [isWitnessScriptHash_eq]; rfl

theorem typeOfScript_staking (h f : Bytes) : typeOfScript [⟨0, []⟩, ⟨0x20, h⟩, ⟨0x08, f⟩] = .ok .stakingScriptHash := by
  unfold typeOfScript
  rw [isWitnessScriptHash_eq, isWitnessStakingScript_eq]; rfl

theorem typeOfScript_binding (h t : Bytes) (m : UInt8) (hm : m = 0x14 ∨ m = 0x16) :
    typeOfScript [⟨0, []⟩, ⟨0x20, h⟩, ⟨m, t⟩] = .ok .bindingScriptHash := by
  unfold typeOfScript
  rw [isWitnessScriptHash_eq, isWitnessStakingScript_eq, isWitnessBindingScript_eq]
  rcases hm with rfl | rfl <;> rfl

/-- every script, by its byte-level template: what parseScript and typeOfScript return -/
inductive Parsed (s : Bytes) : Prop
  | perr (e : Err) : parseScript s = .error (.err e) → template s = .none → Parsed s
  | other (pops : List Pop) (c : Class) : parseScript s = .ok pops → typeOfScript pops = .ok c → nonTemplate c →
      template s = .none → Parsed s
  | wsh (h : Bytes) : parseScript s = .ok [⟨0, []⟩, ⟨0x20, h⟩] → h.length = 32 → template s = .wsh h → Parsed s
  | staking (h f : Bytes) : parseScript s = .ok [⟨0, []⟩, ⟨0x20, h⟩, ⟨0x08, f⟩] → h.length = 32 → f.length = 8 →
      template s = .staking h f → Parsed s
  | binding20 (h t : Bytes) : parseScript s = .ok [⟨0, []⟩, ⟨0x20, h⟩, ⟨0x14, t⟩] → h.length = 32 → t.length = 20 →
      template s = .binding h t → Parsed s
  | binding22 (h t : Bytes) : parseScript s = .ok [⟨0, []⟩, ⟨0x20, h⟩, ⟨0x16, t⟩] → h.length = 32 → t.length = 22 →
      template s = .binding h t → Parsed s

theorem parsed (s : Bytes) : Parsed s := by
  have hf := toks_of_template s
  generalize hT : template s = T at hf
  cases T with
  | none =>
    rcases parseScript_cases s with ⟨e, he⟩ | ⟨pops, hp, hk⟩
    · exact .perr e he hT
    · have hsh : templateShape pops = false := by
        cases hh : templateShape pops with
        | false => rfl
        | true => exact absurd hT (template_of_toks s pops hk hh)
      obtain ⟨c, hc, hn⟩ := typeOfScript_other pops hsh
      exact .other pops c hp hc hn hT
  | wsh h =>
    obtain ⟨hl, _, hk⟩ := hf
    exact .wsh h (parseScript_of_toks s _ hk) hl hT
  | staking h f =>
    obtain ⟨hl, hfl, _, hk⟩ := hf
    exact .staking h f (parseScript_of_toks s _ hk) hl hfl hT
  | binding h t =>
    obtain ⟨hl, htl, _, hk⟩ := hf
    rcases htl with e | e
    · rw [e] at hk; exact .binding20 h t (parseScript_of_toks s _ hk) hl e hT
    · rw [e] at hk; exact .binding22 h t (parseScript_of_toks s _ hk) hl e hT

theorem typeOfScript_b20 (h t : Bytes) : typeOfScript [⟨0, []⟩, ⟨0x20, h⟩, ⟨0x14, t⟩] = .ok .bindingScriptHash :=
  typeOfScript_binding h t _ (Or.inl rfl)
theorem typeOfScript_b22 (h t : Bytes) : typeOfScript [⟨0, []⟩, ⟨0x20, h⟩, ⟨0x16, t⟩] = .ok .bindingScriptHash :=
  typeOfScript_binding h t _ (Or.inr rfl)

theorem leNat_eq (b : Bytes) : Model.Script.leNat b = Spec.Script.leNat b := by
  induction b with
  | nil => rfl
  | cons a r ih => simp [Model.Script.leNat, Spec.Script.leNat, ih]

theorem copy32_id (h : Bytes) (hl : h.length = 32) : copy32 h = h := by
  unfold copy32; simp [hl, List.take_of_length_le]

theorem leUint64_8 (f : Bytes) (hf : f.length = 8) : leUint64 f = .ok (Spec.Script.leNat f) := by
  unfold leUint64
  rw [idx_lt f 7 (by omega)]
  simp [bind, Except.bind, pure, Except.pure, List.take_of_length_le, hf, leNat_eq]

theorem newTarget_spec (t : Bytes) (ht : t.length = 22) :
    newAddressBindingTarget t = if Spec.Script.legalTarget22 t then .ok (.target t) else fail .addr := by
  have hd : (t.drop 20).length = 2 := by rw [List.length_drop]; omega
  match hdr : t.drop 20, hd with
  | [ty, sz], _ =>
    have i20 : idx t 20 = .ok ty := by
      have := idx_shift t 20 0; rw [hdr] at this; exact this
    have i21 : idx t 21 = .ok sz := by
      have := idx_shift t 20 1; rw [hdr] at this; exact this
    unfold newAddressBindingTarget Spec.Script.legalTarget22
    simp only [ht, hdr, i20, i21, bind, Except.bind]
    have e1 : (sz < 20) ↔ sz.toNat < 20 := by rw [UInt8.lt_iff_toNat_lt]; simp
    have e2 : (sz > 200) ↔ 200 < sz.toNat := by
      show (200 < sz) ↔ _
      rw [UInt8.lt_iff_toNat_lt]; simp
    by_cases h0 : ty = 0 <;> by_cases h1' : ty = 1 <;> by_cases h1 : sz.toNat < 20 <;>
      by_cases h2 : 200 < sz.toNat <;>
      simp [h0, h1', e1, e2, h1, h2, fail, pure, Except.pure] <;> omega

/-- the wallet's reading of every script, by its byte-level template -/
theorem parsePkScript_spec (s : Bytes) :
    parsePkScript s =
      match template s with
      | .none => fail .unsupported
      | .wsh h => .ok ⟨.witnessV0ScriptHash, 0, some (.wsh 0 h), none, 0⟩
      | .staking h f => .ok ⟨.stakingScriptHash, 1, some (.wsh 0 h), some (.wsh 1 h), (Spec.Script.leNat f + 1) % 2 ^ 64⟩
      | .binding h t =>
        if t.length = 20 then .ok ⟨.bindingScriptHash, 0, some (.wsh 0 h), some (.pkh t), 0⟩
        else if legalTarget22 t then .ok ⟨.bindingScriptHash, 0, some (.wsh 0 h), some (.target t), bindingLockedPeriod⟩
        else fail .unsupported := by
  unfold parsePkScript getScriptInfo
  cases parsed s with
  | perr e hp hT => simp [hp, hT, catchErr, bind, Except.bind, pure, Except.pure]
  | other pops c hp hc hn hT =>
    simp only [hp, hc, hT, catchErr, bind, Except.bind, pure, Except.pure]
    rcases hn with rfl | rfl | rfl <;> rfl
  | wsh h hp hl hT =>
    simp only [hp, hT, typeOfScript_wsh, catchErr, bind, Except.bind, pure, Except.pure]
    simp [getParsedOpcode, idx, hl, Gen.Script.witnessV0ScriptHashDataSize, copy32_id, bind, Except.bind, pure,
      Except.pure, leUint64_8, newAddressWitnessScriptHash, ignoreErr, catchErr, Gen.Script.addressClassWitnessV0]
  | staking h f hp hl hfl hT =>
    simp only [hp, hT, typeOfScript_staking, catchErr, bind, Except.bind, pure, Except.pure]
    simp [getParsedOpcode, idx, hl, Gen.Script.witnessV0ScriptHashDataSize, copy32_id, bind, Except.bind, pure,
      Except.pure, leUint64_8, hfl, newAddressWitnessScriptHash, ignoreErr, catchErr,
      Gen.Script.addressClassWitnessStaking]
  | binding20 h t hp hl e hT =>
    simp only [hp, hT, typeOfScript_b20, catchErr, bind, Except.bind, pure, Except.pure]
    have hb20 : isWitnessBindingScript [⟨0, []⟩, ⟨0x20, h⟩, ⟨20, t⟩] = .ok true := by
      rw [isWitnessBindingScript_eq]; rfl
    simp [getParsedOpcode, getParsedBindingOpcode, hb20, idx, hl, e, Gen.Script.witnessV0ScriptHashDataSize,
        Gen.Script.OP_DATA_20, copy32_id, bind, Except.bind, pure, Except.pure, leUint64_8,
        newAddressWitnessScriptHash, newAddressPubKeyHash, mapErr, Gen.Script.addressClassWitnessV0]
  | binding22 h t hp hl e hT =>
    simp only [hp, hT, typeOfScript_b22, catchErr, bind, Except.bind, pure, Except.pure]
    have hb22 : isWitnessBindingScript [⟨0, []⟩, ⟨0x20, h⟩, ⟨22, t⟩] = .ok true := by
      rw [isWitnessBindingScript_eq]; rfl
    simp [getParsedOpcode, getParsedBindingOpcode, hb22, idx, hl, e, Gen.Script.witnessV0ScriptHashDataSize,
        Gen.Script.OP_DATA_20, Gen.Script.OP_DATA_22, copy32_id, bind, Except.bind, pure, Except.pure, leUint64_8,
        newAddressWitnessScriptHash, newTarget_spec t e, mapErr, Gen.Script.addressClassWitnessV0]
    by_cases hlt : legalTarget22 t = true
    · simp [hlt, Gen.Script.bindingLockedPeriod, bindingLockedPeriod]
    · simp [hlt, fail]

/-- the addresses the library extracts for a binding target -/
def targetAddrs (t : Bytes) : List Addr :=
  if t.length = 20 then [.pkh t] else if legalTarget22 t then [.target t] else []

/-- txscript.GetScriptClass of every script, by its byte-level template -/
theorem getScriptClass_spec (s : Bytes) :
    match template s with
    | .none => ∃ c, getScriptClass s = .ok c ∧ nonTemplate c
    | .wsh _ => getScriptClass s = .ok .witnessV0ScriptHash
    | .staking _ _ => getScriptClass s = .ok .stakingScriptHash
    | .binding _ _ => getScriptClass s = .ok .bindingScriptHash := by
  unfold getScriptClass
  cases parsed s with
  | perr e hp hT => simp [hp, hT, catchErr, bind, Except.bind, pure, Except.pure, nonTemplate]
  | other pops c hp hc hn hT =>
    simp only [hp, hc, hT, catchErr, bind, Except.bind, pure, Except.pure]
    exact ⟨c, rfl, hn⟩
  | wsh h hp hl hT => simp [hp, hT, typeOfScript_wsh, catchErr, bind, Except.bind]
  | staking h f hp hl hfl hT => simp [hp, hT, typeOfScript_staking, catchErr, bind, Except.bind]
  | binding20 h t hp hl e hT => simp [hp, hT, typeOfScript_b20, catchErr, bind, Except.bind]
  | binding22 h t hp hl e hT => simp [hp, hT, typeOfScript_b22, catchErr, bind, Except.bind]

/-- txscript.ExtractPkScriptAddrs on the three templates (any `pkValid`) -/
theorem extractPkScriptAddrs_spec (pkValid : Bytes → Bool) (s : Bytes) :
    match template s with
    | .none => True
    | .wsh h => extractPkScriptAddrs pkValid s = .ok ⟨.witnessV0ScriptHash, [.wsh 0 h], 1⟩
    | .staking h _ => extractPkScriptAddrs pkValid s = .ok ⟨.stakingScriptHash, [.wsh 1 h], 1⟩
    | .binding h t => extractPkScriptAddrs pkValid s = .ok ⟨.bindingScriptHash, .wsh 0 h :: targetAddrs t, 1⟩ := by
  unfold extractPkScriptAddrs
  cases parsed s with
  | perr e hp hT => simp [hT]
  | other pops c hp hc hn hT => simp [hT]
  | wsh h hp hl hT =>
    simp [hp, hT, typeOfScript_wsh, bind, Except.bind, idx, okAddr, catchErr, newAddressWitnessScriptHash, hl,
      pure, Except.pure]
  | staking h f hp hl hfl hT =>
    simp [hp, hT, typeOfScript_staking, bind, Except.bind, idx, okAddr, catchErr, newAddressWitnessScriptHash, hl,
      pure, Except.pure]
  | binding20 h t hp hl e hT =>
    simp [hp, hT, typeOfScript_b20, bind, Except.bind, idx, okAddr, catchErr, newAddressWitnessScriptHash, hl,
      pure, Except.pure, e, Gen.Script.OP_DATA_20, newAddressPubKeyHash, targetAddrs]
  | binding22 h t hp hl e hT =>
    simp [hp, hT, typeOfScript_b22, bind, Except.bind, idx, okAddr, catchErr, newAddressWitnessScriptHash, hl,
      pure, Except.pure, e, Gen.Script.OP_DATA_20, newTarget_spec t e, targetAddrs]
    by_cases hlt : legalTarget22 t = true <;> simp [hlt, fail]

/-- type / size fields the API shows for a 22-byte target -/
def targetView (t : Bytes) : BindingView :=
  ⟨.target t, (t.drop 20).head? == some 1, match (t.drop 21).head? with | some b => b.toNat | none => 0⟩

theorem calcMultiSigStats_total (s : Bytes) (pops : List Pop) (hp : parseScript s = .ok pops) :
    (∃ e, calcMultiSigStats s = .error (.err e)) ∨ (∃ r, calcMultiSigStats s = .ok r) := by
  unfold calcMultiSigStats
  simp only [hp, bind, Except.bind]
  by_cases h : pops.length < 4
  · exact Or.inl ⟨.stackUnderflow, by simp [h, fail]⟩
  · refine Or.inr ?_
    rw [if_neg h, idx_lt pops 0 (by omega), idx_lt pops (pops.length - 2) (by omega)]
    exact ⟨_, rfl⟩

/-- api.extractAddressInfos of every script, by its byte-level template (any `pkValid`) -/
theorem extractAddressInfos_spec (pkValid : Bytes → Bool) (s : Bytes) :
    match template s with
    | .none => (∃ e, extractAddressInfos pkValid s = .error (.err e)) ∨
        (∃ c n, extractAddressInfos pkValid s = .ok ⟨c, none, none, none, n⟩ ∧ nonTemplate c)
    | .wsh h => extractAddressInfos pkValid s = .ok ⟨.witnessV0ScriptHash, some (.wsh 0 h), none, none, 1⟩
    | .staking h _ =>
        extractAddressInfos pkValid s = .ok ⟨.stakingScriptHash, some (.wsh 0 h), some (.wsh 1 h), none, 1⟩
    | .binding h t => extractAddressInfos pkValid s =
        if t.length = 20 then .ok ⟨.bindingScriptHash, some (.wsh 0 h), none, some ⟨.pkh t, false, 0⟩, 1⟩
        else if legalTarget22 t then .ok ⟨.bindingScriptHash, some (.wsh 0 h), none, some (targetView t), 1⟩
        else fail .noAddr := by
  have hc := getScriptClass_spec s
  have hx := extractPkScriptAddrs_spec pkValid s
  unfold extractAddressInfos
  cases parsed s with
  | perr e hp hT =>
    simp only [hT] at hc ⊢
    obtain ⟨c, hc, hn⟩ := hc
    refine Or.inl ?_
    have : getScriptClass s = .ok .nonStandard := by
      unfold getScriptClass; simp [hp, catchErr, bind, Except.bind, pure, Except.pure]
    simp only [this, bind, Except.bind]
    unfold extractPkScriptAddrs
    simp [hp, bind, Except.bind]
  | other pops c hp hct hn hT =>
    simp only [hT]
    have : getScriptClass s = .ok c := by
      unfold getScriptClass; simp [hp, hct, catchErr, bind, Except.bind]
    simp only [this, bind, Except.bind]
    rcases hn with rfl | rfl | rfl
    · rcases calcMultiSigStats_total s pops hp with ⟨e, he⟩ | ⟨r, hr⟩
      · exact Or.inl ⟨e, by simp [he]⟩
      · exact Or.inr ⟨.multiSig, r.2, by simp [hr, pure, Except.pure], Or.inl rfl⟩
    · refine Or.inl ⟨.noAddr, ?_⟩
      unfold extractPkScriptAddrs
      simp [hp, hct, bind, Except.bind, pure, Except.pure, fail]
    · refine Or.inl ⟨.noAddr, ?_⟩
      unfold extractPkScriptAddrs
      simp [hp, hct, bind, Except.bind, pure, Except.pure, fail]
  | wsh h hp hl hT =>
    simp only [hT] at hc hx ⊢
    simp [hc, hx, bind, Except.bind, idx, pure, Except.pure]
  | staking h f hp hl hfl hT =>
    simp only [hT] at hc hx ⊢
    simp [hc, hx, bind, Except.bind, idx, pure, Except.pure, newAddressWitnessScriptHash, Addr.scriptAddress, hl]
  | binding20 h t hp hl e hT =>
    simp only [hT] at hc hx ⊢
    simp [hc, hx, bind, Except.bind, idx, pure, Except.pure, targetAddrs, e, Addr.scriptAddress]
  | binding22 h t hp hl e hT =>
    simp only [hT] at hc hx ⊢
    by_cases hlt : legalTarget22 t = true
    · simp [hc, hx, bind, Except.bind, idx, pure, Except.pure, targetAddrs, e, hlt, Addr.scriptAddress, targetView]
    · simp [hc, hx, bind, Except.bind, idx, pure, Except.pure, targetAddrs, e, hlt, fail]

end MW.Lemmas.ScriptClassify
