/-
  C07 stage 3 — a rescan batch reads the node's chain only up to the top `stop` of its range: two nodes whose chains
  agree up to `stop` give the same batch (`importStep_node_congr`), and a batch with an empty range does not read the
  node at all (`importStep_node_empty`).  With the followed-chain check of `batchHead` (fix D27) and hash-linked chains
  this makes a batch run against a node that has moved on equal to the batch run against the follower's own chain.
-/
import MW.Lemmas.ImportPlan
namespace MW.Lemmas.ImportNode
open MW MW.Model.Ledger MW.Model.Import MW.Lemmas.ImportPlan

/-- the two chains agree up to height `m` -/
def AgreeUpTo (n n' : Node) (m : Nat) : Prop := n.chain.take (m + 1) = n'.chain.take (m + 1)

theorem AgreeUpTo.mono {n n' : Node} {m k : Nat} (h : AgreeUpTo n n' m) (hk : k ≤ m) : AgreeUpTo n n' k := by
  unfold AgreeUpTo at *
  have e1 : n.chain.take (k + 1) = (n.chain.take (m + 1)).take (k + 1) := by
    rw [List.take_take]; congr 1; omega
  have e2 : n'.chain.take (k + 1) = (n'.chain.take (m + 1)).take (k + 1) := by
    rw [List.take_take]; congr 1; omega
  rw [e1, e2, h]

theorem blockAt_congr {n n' : Node} {m h : Nat} (ha : AgreeUpTo n n' m) (hh : h ≤ m) : n.blockAt h = n'.blockAt h := by
  unfold Node.blockAt
  have e1 : n.chain[h]? = (n.chain.take (m + 1))[h]? := by
    rw [List.getElem?_take]; simp [Nat.lt_succ_of_le hh]
  have e2 : n'.chain[h]? = (n'.chain.take (m + 1))[h]? := by
    rw [List.getElem?_take]; simp [Nat.lt_succ_of_le hh]
  rw [e1, e2, ha]

theorem fetchTxUntil_congr {n n' : Node} {m h : Nat} (ha : AgreeUpTo n n' m) (hh : h ≤ m) (id : TxId) :
    fetchTxUntil n id h = fetchTxUntil n' id h := by
  unfold fetchTxUntil
  rw [ha.mono hh]

theorem any_congr_mem {α : Type} (l : List α) (f g : α → Bool) (h : ∀ a ∈ l, f a = g a) : l.any f = l.any g := by
  induction l with
  | nil => rfl
  | cons a l ih =>
    rw [List.any_cons, List.any_cons, h a (List.mem_cons_self ..), ih (fun a' ha' => h a' (List.mem_cons_of_mem _ ha'))]

theorem touches_congr {n n' : Node} {m h : Nat} (ha : AgreeUpTo n n' m) (hh : h ≤ m) (addrs : List Addr) (tx : Tx) :
    touches n addrs h tx = touches n' addrs h tx := by
  unfold touches
  congr 2
  apply any_congr_mem
  intro i _
  rw [fetchTxUntil_congr ha hh]

theorem relatedAt_congr {n n' : Node} {m h : Nat} (ha : AgreeUpTo n n' m) (hh : h ≤ m) (addrs : List Addr) :
    relatedAt n addrs h = relatedAt n' addrs h := by
  unfold relatedAt
  rw [blockAt_congr ha hh]
  cases n'.blockAt h with
  | none => rfl
  | some b =>
    simp only
    congr 1
    apply List.filter_congr
    intro p _
    exact touches_congr ha hh addrs p.1

theorem mem_batchHeights {start stop h : Nat} (hm : h ∈ batchHeights start stop) : start ≤ h ∧ h ≤ stop := by
  unfold batchHeights at hm
  obtain ⟨i, hi, rfl⟩ := List.mem_map.1 hm
  rw [List.mem_range] at hi
  omega

theorem flatMap_congr_mem {α β : Type} (l : List α) (f g : α → List β) (h : ∀ a ∈ l, f a = g a) :
    l.flatMap f = l.flatMap g := by
  induction l with
  | nil => rfl
  | cons a l ih =>
    rw [List.flatMap_cons, List.flatMap_cons, h a (List.mem_cons_self ..),
      ih (fun a' ha' => h a' (List.mem_cons_of_mem _ ha'))]

theorem plan_congr {n n' : Node} {m : Nat} (ha : AgreeUpTo n n' m) (addrs : List Addr) (start stop : Nat)
    (hs : stop ≤ m) : plan n addrs start stop = plan n' addrs start stop := by
  unfold plan
  apply flatMap_congr_mem
  intro h hm
  have hh : h ≤ m := Nat.le_trans (mem_batchHeights hm).2 hs
  rw [blockAt_congr ha hh, relatedAt_congr ha hh]

theorem plan_height {n : Node} {addrs : List Addr} {start stop : Nat} {it : Item}
    (hm : it ∈ plan n addrs start stop) : it.blk.height ≤ stop := by
  unfold plan at hm
  obtain ⟨h, hh, hit⟩ := List.mem_flatMap.1 hm
  cases hb : n.blockAt h with
  | none => rw [hb] at hit; cases hit
  | some b =>
    rw [hb] at hit
    obtain ⟨q, _, rfl⟩ := List.mem_map.1 hit
    exact (mem_batchHeights hh).2

theorem relIn1_congr {n n' : Node} {m h : Nat} (ha : AgreeUpTo n n' m) (hh : h ≤ m) (own : Own) (w : Wid) :
    relIn1 n own w h = relIn1 n' own w h := by
  funext q
  unfold relIn1
  rw [fetchTxUntil_congr ha hh]

theorem filterImp_congr {n n' : Node} {m h : Nat} (ha : AgreeUpTo n n' m) (hh : h ≤ m) (w : Wid) (own : Own) (tx : Tx) :
    filterTxForImporting n w own tx h = filterTxForImporting n' w own tx h := by
  unfold filterTxForImporting
  rw [relIn1_congr ha hh]

theorem applyItem_congr {c : Ctx} {n' : Node} {m : Nat} (ha : AgreeUpTo c.node n' m) (w : Wid)
    (acc : Store × AMap.T Wid Nat) {it : Item} (hh : it.blk.height ≤ m) :
    applyItem c w acc it = applyItem { c with node := n' } w acc it := by
  unfold applyItem
  rw [filterImp_congr ha hh]

theorem itemRelevant_congr {c : Ctx} {n' : Node} {m : Nat} (ha : AgreeUpTo c.node n' m) (w : Wid) {it : Item}
    (hh : it.blk.height ≤ m) : itemRelevant c w it = itemRelevant { c with node := n' } w it := by
  unfold itemRelevant
  rw [filterImp_congr ha hh]

theorem foldlM_congr_mem {ε α β : Type} (f g : β → α → Except ε β) (l : List α) (h : ∀ b, ∀ a ∈ l, f b a = g b a) :
    ∀ b, l.foldlM f b = l.foldlM g b := by
  induction l with
  | nil => intro b; rfl
  | cons a l ih =>
    intro b
    rw [List.foldlM_cons, List.foldlM_cons, h b a (List.mem_cons_self ..)]
    cases g b a with
    | error e => rfl
    | ok b' => exact ih (fun b a' ha' => h b a' (List.mem_cons_of_mem _ ha')) b'

theorem expiredUpdate_congr (rel rel' : Item → Bool) (best : Nat) (items : List Item)
    (h : ∀ it ∈ items, rel it = rel' it) : ∀ exp, expiredUpdate rel best items exp = expiredUpdate rel' best items exp := by
  unfold expiredUpdate
  induction items with
  | nil => intro exp; rfl
  | cons it items ih =>
    intro exp
    rw [List.foldl_cons, List.foldl_cons, h it (List.mem_cons_self ..)]
    exact ih (fun it' h' => h it' (List.mem_cons_of_mem _ h')) _

theorem agrees_congr {c : Ctx} {n' : Node} {m h : Nat} (ha : AgreeUpTo c.node n' m) (hh : h ≤ m) (s : Store) :
    agrees c s h = agrees { c with node := n' } s h := by
  unfold agrees
  rw [blockAt_congr ha hh]

/-- **a batch reads the node's chain only up to the top of its range** -/
theorem importStep_node_congr (batch : Nat) (c : Ctx) (n' : Node) (w : Wid) (s : Store) (v : Vol) (ws : WStatus)
    (hst : AMap.get s.status w = some ws)
    (ha : AgreeUpTo c.node n' (batchStop batch (cursorU64 ws) v.best.height)) :
    importStep batch c w s v = importStep batch { c with node := n' } w s v := by
  have hhead : batchHead batch c w s v = batchHead batch { c with node := n' } w s v := by
    unfold batchHead
    simp only [hst]
    cases AMap.get s.balance w with
    | none => rfl
    | some bal =>
      simp only
      rw [agrees_congr ha (Nat.le_refl _)]
  unfold importStep
  rw [← hhead]
  cases hh : batchHead batch c w s v with
  | error e => rfl
  | ok hd =>
    simp only
    have hstop : hd.stop = batchStop batch (cursorU64 ws) v.best.height := by
      unfold batchHead at hh
      simp only [hst] at hh
      split at hh
      · cases hh
      · split at hh
        · cases hh
        · split at hh
          · cases hh
          · injection hh with hh; rw [← hh]
    rw [← hstop] at ha
    have hplan := plan_congr ha (managed c.own w) hd.start hd.stop (Nat.le_refl _)
    have hplan' : plan ({ c with node := n' } : Ctx).node (managed ({ c with node := n' } : Ctx).own w) hd.start hd.stop =
        plan c.node (managed c.own w) hd.start hd.stop := hplan.symm
    rw [hplan']
    have hfold := foldlM_congr_mem (applyItem c w) (applyItem { c with node := n' } w)
      (plan c.node (managed c.own w) hd.start hd.stop)
      (fun b it hit => applyItem_congr ha w b (plan_height hit)) (s, [(w, hd.bal)])
    rw [← hfold]
    cases List.foldlM (applyItem c w) (s, [(w, hd.bal)]) (plan c.node (managed c.own w) hd.start hd.stop) with
    | error e => rfl
    | ok r =>
      simp only
      rw [expiredUpdate_congr (itemRelevant c w) (itemRelevant { c with node := n' } w) hd.best _
        (fun it hit => itemRelevant_congr ha w (plan_height hit))]

/-- a batch whose range is empty (the cursor is at the follower's tip) does not read the node -/
theorem importStep_node_empty (batch : Nat) (c : Ctx) (n' : Node) (w : Wid) (s : Store) (v : Vol) (ws : WStatus) (k : Nat)
    (hst : AMap.get s.status w = some ws) (hk : ws.synced = some k) (hkb : v.best.height ≤ k) (hnw : k + 1 < 2 ^ 64) :
    importStep batch c w s v = importStep batch { c with node := n' } w s v := by
  have hcur : cursorU64 ws = k := by simp [cursorU64, hk]
  have hstop : batchStop batch (cursorU64 ws) v.best.height ≤ k := by
    rw [hcur]
    show (if addU64 k batch > v.best.height then v.best.height else addU64 k batch) ≤ k
    split <;> omega
  have hhead : batchHead batch c w s v = batchHead batch { c with node := n' } w s v := by
    unfold batchHead
    simp only [hst]
    cases AMap.get s.balance w with
    | none => rfl
    | some bal =>
      simp only
      have : ¬ batchStop batch (cursorU64 ws) v.best.height > cursorU64 ws := by rw [hcur] at hstop ⊢; omega
      simp [this]
  unfold importStep
  rw [← hhead]
  cases hh : batchHead batch c w s v with
  | error e => rfl
  | ok hd =>
    simp only
    have hd' : hd.stop = batchStop batch (cursorU64 ws) v.best.height ∧ hd.start = addU64 (cursorU64 ws) 1 := by
      unfold batchHead at hh
      simp only [hst] at hh
      split at hh
      · cases hh
      · split at hh
        · cases hh
        · split at hh
          · cases hh
          · injection hh with hh; rw [← hh]; exact ⟨rfl, rfl⟩
    have hstart : hd.start = k + 1 := by
      rw [hd'.2, hcur]; unfold addU64; exact Nat.mod_eq_of_lt hnw
    have hempty : ∀ n : Node, plan n (managed c.own w) hd.start hd.stop = [] := by
      intro n
      apply plan_empty
      rw [hstart, hd'.1]; omega
    rw [hempty c.node]
    have : plan ({ c with node := n' } : Ctx).node (managed ({ c with node := n' } : Ctx).own w) hd.start hd.stop = [] :=
      hempty n'
    rw [this]
    rfl

end MW.Lemmas.ImportNode
