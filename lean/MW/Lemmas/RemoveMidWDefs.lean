/-
  C08, reorganisations below the floor — the in-progress invariant of the real store with the id-keyed buckets
  characterised off `w` only, pending-credit bucket masked (as `MW.Lemmas.RemoveGlue.MidC` is for `MidU`).
-/
import MW.Lemmas.RemoveUpperW
import MW.Lemmas.RemoveGlue
namespace MW.Lemmas.RemoveUpper
open MW MW.Model.Ledger MW.Model.Remove MW.Spec.Chain MW.Spec.Books MW.Lemmas.Ledger MW.Lemmas.RemoveGlue

def MidCW (c : Ctx) (w : Wid) (addrs : List Addr) (own' : Own) (s : Store) (chain : List Block) (U : Book) : Prop :=
  MidUW c w addrs own' { s with pendCred := [] } chain U

theorem midCW_of_midC {c : Ctx} {w : Wid} {addrs : List Addr} {own' : Own} {s : Store} {chain : List Block} {U : Book}
    (h : MidC c w addrs own' s chain U) : MidCW c w addrs own' s chain U := midUW_of_midU h

theorem midUW_of_midCW {c : Ctx} {w : Wid} {addrs : List Addr} {own' : Own} {s : Store} {chain : List Block} {U : Book}
    (h : MidCW c w addrs own' s chain U) (hp : PendOK addrs s chain) :
    MidUW c w addrs own' s chain U :=
  ⟨h.nodup, h.credits, h.debits, h.debitsW, h.unspent, h.game, h.txrecs, h.txrecsW, h.blocks, h.bal, h.sync, h.syncedTo, hp⟩

theorem midCW_of_midUW {c : Ctx} {w : Wid} {addrs : List Addr} {own' : Own} {s : Store} {chain : List Block} {U : Book}
    (h : MidUW c w addrs own' s chain U) : MidCW c w addrs own' s chain U :=
  ⟨h.nodup, h.credits, h.debits, h.debitsW, h.unspent, h.game, h.txrecs, h.txrecsW, h.blocks, h.bal, h.sync, h.syncedTo,
    fun _ he => by cases he⟩

end MW.Lemmas.RemoveUpper
