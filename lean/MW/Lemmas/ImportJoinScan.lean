/-
  C07 stage 1 with other wallets in the instance, part 5 — block, height, range, batch, run.
  The scan invariant `ScanJ c w s k`: the store holds the JOIN of the books of the other wallets for the whole
  node chain and the books of the restored wallet `w` for the chain up to its cursor `k`; block records follow the
  tx records; `w`'s balance is the total of its ledger entries.  A batch of any positive size succeeds and moves
  the invariant to `nextStop`; the balances of the other wallets are not touched.
-/
import MW.Lemmas.ImportJoinRec
import MW.Lemmas.ImportExact
namespace MW.Lemmas.ImportJoin
open MW MW.Model.Ledger MW.Model.Import MW.Spec.Chain MW.Spec.Books MW.Lemmas.Ledger MW.Lemmas.RemoveBooks
open MW.Lemmas.ImportExact MW.Lemmas.ImportPlan

-- ------------------------------------------------------------------ the working balances: one entry, `w`'s

/-- the working balances of a batch hold exactly one entry, the restored wallet's -/
def BalsW (w : Wid) (bals : Bals) : Prop := ∃ v, bals = [(w, v)]

theorem balsW_put {w : Wid} {bals : Bals} (h : BalsW w bals) (v : Nat) : BalsW w (AMap.put bals w v) := by
  obtain ⟨v0, rfl⟩ := h
  exact ⟨v, by simp [AMap.put, AMap.erase]⟩

theorem balsW_spendOne {w : Wid} {tr : TxRec} {blk : BlockMeta} {sb sb' : Store × Bals} {rel : Rel}
    (hq : BalsW w sb.2) (hr : rel.wallet = w) (h : spendOne tr blk sb rel = .ok sb') : BalsW w sb'.2 := by
  unfold spendOne at h
  repeat' split at h
  all_goals cases h
  show BalsW w (AMap.put sb.2 rel.wallet _)
  rw [hr]; exact balsW_put hq _

theorem balsW_creditOne {w : Wid} {p : Params} {tr : TxRec} {blk : BlockMeta} {sb sb' : Store × Bals} {rel : Rel}
    (hq : BalsW w sb.2) (hr : rel.wallet = w) (h : creditOne p tr blk sb rel = .ok sb') : BalsW w sb'.2 := by
  unfold creditOne at h
  split at h
  · cases h
  · have := Except.ok.inj h; subst this
    show BalsW w (AMap.put sb.2 rel.wallet _)
    rw [hr]; exact balsW_put hq _

theorem hits_wallet {L : List UCoin} {is : List Inp} {k : Nat} {r : Model.Ledger.Rel} (h : r ∈ hitsFrom L is k) :
    ∃ u ∈ L, r.wallet = u.wallet := by
  induction is generalizing k with
  | nil => simp [hitsFrom] at h
  | cons i is ih =>
    unfold hitsFrom at h
    rcases List.mem_append.1 h with h1 | h1
    · cases hu : lookupU L i.tx i.idx with
      | none => rw [hu] at h1; simp at h1
      | some u =>
        rw [hu] at h1
        simp only [List.mem_singleton] at h1
        exact ⟨u, (lookupU_some hu).1, by rw [h1]⟩
    · exact ih h1

theorem owned_wallet {own : Own} {os : List Out} {j : Nat} {r : Model.Ledger.Rel} (h : r ∈ ownedFrom own os j) :
    ∃ o ch, ownerOf own o = some (r.wallet, ch) := by
  induction os generalizing j with
  | nil => simp [ownedFrom] at h
  | cons o os ih =>
    unfold ownedFrom at h
    rcases List.mem_append.1 h with h1 | h1
    · cases ho : ownerOf own o with
      | none => rw [ho] at h1; simp at h1
      | some x =>
        obtain ⟨w', ch⟩ := x
        rw [ho] at h1
        simp only [List.mem_singleton] at h1
        exact ⟨o, ch, by rw [h1]; exact ho⟩
    · exact ih h1

/-- well-formedness carried through one transaction of the rescan -/
theorem wf_addImp {w : Wid} {p : Params} {own : Own} {s s1 : Store} {bals : Bals} {tr : TxRec} {blk : BlockMeta}
    {sb' : Store × Bals} (hrec : recordForImporting s tr blk = .ok s1) (hun : s1.unspent = s.unspent)
    (h : addRelevantTxForImporting p own s bals tr blk = .ok sb')
    (hq : BalsW w bals)
    (hin : ∀ r ∈ tr.relIn, r.wallet = w) (hout : ∀ r ∈ tr.relOut, r.wallet = w) :
    BalsW w sb'.2 ∧ (KeysNodup s.unspent → KeysNodup sb'.1.unspent) := by
  unfold addRelevantTxForImporting insertMinedTxForImporting at h
  rw [hrec] at h
  simp only [bind, Except.bind] at h
  cases hum : updateMinedBalance s1 bals tr blk with
  | error e => rw [hum] at h; cases h
  | ok sb1 =>
    rw [hum] at h
    simp only at h
    have hq1 : BalsW w sb1.2 := by
      unfold updateMinedBalance at hum
      exact foldlM_preserves (fun (x : Store × Bals) => BalsW w x.2) (spendOne tr blk) tr.relIn
        (fun _ a _ ha hb hf => balsW_spendOne hb (hin a ha) hf) (b := (s1, bals)) hq hum
    have hu2 : KeysNodup s.unspent → KeysNodup (removeDoubleSpends own (unpendMined sb1.1 tr.tx) tr).unspent := by
      intro hu
      rw [(minedEq_removeDoubleSpends own _ tr).unspent, (minedEq_unpendMined _ tr.tx).unspent]
      exact wf_updateMinedBalance (s := s1) (by rw [hun]; exact hu) hum
    cases hac : addCredits p (removeDoubleSpends own (unpendMined sb1.1 tr.tx) tr) sb1.2 tr blk with
    | error e => rw [hac] at h; cases h
    | ok r =>
      rw [hac] at h
      have : r = sb' := by
        simp only [pure, Except.pure] at h
        exact Except.ok.inj h
      subst this
      refine ⟨?_, fun hu => wf_addCredits (hu2 hu) hac⟩
      unfold addCredits at hac
      split at hac
      · have := Except.ok.inj hac; subst this; exact hq1
      · obtain ⟨sb2, h3, h4⟩ := M_bind_ok hac
        have := Except.ok.inj h4; subst this
        show BalsW w sb2.2
        exact foldlM_preserves (fun (x : Store × Bals) => BalsW w x.2) (creditOne p tr blk) tr.relOut
          (fun _ a _ ha hb hf => balsW_creditOne hb (hout a ha) hf)
          (b := (removeDoubleSpends own (unpendMined sb1.1 tr.tx) tr, sb1.2)) hq1 h3

theorem blocksOK_congr {chain : List Block} {s s' : Store} (h : BlocksOK chain s)
    (ht : ∀ k, AMap.get s'.txrecs k = AMap.get s.txrecs k) (hb : ∀ k, AMap.get s'.blocks k = AMap.get s.blocks k) :
    BlocksOK chain s' := by
  intro k
  rw [hb k, h k]
  apply blockRecOf_congr
  intro key
  unfold hasRec
  rw [ht key]

theorem txPos_congr {C : List Occ} {s s' : Store} (h : TxPos C s)
    (ht : ∀ k, AMap.get s'.txrecs k = AMap.get s.txrecs k) : TxPos C s' := by
  intro k loc hl
  rw [ht k] at hl
  exact h k loc hl

-- ------------------------------------------------------------------ one block

/-- **scan of one block, other wallets present.**  Folding `applyItem` over the planned items of a block (from
    position `k` on) moves the `w`-half of the join along the fold of `applyOcc` (view restricted to `w`) over ALL
    its transactions from position `k` on; the other half stays. -/
theorem scan_txsJ {c : Ctx} {w : Wid} (hKN : KeysNodup c.own) (hC : ChainOK c) {h : Nat} {b : Block}
    (hb : c.node.chain[h]? = some b) :
    ∀ (post : List Tx) (k : Nat) (P rest : List Occ) (Bw : Book) (s : Store) (bals : Bals),
      occs c.node.chain = P ++ (occsFrom ⟨h, b.id⟩ post k ++ rest) →
      (∀ m t, post[m]? = some t → b.txs[k + m]? = some t) →
      Glob (ownW c.own w) P Bw → ValidFrom (ownW c.own w) P (occsFrom ⟨h, b.id⟩ post k) →
      (∀ oc' ∈ P ++ occsFrom ⟨h, b.id⟩ post k, fetchTxUntil c.node oc'.t.id h = some oc'.t) →
      AgreeJ s (bookOf c.p (ownR c.own w) c.node.chain) Bw → AgreeBal [w] bals Bw →
      Loc c.p (ownW c.own w) Bw → LocG Bw →
      BlocksOK c.node.chain s → TxPos (occs c.node.chain) s → BalsW w bals →
      ∃ sb', (itemsOf c w ⟨h, b.id⟩ post k).foldlM (applyItem c w) (s, bals) = .ok sb' ∧
        AgreeJ sb'.1 (bookOf c.p (ownR c.own w) c.node.chain)
          ((occsFrom ⟨h, b.id⟩ post k).foldl (applyOcc c.p (ownW c.own w)) Bw) ∧
        AgreeBal [w] sb'.2 ((occsFrom ⟨h, b.id⟩ post k).foldl (applyOcc c.p (ownW c.own w)) Bw) ∧
        SameSync s sb'.1 ∧ BlocksOK c.node.chain sb'.1 ∧ TxPos (occs c.node.chain) sb'.1 ∧
        BalsW w sb'.2 ∧ (KeysNodup s.unspent → KeysNodup sb'.1.unspent) := by
  have hOw := ownW_sub hKN w
  have hOr := ownR_sub hKN w
  have hAR := allReady_ownW hOw
  have hn : (idsOf (occs c.node.chain)).Nodup := (glob_bookOf (p := c.p) hC.valid).idsNodup
  have hSep := sepR_bookOf (p := c.p) hOr hC.valid
  obtain ⟨hLr, hGr⟩ := loc_bookOf (p := c.p) (chainValid_sub hOr hC.valid)
  intro post
  induction post with
  | nil =>
    intro k P rest Bw s bals _ _ _ _ _ hA hB _ _ hBO hTP hQ
    exact ⟨(s, bals), rfl, hA, hB, SameSync.refl s, hBO, hTP, hQ, fun hU => hU⟩
  | cons tx post ih =>
    intro k P rest Bw s bals hsplit hpos hGl hV hNode hA hB hL hG hBO hTP hQ
    have hocc : occsFrom ⟨h, b.id⟩ (tx :: post) k = ⟨⟨h, b.id⟩, k, tx⟩ :: occsFrom ⟨h, b.id⟩ post (k + 1) := rfl
    rw [hocc] at hV hNode hsplit ⊢
    obtain ⟨hV1, hV2⟩ := hV
    have hNodeP : ∀ oc' ∈ P, fetchTxUntil c.node oc'.t.id h = some oc'.t :=
      fun oc' hm => hNode oc' (List.mem_append_left _ hm)
    have hNode' : ∀ oc' ∈ (P ++ [⟨⟨h, b.id⟩, k, tx⟩]) ++ occsFrom ⟨h, b.id⟩ post (k + 1),
        fetchTxUntil c.node oc'.t.id h = some oc'.t := by
      intro oc' hm; apply hNode oc'; simpa using hm
    have hsplit' : occs c.node.chain = (P ++ [⟨⟨h, b.id⟩, k, tx⟩]) ++ (occsFrom ⟨h, b.id⟩ post (k + 1) ++ rest) := by
      rw [hsplit]; simp
    have hpos' : ∀ m t, post[m]? = some t → b.txs[k + 1 + m]? = some t := by
      intro m t hm
      have := hpos (m + 1) t (by simpa using hm)
      rw [show k + 1 + m = k + (m + 1) by omega]; exact this
    obtain ⟨r, hr, hyes, hno⟩ := filterImp_spec (n := c.node) (w := w) (height := h) hAR hGl hV1 hNodeP
    have hr' : filterTxForImporting c.node w c.own tx h = .ok r := by rw [filterImp_sub hOw]; exact hr
    have hGl' := glob_step (p := c.p) hGl hV1
    obtain ⟨hL', hG'⟩ := loc_step hL hG hGl hV1
    rw [List.foldl_cons, itemsOf_cons]
    by_cases ht : Spec.Books.touches (ownW c.own w) Bw tx = true
    · obtain ⟨tr, hrs, htx, hin, hout⟩ := hyes ht
      have hidx : Model.Import.touches c.node (managed c.own w) h tx = true := by
        have := index_complete (oc := ⟨⟨h, b.id⟩, k, tx⟩) hAR hGl hNodeP ht
        rwa [managed_ownW] at this
      have hidx' : Model.Import.touches c.node (managed c.own w) (BlockMeta.mk h b.id).height tx = true := hidx
      rw [hidx']
      simp only [if_true, List.singleton_append, List.foldlM_cons]
      have hk : b.txs[k]? = some tx := by simpa using hpos 0 tx rfl
      obtain ⟨s1, hrec, hRO, hBO1, hTP1, hrtx⟩ :=
        record_join hC.heights hn hb hk (s := s) (tr := { tr with loc := (b.id, k) }) htx rfl hBO hTP
      obtain ⟨sb1, himp, hA1, hB1, hS1, hT1, hK1⟩ :=
        addImp_join (p := c.p) hOr hOw (C := occs c.node.chain) (P := P)
          (rest := occsFrom ⟨h, b.id⟩ post (k + 1) ++ rest) (oc := ⟨⟨h, b.id⟩, k, tx⟩) hsplit hSep hLr hGr
          (s := s) (s1 := s1) (bals := bals) (tr := { tr with loc := (b.id, k) })
          hGl hV1 hL hG hA hB htx hin hout ht hrec hRO hrtx
      have hstep : applyItem c w (s, bals) (⟨⟨h, b.id⟩, k, tx⟩ : Item) = .ok sb1 :=
        applyItem_some (tr := tr) (by rw [← hrs]; exact hr') himp
      rw [hstep]
      have hwf := wf_addImp (w := w) hrec hRO.unspent himp hQ
        (by
          intro r0 hr0
          have hr1 : r0 ∈ (if tx.cb = true then [] else hitsFrom Bw.L tx.ins 0) := by rw [← hin]; exact hr0
          by_cases hcb : tx.cb = true
          · simp [hcb] at hr1
          · simp only [hcb, Bool.false_eq_true, if_false] at hr1
            obtain ⟨u, hu, hw⟩ := hits_wallet hr1
            have := ((ownerOf_sub_some hOw).1 (hL.own u hu)).2
            rw [hw]; simpa using this)
        (by
          intro r0 hr0
          have hr1 : r0 ∈ ownedFrom (ownW c.own w) tx.outs 0 := by rw [← hout]; exact hr0
          obtain ⟨o, ch, ho⟩ := owned_wallet hr1
          have := ((ownerOf_sub_some hOw).1 ho).2
          simpa using this)
      obtain ⟨sb2, hs2, hA2, hB2, hS2, hBO2, hTP2, hQ2, hU2⟩ :=
        ih (k + 1) _ rest _ sb1.1 sb1.2 hsplit' hpos' hGl' hV2 hNode' hA1 hB1 hL' hG'
          (blocksOK_congr hBO1 hT1 hK1) (txPos_congr hTP1 hT1) hwf.1
      exact ⟨sb2, hs2, hA2, hB2, hS1.trans hS2, hBO2, hTP2, hQ2, fun hU => hU2 (hwf.2 hU)⟩
    · have ht' : Spec.Books.touches (ownW c.own w) Bw tx = false := by simpa using ht
      have hrn := hno ht'
      have hun : applyOcc c.p (ownW c.own w) Bw ⟨⟨h, b.id⟩, k, tx⟩ = Bw := applyOcc_untouched ht'
      rw [hun] at hGl' hL' hG' ⊢
      obtain ⟨sb2, hs2, hA2, hB2, hS2, hBO2, hTP2, hQ2, hU2⟩ :=
        ih (k + 1) _ rest _ s bals hsplit' hpos' hGl' hV2 hNode' hA hB hL' hG' hBO hTP hQ
      refine ⟨sb2, ?_, hA2, hB2, hS2, hBO2, hTP2, hQ2, hU2⟩
      by_cases hidx : Model.Import.touches c.node (managed c.own w) (BlockMeta.mk h b.id).height tx = true
      · rw [hidx]
        simp only [if_true, List.singleton_append, List.foldlM_cons]
        have hstep : applyItem c w (s, bals) (⟨⟨h, b.id⟩, k, tx⟩ : Item) = .ok (s, bals) :=
          applyItem_skip (by rw [← hrn]; exact hr')
        rw [hstep]; exact hs2
      · simp only [hidx, Bool.false_eq_true, if_false, List.nil_append]; exact hs2

-- ------------------------------------------------------------------ one height

theorem occs_split {chain : List Block} {h : Nat} {b : Block} (hb : chain[h]? = some b) :
    occs chain = occs (chain.take h) ++ (occsOfBlock b ++ occs (chain.drop (h + 1))) := by
  conv => lhs; rw [chain_split hb]
  rw [occs_append]
  congr 1

theorem scan_heightJ {c : Ctx} {w : Wid} (hKN : KeysNodup c.own) (hC : ChainOK c) {h : Nat} {b : Block}
    (hb : c.node.chain[h]? = some b) {s : Store} {bals : Bals}
    (hA : AgreeJ s (bookOf c.p (ownR c.own w) c.node.chain) (bookOf c.p (ownW c.own w) (c.node.chain.take h)))
    (hB : AgreeBal [w] bals (bookOf c.p (ownW c.own w) (c.node.chain.take h)))
    (hBO : BlocksOK c.node.chain s) (hTP : TxPos (occs c.node.chain) s) (hQ : BalsW w bals) :
    ∃ sb', (itemsOf c w ⟨h, b.id⟩ b.txs 0).foldlM (applyItem c w) (s, bals) = .ok sb' ∧
      AgreeJ sb'.1 (bookOf c.p (ownR c.own w) c.node.chain) (bookOf c.p (ownW c.own w) (c.node.chain.take (h + 1))) ∧
      AgreeBal [w] sb'.2 (bookOf c.p (ownW c.own w) (c.node.chain.take (h + 1))) ∧ SameSync s sb'.1 ∧
      BlocksOK c.node.chain sb'.1 ∧ TxPos (occs c.node.chain) sb'.1 ∧ BalsW w sb'.2 ∧
      (KeysNodup s.unspent → KeysNodup sb'.1.unspent) := by
  have hOw := ownW_sub hKN w
  have hbh : b.height = h := hC.heights h b hb
  have hsplit : c.node.chain = c.node.chain.take (h + 1) ++ c.node.chain.drop (h + 1) := (List.take_append_drop _ _).symm
  have hv1 : ChainValid c.own (c.node.chain.take h ++ [b]) := by
    rw [← take_succ_block hb]
    exact chainValid_prefix (b := c.node.chain.drop (h + 1)) (by rw [← hsplit]; exact hC.valid)
  have hv1w : ChainValid (ownW c.own w) (c.node.chain.take h ++ [b]) := chainValid_sub hOw hv1
  have hv0w : ChainValid (ownW c.own w) (c.node.chain.take h) := chainValid_prefix hv1w
  have hVb : ValidFrom (ownW c.own w) (occs (c.node.chain.take h)) (occsFrom ⟨h, b.id⟩ b.txs 0) := by
    have := hv1w
    unfold ChainValid at this
    rw [occs_append, validFrom_append, List.nil_append] at this
    have h2 := this.2
    simp only [occs, List.flatMap_cons, List.flatMap_nil, List.append_nil] at h2
    unfold occsOfBlock at h2
    rw [hbh] at h2
    exact h2
  obtain ⟨hL0, hG0⟩ := loc_bookOf (p := c.p) hv0w
  have hNode : ∀ oc' ∈ occs (c.node.chain.take h) ++ occsFrom ⟨h, b.id⟩ b.txs 0,
      fetchTxUntil c.node oc'.t.id h = some oc'.t := by
    have := node_finds hC hb
    unfold occsOfBlock at this
    rw [hbh] at this
    exact this
  have hsp : occs c.node.chain = occs (c.node.chain.take h) ++ (occsFrom ⟨h, b.id⟩ b.txs 0 ++ occs (c.node.chain.drop (h + 1))) := by
    have := occs_split hb
    unfold occsOfBlock at this
    rw [hbh] at this
    exact this
  obtain ⟨sb', hs, hA', hB', hS, hBO', hTP', hQ', hU'⟩ :=
    scan_txsJ (c := c) (w := w) hKN hC hb b.txs 0 (occs (c.node.chain.take h)) (occs (c.node.chain.drop (h + 1)))
      (bookOf c.p (ownW c.own w) (c.node.chain.take h)) s bals hsp (by intro m t hm; simpa using hm)
      (glob_bookOf (p := c.p) hv0w) hVb hNode hA hB hL0 hG0 hBO hTP hQ
  have e : (occsFrom ⟨h, b.id⟩ b.txs 0).foldl (applyOcc c.p (ownW c.own w)) (bookOf c.p (ownW c.own w) (c.node.chain.take h)) =
      bookOf c.p (ownW c.own w) (c.node.chain.take (h + 1)) := by
    rw [take_succ_block hb, bookOf_snoc]
    unfold occsOfBlock
    rw [hbh]
  rw [e] at hA' hB'
  exact ⟨sb', hs, hA', hB', hS, hBO', hTP', hQ', hU'⟩

theorem scan_singleJ {c : Ctx} {w : Wid} (hKN : KeysNodup c.own) (hC : ChainOK c) {h : Nat}
    (hlt : h < c.node.chain.length) {s : Store} {bals : Bals}
    (hA : AgreeJ s (bookOf c.p (ownR c.own w) c.node.chain) (bookOf c.p (ownW c.own w) (c.node.chain.take h)))
    (hB : AgreeBal [w] bals (bookOf c.p (ownW c.own w) (c.node.chain.take h)))
    (hBO : BlocksOK c.node.chain s) (hTP : TxPos (occs c.node.chain) s) (hQ : BalsW w bals) :
    ∃ sb', (plan c.node (managed c.own w) h h).foldlM (applyItem c w) (s, bals) = .ok sb' ∧
      AgreeJ sb'.1 (bookOf c.p (ownR c.own w) c.node.chain) (bookOf c.p (ownW c.own w) (c.node.chain.take (h + 1))) ∧
      AgreeBal [w] sb'.2 (bookOf c.p (ownW c.own w) (c.node.chain.take (h + 1))) ∧ SameSync s sb'.1 ∧
      BlocksOK c.node.chain sb'.1 ∧ TxPos (occs c.node.chain) sb'.1 ∧ BalsW w sb'.2 ∧
      (KeysNodup s.unspent → KeysNodup sb'.1.unspent) := by
  have hb : c.node.chain[h]? = some c.node.chain[h] := List.getElem?_eq_getElem hlt
  rw [plan_single]
  unfold Node.blockAt
  rw [hb]
  exact scan_heightJ hKN hC hb hA hB hBO hTP hQ

/-- **scan of a range of heights**, other wallets present -/
theorem scan_rangeJ {c : Ctx} {w : Wid} (hKN : KeysNodup c.own) (hC : ChainOK c) (start : Nat) :
    ∀ (stop : Nat) (s : Store) (bals : Bals), start ≤ stop + 1 → stop < c.node.chain.length →
      AgreeJ s (bookOf c.p (ownR c.own w) c.node.chain) (bookOf c.p (ownW c.own w) (c.node.chain.take start)) →
      AgreeBal [w] bals (bookOf c.p (ownW c.own w) (c.node.chain.take start)) →
      BlocksOK c.node.chain s → TxPos (occs c.node.chain) s → BalsW w bals →
      ∃ sb', (plan c.node (managed c.own w) start stop).foldlM (applyItem c w) (s, bals) = .ok sb' ∧
        AgreeJ sb'.1 (bookOf c.p (ownR c.own w) c.node.chain) (bookOf c.p (ownW c.own w) (c.node.chain.take (stop + 1))) ∧
        AgreeBal [w] sb'.2 (bookOf c.p (ownW c.own w) (c.node.chain.take (stop + 1))) ∧ SameSync s sb'.1 ∧
        BlocksOK c.node.chain sb'.1 ∧ TxPos (occs c.node.chain) sb'.1 ∧ BalsW w sb'.2 ∧
      (KeysNodup s.unspent → KeysNodup sb'.1.unspent) := by
  intro stop
  induction stop with
  | zero =>
    intro s bals hle hlt hA hB hBO hTP hQ
    by_cases hs : start = 1
    · subst hs
      rw [plan_empty _ _ _ _ (by omega)]
      exact ⟨(s, bals), rfl, hA, hB, SameSync.refl s, hBO, hTP, hQ, fun hU => hU⟩
    · have : start = 0 := by omega
      subst this
      exact scan_singleJ hKN hC hlt hA hB hBO hTP hQ
  | succ n ih =>
    intro s bals hle hlt hA hB hBO hTP hQ
    by_cases hs : start = n + 2
    · subst hs
      rw [plan_empty _ _ _ _ (by omega)]
      exact ⟨(s, bals), rfl, hA, hB, SameSync.refl s, hBO, hTP, hQ, fun hU => hU⟩
    · have hle' : start ≤ n + 1 := by omega
      obtain ⟨sb1, h1, hA1, hB1, hS1, hBO1, hTP1, hQ1, hU1⟩ := ih s bals hle' (by omega) hA hB hBO hTP hQ
      obtain ⟨sb2, h2, hA2, hB2, hS2, hBO2, hTP2, hQ2, hU2⟩ := scan_singleJ hKN hC hlt hA1 hB1 hBO1 hTP1 hQ1
      refine ⟨sb2, ?_, hA2, hB2, hS1.trans hS2, hBO2, hTP2, hQ2, fun hU => hU2 (hU1 hU)⟩
      rw [← plan_append c.node (managed c.own w) start n (n + 1) hle' (by omega)]
      exact ex_foldlM_append _ _ _ _ _ _ h1 h2

-- ------------------------------------------------------------------ one batch, the whole rescan

theorem ready_contains_iff (s : Store) (ws : List Wid) (w' : Wid) :
    (readyWallets s ws).contains w' = true ↔ w' ∈ ws ∧
      (match AMap.get s.status w' with
        | some st => st.synced.isNone && !st.removed
        | none => false) = true := by
  unfold readyWallets
  rw [List.contains_iff_mem, List.mem_filter]
  exact Iff.rfl

theorem ready_contains_congr {s s' : Store} {ws : List Wid} {w' : Wid} (h : AMap.get s'.status w' = AMap.get s.status w') :
    (readyWallets s' ws).contains w' = (readyWallets s ws).contains w' := by
  have h1 := ready_contains_iff s ws w'
  have h2 := ready_contains_iff s' ws w'
  rw [h] at h2
  cases ha : (readyWallets s ws).contains w' <;> cases hb : (readyWallets s' ws).contains w'
  · rfl
  · exact absurd (h1.2 (h2.1 hb)) (by rw [ha]; simp)
  · exact absurd (h2.2 (h1.1 ha)) (by rw [hb]; simp)
  · rfl

/-- **the scan invariant with other wallets in the instance** -/
structure ScanJ (c : Ctx) (w : Wid) (s : Store) (k : Nat) : Prop where
  agree : AgreeJ s (bookOf c.p (ownR c.own w) c.node.chain) (bookOf c.p (ownW c.own w) (c.node.chain.take (k + 1)))
  blocks : BlocksOK c.node.chain s
  txpos : TxPos (occs c.node.chain) s
  bal : AMap.get s.balance w = some (totalU (bookOf c.p (ownW c.own w) (c.node.chain.take (k + 1))).L w)
  /-- the balances of the other, ready, wallets are their ledger totals for the whole chain -/
  balR : ∀ w', w' ≠ w → (readyWallets s c.wallets).contains w' = true →
    AMap.get s.balance w' = some (totalU (bookOf c.p (ownR c.own w) c.node.chain).L w')
  sync : ∀ h, AMap.get s.sync h = syncOf c.node.chain h
  syncedTo : s.syncedTo + 1 = c.node.chain.length

/-- what a batch leaves alone: the balances and the status of the other wallets (and it keeps the unspent index
    well-formed) -/
def OthersSame (w : Wid) (s s' : Store) : Prop :=
  (∀ w', w' ≠ w → AMap.get s'.balance w' = AMap.get s.balance w') ∧
  (∀ w', w' ≠ w → AMap.get s'.status w' = AMap.get s.status w') ∧
  (KeysNodup s.unspent → KeysNodup s'.unspent)

theorem OthersSame.refl (w : Wid) (s : Store) : OthersSame w s s := ⟨fun _ _ => rfl, fun _ _ => rfl, fun h => h⟩
theorem OthersSame.trans {w : Wid} {a b c : Store} (h₁ : OthersSame w a b) (h₂ : OthersSame w b c) : OthersSame w a c :=
  ⟨fun w' hw => (h₂.1 w' hw).trans (h₁.1 w' hw), fun w' hw => (h₂.2.1 w' hw).trans (h₁.2.1 w' hw),
   fun h => h₂.2.2 (h₁.2.2 h)⟩

theorem importStep_scanJ {batch : Nat} (hb : batch > 0) {c : Ctx} {w : Wid} (hKN : KeysNodup c.own) (hC : ChainOK c)
    {s : Store} {v : Vol} {k : Nat} {ws : WStatus}
    (hS : ScanJ c w s k) (hw : c.wallets.contains w = true) (hst : AMap.get s.status w = some ws)
    (hk : ws.synced = some k) (hbest : v.best.height + 1 = c.node.chain.length) (hle : k ≤ v.best.height)
    (hnw : k + batch < 2 ^ 64) :
    ∃ s' v', importStep batch c w s v = .ok (s', v', decide (nextStop batch k v.best.height = v.best.height)) ∧
      ScanJ c w s' (nextStop batch k v.best.height) ∧
      AMap.get s'.status w = some (statusAfter ws (nextStop batch k v.best.height) v.best.height) ∧
      v'.best = v.best ∧ OthersSame w s s' := by
  have hcur : cursorU64 ws = k := by simp [cursorU64, hk]
  have hstopeq := batchStop_eq batch k v.best.height hnw
  have hstop_le : nextStop batch k v.best.height ≤ v.best.height := by unfold nextStop; split <;> omega
  have hstop_ge : k ≤ nextStop batch k v.best.height := by unfold nextStop; split <;> omega
  have hlt : nextStop batch k v.best.height < c.node.chain.length := by omega
  have hhead := batchHead_eq batch c w s v ws _ hw hst hS.bal (by
    intro _
    rw [hcur, hstopeq]
    unfold agrees Node.blockAt
    rw [List.getElem?_eq_getElem hlt, hS.sync]
    unfold syncOf
    rw [List.getElem?_eq_getElem hlt]
    simp)
  rw [hcur, hstopeq] at hhead
  have hstart : addU64 k 1 = k + 1 := by
    unfold addU64; exact Nat.mod_eq_of_lt (by omega)
  rw [hstart] at hhead
  have hB0 : AgreeBal [w] [(w, totalU (bookOf c.p (ownW c.own w) (c.node.chain.take (k + 1))).L w)]
      (bookOf c.p (ownW c.own w) (c.node.chain.take (k + 1))) := by
    intro w' hw'
    have : w' = w := by simpa using hw'
    subst this
    simp [AMap.get]
  obtain ⟨sb, hf, hA, hB, hSS, hBO, hTP, hQ, hU⟩ := scan_rangeJ hKN hC (k + 1) (nextStop batch k v.best.height) s _
    (by omega) hlt hS.agree hB0 hS.blocks hS.txpos ⟨_, rfl⟩
  have himp : importStep batch c w s v = .ok
      (finishBatch w ⟨ws, totalU (bookOf c.p (ownW c.own w) (c.node.chain.take (k + 1))).L w, k, v.best.height,
          nextStop batch k v.best.height, k + 1⟩ sb.1 sb.2,
       ({ v with expired := (expiredUpdate (itemRelevant c w) v.best.height
          (plan c.node (managed c.own w) (k + 1) (nextStop batch k v.best.height)) v.expired) } : Vol),
       decide (nextStop batch k v.best.height = v.best.height)) := by
    unfold importStep
    rw [hhead]
    simp only [hf]
  obtain ⟨bv, hbv⟩ := hQ
  have hbalw : ∀ w', AMap.get (sb.2.foldl (fun (m : AMap.T Wid Nat) (e : Wid × Nat) => AMap.put m e.1 e.2) sb.1.balance) w' =
      if w = w' then some bv else AMap.get s.balance w' := by
    intro w'
    rw [hbv]
    simp only [List.foldl_cons, List.foldl_nil]
    rw [AMap.get_put, hSS.balance]
  refine ⟨_, _, himp, ?_, ?_, rfl, ?_⟩
  · constructor
    · exact ⟨hA.unspent, hA.credits, hA.debits, hA.game, hA.txrecs⟩
    · exact blocksOK_congr hBO (fun _ => rfl) (fun _ => rfl)
    · exact txPos_congr hTP (fun _ => rfl)
    · show AMap.get (sb.2.foldl (fun (m : AMap.T Wid Nat) (e : Wid × Nat) => AMap.put m e.1 e.2) sb.1.balance) w = _
      rw [hbalw w]
      simp only [if_true]
      have := hB w (by simp)
      rw [hbv] at this
      simp only [AMap.get_cons, if_true] at this
      rw [← this]
    · intro w' hw' hr
      show AMap.get (sb.2.foldl (fun (m : AMap.T Wid Nat) (e : Wid × Nat) => AMap.put m e.1 e.2) sb.1.balance) w' = _
      rw [hbalw w']
      have hne : ¬ w = w' := fun e => hw' e.symm
      simp only [hne, if_false]
      apply hS.balR w' hw'
      rw [← hr]
      symm
      apply ready_contains_congr
      show AMap.get (AMap.put sb.1.status w _) w' = _
      rw [AMap.get_put]
      simp only [hne, if_false]
      rw [hSS.status]
    · intro h
      show AMap.get sb.1.sync h = _
      rw [hSS.sync]; exact hS.sync h
    · show sb.1.syncedTo + 1 = _
      rw [hSS.syncedTo]; exact hS.syncedTo
  · simp [finishBatch, AMap.get_put]
  · refine ⟨?_, ?_, hU⟩
    · intro w' hw'
      show AMap.get (sb.2.foldl (fun (m : AMap.T Wid Nat) (e : Wid × Nat) => AMap.put m e.1 e.2) sb.1.balance) w' = _
      rw [hbalw w']
      have : ¬ w = w' := fun e => hw' e.symm
      simp only [this, if_false]
    · intro w' hw'
      show AMap.get (AMap.put _ w _) w' = _
      rw [AMap.get_put]
      have : ¬ w = w' := fun e => hw' e.symm
      simp only [this, if_false]
      show AMap.get sb.1.status w' = _
      rw [hSS.status]

/-- **the rescan, any cut into batches, other wallets present** -/
theorem run_scanJ {batch : Nat} (hb : batch > 0) {c : Ctx} {w : Wid} (hKN : KeysNodup c.own) (hC : ChainOK c)
    (hw : c.wallets.contains w = true) :
    ∀ (n : Nat) (s : Store) (v : Vol) (k : Nat) (ws : WStatus) (s' : Store) (v' : Vol),
      ScanJ c w s k → AMap.get s.status w = some ws → ws.synced = some k →
      v.best.height + 1 = c.node.chain.length → k ≤ v.best.height → v.best.height + batch < 2 ^ 64 →
      runImport batch c w n s v = some (s', v') →
      ScanJ c w s' v.best.height ∧ AMap.get s'.status w = some { ws with synced := none } ∧ v'.best = v.best ∧
        OthersSame w s s' := by
  intro n
  induction n with
  | zero => intro s v k ws s' v' _ _ _ _ _ _ h; simp [runImport] at h
  | succ n ih =>
    intro s v k ws s' v' hS hst hk hbest hle hnb h
    obtain ⟨s1, v1, h1, hS1, hst1, hv1, hO1⟩ := importStep_scanJ hb hKN hC hS hw hst hk hbest hle (by omega)
    unfold runImport at h
    rw [h1] at h
    simp only at h
    by_cases hfin : nextStop batch k v.best.height = v.best.height
    · simp only [hfin, decide_true, if_true, Option.some.injEq, Prod.mk.injEq] at h
      obtain ⟨rfl, rfl⟩ := h
      rw [hfin] at hS1 hst1
      refine ⟨hS1, ?_, hv1, hO1⟩
      rw [hst1]; simp [statusAfter]
    · simp only [hfin, decide_false, Bool.false_eq_true, if_false] at h
      have hle1 : nextStop batch k v.best.height ≤ v.best.height := by unfold nextStop; split <;> omega
      have := ih s1 v1 (nextStop batch k v.best.height) (statusAfter ws (nextStop batch k v.best.height) v.best.height)
        s' v' hS1 hst1 (by simp [statusAfter, hfin]) (by rw [hv1]; exact hbest) (by rw [hv1]; exact hle1)
        (by rw [hv1]; exact hnb) h
      rw [hv1] at this
      obtain ⟨a1, a2, a3, a4⟩ := this
      refine ⟨a1, ?_, a3, hO1.trans a4⟩
      rw [a2]; simp [statusAfter]

/-- … and the loop does report done -/
theorem run_totalJ {batch : Nat} (hb : batch > 0) {c : Ctx} {w : Wid} (hKN : KeysNodup c.own) (hC : ChainOK c)
    (hw : c.wallets.contains w = true) :
    ∀ (n : Nat) (s : Store) (v : Vol) (k : Nat) (ws : WStatus),
      ScanJ c w s k → AMap.get s.status w = some ws → ws.synced = some k →
      v.best.height + 1 = c.node.chain.length → k ≤ v.best.height → v.best.height + batch < 2 ^ 64 →
      v.best.height - k < n → (runImport batch c w n s v).isSome = true := by
  intro n
  induction n with
  | zero => intro s v k ws _ _ _ _ _ _ h; omega
  | succ n ih =>
    intro s v k ws hS hst hk hbest hle hnb hfuel
    obtain ⟨s1, v1, h1, hS1, hst1, hv1, _⟩ := importStep_scanJ hb hKN hC hS hw hst hk hbest hle (by omega)
    unfold runImport
    rw [h1]
    simp only
    by_cases hfin : nextStop batch k v.best.height = v.best.height
    · simp [hfin]
    · simp only [hfin, decide_false, Bool.false_eq_true, if_false]
      have hle1 : nextStop batch k v.best.height ≤ v.best.height := by unfold nextStop; split <;> omega
      have hgt : k < nextStop batch k v.best.height := by unfold nextStop at hfin ⊢; split at hfin <;> split <;> omega
      exact ih s1 v1 (nextStop batch k v.best.height) _ hS1 hst1 (by simp [statusAfter, hfin])
        (by rw [hv1]; exact hbest) (by rw [hv1]; exact hle1) (by rw [hv1]; exact hnb) (by rw [hv1]; omega)

end MW.Lemmas.ImportJoin
