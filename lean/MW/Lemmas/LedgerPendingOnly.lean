/-
  Helper lemmas for C09, part 10: the purge removes ONLY descendants — no other pending transaction
  disappears (any fuel; needs only that keys are the ids of the stored transactions).
-/
import MW.Lemmas.LedgerPendingWF
namespace MW.Lemmas.LedgerPending
open MW MW.Model.Ledger

def KeyId (s : Store) : Prop := ∀ id t, AMap.get s.pending id = some t → t.id = id

theorem KeyId.mono {s' s : Store} (h : KeyId s) (hs : Sub s' s) : KeyId s' :=
  fun id t hg => h id t (hs.pending_some hg)

theorem Edge.mono {s' s : Store} (hs : Sub s' s) {t d : Tx} (h : Edge s' t d) : Edge s t d := by
  obtain ⟨i, hi, hl, hd⟩ := h
  exact ⟨i, hi, hs.ins _ _ hl, hs.pending_some hd⟩

theorem Desc.mono {s' s : Store} (hs : Sub s' s) {tx d : Tx} (h : Desc s' tx d) : Desc s tx d := by
  induction h with
  | root => exact Desc.root
  | step _ he ih => exact Desc.step ih (he.mono hs)

theorem Desc.trans {s : Store} {a b c : Tx} (h₁ : Desc s a b) (h₂ : Desc s b c) : Desc s a c := by
  induction h₂ with
  | root => exact h₁
  | step _ he ih => exact Desc.step ih he

/-- every pending transaction of `s` that is gone in `a` is a descendant of `tx` -/
def OnlyDesc (s : Store) (tx : Tx) (a : Store) : Prop :=
  ∀ t, AMap.get s.pending t.id = some t → Gone a t → Desc s tx t

theorem removeConflict_only (own : Own) : ∀ fuel s tx, KeyId s → AMap.get s.pending tx.id = some tx →
    OnlyDesc s tx (removeConflict own fuel s tx) := by
  intro fuel
  induction fuel with
  | zero => intro s tx _ _ t ht hg; rw [Gone] at hg; change AMap.get s.pending t.id = none at hg; rw [ht] at hg; cases hg
  | succ n ih =>
    intro s tx hk hroot
    rw [removeConflict_succ]
    -- the loops: invariant `Sub a s ∧ OnlyDesc s tx a`
    have hloops : Sub ((List.range tx.outs.length).foldl (killOut own n tx.id) s) s ∧
        OnlyDesc s tx ((List.range tx.outs.length).foldl (killOut own n tx.id) s) := by
      apply foldl_inv (fun a => Sub a s ∧ OnlyDesc s tx a) _ _ _
        ⟨Sub.refl s, fun t ht hg => by rw [Gone, ht] at hg; cases hg⟩
      intro a i hi ⟨hsa, hoa⟩
      have hi' : i < tx.outs.length := List.mem_range.mp hi
      -- inner loop over the spenders listed (in `a`) under output i
      have hinner : ∀ (l : List TxId) (b : Store), (∀ sp ∈ l, Listed s (tx.id, i) sp) → Sub b s → OnlyDesc s tx b →
          Sub (killSpenders own n b l) s ∧ OnlyDesc s tx (killSpenders own n b l) := by
        intro l
        induction l with
        | nil => intro b _ hb ho; exact ⟨hb, ho⟩
        | cons sp l ihl =>
          intro b hl hb ho
          have hstep : killSpenders own n b (sp :: l) = killSpenders own n
              (match AMap.get b.pending sp with
               | some sptx => removeConflict own n b sptx
               | none => b) l := rfl
          rw [hstep]
          apply ihl _ (fun sp' h => hl sp' (by simp [h]))
          · split
            · exact (removeConflict_sub own n b _).trans hb
            · exact hb
          · split
            · rename_i sptx hg
              have hid : sptx.id = sp := (hk.mono hb) _ _ hg
              have hgs := hb.pending_some hg
              have hedge : Edge s tx sptx := ⟨i, hi', by rw [hid]; exact hl sp (by simp), by rw [hid]; exact hgs⟩
              intro t ht hgone
              rcases hb.pending_same ht with htb | htb
              · have := ih b sptx (hk.mono hb) (by rw [hid]; exact hg) t htb hgone
                exact (Desc.step Desc.root hedge).trans (this.mono hb)
              · exact ho t ht htb
            · exact ho
      have hl : ∀ sp ∈ (AMap.get a.pendIns (tx.id, i)).getD [], Listed s (tx.id, i) sp := by
        intro sp hsp
        apply hsa.ins
        cases hg : AMap.get a.pendIns (tx.id, i) with
        | none => rw [hg] at hsp; cases hsp
        | some l => rw [hg] at hsp; exact ⟨l, hg, hsp⟩
      obtain ⟨r1, r2⟩ := hinner _ a hl hsa hoa
      exact ⟨(sub_eraseCred _ _).trans r1, fun t ht hg => r2 t ht hg⟩
    obtain ⟨hsa, hoa⟩ := hloops
    intro t ht hgone
    rw [Gone] at hgone
    have hf1 := removeUnminedInputsOf_frame ((List.range tx.outs.length).foldl (killOut own n tx.id) s) tx
    have hf2 := removeUnminedGameHistory_frame own
      (removeUnminedInputsOf ((List.range tx.outs.length).foldl (killOut own n tx.id) s) tx) tx
    simp only [exceptIns, exceptGame, Prod.mk.injEq] at hf1 hf2
    change AMap.get (AMap.erase (removeUnminedGameHistory own _ tx).pending tx.id) t.id = none at hgone
    rw [AMap.get_erase, hf2.1, hf1.1] at hgone
    by_cases hid : tx.id = t.id
    · rw [← hid, hroot] at ht; cases ht; exact Desc.root
    · simp only [hid, if_false] at hgone
      exact hoa t ht hgone

end MW.Lemmas.LedgerPending
