/-
  Non-vacuity of `RunHyp` / `ledger_correct`: a concrete history with a reorganisation.
    node:   G ── b1 ── b2          (extend b1, extend b2; the follower handles both notifications)
                  └─── c2          (the node switches to the sibling c2 of b2; the follower handles it)
  The wallet store is the worked store `obS0` of LedgerObsEx (fresh wallet "w1" synced to genesis).
-/
import MW.Lemmas.LedgerHistory2
import MW.Lemmas.LedgerObsEx
namespace MW.Lemmas.Ledger
open MW MW.Model.Ledger MW.Spec.Chain MW.Spec.Books

def hxG : Block := ⟨"G", "", 0, []⟩
def hxB1 : Block := ⟨"b1", "G", 1, [⟨"c1", true, [⟨"", 0, 0⟩], [⟨"a1", 50, .std⟩]⟩]⟩
def hxB2 : Block :=
  ⟨"b2", "b1", 2, [⟨"c2", true, [⟨"", 0, 0⟩], [⟨"x", 50, .std⟩]⟩,
                   ⟨"t1", false, [⟨"c1", 0, 0⟩], [⟨"y", 20, .std⟩, ⟨"a2", 30, .std⟩]⟩]⟩
/-- a sibling of `hxB2`: its coinbase pays the wallet's address "a2" -/
def hxC2 : Block := ⟨"c2", "b1", 2, [⟨"c3", true, [⟨"", 0, 0⟩], [⟨"a2", 50, .std⟩]⟩]⟩

example : [hxG, hxB1, hxB2] = obChain := rfl

def hxEnv : Env :=
  { p := { cbMaturity := 1 }, own := exOwn, wallets := ["w1"],
    known := [("G", hxG), ("b1", hxB1), ("b2", hxB2), ("c2", hxC2)] }

def hxW0 : World := { chain := [hxG], s := obS0, v := { best := ⟨0, "G"⟩ } }

def hxEvs : List Ev := [.extend hxB1, .extend hxB2, .handle, .handle, .reorgTo 1 [hxC2], .handle]

theorem hxKnown_cases {id : BlkId} {x : Block} (h : AMap.get hxEnv.known id = some x) :
    x = hxG ∨ x = hxB1 ∨ x = hxB2 ∨ x = hxC2 := by
  simp only [hxEnv, AMap.get_cons, AMap.get_nil] at h
  repeat' split at h
  all_goals first | (cases h; simp; done) | cases h

theorem hxGood3 {a b c : Block} (ha : a.height = 0) (hb : b.height = 1) (hc : c.height = 2)
    (hab : b.prev = a.id) (hbc : c.prev = b.id) : GoodChain [a, b, c] := by
  refine ⟨?_, ?_, by simp⟩
  · intro i x h
    match i with
    | 0 => simp at h; rw [← h, ha]
    | 1 => simp at h; rw [← h, hb]
    | 2 => simp at h; rw [← h, hc]
    | n + 3 => simp at h
  · intro i x y hx hy
    match i with
    | 0 => simp at hx hy; rw [← hx, ← hy, hab]
    | 1 => simp at hx hy; rw [← hx, ← hy, hbc]
    | n + 2 => simp at hy

theorem hxOK1 : ChainOK hxEnv hxG [hxG, hxB1, hxB2] :=
  ⟨hxGood3 rfl rfl rfl rfl rfl, by show ChainValid exOwn _; decide, rfl, by
    intro x hx
    simp only [List.mem_cons, List.not_mem_nil, or_false] at hx
    rcases hx with rfl | rfl | rfl <;> rfl⟩

theorem hxOK2 : ChainOK hxEnv hxG [hxG, hxB1, hxC2] :=
  ⟨hxGood3 rfl rfl rfl rfl rfl, by show ChainValid exOwn _; decide, rfl, by
    intro x hx
    simp only [List.mem_cons, List.not_mem_nil, or_false] at hx
    rcases hx with rfl | rfl | rfl <;> rfl⟩

theorem hxChains : chainsOf hxEnv hxW0 hxEvs =
    [[hxG], [hxG, hxB1], [hxG, hxB1, hxB2], [hxG, hxB1, hxB2], [hxG, hxB1, hxB2], [hxG, hxB1, hxC2],
      [hxG, hxB1, hxC2]] := rfl

/-- THE HYPOTHESES OF `ledger_correct` HOLD for this history -/
theorem hxRunHyp : RunHyp hxEnv hxG hxW0 hxEvs where
  genesisOnly := by
    intro id x h h0
    rcases hxKnown_cases h with rfl | rfl | rfl | rfl
    · rfl
    all_goals cases h0
  genesisPrev := by
    intro id x h
    rcases hxKnown_cases h with rfl | rfl | rfl | rfl <;> decide
  chains := by
    intro ch hch
    rw [hxChains] at hch
    simp only [List.mem_cons, List.not_mem_nil, or_false] at hch
    rcases hch with rfl | rfl | rfl | rfl | rfl | rfl | rfl
    · exact hxOK1.take 0
    · exact hxOK1.take 1
    · exact hxOK1
    · exact hxOK1
    · exact hxOK1
    · exact hxOK2
    · exact hxOK2
  reorgNonempty := by
    intro ev hev
    simp only [hxEvs, List.mem_cons, List.not_mem_nil, or_false] at hev
    rcases hev with rfl | rfl | rfl | rfl | rfl | rfl <;> simp [EvOK]
  ready := by
    show AllReady exOwn (readyWallets obS0 obCtx.wallets)
    rw [obReady]; exact obAllReady
  readyNe := by
    show (readyWallets obS0 obCtx.wallets).isEmpty = false
    rw [obReady]; rfl

theorem hxQueue : (runW hxEnv hxW0 hxEvs).queue = [] := rfl
theorem hxChain : (runW hxEnv hxW0 hxEvs).chain = [hxG, hxB1, hxC2] := rfl

/-- `ledger_correct` on the example: after the reorganisation has been handled the store holds exactly the
    books of the node's new best chain `G – b1 – c2` and the follower's tip is `c2` -/
example :
    Inv (hxEnv.ctx [hxG, hxB1, hxC2]) (runW hxEnv hxW0 hxEvs).s [hxG, hxB1, hxC2] ∧
      (runW hxEnv hxW0 hxEvs).v.best = ⟨2, "c2"⟩ := by
  have h := ledger_correct hxEnv hxG hxW0 hxEvs hxRunHyp
    ((inv_ctx_irrel (c := obCtx) (c' := hxEnv.ctx [hxG]) rfl rfl rfl).1 obInv0) rfl rfl hxQueue
  rw [hxChain] at h
  exact h

end MW.Lemmas.Ledger
