/-
  C09 history-level refinement, model side, part 1: the PURGE LOOPS as one relation.

  `Purged s ops s'`: `s'` results from `s` by removing the pending spenders listed (in `s`) under the outpoints
  `ops`, each with its descendants: a purge `Step`, every such spender is gone (`must`), and every pending
  transaction that is gone is a descendant of such a spender (`only` – no over-deletion).
  Instances: `killSpenders` on the spender list of one outpoint, the loop of `removeDoubleSpends` (`dsLoop`),
  `purgeSpenders` and its fold over the removed coinbase credits (end of `Rollback`).
  Then `confirm_op`: everything the history proof needs about `confirmPending` (= the pending part of
  `insertMinedTx`, and `removeDoubleSpends` for a transaction that is not pending).
-/
import MW.Lemmas.PendHistDefs
import MW.Lemmas.LedgerPendingOnly
namespace MW.Lemmas.PendHist
open MW MW.Model.Ledger MW.Lemmas.LedgerPending

structure Purged (s : Store) (ops : List (TxId × Nat)) (s' : Store) : Prop where
  step : Step s s'
  must : ∀ op ∈ ops, ∀ d, Listed s op d.id → AMap.get s.pending d.id = some d → Gone s' d
  only : ∀ t, AMap.get s.pending t.id = some t → Gone s' t →
    ∃ op ∈ ops, ∃ r, Listed s op r.id ∧ AMap.get s.pending r.id = some r ∧ Desc s r t

theorem Purged.nil (s : Store) : Purged s [] s :=
  ⟨Step.refl s, fun _ h => (by cases h), fun t ht hg => (by unfold Gone at hg; rw [ht] at hg; cases hg)⟩

theorem Purged.trans {s a s' : Store} {o1 o2 : List (TxId × Nat)} (h1 : Purged s o1 a) (h2 : Purged a o2 s') :
    Purged s (o1 ++ o2) s' := by
  refine ⟨h1.step.trans h2.step, ?_, ?_⟩
  · intro op hop d hl hd
    rcases List.mem_append.1 hop with ho | ho
    · exact Gone.mono (h1.must op ho d hl hd) h2.step.sub
    · rcases h1.step.sub.pending_same hd with hda | hda
      · exact h2.must op ho d (h1.step.intact _ _ hl (by rw [hda]; rfl)) hda
      · exact Gone.mono hda h2.step.sub
  · intro t ht hg
    rcases h1.step.sub.pending_same ht with hta | hta
    · obtain ⟨op, hop, r, hl, hr, hd⟩ := h2.only t hta hg
      exact ⟨op, List.mem_append_right _ hop, r, h1.step.sub.ins _ _ hl, h1.step.sub.pending_some hr,
        hd.mono h1.step.sub⟩
    · obtain ⟨op, hop, r, hl, hr, hd⟩ := h1.only t ht hta
      exact ⟨op, List.mem_append_left _ hop, r, hl, hr, hd⟩

/-- no over-deletion for the inner loop: whatever `killSpenders` removes is a descendant of a listed spender -/
theorem killSpenders_only (own : Own) (n : Nat) (s : Store) (hk : KeyId s) : ∀ (l : List TxId) (b : Store), Sub b s →
    ∀ t, AMap.get b.pending t.id = some t → Gone (killSpenders own n b l) t →
      ∃ sp ∈ l, ∃ r, AMap.get s.pending sp = some r ∧ Desc s r t := by
  intro l
  induction l with
  | nil => intro b _ t ht hg; rw [killSpenders, List.foldl, Gone, ht] at hg; cases hg
  | cons sp l ih =>
    intro b hb t ht hg
    have hstep : killSpenders own n b (sp :: l) = killSpenders own n
        (match AMap.get b.pending sp with
         | some sptx => removeConflict own n b sptx
         | none => b) l := rfl
    rw [hstep] at hg
    cases hsp : AMap.get b.pending sp with
    | none =>
      rw [hsp] at hg
      obtain ⟨sp', h1, r, h2, h3⟩ := ih b hb t ht hg
      exact ⟨sp', List.mem_cons_of_mem _ h1, r, h2, h3⟩
    | some sptx =>
      rw [hsp] at hg
      simp only [] at hg
      have hid : sptx.id = sp := (hk.mono hb) _ _ hsp
      have hsub1 := removeConflict_sub own n b sptx
      rcases hsub1.pending_same ht with h1 | h1
      · obtain ⟨sp', h2, r, h3, h4⟩ := ih _ (hsub1.trans hb) t h1 hg
        exact ⟨sp', List.mem_cons_of_mem _ h2, r, h3, h4⟩
      · have := removeConflict_only own n b sptx (hk.mono hb) (by rw [hid]; exact hsp) t ht h1
        exact ⟨sp, List.mem_cons_self, sptx, hb.pending_some hsp, this.mono hb⟩

section loops
variable (rank : TxId → Nat) (own : Own)

/-- the spenders listed under ONE outpoint, with any fuel above the number of pending transactions -/
theorem killSpenders_purged (s : Store) (hw : WFw rank s) (n : Nat) (hn : s.pending.length < n) (op : TxId × Nat) :
    Purged s [op] (killSpenders own n s ((AMap.get s.pendIns op).getD [])) := by
  have hks := killSpenders_spec rank own n (removeConflict_spec rank own n)
    ((AMap.get s.pendIns op).getD []) s hw (by
      intro sp _ t _
      have h1 := mu_le_length rank s t
      omega)
  refine ⟨hks.2.1, ?_, ?_⟩
  · intro op' hop d hl _
    rw [List.mem_singleton.1 hop] at hl
    obtain ⟨l, hgl, hmem⟩ := hl
    exact hks.2.2 d.id (by rw [hgl]; exact hmem)
  · intro t ht hg
    obtain ⟨sp, hsp, r, hr, hd⟩ := killSpenders_only own n s hw.key_id _ s (Sub.refl s) t ht hg
    have hid : r.id = sp := hw.key_id _ _ hr
    refine ⟨op, List.mem_singleton.2 rfl, r, ?_, by rw [hid]; exact hr, hd⟩
    cases hgl : AMap.get s.pendIns op with
    | none => rw [hgl] at hsp; cases hsp
    | some l => rw [hgl] at hsp; exact ⟨l, hgl, by rw [hid]; exact hsp⟩

/-- the purge loop of removeDoubleSpends -/
theorem dsLoop_purged (s0 : Store) (n : Nat) (hn : s0.pending.length < n) : ∀ (ins : List Inp) (s : Store),
    WFw rank s → s.pending.length ≤ s0.pending.length →
    Purged s (ins.map (fun i => (i.tx, i.idx))) (dsLoop own n s ins) := by
  intro ins
  induction ins with
  | nil => intro s _ _; exact Purged.nil s
  | cons i ins ih =>
    intro s hw hlen
    have h1 := killSpenders_purged rank own s hw n (by omega) (i.tx, i.idx)
    have hk : dsLoop own n s (i :: ins) =
        dsLoop own n (killSpenders own n s ((AMap.get s.pendIns (i.tx, i.idx)).getD [])) ins := by
      simp only [dsLoop, List.foldl]
    rw [hk]
    have h2 := ih _ (hw.mono h1.step.sub) (by have := h1.step.sub.length_le; omega)
    exact Purged.trans h1 h2

/-- the coinbase purge at the end of Rollback, one outpoint -/
theorem purgeSpenders_purged (s : Store) (hw : WFw rank s) (op : TxId × Nat) :
    Purged s [op] (purgeSpenders own s op) := by
  have hfix : ∀ (f : Store → TxId → Store)
      (_ : ∀ a ds dtx, AMap.get a.pending ds = some dtx → f a ds = removeConflict own (a.pending.length + 1) a dtx)
      (_ : ∀ a ds, AMap.get a.pending ds = none → f a ds = a)
      (l : List TxId) (a : Store), WFw rank a → a.pending.length ≤ s.pending.length →
      l.foldl f a = killSpenders own (s.pending.length + 1) a l := by
    intro f hf1 hf2 l
    induction l with
    | nil => intro a _ _; rfl
    | cons ds l ih =>
      intro a hwa hla
      simp only [List.foldl, killSpenders]
      cases hg : AMap.get a.pending ds with
      | none => rw [hf2 a ds hg]; exact ih a hwa hla
      | some dtx =>
        rw [hf1 a ds dtx hg]
        simp only []
        have hid := hwa.key_id _ _ hg
        have hmu : mu rank a dtx < a.pending.length + 1 := Nat.lt_succ_of_le (mu_le_length rank a dtx)
        obtain ⟨hstab, hpost⟩ := removeConflict_spec rank own (a.pending.length + 1) a dtx hwa
          (by rw [hid]; exact hg) hmu
        rw [← hstab (s.pending.length + 1) (by omega)]
        have hsub := removeConflict_sub own (s.pending.length + 1) a dtx
        exact ih _ (hwa.mono hsub) (by have := hsub.length_le; omega)
  rw [purgeSpenders_eq', hfix _ (fun a ds dtx h => by simp only [h]) (fun a ds h => by simp only [h]) _ s hw
    (Nat.le_refl _)]
  exact killSpenders_purged rank own s hw _ (by omega) op

theorem purgeFold_purged : ∀ (rem : List (TxId × Nat)) (s : Store), PendWF rank s →
    Purged s rem (rem.foldl (purgeSpenders own) s) ∧ PendWF rank (rem.foldl (purgeSpenders own) s) := by
  intro rem
  induction rem with
  | nil => intro s hw; exact ⟨Purged.nil s, hw⟩
  | cons op rem ih =>
    intro s hw
    have h1 := purgeSpenders_purged rank own s hw.weak op
    have hw1 := purgeSpenders_wf rank own s op hw
    obtain ⟨h2, hw2⟩ := ih _ hw1
    exact ⟨Purged.trans h1 h2, hw2⟩

/-- after a purge every descendant of a listed spender is gone -/
theorem Purged.desc_gone {s s' : Store} {ops : List (TxId × Nat)} (h : Purged s ops s') {op : TxId × Nat}
    (hop : op ∈ ops) {r t : Tx} (hl : Listed s op r.id) (hr : AMap.get s.pending r.id = some r) (hd : Desc s r t) :
    Gone s' t :=
  (LedgerPending.desc_gone hr h.step (h.must op hop r hl hr) hd).1

-- ------------------------------------------------------------------ the confirm operation

/-- `removeDoubleSpends` for a transaction that is not pending IS the confirm operation -/
theorem removeDoubleSpends_eq_confirm (s : Store) (t : Tx) (h : AMap.get s.pending t.id = none) :
    removeDoubleSpends own s { tx := t } = confirmPending own s { tx := t } := by
  unfold confirmPending unpendMined
  simp [h]

/-- CONFIRM, everything the history proof needs: `u` (= tr.tx) leaves the pending set, no spender entry is left
    under its inputs, the removed set is closed under "pending child of" (except through `u` itself, which is
    confirmed, not purged), and whatever is gone is `u` or a descendant of a pending transaction that spends an
    input of `u`. -/
theorem confirm_op (s : Store) (tr : TxRec) (hw : PendWF rank s)
    (hsame : ∀ t, AMap.get s.pending tr.tx.id = some t → t = tr.tx) :
    PendWF rank (confirmPending own s tr) ∧ Sub (confirmPending own s tr) s ∧
    AMap.get (confirmPending own s tr).pending tr.tx.id = none ∧
    (∀ i ∈ tr.tx.ins, ∀ x, ¬ Listed (confirmPending own s tr) (i.tx, i.idx) x) ∧
    (∀ p t, AMap.get s.pending p.id = some p → p.id ≠ tr.tx.id → Gone (confirmPending own s tr) p → Edge s p t →
      Gone (confirmPending own s tr) t) ∧
    (∀ t, AMap.get s.pending t.id = some t → Gone (confirmPending own s tr) t →
      t.id = tr.tx.id ∨ ∃ i ∈ tr.tx.ins, ∃ r, r.id ≠ tr.tx.id ∧ Listed s (i.tx, i.idx) r.id ∧
        AMap.get s.pending r.id = some r ∧ Desc s r t) := by
  have hwf := confirmPending_wf rank own s tr hw hsame
  obtain ⟨c1, c2, _, c4, _⟩ := confirmPending_spec rank own s tr hw.weak hw.noEmpty
  have hsu := sub_unpendMined s tr.tx
  have hwu : WFw rank (unpendMined s tr.tx) := hw.weak.mono hsu
  have hP := dsLoop_purged rank own (unpendMined s tr.tx) ((unpendMined s tr.tx).pending.length + 1) (by omega)
    tr.tx.ins _ hwu (Nat.le_refl _)
  have hfr := deleteUnminedInputs_frame (dsLoop own ((unpendMined s tr.tx).pending.length + 1) (unpendMined s tr.tx) tr.tx.ins) tr.tx
  simp only [exceptIns, Prod.mk.injEq] at hfr
  have hcp : confirmPending own s tr = deleteUnminedInputs
      (dsLoop own ((unpendMined s tr.tx).pending.length + 1) (unpendMined s tr.tx) tr.tx.ins) tr.tx := rfl
  have hu_pend : ∀ id t, id ≠ tr.tx.id → AMap.get s.pending id = some t →
      AMap.get (unpendMined s tr.tx).pending id = some t := by
    intro id t hne hg
    unfold unpendMined
    split
    · show AMap.get (AMap.erase (deleteUnminedCredits s tr.tx).pending tr.tx.id) id = some t
      rw [AMap.get_erase, (deleteUnminedCredits_frame s tr.tx).1]
      simp [Ne.symm hne, hg]
    · exact hg
  have hgone : ∀ t : Tx, Gone (confirmPending own s tr) t ↔
      Gone (dsLoop own ((unpendMined s tr.tx).pending.length + 1) (unpendMined s tr.tx) tr.tx.ins) t := by
    intro t; unfold Gone; rw [hcp, hfr.1]
  refine ⟨hwf, c1, c2, ?_, ?_, ?_⟩
  · intro i hi x hl
    obtain ⟨l, hgl, _⟩ := hl
    rw [c4 i hi] at hgl; cases hgl
  · intro p t hp hne hg hedge
    by_cases htid : t.id = tr.tx.id
    · rw [Gone, htid]; exact c2
    · obtain ⟨j, hj, hl, ht⟩ := hedge
      have hedge' : Edge (unpendMined s tr.tx) p t :=
        ⟨j, hj, by unfold Listed at *; rw [unpendMined_pendIns]; exact hl, hu_pend _ _ htid ht⟩
      exact (hgone t).2 (hP.step.closed p t (hu_pend _ _ hne hp) ((hgone p).1 hg) hedge')
  · intro t ht hg
    by_cases htid : t.id = tr.tx.id
    · exact Or.inl htid
    · right
      obtain ⟨op, hop, r, hl, hr, hd⟩ := hP.only t (hu_pend _ _ htid ht) ((hgone t).1 hg)
      obtain ⟨i, hi, rfl⟩ := List.mem_map.1 hop
      have hrne : r.id ≠ tr.tx.id := by
        intro hc
        have := unpendMined_pending s tr.tx
        rw [← hc, hr] at this; cases this
      exact ⟨i, hi, r, hrne, by unfold Listed at *; rw [unpendMined_pendIns] at hl; exact hl,
        hsu.pending_some hr, hd.mono hsu⟩

end loops

end MW.Lemmas.PendHist
