/-
  Lemmas about big-endian Nat <-> bytes (MW.Base.Bip32Base `BE`) used by the C14 proofs.
-/
import MW.Base.Bip32Base
import Mathlib.Tactic.Ring
import Mathlib.Tactic.Linarith
import Mathlib.Data.List.Induction
namespace MW.BE

theorem toNat_ofNat_mod (n : Nat) : (UInt8.ofNat (n % 256)).toNat = n % 256 := by
  simp [UInt8.toNat_ofNat']

theorem ofNat_toNat (b : UInt8) : UInt8.ofNat b.toNat = b := by simp

theorem u8_lt (b : UInt8) : b.toNat < 256 := by
  have := UInt8.toNat_lt b; simpa using this

/-! ### ofBytes -/

theorem foldl_acc (bs : Bytes) (a : Nat) :
    bs.foldl (fun a b => a * 256 + b.toNat) a = a * 256 ^ bs.length + ofBytes bs := by
  induction bs generalizing a with
  | nil => simp [ofBytes]
  | cons b bs ih =>
    simp only [List.foldl_cons, List.length_cons, ofBytes]
    rw [ih, ih (0 * 256 + b.toNat)]
    ring

@[simp] theorem ofBytes_nil : ofBytes [] = 0 := rfl

theorem ofBytes_cons (b : UInt8) (bs : Bytes) :
    ofBytes (b :: bs) = b.toNat * 256 ^ bs.length + ofBytes bs := by
  simp only [ofBytes, List.foldl_cons]
  rw [foldl_acc]; simp [ofBytes]

theorem ofBytes_append (a b : Bytes) : ofBytes (a ++ b) = ofBytes a * 256 ^ b.length + ofBytes b := by
  simp only [ofBytes, List.foldl_append]
  rw [foldl_acc]; simp [ofBytes]

theorem ofBytes_snoc (a : Bytes) (b : UInt8) : ofBytes (a ++ [b]) = ofBytes a * 256 + b.toNat := by
  rw [ofBytes_append]; simp [ofBytes_cons]

theorem ofBytes_lt (bs : Bytes) : ofBytes bs < 256 ^ bs.length := by
  induction bs using List.reverseRecOn with
  | nil => simp
  | append_singleton bs b ih =>
    rw [ofBytes_snoc, List.length_append, List.length_singleton, Nat.pow_succ]
    have := u8_lt b
    nlinarith

theorem ofBytes_replicate_zero (n : Nat) : ofBytes (List.replicate n (0 : UInt8)) = 0 := by
  induction n with
  | zero => rfl
  | succ n ih => rw [List.replicate_succ, ofBytes_cons, ih]; simp

theorem ofBytes_zeros_append (n : Nat) (b : Bytes) : ofBytes (List.replicate n (0 : UInt8) ++ b) = ofBytes b := by
  rw [ofBytes_append, ofBytes_replicate_zero]; simp

/-! ### toBytes: the fuel version equals the plain recursion `tb` -/

/-- minimal big-endian bytes by plain (well-founded) recursion; only used in proofs -/
def tb (n : Nat) : Bytes := if h : n = 0 then [] else tb (n / 256) ++ [UInt8.ofNat (n % 256)]
decreasing_by omega

theorem tb_zero : tb 0 = [] := by rw [tb]; simp
theorem tb_pos {n : Nat} (h : n ≠ 0) : tb n = tb (n / 256) ++ [UInt8.ofNat (n % 256)] := by
  rw [tb]; simp [h]

theorem toBytesAux_eq (f n : Nat) (acc : Bytes) (h : n ≤ f) : toBytesAux f n acc = tb n ++ acc := by
  induction f generalizing n acc with
  | zero =>
    have : n = 0 := by omega
    subst this; simp [toBytesAux, tb_zero]
  | succ f ih =>
    unfold toBytesAux
    by_cases hn : n = 0
    · subst hn; simp [tb_zero]
    · simp only [hn, if_false]
      rw [ih _ _ (by omega), tb_pos hn]; simp

theorem toBytes_eq_tb (n : Nat) : toBytes n = tb n := by
  simp [toBytes, toBytesAux_eq n n [] (Nat.le_refl n)]

@[simp] theorem toBytes_zero : toBytes 0 = [] := by rw [toBytes_eq_tb, tb_zero]
theorem toBytes_pos {n : Nat} (h : n ≠ 0) : toBytes n = toBytes (n / 256) ++ [UInt8.ofNat (n % 256)] := by
  rw [toBytes_eq_tb, toBytes_eq_tb, tb_pos h]

theorem ofBytes_toBytes (n : Nat) : ofBytes (toBytes n) = n := by
  induction n using Nat.strongRecOn with
  | _ n ih =>
    by_cases hn : n = 0
    · subst hn; simp
    · rw [toBytes_pos hn, ofBytes_snoc, ih (n / 256) (by omega), toNat_ofNat_mod]; omega

theorem toBytes_length_le (w n : Nat) (h : n < 256 ^ w) : (toBytes n).length ≤ w := by
  induction w generalizing n with
  | zero => have : n = 0 := by simpa using h
            subst this; simp
  | succ w ih =>
    by_cases hn : n = 0
    · subst hn; simp
    · rw [toBytes_pos hn]
      have : n / 256 < 256 ^ w := by
        rw [Nat.div_lt_iff_lt_mul (by norm_num)]; rw [Nat.pow_succ] at h; exact h
      have := ih _ this
      simp; omega

/-- the first byte of a minimal encoding is not zero -/
theorem toBytes_head_ne_zero (n : Nat) : (toBytes n).head? ≠ some 0 := by
  induction n using Nat.strongRecOn with
  | _ n ih =>
    by_cases hn : n = 0
    · subst hn; simp
    · rw [toBytes_pos hn]
      by_cases hq : n / 256 = 0
      · rw [hq]; simp
        intro h0
        have h1 : (UInt8.ofNat (n % 256)).toNat = (0 : UInt8).toNat := by rw [h0]
        rw [toNat_ofNat_mod] at h1
        simp at h1; omega
      · have := ih (n / 256) (by omega)
        rw [toBytes_pos hq] at this ⊢
        simpa [List.head?_append] using this

theorem dropWhile_zero_eq_self (l : Bytes) (h : l.head? ≠ some 0) : l.dropWhile (· = 0) = l := by
  cases l with
  | nil => rfl
  | cons a l => simp at h; simp [List.dropWhile, h]

theorem toBytes_ofBytes (b : Bytes) : toBytes (ofBytes b) = b.dropWhile (· = 0) := by
  induction b using List.reverseRecOn with
  | nil => simp
  | append_singleton bs x ih =>
    rw [ofBytes_snoc]
    by_cases hz : ofBytes bs * 256 + x.toNat = 0
    · rw [hz, toBytes_zero]
      have h1 : ofBytes bs = 0 := by omega
      have h2 : x = 0 := by
        have : x.toNat = 0 := by omega
        exact UInt8.toNat_inj.mp (by simpa using this)
      rw [h1, toBytes_zero] at ih
      subst h2
      rw [List.dropWhile_append]
      simp [← ih]
    · rw [toBytes_pos hz]
      have hx := u8_lt x
      have hd : (ofBytes bs * 256 + x.toNat) / 256 = ofBytes bs := by omega
      have hm : (ofBytes bs * 256 + x.toNat) % 256 = x.toNat := by omega
      rw [hd, hm, ih, ofNat_toNat, List.dropWhile_append]
      by_cases he : bs.dropWhile (· = 0) = []
      · simp only [he, List.isEmpty_nil, if_true, List.nil_append]
        have h1 : ofBytes bs = 0 := by
          have := ofBytes_toBytes (ofBytes bs); rw [ih, he] at this; simpa using this.symm
        have hx0 : x ≠ 0 := by
          intro h; subst h; simp [h1] at hz
        simp [List.dropWhile, hx0]
      · have : (List.dropWhile (fun x => decide (x = 0)) bs).isEmpty = false := by
          cases h : List.dropWhile (fun x => decide (x = 0)) bs with
          | nil => exact absurd h he
          | cons _ _ => rfl
        simp [this]

/-! ### fixed -/

@[simp] theorem fixed_length (w n : Nat) : (fixed w n).length = w := by
  induction w generalizing n with
  | zero => rfl
  | succ w ih => simp [fixed, ih]

theorem ofBytes_fixed (w n : Nat) : ofBytes (fixed w n) = n % 256 ^ w := by
  induction w generalizing n with
  | zero => simp [fixed, Nat.mod_one]
  | succ w ih =>
    rw [fixed, ofBytes_snoc, ih, toNat_ofNat_mod, Nat.pow_succ, Nat.mul_comm (256 ^ w) 256, Nat.mod_mul]
    ring

theorem fixed_ofBytes (b : Bytes) : fixed b.length (ofBytes b) = b := by
  induction b using List.reverseRecOn with
  | nil => rfl
  | append_singleton bs x ih =>
    have hx := u8_lt x
    rw [List.length_append, List.length_singleton, fixed, ofBytes_snoc]
    have hd : (ofBytes bs * 256 + x.toNat) / 256 = ofBytes bs := by omega
    have hm : (ofBytes bs * 256 + x.toNat) % 256 = x.toNat := by omega
    rw [hd, hm, ih, ofNat_toNat]

theorem fixed_zero (w : Nat) : fixed w 0 = List.replicate w 0 := by
  induction w with
  | zero => rfl
  | succ w ih => rw [fixed]; simp [ih, List.replicate_succ']

/-- `paddedAppend(w, nil, n.Bytes())` is the fixed-width encoding when `n` fits -/
theorem pad_toBytes (w n : Nat) (h : n < 256 ^ w) :
    List.replicate (w - (toBytes n).length) (0 : UInt8) ++ toBytes n = fixed w n := by
  induction w generalizing n with
  | zero =>
    have : n = 0 := by simpa using h
    subst this; simp [fixed]
  | succ w ih =>
    by_cases hn : n = 0
    · subst hn; simp [fixed_zero]
    · have hq : n / 256 < 256 ^ w := by
        rw [Nat.div_lt_iff_lt_mul (by norm_num)]; rw [Nat.pow_succ] at h; exact h
      rw [toBytes_pos hn, fixed, ← ih _ hq]
      simp
end MW.BE
