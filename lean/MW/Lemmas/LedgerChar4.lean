/-
  WHAT THE TABLES OF THE BOOKS CONTAIN, in terms of the chain — part 4: the deposit records against the
  spec list `Spec.Chain.deposits`, and a worked example.
    deposits_mem_iff       the entries of `deposits own chain w` are the owned staking / binding outputs of the
                           chain paid to `w`, `withdrawn` iff a transaction of the chain spends them
    game_bookOf_deposits   the deposit-record table of the books of a valid chain = one record per entry
-/
import MW.Lemmas.LedgerChar3
namespace MW.Lemmas.Ledger
open MW MW.Model.Ledger MW.Spec.Chain MW.Spec.Books

theorem char_occ_block {chain : List Block} {oc : Occ} (h : oc ∈ occs chain) :
    ∃ b ∈ chain, oc.t ∈ b.txs ∧ oc.bm = ⟨b.height, b.id⟩ := by
  obtain ⟨b, hb, hoc⟩ := mem_occs.1 h
  obtain ⟨m, hm, _, hbm⟩ := mem_occsFrom.1 hoc
  exact ⟨b, hb, List.mem_of_getElem? hm, hbm⟩

theorem char_block_occ {chain : List Block} {b : Block} {t : Tx} (hb : b ∈ chain) (ht : t ∈ b.txs) :
    ∃ oc ∈ occs chain, oc.t = t ∧ oc.bm = ⟨b.height, b.id⟩ := by
  obtain ⟨m, hm⟩ := List.getElem?_of_mem ht
  exact ⟨⟨⟨b.height, b.id⟩, 0 + m, t⟩, mem_occs.2 ⟨b, hb, occsFrom_mem_of_get hm⟩, rfl, rfl⟩

theorem char_spentOnChain_iff (chain : List Block) (tx : TxId) (i : Nat) :
    chain.any (fun b => b.txs.any (fun t => !t.cb && t.ins.any (fun x => x.tx = tx && x.idx = i))) = true ↔
      (tx, i) ∈ spentOps (occs chain) := by
  simp only [List.any_eq_true, Bool.and_eq_true, Bool.not_eq_true', decide_eq_true_eq]
  unfold spentOps
  rw [List.mem_flatMap]
  constructor
  · rintro ⟨b, hb, t, ht, hcb, x, hx, h1, h2⟩
    obtain ⟨oc, hoc, rfl, _⟩ := char_block_occ hb ht
    refine ⟨oc, hoc, ?_⟩
    rw [hcb]
    simp only [Bool.false_eq_true, if_false]
    exact List.mem_map.2 ⟨x, hx, by unfold opOf; rw [h1, h2]⟩
  · rintro ⟨oc, hoc, h⟩
    obtain ⟨b, hb, ht, _⟩ := char_occ_block hoc
    by_cases hcb : oc.t.cb = true
    · simp [hcb] at h
    · have hcb' : oc.t.cb = false := by simpa using hcb
      simp only [hcb', Bool.false_eq_true, if_false] at h
      obtain ⟨x, hx, hop⟩ := List.mem_map.1 h
      unfold opOf at hop
      injection hop with h1 h2
      exact ⟨b, hb, oc.t, ht, hcb', x, hx, h1, h2⟩

theorem char_ownerOf_deposit {own : Own} {o : Out} (h : isDeposit o.cls = true) :
    ownerOf own o = AMap.get own o.addr := by
  unfold ownerOf
  have : o.cls ≠ .raw := by
    intro e; rw [e] at h; cases h
  simp [this]

theorem deposits_mem_iff (own : Own) (chain : List Block) (w : Wid) (d : Deposit) :
    d ∈ deposits own chain w ↔
      ∃ u, CreatedIn own (occs chain) u ∧ isDeposit u.out.cls = true ∧ u.wallet = w ∧
        d = ⟨u.tx, u.idx, u.out.amt, u.blk.height, u.out.cls, u.out.addr,
          decide ((u.tx, u.idx) ∈ spentOps (occs chain))⟩ := by
  simp only [deposits, List.mem_flatMap, List.mem_filterMap]
  constructor
  · rintro ⟨b, hb, t, ht, ⟨o, i⟩, hoi, heq⟩
    have hget : t.outs[i]? = some o := List.mem_zipIdx_iff_getElem?.1 hoi
    simp only at heq
    by_cases hdep : (o.cls.isStaking || o.cls.isBinding) = true
    · rw [if_pos hdep] at heq
      cases hown : AMap.get own o.addr with
      | none => rw [hown] at heq; cases heq
      | some wc =>
        obtain ⟨w', ch⟩ := wc
        rw [hown] at heq
        simp only at heq
        by_cases hw : w' = w
        · rw [if_pos hw] at heq
          injection heq with heq
          obtain ⟨oc, hoc, hoct, hbm⟩ := char_block_occ hb ht
          have hdep' : isDeposit o.cls = true := by unfold isDeposit; rw [Bool.or_comm]; exact hdep
          refine ⟨⟨w', t.id, i, ⟨b.height, b.id⟩, t.cb, o, ch⟩, ⟨oc, hoc, ?_, ?_, ?_, ?_, ?_⟩, hdep', hw, ?_⟩
          · rw [hoct]
          · rw [hoct]; exact hget
          · rw [char_ownerOf_deposit hdep']; exact hown
          · exact hbm.symm
          · rw [hoct]
          · rw [← heq]
            congr 1
            rw [Bool.eq_iff_iff, decide_eq_true_eq]
            exact char_spentOnChain_iff chain t.id i
        · rw [if_neg hw] at heq; cases heq
    · rw [if_neg hdep] at heq; cases heq
  · rintro ⟨u, ⟨oc, hoc, hid, hget, hown, hblk, hcb⟩, hdep, hw, rfl⟩
    obtain ⟨b, hb, ht, hbm⟩ := char_occ_block hoc
    refine ⟨b, hb, oc.t, ht, (u.out, u.idx), List.mem_zipIdx_iff_getElem?.2 hget, ?_⟩
    have hdep' : (u.out.cls.isStaking || u.out.cls.isBinding) = true := by
      rw [Bool.or_comm]; exact hdep
    rw [char_ownerOf_deposit hdep] at hown
    simp only [hdep', if_true, hown, hw]
    congr 1
    have hh : b.height = u.blk.height := by rw [hblk, hbm]
    have hsp : (chain.any fun b => b.txs.any fun t_1 =>
        !t_1.cb && t_1.ins.any fun x => decide (x.tx = oc.t.id) && decide (x.idx = u.idx)) =
        decide ((u.tx, u.idx) ∈ spentOps (occs chain)) := by
      rw [Bool.eq_iff_iff, decide_eq_true_eq, ← hid]
      exact char_spentOnChain_iff chain oc.t.id u.idx
    rw [hsp, hid, hh]

/-- DEPOSIT RECORDS against the spec list `deposits`: the record table of the books of a valid chain holds
    exactly one record per entry of `deposits own chain w`, in the withdrawn partition iff the entry says so -/
theorem game_bookOf_deposits {p : Params} {own : Own} {chain : List Block} (hV : ChainValid own chain)
    (gk : GameKey) :
    (bookOf p own chain).game gk = some () ↔
      ∃ d ∈ deposits own chain gk.wallet,
        gk = ⟨gk.wallet, d.cls.isBinding, d.withdrawn, d.tx, d.height, d.idx⟩ := by
  rw [gameInv_bookOf (p := p) hV gk]
  constructor
  · rintro ⟨u, hc, hd, rfl⟩
    exact ⟨_, (deposits_mem_iff own chain _ _).2 ⟨u, hc, hd, rfl, rfl⟩, rfl⟩
  · rintro ⟨d, hd, hk⟩
    obtain ⟨u, hc, hdep, hw, rfl⟩ := (deposits_mem_iff own chain _ _).1 hd
    refine ⟨u, hc, hdep, ?_⟩
    rw [hk]
    unfold UCoin.gameKey
    rw [hw]

-- ------------------------------------------------------------------ non-vacuity (the chain of LedgerGlob2)

/-- block 2 of `exChain`: the coinbase (foreign) does not touch the books, `t1` does -/
example : touchIds {} exOwn (bookOf {} exOwn [exChain[0]]) (occsOfBlock exChain[1]) = ["t1"] := by decide

example : (bookOf {} exOwn exChain).blocks 2 = some ("b2", ["t1"]) := by decide

example : (bookOf {} exOwn exChain).debits ⟨"t1", ⟨2, "b2"⟩, 0⟩ = some (50, ⟨"c1", ⟨1, "b1"⟩, 0⟩) := by decide

example : ((bookOf {} exOwn exChain).credits ⟨"c1", ⟨1, "b1"⟩, 0⟩).map (fun c => (c.spent, c.spentBy)) =
    some (true, some ⟨"t1", ⟨2, "b2"⟩, 0⟩) := by decide

example : (bookOf {} exOwn exChain).txrecs ("t1", ⟨2, "b2"⟩) = some ("b2", 1) := by decide

end MW.Lemmas.Ledger
