/-
  connect_sound (C01 goal 1): filterBlock on a block that extends the wallet's chain (and is on the
  node's best chain) succeeds and re-establishes the invariant for the longer chain.
-/
import MW.Lemmas.LedgerFilter
import MW.Lemmas.LedgerLoc
import MW.Lemmas.LedgerInv
namespace MW.Lemmas.Ledger
open MW MW.Model.Ledger MW.Spec.Chain MW.Spec.Books

theorem blockAt_of_node {n : Node} {chain rest : List Block} {b : Block} (hnode : n.chain = chain ++ b :: rest)
    (hheight : b.height = chain.length) : n.blockAt b.height = some b := by
  unfold Node.blockAt
  rw [hnode, hheight]
  simp

theorem readyWallets_congr {s s' : Store} (h : s'.status = s.status) (ws : List Wid) :
    readyWallets s' ws = readyWallets s ws := by
  unfold readyWallets; rw [h]

/-- filterBlock against ANY books `B0` the store agrees with (core of connect_sound) -/
theorem connect_core {c : Ctx} {s : Store} {chain rest : List Block} {b : Block} {B0 : Book}
    (hR0 : Agree s B0)
    (hbal0 : ∀ w, (readyWallets s c.wallets).contains w = true → AMap.get s.balance w = some (totalU B0.L w))
    (hGl0 : Glob c.own (occs chain) B0) (hL0 : Loc c.p c.own B0) (hG0 : LocG B0)
    (hsync : ∀ h, AMap.get s.sync h = syncOf chain h) (hst : s.syncedTo + 1 = chain.length)
    (hnode : c.node.chain = chain ++ b :: rest) (hvalid : ChainValid c.own c.node.chain)
    (hheight : b.height = chain.length)
    (hAR : AllReady c.own (readyWallets s c.wallets)) (hne : (readyWallets s c.wallets).isEmpty = false) :
    ∃ s' conf, filterBlock c s (readyWallets s c.wallets) b = .ok (s', conf) ∧
      Agree s' ((occsOfBlock b).foldl (applyOcc c.p c.own) B0) ∧
      (∀ w, (readyWallets s c.wallets).contains w = true →
        AMap.get s'.balance w = some (totalU ((occsOfBlock b).foldl (applyOcc c.p c.own) B0).L w)) ∧
      (∀ h, AMap.get s'.sync h = syncOf (chain ++ [b]) h) ∧ s'.syncedTo + 1 = (chain ++ [b]).length ∧
      s'.status = s.status := by
  have F : FilterCtx c s (readyWallets s c.wallets) chain rest b B0 := ⟨hnode, hvalid, hAR, hGl0, fun k h => by rw [hR0.credits k]; exact h⟩
  obtain ⟨recs, hf, hM⟩ := filterTxs_block F F.valid_block
  have hbm : ∀ oc ∈ occsOfBlock b, oc.bm = ⟨b.height, b.id⟩ := fun oc h => mem_occsFrom_bm h
  have hB0 : AgreeBal (readyWallets s c.wallets)
      (s.balance.filter (fun e => (readyWallets s c.wallets).contains e.1)) B0 := by
    intro w hw
    rw [get_filter_key s.balance (fun k => (readyWallets s c.wallets).contains k) w]
    simp only [hw, if_true]
    exact hbal0 w hw
  obtain ⟨sb, hs, hR, hB, _, _, hS⟩ :=
    applyPhase_refines (p := c.p) hAR ⟨b.height, b.id⟩ (occsOfBlock b) (occs chain) _ recs s _ hbm hM hGl0
      F.valid_block hR0 hB0 hL0 hG0
  have hlen : 0 < chain.length := by omega
  -- the store after onRelevantBlockConnected
  let s1 : Store := if recs.isEmpty then s else { sb.1 with balance := mergeBalances sb.2 sb.1.balance }
  have h1 : applyRelevant c s (readyWallets s c.wallets) ⟨b.height, b.id⟩ recs = .ok s1 := by
    unfold applyRelevant
    by_cases he : recs.isEmpty = true
    · simp [s1, he]
    · simp only [he, Bool.false_eq_true, if_false, s1]
      rw [hs]; rfl
  have hR1 : Agree s1 ((occsOfBlock b).foldl (applyOcc c.p c.own) B0) := by
    by_cases he : recs.isEmpty = true
    · have : recs = [] := List.isEmpty_iff.1 he
      subst this
      simp only [List.foldlM_nil] at hs
      have : sb = (s, s.balance.filter (fun e => (readyWallets s c.wallets).contains e.1)) := by
        injection hs with h; exact h.symm
      simp only [s1, List.isEmpty_nil, if_true]
      rw [this] at hR; exact hR
    · simp only [he, Bool.false_eq_true, if_false, s1]
      exact ⟨hR.unspent, hR.credits, hR.debits, hR.game, hR.txrecs, hR.blocks, hR.addrs⟩
  have hst1 : s1.status = s.status ∧ s1.sync = s.sync ∧ s1.syncedTo = s.syncedTo := by
    by_cases he : recs.isEmpty = true
    · simp [s1, he]
    · simp only [he, Bool.false_eq_true, if_false, s1]
      exact ⟨hS.status, hS.sync, hS.syncedTo⟩
  have hbal1 : ∀ w, (readyWallets s c.wallets).contains w = true →
      AMap.get s1.balance w = some (totalU ((occsOfBlock b).foldl (applyOcc c.p c.own) B0).L w) := by
    intro w hw
    by_cases he : recs.isEmpty = true
    · have : recs = [] := List.isEmpty_iff.1 he
      subst this
      simp only [List.foldlM_nil] at hs
      have hsb : sb = (s, s.balance.filter (fun e => (readyWallets s c.wallets).contains e.1)) := by
        injection hs with h; exact h.symm
      simp only [s1, List.isEmpty_nil, if_true]
      rw [hbal0 w hw]
      have h2 := hB w hw
      rw [hsb] at h2
      have h3 := hB0 w hw
      rw [h3] at h2; exact h2
    · simp only [he, Bool.false_eq_true, if_false, s1]
      rw [get_mergeBalances, hB w hw]
  -- the conflict purge through the irrelevant transactions only touches pending buckets
  have hM1 : MinedEq s1 (purgeUnrelated c.own s1 (unrelatedTxs b.txs recs)) := minedEq_purgeUnrelated _ _ _
  obtain ⟨s2, hp, hsync2, hst2, hs2eq⟩ := putSyncedTo_snoc
    (s := purgeUnrelated c.own s1 (unrelatedTxs b.txs recs)) (chain := chain) (b := b)
    (by intro h; rw [hM1.sync, hst1.2.1]; exact hsync h) hlen hheight
  refine ⟨s2, recs.map (·.tx.id), ?_, ?_, ?_, hsync2, hst2, ?_⟩
  · unfold filterBlock
    simp only [blockAt_of_node hnode hheight, ne_eq, not_true_eq_false, if_false, hne, Bool.false_eq_true]
    rw [hf]
    simp only [M_ok_bind]
    rw [h1]
    simp only [M_ok_bind]
    rw [hp]; rfl
  · have hR1' := hM1.agree hR1
    rw [hs2eq]
    exact ⟨hR1'.unspent, hR1'.credits, hR1'.debits, hR1'.game, hR1'.txrecs, hR1'.blocks, hR1'.addrs⟩
  · intro w hw
    rw [hs2eq]
    show AMap.get (purgeUnrelated c.own s1 (unrelatedTxs b.txs recs)).balance w = _
    rw [hM1.balance]; exact hbal1 w hw
  · rw [hs2eq]
    show (purgeUnrelated c.own s1 (unrelatedTxs b.txs recs)).status = _
    rw [hM1.status]; exact hst1.1

/-- connect_sound: filterBlock on the next block of the node's chain succeeds and yields the invariant
    for the longer chain -/
theorem connect_sound {c : Ctx} {s : Store} {chain rest : List Block} {b : Block}
    (hI : Inv c s chain) (hnode : c.node.chain = chain ++ b :: rest) (hvalid : ChainValid c.own c.node.chain)
    (hheight : b.height = chain.length)
    (hAR : AllReady c.own (readyWallets s c.wallets)) (hne : (readyWallets s c.wallets).isEmpty = false) :
    ∃ s' conf, filterBlock c s (readyWallets s c.wallets) b = .ok (s', conf) ∧ Inv c s' (chain ++ [b]) ∧
      s'.status = s.status := by
  have hvc : ChainValid c.own chain :=
    chainValid_prefix (a := chain) (b := b :: rest) (by rw [← hnode]; exact hvalid)
  obtain ⟨hL0, hG0⟩ := loc_bookOf (p := c.p) hvc
  have e := eqM_withAddrs (bookOf c.p c.own chain) (fun k => AMap.get s.addrs k)
  obtain ⟨s', conf, h1, hR, hbal, hsync, hst, hstat⟩ :=
    connect_core (B0 := { bookOf c.p c.own chain with addrs := fun k => AMap.get s.addrs k })
      hI.agree.toAgree hI.bal ((glob_bookOf (p := c.p) hvc).congrM e) (hL0.congrM e) (hG0.congrM e)
      hI.sync hI.syncedTo hnode hvalid hheight hAR hne
  have e' : EqM ((occsOfBlock b).foldl (applyOcc c.p c.own)
      { bookOf c.p c.own chain with addrs := fun k => AMap.get s.addrs k }) (bookOf c.p c.own (chain ++ [b])) := by
    rw [bookOf_snoc]; exact foldOcc_eqM _ _ _ e.symm
  refine ⟨s', conf, h1, ⟨hR.toM.congr e', ?_, hsync, hst⟩, hstat⟩
  intro w hw
  rw [readyWallets_congr hstat] at hw
  rw [hbal w hw, e'.L]

/-- the same with the address records (first-use heights), relative to the issued-address table `a0` -/
theorem connect_sound_full {c : Ctx} {s : Store} {a0 : Wid × Bool × Addr → Option Nat} {chain rest : List Block} {b : Block}
    (hI : InvFull c s a0 chain) (hnode : c.node.chain = chain ++ b :: rest) (hvalid : ChainValid c.own c.node.chain)
    (hheight : b.height = chain.length)
    (hAR : AllReady c.own (readyWallets s c.wallets)) (hne : (readyWallets s c.wallets).isEmpty = false) :
    ∃ s' conf, filterBlock c s (readyWallets s c.wallets) b = .ok (s', conf) ∧ InvFull c s' a0 (chain ++ [b]) ∧
      s'.status = s.status := by
  have hvc : ChainValid c.own chain :=
    chainValid_prefix (a := chain) (b := b :: rest) (by rw [← hnode]; exact hvalid)
  obtain ⟨hL0, hG0⟩ := loc_bookOf (p := c.p) hvc
  have e := (booksFrom_eqM c.p c.own a0 chain).symm
  have hA : Agree s (booksFrom c.p c.own a0 chain) :=
    ⟨(hI.agree.congr e).unspent, (hI.agree.congr e).credits, (hI.agree.congr e).debits, (hI.agree.congr e).game,
     (hI.agree.congr e).txrecs, (hI.agree.congr e).blocks, hI.addrs⟩
  obtain ⟨s', conf, h1, hR, hbal, hsync, hst, hstat⟩ :=
    connect_core hA (by intro w hw; rw [hI.bal w hw, e.L]) ((glob_bookOf (p := c.p) hvc).congrM e) (hL0.congrM e)
      (hG0.congrM e) hI.sync hI.syncedTo hnode hvalid hheight hAR hne
  have hsn : (occsOfBlock b).foldl (applyOcc c.p c.own) (booksFrom c.p c.own a0 chain) =
      booksFrom c.p c.own a0 (chain ++ [b]) := by
    unfold booksFrom
    rw [occs_append, List.foldl_append]
    simp [occs]
  rw [hsn] at hR hbal
  have e' := booksFrom_eqM c.p c.own a0 (chain ++ [b])
  refine ⟨s', conf, h1, ⟨⟨hR.toM.congr e', ?_, hsync, hst⟩, hR.addrs⟩, hstat⟩
  intro w hw
  rw [readyWallets_congr hstat] at hw
  rw [hbal w hw, e'.L]

/-- block heights are positions in the chain -/
def HeightsOK (chain : List Block) : Prop := ∀ (i : Nat) (b : Block), chain[i]? = some b → b.height = i

/-- reorg step 3 / catching up: connecting the next blocks of the node's chain one after the other -/
theorem connectAll_sound {c : Ctx} (tc : List Block) :
    ∀ (s : Store) (chain rest : List Block) (added : List (Nat × List TxId)),
      Inv c s chain → c.node.chain = chain ++ tc ++ rest → ChainValid c.own c.node.chain →
      HeightsOK c.node.chain →
      AllReady c.own (readyWallets s c.wallets) → (readyWallets s c.wallets).isEmpty = false →
      ∃ s' added', connectAll c (readyWallets s c.wallets) tc s added = .ok (s', added') ∧
        Inv c s' (chain ++ tc) ∧ s'.status = s.status ∧
        added'.map (·.1) = added.map (·.1) ++ tc.map (fun (b : Block) => b.height) := by
  induction tc with
  | nil =>
    intro s chain rest added hI _ _ _ _ _
    exact ⟨s, added, rfl, by simpa using hI, rfl, by simp⟩
  | cons b tc ih =>
    intro s chain rest added hI hnode hvalid hH hAR hne
    have hnode' : c.node.chain = chain ++ b :: (tc ++ rest) := by rw [hnode]; simp
    have hheight : b.height = chain.length := by
      have hH' : ∀ (i : Nat) (b : Block), c.node.chain[i]? = some b → b.height = i := hH
      apply hH' chain.length b
      rw [hnode']; simp
    obtain ⟨s1, conf, h1, hI1, hst1⟩ := connect_sound hI hnode' hvalid hheight hAR hne
    have hrw := readyWallets_congr hst1 c.wallets
    obtain ⟨s2, added2, h2, hI2, hst2, hadd2⟩ := ih s1 (chain ++ [b]) rest (added ++ [(b.height, conf)]) hI1
      (by rw [hnode]; simp) hvalid hH (by rw [hrw]; exact hAR) (by rw [hrw]; exact hne)
    refine ⟨s2, added2, ?_, by simpa using hI2, hst2.trans hst1, ?_⟩
    · unfold connectAll
      rw [h1]
      simp only [M_ok_bind]
      rw [← hrw]; exact h2
    · rw [hadd2]; simp

/-- build_sound: processing the blocks of a valid chain one by one from a store that holds the books of
    its first block(s) reaches the invariant for the whole chain -/
theorem build_sound {c : Ctx} {s : Store} {chain tc : List Block}
    (hI : Inv c s chain) (hnode : c.node.chain = chain ++ tc) (hvalid : ChainValid c.own c.node.chain)
    (hH : HeightsOK c.node.chain)
    (hAR : AllReady c.own (readyWallets s c.wallets)) (hne : (readyWallets s c.wallets).isEmpty = false) :
    ∃ s' added, connectAll c (readyWallets s c.wallets) tc s [] = .ok (s', added) ∧ Inv c s' c.node.chain := by
  obtain ⟨s', added, h, hI', _, _⟩ := connectAll_sound tc s chain [] [] hI (by simpa using hnode) hvalid hH hAR hne
  exact ⟨s', added, h, by rw [hnode]; exact hI'⟩

end MW.Lemmas.Ledger
