/-
  C09, HISTORY-LEVEL REFINEMENT, the RECEIVE step: `recvTx` (the unconfirmed path of filterTx) refines the
  specification's `onRecv` under the abstraction relation `PendRel`.

    fetchTx_isSome        the node finds a transaction iff it is on the node's chain
    filterIns_recv        the TxIn loop of an unconfirmed transaction: the only error is a missing parent
                          (not readable); otherwise it records exactly whether an owned coin is spent
    filterTxRel_recv      filterTx on a non-coinbase transaction = relevant ∧ readable (up to the mempool
                          policy error `bothBinding`)
    addRelevantUnmined_succeeds   the insert of a NEW transaction without credit residue cannot fail
    recv_step             the refinement step
-/
import MW.Lemmas.PendHistDefs
import MW.Lemmas.PendHistTrace
import MW.Lemmas.LedgerPendingInv
namespace MW.Lemmas.PendHist
open MW MW.Model.Ledger MW.Spec.Pending MW.Lemmas.LedgerPending
open MW.Lemmas.Ledger MW.Spec.Books

-- ------------------------------------------------------------------ (R1) node lookups

/-- the node finds a transaction iff it is on the node's chain -/
theorem fetchTx_isSome (n : Node) (id : TxId) : (n.fetchTx id).isSome = onChain n.chain id := by
  rw [Bool.eq_iff_iff, onChain_iff]
  unfold Node.fetchTx
  rw [List.findSome?_isSome_iff]
  simp only [List.mem_reverse, List.find?_isSome, decide_eq_true_eq]

/-- where the parent of an input of an unconfirmed transaction comes from: the node, else the pending set -/
theorem prevOf_recv (c : Ctx) (s : Store) (id : TxId) :
    prevOf c s false [] id =
      match c.node.fetchTx id with
      | some t => .found t
      | none => match AMap.get s.pending id with
        | some t => .found t
        | none => .missing := by
  unfold prevOf
  simp only [Bool.false_eq_true, if_false, Bool.false_and]
  cases c.node.fetchTx id with
  | some t => rfl
  | none => cases AMap.get s.pending id <;> rfl

theorem ownedOut_eq (e : Env) (o : Out) : ownedOut e o = (ownerOf e.own o).isSome := by
  unfold ownedOut ownerOf
  by_cases hr : o.cls = .raw <;> simp [hr]

/-- the specification's "this input spends an owned coin" -/
def inOwned (e : Env) (i : Inp) : Bool :=
  match prevOut e i with
  | some o => ownedOut e o
  | none => false

/-- the specification's "this parent can be looked up" -/
def inReadable (node : List Block) (P : List Tx) (i : Inp) : Bool := onChain node i.tx || hasId P i.tx

theorem relevant_eq (e : Env) (t : Tx) :
    relevant e t = (t.outs.any (ownedOut e) || (!t.cb && t.ins.any (inOwned e))) := rfl

theorem readable_eq (node : List Block) (P : List Tx) (t : Tx) :
    readable node P t = t.ins.all (inReadable node P) := rfl

-- ------------------------------------------------------------------ (R2) the TxIn loop

section loop
variable {rank : TxId → Nat} {e : Env} {ctx : Ctx} {s : Store} {P : List Tx} {ready : List Wid}

/-- the loop body once the parent is found -/
theorem filterIn_found_recv (hown : e.own = ctx.own) (hready : AllReady ctx.own ready)
    {tr : TxRec} {k : Nat} {i : Inp} {p : Tx} (hp : prevOf ctx s false [] i.tx = .found p)
    (hsrc : e.src i.tx = some p) (hidx : i.idx < p.outs.length) :
    ∃ tr', filterIn ctx s false [] ready tr k i = .ok tr' ∧ tr'.tx = tr.tx ∧ tr'.relOut = tr.relOut ∧
      tr'.relIn.isEmpty = (tr.relIn.isEmpty && !inOwned e i) := by
  have ho : p.outs[i.idx]? = some p.outs[i.idx] := List.getElem?_eq_getElem hidx
  have hprev : prevOut e i = some p.outs[i.idx] := by
    unfold prevOut; rw [hsrc]; exact ho
  have hin : inOwned e i = (ownerOf ctx.own p.outs[i.idx]).isSome := by
    unfold inOwned; rw [hprev]; simp only; rw [ownedOut_eq, hown]
  rw [filterIn_found hp ho, hin]
  cases hw : ownerOf ctx.own p.outs[i.idx] with
  | none => exact ⟨tr, rfl, rfl, rfl, by simp⟩
  | some wc =>
    obtain ⟨w, ch⟩ := wc
    simp only [ready_of_owner hready hw, if_true]
    exact ⟨_, rfl, rfl, rfl, by simp⟩

/-- the loop body: the only error is a missing parent -/
theorem filterIn_recv (hrel : PendRel rank s P) (hown : e.own = ctx.own) (hready : AllReady ctx.own ready)
    (tr : TxRec) (k : Nat) (i : Inp)
    (hsrc : ∀ p, (ctx.node.fetchTx i.tx = some p ∨ AMap.get s.pending i.tx = some p) → e.src i.tx = some p)
    (hidx : ∀ p, e.src i.tx = some p → i.idx < p.outs.length) :
    (filterIn ctx s false [] ready tr k i = .error .invalidTx ∧ inReadable ctx.node.chain P i = false) ∨
    (inReadable ctx.node.chain P i = true ∧
      ∃ tr', filterIn ctx s false [] ready tr k i = .ok tr' ∧ tr'.tx = tr.tx ∧ tr'.relOut = tr.relOut ∧
        tr'.relIn.isEmpty = (tr.relIn.isEmpty && !inOwned e i)) := by
  have hp := prevOf_recv ctx s i.tx
  have hn := fetchTx_isSome ctx.node i.tx
  have hh := hrel.hasId i.tx
  cases hf : ctx.node.fetchTx i.tx with
  | some p =>
    rw [hf] at hp hn
    right
    refine ⟨?_, filterIn_found_recv hown hready hp (hsrc p (Or.inl hf)) (hidx p (hsrc p (Or.inl hf)))⟩
    unfold inReadable; rw [← hn]; rfl
  | none =>
    rw [hf] at hp hn
    cases hg : AMap.get s.pending i.tx with
    | some p =>
      rw [hg] at hp hh
      right
      refine ⟨?_, filterIn_found_recv hown hready hp (hsrc p (Or.inr hg)) (hidx p (hsrc p (Or.inr hg)))⟩
      unfold inReadable; rw [hh]; simp
    | none =>
      rw [hg] at hp hh
      left
      refine ⟨?_, ?_⟩
      · unfold filterIn; rw [hp]; rfl
      · unfold inReadable; rw [hh, ← hn]; rfl

/-- (R2) the TxIn loop of an unconfirmed transaction -/
theorem filterIns_recv (hrel : PendRel rank s P) (hown : e.own = ctx.own) (hready : AllReady ctx.own ready)
    (ins : List Inp)
    (hsrc : ∀ i ∈ ins, ∀ p, (ctx.node.fetchTx i.tx = some p ∨ AMap.get s.pending i.tx = some p) →
      e.src i.tx = some p)
    (hidx : ∀ i ∈ ins, ∀ p, e.src i.tx = some p → i.idx < p.outs.length) :
    ∀ (k : Nat) (tr0 : TxRec),
      (foldIdxM (filterIn ctx s false [] ready) ins k tr0 = .error .invalidTx ∧
        ∃ i ∈ ins, inReadable ctx.node.chain P i = false) ∨
      (∃ tr', foldIdxM (filterIn ctx s false [] ready) ins k tr0 = .ok tr' ∧
        (∀ i ∈ ins, inReadable ctx.node.chain P i = true) ∧ tr'.tx = tr0.tx ∧ tr'.relOut = tr0.relOut ∧
        tr'.relIn.isEmpty = (tr0.relIn.isEmpty && !ins.any (inOwned e))) := by
  induction ins with
  | nil =>
    intro k tr0
    right
    exact ⟨tr0, rfl, (fun _ h => by cases h), rfl, rfl, by simp⟩
  | cons i ins ih =>
    intro k tr0
    have ih' := ih (fun j hj => hsrc j (List.mem_cons_of_mem _ hj)) (fun j hj => hidx j (List.mem_cons_of_mem _ hj))
    rw [foldIdxM_cons]
    rcases filterIn_recv hrel hown hready tr0 k i (hsrc i (List.mem_cons_self ..)) (hidx i (List.mem_cons_self ..)) with
      ⟨hE, hr⟩ | ⟨hr, tr1, hE, h1, h2, h3⟩
    · left
      rw [hE]
      exact ⟨rfl, i, List.mem_cons_self .., hr⟩
    · rw [hE, M_ok_bind]
      rcases ih' (k + 1) tr1 with ⟨hE', j, hj, hjr⟩ | ⟨tr', hE', hall, g1, g2, g3⟩
      · left
        exact ⟨hE', j, List.mem_cons_of_mem _ hj, hjr⟩
      · right
        refine ⟨tr', hE', ?_, g1.trans h1, g2.trans h2, ?_⟩
        · intro j hj
          rcases List.mem_cons.1 hj with rfl | hj
          · exact hr
          · exact hall j hj
        · rw [g3, h3, List.any_cons, Bool.not_or, Bool.and_assoc]

end loop

-- ------------------------------------------------------------------ (R3) the TxOut loop, one transaction

theorem ownedOut_any (e : Env) (own : Own) (hown : e.own = own) (os : List Out) :
    os.any (ownedOut e) = os.any (fun o => (ownerOf own o).isSome) := by
  congr 1; funext o; rw [ownedOut_eq, hown]

/-- the indexes of the relevant outputs are output positions: increasing from `j` -/
theorem ownedFrom_index_ge (own : Own) (os : List Out) : ∀ (j : Nat), ∀ rel ∈ ownedFrom own os j, j ≤ rel.index := by
  induction os with
  | nil => intro j rel h; cases h
  | cons o os ih =>
    intro j rel h
    cases ho : ownerOf own o with
    | none =>
      rw [ownedFrom_cons_none ho] at h
      exact Nat.le_of_succ_le (ih (j + 1) rel h)
    | some wc =>
      obtain ⟨w, ch⟩ := wc
      rw [ownedFrom_cons_some ho] at h
      rcases List.mem_cons.1 h with rfl | h
      · exact Nat.le_refl _
      · exact Nat.le_of_succ_le (ih (j + 1) rel h)

/-- … hence pairwise distinct -/
theorem ownedFrom_nodup (own : Own) (os : List Out) : ∀ (j : Nat), ((ownedFrom own os j).map (·.index)).Nodup := by
  induction os with
  | nil => intro j; exact List.nodup_nil
  | cons o os ih =>
    intro j
    cases ho : ownerOf own o with
    | none => rw [ownedFrom_cons_none ho]; exact ih (j + 1)
    | some wc =>
      obtain ⟨w, ch⟩ := wc
      rw [ownedFrom_cons_some ho, List.map_cons, List.nodup_cons]
      refine ⟨?_, ih (j + 1)⟩
      intro hm
      obtain ⟨rel, hrel, hidx⟩ := List.mem_map.1 hm
      have := ownedFrom_index_ge own os (j + 1) rel hrel
      simp only at hidx
      omega

section one
variable {rank : TxId → Nat} {e : Env} {ctx : Ctx} {s : Store} {P : List Tx} {ready : List Wid}

/-- filterTx on an unconfirmed NON-COINBASE transaction: an error is the mempool policy or a missing parent,
    "not relevant" and "relevant" are the specification's -/
theorem filterTxRel_recv (hrel : PendRel rank s P) (hown : e.own = ctx.own) (hready : AllReady ctx.own ready)
    (t : Tx) (hcb : t.cb = false)
    (hsrc : ∀ i ∈ t.ins, ∀ p, (ctx.node.fetchTx i.tx = some p ∨ AMap.get s.pending i.tx = some p) →
      e.src i.tx = some p)
    (hidx : ∀ i ∈ t.ins, ∀ p, e.src i.tx = some p → i.idx < p.outs.length) :
    (∃ err, filterTxRel ctx s t false [] ready = .error err ∧
      (err = .bothBinding ∨ readable ctx.node.chain P t = false)) ∨
    (filterTxRel ctx s t false [] ready = .ok none ∧ relevant e t = false) ∨
    (∃ tr, filterTxRel ctx s t false [] ready = .ok (some tr) ∧ relevant e t = true ∧
      readable ctx.node.chain P t = true ∧ tr.tx = t ∧ tr.relOut = ownedFrom ctx.own t.outs 0) := by
  rw [filterTxRel_eq, hcb]
  simp only [Bool.false_eq_true, if_false]
  rcases filterIns_recv hrel hown hready t.ins hsrc hidx 0 { tx := t } with
    ⟨hE, i, hi, hr⟩ | ⟨tr', hE, hall, htx, hro, hri⟩
  · rw [hE]
    left
    refine ⟨.invalidTx, rfl, Or.inr ?_⟩
    rw [readable_eq, List.all_eq_false]
    exact ⟨i, hi, by rw [hr]; simp⟩
  · rw [hE, M_ok_bind]
    obtain ⟨o1, o2, o3, _⟩ := filterOuts_spec hready t.outs 0 tr'
    have hread : readable ctx.node.chain P t = true := by
      rw [readable_eq, List.all_eq_true]; exact hall
    have hI : (foldIdx (filterOut ctx ready) t.outs 0 tr').relIn.isEmpty = !t.ins.any (inOwned e) := by
      rw [o2, hri]; rfl
    have hO : (foldIdx (filterOut ctx ready) t.outs 0 tr').relOut.isEmpty = !t.outs.any (ownedOut e) := by
      rw [o1, hro, ownedOut_any e ctx.own hown]
      show ([] ++ ownedFrom ctx.own t.outs 0).isEmpty = _
      rw [List.nil_append, ownedFrom_isEmpty]
    have hrelv : relevant e t = !((foldIdx (filterOut ctx ready) t.outs 0 tr').relIn.isEmpty &&
        (foldIdx (filterOut ctx ready) t.outs 0 tr').relOut.isEmpty) := by
      rw [hI, hO, relevant_eq, hcb]
      cases t.outs.any (ownedOut e) <;> cases t.ins.any (inOwned e) <;> rfl
    by_cases h1 : ((foldIdx (filterOut ctx ready) t.outs 0 tr').relIn.isEmpty &&
        (foldIdx (filterOut ctx ready) t.outs 0 tr').relOut.isEmpty) = true
    · rw [if_pos h1]
      right; left
      exact ⟨rfl, by rw [hrelv, h1]; rfl⟩
    · rw [if_neg h1]
      by_cases h2 : ((foldIdx (filterOut ctx ready) t.outs 0 tr').hasBindingIn &&
          (foldIdx (filterOut ctx ready) t.outs 0 tr').hasBindingOut) = true
      · rw [if_pos h2]
        left
        exact ⟨_, rfl, Or.inl rfl⟩
      · rw [if_neg h2]
        right; right
        refine ⟨_, rfl, ?_, hread, o3.trans htx, ?_⟩
        · rw [hrelv, Bool.eq_false_iff.2 h1]; rfl
        · rw [o1, hro]; rfl

end one

-- ------------------------------------------------------------------ the insert cannot fail

theorem addUnminedCredit_succeeds (tr : TxRec) (s : Store) (rel : Rel)
    (h1 : AMap.get s.pendCred (tr.tx.id, rel.index) = none)
    (h2 : AMap.get s.unspent (rel.wallet, tr.tx.id, rel.index) = none) :
    addUnminedCredit tr s rel =
      .ok { s with pendCred := AMap.put s.pendCred (tr.tx.id, rel.index) (unminedCreditOf rel) } := by
  unfold addUnminedCredit
  rw [h1, h2]
  rfl

/-- the credit loop: no residue under the (pairwise distinct) output positions ⇒ no `duplicate` error -/
theorem addUnminedCredit_loop (tr : TxRec) (l : List Rel) :
    (l.map (·.index)).Nodup → ∀ (s : Store),
      (∀ rel ∈ l, AMap.get s.pendCred (tr.tx.id, rel.index) = none ∧
        AMap.get s.unspent (rel.wallet, tr.tx.id, rel.index) = none) →
      ∃ s', l.foldlM (addUnminedCredit tr) s = .ok s' := by
  induction l with
  | nil => intro _ s _; exact ⟨s, rfl⟩
  | cons x l ih =>
    intro hnd s hfree
    rw [List.map_cons, List.nodup_cons] at hnd
    obtain ⟨f1, f2⟩ := hfree x (List.mem_cons_self ..)
    rw [List.foldlM_cons, addUnminedCredit_succeeds tr s x f1 f2]
    refine ih hnd.2 _ ?_
    intro rel hrel
    obtain ⟨g1, g2⟩ := hfree rel (List.mem_cons_of_mem _ hrel)
    refine ⟨?_, g2⟩
    show AMap.get (AMap.put s.pendCred (tr.tx.id, x.index) (unminedCreditOf x)) (tr.tx.id, rel.index) = none
    rw [AMap.get_put]
    have hne : ¬ (tr.tx.id, x.index) = (tr.tx.id, rel.index) := by
      intro heq
      have : x.index = rel.index := (Prod.mk.inj heq).2
      exact hnd.1 (List.mem_map.2 ⟨rel, hrel, this.symm⟩)
    rw [if_neg hne]; exact g1

theorem addUnminedCredits_succeeds (s : Store) (tr : TxRec) (hnd : (tr.relOut.map (·.index)).Nodup)
    (hfree : ∀ rel ∈ tr.relOut, AMap.get s.pendCred (tr.tx.id, rel.index) = none ∧
      AMap.get s.unspent (rel.wallet, tr.tx.id, rel.index) = none) :
    ∃ s', addUnminedCredits s tr = .ok s' := by
  obtain ⟨s1, h1⟩ := addUnminedCredit_loop tr tr.relOut hnd s hfree
  unfold addUnminedCredits
  rw [h1]
  exact ⟨_, rfl⟩

/-- RECEIVE of a new non-coinbase transaction without credit residue succeeds -/
theorem addRelevantUnmined_succeeds (s : Store) (tr : TxRec) (hcb : tr.tx.cb = false)
    (hnew : AMap.get s.pending tr.tx.id = none) (hnd : (tr.relOut.map (·.index)).Nodup)
    (hfree : ∀ rel ∈ tr.relOut, AMap.get s.pendCred (tr.tx.id, rel.index) = none ∧
      AMap.get s.unspent (rel.wallet, tr.tx.id, rel.index) = none) :
    ∃ s', addRelevantUnmined s tr = .ok s' := by
  unfold addRelevantUnmined
  rw [hcb, hnew]
  simp only [Bool.false_eq_true, if_false, Option.isSome_none]
  split
  · exact ⟨_, rfl⟩
  · apply addUnminedCredits_succeeds _ tr hnd
    have hf := insertUnminedInputs_frame { s with pending := AMap.put s.pending tr.tx.id tr.tx } tr
    simp only [exceptIns, minedOf, Prod.mk.injEq] at hf
    obtain ⟨_, f2, _, _, f5, _⟩ := hf
    intro rel hrel
    rw [f2, f5]
    exact hfree rel hrel

/-- RECEIVE of a transaction that is already pending leaves the pending records and the spender index alone -/
theorem addRelevantUnmined_old (s s' : Store) (tr : TxRec) (h : addRelevantUnmined s tr = .ok s')
    (hold : (AMap.get s.pending tr.tx.id).isSome = true) :
    s'.pending = s.pending ∧ s'.pendIns = s.pendIns := by
  unfold addRelevantUnmined at h
  split at h
  · cases h
  · split at h
    · cases h; exact ⟨rfl, rfl⟩
    · obtain ⟨a1, _⟩ := addUnminedCredits_ok s s' tr h
      simp only [exceptCredGame, Prod.mk.injEq] at a1
      exact ⟨a1.1, a1.2.1⟩

-- ------------------------------------------------------------------ recvTx / onRecv by cases

theorem recvTx_of_mem (c : Ctx) (s : Store) (v : Vol) (t : Tx) (h : v.mempool.contains t.id = true) :
    (recvTx c s v t).1 = s := by
  unfold recvTx; rw [if_pos h]

theorem recvTx_of_error (c : Ctx) (s : Store) (v : Vol) (t : Tx) (err : Err)
    (h : filterTxRel c s t false [] (readyWallets s c.wallets) = .error err) : (recvTx c s v t).1 = s := by
  unfold recvTx; split
  · rfl
  · simp only [h]

theorem recvTx_of_none (c : Ctx) (s : Store) (v : Vol) (t : Tx)
    (h : filterTxRel c s t false [] (readyWallets s c.wallets) = .ok none) : (recvTx c s v t).1 = s := by
  unfold recvTx; split
  · rfl
  · simp only [h]

theorem recvTx_of_adderr (c : Ctx) (s : Store) (v : Vol) (t : Tx) (tr : TxRec) (err : Err)
    (h : filterTxRel c s t false [] (readyWallets s c.wallets) = .ok (some tr))
    (ha : addRelevantUnmined s tr = .error err) : (recvTx c s v t).1 = s := by
  unfold recvTx; split
  · rfl
  · simp only [h, ha]

theorem recvTx_of_addok (c : Ctx) (s : Store) (v : Vol) (t : Tx) (tr : TxRec) (s' : Store)
    (hm : ¬ v.mempool.contains t.id = true)
    (h : filterTxRel c s t false [] (readyWallets s c.wallets) = .ok (some tr))
    (ha : addRelevantUnmined s tr = .ok s') : (recvTx c s v t).1 = s' := by
  unfold recvTx; rw [if_neg hm]
  simp only [h, ha]

theorem onRecv_skip (e : Env) (node c : List Block) (P : List Tx) (t : Tx)
    (h : t.cb = true ∨ hasId P t.id = true ∨ onChain c t.id = true ∨ relevant e t = false ∨
      readable node P t = false) : onRecv e node c P t = P := by
  unfold onRecv
  rcases h with h | h | h | h | h <;> simp [h]

theorem onRecv_add (e : Env) (node c : List Block) (P : List Tx) (t : Tx)
    (h1 : t.cb = false) (h2 : hasId P t.id = false) (h3 : onChain c t.id = false) (h4 : relevant e t = true)
    (h5 : readable node P t = true) : onRecv e node c P t = P ++ [t] := by
  unfold onRecv
  simp [h1, h2, h3, h4, h5]

/-- the abstraction relation after the insert of a new transaction -/
theorem pendRel_add {rank : TxId → Nat} {s s' : Store} {P : List Tx} (hrel : PendRel rank s P) (t : Tx)
    (hwf : PendWF rank s') (hp : s'.pending = AMap.put s.pending t.id t) (hnew : hasId P t.id = false) :
    PendRel rank s' (P ++ [t]) := by
  rw [hasId_false_iff] at hnew
  refine ⟨hwf, ?_, ?_⟩
  · intro id u
    rw [hp, AMap.get_put, List.mem_append, List.mem_singleton]
    by_cases hid : t.id = id
    · rw [if_pos hid]
      constructor
      · intro h; cases h; exact ⟨Or.inr rfl, hid⟩
      · rintro ⟨hu | hu, hi⟩
        · exact absurd (hi.trans hid.symm) (hnew u hu)
        · rw [hu]
    · rw [if_neg hid, hrel.ids id u]
      constructor
      · rintro ⟨hu, hi⟩; exact ⟨Or.inl hu, hi⟩
      · rintro ⟨hu | hu, hi⟩
        · exact ⟨hu, hi⟩
        · rw [hu] at hi; exact absurd hi hid
  · rw [List.map_append, List.nodup_append]
    refine ⟨hrel.nodup, by simp, ?_⟩
    intro a ha b hb
    obtain ⟨u, hu, rfl⟩ := List.mem_map.1 ha
    simp only [List.map_cons, List.map_nil, List.mem_singleton] at hb
    rw [hb]; exact hnew u hu

-- ------------------------------------------------------------------ THE RECEIVE STEP

/-- DOMAIN of a receive step -/
structure RecvOK (rank : TxId → Nat) (e : Env) (ctx : Ctx) (s : Store) (v : Vol) (c : List Block) (P : List Tx)
    (t : Tx) : Prop where
  /-- the spec's keystore view is the model's, and every owner is a ready wallet -/
  own : e.own = ctx.own
  ready : ∀ a w ch, AMap.get ctx.own a = some (w, ch) → (readyWallets s ctx.wallets).contains w = true
  /-- ids determine transactions: what the node / the pending set return for an input is `e.src` -/
  src : ∀ i ∈ t.ins, ∀ p, (ctx.node.fetchTx i.tx = some p ∨ AMap.get s.pending i.tx = some p) → e.src i.tx = some p
  /-- inputs spend existing outputs -/
  idx : ∀ i ∈ t.ins, ∀ p, e.src i.tx = some p → i.idx < p.outs.length
  rank : ∀ i ∈ t.ins, rank i.tx < rank t.id
  /-- mempool policy: not both a relevant binding input and a relevant binding output -/
  nobb : filterTxRel ctx s t false [] (readyWallets s ctx.wallets) ≠ .error .bothBinding
  /-- no re-delivery of a transaction that vanished: what the follower has seen is pending or confirmed -/
  seen : v.mempool.contains t.id = true → hasId P t.id = true ∨ onChain c t.id = true
  /-- a transaction the follower has not seen and that is not pending is not on the wallet's chain -/
  fresh : v.mempool.contains t.id = false → hasId P t.id = false → onChain c t.id = false
  /-- no residue: nothing of a transaction that is neither pending nor confirmed in the credit buckets -/
  nocred : hasId P t.id = false → onChain c t.id = false →
    (∀ j, AMap.get s.pendCred (t.id, j) = none) ∧ (∀ w j, AMap.get s.unspent (w, t.id, j) = none)

/-- RECEIVE refines `onRecv` -/
theorem recv_step (rank : TxId → Nat) (e : Env) (ctx : Ctx) (s : Store) (v : Vol) (c : List Block) (P : List Tx)
    (t : Tx) (hrel : PendRel rank s P) (hok : RecvOK rank e ctx s v c P t) :
    PendRel rank (recvTx ctx s v t).1 (onRecv e ctx.node.chain c P t) := by
  have hready : AllReady ctx.own (readyWallets s ctx.wallets) := hok.ready
  by_cases hm : v.mempool.contains t.id = true
  · -- A. already seen
    rw [recvTx_of_mem ctx s v t hm, onRecv_skip e _ c P t (by rcases hok.seen hm with h | h <;> simp [h])]
    exact hrel
  · by_cases hcb : t.cb = true
    · -- a coinbase is never accepted
      rw [onRecv_skip e _ c P t (Or.inl hcb)]
      cases hf : filterTxRel ctx s t false [] (readyWallets s ctx.wallets) with
      | error err => rw [recvTx_of_error ctx s v t err hf]; exact hrel
      | ok r =>
        cases r with
        | none => rw [recvTx_of_none ctx s v t hf]; exact hrel
        | some tr =>
          have htx := filterTxRel_tx ctx s t false [] _ tr hf
          have ha : addRelevantUnmined s tr = .error (.other "coinbase unmined") := by
            unfold addRelevantUnmined; rw [htx, if_pos hcb]; rfl
          rw [recvTx_of_adderr ctx s v t tr _ hf ha]; exact hrel
    · have hcb' : t.cb = false := by cases h : t.cb <;> simp_all
      rcases filterTxRel_recv hrel hok.own hready t hcb' hok.src hok.idx with
        ⟨err, hf, herr⟩ | ⟨hf, hnr⟩ | ⟨tr, hf, hr1, hr2, htx, hro⟩
      · -- error: a missing parent
        rw [recvTx_of_error ctx s v t err hf]
        rcases herr with herr | herr
        · rw [herr] at hf; exact absurd hf hok.nobb
        · rw [onRecv_skip e _ c P t (Or.inr (Or.inr (Or.inr (Or.inr herr))))]; exact hrel
      · -- not relevant
        rw [recvTx_of_none ctx s v t hf, onRecv_skip e _ c P t (Or.inr (Or.inr (Or.inr (Or.inl hnr))))]
        exact hrel
      · -- relevant and readable
        by_cases hp : hasId P t.id = true
        · -- already pending
          rw [onRecv_skip e _ c P t (Or.inr (Or.inl hp))]
          cases ha : addRelevantUnmined s tr with
          | error err => rw [recvTx_of_adderr ctx s v t tr err hf ha]; exact hrel
          | ok s' =>
            rw [recvTx_of_addok ctx s v t tr s' hm hf ha]
            have hold : (AMap.get s.pending tr.tx.id).isSome = true := by
              rw [htx, ← hrel.hasId]; exact hp
            obtain ⟨a1, a2⟩ := addRelevantUnmined_old s s' tr ha hold
            exact hrel.congr a1 a2
        · -- new
          have hp' : hasId P t.id = false := by cases h : hasId P t.id <;> simp_all
          have hm' : v.mempool.contains t.id = false := by cases h : v.mempool.contains t.id <;> simp_all
          have hc : onChain c t.id = false := hok.fresh hm' hp'
          obtain ⟨n1, n2⟩ := hok.nocred hp' hc
          have hnew : AMap.get s.pending tr.tx.id = none := by
            have := hrel.hasId t.id
            rw [hp'] at this
            rw [htx]
            cases hg : AMap.get s.pending t.id with
            | none => rfl
            | some u => rw [hg] at this; cases this
          obtain ⟨s', ha⟩ := addRelevantUnmined_succeeds s tr (by rw [htx]; exact hcb') hnew
            (by rw [hro]; exact ownedFrom_nodup ctx.own t.outs 0)
            (fun rel _ => by rw [htx]; exact ⟨n1 _, n2 _ _⟩)
          rw [recvTx_of_addok ctx s v t tr s' hm hf ha, onRecv_add e _ c P t hcb' hp' hc hr1 hr2]
          have hwf : PendWF rank s' :=
            addRelevantUnmined_wf rank s s' tr hrel.wf ha hnew (by rw [htx]; exact hok.rank)
          obtain ⟨b1, _⟩ := addRelevantUnmined_new s s' tr ha hnew
          rw [htx] at b1
          exact pendRel_add hrel t hwf b1 hp'

end MW.Lemmas.PendHist

