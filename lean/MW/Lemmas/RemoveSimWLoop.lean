/-
  C08, reorganisations BELOW the floor between two removal steps — the DISCONNECT LOOPS of `reorg` (disconnectDown,
  walkBack, reorgDisconnect) run on the ghost store and on the real store side by side, any number of blocks.

  The loops branch on heights, on the synced-to table and on the node's block files only, never on a mined bucket, so
  two successful runs stay in lock step; every `disconnectBlock` pair is one application of `disconnectBlock_rel`.
  Generic part: a ghost-side invariant `J g k` ("the ghost store follows the chain up to height `k`"), a relation `Rel`
  with its one-block step.  Instance: `Rel g s = SubW w addrs g s ∧ Reach s`.
  (The abstract loop lemmas of `MW.Lemmas.ImportReorg` / `ImportReorgF` are of the form "the run succeeds"; here the
  success of the real run is a hypothesis — `irun … = some x` — so the two-run form is proved directly.)
-/
import MW.Lemmas.RemoveSimWRb
namespace MW.Lemmas.RemoveSimW
open MW MW.Model.Ledger MW.Model.Remove MW.Lemmas.Ledger MW.Lemmas.LedgerWFCred MW.Lemmas.RemoveSim MW.Lemmas.RemoveKeep

/-- what the two-run loop lemmas need -/
structure LoopIface (c : Ctx) (J : Store → Nat → Prop) (Rel : Store → Store → Prop) : Prop where
  sync : ∀ {g s : Store}, Rel g s → s.sync = g.sync
  ghost : ∀ {g g' : Store} {k : Nat}, 0 < k → J g k → disconnectBlock c g k = .ok g' → J g' (k - 1)
  step : ∀ {g s g' s' : Store} {k : Nat}, 0 < k → J g k → Rel g s → disconnectBlock c g k = .ok g' →
    disconnectBlock c s k = .ok s' → J g' (k - 1) → Rel g' s'

section loops
variable {c : Ctx} {J : Store → Nat → Prop} {Rel : Store → Store → Prop}

theorem disconnectDown_rel (H : LoopIface c J Rel) (nbH : Nat) :
    ∀ (fuel : Nat) (g s : Store) (curH : Nat) (rolled : List Nat) (rg rs : Store × Nat × List Nat),
      J g curH → Rel g s → disconnectDown c nbH fuel g curH rolled = .ok rg →
      disconnectDown c nbH fuel s curH rolled = .ok rs → Rel rg.1 rs.1 ∧ rs.2 = rg.2 ∧ J rg.1 rg.2.1 := by
  intro fuel
  induction fuel with
  | zero =>
    intro g s curH rolled rg rs hJ hR hg hs
    unfold disconnectDown at hg hs
    cases hg; cases hs
    exact ⟨hR, rfl, hJ⟩
  | succ fuel ih =>
    intro g s curH rolled rg rs hJ hR hg hs
    unfold disconnectDown at hg hs
    by_cases hgt : curH > nbH
    · rw [if_pos hgt] at hg hs
      obtain ⟨g1, h1, h2⟩ := M_bind_ok hg
      obtain ⟨s1, k1, k2⟩ := M_bind_ok hs
      have hpos : 0 < curH := by omega
      have hJ1 := H.ghost hpos hJ h1
      exact ih g1 s1 (curH - 1) (rolled ++ [curH]) rg rs hJ1 (H.step hpos hJ hR h1 k1 hJ1) h2 k2
    · rw [if_neg hgt] at hg hs
      cases hg; cases hs
      exact ⟨hR, rfl, hJ⟩

/-- the two walks agree on everything but the store -/
def WalkEq (gw sw : Walk) : Prop :=
  sw.prevH = gw.prevH ∧ sw.prevHash = gw.prevHash ∧ sw.tail = gw.tail ∧ sw.tc = gw.tc ∧ sw.rolled = gw.rolled

theorem walkBack_rel (H : LoopIface c J Rel) :
    ∀ (fuel : Nat) (gw sw : Walk) (rg rs : Walk × Bool),
      J gw.s (gw.prevH + 1) → Rel gw.s sw.s → WalkEq gw sw → walkBack c fuel gw = .ok rg → walkBack c fuel sw = .ok rs →
      Rel rg.1.s rs.1.s ∧ WalkEq rg.1 rs.1 ∧ rs.2 = rg.2 ∧ J rg.1.s (rg.1.prevH + 1) := by
  intro fuel
  induction fuel with
  | zero =>
    intro gw sw rg rs hJ hR hE hg hs
    unfold walkBack at hg hs
    cases hg; cases hs
    exact ⟨hR, hE, rfl, hJ⟩
  | succ fuel ih =>
    intro gw sw rg rs hJ hR hE hg hs
    obtain ⟨e1, e2, e3, e4, e5⟩ := hE
    unfold walkBack at hg hs
    rw [e1, e2, e3] at hs
    by_cases hne : gw.tail.prev ≠ gw.prevHash
    · rw [if_pos hne] at hg hs
      obtain ⟨g1, h1, h2⟩ := M_bind_ok hg
      obtain ⟨s1, k1, k2⟩ := M_bind_ok hs
      have hJ1 := H.ghost (Nat.succ_pos _) hJ h1
      have hR1 := H.step (Nat.succ_pos _) hJ hR h1 k1 hJ1
      by_cases h0 : gw.prevH = 0
      · rw [if_pos h0] at h2; cases h2
      · rw [if_neg h0] at h2 k2
        rw [H.sync hR1] at k2
        cases hsy : AMap.get g1.sync (gw.prevH - 1) with
        | none => rw [hsy] at h2; cases h2
        | some ph' =>
          rw [hsy] at h2 k2
          dsimp only at h2 k2
          cases hf : c.node.fetchBlock gw.tail.prev with
          | none => rw [hf] at h2; cases h2
          | some pb =>
            rw [hf] at h2 k2
            dsimp only at h2 k2
            rw [e4, e5] at k2
            refine ih { s := g1, prevH := gw.prevH - 1, prevHash := ph', tail := pb, tc := gw.tail :: gw.tc,
                        rolled := gw.rolled ++ [gw.prevH + 1] }
              { s := s1, prevH := gw.prevH - 1, prevHash := ph', tail := pb, tc := gw.tail :: gw.tc,
                rolled := gw.rolled ++ [gw.prevH + 1] } rg rs ?_ hR1 ⟨rfl, rfl, rfl, rfl, rfl⟩ h2 k2
            show J g1 (gw.prevH - 1 + 1)
            rw [show gw.prevH - 1 + 1 = gw.prevH + 1 - 1 by omega]
            exact hJ1
    · rw [if_neg hne] at hg hs
      cases hg; cases hs
      exact ⟨hR, ⟨e1, e2, e3, e4, e5⟩, rfl, hJ⟩

/-- reorg step 2 on both stores: any number of disconnected blocks -/
theorem reorgDisconnect_rel (H : LoopIface c J Rel) {g s : Store} {best : BlockMeta} {nb : Block} {tc : List Block}
    {rg rs : Store × List Nat × List Block}
    (hJ : J g best.height) (hR : Rel g s)
    (hg : reorgDisconnect c g best nb tc = .ok rg) (hs : reorgDisconnect c s best nb tc = .ok rs) :
    Rel rg.1 rs.1 ∧ rs.2 = rg.2 := by
  unfold reorgDisconnect at hg hs
  by_cases hb : best.hash = nb.id
  · rw [if_pos hb] at hg hs
    cases hg; cases hs
    exact ⟨hR, rfl⟩
  · rw [if_neg hb] at hg hs
    obtain ⟨r1, h1, h2⟩ := M_bind_ok hg
    obtain ⟨q1, k1, k2⟩ := M_bind_ok hs
    obtain ⟨hR1, he, hJ1⟩ := disconnectDown_rel H nb.height _ _ _ _ _ r1 q1 hJ hR h1 k1
    obtain ⟨g1, curH, rolled⟩ := r1
    obtain ⟨s1, curH', rolled'⟩ := q1
    simp only [Prod.mk.injEq] at he
    obtain ⟨he1, he2⟩ := he
    subst he1; subst he2
    dsimp only at h2 k2 hR1 hJ1
    rw [H.sync hR1] at k2
    cases hsy : AMap.get g1.sync curH' with
    | none => rw [hsy] at h2; cases h2
    | some bh =>
      rw [hsy] at h2 k2
      dsimp only at h2 k2
      by_cases hbn : bh = nb.id
      · rw [if_pos hbn] at h2 k2
        cases h2; cases k2
        exact ⟨hR1, rfl⟩
      · rw [if_neg hbn] at h2 k2
        by_cases hc0 : curH' = 0
        · rw [if_pos hc0] at h2; cases h2
        · rw [if_neg hc0] at h2 k2
          cases hsy2 : AMap.get g1.sync (curH' - 1) with
          | none => rw [hsy2] at h2; cases h2
          | some ph =>
            rw [hsy2] at h2 k2
            dsimp only at h2 k2
            obtain ⟨wg, h3, h4⟩ := M_bind_ok h2
            obtain ⟨ws, k3, k4⟩ := M_bind_ok k2
            obtain ⟨hR2, hE2, hd, hJ2⟩ := walkBack_rel H _
              { s := g1, prevH := curH' - 1, prevHash := ph, tail := nb, tc := tc, rolled := rolled' }
              { s := s1, prevH := curH' - 1, prevHash := ph, tail := nb, tc := tc, rolled := rolled' } wg ws
              (by show J g1 (curH' - 1 + 1); rw [show curH' - 1 + 1 = curH' by omega]; exact hJ1)
              hR1 ⟨rfl, rfl, rfl, rfl, rfl⟩ h3 k3
            obtain ⟨gw, gd⟩ := wg
            obtain ⟨sw, sd⟩ := ws
            dsimp only at hR2 hE2 hd hJ2 h4 k4
            obtain ⟨e1, e2, e3, e4, e5⟩ := hE2
            cases gd with
            | false => cases h4
            | true =>
              rw [hd] at k4
              simp only [Bool.not_true, Bool.false_eq_true, if_false] at h4 k4
              obtain ⟨g3, h5, h6⟩ := M_bind_ok h4
              obtain ⟨s3, k5, k6⟩ := M_bind_ok k4
              rw [e1] at k5
              have hJ3 := H.ghost (Nat.succ_pos _) hJ2 h5
              have hR3 := H.step (Nat.succ_pos _) hJ2 hR2 h5 k5 hJ3
              cases h6; cases k6
              refine ⟨hR3, ?_⟩
              rw [e1, e3, e4, e5]

end loops

-- ------------------------------------------------------------------ the instance

/-- the loop interface for `SubW` + `Reach`: the ghost-side invariant `J` supplies, at every height, the ghost's tip
    height, `GhostCV` and `Reach` -/
theorem loopIface_subW {c : Ctx} {w : Wid} {addrs : List Addr} {J : Store → Nat → Prop} (hOwn : OwnW c w addrs)
    (hJs : ∀ g k, J g k → g.syncedTo = k ∧ GhostCV c g ∧ Reach g)
    (hJd : ∀ g g' k, 0 < k → J g k → disconnectBlock c g k = .ok g' → J g' (k - 1)) :
    LoopIface c J (fun g s => SubW w addrs g s ∧ Reach s) where
  sync := fun h => h.1.sync
  ghost := fun hk hJ hd => hJd _ _ _ hk hJ hd
  step := by
    intro g s g' s' k _ hJ hR hg hs hJ'
    obtain ⟨h1, h2, _⟩ := hJs g k hJ
    obtain ⟨q1, q2⟩ := disconnectBlock_rel hOwn hR.1 hR.2 h2 h1 hg hs
    exact ⟨q1, q2 (hJs g' _ hJ').2.2⟩

/-- **reorg step 2 below the floor, any number of blocks**: if `reorgDisconnect` succeeds on the ghost store and on
    the real store, the results are related by `SubW` again, `Reach` holds of the real one, and the rolled-back heights
    and the blocks to connect are the same. -/
theorem reorgDisconnect_subW {c : Ctx} {w : Wid} {addrs : List Addr} {J : Store → Nat → Prop} (hOwn : OwnW c w addrs)
    (hJs : ∀ g k, J g k → g.syncedTo = k ∧ GhostCV c g ∧ Reach g)
    (hJd : ∀ g g' k, 0 < k → J g k → disconnectBlock c g k = .ok g' → J g' (k - 1))
    {g s : Store} {best : BlockMeta} {nb : Block} {tc : List Block} {rg rs : Store × List Nat × List Block}
    (hJ : J g best.height) (hSub : SubW w addrs g s) (hR : Reach s)
    (hg : reorgDisconnect c g best nb tc = .ok rg) (hs : reorgDisconnect c s best nb tc = .ok rs) :
    SubW w addrs rg.1 rs.1 ∧ Reach rs.1 ∧ rs.2 = rg.2 := by
  obtain ⟨⟨h1, h2⟩, h3⟩ := reorgDisconnect_rel (loopIface_subW hOwn hJs hJd) hJ ⟨hSub, hR⟩ hg hs
  exact ⟨h1, h2, h3⟩

end MW.Lemmas.RemoveSimW
