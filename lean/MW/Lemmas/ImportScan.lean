/-
  C07 stage 1, block level: the rescan's fold over the planned items of ONE block refines the fold of `applyOcc`
  over ALL transactions of that block (the items the node's index does not list, and the listed ones the filter
  skips, do not touch the books).  Setting: every address of the keystore table belongs to the restored wallet.
-/
import MW.Lemmas.ImportRecords
import MW.Lemmas.ImportLive
import MW.Lemmas.LedgerConnect
import MW.Lemmas.LedgerWF
namespace MW.Lemmas.ImportExact
open MW MW.Model.Ledger MW.Model.Import MW.Spec.Chain MW.Spec.Books MW.Lemmas.Ledger

theorem mem_managed {own : Own} {w : Wid} {a : Addr} {ch : Bool} (h : AMap.get own a = some (w, ch)) :
    (managed own w).contains a = true := by
  unfold AMap.get at h
  cases hf : own.find? (fun e => e.1 = a) with
  | none => rw [hf] at h; cases h
  | some e =>
    rw [hf] at h
    have hm := List.mem_of_find?_eq_some hf
    have he : e.1 = a := by simpa using List.find?_some hf
    simp only [Option.map_some, Option.some.injEq] at h
    rw [List.contains_iff_mem]
    unfold managed
    rw [List.mem_filterMap]
    exact ⟨e, hm, by simp [h, he]⟩

/-- the node's script-hash index lists every transaction that touches the books of the restored keystore -/
theorem index_complete {n : Node} {own : Own} {w : Wid} (hAR : AllReady own [w]) {P : List Occ} {B : Book}
    (hG : Glob own P B) {oc : Occ} {height : Nat}
    (hNode : ∀ oc' ∈ P, fetchTxUntil n oc'.t.id height = some oc'.t)
    (ht : Spec.Books.touches own B oc.t = true) : Model.Import.touches n (managed own w) height oc.t = true := by
  unfold Spec.Books.touches at ht
  unfold Model.Import.touches
  rw [Bool.or_eq_true] at ht ⊢
  rcases ht with ht | ht
  · right
    rw [Bool.and_eq_true] at ht ⊢
    refine ⟨ht.1, ?_⟩
    rw [List.any_eq_true] at *
    obtain ⟨i, hi, hl⟩ := ht.2
    obtain ⟨u, hu⟩ := Option.isSome_iff_exists.1 hl
    obtain ⟨hs1, hs2⟩ := glob_lookup_src' hG hu
    obtain ⟨oc', hoc', hid, hget⟩ := srcOut_some_find hs1
    refine ⟨i, hi, ?_⟩
    have := hNode oc' hoc'
    rw [hid] at this
    simp only [this, hget]
    unfold ownerOf at hs2
    by_cases hr : u.out.cls = Cls.raw
    · simp [hr] at hs2
    · simp only [hr, if_false] at hs2
      have hw := owner_is_w hAR hs2
      rw [hw] at hs2
      exact mem_managed hs2
  · left
    rw [List.any_eq_true] at *
    obtain ⟨o, ho, hl⟩ := ht
    obtain ⟨x, hx⟩ := Option.isSome_iff_exists.1 hl
    obtain ⟨w', ch⟩ := x
    refine ⟨o, ho, ?_⟩
    unfold ownerOf at hx
    by_cases hr : o.cls = Cls.raw
    · simp [hr] at hx
    · simp only [hr, if_false] at hx
      have hw := owner_is_w hAR hx
      rw [hw] at hx
      exact mem_managed hx

theorem applyItem_skip {c : Ctx} {w : Wid} {acc : Store × Bals} {it : Item}
    (h : filterTxForImporting c.node w c.own it.tx it.blk.height = .ok none) : applyItem c w acc it = .ok acc := by
  unfold applyItem
  simp only [h, bind, Except.bind]
  rfl

theorem applyItem_some {c : Ctx} {w : Wid} {acc : Store × Bals} {it : Item} {tr : TxRec} {r : Store × Bals}
    (h : filterTxForImporting c.node w c.own it.tx it.blk.height = .ok (some tr))
    (ha : addRelevantTxForImporting c.p c.own acc.1 acc.2 { tr with loc := (it.blk.hash, it.pos) } it.blk = .ok r) :
    applyItem c w acc it = .ok r := by
  unfold applyItem
  simp only [h, bind, Except.bind, ha]
  rfl

/-- the planned items of one block: the indexed transactions with their positions -/
def itemsOf (c : Ctx) (w : Wid) (bm : BlockMeta) (txs : List Tx) (k : Nat) : List Item :=
  ((txs.zipIdx k).filter (fun q => Model.Import.touches c.node (managed c.own w) bm.height q.1)).map
    (fun q => ⟨bm, q.2, q.1⟩)

theorem itemsOf_cons (c : Ctx) (w : Wid) (bm : BlockMeta) (tx : Tx) (txs : List Tx) (k : Nat) :
    itemsOf c w bm (tx :: txs) k =
      (if Model.Import.touches c.node (managed c.own w) bm.height tx then [(⟨bm, k, tx⟩ : Item)] else []) ++
        itemsOf c w bm txs (k + 1) := by
  unfold itemsOf
  rw [List.zipIdx_cons, List.filter_cons]
  by_cases h : Model.Import.touches c.node (managed c.own w) bm.height tx = true <;> simp [h]


-- ------------------------------------------------------------------ the working balances keep distinct keys

theorem bn_spendOne {tr : TxRec} {blk : BlockMeta} {sb sb' : Store × Bals} {rel : Rel}
    (hq : KeysNodup sb.2) (h : spendOne tr blk sb rel = .ok sb') : KeysNodup sb'.2 := by
  unfold spendOne at h
  repeat' split at h
  all_goals cases h
  exact keysNodup_put hq _ _

theorem bn_creditOne {p : Params} {tr : TxRec} {blk : BlockMeta} {sb sb' : Store × Bals} {rel : Rel}
    (hq : KeysNodup sb.2) (h : creditOne p tr blk sb rel = .ok sb') : KeysNodup sb'.2 := by
  unfold creditOne at h
  split at h
  · cases h
  · have := Except.ok.inj h; subst this; exact keysNodup_put hq _ _

theorem bn_addCredits {p : Params} {s : Store} {bals : Bals} {tr : TxRec} {blk : BlockMeta}
    {sb' : Store × Bals} (hq : KeysNodup bals) (h : addCredits p s bals tr blk = .ok sb') : KeysNodup sb'.2 := by
  unfold addCredits at h
  split at h
  · have := Except.ok.inj h; subst this; exact hq
  · obtain ⟨sb1, h3, h4⟩ := M_bind_ok h
    have := Except.ok.inj h4; subst this
    exact foldlM_preserves (fun (x : Store × Bals) => KeysNodup x.2) (creditOne p tr blk) tr.relOut
      (fun _ _ _ _ hb hf => bn_creditOne hb hf) (b := (s, bals)) (b' := sb1) hq h3

theorem bn_insertMinedTx {own : Own} {s : Store} {bals : Bals} {tr : TxRec} {blk : BlockMeta}
    {r : Store × Bals × Bool} (hq : KeysNodup bals) (h : insertMinedTx own s bals tr blk = .ok r) :
    KeysNodup r.2.1 := by
  unfold insertMinedTx at h
  split at h
  · have := Except.ok.inj h; subst this; exact hq
  · obtain ⟨sb1, h3, h4⟩ := M_bind_ok h
    have := Except.ok.inj h4; subst this
    exact foldlM_preserves (fun (x : Store × Bals) => KeysNodup x.2) (spendOne tr blk) tr.relIn
      (fun _ _ _ _ hb hf => bn_spendOne hb hf) (b := (recordMinedTx s tr blk, bals)) (b' := sb1) hq h3

theorem bn_addRelevantMined {p : Params} {own : Own} {s : Store} {bals : Bals} {tr : TxRec} {blk : BlockMeta}
    {sb' : Store × Bals} (hq : KeysNodup bals) (h : addRelevantMined p own s bals tr blk = .ok sb') :
    KeysNodup sb'.2 := by
  unfold addRelevantMined at h
  obtain ⟨r, h1, h2⟩ := M_bind_ok h
  exact bn_addCredits (bn_insertMinedTx hq h1) h2

/-- **scan of one block.**  Folding `applyItem` over the planned items of a block (from position `k` on) refines
    folding `applyOcc` over ALL its transactions from position `k` on. -/
theorem scan_txs {c : Ctx} {w : Wid} (hAR : AllReady c.own [w]) (bm : BlockMeta) :
    ∀ (post : List Tx) (k : Nat) (P : List Occ) (B : Book) (s : Store) (bals : Bals),
      Glob c.own P B → ValidFrom c.own P (occsFrom bm post k) →
      (∀ oc' ∈ P ++ occsFrom bm post k, fetchTxUntil c.node oc'.t.id bm.height = some oc'.t) →
      Agree s B → AgreeBal [w] bals B → Loc c.p c.own B → LocG B →
      (∀ hh txs, B.blocks bm.height = some (hh, txs) → hh = bm.hash) →
      (∀ id loc, B.txrecs (id, bm) = some loc → loc.2 < k) → (KeysNodup bals ∧ KeysNodup s.unspent) →
      ∃ sb', (itemsOf c w bm post k).foldlM (applyItem c w) (s, bals) = .ok sb' ∧
        Agree sb'.1 ((occsFrom bm post k).foldl (applyOcc c.p c.own) B) ∧
        AgreeBal [w] sb'.2 ((occsFrom bm post k).foldl (applyOcc c.p c.own) B) ∧ SameSync s sb'.1 ∧
        (KeysNodup sb'.2 ∧ KeysNodup sb'.1.unspent) := by
  intro post
  induction post with
  | nil =>
    intro k P B s bals _ _ _ hR hB _ _ _ _ hKN
    exact ⟨(s, bals), rfl, hR, hB, SameSync.refl s, hKN⟩
  | cons tx rest ih =>
    intro k P B s bals hGl hV hNode hR hB hL hG hBH hTP hKN
    have hocc : occsFrom bm (tx :: rest) k = ⟨bm, k, tx⟩ :: occsFrom bm rest (k + 1) := rfl
    rw [hocc] at hV hNode ⊢
    obtain ⟨hV1, hV2⟩ := hV
    have hNodeP : ∀ oc' ∈ P, fetchTxUntil c.node oc'.t.id bm.height = some oc'.t :=
      fun oc' h => hNode oc' (List.mem_append_left _ h)
    have hNode' : ∀ oc' ∈ (P ++ [⟨bm, k, tx⟩]) ++ occsFrom bm rest (k + 1),
        fetchTxUntil c.node oc'.t.id bm.height = some oc'.t := by
      intro oc' h; apply hNode oc'; simpa using h
    obtain ⟨r, hr, hyes, hno⟩ := filterImp_spec (n := c.node) (w := w) hAR hGl hV1 hNodeP
    have hGl' := glob_step (p := c.p) hGl hV1
    obtain ⟨hL', hG'⟩ := loc_step hL hG hGl hV1
    rw [List.foldl_cons, itemsOf_cons]
    -- side conditions for the rest of the block
    have hBH' : ∀ hh txs, (applyOcc c.p c.own B ⟨bm, k, tx⟩).blocks bm.height = some (hh, txs) → hh = bm.hash := by
      intro hh txs
      rw [char_applyOcc_blocks]
      unfold recStep
      by_cases ht : Spec.Books.touches c.own B tx = true
      · simp only [ht, if_true, recordB]
        cases hb : B.blocks bm.height with
        | none => simp only [upd_apply, if_true]; intro h; injection h with h; injection h with h1 _; exact h1.symm
        | some v =>
          obtain ⟨h0, t0⟩ := v
          simp only [upd_apply, if_true]
          intro h; injection h with h; injection h with h1 _
          rw [← h1]; exact hBH h0 t0 hb
      · simp only [ht]; exact hBH hh txs
    have hTP' : ∀ id loc, (applyOcc c.p c.own B ⟨bm, k, tx⟩).txrecs (id, bm) = some loc → loc.2 < k + 1 := by
      intro id loc
      rw [char_applyOcc_txrecs_apply]
      split
      · intro h; injection h with h; rw [← h]; exact Nat.lt_succ_self k
      · intro h; exact Nat.lt_succ_of_lt (hTP id loc h)
    by_cases ht : Spec.Books.touches c.own B tx = true
    · -- the transaction touches the books: it is indexed, the filter yields the predicted record
      obtain ⟨tr, hrs, htx, hin, hout⟩ := hyes ht
      have hidx : Model.Import.touches c.node (managed c.own w) bm.height tx = true :=
        index_complete (oc := ⟨bm, k, tx⟩) hAR hGl hNodeP ht
      rw [hidx]
      simp only [if_true, List.singleton_append, List.foldlM_cons]
      have hfresh := glob_fresh hGl hV1
      obtain ⟨sb1, hs1, hR1, hB1, _, _, hS1⟩ :=
        addRelevantMined_refines (p := c.p) (tr := { tr with loc := (bm.hash, k) }) (oc := ⟨bm, k, tx⟩) hAR hR hB hL hG
          htx rfl hin hout ht hV1.2.2.1 hfresh
      have hFA : ImportLive.FreshAt s { tr with loc := (bm.hash, k) } bm := by
        constructor
        · show AMap.get s.txrecs (tr.tx.id, bm) = none
          rw [hR.txrecs, htx]; exact (hfresh bm 0).2.2
        · intro hh txs hb
          rw [hR.blocks] at hb
          have he := hBH hh txs hb
          refine ⟨he, ?_⟩
          intro t _ loc hl
          rw [hR.txrecs, he] at hl
          exact Nat.le_of_lt (hTP t loc hl)
      have hlive := ImportLive.add_eq_live c.p c.own s bals { tr with loc := (bm.hash, k) } bm hFA
      rw [hs1] at hlive
      have himp : addRelevantTxForImporting c.p c.own s bals { tr with loc := (bm.hash, k) } bm = .ok sb1 := by
        cases hx : addRelevantTxForImporting c.p c.own s bals { tr with loc := (bm.hash, k) } bm with
        | error e => rw [hx] at hlive; simp [Except.toOption] at hlive
        | ok v => rw [hx] at hlive; simp only [Except.toOption, Option.some.injEq] at hlive; rw [hlive]
      have hstep : applyItem c w (s, bals) (⟨bm, k, tx⟩ : Item) = .ok sb1 :=
        applyItem_some (tr := tr) (by rw [← hrs]; exact hr) himp
      rw [hstep]
      obtain ⟨sb2, hs2, hR2, hB2, hS2, hK2⟩ := ih (k + 1) _ _ sb1.1 sb1.2 hGl' hV2 hNode' hR1 hB1 hL' hG' hBH' hTP'
        ⟨bn_addRelevantMined hKN.1 hs1, wf_addRelevantMined hKN.2 hs1⟩
      exact ⟨sb2, hs2, hR2, hB2, hS1.trans hS2, hK2⟩
    · -- it does not: the books stay; the item (if the index lists it at all) is skipped
      have ht' : Spec.Books.touches c.own B tx = false := by simpa using ht
      have hrn := hno ht'
      have hun : applyOcc c.p c.own B ⟨bm, k, tx⟩ = B := applyOcc_untouched ht'
      rw [hun] at hGl' hL' hG' hBH' hTP' ⊢
      obtain ⟨sb2, hs2, hR2, hB2, hS2, hK2⟩ := ih (k + 1) _ _ s bals hGl' hV2 hNode' hR hB hL' hG' hBH' hTP' hKN
      refine ⟨sb2, ?_, hR2, hB2, hS2, hK2⟩
      by_cases hidx : Model.Import.touches c.node (managed c.own w) bm.height tx = true
      · rw [hidx]
        simp only [if_true, List.singleton_append, List.foldlM_cons]
        have hstep : applyItem c w (s, bals) (⟨bm, k, tx⟩ : Item) = .ok (s, bals) :=
          applyItem_skip (by rw [← hrn]; exact hr)
        rw [hstep]; exact hs2
      · simp only [hidx, Bool.false_eq_true, if_false, List.nil_append]; exact hs2

-- ------------------------------------------------------------------ one height of the node's chain

/-- the chain hypotheses of the rescan theorems: the node's chain is valid for the keystore table (distinct
    transaction ids, inputs spend existing unspent outputs, no transaction with both an owned binding input
    and an owned binding output) and block heights are positions -/
structure ChainOK (c : Ctx) : Prop where
  valid : ChainValid c.own c.node.chain
  heights : HeightsOK c.node.chain

theorem take_succ_block {chain : List Block} {h : Nat} {b : Block} (hb : chain[h]? = some b) :
    chain.take (h + 1) = chain.take h ++ [b] := by
  rw [List.take_add_one, hb]; rfl

/-- FetchLastTxUntilHeight finds every transaction of the blocks up to `h` by its id -/
theorem node_finds {c : Ctx} (hC : ChainOK c) {h : Nat} {b : Block} (hb : c.node.chain[h]? = some b) :
    ∀ oc' ∈ occs (c.node.chain.take h) ++ occsOfBlock b, fetchTxUntil c.node oc'.t.id h = some oc'.t := by
  have hn := (glob_bookOf (p := c.p) hC.valid).idsNodup
  have hbm : b ∈ c.node.chain.take (h + 1) := by
    rw [take_succ_block hb]; simp
  intro oc' hoc'
  rcases List.mem_append.1 hoc' with h1 | h1
  · obtain ⟨b', hb', ht, _⟩ := char_occ_block h1
    have hb'' : b' ∈ c.node.chain.take (h + 1) := by
      rw [take_succ_block hb]; exact List.mem_append_left _ hb'
    exact fetchTxUntil_of_mem hn hb'' ht
  · unfold occsOfBlock at h1
    obtain ⟨m, hm, _, _⟩ := mem_occsFrom.1 h1
    exact fetchTxUntil_of_mem hn hbm (List.mem_of_getElem? hm)

/-- **scan of one height.**  From a store that holds the books of the chain below height `h` (working balance of
    the restored wallet = total of its ledger entries), applying the planned items of height `h` yields the books
    of the chain up to `h`. -/
theorem scan_height {c : Ctx} {w : Wid} (hAR : AllReady c.own [w]) (hC : ChainOK c) {h : Nat} {b : Block}
    (hb : c.node.chain[h]? = some b) {s : Store} {bals : Bals}
    (hA : AgreeM s (bookOf c.p c.own (c.node.chain.take h)))
    (hB : AgreeBal [w] bals (bookOf c.p c.own (c.node.chain.take h)))
    (hKN : KeysNodup bals ∧ KeysNodup s.unspent) :
    ∃ sb', (itemsOf c w ⟨h, b.id⟩ b.txs 0).foldlM (applyItem c w) (s, bals) = .ok sb' ∧
      AgreeM sb'.1 (bookOf c.p c.own (c.node.chain.take (h + 1))) ∧
      AgreeBal [w] sb'.2 (bookOf c.p c.own (c.node.chain.take (h + 1))) ∧ SameSync s sb'.1 ∧
      (KeysNodup sb'.2 ∧ KeysNodup sb'.1.unspent) := by
  have hsplit : c.node.chain = c.node.chain.take (h + 1) ++ c.node.chain.drop (h + 1) := (List.take_append_drop _ _).symm
  have hsplit0 : c.node.chain = c.node.chain.take h ++ c.node.chain.drop h := (List.take_append_drop _ _).symm
  have hbh : b.height = h := hC.heights h b hb
  have hv1 : ChainValid c.own (c.node.chain.take h ++ [b]) := by
    rw [← take_succ_block hb]
    exact chainValid_prefix (b := c.node.chain.drop (h + 1)) (by rw [← hsplit]; exact hC.valid)
  have hv0 : ChainValid c.own (c.node.chain.take h) := chainValid_prefix hv1
  have hVb : ValidFrom c.own (occs (c.node.chain.take h)) (occsFrom ⟨h, b.id⟩ b.txs 0) := by
    have := hv1
    unfold ChainValid at this
    rw [occs_append, validFrom_append, List.nil_append] at this
    have h2 := this.2
    simp only [occs, List.flatMap_cons, List.flatMap_nil, List.append_nil] at h2
    unfold occsOfBlock at h2
    rw [hbh] at h2
    exact h2
  obtain ⟨hL0, hG0⟩ := loc_bookOf (p := c.p) hv0
  have e := eqM_withAddrs (bookOf c.p c.own (c.node.chain.take h)) (fun k => AMap.get s.addrs k)
  have hlen : ∀ b' ∈ c.node.chain.take h, b'.height < h := by
    intro b' hb'
    have hH : HeightsOK (c.node.chain.take h ++ c.node.chain.drop h) := by rw [← hsplit0]; exact hC.heights
    have := heightsOK_lt hH b' hb'
    have hl : (c.node.chain.take h).length ≤ h := by rw [List.length_take]; exact Nat.min_le_left _ _
    omega
  have hNode : ∀ oc' ∈ occs (c.node.chain.take h) ++ occsFrom ⟨h, b.id⟩ b.txs 0,
      fetchTxUntil c.node oc'.t.id h = some oc'.t := by
    have := node_finds hC hb
    unfold occsOfBlock at this
    rw [hbh] at this
    exact this
  obtain ⟨sb', hs, hR, hB', hS, hK'⟩ := scan_txs (c := c) (w := w) hAR ⟨h, b.id⟩ b.txs 0 (occs (c.node.chain.take h))
    { bookOf c.p c.own (c.node.chain.take h) with addrs := fun k => AMap.get s.addrs k } s bals
    ((glob_bookOf (p := c.p) hv0).congrM e) hVb hNode hA.toAgree (hB.congrM e) (hL0.congrM e) (hG0.congrM e)
    (by
      intro hh txs hbl
      have : (bookOf c.p c.own (c.node.chain.take h)).blocks h = none := bookOf_blocks_height hlen h (Nat.le_refl _)
      simp only at hbl
      rw [this] at hbl; cases hbl)
    (by
      intro id loc hl
      exfalso
      simp only at hl
      obtain ⟨P₁, oc, P₂, hsp, _, hkey, _⟩ := (bookOf_txrecs_iff (p := c.p) hv0 (id, ⟨h, b.id⟩) loc).1 hl
      have hoc : oc ∈ occs (c.node.chain.take h) := by rw [hsp]; simp
      obtain ⟨b', hb', hbm'⟩ := mem_occs_height hoc
      have := hlen b' hb'
      have hk2 : oc.bm = ⟨h, b.id⟩ := (congrArg Prod.snd hkey).symm
      rw [hk2] at hbm'
      injection hbm' with h1 _
      omega) hKN
  have e' : EqM ((occsFrom ⟨h, b.id⟩ b.txs 0).foldl (applyOcc c.p c.own)
      { bookOf c.p c.own (c.node.chain.take h) with addrs := fun k => AMap.get s.addrs k })
      (bookOf c.p c.own (c.node.chain.take (h + 1))) := by
    rw [take_succ_block hb, bookOf_snoc]
    unfold occsOfBlock
    rw [hbh]
    exact foldOcc_eqM _ _ _ e.symm
  exact ⟨sb', hs, hR.toM.congr e', hB'.congrM e', hS, hK'⟩
