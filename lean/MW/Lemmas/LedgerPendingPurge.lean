/-
  Helper lemmas for C09, part 3: the conflict purge `removeConflict`.
    * `WFw`   the part of the well-formedness of the pending stores that survives every erasure
    * `mu`    the measure that bounds the recursion depth: pending transactions of higher rank
    * `Step`  what a purge does to a store, as a preorder (composable along the loops)
    * `removeConflict_spec`  fuel above `mu` is as good as any larger fuel, and the purge removes the
              transaction, its spender-list memberships, its pending credits and every pending spender
              of its outputs, closing the removed set under "spends an output of"
-/
import MW.Lemmas.LedgerPendingSub
namespace MW.Lemmas.LedgerPending
open MW MW.Model.Ledger

/-- erasure-stable well-formedness: keys are the ids of the stored transactions, a listed spender that
    is pending really spends the outpoint, inputs refer to transactions of lower rank (ids are hashes:
    a transaction is created after the transactions it spends) -/
structure WFw (rank : TxId → Nat) (s : Store) : Prop where
  key_id : ∀ id t, AMap.get s.pending id = some t → t.id = id
  spends : ∀ op id t, Listed s op id → AMap.get s.pending id = some t → Spends t op
  rank : ∀ id t, AMap.get s.pending id = some t → ∀ i ∈ t.ins, rank i.tx < rank id

theorem WFw.mono {rank : TxId → Nat} {s' s : Store} (h : WFw rank s) (hs : Sub s' s) : WFw rank s' :=
  ⟨fun id t hg => h.key_id id t (hs.pending_some hg),
   fun op id t hl hg => h.spends op id t (hs.ins _ _ hl) (hs.pending_some hg),
   fun id t hg => h.rank id t (hs.pending_some hg)⟩

/-- number of pending transactions of rank above `tx` -/
def mu (rank : TxId → Nat) (s : Store) (tx : Tx) : Nat :=
  s.pending.countP (fun e => decide (rank tx.id < rank e.1))

theorem mu_le_length (rank : TxId → Nat) (s : Store) (tx : Tx) : mu rank s tx ≤ s.pending.length :=
  List.countP_le_length

def Gone (s : Store) (t : Tx) : Prop := AMap.get s.pending t.id = none

/-- `d` is a pending spender of an output of `t` -/
def Edge (s : Store) (t d : Tx) : Prop :=
  ∃ i, i < t.outs.length ∧ Listed s (t.id, i) d.id ∧ AMap.get s.pending d.id = some d

/-- nothing of `t` is left in the pending stores -/
def Clean (s : Store) (t : Tx) : Prop :=
  (∀ i, i < t.outs.length → AMap.get s.pendCred (t.id, i) = none) ∧ (∀ op, Spends t op → ¬ Listed s op t.id)

theorem Clean.mono {s' s : Store} {t : Tx} (h : Clean s t) (hs : Sub s' s) : Clean s' t :=
  ⟨fun i hi => hs.cred _ (h.1 i hi), fun op ho hl => h.2 op ho (hs.ins _ _ hl)⟩

theorem Gone.mono {s' s : Store} {t : Tx} (h : Gone s t) (hs : Sub s' s) : Gone s' t := hs.pending_none h

/-- what a purge does: it only erases; memberships of transactions that stay pending are kept; the set of
    removed transactions is closed under `Edge`; nothing of a removed transaction is left -/
structure Step (s s' : Store) : Prop where
  sub : Sub s' s
  intact : ∀ op id, Listed s op id → (AMap.get s'.pending id).isSome → Listed s' op id
  closed : ∀ t d, AMap.get s.pending t.id = some t → Gone s' t → Edge s t d → Gone s' d
  clean : ∀ t, AMap.get s.pending t.id = some t → Gone s' t → Clean s' t

theorem Step.refl (s : Store) : Step s s := by
  refine ⟨Sub.refl s, fun _ _ h _ => h, ?_, ?_⟩
  · intro t d ht hg _; rw [Gone, ht] at hg; cases hg
  · intro t ht hg; rw [Gone, ht] at hg; cases hg

theorem Step.trans {a b c : Store} (h₁ : Step a b) (h₂ : Step b c) : Step a c := by
  refine ⟨h₂.sub.trans h₁.sub, ?_, ?_, ?_⟩
  · intro op id hl hsome
    apply h₂.intact op id _ hsome
    apply h₁.intact op id hl
    cases hg : AMap.get c.pending id with
    | none => rw [hg] at hsome; cases hsome
    | some t => rw [h₂.sub.pending_some hg]; rfl
  · intro t d ht hgone hedge
    obtain ⟨i, hi, hl, hd⟩ := hedge
    rcases h₁.sub.pending_same ht with htb | htb
    · -- t still pending in b
      rcases h₁.sub.pending_same hd with hdb | hdb
      · exact h₂.closed t d htb hgone ⟨i, hi, h₁.intact _ _ hl (by rw [hdb]; rfl), hdb⟩
      · exact Gone.mono hdb h₂.sub
    · exact Gone.mono (h₁.closed t d ht htb ⟨i, hi, hl, hd⟩) h₂.sub
  · intro t ht hgone
    rcases h₁.sub.pending_same ht with htb | htb
    · exact h₂.clean t htb hgone
    · exact (h₁.clean t ht htb).mono h₂.sub

/-- postcondition of `removeConflict s tx` -/
structure Post (s : Store) (tx : Tx) (s' : Store) : Prop where
  step : Step s s'
  gone : Gone s' tx
  clean : Clean s' tx
  kids : ∀ d, Edge s tx d → Gone s' d

-- ------------------------------------------------------------------ the loops of removeConflict, named

/-- inner loop: remove every still-pending transaction of the list with its descendants -/
def killSpenders (own : Own) (fuel : Nat) (s : Store) (l : List TxId) : Store :=
  l.foldl (fun s sp =>
    match AMap.get s.pending sp with
    | some sptx => removeConflict own fuel s sptx
    | none => s) s

/-- outer loop body: the spenders of output `i`, then its pending credit -/
def killOut (own : Own) (fuel : Nat) (id : TxId) (s : Store) (i : Nat) : Store :=
  let s' := killSpenders own fuel s ((AMap.get s.pendIns (id, i)).getD [])
  { s' with pendCred := AMap.erase s'.pendCred (id, i) }

theorem removeConflict_succ (own : Own) (fuel : Nat) (s : Store) (tx : Tx) :
    removeConflict own (fuel + 1) s tx =
      (fun s1 => { s1 with pending := AMap.erase s1.pending tx.id })
        (removeUnminedGameHistory own
          (removeUnminedInputsOf ((List.range tx.outs.length).foldl (killOut own fuel tx.id) s) tx) tx) := rfl

theorem purgeSpenders_eq (own : Own) (s : Store) (op : TxId × Nat) :
    purgeSpenders own s op = ((AMap.get s.pendIns op).getD []).foldl (fun s ds =>
      match AMap.get s.pending ds with
      | some dtx => removeConflict own (s.pending.length + 1) s dtx
      | none => s) s := rfl

theorem mu_mono (rank : TxId → Nat) {s' s : Store} (hs : Sub s' s) (t : Tx) : mu rank s' t ≤ mu rank s t := by
  obtain ⟨p, hp⟩ := hs.pend
  unfold mu; rw [hp]
  exact count_le s.pending p (fun k => decide (rank t.id < rank k)) (fun k => decide (rank t.id < rank k)) (fun _ h => h)

/-- a pending spender of an output of `tx` has fewer pending transactions above it than `tx` has -/
theorem mu_lt_of_spender (rank : TxId → Nat) {s a : Store} (hw : WFw rank s) (hs : Sub a s) (tx t : Tx)
    (i : Nat) (sp : TxId) (hl : Listed a (tx.id, i) sp) (hg : AMap.get a.pending sp = some t) :
    mu rank a t < mu rank s tx := by
  have hgs := hs.pending_some hg
  have hid : t.id = sp := hw.key_id _ _ hgs
  obtain ⟨inp, hinp, hop⟩ := hw.spends _ _ _ (hs.ins _ _ hl) hgs
  have hr := hw.rank _ _ hgs inp hinp
  have hitx : inp.tx = tx.id := by injection hop
  rw [hitx] at hr
  obtain ⟨p, hp⟩ := hs.pend
  unfold mu; rw [hp, hid]
  refine count_lt s.pending p (fun k => decide (rank sp < rank k)) (fun k => decide (rank tx.id < rank k)) ?_
    sp t (mem_of_get hgs) (by simpa using hr) (by simp)
  intro k hk
  simp only [decide_eq_true_eq] at hk ⊢
  omega

-- ------------------------------------------------------------------ the main induction

section spec
variable (rank : TxId → Nat) (own : Own)

/-- the statement proved by induction on the fuel -/
def SpecAt (n : Nat) : Prop :=
  ∀ s tx, WFw rank s → AMap.get s.pending tx.id = some tx → mu rank s tx < n →
    (∀ m, n ≤ m → removeConflict own m s tx = removeConflict own n s tx) ∧ Post s tx (removeConflict own n s tx)

theorem killSpenders_spec (n : Nat) (ih : SpecAt rank own n) : ∀ (l : List TxId) (b : Store), WFw rank b →
    (∀ sp ∈ l, ∀ t, AMap.get b.pending sp = some t → mu rank b t < n) →
    (∀ m, n ≤ m → killSpenders own m b l = killSpenders own n b l) ∧ Step b (killSpenders own n b l) ∧
      ∀ sp ∈ l, AMap.get (killSpenders own n b l).pending sp = none := by
  intro l
  induction l with
  | nil => intro b _ _; exact ⟨fun _ _ => rfl, Step.refl b, fun _ h => by cases h⟩
  | cons sp l ihl =>
    intro b hw hmu
    cases hg : AMap.get b.pending sp with
    | none =>
      have hrest := ihl b hw (fun sp' h t ht => hmu sp' (by simp [h]) t ht)
      have hk : ∀ m, killSpenders own m b (sp :: l) = killSpenders own m b l := by
        intro m; simp only [killSpenders, List.foldl, hg]
      refine ⟨fun m hm => by rw [hk, hk]; exact hrest.1 m hm, by rw [hk]; exact hrest.2.1, ?_⟩
      intro sp' hsp'
      rw [hk]
      rcases List.mem_cons.mp hsp' with rfl | h
      · exact hrest.2.1.sub.pending_none hg
      · exact hrest.2.2 sp' h
    | some t =>
      have hid : t.id = sp := hw.key_id _ _ hg
      obtain ⟨hstab, hpost⟩ := ih b t hw (by rw [hid]; exact hg) (hmu sp (by simp) t hg)
      have hsub := hpost.step.sub
      have hrest := ihl (removeConflict own n b t) (hw.mono hsub) (fun sp' h t' ht' =>
        Nat.lt_of_le_of_lt (mu_mono rank hsub t') (hmu sp' (by simp [h]) t' (hsub.pending_some ht')))
      have hk : ∀ m, killSpenders own m b (sp :: l) = killSpenders own m (removeConflict own m b t) l := by
        intro m; simp only [killSpenders, List.foldl, hg]
      refine ⟨fun m hm => by rw [hk, hk, hstab m hm]; exact hrest.1 m hm,
        by rw [hk]; exact hpost.step.trans hrest.2.1, ?_⟩
      intro sp' hsp'
      rw [hk]
      rcases List.mem_cons.mp hsp' with rfl | h
      · have : AMap.get (removeConflict own n b t).pending t.id = none := hpost.gone
        rw [hid] at this
        exact hrest.2.1.sub.pending_none this
      · exact hrest.2.2 sp' h

/-- erasing a pending credit is a (trivial) purge step -/
theorem step_eraseCred (a : Store) (k : TxId × Nat) : Step a { a with pendCred := AMap.erase a.pendCred k } := by
  refine ⟨sub_eraseCred a k, fun _ _ h _ => h, ?_, ?_⟩
  · intro t d ht hg _; rw [Gone] at hg; change AMap.get a.pending t.id = none at hg; rw [ht] at hg; cases hg
  · intro t ht hg; rw [Gone] at hg; change AMap.get a.pending t.id = none at hg; rw [ht] at hg; cases hg

/-- one iteration of the outer loop, in a state `a` reached from the start state `s` by purge steps -/
theorem killOut_spec (n : Nat) (ih : SpecAt rank own n) (s : Store) (tx : Tx) (hw : WFw rank s)
    (hmu : mu rank s tx < n + 1) (a : Store) (ha : Sub a s) (i : Nat) :
    (∀ m, n ≤ m → killOut own m tx.id a i = killOut own n tx.id a i) ∧ Step a (killOut own n tx.id a i) ∧
      (∀ sp, Listed a (tx.id, i) sp → AMap.get (killOut own n tx.id a i).pending sp = none) ∧
      AMap.get (killOut own n tx.id a i).pendCred (tx.id, i) = none := by
  have hwa := hw.mono ha
  have hks := killSpenders_spec rank own n ih ((AMap.get a.pendIns (tx.id, i)).getD []) a hwa (by
    intro sp hsp t ht
    have hl : Listed a (tx.id, i) sp := by
      cases hgi : AMap.get a.pendIns (tx.id, i) with
      | none => rw [hgi] at hsp; cases hsp
      | some l => rw [hgi] at hsp; exact ⟨l, hgi, hsp⟩
    have := mu_lt_of_spender rank hw ha tx t i sp hl ht
    omega)
  refine ⟨fun m hm => ?_, ?_, ?_, ?_⟩
  · unfold killOut; simp only []; rw [hks.1 m hm]
  · exact hks.2.1.trans (step_eraseCred _ _)
  · intro sp hl
    obtain ⟨l, hgl, hmem⟩ := hl
    have := hks.2.2 sp (by rw [hgl]; exact hmem)
    exact this
  · show AMap.get (AMap.erase _ (tx.id, i)) (tx.id, i) = none
    rw [AMap.get_erase]; simp

/-- the outer loop over a list of output indices -/
theorem killOuts_spec (n : Nat) (ih : SpecAt rank own n) (s : Store) (tx : Tx) (hw : WFw rank s)
    (hmu : mu rank s tx < n + 1) : ∀ (L : List Nat) (a : Store), Step s a →
    (∀ m, n ≤ m → L.foldl (killOut own m tx.id) a = L.foldl (killOut own n tx.id) a) ∧
      Step a (L.foldl (killOut own n tx.id) a) ∧
      ∀ i ∈ L, (∀ d, Listed s (tx.id, i) d.id → AMap.get s.pending d.id = some d →
          Gone (L.foldl (killOut own n tx.id) a) d) ∧
        AMap.get (L.foldl (killOut own n tx.id) a).pendCred (tx.id, i) = none := by
  intro L
  induction L with
  | nil => intro a _; exact ⟨fun _ _ => rfl, Step.refl a, fun _ h => by cases h⟩
  | cons i L ihL =>
    intro a hsa
    obtain ⟨h1, h2, h3, h4⟩ := killOut_spec rank own n ih s tx hw hmu a hsa.sub i
    have hsa' : Step s (killOut own n tx.id a i) := hsa.trans h2
    obtain ⟨r1, r2, r3⟩ := ihL (killOut own n tx.id a i) hsa'
    simp only [List.foldl]
    refine ⟨fun m hm => by rw [h1 m hm]; exact r1 m hm, h2.trans r2, ?_⟩
    intro j hj
    rcases List.mem_cons.mp hj with rfl | hj
    · refine ⟨fun d hl hd => ?_, r2.sub.cred _ h4⟩
      rcases hsa.sub.pending_same hd with hda | hda
      · have hla := hsa.intact _ _ hl (by rw [hda]; rfl)
        exact Gone.mono (h3 d.id hla) r2.sub
      · exact Gone.mono hda (h2.trans r2).sub
    · exact r3 j hj

/-- the last three statements of `removeConflict`, after the loops have removed every pending spender of
    an output of `tx`: a purge step that removes `tx` itself -/
theorem finish_spec (s : Store) (tx : Tx) (hroot : AMap.get s.pending tx.id = some tx) (a : Store)
    (hsa : Step s a)
    (hkids : ∀ i, i < tx.outs.length → (∀ d, Listed s (tx.id, i) d.id → AMap.get s.pending d.id = some d → Gone a d) ∧
      AMap.get a.pendCred (tx.id, i) = none) :
    Post s tx ((fun s1 => { s1 with pending := AMap.erase s1.pending tx.id })
      (removeUnminedGameHistory own (removeUnminedInputsOf a tx) tx)) := by
  have hf1 := removeUnminedInputsOf_frame a tx
  have hf2 := removeUnminedGameHistory_frame own (removeUnminedInputsOf a tx) tx
  simp only [exceptIns, exceptGame, Prod.mk.injEq] at hf1 hf2
  obtain ⟨p1, c1, g1, m1⟩ := hf1
  obtain ⟨p2, i2, c2, m2⟩ := hf2
  -- name the final store and its buckets
  generalize hs2 : removeUnminedGameHistory own (removeUnminedInputsOf a tx) tx = s2 at *
  have hpend : ∀ k, AMap.get (AMap.erase s2.pending tx.id) k = if tx.id = k then none else AMap.get a.pending k := by
    intro k; rw [AMap.get_erase, p2, p1]
  have hsub : Sub { s2 with pending := AMap.erase s2.pending tx.id } a :=
    (sub_erasePending s2 tx.id).trans (by
      rw [← hs2]; exact (sub_removeUnminedGameHistory own _ tx).trans (sub_removeUnminedInputsOf a tx))
  have hlisted : ∀ op id, Listed { s2 with pending := AMap.erase s2.pending tx.id } op id ↔
      Listed a op id ∧ ¬ (id = tx.id ∧ Spends tx op) := by
    intro op id
    rw [← removeUnminedInputsOf_listed]
    unfold Listed
    show (∃ l, AMap.get s2.pendIns op = some l ∧ id ∈ l) ↔ _
    rw [i2]
  have hclean : Clean { s2 with pending := AMap.erase s2.pending tx.id } tx := by
    refine ⟨fun i hi => hsub.cred _ (hkids i hi).2, fun op hop hl => ?_⟩
    exact ((hlisted op tx.id).mp hl).2 ⟨rfl, hop⟩
  have hsame : ∀ t, AMap.get a.pending t.id = some t → Gone { s2 with pending := AMap.erase s2.pending tx.id } t → t = tx := by
    intro t ht hg
    rw [Gone] at hg
    change AMap.get (AMap.erase s2.pending tx.id) t.id = none at hg
    rw [hpend] at hg
    by_cases hid : tx.id = t.id
    · rw [← hid] at ht
      have := hsa.sub.pending_some ht
      rw [hroot] at this; cases this; rfl
    · simp [hid, ht] at hg
  have hstep : Step a { s2 with pending := AMap.erase s2.pending tx.id } := by
    refine ⟨hsub, ?_, ?_, ?_⟩
    · intro op id hl hsome
      refine (hlisted op id).mpr ⟨hl, fun h => ?_⟩
      change (AMap.get (AMap.erase s2.pending tx.id) id).isSome = true at hsome
      rw [hpend, h.1] at hsome; simp at hsome
    · intro t d ht hg hedge
      have := hsame t ht hg; subst this
      obtain ⟨i, hi, hl, hd⟩ := hedge
      have := (hkids i hi).1 d (hsa.sub.ins _ _ hl) (hsa.sub.pending_some hd)
      rw [Gone, hd] at this; cases this
    · intro t ht hg
      have := hsame t ht hg; subst this
      exact hclean
  refine ⟨hsa.trans hstep, ?_, hclean, ?_⟩
  · show AMap.get (AMap.erase s2.pending tx.id) tx.id = none
    rw [AMap.get_erase]; simp
  · intro d hedge
    obtain ⟨i, hi, hl, hd⟩ := hedge
    exact Gone.mono ((hkids i hi).1 d hl hd) hsub

/-- MAIN: fuel above `mu` is enough — any larger fuel computes the same store — and the purge establishes `Post` -/
theorem removeConflict_spec : ∀ n, SpecAt rank own n := by
  intro n
  induction n with
  | zero => intro s tx _ _ h; omega
  | succ n ih =>
    intro s tx hw hroot hmu
    obtain ⟨r1, r2, r3⟩ := killOuts_spec rank own n ih s tx hw hmu (List.range tx.outs.length) s (Step.refl s)
    constructor
    · intro m hm
      obtain ⟨m', rfl⟩ : ∃ m', m = m' + 1 := ⟨m - 1, by omega⟩
      rw [removeConflict_succ, removeConflict_succ, r1 m' (by omega)]
    · rw [removeConflict_succ]
      exact finish_spec own s tx hroot _ r2 (fun i hi => r3 i (List.mem_range.mpr hi))

end spec

end MW.Lemmas.LedgerPending
