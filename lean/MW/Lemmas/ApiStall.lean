/-
  Lemmas for MW.Props.C19.no_stall_full: one step of filterTx's output loop never leaves the loop by
  `return` when ParsePkScript has no failure other than ErrUnsupportedScript and the keystore lookup does
  not fail.

  The statement is for EVERY evaluation budget `n`, so the run is not evaluated for a fixed budget; instead
  the section "inversion" gives, for every statement form, what a run ending in `.ok (.retd τ)` /
  `.ok (.norm τ)` must have done (for any budget: budget 0 ends in `.error .fuel`, which is neither).
  `filterTxOutStep_no_retd` then follows the step through its two branches by inversion.
-/
import MW.Model.Api
namespace MW.Lemmas.ApiStall
open MW.Model.Api

-- ------------------------------------------------------------------ inversion of `run`

section inversion
variable {P : Prog} {O : Oracle}

theorem skip_retd {n : Nat} {σ τ : State} : run P O n .skip σ ≠ .ok (.retd τ) := by
  cases n <;> simp [run]

theorem set_retd {n : Nat} {x : Var} {a : Arg} {σ τ : State} : run P O n (.set x a) σ ≠ .ok (.retd τ) := by
  cases n <;> simp [run]

theorem set_norm {n : Nat} {x : Var} {a : Arg} {σ τ : State} (h : run P O n (.set x a) σ = .ok (.norm τ)) :
    τ = σ.set x (a.eval σ) := by
  cases n with
  | zero => simp [run] at h
  | succ m => simp only [run, Except.ok.injEq, Flow.norm.injEq] at h; exact h.symm

theorem site_retd {n : Nat} {k t : String} {req : Option Atom} {σ τ : State} :
    run P O n (.site k t req) σ ≠ .ok (.retd τ) := by
  cases n with
  | zero => simp [run]
  | succ m =>
    cases req with
    | none => simp [run]
    | some a => simp only [run]; split <;> simp

theorem site_norm {n : Nat} {k t : String} {req : Option Atom} {σ τ : State}
    (h : run P O n (.site k t req) σ = .ok (.norm τ)) : τ = σ := by
  cases n with
  | zero => simp [run] at h
  | succ m =>
    cases req with
    | none => simp only [run, Except.ok.injEq, Flow.norm.injEq] at h; exact h.symm
    | some a =>
      simp only [run] at h
      split at h
      · simp only [Except.ok.injEq, Flow.norm.injEq] at h; exact h.symm
      · simp at h

theorem call_retd {n : Nat} {f : String} {outs : List Var} {ens : List Clause} {σ τ : State} :
    run P O n (.call f outs ens) σ ≠ .ok (.retd τ) := by
  cases n with
  | zero => simp [run]
  | succ m => simp only [run]; split <;> simp

/-- a call that ends normally assigned the oracle's answer and the answer met the contract -/
theorem call_norm {n : Nat} {f : String} {outs : List Var} {ens : List Clause} {σ τ : State}
    (h : run P O n (.call f outs ens) σ = .ok (.norm τ)) :
    τ = setMany σ outs (O f σ) ∧ ens.all (·.eval τ) = true := by
  cases n with
  | zero => simp [run] at h
  | succ m =>
    simp only [run] at h
    split at h
    · rename_i hc
      simp only [Except.ok.injEq, Flow.norm.injEq] at h
      subst h
      exact ⟨rfl, hc⟩
    · simp at h

/-- a sequence returns iff its first part returns, or its first part ends normally and the rest returns -/
theorem seq_retd {n : Nat} {a b : Stmt} {σ τ : State} (h : run P O n (.seq a b) σ = .ok (.retd τ)) :
    ∃ m, n = m + 1 ∧ (run P O m a σ = .ok (.retd τ) ∨
      ∃ σ', run P O m a σ = .ok (.norm σ') ∧ run P O m b σ' = .ok (.retd τ)) := by
  cases n with
  | zero => simp [run] at h
  | succ m =>
    refine ⟨m, rfl, ?_⟩
    simp only [run] at h
    split at h
    · rename_i σ' ha
      exact Or.inr ⟨σ', ha, h⟩
    · exact Or.inl h

theorem ite_retd {n : Nat} {c : Cond} {t e : Stmt} {σ τ : State} (h : run P O n (.ite c t e) σ = .ok (.retd τ)) :
    ∃ m, n = m + 1 ∧ ((c.eval σ = true ∧ run P O m t σ = .ok (.retd τ)) ∨
      (c.eval σ = false ∧ run P O m e σ = .ok (.retd τ))) := by
  cases n with
  | zero => simp [run] at h
  | succ m =>
    refine ⟨m, rfl, ?_⟩
    simp only [run] at h
    split at h
    · rename_i hc; exact Or.inl ⟨hc, h⟩
    · rename_i hc; exact Or.inr ⟨by simpa using hc, h⟩

theorem ite_norm {n : Nat} {c : Cond} {t e : Stmt} {σ τ : State} (h : run P O n (.ite c t e) σ = .ok (.norm τ)) :
    ∃ m, n = m + 1 ∧ ((c.eval σ = true ∧ run P O m t σ = .ok (.norm τ)) ∨
      (c.eval σ = false ∧ run P O m e σ = .ok (.norm τ))) := by
  cases n with
  | zero => simp [run] at h
  | succ m =>
    refine ⟨m, rfl, ?_⟩
    simp only [run] at h
    split at h
    · rename_i hc; exact Or.inl ⟨hc, h⟩
    · rename_i hc; exact Or.inr ⟨by simpa using hc, h⟩

end inversion

-- ------------------------------------------------------------------ oracle answers

/-- three distinct result variables receive the first three numbers of the answer (0 where it is short) -/
theorem setMany3 (σ : State) (a b c : Var) (ans : List Nat) (hab : a ≠ b) (hac : a ≠ c) (hbc : b ≠ c) :
    setMany σ [a, b, c] ans a = ans.getD 0 0 ∧ setMany σ [a, b, c] ans b = ans.getD 1 0 ∧
    setMany σ [a, b, c] ans c = ans.getD 2 0 := by
  match ans with
  | [] => simp [setMany, State.set, hab, hac, hbc]
  | [_] => simp [setMany, State.set, hab, hac, hbc]
  | [_, _] => simp [setMany, State.set, hab, hac, hbc]
  | _ :: _ :: _ :: _ => simp [setMany, State.set, hab, hac, hbc]

/-- two distinct result variables receive the first two numbers of the answer -/
theorem setMany2 (σ : State) (a b : Var) (ans : List Nat) (hab : a ≠ b) :
    setMany σ [a, b] ans a = ans.getD 0 0 ∧ setMany σ [a, b] ans b = ans.getD 1 0 := by
  match ans with
  | [] => simp [setMany, State.set, hab]
  | [_] => simp [setMany, State.set, hab]
  | _ :: _ :: _ => simp [setMany, State.set, hab]

-- ------------------------------------------------------------------ the step

/-- One step of filterTx's output loop never ends in `return`, for every program table, budget and initial
    state, when (i) a failing `utils.ParsePkScript` reports ErrUnsupportedScript (C16's contract, second
    and third numbers of the answer) and (ii) the keystore lookup does not fail (second number of its
    answer). Unsupported script: `continue`. Supported script: the parse contract gives `ps ≠ nil`, the
    lookup leaves `merr = 0`, so `if merr != nil { return }` is not taken and the step ends normally (or in
    `Fault.contract` / `Fault.fuel`, which are not returns). -/
theorem filterTxOutStep_no_retd (P : Prog) (O : Oracle) (n : Nat) (σ : State)
    (hparse : ∀ σ, (O "utils.ParsePkScript" σ).getD 1 0 = 0 ∨ (O "utils.ParsePkScript" σ).getD 2 0 ≠ 0)
    (hks : ∀ τ, (O "w.ksmgr.GetManagedAddressByScriptHash" τ).getD 1 0 = 0) (τ : State) :
    run P O n filterTxOutStep σ ≠ .ok (.retd τ) := by
  intro h
  unfold filterTxOutStep at h
  obtain ⟨n1, rfl, h | ⟨σ1, hcall, h⟩⟩ := seq_retd h
  · exact call_retd h
  obtain ⟨hσ1, -⟩ := call_norm hcall
  obtain ⟨-, hperr, hpuns⟩ := setMany3 σ (V "ps") (V "pserr") (V "pserr.unsupported") (O "utils.ParsePkScript" σ)
    (by decide) (by decide) (by decide)
  rw [← hσ1] at hperr hpuns
  obtain ⟨n2, rfl, ⟨hc, h⟩ | ⟨hc, h⟩⟩ := ite_retd h
  · -- ParsePkScript failed: by C16's contract the error is ErrUnsupportedScript → `continue`
    have hne : σ1 (V "pserr") ≠ 0 := by simpa [nz, Cond.eval, Atom.eval] using hc
    have huns : σ1 (V "pserr.unsupported") ≠ 0 := by
      rcases hparse σ with h0 | h2
      · exact absurd (hperr.trans h0) hne
      · rw [hpuns]; exact h2
    obtain ⟨n3, rfl, ⟨-, h⟩ | ⟨hc', -⟩⟩ := ite_retd h
    · exact skip_retd h
    · simp [nz, Cond.eval, Atom.eval, huns] at hc'
  · -- supported script
    obtain ⟨n3, rfl, h3 | ⟨σ2, -, h3⟩⟩ := seq_retd h
    · exact site_retd h3
    obtain ⟨n4, rfl, h4 | ⟨σ3, hcall2, h4⟩⟩ := seq_retd h3
    · exact call_retd h4
    obtain ⟨hσ3, -⟩ := call_norm hcall2
    obtain ⟨-, hmerr⟩ := setMany2 σ2 (V "ma") (V "merr") (O "w.ksmgr.GetManagedAddressByScriptHash" σ2) (by decide)
    rw [← hσ3, hks σ2] at hmerr
    obtain ⟨n5, rfl, h5 | ⟨σ4, -, h5⟩⟩ := seq_retd h4
    · -- `if merr != nil { err = merr; return }` is not taken
      obtain ⟨n6, rfl, ⟨hc', -⟩ | ⟨-, h6⟩⟩ := ite_retd h5
      · simp [nz, Cond.eval, Atom.eval, hmerr] at hc'
      · exact skip_retd h6
    · obtain ⟨n6, rfl, ⟨-, h6⟩ | ⟨-, h6⟩⟩ := ite_retd h5
      · exact site_retd h6
      · exact skip_retd h6

/-- a loop whose body never returns never returns (any budget, any iteration count) -/
theorem iter_retd {P : Prog} {O : Oracle} {i cnt : Var} {body : Stmt}
    (hbody : ∀ n σ τ, run P O n body σ ≠ .ok (.retd τ)) :
    ∀ (n k : Nat) (σ τ : State), run P O n (.iter i cnt k body) σ ≠ .ok (.retd τ) := by
  intro n
  induction n with
  | zero => intro k σ τ h; simp [run] at h
  | succ n ih =>
    intro k σ τ h
    rw [run] at h
    by_cases hk : k < σ cnt
    · cases hb : run P O n body (σ.set i k) with
      | error e => simp [hk, hb] at h
      | ok fl =>
        cases fl with
        | norm σ' => simp only [hk, if_true, hb] at h; exact ih _ _ _ h
        | retd σ' => exact hbody _ _ _ hb
    · simp [hk] at h

theorem loop_retd {P : Prog} {O : Oracle} {i cnt : Var} {inv : List Atom} {body : Stmt}
    (hbody : ∀ n σ τ, run P O n body σ ≠ .ok (.retd τ)) (n : Nat) (σ τ : State) :
    run P O n (.loop i cnt inv body) σ ≠ .ok (.retd τ) := by
  cases n with
  | zero => intro h; simp [run] at h
  | succ n =>
    rw [run]
    exact iter_retd hbody n 0 σ τ

/-- the whole output loop of filterTx (`for … range tx.TxOut`), any number of outputs: it is never left by `return` -/
theorem filterTxOutLoop_no_retd (P : Prog) (O : Oracle) (n : Nat) (σ : State) (inv : List Atom)
    (hparse : ∀ σ, (O "utils.ParsePkScript" σ).getD 1 0 = 0 ∨ (O "utils.ParsePkScript" σ).getD 2 0 ≠ 0)
    (hks : ∀ τ, (O "w.ksmgr.GetManagedAddressByScriptHash" τ).getD 1 0 = 0) (τ : State) :
    run P O n (.loop "ft.o" "tx.TxOut" inv filterTxOutStep) σ ≠ .ok (.retd τ) :=
  loop_retd (fun n σ τ => filterTxOutStep_no_retd P O n σ hparse hks τ) n σ τ

/-- witness oracle for the non-vacuity examples of MW.Props.C19.no_stall_full (SUPPORTED-script branch):
    ParsePkScript answers ps = 1, pserr = 0; the keystore lookup answers ma = 1, merr = 0 -/
def supportedOracle : Oracle := fun f _ =>
  if f = "utils.ParsePkScript" then [1, 0, 0] else if f = "w.ksmgr.GetManagedAddressByScriptHash" then [1, 0] else []

end MW.Lemmas.ApiStall
