/-
  LedBytes — `sizes_of_inv`, disconnect side: the write-back condition `RollbackBals` of `disconnectBlock_on_bytes'`
  follows from C01's invariant `Inv` and the chain-level bounds `ChainBounds`.
    KEYS    every key of Rollback's working balances is a key of bucket `bal` or a wallet id returned by the keystore
            (`R.ownA` / `R.ownS`): 42 bytes                                     — frame lemma on bytes (`BalKeys`)
    VALUES  every entry of the model's working balances is an entry of the initial balances or the LIVE entry of a
            wallet that owns an address (`QB`) — frame lemma on the model; a live entry of a ready wallet is the total
            of the books of the chain without its tip (`rollbackBlockAt_tip`), below 2^64 by `ChainBounds.supply`.
-/
import MW.Lemmas.LedBytesFinal
import MW.Lemmas.LedgerTraceDefs
namespace MW.LedBytes
open MW MW.Gen.Codec MW.Model.TxmgrCodec MW.TxmgrCodec MW.Model.Ledger MW.Spec.Chain MW.Spec.Books MW.Lemmas.Ledger
  MW.Lemmas.Ledger.Trace

-- ------------------------------------------------------------------ KEYS: frame lemma on bytes

/-- every key of the working balances is a 42-byte wallet id -/
def BalKeys (bals : BBals) : Prop := ∀ e ∈ bals, e.1.length = 42

theorem balKeys_put {bals : BBals} {w : Bytes} (v : Nat) (hb : BalKeys bals) (hw : w.length = 42) :
    BalKeys (AMap.put bals w v) := by
  intro e he
  unfold AMap.put at he
  rcases List.mem_cons.mp he with rfl | he
  · exact hw
  · exact hb e (List.mem_filter.mp he).1

theorem rollbackOwnedOutB_keys {txh : Bytes} {blk : BlockMetaB} {sb sb' : SB} {i : Nat} {o : OutB} {w : Bytes}
    (hw : w.length = 42) (hb : BalKeys sb.2) (h : rollbackOwnedOutB txh blk sb i o w = .ok sb') : BalKeys sb'.2 := by
  unfold rollbackOwnedOutB at h
  split at h
  · split at h
    · cases h
    · cases h; exact balKeys_put _ hb hw
  · cases h; exact hb

variable {E : Env} {c : Ctx}

theorem rollbackCbOutB_keys (R : RbEnv E c) {txh : Bytes} {blk : BlockMetaB} {acc acc' : CbAcc} {i : Nat} {o : OutB}
    (hb : BalKeys acc.1.2) (h : rollbackCbOutB R txh blk acc i o = .ok acc') : BalKeys acc'.1.2 := by
  unfold rollbackCbOutB at h
  split at h
  · cases h; exact hb
  · simp only [] at h
    split at h
    · cases h
    · split at h
      · cases h; exact hb
      · rename_i w ch hown
        simp only [bind, Except.bind] at h
        split at h
        · cases h
        · rename_i sb hsb
          have hs : BalKeys sb.2 := by
            refine rollbackOwnedOutB_keys (R.ownA_wf _ _ hown) ?_ hsb
            exact hb
          split at h
          · cases h; exact hs
          · cases h; exact hs

theorem rollbackInB_keys (R : RbEnv E c) {txh : Bytes} {blk : BlockMetaB} {sb sb' : SB} {cur : Nat} {inp : InB}
    (hb : BalKeys sb.2) (h : rollbackInB R txh blk sb cur inp = .ok sb') : BalKeys sb'.2 := by
  unfold rollbackInB at h
  simp only [] at h
  split at h
  · cases h; exact hb
  · split at h
    · cases h
    · split at h
      · cases h
      · split at h
        · cases h
        · split at h
          · cases h; exact hb
          · rename_i w ch hown
            have hw : w.length = 42 := R.ownS_wf _ _ hown
            split at h
            · split at h
              · split at h
                · cases h
                · cases h; exact balKeys_put _ hb hw
              · cases h; exact balKeys_put _ hb hw
            · cases h

theorem rollbackOutB_keys (R : RbEnv E c) {txh : Bytes} {blk : BlockMetaB} {sb sb' : SB} {i : Nat} {o : OutB}
    (hb : BalKeys sb.2) (h : rollbackOutB R txh blk sb i o = .ok sb') : BalKeys sb'.2 := by
  unfold rollbackOutB at h
  split at h
  · cases h; exact hb
  · split at h
    · cases h
    · simp only [] at h
      split at h
      · cases h
      · split at h
        · cases h; exact hb
        · rename_i w ch hown
          simp only [bind, Except.bind] at h
          split at h
          · cases h
          · rename_i sb1 hsb
            have hs : BalKeys sb1.2 := by
              refine rollbackOwnedOutB_keys (R.ownA_wf _ _ hown) ?_ hsb
              exact hb
            split at h
            · cases h; exact hs
            · cases h; exact hs

theorem rollbackTxB_keys (R : RbEnv E c) {txh : Bytes} {blk : BlockMetaB} {time : Nat} {sb : SB} {x : RbRes}
    (hb : BalKeys sb.2) (h : rollbackTxB R txh blk time sb = .ok x) : BalKeys x.1.2 := by
  unfold rollbackTxB at h
  split at h
  · cases h; exact hb
  · split at h
    · cases h; exact hb
    · split at h
      · cases h
      · rename_i tv loc tx hf
        simp only [] at h
        split at h
        · refine foldIdxM_post (rollbackCbOutB R txh blk) (fun (a : CbAcc) => BalKeys a.1.2) tx.outs.length
            (fun b i a b' hb _ hs => rollbackCbOutB_keys R hb hs) tx.outs 0 _ x ?_ (by omega) h
          exact hb
        · simp only [bind, Except.bind] at h
          split at h
          · cases h
          · rename_i sb1 h1
            have s1 : BalKeys sb1.2 := by
              refine foldIdxM_post (rollbackInB R txh blk) (fun (b : SB) => BalKeys b.2) (tx.ins.length)
                (fun b i a b' hb _ hs => rollbackInB_keys R hb hs) tx.ins 0 _ sb1 ?_ (by omega) h1
              exact hb
            split at h
            · cases h
            · rename_i sb2 h2
              have s2 := foldIdxM_post (rollbackOutB R txh blk) (fun (b : SB) => BalKeys b.2) (tx.outs.length)
                (fun b i a b' hb _ hs => rollbackOutB_keys R hb hs) tx.outs 0 _ sb2 s1 (by omega) h2
              cases h
              exact s2

theorem rollbackBlockAtB_keys (R : RbEnv E c) {acc acc' : RbAccB} {cur : Nat} (hb : BalKeys acc.bals)
    (h : rollbackBlockAtB R acc cur = .ok acc') : BalKeys acc'.bals := by
  unfold rollbackBlockAtB at h
  split at h
  · cases h; exact hb
  · split at h
    · cases h
    · rename_i r hr
      refine foldlM_post _ (fun (a : RbAccB) => BalKeys a.bals) (fun _ => True) ?_ r.txs.reverse { acc with heights := acc.heights ++ [cur] } acc' hb
        (fun _ _ => trivial) h
      intro a txh a' ha _ hs
      simp only [bind, Except.bind] at hs
      split at hs
      · cases hs
      · rename_i x hx
        have := rollbackTxB_keys R ha hx
        cases hs
        exact this

/-- FetchAllMinedBalance of a canonical bucket fits -/
theorem fetchAllBalB_wf (N : Names) {bal : AMap.T Bytes Bytes} (hc : Canon (cdBal N) bal) : BalsWF (fetchAllBalB bal) := by
  intro e he
  unfold fetchAllBalB at he
  obtain ⟨x, hx, hxe⟩ := List.mem_filterMap.mp he
  obtain ⟨k, v, hk, hv, rfl⟩ := hc x hx
  have hk' : k.length = 42 := hk
  have hv' : v < 256 ^ 8 := hv
  simp only [encEntry, cdBal, hk', if_true] at hxe
  rw [decBalance_enc v hv'] at hxe
  simp only [Option.map_some, Option.some.injEq] at hxe
  subst hxe
  exact ⟨hk', hv'⟩

-- ------------------------------------------------------------------ VALUES: frame lemma on the model

/-- wallet `w` owns an address of the keystore view -/
def Ow (own : Own) (w : Wid) : Prop := ∃ a ch, AMap.get own a = some (w, ch)

/-- every entry of the working balances is an entry of the initial ones or the live entry of an owning wallet -/
def QB (own : Own) (b0 bals : Bals) : Prop :=
  ∀ e ∈ bals, e ∈ b0 ∨ (Ow own e.1 ∧ AMap.get bals e.1 = some e.2)

theorem QB.refl (own : Own) (b0 : Bals) : QB own b0 b0 := fun _ he => Or.inl he

theorem QB.put {own : Own} {b0 bals : Bals} {w : Wid} (v : Nat) (hq : QB own b0 bals) (hw : Ow own w) :
    QB own b0 (AMap.put bals w v) := by
  intro e he
  have he' := he
  unfold AMap.put at he'
  rcases List.mem_cons.mp he' with rfl | he'
  · right
    refine ⟨hw, ?_⟩
    rw [AMap.get_put]; simp
  · obtain ⟨hm, hne⟩ := List.mem_filter.mp he'
    have hne' : ¬ w = e.1 := by
      intro h; simp [h] at hne
    rcases hq e hm with h | ⟨h1, h2⟩
    · exact Or.inl h
    · right
      refine ⟨h1, ?_⟩
      rw [AMap.get_put, if_neg hne']; exact h2

theorem rollbackOwnedOut_qb {own : Own} {b0 : Bals} {id : TxId} {blk : BlockMeta} {s : Store} {bals : Bals}
    {sb' : Store × Bals} {i : Nat} {o : Out} {w : Wid}
    (hw : Ow own w) (hq : QB own b0 bals) (h : rollbackOwnedOut id blk (s, bals) i o w = .ok sb') : QB own b0 sb'.2 := by
  unfold rollbackOwnedOut at h
  split at h
  · split at h
    · cases h
    · cases h; exact hq.put _ hw
  · cases h; exact hq

theorem rollbackCbOut_qb (c : Ctx) {b0 : Bals} {id : TxId} {blk : BlockMeta} {acc acc' : (Store × Bals) × List (TxId × Nat)}
    {i : Nat} {o : Out} (hq : QB c.own b0 acc.1.2) (h : rollbackCbOut c id blk acc i o = .ok acc') :
    QB c.own b0 acc'.1.2 := by
  unfold rollbackCbOut at h
  simp only [] at h
  split at h
  · cases h; exact hq
  · split at h
    · cases h
    · split at h
      · cases h; exact hq
      · rename_i w ch hown
        simp only [bind, Except.bind] at h
        split at h
        · cases h
        · rename_i sb hsb
          have hs : QB c.own b0 sb.2 := by
            refine rollbackOwnedOut_qb ⟨_, _, hown⟩ ?_ hsb
            exact hq
          split at h
          · cases h; exact hs
          · cases h; exact hs

theorem rollbackIn_qb (c : Ctx) {b0 : Bals} {id : TxId} {blk : BlockMeta} {sb sb' : Store × Bals} {cur : Nat} {i : Inp}
    (hq : QB c.own b0 sb.2) (h : rollbackIn c id blk sb cur i = .ok sb') : QB c.own b0 sb'.2 := by
  unfold rollbackIn at h
  simp only [] at h
  split at h
  · cases h; exact hq
  · split at h
    · cases h
    · split at h
      · cases h; exact hq
      · rename_i w ch hown
        have hw : Ow c.own w := ⟨_, _, hown⟩
        split at h
        · split at h
          · cases h
          · cases h; exact hq.put _ hw
        · cases h; exact hq.put _ hw

theorem rollbackOut_qb (c : Ctx) {b0 : Bals} {id : TxId} {blk : BlockMeta} {sb sb' : Store × Bals} {i : Nat} {o : Out}
    (hq : QB c.own b0 sb.2) (h : rollbackOut c id blk sb i o = .ok sb') : QB c.own b0 sb'.2 := by
  unfold rollbackOut at h
  simp only [] at h
  split at h
  · cases h; exact hq
  · split at h
    · cases h
    · split at h
      · cases h; exact hq
      · rename_i w ch hown
        simp only [bind, Except.bind] at h
        split at h
        · cases h
        · rename_i sb1 hsb
          have hs : QB c.own b0 sb1.2 := by
            refine rollbackOwnedOut_qb ⟨_, _, hown⟩ ?_ hsb
            exact hq
          split at h
          · cases h; exact hs
          · cases h; exact hs

theorem rollbackTx_qb (c : Ctx) {b0 : Bals} {s : Store} {bals : Bals} {blk : BlockMeta} {id : TxId}
    {x : Store × Bals × List (TxId × Nat)} (hq : QB c.own b0 bals) (h : rollbackTx c s bals blk id = .ok x) :
    QB c.own b0 x.2.1 := by
  unfold rollbackTx at h
  split at h
  · cases h; exact hq
  · split at h
    · cases h
    · rename_i loc tx hf
      simp only [] at h
      split at h
      · simp only [bind, Except.bind] at h
        split at h
        · cases h
        · rename_i r hr
          have hr' : QB c.own b0 r.1.2 := by
            refine foldIdxM_post (rollbackCbOut c id blk) (fun a => QB c.own b0 a.1.2) tx.outs.length
              (fun b i a b' hb _ hs => rollbackCbOut_qb c hb hs) tx.outs 0 _ r ?_ (by omega) hr
            exact hq
          cases h
          exact hr'
      · simp only [bind, Except.bind] at h
        split at h
        · cases h
        · rename_i sb1 h1
          have s1 : QB c.own b0 sb1.2 := by
            refine foldIdxM_post (rollbackIn c id blk) (fun b => QB c.own b0 b.2) tx.ins.length
              (fun b i a b' hb _ hs => rollbackIn_qb c hb hs) tx.ins 0 _ sb1 ?_ (by omega) h1
            exact hq
          split at h
          · cases h
          · rename_i sb2 h2
            have s2 := foldIdxM_post (rollbackOut c id blk) (fun b => QB c.own b0 b.2) tx.outs.length
              (fun b i a b' hb _ hs => rollbackOut_qb c hb hs) tx.outs 0 _ sb2 s1 (by omega) h2
            cases h
            exact s2

theorem rollbackBlockAt_qb (c : Ctx) {b0 : Bals} {acc acc' : RbAcc} {cur : Nat} (hq : QB c.own b0 acc.bals)
    (h : rollbackBlockAt c acc cur = .ok acc') : QB c.own b0 acc'.bals := by
  unfold rollbackBlockAt at h
  split at h
  · cases h; exact hq
  · rename_i bh txs hg
    refine foldlM_post _ (fun (a : RbAcc) => QB c.own b0 a.bals) (fun _ => True) ?_ txs.reverse
      { acc with heights := acc.heights ++ [cur] } acc' hq (fun _ _ => trivial) h
    intro a id a' ha _ hs
    simp only [bind, Except.bind] at hs
    split at hs
    · cases hs
    · rename_i x hx
      have := rollbackTx_qb c ha hx
      cases hs
      exact this

-- ------------------------------------------------------------------ the assembly

/-- **`sizes_of_inv`, disconnect side**: on a store that holds the books of `T ++ [b]`, the working balances that
    `Rollback(b.height)` writes back fit their fields -/
theorem rollbackBals_of_inv {E : Env} {c : Ctx} (R : RbEnv E c) {bs : BStore} (hC : CanonS E bs) {T : List Block} {b : Block}
    (hI : Inv c (absStore E bs) (T ++ [b])) (hne : T ≠ []) (hV : ChainValid c.own (T ++ [b])) (hH : HeightsOK (T ++ [b]))
    (hk : AMap.get c.node.known b.id = some b) (hAR : AllReady c.own (readyWallets (absStore E bs) c.wallets))
    (hB : ChainBounds c.p c.own (T ++ [b])) : RollbackBals R bs b.height := by
  have _ := hne
  intro acc hacc
  have hbh : b.height = T.length := heightsOK_mid hH
  have hst : syncedToOf bs.sync = b.height := by
    have := hI.syncedTo
    have e : (absStore E bs).syncedTo = syncedToOf bs.sync := rfl
    rw [e] at this
    simp only [List.length_append, List.length_singleton] at this
    omega
  have hlen := hB.height
  simp only [List.length_append, List.length_singleton] at hlen
  have hcur : b.height < 256 ^ 8 := by
    have : (2 : Nat) ^ 62 < 256 ^ 8 := by decide
    omega
  have hhs : (List.range (syncedToOf bs.sync + 1 - b.height)).map (fun k => syncedToOf bs.sync - k) = [b.height] := by
    rw [hst, show b.height + 1 - b.height = 1 by omega]
    simp [List.range_succ]
  rw [hhs] at hacc
  simp only [List.foldlM_cons, List.foldlM_nil] at hacc
  have hacc' : rollbackBlockAtB R { bs := bs, bals := fetchAllBalB bs.bal } b.height = .ok acc := by
    cases hf : rollbackBlockAtB R { bs := bs, bals := fetchAllBalB bs.bal } b.height with
    | error e => rw [hf] at hacc; cases hacc
    | ok a => rw [hf] at hacc; cases hacc; rfl
  -- KEYS
  have hW0 := fetchAllBalB_wf E.N hC.bal
  have hkeys : BalKeys acc.bals :=
    rollbackBlockAtB_keys R (acc := { bs := bs, bals := fetchAllBalB bs.bal }) (fun e he => (hW0 e he).1) hacc'
  -- VALUES: the run on bytes is the model's run
  obtain ⟨f1, _⟩ := rollbackBlockAt_on_bytes R (acc := { bs := bs, bals := fetchAllBalB bs.bal }) hC hcur
  have hinit : absAcc E { bs := bs, bals := fetchAllBalB bs.bal }
      = { s := absStore E bs, bals := (absStore E bs).balance } := by
    simp only [absAcc, List.map_nil]
    rw [fetchAllBal_abs]; rfl
  rw [hinit, hacc'] at f1
  obtain ⟨acc', hrun, _, hB', _, _⟩ :=
    rollbackBlockAt_tip hAR hV hH hk { s := absStore E bs, bals := (absStore E bs).balance } hI.agree.toR
      (hI.agree.blocks b.height) (fun w hw => hI.bal w hw)
  rw [hrun] at f1
  have hacc_eq : absAcc E acc = acc' := Except.ok.inj f1
  have hq : QB c.own (absStore E bs).balance acc'.bals :=
    rollbackBlockAt_qb c (acc := { s := absStore E bs, bals := (absStore E bs).balance }) (QB.refl _ _) hrun
  have hbals : acc'.bals = absBals E.N acc.bals := by rw [← hacc_eq]; rfl
  intro e he
  refine ⟨hkeys e he, ?_⟩
  have hmem : (E.N.wal e.1, e.2) ∈ acc'.bals := by
    rw [hbals]; exact List.mem_map.mpr ⟨e, he, rfl⟩
  rcases hq _ hmem with h0 | ⟨⟨a, ch, hown⟩, hg⟩
  · have e0 : (absStore E bs).balance = absBals E.N (fetchAllBalB bs.bal) := (fetchAllBal_abs E.N bs.bal).symm
    rw [e0] at h0
    obtain ⟨x, hx, hxe⟩ := List.mem_map.mp h0
    have : x.2 = e.2 := (Prod.mk.inj hxe).2
    rw [← this]; exact (hW0 x hx).2
  · have hr := hAR _ _ _ hown
    have ht := hB' _ hr
    rw [hg] at ht
    have hv : e.2 = totalU (bookOf c.p c.own T).L (E.N.wal e.1) := Option.some.inj ht
    rw [hv]
    have hs := hB.supply T.length (E.N.wal e.1)
    rw [List.take_left' rfl] at hs
    have : (2 : Nat) ^ 64 = 256 ^ 8 := by decide
    omega

/-- **the simulation of `disconnectBlock` at a call the follower makes** (`PdInv`): no run hypothesis left -/
theorem disc_sim_of_inv {E : Env} {c : Ctx} (H : HEnv E c) {bs : BStore} (hC : CanonS E bs) {h : Nat}
    (hP : PdInv c (absStore E bs) h) :
    (discOf H bs h).map (absStore E) = disconnectBlock c (absStore E bs) h ∧ ∀ bs', discOf H bs h = .ok bs' → CanonS E bs' := by
  rcases hP with h0 | ⟨T, b, hI, hne, hbh, hV, hH, hk, hAR, hB⟩
  · subst h0
    unfold discOf disconnectBlockB disconnectBlock
    simp only [if_true]
    exact ⟨rfl, fun _ h => by cases h⟩
  · subst hbh
    have hcur : syncedToOf bs.sync < collisionHeight := by
      have h1 := hI.syncedTo
      have e : (absStore E bs).syncedTo = syncedToOf bs.sync := rfl
      rw [e] at h1
      have h2 := hB.height
      have h3 : (2 : Nat) ^ 62 < collisionHeight := by decide
      omega
    exact disconnectBlock_on_bytes' H.R H.P hC hcur (rollbackBals_of_inv H.R hC hI hne hV hH hk hAR hB)

end MW.LedBytes
