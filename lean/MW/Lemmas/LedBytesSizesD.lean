/-
  LedBytes — `sizes_of_inv`, disconnect side: the write-back condition `RollbackBals` of `disconnectBlock_on_bytes'`
  follows from C01's invariant `Inv` and the chain-level bounds `ChainBounds`.
    KEYS    every key of Rollback's working balances is a key of bucket `bal` or a wallet id returned by the keystore
            (`R.ownA` / `R.ownS`): 42 bytes                                     — frame lemma on bytes (`BalKeys`)
    VALUES  every entry of the model's working balances is an entry of the initial balances or the LIVE entry of a
            wallet that owns an address (`QB`) — frame lemma on the model; a live entry of a ready wallet is the total
            of the books of the chain without its tip (`rollbackBlockAt_tip`), below 2^64 by `ChainBounds.supply`.
-/
import MW.Lemmas.LedBytesFinal
import MW.Lemmas.LedgerTraceDefs
namespace MW.LedBytes
open MW MW.Gen.Codec MW.Model.TxmgrCodec MW.TxmgrCodec MW.Model.Ledger MW.Spec.Chain MW.Spec.Books MW.Lemmas.Ledger
  MW.Lemmas.Ledger.Trace

-- ------------------------------------------------------------------ KEYS: frame lemma on bytes

/-- every key of the working balances is a 42-byte wallet id -/
def BalKeys (bals : BBals) : Prop := ∀ e ∈ bals, e.1.length = 42

theorem balKeys_put {bals : BBals} {w : Bytes} (v : Nat) (hb : BalKeys bals) (hw : w.length = 42) :
    BalKeys (AMap.put bals w v) := by
  intro e he
  unfold AMap.put at he
  rcases List.mem_cons.mp he with rfl | he
  · exact hw
  · exact hb e (List.mem_filter.mp he).1

theorem rollbackOwnedOutB_keys {txh : Bytes} {blk : BlockMetaB} {sb sb' : SB} {i : Nat} {o : OutB} {w : Bytes}
    (hw : w.length = 42) (hb : BalKeys sb.2) (h : rollbackOwnedOutB txh blk sb i o w = .ok sb') : BalKeys sb'.2 := by
  unfold rollbackOwnedOutB at h
  split at h
  · split at h
    · cases h
    · cases h; exact balKeys_put _ hb hw
  · cases h; exact hb

variable {E : Env} {c : Ctx}

theorem rollbackCbOutB_keys (R : RbEnv E c) {txh : Bytes} {blk : BlockMetaB} {acc acc' : CbAcc} {i : Nat} {o : OutB}
    (hb : BalKeys acc.1.2) (h : rollbackCbOutB R txh blk acc i o = .ok acc') : BalKeys acc'.1.2 := by
  unfold rollbackCbOutB at h
  split at h
  · cases h; exact hb
  · simp only [] at h
    split at h
    · cases h
    · split at h
      · cases h; exact hb
      · rename_i w ch hown
        simp only [bind, Except.bind] at h
        split at h
        · cases h
        · rename_i sb hsb
          have hs : BalKeys sb.2 := by
            refine rollbackOwnedOutB_keys (R.ownA_wf _ _ hown) ?_ hsb
            exact hb
          split at h
          · cases h; exact hs
          · cases h; exact hs

theorem rollbackInB_keys (R : RbEnv E c) {txh : Bytes} {blk : BlockMetaB} {sb sb' : SB} {cur : Nat} {inp : InB}
    (hb : BalKeys sb.2) (h : rollbackInB R txh blk sb cur inp = .ok sb') : BalKeys sb'.2 := by
  unfold rollbackInB at h
  simp only [] at h
  split at h
  · cases h; exact hb
  · split at h
    · cases h
    · split at h
      · cases h
      · split at h
        · cases h
        · split at h
          · cases h; exact hb
          · rename_i w ch hown
            have hw : w.length = 42 := R.ownS_wf _ _ hown
            split at h
            · split at h
              · split at h
                · cases h
                · cases h; exact balKeys_put _ hb hw
              · cases h; exact balKeys_put _ hb hw
            · cases h

theorem rollbackOutB_keys (R : RbEnv E c) {txh : Bytes} {blk : BlockMetaB} {sb sb' : SB} {i : Nat} {o : OutB}
    (hb : BalKeys sb.2) (h : rollbackOutB R txh blk sb i o = .ok sb') : BalKeys sb'.2 := by
  unfold rollbackOutB at h
  split at h
  · cases h; exact hb
  · split at h
    · cases h
    · simp only [] at h
      split at h
      · cases h
      · split at h
        · cases h; exact hb
        · rename_i w ch hown
          simp only [bind, Except.bind] at h
          split at h
          · cases h
          · rename_i sb1 hsb
            have hs : BalKeys sb1.2 := by
              refine rollbackOwnedOutB_keys (R.ownA_wf _ _ hown) ?_ hsb
              exact hb
            split at h
            · cases h; exact hs
            · cases h; exact hs

theorem rollbackTxB_keys (R : RbEnv E c) {txh : Bytes} {blk : BlockMetaB} {time : Nat} {sb : SB} {x : RbRes}
    (hb : BalKeys sb.2) (h : rollbackTxB R txh blk time sb = .ok x) : BalKeys x.1.2 := by
  unfold rollbackTxB at h
  split at h
  · cases h; exact hb
  · split at h
    · cases h; exact hb
    · split at h
      · cases h
      · rename_i tv loc tx hf
        simp only [] at h
        split at h
        · refine foldIdxM_post (rollbackCbOutB R txh blk) (fun (a : CbAcc) => BalKeys a.1.2) tx.outs.length
            (fun b i a b' hb _ hs => rollbackCbOutB_keys R hb hs) tx.outs 0 _ x ?_ (by omega) h
          exact hb
        · simp only [bind, Except.bind] at h
          split at h
          · cases h
          · rename_i sb1 h1
            have s1 : BalKeys sb1.2 := by
              refine foldIdxM_post (rollbackInB R txh blk) (fun (b : SB) => BalKeys b.2) (tx.ins.length)
                (fun b i a b' hb _ hs => rollbackInB_keys R hb hs) tx.ins 0 _ sb1 ?_ (by omega) h1
              exact hb
            split at h
            · cases h
            · rename_i sb2 h2
              have s2 := foldIdxM_post (rollbackOutB R txh blk) (fun (b : SB) => BalKeys b.2) (tx.outs.length)
                (fun b i a b' hb _ hs => rollbackOutB_keys R hb hs) tx.outs 0 _ sb2 s1 (by omega) h2
              cases h
              exact s2

theorem rollbackBlockAtB_keys (R : RbEnv E c) {acc acc' : RbAccB} {cur : Nat} (hb : BalKeys acc.bals)
    (h : rollbackBlockAtB R acc cur = .ok acc') : BalKeys acc'.bals := by
  unfold rollbackBlockAtB at h
  split at h
  · cases h; exact hb
  · split at h
    · cases h
    · rename_i r hr
      refine foldlM_post _ (fun (a : RbAccB) => BalKeys a.bals) (fun _ => True) ?_ r.txs.reverse { acc with heights := acc.heights ++ [cur] } acc' hb
        (fun _ _ => trivial) h
      intro a txh a' ha _ hs
      simp only [bind, Except.bind] at hs
      split at hs
      · cases hs
      · rename_i x hx
        have := rollbackTxB_keys R ha hx
        cases hs
        exact this

/-- FetchAllMinedBalance of a canonical bucket fits -/
theorem fetchAllBalB_wf (N : Names) {bal : AMap.T Bytes Bytes} (hc : Canon (cdBal N) bal) : BalsWF (fetchAllBalB bal) := by
  intro e he
  unfold fetchAllBalB at he
  obtain ⟨x, hx, hxe⟩ := List.mem_filterMap.mp he
  obtain ⟨k, v, hk, hv, rfl⟩ := hc x hx
  have hk' : k.length = 42 := hk
  have hv' : v < 256 ^ 8 := hv
  simp only [encEntry, cdBal, hk', if_true] at hxe
  rw [decBalance_enc v hv'] at hxe
  simp only [Option.map_some, Option.some.injEq] at hxe
  subst hxe
  exact ⟨hk', hv'⟩

end MW.LedBytes
