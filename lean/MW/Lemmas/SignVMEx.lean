/-
  C03 round 4: a toy `Crypto` with a byte `Codec` (non-vacuity of the codec laws; evaluation tests that run the
  script VM model itself on signed transactions).
-/
import MW.Lemmas.SignVM
namespace MW.Lemmas.SignVMEx
open MW MW.Model.Sign MW.Model.ScriptVM MW.Lemmas.SignVM MW.Lemmas.ScriptVMParse

/-- toy signatures over 7-bit values: a signature is the pair (key, message) -/
@[reducible] def tinyCrypto : Crypto where
  SK := Fin 128
  PK := Fin 128
  Sig := Fin 128 × Fin 128
  Msg := Fin 128
  Pass := Nat
  Params := Nat
  decPass := inferInstance
  pkOf := fun sk => sk
  sign := fun sk m => (sk, m)
  verify := fun pk m s => s == (pk, m)
  derive := fun q p => p == q
  params := id
  verify_sign := by intro sk m; simp
  kdf_correct := by intro pass p; simp

def tinyParsePK (b : Bytes) : Option (Fin 128) :=
  match b with
  | p :: x :: rest => if h : p = 2 ∧ rest = List.replicate 31 0 ∧ x.toNat < 128 then some ⟨x.toNat, h.2.2⟩ else none
  | _ => none

def tinyParseSig (b : Bytes) : Option (Fin 128 × Fin 128) :=
  match b with
  | [0x30, 6, 2, 1, r, 2, 1, s] => if h : r.toNat < 128 ∧ s.toNat < 128 then some (⟨r.toNat, h.1⟩, ⟨s.toNat, h.2⟩) else none
  | _ => none

theorem fin128_byte (x : Fin 128) : (UInt8.ofNat x.val).toNat = x.val := by
  simp [UInt8.toNat_ofNat']; omega

/-- a byte codec for `tinyCrypto`: 33-byte keys `02 x 00…`, DER signatures `30 06 02 01 r 02 01 s` -/
def tinyCodec : Codec tinyCrypto where
  sha256 := fun b => (b ++ List.replicate 32 0).take 32
  encPK := fun pk => 2 :: UInt8.ofNat pk.val :: List.replicate 31 0
  parsePK := tinyParsePK
  encSig := fun s => [0x30, 6, 2, 1, UInt8.ofNat s.1.val, 2, 1, UInt8.ofNat s.2.val]
  parseSig := tinyParseSig
  sighash := fun tx i amt code ht => Fin.ofNat 128 (tx.lock + i + amt + code.length + ht)
  sha256_len := by intro b; simp
  encPK_compressed := by intro pk; simp [isCompressed, byteAt]
  parsePK_enc := by
    intro pk
    have h := fin128_byte pk
    simp [tinyParsePK, h]
  encSig_strict := by
    intro s
    have l1 : s.1.val < 128 := s.1.isLt
    have l2 : s.2.val < 128 := s.2.isLt
    have a : ¬ (s.1.val % 256 / 128 % 2 = 1) := by omega
    have b : ¬ (s.2.val % 256 / 128 % 2 = 1) := by omega
    have c : ¬ (Gen.Vm.halfOrder < s.2.val % 256) := by simp [Gen.Vm.halfOrder]; omega
    simp [checkSigEncoding, byteAt, beNat, a, b, c]
  parseSig_enc := by
    intro s
    have h1 := fin128_byte s.1
    have h2 := fin128_byte s.2
    simp [tinyParseSig, h1, h2]

end MW.Lemmas.SignVMEx
