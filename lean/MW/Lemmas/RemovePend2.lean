/-
  C08, the pending-side invariant `PCI` (RemovePend) through a DISCONNECT of the tip block.
  Rollback puts the non-coinbase transactions of the block record back into the pending set and re-creates a
  pending-credit record from EVERY mined credit of such a transaction (any owner); the unmined spenders of the removed
  coinbase credits are purged at the end (a frame `PFr`).  `pci_disconnect` states what Rollback must read for the
  invariant to survive, as explicit structural hypotheses about the block record, the tx records and the credit values.
-/
import MW.Lemmas.RemovePend
namespace MW.Lemmas.RemovePend
open MW MW.Model.Ledger MW.Model.Remove MW.Spec.Chain MW.Spec.Books MW.Spec.Pending MW.Lemmas.Ledger
  MW.Lemmas.LedgerPending MW.Lemmas.PendHist MW.Lemmas.PendHist.Cred MW.Lemmas.RemoveGlue MW.Lemmas.RemoveInterleave

/-- the invariant through a pending-side frame (same chain) -/
theorem pci_pfr {c : Ctx} {addrs : List Addr} {s s' : Store} {X : List Block} (H : PCI c addrs s X) (fr : PFr s s') :
    PCI c addrs s' X := by
  refine ⟨fr.keyId H.keyId, ?_, fun e he hsh => H.pendOK e (fr.sc.mem he) hsh, fr.sc.nodup H.nodup⟩
  intro id j cr hg hsh
  obtain ⟨t, o, w', ch, hp, ho, ha, hr, hw⟩ := H.owned id j cr (fr.sc.get_some hg) hsh
  cases hp' : AMap.get s'.pending id with
  | none =>
    have hid := H.keyId id t hp
    have hlt : j < t.outs.length := by
      rcases Nat.lt_or_ge j t.outs.length with h1 | h1
      · exact h1
      · rw [List.getElem?_eq_none h1] at ho; cases ho
    have := fr.gone t (fun hf => hf) (by rw [hid]; exact hp) (by rw [hid]; exact hp') j hlt
    rw [hid, hg] at this; cases this
  | some t2 =>
    have := fr.pend _ _ hp'
    rw [hp] at this; cases this
    exact ⟨t, o, w', ch, rfl, ho, ha, hr, hw⟩

-- ------------------------------------------------------------------ what the loops of Rollback touch

def side4 (s : Store) := (s.pending, s.pendCred, s.credits, s.txrecs)

theorem rollbackAddr_side (s : Store) (w : Wid) (o : Out) (h : Nat) : side4 (rollbackAddr s w o h) = side4 s := by
  unfold rollbackAddr
  dsimp only
  repeat' split
  all_goals rfl

theorem rollbackOwnedOut_side {id : TxId} {blk : BlockMeta} {sb sb' : Store × Bals} {i : Nat} {o : Out} {w : Wid}
    (h : rollbackOwnedOut id blk sb i o w = .ok sb') : side4 sb'.1 = side4 sb.1 := by
  unfold rollbackOwnedOut at h
  repeat' split at h
  all_goals cases h
  all_goals exact rollbackAddr_side _ w o blk.height

theorem rollbackCbOut_side {c : Ctx} {id : TxId} {blk : BlockMeta} {acc acc' : (Store × Bals) × List (TxId × Nat)}
    {i : Nat} {o : Out} (h : rollbackCbOut c id blk acc i o = .ok acc') :
    acc'.1.1.pending = acc.1.1.pending ∧ acc'.1.1.pendCred = acc.1.1.pendCred ∧ acc'.1.1.txrecs = acc.1.1.txrecs ∧
    (acc'.1.1.credits = acc.1.1.credits ∨ ∃ k, acc'.1.1.credits = AMap.erase acc.1.1.credits k) := by
  unfold rollbackCbOut at h
  dsimp only at h
  split at h
  · cases h; exact ⟨rfl, rfl, rfl, Or.inl rfl⟩
  · split at h
    · cases h
    · split at h
      · cases h; exact ⟨rfl, rfl, rfl, Or.inr ⟨_, rfl⟩⟩
      · obtain ⟨sb1, h1, h2⟩ := M_bind_ok h
        have hs := rollbackOwnedOut_side h1
        simp only [side4, Prod.mk.injEq] at hs
        obtain ⟨e1, e2, e3, e4⟩ := hs
        split at h2 <;> cases h2 <;> exact ⟨e1, e2, e4, Or.inr ⟨_, e3⟩⟩

theorem rollbackIn_side {c : Ctx} {id : TxId} {blk : BlockMeta} {sb sb' : Store × Bals} {cur : Nat} {i : Inp}
    (h : rollbackIn c id blk sb cur i = .ok sb') :
    sb'.1.pending = sb.1.pending ∧ sb'.1.pendCred = sb.1.pendCred ∧ sb'.1.txrecs = sb.1.txrecs ∧
    (sb'.1.credits = sb.1.credits ∨ ∃ ck cr, AMap.get sb.1.credits ck = some cr ∧
      sb'.1.credits = AMap.put sb.1.credits ck { cr with spent := false, spentBy := none }) := by
  unfold rollbackIn at h
  dsimp only at h
  repeat' split at h
  all_goals cases h
  all_goals first
    | exact ⟨rfl, rfl, rfl, Or.inl rfl⟩
    | exact ⟨rfl, rfl, rfl, Or.inr ⟨_, _, ‹_›, rfl⟩⟩

theorem rollbackOut_side {c : Ctx} {id : TxId} {blk : BlockMeta} {sb sb' : Store × Bals} {i : Nat} {o : Out}
    (h : rollbackOut c id blk sb i o = .ok sb') :
    sb'.1.pending = sb.1.pending ∧ sb'.1.txrecs = sb.1.txrecs ∧
    ((sb'.1.credits = sb.1.credits ∧ sb'.1.pendCred = sb.1.pendCred) ∨
     ∃ cr, AMap.get sb.1.credits ⟨id, blk, i⟩ = some cr ∧ sb'.1.credits = AMap.erase sb.1.credits ⟨id, blk, i⟩ ∧
       sb'.1.pendCred = AMap.put sb.1.pendCred (id, i) { cr with spentBy := none }) := by
  unfold rollbackOut at h
  dsimp only at h
  split at h
  · cases h; exact ⟨rfl, rfl, Or.inl ⟨rfl, rfl⟩⟩
  · rename_i cr hcr
    split at h
    · cases h
    · split at h
      · cases h; exact ⟨rfl, rfl, Or.inr ⟨cr, hcr, rfl, rfl⟩⟩
      · obtain ⟨sb1, h1, h2⟩ := M_bind_ok h
        have hs := rollbackOwnedOut_side h1
        simp only [side4, Prod.mk.injEq] at hs
        obtain ⟨e1, e2, e3, e4⟩ := hs
        split at h2 <;> cases h2 <;> exact ⟨e1, e4, Or.inr ⟨cr, hcr, e3, e2⟩⟩

-- ------------------------------------------------------------------ the loop invariant

/-- the state of Rollback's loop over the records of block `b`, relative to the store `s` it started from -/
structure RB (s : Store) (b : Block) (st : Store) : Prop where
  pend : ∀ id t, AMap.get st.pending id = some t → AMap.get s.pending id = some t ∨ (t ∈ b.txs ∧ t.id = id)
  keep : ∀ id t, AMap.get s.pending id = some t → AMap.get st.pending id = some t ∨ ∃ t' ∈ b.txs, t'.id = id
  cred : ∀ id j cr, AMap.get st.pendCred (id, j) = some cr → AMap.get s.pendCred (id, j) = some cr ∨
    ∃ t ∈ b.txs, t.id = id ∧ AMap.get st.pending id = some t ∧
      ∃ cr0, AMap.get s.credits ⟨id, ⟨b.height, b.id⟩, j⟩ = some cr0 ∧ cr0.sh = cr.sh
  cv : ∀ k cr, AMap.get st.credits k = some cr → ∃ cr0, AMap.get s.credits k = some cr0 ∧ cr0.sh = cr.sh
  recs : ∀ k loc, AMap.get st.txrecs k = some loc → AMap.get s.txrecs k = some loc

theorem RB.refl (s : Store) (b : Block) : RB s b s :=
  ⟨fun _ _ h => Or.inl h, fun _ _ h => Or.inl h, fun _ _ _ h => Or.inl h, fun _ cr h => ⟨cr, h, rfl⟩, fun _ _ h => h⟩

/-- a step that leaves the pending records, the pending credits and the tx records alone and keeps the script hashes
    of the credit bucket -/
theorem RB.of {s : Store} {b : Block} {st st' : Store} (h : RB s b st) (e1 : st'.pending = st.pending)
    (e2 : st'.pendCred = st.pendCred) (e3 : st'.txrecs = st.txrecs)
    (e4 : ∀ k cr, AMap.get st'.credits k = some cr → ∃ cr1, AMap.get st.credits k = some cr1 ∧ cr1.sh = cr.sh) :
    RB s b st' := by
  refine ⟨fun id t hg => h.pend id t (by rw [← e1]; exact hg), fun id t hg => by rw [e1]; exact h.keep id t hg, ?_, ?_,
    fun k loc hg => h.recs k loc (by rw [← e3]; exact hg)⟩
  · intro id j cr hg
    rw [e1]; exact h.cred id j cr (by rw [← e2]; exact hg)
  · intro k cr hg
    obtain ⟨cr1, h1, h2⟩ := e4 k cr hg
    obtain ⟨cr0, h3, h4⟩ := h.cv k cr1 h1
    exact ⟨cr0, h3, h4.trans h2⟩

theorem cv_erase (m : AMap.T CredKey Credit) (k0 : CredKey) : ∀ k cr, AMap.get (AMap.erase m k0) k = some cr →
    ∃ cr1, AMap.get m k = some cr1 ∧ cr1.sh = cr.sh := by
  intro k cr hg
  rw [AMap.get_erase] at hg
  split at hg
  · cases hg
  · exact ⟨cr, hg, rfl⟩

theorem RB.cbOut {c : Ctx} {s : Store} {b : Block} {id : TxId} {blk : BlockMeta}
    {acc acc' : (Store × Bals) × List (TxId × Nat)} {i : Nat} {o : Out} (h : RB s b acc.1.1)
    (hf : rollbackCbOut c id blk acc i o = .ok acc') : RB s b acc'.1.1 := by
  obtain ⟨e1, e2, e3, e4⟩ := rollbackCbOut_side hf
  refine h.of e1 e2 e3 ?_
  rcases e4 with e4 | ⟨k0, e4⟩
  · intro k cr hg; exact ⟨cr, by rw [← e4]; exact hg, rfl⟩
  · rw [e4]; exact cv_erase _ k0

theorem RB.rbIn {c : Ctx} {s : Store} {b : Block} {id : TxId} {blk : BlockMeta} {sb sb' : Store × Bals} {cur : Nat}
    {i : Inp} (h : RB s b sb.1) (hf : rollbackIn c id blk sb cur i = .ok sb') : RB s b sb'.1 := by
  obtain ⟨e1, e2, e3, e4⟩ := rollbackIn_side hf
  refine h.of e1 e2 e3 ?_
  rcases e4 with e4 | ⟨ck, cr0, hck, e4⟩
  · intro k cr hg; exact ⟨cr, by rw [← e4]; exact hg, rfl⟩
  · intro k cr hg
    rw [e4, AMap.get_put] at hg
    split at hg
    · rename_i he; cases hg; exact ⟨cr0, by rw [← he]; exact hck, rfl⟩
    · exact ⟨cr, hg, rfl⟩

/-- the TxOut loop of a non-coinbase transaction `t` of `b` that has just been put back under its id -/
theorem RB.rbOut {c : Ctx} {s : Store} {b : Block} {t : Tx} {sb sb' : Store × Bals} {i : Nat} {o : Out}
    (ht : t ∈ b.txs) (h : RB s b sb.1 ∧ AMap.get sb.1.pending t.id = some t)
    (hf : rollbackOut c t.id ⟨b.height, b.id⟩ sb i o = .ok sb') :
    RB s b sb'.1 ∧ AMap.get sb'.1.pending t.id = some t := by
  obtain ⟨h, hp⟩ := h
  obtain ⟨e1, e3, e4⟩ := rollbackOut_side hf
  refine ⟨?_, by rw [e1]; exact hp⟩
  rcases e4 with ⟨e4, e2⟩ | ⟨cr0, hck, e4, e2⟩
  · exact h.of e1 e2 e3 (fun k cr hg => ⟨cr, by rw [← e4]; exact hg, rfl⟩)
  · refine ⟨fun id t' hg => h.pend id t' (by rw [← e1]; exact hg), fun id t' hg => by rw [e1]; exact h.keep id t' hg,
      ?_, ?_, fun k loc hg => h.recs k loc (by rw [← e3]; exact hg)⟩
    · intro id j cr hg
      rw [e2, AMap.get_put] at hg
      rw [e1]
      split at hg
      · rename_i he
        cases hg
        simp only [Prod.mk.injEq] at he
        obtain ⟨cr1, h1, h2⟩ := h.cv _ _ hck
        exact Or.inr ⟨t, ht, he.1, by rw [← he.1]; exact hp, cr1, by rw [← he.1, ← he.2]; exact h1, h2⟩
      · exact h.cred id j cr hg
    · intro k cr hg
      rw [e4] at hg
      obtain ⟨cr1, h1, h2⟩ := cv_erase _ _ k cr hg
      obtain ⟨cr2, h3, h4⟩ := h.cv k cr1 h1
      exact ⟨cr2, h3, h4.trans h2⟩

theorem eq_of_id {l : List Tx} (hn : (l.map (·.id)).Nodup) {t t' : Tx} (ht : t ∈ l) (ht' : t' ∈ l) (he : t.id = t'.id) :
    t = t' := by
  induction l with
  | nil => cases ht
  | cons x l ih =>
    rw [List.map_cons, List.nodup_cons] at hn
    rcases List.mem_cons.1 ht with rfl | h1 <;> rcases List.mem_cons.1 ht' with rfl | h2
    · rfl
    · exact absurd (List.mem_map.2 ⟨t', h2, he.symm⟩) hn.1
    · exact absurd (List.mem_map.2 ⟨t, h1, he⟩) hn.1
    · exact ih hn.2 h1 h2

/-- one record of the block -/
theorem RB.tx {c : Ctx} {s : Store} {b : Block} {st : Store} {bals : Bals} {id : TxId}
    {r : Store × Bals × List (TxId × Nat)} (hbnd : (b.txs.map (·.id)).Nodup) (h : RB s b st)
    (hrec : ∀ loc, AMap.get s.txrecs (id, ⟨b.height, b.id⟩) = some loc →
      ∃ t ∈ b.txs, t.id = id ∧ c.node.txByFileLoc loc = some t)
    (hf : rollbackTx c st bals ⟨b.height, b.id⟩ id = .ok r) : RB s b r.1 := by
  unfold rollbackTx at hf
  split at hf
  · cases hf; exact h
  · rename_i loc hloc
    obtain ⟨t, ht, hid, hres⟩ := hrec loc (h.recs _ _ hloc)
    rw [hres] at hf
    dsimp only at hf
    have hrecs' : ∀ k loc', AMap.get (AMap.erase st.txrecs (id, ⟨b.height, b.id⟩)) k = some loc' →
        AMap.get st.txrecs k = some loc' := by
      intro k loc' hg
      rw [AMap.get_erase] at hg
      split at hg
      · cases hg
      · exact hg
    split at hf
    · obtain ⟨r1, h1, h2⟩ := M_bind_ok hf
      cases h2
      have h0 : RB s b { st with txrecs := AMap.erase st.txrecs (id, ⟨b.height, b.id⟩) } :=
        ⟨h.pend, h.keep, h.cred, h.cv, fun k loc' hg => h.recs k loc' (hrecs' k loc' hg)⟩
      exact foldIdxM_preserves_store (·.1.1) (RB s b) _ _
        (fun _ _ _ _ _ hb hf => RB.cbOut hb hf) (b := (({ st with txrecs := _ }, bals), [])) h0 h1
    · obtain ⟨sb1, h1, h2⟩ := M_bind_ok hf
      obtain ⟨sb2, h3, h4⟩ := M_bind_ok h2
      cases h4
      subst hid
      have h0 : RB s b { st with txrecs := AMap.erase st.txrecs (t.id, ⟨b.height, b.id⟩),
                                 pending := AMap.put st.pending t.id t } := by
        refine ⟨?_, ?_, ?_, h.cv, fun k loc' hg => h.recs k loc' (hrecs' k loc' hg)⟩
        · intro id' t' hg
          have hg' : AMap.get (AMap.put st.pending t.id t) id' = some t' := hg
          rw [AMap.get_put] at hg'
          split at hg'
          · rename_i he; cases hg'; exact Or.inr ⟨ht, he⟩
          · exact h.pend id' t' hg'
        · intro id' t' hg
          show AMap.get (AMap.put st.pending t.id t) id' = some t' ∨ _
          rw [AMap.get_put]
          split
          · rename_i he; exact Or.inr ⟨t, ht, he⟩
          · exact h.keep id' t' hg
        · intro id' j cr hg
          rcases h.cred id' j cr hg with h1 | ⟨t', ht', hid', hp', rest⟩
          · exact Or.inl h1
          · refine Or.inr ⟨t', ht', hid', ?_, rest⟩
            show AMap.get (AMap.put st.pending t.id t) id' = some t'
            rw [AMap.get_put]
            split
            · rename_i he
              rw [eq_of_id hbnd ht ht' (he.trans hid'.symm)]
            · exact hp'
      have hq1 : RB s b sb1.1 ∧ AMap.get sb1.1.pending t.id = some t := by
        refine foldIdxM_preserves_store (·.1) (fun x => RB s b x ∧ AMap.get x.pending t.id = some t) _ _
          (fun _ _ _ _ _ hb hf => ⟨RB.rbIn hb.1 hf, by rw [(rollbackIn_side hf).1]; exact hb.2⟩)
          (b := ({ st with txrecs := _, pending := _ }, bals)) ⟨h0, ?_⟩ h1
        show AMap.get (AMap.put st.pending t.id t) t.id = some t
        rw [AMap.get_put, if_pos rfl]
      exact (foldIdxM_preserves_store (·.1) (fun x => RB s b x ∧ AMap.get x.pending t.id = some t) _ _
        (fun _ _ _ _ _ hb hf => RB.rbOut ht hb hf) hq1 h3).1

/-- what Rollback reads of the tip block `b`: the block record at its height, if any, carries `b`'s hash and lists ids
    whose tx records under ⟨b.height, b.id⟩ resolve (block files) to THE transaction of `b` with that id -/
def BlockRecOK (c : Ctx) (s : Store) (b : Block) : Prop :=
  ∀ bh txs, AMap.get s.blocks b.height = some (bh, txs) → bh = b.id ∧
    ∀ id ∈ txs, ∀ loc, AMap.get s.txrecs (id, ⟨b.height, b.id⟩) = some loc →
      ∃ t ∈ b.txs, t.id = id ∧ c.node.txByFileLoc loc = some t

/-- a mined credit of ANOTHER wallet at a transaction of `b` is an owned output of that transaction -/
def CredValOK (c : Ctx) (addrs : List Addr) (s : Store) (b : Block) : Prop :=
  ∀ t ∈ b.txs, ∀ i cr, AMap.get s.credits ⟨t.id, ⟨b.height, b.id⟩, i⟩ = some cr → addrs.contains cr.sh = false →
    ∃ (o : Out) (w' : Wid) (ch : Bool), t.outs[i]? = some o ∧ o.addr = cr.sh ∧ o.cls ≠ .raw ∧
      AMap.get c.own o.addr = some (w', ch)

theorem RB.blockAt {c : Ctx} {s : Store} {b : Block} {bals : Bals} {acc' : RbAcc}
    (hbnd : (b.txs.map (·.id)).Nodup) (hblk : BlockRecOK c s b)
    (hf : rollbackBlockAt c { s := s, bals := bals } b.height = .ok acc') : RB s b acc'.s := by
  unfold rollbackBlockAt at hf
  split at hf
  · cases hf; exact RB.refl s b
  · rename_i bh txs hget
    obtain ⟨hbh, hrec⟩ := hblk bh txs hget
    subst hbh
    refine foldlM_preserves_store (·.s) (RB s b) _ _ ?_ (show RB s b s from RB.refl s b) hf
    intro a id a' hid ha hf'
    obtain ⟨r, h1, h2⟩ := M_bind_ok hf'
    cases h2
    exact RB.tx hbnd ha (hrec id (List.mem_reverse.1 hid)) h1

theorem mem_ids_of_tx {b : Block} {t : Tx} (ht : t ∈ b.txs) : t.id ∈ idsOf (occs [b]) := by
  obtain ⟨m, hm⟩ := List.getElem?_of_mem ht
  refine List.mem_map.2 ⟨⟨⟨b.height, b.id⟩, m, t⟩, mem_occs.2 ⟨b, List.mem_singleton.2 rfl, ?_⟩, rfl⟩
  exact mem_occsFrom.2 ⟨m, hm, (Nat.zero_add m).symm, rfl⟩

/-- the invariant after Rollback's loop over the records of the tip block, on the chain without it -/
theorem pci_of_rb {c : Ctx} {addrs : List Addr} {s st : Store} {Y : List Block} {b : Block}
    (H : PCI c addrs s (Y ++ [b])) (R : RB s b st) (hn : KeysNodup st.pendCred) (hcv : CredValOK c addrs s b)
    (hids : (idsOf (occs (Y ++ [b]))).Nodup) : PCI c addrs st Y := by
  have hsplit : idsOf (occs (Y ++ [b])) = idsOf (occs Y) ++ idsOf (occs [b]) := by
    rw [occs_append]; unfold idsOf; rw [List.map_append]
  have hold : ∀ id j cr, AMap.get s.pendCred (id, j) = some cr → addrs.contains cr.sh = false →
      id ∉ idsOf (occs (Y ++ [b])) :=
    fun id j cr hg hsh => H.pendOK ((id, j), cr) (MW.Lemmas.LedgerPending.mem_of_get hg) hsh
  refine ⟨?_, ?_, ?_, hn⟩
  · intro id t hg
    rcases R.pend id t hg with h | ⟨_, h⟩
    · exact H.keyId id t h
    · exact h
  · intro id j cr hg hsh
    rcases R.cred id j cr hg with ho | ⟨t, ht, hid, hp, cr0, hc0, hsh0⟩
    · obtain ⟨t, o, w', ch, hp, rest⟩ := H.owned id j cr ho hsh
      rcases R.keep id t hp with h1 | ⟨t', ht', hid'⟩
      · exact ⟨t, o, w', ch, h1, rest⟩
      · exfalso
        apply hold id j cr ho hsh
        rw [hsplit, ← hid']
        exact List.mem_append_right _ (mem_ids_of_tx ht')
    · subst hid
      obtain ⟨o, w', ch, ho, ha, hr, hw⟩ := hcv t ht j cr0 hc0 (by rw [hsh0]; exact hsh)
      exact ⟨t, o, w', ch, hp, ho, ha.trans hsh0, hr, hw⟩
  · intro e he hsh hmem
    have hg : AMap.get st.pendCred (e.1.1, e.1.2) = some e.2 := (mem_iff_get_of_nodup hn e.1 e.2).1 he
    rcases R.cred e.1.1 e.1.2 e.2 hg with ho | ⟨t, ht, hid, _⟩
    · apply hold e.1.1 e.1.2 e.2 ho hsh
      rw [hsplit]; exact List.mem_append_left _ hmem
    · rw [hsplit] at hids
      have hdis := (List.nodup_append.1 hids).2.2
      exact hdis _ hmem _ (mem_ids_of_tx ht) hid.symm

/-- **DISCONNECTING THE TIP BLOCK keeps the invariant**, on the chain without it.
    `hsync` the block is the synced tip; `hblk` what Rollback reads of the block record and the tx records;
    `hcv` the values of the mined credits of other wallets at transactions of `b`; `hids` the ids of the followed chain
    are pairwise distinct (a transaction of `b` is not on `Y`); `hbnd` those of `b` too. -/
theorem pci_disconnect {c : Ctx} {addrs : List Addr} {s s' : Store} {Y : List Block} {b : Block}
    (H : PCI c addrs s (Y ++ [b])) (h : disconnectBlock c s b.height = .ok s') (hsync : s.syncedTo = b.height)
    (hblk : BlockRecOK c s b) (hcv : CredValOK c addrs s b) (hids : (idsOf (occs (Y ++ [b]))).Nodup)
    (hbnd : (b.txs.map (·.id)).Nodup) : PCI c addrs s' Y := by
  unfold disconnectBlock at h
  split at h
  · cases h
  · split at h
    · rename_i hgt; rw [hsync] at hgt; exact absurd hgt (Nat.lt_irrefl _)
    · obtain ⟨s1, h1, h2⟩ := M_bind_ok h
      cases h2
      suffices H1 : PCI c addrs s1 Y from H1.congr rfl rfl
      unfold rollback at h1
      obtain ⟨acc, h3, h4⟩ := M_bind_ok h1
      cases h4
      have hhs : (List.range (s.syncedTo + 1 - b.height)).map (fun k => s.syncedTo - k) = [b.height] := by
        rw [hsync, Nat.add_sub_cancel_left]; rfl
      rw [hhs, List.foldlM_cons] at h3
      obtain ⟨a1, h5, h6⟩ := M_bind_ok h3
      rw [List.foldlM_nil] at h6
      cases h6
      have R := RB.blockAt hbnd hblk h5
      have hn := pn_rollbackBlockAt (acc := { s := s, bals := s.balance }) H.nodup h5
      have H0 := pci_of_rb H R hn hcv hids
      -- the block records erased, then the purge of the spenders of the removed coinbase credits
      have e1 : ∀ (l : List Nat) (x : Store),
          (l.foldl (fun s h => { s with blocks := AMap.erase s.blocks h }) x).pending = x.pending ∧
          (l.foldl (fun s h => { s with blocks := AMap.erase s.blocks h }) x).pendCred = x.pendCred := by
        intro l x
        exact foldl_inv (fun (a : Store) => a.pending = x.pending ∧ a.pendCred = x.pendCred) _ _ _ ⟨rfl, rfl⟩
          (fun a y _ ha => ha)
      have H1 := H0.congr (e1 acc.heights acc.s).1 (e1 acc.heights acc.s).2
      have fr : PFr (acc.heights.foldl (fun s h => { s with blocks := AMap.erase s.blocks h }) acc.s)
          (acc.cb.foldl (purgeSpenders c.own)
            (acc.heights.foldl (fun s h => { s with blocks := AMap.erase s.blocks h }) acc.s)) :=
        PFrX.of_cfrx (purgeFold_cfr c.own acc.cb _ H1.keyId)
          (foldl_inv (fun x => Sc x _) _ _ _ (Sc.refl _) (fun x op _ hx => (purgeSpenders_sc c.own x op).trans hx))
      exact (pci_pfr H1 fr).congr rfl rfl

-- ------------------------------------------------------------------ a concrete instance

namespace Ex

/-- the store of `Ex` after the extension block B1 (T1 confirmed: its credit T1:0 of W1 is mined) -/
def s1 : Store := (processBlock { ctx with node := node1 } s0 x0.v b1).1

theorem pci1 : PCI ctx ["A2"] s1 ([g] ++ [b1]) := by
  have h2 : (processBlock { ctx with node := node1 } s0 x0.v b1).2.2 = true := by decide
  have hst : istep 1 ctx "W2" ["A2"] x0 (.notify node1 b1) =
      some { x0 with s := s1, v := (processBlock { ctx with node := node1 } s0 x0.v b1).2.1, node := node1 } := by
    simp only [istep]
    rw [if_neg (by decide)]
    exact (if_pos (show (processBlock { ctx with node := node1 } x0.s x0.v b1).2.2 = true from h2)).trans rfl
  exact pci_istep pci0 dom.1 hst

/-- disconnecting B1 again: every hypothesis of `pci_disconnect` holds at `s1`; T1 is pending again with its credit
    re-created from the mined one -/
example (s2 : Store) (h : disconnectBlock { ctx with node := node1 } s1 b1.height = .ok s2) :
    PCI ctx ["A2"] s2 [g] := by
  refine (pci_disconnect (c := { ctx with node := node1 }) (pci1.own rfl) h (by decide) ?_ ?_ (by decide) (by decide)).own rfl
  · intro bh txs hg
    have : AMap.get s1.blocks b1.height = some ("B1", ["T1"]) := by decide
    rw [this] at hg
    cases hg
    refine ⟨rfl, ?_⟩
    intro id hid loc hl
    simp only [List.mem_cons, List.not_mem_nil, or_false] at hid
    subst hid
    have : AMap.get s1.txrecs ("T1", ⟨b1.height, b1.id⟩) = some ("B1", 0) := by decide
    rw [this] at hl
    cases hl
    exact ⟨t1, by decide, rfl, by decide⟩
  · intro t ht i cr hg _
    simp only [b1, List.mem_cons, List.not_mem_nil, or_false] at ht
    subst ht
    have hc : s1.credits.map (·.1) = [⟨"T1", ⟨1, "B1"⟩, 0⟩] ∧ s1.credits.map (·.2.sh) = ["A1"] := by decide
    have hm := MW.Lemmas.LedgerPending.mem_of_get hg
    have h1 : (⟨t1.id, ⟨b1.height, b1.id⟩, i⟩ : CredKey) ∈ s1.credits.map (·.1) := List.mem_map.2 ⟨_, hm, rfl⟩
    have h2 : cr.sh ∈ s1.credits.map (·.2.sh) := List.mem_map.2 ⟨_, hm, rfl⟩
    rw [hc.1, List.mem_singleton] at h1
    rw [hc.2, List.mem_singleton] at h2
    injection h1 with _ _ hi
    subst hi
    exact ⟨⟨"A1", 5, .std⟩, "W1", false, rfl, h2.symm, by decide, rfl⟩

theorem disc_runs : (disconnectBlock { ctx with node := node1 } s1 b1.height).toOption.map
    (fun x => (x.pending.map (·.1), x.pendCred.map (·.1))) = some (["T1", "T2", "T3"], [("T1", 0), ("T2", 0), ("T3", 0)]) := by
  decide

end Ex

end MW.Lemmas.RemovePend
