/-
  LedBytes, part 7b — the commuting lemmas of MW.Lemmas.LedBytesAbs instantiated at every bucket, with the Go builders
  spelled out (`keyCredit k`, `valueUnspent v` … instead of `(cdC N).encK k`), so that they rewrite byte-level steps
  directly.  `X_get`: the two cases of a Get; `X_put`, `X_erase`: the write and the canonicity of the result.
  (Generated text, one block per bucket; every proof is the generic lemma.)
-/
import MW.Lemmas.LedBytesRbVals
set_option linter.unusedVariables false
namespace MW.LedBytes
open MW MW.Gen.Codec MW.Model.TxmgrCodec MW.TxmgrCodec MW.Model.Ledger

/-- the two cases of a Get on a canonical bucket -/
theorem abs_get_cases {KB VB K V : Type} [DecidableEq K] {cd : Codec KB VB K V} (L : cd.Laws) {m : AMap.T Bytes Bytes}
    (hm : Canon cd m) {k : KB} (hk : cd.wfK k) :
    (AMap.get m (cd.encK k) = none ∧ AMap.get (absBucket cd m) (cd.nmK k) = none) ∨
    ∃ v, cd.wfV v ∧ AMap.get m (cd.encK k) = some (cd.encV v) ∧ AMap.get (absBucket cd m) (cd.nmK k) = some (cd.nmV v) := by
  cases h : AMap.get m (cd.encK k) with
  | none => exact Or.inl ⟨rfl, abs_get_none L hm hk h⟩
  | some bv =>
    obtain ⟨v, hv, rfl, hg⟩ := abs_get_some L hm hk h
    exact Or.inr ⟨v, hv, rfl, hg⟩

variable (E : Env)

-- ------------------------------------------------------------------ bucket `c`

theorem c_get {m : AMap.T Bytes Bytes} (hm : Canon (cdC E.N) m) {k : CredKeyB} (hk : k.WF = true) :
    (AMap.get m (keyCredit k) = none ∧ AMap.get (absBucket (cdC E.N) m) (nmCK E.N k) = none) ∨
    ∃ v : CreditValB × Option CredKeyB, (wfCredit v) ∧ AMap.get m (keyCredit k) = some (encCredit v) ∧
      AMap.get (absBucket (cdC E.N) m) (nmCK E.N k) = some (nmCredit E.N v) :=
  abs_get_cases (cdC_laws E.N) hm (k := k) hk

theorem c_put {m : AMap.T Bytes Bytes} (hm : Canon (cdC E.N) m) {k : CredKeyB} {v : CreditValB × Option CredKeyB} (hk : k.WF = true) (hv : wfCredit v) :
    absBucket (cdC E.N) (AMap.put m (keyCredit k) (encCredit v)) = AMap.put (absBucket (cdC E.N) m) (nmCK E.N k) (nmCredit E.N v) ∧
    Canon (cdC E.N) (AMap.put m (keyCredit k) (encCredit v)) :=
  ⟨abs_put (cdC_laws E.N) hm (k := k) (v := v) hk hv, canon_put hm (cd := cdC E.N) (k := k) (v := v) hk hv⟩

theorem c_erase {m : AMap.T Bytes Bytes} (hm : Canon (cdC E.N) m) {k : CredKeyB} (hk : k.WF = true) :
    absBucket (cdC E.N) (AMap.erase m (keyCredit k)) = AMap.erase (absBucket (cdC E.N) m) (nmCK E.N k) ∧
    Canon (cdC E.N) (AMap.erase m (keyCredit k)) :=
  ⟨abs_erase (cdC_laws E.N) hm (k := k) hk, canon_erase hm _⟩

-- ------------------------------------------------------------------ bucket `u`

theorem u_get {m : AMap.T Bytes Bytes} (hm : Canon (cdU E.N) m) {k : UnspentKeyB} (hk : k.WF = true) :
    (AMap.get m (canonicalUnspentKey k) = none ∧ AMap.get (absBucket (cdU E.N) m) (nmUK E.N k) = none) ∨
    ∃ v : BlockMetaB, (v.WF = true) ∧ AMap.get m (canonicalUnspentKey k) = some (valueUnspent v) ∧
      AMap.get (absBucket (cdU E.N) m) (nmUK E.N k) = some (nmBlk E.N v) :=
  abs_get_cases (cdU_laws E.N) hm (k := k) hk

theorem u_put {m : AMap.T Bytes Bytes} (hm : Canon (cdU E.N) m) {k : UnspentKeyB} {v : BlockMetaB} (hk : k.WF = true) (hv : v.WF = true) :
    absBucket (cdU E.N) (AMap.put m (canonicalUnspentKey k) (valueUnspent v)) = AMap.put (absBucket (cdU E.N) m) (nmUK E.N k) (nmBlk E.N v) ∧
    Canon (cdU E.N) (AMap.put m (canonicalUnspentKey k) (valueUnspent v)) :=
  ⟨abs_put (cdU_laws E.N) hm (k := k) (v := v) hk hv, canon_put hm (cd := cdU E.N) (k := k) (v := v) hk hv⟩

theorem u_erase {m : AMap.T Bytes Bytes} (hm : Canon (cdU E.N) m) {k : UnspentKeyB} (hk : k.WF = true) :
    absBucket (cdU E.N) (AMap.erase m (canonicalUnspentKey k)) = AMap.erase (absBucket (cdU E.N) m) (nmUK E.N k) ∧
    Canon (cdU E.N) (AMap.erase m (canonicalUnspentKey k)) :=
  ⟨abs_erase (cdU_laws E.N) hm (k := k) hk, canon_erase hm _⟩

-- ------------------------------------------------------------------ bucket `d`

theorem d_get {m : AMap.T Bytes Bytes} (hm : Canon (cdD E.N) m) {k : CredKeyB} (hk : k.WFd = true) :
    (AMap.get m (keyDebit k) = none ∧ AMap.get (absBucket (cdD E.N) m) (nmCK E.N k) = none) ∨
    ∃ v : Nat × CredKeyB, (v.1 < 256 ^ 8 ∧ v.2.WF = true) ∧ AMap.get m (keyDebit k) = some (valueDebit v.1 (keyCredit v.2)) ∧
      AMap.get (absBucket (cdD E.N) m) (nmCK E.N k) = some ((v.1, nmCK E.N v.2)) :=
  abs_get_cases (cdD_laws E.N) hm (k := k) hk

theorem d_put {m : AMap.T Bytes Bytes} (hm : Canon (cdD E.N) m) {k : CredKeyB} {v : Nat × CredKeyB} (hk : k.WFd = true) (hv : v.1 < 256 ^ 8 ∧ v.2.WF = true) :
    absBucket (cdD E.N) (AMap.put m (keyDebit k) (valueDebit v.1 (keyCredit v.2))) = AMap.put (absBucket (cdD E.N) m) (nmCK E.N k) ((v.1, nmCK E.N v.2)) ∧
    Canon (cdD E.N) (AMap.put m (keyDebit k) (valueDebit v.1 (keyCredit v.2))) :=
  ⟨abs_put (cdD_laws E.N) hm (k := k) (v := v) hk hv, canon_put hm (cd := cdD E.N) (k := k) (v := v) hk hv⟩

theorem d_erase {m : AMap.T Bytes Bytes} (hm : Canon (cdD E.N) m) {k : CredKeyB} (hk : k.WFd = true) :
    absBucket (cdD E.N) (AMap.erase m (keyDebit k)) = AMap.erase (absBucket (cdD E.N) m) (nmCK E.N k) ∧
    Canon (cdD E.N) (AMap.erase m (keyDebit k)) :=
  ⟨abs_erase (cdD_laws E.N) hm (k := k) hk, canon_erase hm _⟩

-- ------------------------------------------------------------------ bucket `t`

theorem t_get {m : AMap.T Bytes Bytes} (hm : Canon (cdT E.N E.loc) m) {k : TxRecKeyB} (hk : k.WF = true) :
    (AMap.get m (keyTxRecord k) = none ∧ AMap.get (absBucket (cdT E.N E.loc) m) (nmTK E.N k) = none) ∨
    ∃ v : TxLocB, (v.WF = true) ∧ AMap.get m (keyTxRecord k) = some (valueTxRecord v) ∧
      AMap.get (absBucket (cdT E.N E.loc) m) (nmTK E.N k) = some (E.loc v) :=
  abs_get_cases (cdT_laws E.N E.loc) hm (k := k) hk

theorem t_put {m : AMap.T Bytes Bytes} (hm : Canon (cdT E.N E.loc) m) {k : TxRecKeyB} {v : TxLocB} (hk : k.WF = true) (hv : v.WF = true) :
    absBucket (cdT E.N E.loc) (AMap.put m (keyTxRecord k) (valueTxRecord v)) = AMap.put (absBucket (cdT E.N E.loc) m) (nmTK E.N k) (E.loc v) ∧
    Canon (cdT E.N E.loc) (AMap.put m (keyTxRecord k) (valueTxRecord v)) :=
  ⟨abs_put (cdT_laws E.N E.loc) hm (k := k) (v := v) hk hv, canon_put hm (cd := cdT E.N E.loc) (k := k) (v := v) hk hv⟩

theorem t_erase {m : AMap.T Bytes Bytes} (hm : Canon (cdT E.N E.loc) m) {k : TxRecKeyB} (hk : k.WF = true) :
    absBucket (cdT E.N E.loc) (AMap.erase m (keyTxRecord k)) = AMap.erase (absBucket (cdT E.N E.loc) m) (nmTK E.N k) ∧
    Canon (cdT E.N E.loc) (AMap.erase m (keyTxRecord k)) :=
  ⟨abs_erase (cdT_laws E.N E.loc) hm (k := k) hk, canon_erase hm _⟩

-- ------------------------------------------------------------------ bucket `b`

theorem b_get {m : AMap.T Bytes Bytes} (hm : Canon (cdB E.N) m) {k : Nat} (hk : k < 256 ^ 8) :
    (AMap.get m (keyBlockRecord k) = none ∧ AMap.get (absBucket (cdB E.N) m) (k) = none) ∨
    ∃ v : BlockRecB, (v.WF) ∧ AMap.get m (keyBlockRecord k) = some ((cdB E.N).encV v) ∧
      AMap.get (absBucket (cdB E.N) m) (k) = some ((E.N.blk v.hash, v.txs.map E.N.tx)) :=
  abs_get_cases (cdB_laws E.N) hm (k := k) hk

theorem b_put {m : AMap.T Bytes Bytes} (hm : Canon (cdB E.N) m) {k : Nat} {v : BlockRecB} (hk : k < 256 ^ 8) (hv : v.WF) :
    absBucket (cdB E.N) (AMap.put m (keyBlockRecord k) ((cdB E.N).encV v)) = AMap.put (absBucket (cdB E.N) m) (k) ((E.N.blk v.hash, v.txs.map E.N.tx)) ∧
    Canon (cdB E.N) (AMap.put m (keyBlockRecord k) ((cdB E.N).encV v)) :=
  ⟨abs_put (cdB_laws E.N) hm (k := k) (v := v) hk hv, canon_put hm (cd := cdB E.N) (k := k) (v := v) hk hv⟩

theorem b_erase {m : AMap.T Bytes Bytes} (hm : Canon (cdB E.N) m) {k : Nat} (hk : k < 256 ^ 8) :
    absBucket (cdB E.N) (AMap.erase m (keyBlockRecord k)) = AMap.erase (absBucket (cdB E.N) m) (k) ∧
    Canon (cdB E.N) (AMap.erase m (keyBlockRecord k)) :=
  ⟨abs_erase (cdB_laws E.N) hm (k := k) hk, canon_erase hm _⟩

-- ------------------------------------------------------------------ bucket `a`

theorem a_get {m : AMap.T Bytes Bytes} (hm : Canon (cdA E.N) m) {k : AddrKeyB} (hk : k.WF = true ∧ (k.cls = 0 ∨ k.cls = 1)) :
    (AMap.get m (encode wKeyAddressRecord k.vals) = none ∧ AMap.get (absBucket (cdA E.N) m) (nmAK E.N k) = none) ∨
    ∃ v : Nat, (v < 256 ^ 8) ∧ AMap.get m (encode wKeyAddressRecord k.vals) = some (valueAddressRecord v) ∧
      AMap.get (absBucket (cdA E.N) m) (nmAK E.N k) = some (v) :=
  abs_get_cases (cdA_laws E.N) hm (k := k) hk

theorem a_put {m : AMap.T Bytes Bytes} (hm : Canon (cdA E.N) m) {k : AddrKeyB} {v : Nat} (hk : k.WF = true ∧ (k.cls = 0 ∨ k.cls = 1)) (hv : v < 256 ^ 8) :
    absBucket (cdA E.N) (AMap.put m (encode wKeyAddressRecord k.vals) (valueAddressRecord v)) = AMap.put (absBucket (cdA E.N) m) (nmAK E.N k) (v) ∧
    Canon (cdA E.N) (AMap.put m (encode wKeyAddressRecord k.vals) (valueAddressRecord v)) :=
  ⟨abs_put (cdA_laws E.N) hm (k := k) (v := v) hk hv, canon_put hm (cd := cdA E.N) (k := k) (v := v) hk hv⟩

theorem a_erase {m : AMap.T Bytes Bytes} (hm : Canon (cdA E.N) m) {k : AddrKeyB} (hk : k.WF = true ∧ (k.cls = 0 ∨ k.cls = 1)) :
    absBucket (cdA E.N) (AMap.erase m (encode wKeyAddressRecord k.vals)) = AMap.erase (absBucket (cdA E.N) m) (nmAK E.N k) ∧
    Canon (cdA E.N) (AMap.erase m (encode wKeyAddressRecord k.vals)) :=
  ⟨abs_erase (cdA_laws E.N) hm (k := k) hk, canon_erase hm _⟩

-- ------------------------------------------------------------------ bucket `lg`

theorem lg_get {m : AMap.T Bytes Bytes} (hm : Canon (cdG E.N) m) {k : GameKeyB} (hk : k.WFm = true) :
    (AMap.get m (keyGameHistory k) = none ∧ AMap.get (absBucket (cdG E.N) m) (nmGK E.N k) = none) ∨
    ∃ v : Unit, (True) ∧ AMap.get m (keyGameHistory k) = some (Model.TxmgrCodec.valueGameHistory) ∧
      AMap.get (absBucket (cdG E.N) m) (nmGK E.N k) = some (()) :=
  abs_get_cases (cdG_laws E.N) hm (k := k) hk

theorem lg_put {m : AMap.T Bytes Bytes} (hm : Canon (cdG E.N) m) {k : GameKeyB} {v : Unit} (hk : k.WFm = true) (hv : True) :
    absBucket (cdG E.N) (AMap.put m (keyGameHistory k) (Model.TxmgrCodec.valueGameHistory)) = AMap.put (absBucket (cdG E.N) m) (nmGK E.N k) (()) ∧
    Canon (cdG E.N) (AMap.put m (keyGameHistory k) (Model.TxmgrCodec.valueGameHistory)) :=
  ⟨abs_put (cdG_laws E.N) hm (k := k) (v := v) hk hv, canon_put hm (cd := cdG E.N) (k := k) (v := v) hk hv⟩

theorem lg_erase {m : AMap.T Bytes Bytes} (hm : Canon (cdG E.N) m) {k : GameKeyB} (hk : k.WFm = true) :
    absBucket (cdG E.N) (AMap.erase m (keyGameHistory k)) = AMap.erase (absBucket (cdG E.N) m) (nmGK E.N k) ∧
    Canon (cdG E.N) (AMap.erase m (keyGameHistory k)) :=
  ⟨abs_erase (cdG_laws E.N) hm (k := k) hk, canon_erase hm _⟩

-- ------------------------------------------------------------------ bucket `LG`

theorem LG_get {m : AMap.T Bytes Bytes} (hm : Canon (cdUG E.N) m) {k : GameKeyB} (hk : k.WFu = true ∧ k.withdrawn = false ∧ k.height = 0) :
    (AMap.get m (keyUnminedGameHistory k) = none ∧ AMap.get (absBucket (cdUG E.N) m) (nmUGK E.N k) = none) ∨
    ∃ v : Unit, (True) ∧ AMap.get m (keyUnminedGameHistory k) = some (Model.TxmgrCodec.valueGameHistory) ∧
      AMap.get (absBucket (cdUG E.N) m) (nmUGK E.N k) = some (()) :=
  abs_get_cases (cdUG_laws E.N) hm (k := k) hk

theorem LG_put {m : AMap.T Bytes Bytes} (hm : Canon (cdUG E.N) m) {k : GameKeyB} {v : Unit} (hk : k.WFu = true ∧ k.withdrawn = false ∧ k.height = 0) (hv : True) :
    absBucket (cdUG E.N) (AMap.put m (keyUnminedGameHistory k) (Model.TxmgrCodec.valueGameHistory)) = AMap.put (absBucket (cdUG E.N) m) (nmUGK E.N k) (()) ∧
    Canon (cdUG E.N) (AMap.put m (keyUnminedGameHistory k) (Model.TxmgrCodec.valueGameHistory)) :=
  ⟨abs_put (cdUG_laws E.N) hm (k := k) (v := v) hk hv, canon_put hm (cd := cdUG E.N) (k := k) (v := v) hk hv⟩

theorem LG_erase {m : AMap.T Bytes Bytes} (hm : Canon (cdUG E.N) m) {k : GameKeyB} (hk : k.WFu = true ∧ k.withdrawn = false ∧ k.height = 0) :
    absBucket (cdUG E.N) (AMap.erase m (keyUnminedGameHistory k)) = AMap.erase (absBucket (cdUG E.N) m) (nmUGK E.N k) ∧
    Canon (cdUG E.N) (AMap.erase m (keyUnminedGameHistory k)) :=
  ⟨abs_erase (cdUG_laws E.N) hm (k := k) hk, canon_erase hm _⟩

-- ------------------------------------------------------------------ bucket `m`

theorem m_get {m : AMap.T Bytes Bytes} (hm : Canon (cdM E.N E.deser) m) {k : Bytes} (hk : k.length = 32) :
    (AMap.get m (k) = none ∧ AMap.get (absBucket (cdM E.N E.deser) m) (E.N.tx k) = none) ∨
    ∃ v : Int × Bytes, (-(2 ^ 63 : Int) ≤ v.1 ∧ v.1 < 2 ^ 63) ∧ AMap.get m (k) = some (valueUnmined v.2 v.1) ∧
      AMap.get (absBucket (cdM E.N E.deser) m) (E.N.tx k) = some (E.deser v.2) :=
  abs_get_cases (cdM_laws E.N E.deser) hm (k := k) hk

theorem m_put {m : AMap.T Bytes Bytes} (hm : Canon (cdM E.N E.deser) m) {k : Bytes} {v : Int × Bytes} (hk : k.length = 32) (hv : -(2 ^ 63 : Int) ≤ v.1 ∧ v.1 < 2 ^ 63) :
    absBucket (cdM E.N E.deser) (AMap.put m (k) (valueUnmined v.2 v.1)) = AMap.put (absBucket (cdM E.N E.deser) m) (E.N.tx k) (E.deser v.2) ∧
    Canon (cdM E.N E.deser) (AMap.put m (k) (valueUnmined v.2 v.1)) :=
  ⟨abs_put (cdM_laws E.N E.deser) hm (k := k) (v := v) hk hv, canon_put hm (cd := cdM E.N E.deser) (k := k) (v := v) hk hv⟩

theorem m_erase {m : AMap.T Bytes Bytes} (hm : Canon (cdM E.N E.deser) m) {k : Bytes} (hk : k.length = 32) :
    absBucket (cdM E.N E.deser) (AMap.erase m (k)) = AMap.erase (absBucket (cdM E.N E.deser) m) (E.N.tx k) ∧
    Canon (cdM E.N E.deser) (AMap.erase m (k)) :=
  ⟨abs_erase (cdM_laws E.N E.deser) hm (k := k) hk, canon_erase hm _⟩

-- ------------------------------------------------------------------ bucket `mi`

theorem mi_get {m : AMap.T Bytes Bytes} (hm : Canon (cdMI E.N) m) {k : OutPointB} (hk : k.WF = true) :
    (AMap.get m (canonicalOutPoint k) = none ∧ AMap.get (absBucket (cdMI E.N) m) (nmOP E.N k) = none) ∨
    ∃ v : List Bytes, (∀ h ∈ v, h.length = 32) ∧ AMap.get m (canonicalOutPoint k) = some (v.flatten) ∧
      AMap.get (absBucket (cdMI E.N) m) (nmOP E.N k) = some (v.map E.N.tx) :=
  abs_get_cases (cdMI_laws E.N) hm (k := k) hk

theorem mi_put {m : AMap.T Bytes Bytes} (hm : Canon (cdMI E.N) m) {k : OutPointB} {v : List Bytes} (hk : k.WF = true) (hv : ∀ h ∈ v, h.length = 32) :
    absBucket (cdMI E.N) (AMap.put m (canonicalOutPoint k) (v.flatten)) = AMap.put (absBucket (cdMI E.N) m) (nmOP E.N k) (v.map E.N.tx) ∧
    Canon (cdMI E.N) (AMap.put m (canonicalOutPoint k) (v.flatten)) :=
  ⟨abs_put (cdMI_laws E.N) hm (k := k) (v := v) hk hv, canon_put hm (cd := cdMI E.N) (k := k) (v := v) hk hv⟩

theorem mi_erase {m : AMap.T Bytes Bytes} (hm : Canon (cdMI E.N) m) {k : OutPointB} (hk : k.WF = true) :
    absBucket (cdMI E.N) (AMap.erase m (canonicalOutPoint k)) = AMap.erase (absBucket (cdMI E.N) m) (nmOP E.N k) ∧
    Canon (cdMI E.N) (AMap.erase m (canonicalOutPoint k)) :=
  ⟨abs_erase (cdMI_laws E.N) hm (k := k) hk, canon_erase hm _⟩

-- ------------------------------------------------------------------ bucket `mc`

theorem mc_get {m : AMap.T Bytes Bytes} (hm : Canon (cdMC E.N) m) {k : OutPointB} (hk : k.WF = true) :
    (AMap.get m (canonicalOutPoint k) = none ∧ AMap.get (absBucket (cdMC E.N) m) (nmOP E.N k) = none) ∨
    ∃ v : CreditValB, (v.WF) ∧ AMap.get m (canonicalOutPoint k) = some (enc45 v) ∧
      AMap.get (absBucket (cdMC E.N) m) (nmOP E.N k) = some (nmCredit E.N (v, none)) :=
  abs_get_cases (cdMC_laws E.N) hm (k := k) hk

theorem mc_put {m : AMap.T Bytes Bytes} (hm : Canon (cdMC E.N) m) {k : OutPointB} {v : CreditValB} (hk : k.WF = true) (hv : v.WF) :
    absBucket (cdMC E.N) (AMap.put m (canonicalOutPoint k) (enc45 v)) = AMap.put (absBucket (cdMC E.N) m) (nmOP E.N k) (nmCredit E.N (v, none)) ∧
    Canon (cdMC E.N) (AMap.put m (canonicalOutPoint k) (enc45 v)) :=
  ⟨abs_put (cdMC_laws E.N) hm (k := k) (v := v) hk hv, canon_put hm (cd := cdMC E.N) (k := k) (v := v) hk hv⟩

theorem mc_erase {m : AMap.T Bytes Bytes} (hm : Canon (cdMC E.N) m) {k : OutPointB} (hk : k.WF = true) :
    absBucket (cdMC E.N) (AMap.erase m (canonicalOutPoint k)) = AMap.erase (absBucket (cdMC E.N) m) (nmOP E.N k) ∧
    Canon (cdMC E.N) (AMap.erase m (canonicalOutPoint k)) :=
  ⟨abs_erase (cdMC_laws E.N) hm (k := k) hk, canon_erase hm _⟩

-- ------------------------------------------------------------------ bucket `ws`

theorem ws_get {m : AMap.T Bytes Bytes} (hm : Canon (cdWS E.N) m) {k : Bytes} (hk : k.length = 42) :
    (AMap.get m k = none ∧ AMap.get (absBucket (cdWS E.N) m) (E.N.wal k) = none) ∨
    ∃ v : Nat × Nat, (v.1 < 256 ^ 8 ∧ v.2 < 256) ∧ AMap.get m k = some (valueWalletStatus ⟨[], v.1, v.2⟩) ∧
      AMap.get (absBucket (cdWS E.N) m) (E.N.wal k) = some (nmStatus v) :=
  abs_get_cases (cdWS_laws E.N) hm (k := k) hk

end MW.LedBytes
