/-
  C08 on REACHABLE stores, second part: the corollaries of `MW.Lemmas.RemoveReach` for histories inside C09's FULL
  domain `HOKf` (= the domain of `pending_refines`; nothing is assumed about the pending-credit buckets after a
  disconnect step any more: `MW.Lemmas.PendHistCredRollback.disconnect_cred`).
-/
import MW.Lemmas.RemoveReach
import MW.Lemmas.PendHistCredRollback
namespace MW.Lemmas.RemoveReach
open MW MW.Model.Ledger MW.Model.Remove MW.Spec.Chain MW.Spec.Books MW.Spec.Pending MW.Lemmas.Ledger MW.Lemmas.RemoveInv
  MW.Lemmas.RemoveMain MW.Lemmas.PendHist MW.Lemmas.PendHist.Cred MW.Lemmas.PendHist.CredRb MW.Lemmas.LedgerPending

/-- C01's invariant, distinct credit keys and "no unmined credit of a chain transaction" on every store reached by a
    C09 history inside the full domain -/
theorem reachable_ready_full {rank : TxId → Nat} {E : HEnv} (evs : List HEv) (w0 : HW) (H0 : HInvC rank E w0)
    (hn0 : KeysNodup w0.s.credits) (hD : ∀ x ∈ worldsH E w0 evs, HOKf rank E x.1 x.2) :
    Inv (E.ctx (runH E w0 evs).node) (runH E w0 evs).s (runH E w0 evs).sp.chain ∧
    KeysNodup (runH E w0 evs).s.credits ∧
    (∀ e ∈ (runH E w0 evs).s.pendCred, e.1.1 ∉ idsOf (occs (runH E w0 evs).sp.chain)) :=
  reachable_ready evs w0 H0 hn0 (hokc_of_full evs w0 H0 hD)

theorem remove_projects_reachable_full {rank : TxId → Nat} {E : HEnv} (evs : List HEv) (w0 : HW) (H0 : HInvC rank E w0)
    (hn0 : KeysNodup w0.s.credits) (hD : ∀ x ∈ worldsH E w0 evs, HOKf rank E x.1 x.2)
    (limit : Nat) {w : Wid} {addrs : List Addr} {own' : Own}
    (H : RemHyp (E.ctx (runH E w0 evs).node) w addrs own' (runH E w0 evs).sp.chain)
    (ws' : List Wid) (hws : ∀ x ∈ ws', x ∈ E.wallets)
    {o : StepOut} (h : removeStep limit (E.ctx (runH E w0 evs).node) w addrs (runH E w0 evs).s = some o)
    (hf : o.finish = true) :
    Inv { (E.ctx (runH E w0 evs).node) with own := own', wallets := ws' } o.s (runH E w0 evs).sp.chain :=
  remove_projects_reachable evs w0 H0 hn0 (hokc_of_full evs w0 H0 hD) limit H ws' hws h hf

theorem run_projects_reachable_full {rank : TxId → Nat} {E : HEnv} (evs : List HEv) (w0 : HW) (H0 : HInvC rank E w0)
    (hn0 : KeysNodup w0.s.credits) (hD : ∀ x ∈ worldsH E w0 evs, HOKf rank E x.1 x.2)
    (limit : Nat) {w : Wid} {addrs : List Addr} {own' : Own}
    (H : RemHyp (E.ctx (runH E w0 evs).node) w addrs own' (runH E w0 evs).sp.chain)
    (ws' : List Wid) (hws : ∀ x ∈ ws', x ∈ E.wallets) (n : Nat) {s' : Store}
    (h : run limit (E.ctx (runH E w0 evs).node) w addrs n (runH E w0 evs).s = .done s') :
    Inv { (E.ctx (runH E w0 evs).node) with own := own', wallets := ws' } s' (runH E w0 evs).sp.chain :=
  run_projects_reachable evs w0 H0 hn0 (hokc_of_full evs w0 H0 hD) limit H ws' hws n h

end MW.Lemmas.RemoveReach
