/-
  C08, removal in progress relative to the JOINED upper book.

  Wallet `w` was flagged for removal when the follower stood at height `k`; since then the follower has booked the new
  blocks for the OTHER wallets only.  C07's invariant for that shape of store (`ScanJS c w s chain k`) says the mined
  buckets are the join of `Br = bookOf c.p own' chain` (other wallets, whole chain) and
  `Bw = bookOf c.p (ownW c.own w) (chain.take (k+1))` (wallet `w`, up to `k`).  Here:
    `joinBookK`        that join as a `Book`
    `upperOK_join`     it meets the interface `UpperOK` the removal-step proofs are stated against
    `scanJS_to_midU`   a store with `ScanJS` satisfies the in-progress invariant `MidU` relative to it
-/
import MW.Lemmas.RemoveUpperDefs
import MW.Lemmas.ImportJoinReorg
namespace MW.Lemmas.RemoveJoin
open MW MW.Model.Ledger MW.Model.Remove MW.Spec.Chain MW.Spec.Books MW.Lemmas.Ledger MW.Lemmas.RemoveProj
  MW.Lemmas.RemoveChar MW.Lemmas.RemoveBooks MW.Lemmas.RemoveInv MW.Lemmas.RemoveUpper MW.Lemmas.ImportJoin

-- ------------------------------------------------------------------ the books read the keystore table through `get`

theorem ownerOf_congr {own₁ own₂ : Own} (h : ∀ a, AMap.get own₁ a = AMap.get own₂ a) : ownerOf own₁ = ownerOf own₂ := by
  funext o
  unfold ownerOf
  rw [h o.addr]

theorem applyOcc_congr {own₁ own₂ : Own} (h : ∀ a, AMap.get own₁ a = AMap.get own₂ a) (p : Params) :
    applyOcc p own₁ = applyOcc p own₂ := by
  have ho := ownerOf_congr h
  have hc : createB p own₁ = createB p own₂ := by
    funext t bm B j o
    unfold createB
    rw [ho]
  have hd : depositB own₁ = depositB own₂ := by
    funext t bm B j o
    unfold depositB
    rw [ho]
  have ht : touches own₁ = touches own₂ := by
    funext B t
    unfold touches
    rw [ho]
  funext B oc
  unfold applyOcc
  rw [hc, hd, ht]

/-- two keystore tables with the same lookups give the same books -/
theorem bookOf_congr {own₁ own₂ : Own} (h : ∀ a, AMap.get own₁ a = AMap.get own₂ a) (p : Params) (chain : List Block) :
    bookOf p own₁ chain = bookOf p own₂ chain := by
  unfold bookOf
  rw [applyOcc_congr h p]

/-- C08's view without `w` and C07's `ownR` give the same books -/
theorem bookOf_ownR {own own' : Own} {w : Wid} (hO : OwnMinus own own' w) (hKN : KeysNodup own) (p : Params)
    (chain : List Block) : bookOf p own' chain = bookOf p (ownR own w) chain :=
  bookOf_congr (fun a => by rw [hO a, ownR_sub hKN w a]) p chain

-- ------------------------------------------------------------------ the join

/-- the join of two books: ledger list = concatenation, tables = first entry wins (block / address records: `Br`'s) -/
def joinB (Br Bw : Book) : Book :=
  { L := Br.L ++ Bw.L,
    credits := fun k => orE (Br.credits k) (Bw.credits k),
    debits := fun k => orE (Br.debits k) (Bw.debits k),
    game := fun k => orE (Br.game k) (Bw.game k),
    txrecs := fun k => orE (Br.txrecs k) (Bw.txrecs k),
    blocks := Br.blocks,
    addrs := Br.addrs }

/-- the upper book of a removal of `w` flagged at height `k`: the other wallets' books for the whole chain joined with
    `w`'s books up to `k` -/
def joinBookK (c : Ctx) (w : Wid) (own' : Own) (chain : List Block) (k : Nat) : Book :=
  joinB (bookOf c.p own' chain) (bookOf c.p (ownW c.own w) (chain.take (k + 1)))

theorem orE_eq_some {α : Type} {a b : Option α} {x : α} (h : orE a b = some x) :
    a = some x ∨ (a = none ∧ b = some x) := by
  cases a with
  | none => exact Or.inr ⟨rfl, h⟩
  | some y => exact Or.inl h

-- ------------------------------------------------------------------ the two halves, on `pre ++ post`

section
variable {p : Params} {own own' ow : Own} {w : Wid} {pre post : List Block}

theorem ownSub_of_minus (hOm : OwnMinus own own' w) : OwnSub own own' (fun x => decide (x ≠ w)) := hOm

/-- a tx record of the books of a valid chain leads to a credit: an own output of the transaction, or a credit it spends -/
theorem txrec_lead {chain : List Block} (hV : ChainValid own chain) {k : TxId × BlockMeta} {loc : BlkId × Nat}
    (h : (bookOf p own chain).txrecs k = some loc) :
    ∃ ck cr, (bookOf p own chain).credits ck = some cr ∧
      ((ck.tx = k.1 ∧ ck.blk.height = k.2.height) ∨
        ∃ dk, spKey cr = some dk ∧ dk.tx = k.1 ∧ dk.blk.height = k.2.height) := by
  have hC := credInv_bookOf (p := p) hV
  obtain ⟨P₁, oc, P₂, hs, ht, hk, _⟩ := txrec_occ hV h
  have hoc : oc ∈ occs chain := by rw [hs]; simp
  have hV1 : ValidFrom own [] P₁ := by
    have hV' : ValidFrom own [] (occs chain) := hV
    rw [hs] at hV'
    exact (validFrom_append.1 hV').1
  have hG1 : Glob own P₁ (P₁.foldl (applyOcc p own) {}) := by
    simpa using glob_fold (p := p) (glob_nil own) hV1
  unfold touches at ht
  simp only [Bool.or_eq_true, Bool.and_eq_true, Bool.not_eq_true', List.any_eq_true] at ht
  rcases ht with ⟨hcb, i, hi, hl'⟩ | ⟨o, ho, hoo⟩
  · obtain ⟨u, hu⟩ := Option.isSome_iff_exists.1 hl'
    obtain ⟨hm, hut, hui⟩ := lookupU_some hu
    have hc1 : CreatedIn own P₁ u := ((hG1.mem u).1 hm).1
    have hcP : CreatedIn own (occs chain) u := by rw [hs]; exact createdIn_mono hc1
    obtain ⟨kidx, hkidx⟩ := List.getElem?_of_mem hi
    have hsp : SpentBy (occs chain) (u.tx, u.idx) ⟨oc.t.id, oc.bm, kidx⟩ :=
      ⟨oc, hoc, hcb, kidx, i, hkidx, by unfold opOf; rw [hut, hui], rfl⟩
    refine ⟨u.credKey, _, hC.spent u _ hcP hsp, Or.inr ⟨⟨oc.t.id, oc.bm, kidx⟩, by simp [spKey], ?_, ?_⟩⟩
    · rw [hk]
    · rw [hk]
  · obtain ⟨x, hx⟩ := Option.isSome_iff_exists.1 hoo
    obtain ⟨j, hj⟩ := List.getElem?_of_mem ho
    have hcP : CreatedIn own (occs chain) ⟨x.1, oc.t.id, j, oc.bm, oc.t.cb, o, x.2⟩ :=
      ⟨oc, hoc, rfl, hj, hx, rfl, rfl⟩
    obtain ⟨cr, hcr, _⟩ := credit_sh_of_created hC hcP
    refine ⟨_, cr, hcr, Or.inl ⟨?_, ?_⟩⟩
    · rw [hk]; rfl
    · rw [hk]; rfl

theorem sepR_half (hOm : OwnMinus own own' w) (hV : ChainValid own (pre ++ post)) :
    SepR own w (occs (pre ++ post)) (bookOf p own' (pre ++ post)) := sepR_bookOf (ownSub_of_minus hOm) hV

theorem sepP_half (hOw : OwnSub own ow (fun x => decide (x = w))) (hV : ChainValid own (pre ++ post)) :
    SepP own (fun x => decide (x ≠ w)) (occs (pre ++ post)) (bookOf p ow pre) :=
  sepP_bookOf hOw (fun w' h => by simpa using h) hV

/-- no outpoint has a credit in both halves -/
theorem no_both_cred (hOm : OwnMinus own own' w) (hOw : OwnSub own ow (fun x => decide (x = w)))
    (hV : ChainValid own (pre ++ post)) {ck : CredKey} {cr cr' : Credit}
    (h1 : (bookOf p own' (pre ++ post)).credits ck = some cr) (h2 : (bookOf p ow pre).credits ck = some cr') : False := by
  obtain ⟨u, hu, hw, hck⟩ := (sepP_half (p := p) hOw hV).cred _ _ h2
  have huw : u.wallet = w := by simpa using hw
  have := sep_cred (sepR_half (p := p) hOm hV) (u := u) ⟨hu, huw⟩
  rw [← hck, h1] at this; cases this

/-- no spending input has a debit in both halves -/
theorem no_both_debit (hOm : OwnMinus own own' w) (hOw : OwnSub own ow (fun x => decide (x = w)))
    (hV : ChainValid own (pre ++ post)) {dk : CredKey} {d d' : Nat × CredKey}
    (h1 : (bookOf p own' (pre ++ post)).debits dk = some d) (h2 : (bookOf p ow pre).debits dk = some d') : False := by
  obtain ⟨u, hu, hw, hsp⟩ := (sepP_half (p := p) hOw hV).debit _ _ h2
  have huw : u.wallet = w := by simpa using hw
  have := sep_debit (sepR_half (p := p) hOm hV) (u := u) ⟨hu, huw⟩ hsp
  rw [h1] at this; cases this

/-- every credit of `w`'s half pays `w` -/
theorem bw_cred_isW (hOw : OwnSub own ow (fun x => decide (x = w))) (hV : ChainValid own (pre ++ post))
    {ck : CredKey} {cr : Credit} (h : (bookOf p ow pre).credits ck = some cr) : isW own w cr.sh = true := by
  have hVw : ChainValid ow pre := chainValid_sub hOw (chainValid_prefix hV)
  have hCw := credInv_bookOf (p := p) hVw
  obtain ⟨u, hu, hck⟩ := hCw.only ck cr h
  obtain ⟨cr', hcr', hsh⟩ := credit_sh_of_created hCw hu
  rw [← hck, h] at hcr'
  injection hcr' with hcr'
  obtain ⟨hu0, hk⟩ := (createdIn_sub hOw).1 hu
  rw [hcr', hsh, isW_created hu0]
  exact hk

/-- every coin of `w`'s half is `w`'s -/
theorem bw_L_wallet (hOw : OwnSub own ow (fun x => decide (x = w))) (chain : List Block) :
    ∀ u ∈ (bookOf p ow chain).L, u.wallet = w := by
  intro u hu
  rw [bookOf_L_sub hOw p chain] at hu
  simpa using (List.mem_filter.1 hu).2

/-- every coin of the other half is another wallet's -/
theorem br_L_wallet (hOm : OwnMinus own own' w) (chain : List Block) :
    ∀ u ∈ (bookOf p own' chain).L, u.wallet ≠ w := by
  intro u hu
  rw [bookOf_L_sub (ownSub_of_minus hOm) p chain] at hu
  simpa using (List.mem_filter.1 hu).2

theorem mem_occs_pre {oc : Occ} (h : oc ∈ occs pre) : oc ∈ occs (pre ++ post) := by
  rw [occs_append]; exact List.mem_append_left _ h

end

-- ------------------------------------------------------------------ UpperOK of the join

section
variable {c : Ctx} {w : Wid} {own' ow : Own} {pre post : List Block}

theorem upperOK_joinB (hOm : OwnMinus c.own own' w) (hOw : OwnSub c.own ow (fun x => decide (x = w)))
    (hV : ChainValid c.own (pre ++ post)) :
    UpperOK c w own' (pre ++ post) (joinB (bookOf c.p own' (pre ++ post)) (bookOf c.p ow pre)) := by
  have hOr := ownSub_of_minus hOm
  have hVr : ChainValid own' (pre ++ post) := chainValid_sub hOr hV
  have hVw : ChainValid ow pre := chainValid_sub hOw (chainValid_prefix hV)
  have hBM := bookOf_minus hOm c.p hV
  have hSR := sepR_half (p := c.p) hOm hV
  have hSP := sepP_half (p := c.p) hOw hV
  -- credits of the join that pay another wallet are the credits of `Br`
  have hcred : ∀ ck cr, (bookOf c.p own' (pre ++ post)).credits ck = some cr ↔
      orE ((bookOf c.p own' (pre ++ post)).credits ck) ((bookOf c.p ow pre).credits ck) = some cr ∧
        isW c.own w cr.sh = false := by
    intro ck cr
    constructor
    · intro h
      exact ⟨by rw [h]; rfl, ((hBM.credits ck cr).1 h).2⟩
    · rintro ⟨h, hw⟩
      rcases orE_eq_some h with h1 | ⟨_, h2⟩
      · exact h1
      · rw [bw_cred_isW hOw hV h2] at hw; cases hw
  refine ⟨⟨?_, hcred, ?_, ?_, ?_⟩, ?_, ?_, ?_, ?_, ?_⟩
  · -- L
    show (bookOf c.p own' (pre ++ post)).L =
      ((bookOf c.p own' (pre ++ post)).L ++ (bookOf c.p ow pre).L).filter (keepU w)
    rw [List.filter_append]
    have h1 : (bookOf c.p own' (pre ++ post)).L.filter (keepU w) = (bookOf c.p own' (pre ++ post)).L := by
      rw [List.filter_eq_self]
      intro u hu
      unfold keepU
      simpa using br_L_wallet hOm _ u hu
    have h2 : (bookOf c.p ow pre).L.filter (keepU w) = [] := by
      rw [List.filter_eq_nil_iff]
      intro u hu
      unfold keepU
      simpa using bw_L_wallet hOw _ u hu
    rw [h1, h2, List.append_nil]
  · -- debits
    intro dk d
    show _ ↔ orE _ _ = some d ∧ ∃ cr, orE _ _ = some cr ∧ _
    constructor
    · intro h
      obtain ⟨cr, hcr, _⟩ := debit_credit hVr h
      exact ⟨by rw [h]; rfl, cr, ((hcred d.2 cr).1 hcr).1, ((hcred d.2 cr).1 hcr).2⟩
    · rintro ⟨h, cr, hcr, hw⟩
      have hcr' := (hcred d.2 cr).2 ⟨hcr, hw⟩
      rcases orE_eq_some h with h1 | ⟨_, h2⟩
      · exact h1
      · obtain ⟨cr2, hcr2, _⟩ := debit_credit hVw h2
        exact (no_both_cred hOm hOw hV hcr' hcr2).elim
  · -- game
    intro gk
    show _ ↔ orE _ _ = some () ∧ _
    constructor
    · intro h
      exact ⟨by rw [h]; rfl, hSR.game gk h⟩
    · rintro ⟨h, hw⟩
      rcases orE_eq_some h with h1 | ⟨_, h2⟩
      · exact h1
      · have := hSP.game gk h2
        exact absurd (by simpa using this) hw
  · -- txrecs
    intro key loc
    show _ ↔ orE _ _ = some loc ∧ _
    have hN : ∀ t, NeededBy c.own own' w (joinB (bookOf c.p own' (pre ++ post)) (bookOf c.p ow pre)) t ↔
        NeededBy c.own own' w (bookOf c.p c.own (pre ++ post)) t := by
      intro t
      unfold NeededBy
      constructor
      · rintro (h | ⟨hcb, i, hi, ck, cr, hcr, h1, h2, hw⟩)
        · exact Or.inl h
        · exact Or.inr ⟨hcb, i, hi, ck, cr, ((hBM.credits ck cr).1 ((hcred ck cr).2 ⟨hcr, hw⟩)).1, h1, h2, hw⟩
      · rintro (h | ⟨hcb, i, hi, ck, cr, hcr, h1, h2, hw⟩)
        · exact Or.inl h
        · exact Or.inr ⟨hcb, i, hi, ck, cr, ((hcred ck cr).1 ((hBM.credits ck cr).2 ⟨hcr, hw⟩)).1, h1, h2, hw⟩
    constructor
    · intro h
      obtain ⟨_, oc, hoc, hk, hNB⟩ := (hBM.txrecs key loc).1 h
      exact ⟨by rw [h]; rfl, oc, hoc, hk, (hN oc.t).2 hNB⟩
    · rintro ⟨h, oc, hoc, hk, hNU⟩
      have hNB := (hN oc.t).1 hNU
      obtain ⟨P₁, P₂, hs⟩ := List.append_of_mem hoc
      have hV' : ValidFrom c.own [] (P₁ ++ oc :: P₂) := by rw [← hs]; exact hV
      have ht : touches own' (P₁.foldl (applyOcc c.p own') {}) oc.t = true := by
        apply (touches_minus_iff hOm c.p hV').2
        rw [← hs]; exact hNB
      have hr : (bookOf c.p own' (pre ++ post)).txrecs key = some (oc.bm.hash, oc.ti) :=
        (bookOf_txrecs_iff hVr key _).2 ⟨P₁, oc, P₂, hs, ht, hk, rfl⟩
      rw [hr] at h ⊢
      exact h
  · -- keys
    intro u hu u' hu' ht hi
    have hu1 : u ∈ (bookOf c.p own' (pre ++ post)).L ++ (bookOf c.p ow pre).L := hu
    have hu1' : u' ∈ (bookOf c.p own' (pre ++ post)).L ++ (bookOf c.p ow pre).L := hu'
    have hcross : ∀ a ∈ (bookOf c.p own' (pre ++ post)).L, ∀ b ∈ (bookOf c.p ow pre).L,
        a.tx = b.tx → a.idx = b.idx → False := by
      intro a ha b hb h1 h2
      obtain ⟨hca, hwa, _⟩ := hSR.L a ha
      obtain ⟨hcb, hwb⟩ := hSP.L b hb
      have := char_created_unique hSR.nodup hca hcb h1 h2
      rw [this] at hwa
      exact hwa (by simpa using hwb)
    rcases List.mem_append.1 hu1 with h | h <;> rcases List.mem_append.1 hu1' with h' | h'
    · exact char_keysOK (glob_bookOf (p := c.p) hVr) u h u' h' ht hi
    · exact (hcross u h u' h' ht hi).elim
    · exact (hcross u' h' u h ht.symm hi.symm).elim
    · exact char_keysOK (glob_bookOf (p := c.p) hVw) u h u' h' ht hi
  · -- creditOcc
    intro ck cr h
    rcases orE_eq_some (show orE _ _ = some cr from h) with h1 | ⟨_, h2⟩
    · exact credit_occ hVr h1
    · obtain ⟨oc, hoc, h⟩ := credit_occ hVw h2
      exact ⟨oc, mem_occs_pre hoc, h⟩
  · -- spKeyDebit
    intro ck dk cr h hs
    rcases orE_eq_some (show orE _ _ = some cr from h) with h1 | ⟨_, h2⟩
    · obtain ⟨⟨amt, hd⟩, hoc⟩ := spKey_debit hVr h1 hs
      exact ⟨⟨amt, show orE _ _ = _ by rw [hd]; rfl⟩, hoc⟩
    · obtain ⟨⟨amt, hd⟩, oc, hoc, ho⟩ := spKey_debit hVw h2 hs
      refine ⟨⟨amt, show orE _ _ = _ from ?_⟩, oc, mem_occs_pre hoc, ho⟩
      cases hr : (bookOf c.p own' (pre ++ post)).debits dk with
      | none => rw [hd]; rfl
      | some d => exact (no_both_debit hOm hOw hV hr hd).elim
  · -- debitCredit
    intro dk d h
    rcases orE_eq_some (show orE _ _ = some d from h) with h1 | ⟨_, h2⟩
    · obtain ⟨cr, hcr, hs⟩ := debit_credit hVr h1
      exact ⟨cr, show orE _ _ = _ by rw [hcr]; rfl, hs⟩
    · obtain ⟨cr, hcr, hs⟩ := debit_credit hVw h2
      refine ⟨cr, show orE _ _ = _ from ?_, hs⟩
      cases hr : (bookOf c.p own' (pre ++ post)).credits d.2 with
      | none => rw [hcr]; rfl
      | some cr' => exact (no_both_cred hOm hOw hV hr hcr).elim
  · -- txrecOcc
    intro k loc h
    rcases orE_eq_some (show orE _ _ = some loc from h) with h1 | ⟨_, h2⟩
    · obtain ⟨P₁, oc, P₂, hs, _, hk, hl⟩ := txrec_occ hVr h1
      exact ⟨oc, by rw [hs]; simp, hk, hl⟩
    · obtain ⟨P₁, oc, P₂, hs, _, hk, hl⟩ := txrec_occ hVw h2
      exact ⟨oc, mem_occs_pre (by rw [hs]; simp), hk, hl⟩

end

-- ------------------------------------------------------------------ the two theorems, on the chain and the flag height

section
variable {c : Ctx} {w : Wid} {addrs : List Addr} {own' : Own} {chain : List Block} {k : Nat}

/-- **the joined book meets the interface of the removal-step proofs** -/
theorem upperOK_join (H : RemHyp c w addrs own' chain) (hKN : KeysNodup c.own) (_hk : k + 1 ≤ chain.length) :
    UpperOK c w own' chain (joinBookK c w own' chain k) := by
  have h := upperOK_joinB (c := c) (w := w) (own' := own') (ow := ownW c.own w) (pre := chain.take (k + 1))
    (post := chain.drop (k + 1)) H.minus (ownW_sub hKN w) (by rw [List.take_append_drop]; exact H.valid)
  rw [List.take_append_drop] at h
  exact h

/-- **the store of a flagged wallet, before any removal step, satisfies the in-progress invariant** relative to the
    joined book -/
theorem scanJS_to_midU {s : Store} (H : RemHyp c w addrs own' chain) (hKN : KeysNodup c.own)
    (_hk : k + 1 ≤ chain.length) (hS : ScanJS c w s chain k)
    (_hnr : (readyWallets s c.wallets).contains w = false) (hn : KeysNodup s.credits)
    (hp : ∀ e ∈ s.pendCred, addrs.contains e.2.sh = false → e.1.1 ∉ idsOf (occs chain)) :
    MidU c w addrs own' s chain (joinBookK c w own' chain k) := by
  have hOw := ownW_sub hKN w
  have hE : bookOf c.p (ownR c.own w) chain = bookOf c.p own' chain := (bookOf_ownR H.minus hKN c.p chain).symm
  have hA : AgreeJ s (bookOf c.p own' chain) (bookOf c.p (ownW c.own w) (chain.take (k + 1))) := by
    have := hS.agree
    rw [hE] at this
    exact this
  have hV : ChainValid c.own (chain.take (k + 1) ++ chain.drop (k + 1)) := by
    rw [List.take_append_drop]; exact H.valid
  have hVw : ChainValid (ownW c.own w) (chain.take (k + 1)) := chainValid_sub hOw (chainValid_prefix hV)
  refine ⟨hn, fun k => Or.inl (hA.credits k), fun dk => Or.inl (hA.debits dk), ?_, hA.unspent, hA.game,
    fun k => Or.inl (hA.txrecs k), ?_, hS.blocks, ?_, hS.sync, hS.syncedTo, hp⟩
  · -- debitsW
    intro dk d cr _ hcr _
    rw [hA.credits]; exact hcr
  · -- txrecsW
    intro key loc hg hB'
    rw [hA.txrecs, hB'] at hg
    obtain ⟨ck, cr, hcr, hlead⟩ := txrec_lead hVw (show (bookOf c.p (ownW c.own w) (chain.take (k + 1))).txrecs key = some loc from hg)
    refine ⟨ck, cr, ?_, bw_cred_isW hOw hV hcr, hlead⟩
    rw [hA.credits]
    cases hr : (bookOf c.p own' chain).credits ck with
    | none => exact hcr
    | some cr' =>
      exfalso
      have hr' : (bookOf c.p own' (chain.take (k + 1) ++ chain.drop (k + 1))).credits ck = some cr' := by
        rw [List.take_append_drop]; exact hr
      exact no_both_cred H.minus hOw hV hr' hcr
  · -- bal
    intro w' hw' hr
    have := hS.balR w' hw' hr
    rw [hE] at this
    rw [this]
    show some _ = some (totalU ((bookOf c.p own' chain).L ++ (bookOf c.p (ownW c.own w) (chain.take (k + 1))).L) w')
    rw [totalU_append, totalU_zero (A := (bookOf c.p (ownW c.own w) (chain.take (k + 1))).L) (fun u hu => by
      rw [bw_L_wallet hOw _ u hu]; exact fun h => hw' h.symm)]
    rfl

/-- the flag moment: C01's invariant (with `w`'s balance still its ledger total) IS the joined invariant at the tip
    (the converse of `MW.Lemmas.ImportJoin.scanJ_tip_inv`, for an explicit stored chain) -/
theorem inv_to_scanJS {s : Store} (hKN : KeysNodup c.own) (hV : ChainValid c.own chain) (hH : HeightsOK chain)
    (hI : Inv c s chain) (hb : AMap.get s.balance w = some (totalU (bookOf c.p c.own chain).L w))
    (hk : k + 1 = chain.length) : ScanJS c w s chain k := by
  have hOr := ownR_sub hKN w
  have hOw := ownW_sub hKN w
  have ht : chain.take (k + 1) = chain := List.take_of_length_le (by omega)
  have hA := hI.agree
  have hJ : AgreeJ s (bookOf c.p (ownR c.own w) chain) (bookOf c.p (ownW c.own w) chain) := by
    refine ⟨?_, ?_, ?_, ?_, ?_⟩
    · intro w' tx idx
      rw [hA.unspent, join_lookup (p := c.p) hOr hOw hV]
    · intro key; rw [hA.credits, join_credits (p := c.p) hOr hOw hV]
    · intro key; rw [hA.debits, join_debits (p := c.p) hOr hOw hV]
    · intro key; rw [hA.game, join_game (p := c.p) hOr hOw hV]
    · intro key; rw [hA.txrecs, join_txrecs (p := c.p) hOr hOw hV]
  refine ⟨by rw [ht]; exact hJ, ?_, ?_, ?_, ?_, hI.sync, hI.syncedTo⟩
  · intro h
    rw [hA.blocks, blocks_eq_blockRecOf c.p c.own chain hV hH h]
    apply blockRecOf_congr
    intro key
    unfold hasRec
    rw [hA.txrecs]
  · intro key loc hl
    rw [hA.txrecs] at hl
    obtain ⟨P₁, oc, P₂, hsp, _, hk', hloc⟩ := txrec_occ hV hl
    exact ⟨oc, by rw [hsp]; simp, hk', hloc⟩
  · rw [ht, hb, join_total_w (p := c.p) hOw]
  · intro w' hww hr
    rw [join_total_r (p := c.p) (chain := chain) hOr w' hww]
    exact hI.bal w' hr

end

end MW.Lemmas.RemoveJoin
