/-
  C09 history-level refinement, model side, part 2: CONNECTING A BLOCK.

  `KInv rank s0 U s`: invariant of the loops of `filterBlock` over the transactions `U` of the block processed so
  far (confirm operation on each), relative to the store `s0` at the start of the block.
  `KInv.final`: when every non-coinbase transaction of the block has been processed, the pending records are
  exactly the survivors of `Spec.Pending.settle` on the longer chain.
-/
import MW.Lemmas.PendHistPurge
import MW.Lemmas.PendHistSpec
namespace MW.Lemmas.PendHist
open MW MW.Model.Ledger MW.Spec.Pending MW.Lemmas.LedgerPending

structure KInv (rank : TxId → Nat) (s0 : Store) (U : List Tx) (s : Store) : Prop where
  wf : PendWF rank s
  sub_p : ∀ id t, AMap.get s.pending id = some t → AMap.get s0.pending id = some t
  sub_l : ∀ op x, Listed s op x → Listed s0 op x
  done_p : ∀ u ∈ U, AMap.get s.pending u.id = none
  done_l : ∀ u ∈ U, ∀ i ∈ u.ins, ∀ x, ¬ Listed s (i.tx, i.idx) x
  closed : ∀ t, AMap.get s.pending t.id = some t → ∀ i ∈ t.ins, ∀ p, AMap.get s0.pending i.tx = some p →
    i.idx < p.outs.length → AMap.get s.pending i.tx = some p ∨ ∃ u ∈ U, u.id = i.tx
  only : ∀ t, AMap.get s0.pending t.id = some t → Gone s t →
    (∃ u ∈ U, u.id = t.id) ∨
    ∃ u ∈ U, ∃ i ∈ u.ins, ∃ r, r.id ≠ u.id ∧ AMap.get s0.pending r.id = some r ∧ Spends r (i.tx, i.idx) ∧ Desc s0 r t

theorem KInv.init {rank : TxId → Nat} {s0 : Store} (hw : PendWF rank s0) : KInv rank s0 [] s0 :=
  ⟨hw, fun _ _ h => h, fun _ _ h => h, fun _ h => (by cases h), fun _ h => (by cases h),
    fun _ _ _ _ p hp _ => Or.inl hp, fun t ht hg => (by unfold Gone at hg; rw [ht] at hg; cases hg)⟩

theorem listed_congr {s s1 : Store} (h2 : s1.pendIns = s.pendIns) (op : TxId × Nat) (x : TxId) :
    Listed s1 op x ↔ Listed s op x := by unfold Listed; rw [h2]

theorem KInv.silent {rank : TxId → Nat} {s0 s s1 : Store} {U : List Tx} (h : KInv rank s0 U s)
    (h1 : s1.pending = s.pending) (h2 : s1.pendIns = s.pendIns) : KInv rank s0 U s1 := by
  refine ⟨PendWF.congr h.wf h1 h2, fun id t hg => h.sub_p id t (by rw [← h1]; exact hg),
    fun op x hl => h.sub_l op x ((listed_congr h2 op x).1 hl), fun u hu => by rw [h1]; exact h.done_p u hu,
    fun u hu i hi x hl => h.done_l u hu i hi x ((listed_congr h2 _ x).1 hl), ?_, ?_⟩
  · intro t ht i hi p hp hidx
    rw [h1] at ht ⊢
    exact h.closed t ht i hi p hp hidx
  · intro t ht hg
    exact h.only t ht (by unfold Gone at *; rw [← h1]; exact hg)

theorem desc_lift {s s0 : Store} (hp : ∀ id t, AMap.get s.pending id = some t → AMap.get s0.pending id = some t)
    (hl : ∀ op x, Listed s op x → Listed s0 op x) {r t : Tx} (h : Desc s r t) : Desc s0 r t := by
  induction h with
  | root => exact Desc.root
  | step _ he ih =>
    obtain ⟨i, hi, h1, h2⟩ := he
    exact Desc.step ih ⟨i, hi, hl _ _ h1, hp _ _ h2⟩

section conf
variable (rank : TxId → Nat) (own : Own)

/-- one confirm operation keeps the invariant -/
theorem KInv.conf {s0 s : Store} {U : List Tx} (h : KInv rank s0 U s) (tr : TxRec)
    (hsame : ∀ t, AMap.get s.pending tr.tx.id = some t → t = tr.tx) :
    KInv rank s0 (U ++ [tr.tx]) (confirmPending own s tr) := by
  obtain ⟨c1, c2, c3, c4, c5, c6⟩ := confirm_op rank own s tr h.wf hsame
  refine ⟨c1, fun id t hg => h.sub_p id t (c2.pending_some hg), fun op x hl => h.sub_l op x (c2.ins _ _ hl), ?_, ?_,
    ?_, ?_⟩
  · intro u hu
    rcases List.mem_append.1 hu with hu | hu
    · exact c2.pending_none (h.done_p u hu)
    · rw [List.mem_singleton.1 hu]; exact c3
  · intro u hu i hi x hl
    rcases List.mem_append.1 hu with hu | hu
    · exact h.done_l u hu i hi x (c2.ins _ _ hl)
    · rw [List.mem_singleton.1 hu] at hi; exact c4 i hi x hl
  · intro t ht i hi p hp hidx
    have hts := c2.pending_some ht
    rcases h.closed t hts i hi p hp hidx with hps | ⟨u, hu, hid⟩
    · have hpid : p.id = i.tx := h.wf.key_id _ _ hps
      rcases c2.pending_same hps with h' | h'
      · exact Or.inl h'
      · by_cases hpu : p.id = tr.tx.id
        · exact Or.inr ⟨tr.tx, List.mem_append_right _ (List.mem_singleton.2 rfl), by rw [← hpu, hpid]⟩
        · exfalso
          have hedge : Edge s p t := ⟨i.idx, hidx, by rw [hpid]; exact h.wf.complete _ _ hts i hi, hts⟩
          have := c5 p t (by rw [hpid]; exact hps) hpu (by unfold Gone; rw [hpid]; exact h') hedge
          unfold Gone at this; rw [ht] at this; cases this
    · exact Or.inr ⟨u, List.mem_append_left _ hu, hid⟩
  · intro t ht hg
    cases hts : AMap.get s.pending t.id with
    | none =>
      rcases h.only t ht hts with ⟨u, hu, hid⟩ | ⟨u, hu, i, hi, r, h1, h2, h3, h4⟩
      · exact Or.inl ⟨u, List.mem_append_left _ hu, hid⟩
      · exact Or.inr ⟨u, List.mem_append_left _ hu, i, hi, r, h1, h2, h3, h4⟩
    | some t' =>
      have : t' = t := by have := h.sub_p _ _ hts; rw [ht] at this; exact (Option.some.inj this).symm
      subst this
      rcases c6 t' hts hg with hid | ⟨i, hi, r, hrne, hl, hr, hd⟩
      · exact Or.inl ⟨tr.tx, List.mem_append_right _ (List.mem_singleton.2 rfl), hid.symm⟩
      · refine Or.inr ⟨tr.tx, List.mem_append_right _ (List.mem_singleton.2 rfl), i, hi, r, hrne, h.sub_p _ _ hr, ?_,
          desc_lift h.sub_p h.sub_l hd⟩
        obtain ⟨r', hr', hsp⟩ := h.wf.sound _ _ hl
        rw [hr] at hr'; cases hr'; exact hsp

/-- the relevant records of the block, in order (the loop of onRelevantBlockConnected) -/
theorem KInv.reach {s0 : Store} {trs : List TxRec} {s s' : Store} (hr : ConfReach own trs s s') :
    ∀ {U : List Tx}, KInv rank s0 U s →
      (∀ tr ∈ trs, ∀ t, AMap.get s0.pending tr.tx.id = some t → t = tr.tx) →
      KInv rank s0 (U ++ trs.map (·.tx)) s' := by
  induction hr with
  | nil => intro U h _; simpa using h
  | silent h1 h2 _ ih => intro U h hid; exact ih (h.silent h1 h2) hid
  | @conf tr trs s s' _ ih =>
    intro U h hid
    have := ih (h.conf rank own tr (fun t ht => hid tr List.mem_cons_self t (h.sub_p _ _ ht)))
      (fun tr' htr' => hid tr' (List.mem_cons_of_mem _ htr'))
    simpa [List.append_assoc] using this

/-- the irrelevant transactions of the block (RemoveUnminedConflicts): none of them is pending -/
theorem KInv.unrelated {s0 : Store} : ∀ (unrel : List Tx) {U : List Tx} {s : Store}, KInv rank s0 U s →
    (∀ t ∈ unrel, AMap.get s0.pending t.id = none) →
    KInv rank s0 (U ++ unrel) (purgeUnrelated own s unrel) := by
  intro unrel
  induction unrel with
  | nil => intro U s h _; simpa [purgeUnrelated] using h
  | cons t unrel ih =>
    intro U s h hnp
    have hnone : AMap.get s.pending t.id = none := by
      cases hg : AMap.get s.pending t.id with
      | none => rfl
      | some x => have := h.sub_p _ _ hg; rw [hnp t List.mem_cons_self] at this; cases this
    have hstep : purgeUnrelated own s (t :: unrel) = purgeUnrelated own (removeDoubleSpends own s { tx := t }) unrel := rfl
    rw [hstep, removeDoubleSpends_eq_confirm own s t hnone]
    have h1 := h.conf rank own { tx := t } (fun x hx => by rw [hnone] at hx; cases hx)
    have := ih h1 (fun t' ht' => hnp t' (List.mem_cons_of_mem _ ht'))
    simpa [List.append_assoc] using this

end conf

/-- DOMAIN of a connect step (decidable; every clause follows from the validity of the chain and from ids
    being hashes): coinbases have no inputs; every input of a block transaction refers to a transaction of the
    chain; no two transactions of the block spend the same coin; a block transaction with the id of a pending
    transaction IS that transaction; ids are distinct within the block. -/
structure ConnOK (c : List Block) (b : Block) (P : List Tx) : Prop where
  cbins : ∀ u ∈ b.txs, u.cb = true → u.ins = []
  parents : ∀ u ∈ b.txs, ∀ i ∈ u.ins, onChain (c ++ [b]) i.tx = true
  nodbl : ∀ u ∈ b.txs, ∀ u' ∈ b.txs, u.id ≠ u'.id → ∀ i ∈ u.ins, ∀ j ∈ u'.ins, sameCoin i j = false
  ident : ∀ u ∈ b.txs, ∀ t ∈ P, u.id = t.id → u = t
  bnd : (b.txs.map (·.id)).Nodup

theorem sameCoin_iff (i j : Inp) : sameCoin i j = true ↔ (i.tx = j.tx ∧ i.idx = j.idx) := by
  unfold sameCoin; simp

theorem conflictedBy_single (b : Block) (t : Tx) : conflictedBy [b] t = true ↔
    ∃ u ∈ b.txs, u.cb = false ∧ u.id ≠ t.id ∧ ∃ i ∈ u.ins, ∃ j ∈ t.ins, sameCoin i j = true := by
  unfold conflictedBy
  simp only [List.any_cons, List.any_nil, Bool.or_false, List.any_eq_true, Bool.and_eq_true, Bool.not_eq_true',
    decide_eq_true_eq, ne_eq]
  constructor
  · rintro ⟨u, hu, ⟨h1, h2⟩, i, hi, j, hj, h3⟩; exact ⟨u, hu, h1, h2, i, hi, j, hj, h3⟩
  · rintro ⟨u, hu, h1, h2, i, hi, j, hj, h3⟩; exact ⟨u, hu, ⟨h1, h2⟩, i, hi, j, hj, h3⟩

/-- THE CONNECT STEP, set level: after the confirm operation on every non-coinbase transaction of the block
    (and possibly on coinbases), the pending records are the survivors of `settle` on the longer chain -/
theorem KInv.final {rank : TxId → Nat} {s0 s' : Store} {U P : List Tx} {c : List Block} {b : Block}
    (h : KInv rank s0 U s') (hrel : PendRel rank s0 P) (hcons : Consistent c P) (hidx : IdxOK P)
    (hnocb : ∀ t ∈ P, t.cb = false) (hok : ConnOK c b P)
    (hU1 : ∀ u ∈ U, u ∈ b.txs) (hU2 : ∀ u ∈ b.txs, u.cb = false → u ∈ U) :
    PendRel rank s' (settle (c ++ [b]) [] P) := by
  have hsame : ∀ {x x' : Tx}, x ∈ P → AMap.get s'.pending x.id = some x' → x' = x := by
    intro x x' hx hg
    have h1 := h.sub_p _ _ hg
    obtain ⟨h2, h3⟩ := (hrel.ids _ _).1 h1
    exact eq_of_id hrel.nodup h2 hx h3
  have hinb : ∀ {x : Tx}, x ∈ P → hasId b.txs x.id = true → x ∈ b.txs := by
    intro x hx hh
    obtain ⟨u, hu, hid⟩ := (hasId_iff _ _).1 hh
    rw [← hok.ident u hu x hx hid]; exact hu
  -- (1) what settle drops is gone
  have hlost : ∀ x, Lost (c ++ [b]) [] P x → Gone s' x := by
    intro x hx
    induction hx with
    | @base x hxP ha =>
      rw [alive0_connect hcons hxP] at ha
      cases hh : hasId b.txs x.id with
      | true => exact h.done_p x (hU2 x (hinb hxP hh) (hnocb x hxP))
      | false =>
        rw [hh] at ha
        have hcf : conflictedBy [b] x = true := by simpa using ha
        obtain ⟨u, hu, hucb, _, i, hi, j, hj, hsc⟩ := (conflictedBy_single b x).1 hcf
        obtain ⟨e1, e2⟩ := (sameCoin_iff i j).1 hsc
        cases hg : AMap.get s'.pending x.id with
        | none => exact hg
        | some x' =>
          exfalso
          have := hsame hxP hg; subst this
          have hl := h.wf.complete _ _ hg j hj
          rw [← e1, ← e2] at hl
          exact h.done_l u (hU2 u hu hucb) i hi _ hl
    | @step x p i hxP hi hpP hpid hnc _ ih =>
      cases hg : AMap.get s'.pending x.id with
      | none => exact hg
      | some x' =>
        exfalso
        have := hsame hxP hg; subst this
        have hp0 : AMap.get s0.pending i.tx = some p := by rw [← hpid]; exact hrel.pending_of_mem hpP
        rcases h.closed x' hg i hi p hp0 (hidx x' hxP i hi p hpP hpid) with h1 | ⟨u, hu, hid⟩
        · unfold Gone at ih; rw [hpid, h1] at ih; cases ih
        · have : onChain (c ++ [b]) i.tx = true := by
            rw [onChain_append, onChain_single]
            have : hasId b.txs i.tx = true := (hasId_iff _ _).2 ⟨u, hU1 u hu, hid⟩
            simp [this]
          rw [this] at hnc; cases hnc
  -- (2) what is gone was dropped by settle
  have honly : ∀ t, t ∈ P → Gone s' t → Lost (c ++ [b]) [] P t := by
    intro t htP hg
    rcases h.only t (hrel.pending_of_mem htP) hg with ⟨u, hu, hid⟩ | ⟨u, hu, i, hi, r, hrne, hr, hsp, hd⟩
    · refine Lost.base htP ?_
      unfold alive0
      rw [onChain_append, onChain_single, (hasId_iff _ _).2 ⟨u, hU1 u hu, hid⟩]
      simp
    · have hub := hU1 u hu
      have hucb : u.cb = false := by
        cases hcb : u.cb with
        | false => rfl
        | true => rw [hok.cbins u hub hcb] at hi; cases hi
      have hrP := hrel.mem_of_pending hr
      obtain ⟨j, hj, hop⟩ := hsp
      have hsc : sameCoin i j = true := (sameCoin_iff i j).2 ⟨(Prod.mk.inj hop).1.symm, (Prod.mk.inj hop).2.symm⟩
      have hrlost : Lost (c ++ [b]) [] P r := by
        refine Lost.base hrP ?_
        unfold alive0
        rw [conflictedBy_append, (conflictedBy_single b r).2 ⟨u, hub, hucb, fun e => hrne e.symm, i, hi, j, hj, hsc⟩]
        simp
      have hrnb : hasId b.txs r.id = false := by
        cases hh : hasId b.txs r.id with
        | false => rfl
        | true =>
          have := hok.nodbl u hub r (hinb hrP hh) (fun e => hrne e.symm) i hi j hj
          rw [hsc] at this; cases this
      -- along the descendants
      have hall : ∀ d, Desc s0 r d → Lost (c ++ [b]) [] P d ∧ d ∈ P ∧ hasId b.txs d.id = false := by
        intro d hd
        induction hd with
        | root => exact ⟨hrlost, hrP, hrnb⟩
        | @step d e _ he ih =>
          obtain ⟨ihl, ihP, ihb⟩ := ih
          obtain ⟨k, _, hl, he0⟩ := he
          have heP := hrel.mem_of_pending he0
          obtain ⟨e', he', inp, hinp, hop'⟩ := hrel.wf.sound _ _ hl
          rw [he0] at he'; cases he'
          have e1 : inp.tx = d.id := (Prod.mk.inj hop').1
          have hnc : onChain (c ++ [b]) inp.tx = false := by
            rw [e1, onChain_append, onChain_single, (hcons d ihP).1, ihb]; rfl
          refine ⟨Lost.step inp heP hinp ihP e1.symm hnc ihl, heP, ?_⟩
          cases hh : hasId b.txs e.id with
          | false => rfl
          | true =>
            have := hok.parents e (hinb heP hh) inp hinp
            rw [hnc] at this; cases this
      exact (hall t hd).1
  have hnd := settle_nodup (c ++ [b]) [] P hrel.nodup
  refine ⟨h.wf, ?_, hnd⟩
  intro id t
  constructor
  · intro hg
    have hid := h.wf.key_id _ _ hg
    have htP := hrel.mem_of_pending (h.sub_p _ _ hg)
    refine ⟨(mem_settle _ _ _ hrel.nodup t).2 ⟨htP, fun hl => ?_⟩, hid⟩
    have := hlost t hl
    unfold Gone at this; rw [hid, hg] at this; cases this
  · rintro ⟨hm, hid⟩
    obtain ⟨htP, hnl⟩ := (mem_settle _ _ _ hrel.nodup t).1 hm
    subst hid
    cases hg : AMap.get s'.pending t.id with
    | none => exact absurd (honly t htP hg) hnl
    | some t' => rw [hsame htP hg]

end MW.Lemmas.PendHist
