/-
  BucketNames (transaction level and bucket level): the two loops of leveldb.go, and
  read-your-writes for bucket listings.
-/
import MW.Lemmas.KvRyw
import MW.Lemmas.KvEnc
namespace MW.Model.KV
open MW MW.KV

def legalEntry (depth : Nat) (e : Bytes × Bytes) : Bool := nameEntryLegal depth e.1 e.2

theorem namesLoop1_eq (depth : Nat) (es : List (Bytes × Bytes)) (acc : List Bytes) :
    namesLoop1 depth es acc =
      if es.all (legalEntry depth) then .ok (acc ++ es.map (·.2)) else .error .illegalValue := by
  induction es generalizing acc with
  | nil => simp [namesLoop1]
  | cons e rest ih =>
    obtain ⟨k, v⟩ := e
    simp only [namesLoop1, List.all_cons, legalEntry]
    by_cases hl : nameEntryLegal depth k v = true
    · simp only [hl, if_true, Bool.true_and, ih]
      by_cases ha : rest.all (legalEntry depth) = true <;> simp [ha]
    · simp [hl]

/-- the Go `set` test of the second loop: a name already listed is not listed again -/
def dedupe (acc : List Bytes) (vs : List Bytes) : List Bytes :=
  vs.foldl (fun a v => if a.contains v then a else a ++ [v]) acc

theorem namesLoop2_eq (depth : Nat) (es : List (Bytes × Bytes)) (acc : List Bytes) :
    namesLoop2 depth es acc =
      if es.all (legalEntry depth) then .ok (dedupe acc (es.map (·.2))) else .error .illegalValue := by
  induction es generalizing acc with
  | nil => simp [namesLoop2, dedupe]
  | cons e rest ih =>
    obtain ⟨k, v⟩ := e
    simp only [namesLoop2, List.all_cons, legalEntry]
    by_cases hl : nameEntryLegal depth k v = true
    · simp only [hl, if_true, Bool.true_and]
      by_cases hc : acc.contains v = true
      · simp only [hc, if_true, ih, List.map_cons, dedupe, List.foldl_cons]
      · simp only [hc, Bool.false_eq_true, if_false, ih, List.map_cons, dedupe, List.foldl_cons]
    · simp [hl]

/-- under one index-scan prefix a legal entry's name determines its key -/
def KeyDetermined (pfx : Bytes) (depth : Nat) : Prop :=
  ∀ k k' v, pfx <+: k → pfx <+: k' → nameEntryLegal depth k v = true → nameEntryLegal depth k' v = true → k = k'

/-- the dedupe of loop 2 keeps exactly the net puts whose key loop 1 has not produced -/
theorem dedupe_eq_filter (U : Bytes × Bytes → Prop)
    (hU : ∀ e e', U e → U e' → e.2 = e'.2 → e.1 = e'.1)
    (A : List (Bytes × Bytes)) (hA : ∀ e ∈ A, U e) :
    ∀ (N P : List (Bytes × Bytes)), (∀ e ∈ N, U e) → (∀ e ∈ P, U e) →
      N.Pairwise (fun a b => a.1 ≠ b.1) →
      (∀ e ∈ N, e.1 ∈ A.map (·.1) → e ∈ A) →
      (∀ e ∈ P, ∀ e' ∈ N, e.1 ≠ e'.1) →
      dedupe ((A ++ P).map (·.2)) (N.map (·.2)) =
        (A ++ P ++ N.filter fun e => !(A.map (·.1)).contains e.1).map (·.2) := by
  intro N
  induction N with
  | nil => intro P _ _ _ _ _; simp [dedupe]
  | cons e N' ih =>
    intro P hN hP hnd hsame hdisj
    have hUe : U e := hN e List.mem_cons_self
    have hnd' := List.pairwise_cons.mp hnd
    simp only [List.map_cons, dedupe, List.foldl_cons]
    by_cases hk : e.1 ∈ A.map (·.1)
    · -- same key as an entry of loop 1: that entry is `e` itself, its name is listed already
      have heA : e ∈ A := hsame e List.mem_cons_self hk
      have hc : ((A ++ P).map (·.2)).contains e.2 = true := by
        rw [List.contains_iff_mem]
        exact List.mem_map.mpr ⟨e, List.mem_append_left _ heA, rfl⟩
      have hf : (A.map (·.1)).contains e.1 = true := List.contains_iff_mem.mpr hk
      simp only [hc, if_true, List.filter_cons, hf, Bool.not_true, Bool.false_eq_true, if_false]
      exact ih P (fun x hx => hN x (List.mem_cons_of_mem _ hx)) hP hnd'.2
        (fun x hx => hsame x (List.mem_cons_of_mem _ hx))
        (fun x hx y hy => hdisj x hx y (List.mem_cons_of_mem _ hy))
    · have hc : ((A ++ P).map (·.2)).contains e.2 = false := by
        rw [Bool.eq_false_iff]
        intro hc
        rw [List.contains_iff_mem] at hc
        obtain ⟨e', he', hv⟩ := List.mem_map.mp hc
        rcases List.mem_append.mp he' with he' | he'
        · have := hU e' e (hA e' he') hUe hv
          exact hk (List.mem_map.mpr ⟨e', he', this⟩)
        · have := hU e' e (hP e' he') hUe hv
          exact hdisj e' he' e List.mem_cons_self this
      have hf : (A.map (·.1)).contains e.1 = false := by
        rw [Bool.eq_false_iff]; intro hc; exact hk (List.contains_iff_mem.mp hc)
      simp only [hc, Bool.false_eq_true, if_false, List.filter_cons, hf, Bool.not_false, if_true]
      have := ih (P ++ [e]) (fun x hx => hN x (List.mem_cons_of_mem _ hx))
        (by intro x hx; rcases List.mem_append.mp hx with hx | hx
            · exact hP x hx
            · simp at hx; subst hx; exact hUe)
        hnd'.2 (fun x hx => hsame x (List.mem_cons_of_mem _ hx))
        (by intro x hx y hy
            rcases List.mem_append.mp hx with hx | hx
            · exact hdisj x hx y (List.mem_cons_of_mem _ hy)
            · simp at hx; subst hx; exact hnd'.1 y hy)
      simp only [dedupe] at this
      simp only [List.map_append, List.map_cons, List.map_nil, List.append_assoc] at this ⊢
      simpa using this

/-- two results of a listing agree: both fail the same way, or both succeed with the same names
    (each once), in possibly different order -/
def SameListing : Except Err (List Bytes) → Except Err (List Bytes) → Prop
  | .ok x, .ok y => x.Perm y
  | .error e, .error e' => e = e'
  | _, _ => False

theorem Tx.bucketNamesAt_ro {tx : Tx} (hr : tx.readOnly = true) (pfx : Bytes) (depth : Nat) :
    tx.bucketNamesAt pfx depth =
      if (tx.db.scan pfx).all (legalEntry depth) then .ok ((tx.db.scan pfx).map (·.2)) else .error .illegalValue := by
  unfold Tx.bucketNamesAt
  rw [Tx.overlayEntries_ro hr, namesLoop1_eq]
  by_cases ha : (tx.db.scan pfx).all (legalEntry depth) = true <;> simp [ha, hr]

/-- `bucketNames_ryw` for the shared body of both BucketNames functions -/
theorem Tx.bucketNamesAt_ryw {tx : Tx} (h : tx.Inv) (pfx : Bytes) (depth : Nat)
    (hkd : KeyDetermined pfx depth) :
    SameListing (tx.bucketNamesAt pfx depth) (tx.roView.bucketNamesAt pfx depth) := by
  by_cases hr : tx.readOnly = true
  · have hdb : tx.roView.db = tx.db := by simp [Tx.roView, Tx.commit, hr]
    rw [Tx.bucketNamesAt_ro hr, Tx.bucketNamesAt_ro (tx := tx.roView) rfl, hdb]
    by_cases ha : (tx.db.scan pfx).all (legalEntry depth) = true
    · simp [ha, SameListing]
    · simp [ha, SameListing]
  · have hw : tx.readOnly = false := by simpa using hr
    have hperm := Tx.scan_parts_perm h hw pfx
    simp only at hperm
    rw [Tx.bucketNamesAt_ro (tx := tx.roView) rfl]
    have hdb : tx.roView.db = tx.commit := rfl
    rw [hdb]
    unfold Tx.bucketNamesAt
    rw [namesLoop1_eq]
    simp only [hw, Bool.false_eq_true, if_false, List.nil_append]
    -- abbreviations
    generalize hA : tx.overlayEntries (tx.db.scan pfx) = A at hperm ⊢
    generalize hN : tx.b.netPuts pfx = N at hperm ⊢
    generalize hE : tx.commit.scan pfx = E at hperm ⊢
    have hAmem : ∀ e ∈ A, e ∈ E := fun e he => hperm.subset (List.mem_append_left _ he)
    -- every net put under the prefix is an entry of the effective store
    have hNE : ∀ e ∈ N, e ∈ E := by
      rintro ⟨k, v⟩ he
      rw [← hN, Batch.mem_netPuts h.batch] at he
      rw [← hE, mem_scan, SMap.Sorted.mem_iff_get (Tx.commit_sorted h), Tx.commit_get h]
      simp [hw, view, he.2, he.1]
    -- a net put with the key of a loop-1 entry is that entry
    have hsame : ∀ e ∈ N, e.1 ∈ A.map (·.1) → e ∈ A := by
      rintro ⟨k, v⟩ he hk
      obtain ⟨e', he', hk'⟩ := List.mem_map.mp hk
      obtain ⟨k', v'⟩ := e'
      simp only at hk'; subst hk'
      rw [← hN, Batch.mem_netPuts h.batch] at he
      rw [← hA, Tx.mem_overlayEntries] at he' ⊢
      obtain ⟨v0, hm, hov⟩ := he'
      exact ⟨v0, hm, (Tx.overlay_w hw _ _ _).mpr (Or.inl he.2)⟩
    have hEall : E.all (legalEntry depth) = true ↔
        (A.all (legalEntry depth) = true ∧ N.all (legalEntry depth) = true) := by
      simp only [List.all_eq_true]
      constructor
      · intro hall
        exact ⟨fun e he => hall e (hAmem e he), fun e he => hall e (hNE e he)⟩
      · rintro ⟨h1, h2⟩ e he
        rcases List.mem_append.mp (hperm.symm.subset he) with he | he
        · exact h1 e he
        · exact h2 e (List.mem_filter.mp he).1
    by_cases hall : E.all (legalEntry depth) = true
    · obtain ⟨h1, h2⟩ := hEall.mp hall
      simp only [h1, if_true]
      rw [namesLoop2_eq]
      simp only [h2, hall, if_true, SameListing]
      -- the universe: legal entries under the prefix
      let U : Bytes × Bytes → Prop := fun e => pfx <+: e.1 ∧ legalEntry depth e = true
      have hUE : ∀ e ∈ E, U e := by
        intro e he
        refine ⟨?_, List.all_eq_true.mp hall e he⟩
        rw [← hE] at he; exact (mem_scan.mp he).2
      have hdd := dedupe_eq_filter U
        (fun e e' he he' hv => hkd e.1 e'.1 e.2 he.1 he'.1 he.2 (by rw [hv]; exact he'.2))
        A (fun e he => hUE e (hAmem e he)) N [] (fun e he => hUE e (hNE e he)) (by simp)
        (by
          have := Batch.netPuts_sorted h.batch pfx
          rw [hN] at this
          exact List.Pairwise.imp (fun {a b} hab => blt_ne hab) this)
        hsame (by simp)
      simp only [List.append_nil] at hdd
      rw [hdd]
      exact List.Perm.map _ hperm
    · have : ¬ (A.all (legalEntry depth) = true ∧ N.all (legalEntry depth) = true) := fun hh => hall (hEall.mpr hh)
      by_cases h1 : A.all (legalEntry depth) = true
      · have h2 : ¬ N.all (legalEntry depth) = true := fun h2 => this ⟨h1, h2⟩
        simp only [h1, if_true]
        rw [namesLoop2_eq]
        simp [h2, hall, SameListing]
      · simp [h1, hall, SameListing]

end MW.Model.KV
