/-
  Frame lemmas for C07: the follower's direct-extension path (filterBlock and everything below it in MW.Model.Ledger)
  never touches the wallet-status bucket.  The ledger model writes its loops in `do` notation; `forIn_inv` is the
  invariant rule for such a loop in the `Except` monad, and the bodies are taken apart by repeated `split`.
-/
import MW.Model.Ledger
namespace MW.Lemmas.LedgerStatus
open MW MW.Model.Ledger

theorem forIn_inv {α β ε : Type} (P : β → Prop) (l : List α) (f : α → β → Except ε (ForInStep β)) (init b' : β)
    (h0 : P init)
    (hf : ∀ a b r, P b → f a b = .ok r → P (match r with | .done x => x | .yield x => x))
    (h : forIn l init f = .ok b') : P b' := by
  induction l generalizing init with
  | nil => simp [forIn] at h; cases h; exact h0
  | cons a l ih =>
    simp only [List.forIn_cons] at h
    cases hfa : f a init with
    | error e => simp [hfa, bind, Except.bind] at h
    | ok r =>
      simp only [hfa, bind, Except.bind] at h
      cases r with
      | done x => simp at h; cases h; exact hf a init _ h0 hfa
      | yield x => exact ih x (hf a init _ h0 hfa) h

theorem foldl_status {α : Type} (f : Store → α → Store) (hf : ∀ s a, (f s a).status = s.status) (l : List α) (s : Store) :
    (l.foldl f s).status = s.status := by
  induction l generalizing s with
  | nil => rfl
  | cons a l ih => simp only [List.foldl_cons]; rw [ih, hf]

theorem updateMinedBalance_status (s s' : Store) (bals bals' : AMap.T Wid Nat) (tr : TxRec) (blk : BlockMeta)
    (h : updateMinedBalance s bals tr blk = .ok (s', bals')) : s'.status = s.status := by
  unfold updateMinedBalance at h
  simp only [bind, Except.bind, pure, Except.pure] at h
  split at h
  · simp at h
  · rename_i r hr
    simp at h
    obtain ⟨rfl, rfl⟩ := h
    refine forIn_inv (fun (r : Store × AMap.T Wid Nat) => r.1.status = s.status) _ _ _ _ rfl ?_ hr
    intro a b r hb hfa
    simp only [throw, throwThe, MonadExceptOf.throw] at hfa
    iterate 14 (all_goals (try (first | (simp at hfa; done) | split at hfa)))
    all_goals (try simp at hfa)
    all_goals (try (subst hfa; simpa using hb))

theorem addCredits_status (p : Params) (s s' : Store) (bals bals' : AMap.T Wid Nat) (tr : TxRec) (blk : BlockMeta)
    (h : addCredits p s bals tr blk = .ok (s', bals')) : s'.status = s.status := by
  unfold addCredits at h
  simp only [bind, Except.bind, pure, Except.pure] at h
  split at h
  · simp at h; rw [h.1]
  · split at h
    · simp at h
    · rename_i r1 hr1
      split at h
      · simp at h
      · rename_i r2 hr2
        simp at h
        obtain ⟨rfl, rfl⟩ := h
        have h1 : r1.1.status = s.status := by
          refine forIn_inv (fun (r : Store × AMap.T Wid Nat) => r.1.status = s.status) _ _ _ _ rfl ?_ hr1
          intro a b r hb hfa
          simp only [throw, throwThe, MonadExceptOf.throw] at hfa
          iterate 8 (all_goals (try (first | (simp at hfa; done) | split at hfa)))
          all_goals (try simp at hfa)
          all_goals (try (subst hfa; simpa using hb))
        refine forIn_inv (fun (r : Store) => r.status = s.status) _ _ _ _ h1 ?_ hr2
        intro a b r hb hfa
        simp at hfa
        subst hfa
        simpa using hb

theorem deleteUnminedInputs_status (s : Store) (tx : Tx) : (deleteUnminedInputs s tx).status = s.status := by
  unfold deleteUnminedInputs
  apply foldl_status
  intro s a
  split <;> rfl

theorem deleteUnminedCredits_status (s : Store) (tx : Tx) : (deleteUnminedCredits s tx).status = s.status := by
  unfold deleteUnminedCredits
  apply foldl_status
  intro s a; rfl

theorem removeUnminedGameHistory_status (own : Own) (s : Store) (tx : Tx) :
    (removeUnminedGameHistory own s tx).status = s.status := by
  unfold removeUnminedGameHistory
  apply foldl_status
  intro s a
  split
  · split <;> rfl
  · rfl

theorem removeConflict_status (own : Own) (fuel : Nat) (s : Store) (tx : Tx) :
    (removeConflict own fuel s tx).status = s.status := by
  induction fuel generalizing s tx with
  | zero => rfl
  | succ n ih =>
    unfold removeConflict
    simp only
    rw [removeUnminedGameHistory_status, deleteUnminedInputs_status]
    apply foldl_status
    intro s i
    simp only
    rw [foldl_status]
    intro s sp
    split
    · exact ih _ _
    · rfl

theorem removeDoubleSpends_status (own : Own) (s : Store) (tr : TxRec) :
    (removeDoubleSpends own s tr).status = s.status := by
  unfold removeDoubleSpends
  simp only
  rw [deleteUnminedInputs_status]
  apply foldl_status
  intro s rel
  split
  · apply foldl_status
    intro s ds
    split
    · exact removeConflict_status _ _ _ _
    · rfl
  · rfl

theorem insertMinedTx_status (own : Own) (s s' : Store) (bals bals' : AMap.T Wid Nat) (tr : TxRec) (blk : BlockMeta)
    (ex : Bool) (h : insertMinedTx own s bals tr blk = .ok (s', bals', ex)) : s'.status = s.status := by
  unfold insertMinedTx at h
  simp only [bind, Except.bind, pure, Except.pure] at h
  split at h
  · simp at h; rw [h.1]
  · split at h
    · simp at h
    · rename_i r hr
      obtain ⟨s1, b1⟩ := r
      have hu := updateMinedBalance_status _ _ _ _ _ _ hr
      simp at h
      obtain ⟨rfl, rfl, rfl⟩ := h
      rw [removeDoubleSpends_status]
      split
      · simp only [deleteUnminedCredits_status]
        rw [hu]; split <;> rfl
      · rw [hu]; split <;> rfl

theorem addRelevantMined_status (p : Params) (own : Own) (s s' : Store) (bals bals' : AMap.T Wid Nat) (tr : TxRec)
    (blk : BlockMeta) (h : addRelevantMined p own s bals tr blk = .ok (s', bals')) : s'.status = s.status := by
  unfold addRelevantMined at h
  simp only [bind, Except.bind] at h
  split at h
  · simp at h
  · rename_i r hr
    obtain ⟨s1, b1, ex⟩ := r
    simp only at h
    rw [addCredits_status p s1 s' b1 bals' tr blk h, insertMinedTx_status own s s1 bals b1 tr blk ex hr]

theorem putSyncedTo_status (s s' : Store) (blk : BlockMeta) (h : putSyncedTo s blk = .ok s') : s'.status = s.status := by
  unfold putSyncedTo at h
  simp only [bind, Except.bind, pure, Except.pure, throw, throwThe, MonadExceptOf.throw] at h
  iterate 4 (all_goals (try (first | (simp at h; done) | split at h)))
  all_goals (try simp at h)
  all_goals (try (subst h; rfl))


/-- **filterBlock never touches the wallet-status bucket** (filterBlock + onRelevantBlockConnected + SetSyncedTo) -/
theorem filterBlock_status (c : Ctx) (s s' : Store) (ready : List Wid) (b : Block) (conf : List TxId)
    (h : filterBlock c s ready b = .ok (s', conf)) : s'.status = s.status := by
  unfold filterBlock at h
  simp only [bind, Except.bind, pure, Except.pure, throw, throwThe, MonadExceptOf.throw] at h
  split at h
  · split at h
    · cases h
    · split at h
      · -- some wallet is ready: the transactions are filtered
        split at h
        · cases h
        · rename_i v hv
          split at h
          · split at h
            · cases h
            · rename_i v1 hv1
              have h1 : v1.1.status = s.status := by
                refine forIn_inv (fun (r : Store × AMap.T Wid Nat) => r.1.status = s.status) _ _ _ _ rfl ?_ hv1
                intro a st r hb hfa
                split at hfa
                · cases hfa
                · rename_i v' hv'
                  cases hfa
                  simp only
                  rw [addRelevantMined_status c.p c.own st.1 v'.1 st.2 v'.2 a ⟨b.height, b.id⟩ (by rw [hv'])]
                  exact hb
              split at h
              · cases h
              · rename_i v2 hv2
                cases h
                rw [putSyncedTo_status _ _ _ hv2]
                exact h1
          · split at h
            · cases h
            · rename_i v1 hv1
              cases h
              exact putSyncedTo_status _ _ _ hv1
      · -- no ready wallet
        simp only [List.isEmpty_nil, Bool.not_true, Bool.false_eq_true, if_false] at h
        split at h
        · cases h
        · rename_i v1 hv1
          cases h
          exact putSyncedTo_status _ _ _ hv1
  · cases h

/-- **a tip notification that extends the follower's chain changes nobody's status**: an importing wallet stays
    importing (with its cursor), a ready wallet stays ready, a flagged wallet stays flagged. -/
theorem processBlock_extend_status (c : Ctx) (s : Store) (v : Vol) (b : Block) (hext : b.prev = v.best.hash) :
    (processBlock c s v b).1.status = s.status := by
  unfold processBlock
  simp only [hext, if_true]
  simp only [bind, Except.bind, pure, Except.pure]
  split
  · rfl
  · rename_i r hr
    split at hr
    · cases hr
    · rename_i fb hfb
      cases hr
      simp only
      exact filterBlock_status c s fb.1 _ b fb.2 (by rw [hfb])

end MW.Lemmas.LedgerStatus
