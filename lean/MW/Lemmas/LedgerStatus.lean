/-
  Frame lemmas for C07: the follower's direct-extension path (filterBlock and everything below it in MW.Model.Ledger)
  never touches the wallet-status bucket — for ANY store (no invariant needed; the ledger library proves the same
  under `Inv` as part of `connect_sound`).  The pending-side functions are covered by `MinedEq` (MW.Lemmas.LedgerFrame);
  the mined side (spendOne / creditOne / recordMinedTx / putSyncedTo) is done here by a `foldlM` invariant rule.
-/
import MW.Model.Ledger
import MW.Lemmas.LedgerFrame
namespace MW.Lemmas.LedgerStatus
open MW MW.Model.Ledger MW.Lemmas.Ledger

/-- invariant rule for a `foldlM` loop in the error monad -/
theorem foldlM_inv {α β : Type} (P : β → Prop) (f : β → α → M β) (hf : ∀ b a b', P b → f b a = .ok b' → P b')
    (l : List α) (b b' : β) (h0 : P b) (h : l.foldlM f b = .ok b') : P b' := by
  induction l generalizing b with
  | nil => simp only [List.foldlM_nil] at h; cases h; exact h0
  | cons a l ih =>
    simp only [List.foldlM_cons] at h
    cases hfa : f b a with
    | error e => rw [hfa] at h; cases h
    | ok b1 => rw [hfa] at h; exact ih b1 (hf b a b1 h0 hfa) h

theorem foldl_status {α : Type} (f : Store → α → Store) (hf : ∀ s a, (f s a).status = s.status) (l : List α) (s : Store) :
    (l.foldl f s).status = s.status := by
  induction l generalizing s with
  | nil => rfl
  | cons a l ih => simp only [List.foldl_cons]; rw [ih, hf]

theorem spendOne_status (tr : TxRec) (blk : BlockMeta) (sb sb' : Store × Bals) (rel : Rel)
    (h : spendOne tr blk sb rel = .ok sb') : sb'.1.status = sb.1.status := by
  unfold spendOne at h
  simp only [throw, throwThe, MonadExceptOf.throw, pure, Except.pure] at h
  repeat' split at h
  all_goals first | (cases h; done) | (cases h; rfl)

theorem updateMinedBalance_status (s s' : Store) (bals bals' : AMap.T Wid Nat) (tr : TxRec) (blk : BlockMeta)
    (h : updateMinedBalance s bals tr blk = .ok (s', bals')) : s'.status = s.status := by
  unfold updateMinedBalance at h
  exact foldlM_inv (fun (sb : Store × Bals) => sb.1.status = s.status) _
    (fun b a b' hb hs => (spendOne_status tr blk b b' a hs).trans hb) _ _ _ rfl h

theorem creditOne_status (p : Params) (tr : TxRec) (blk : BlockMeta) (sb sb' : Store × Bals) (rel : Rel)
    (h : creditOne p tr blk sb rel = .ok sb') : sb'.1.status = sb.1.status := by
  unfold creditOne at h
  simp only [throw, throwThe, MonadExceptOf.throw, pure, Except.pure] at h
  split at h
  · cases h
  · cases h; rfl

theorem addCredits_status (p : Params) (s s' : Store) (bals bals' : AMap.T Wid Nat) (tr : TxRec) (blk : BlockMeta)
    (h : addCredits p s bals tr blk = .ok (s', bals')) : s'.status = s.status := by
  unfold addCredits at h
  split at h
  · cases h; rfl
  · simp only [bind, Except.bind, pure, Except.pure] at h
    split at h
    · cases h
    · rename_i r hr
      cases h
      rw [foldl_status (gameOne tr blk) (fun _ _ => rfl)]
      exact foldlM_inv (fun (sb : Store × Bals) => sb.1.status = s.status) _
        (fun b a b' hb hs => (creditOne_status p tr blk b b' a hs).trans hb) _ _ _ rfl hr

theorem deleteUnminedInputs_status (s : Store) (tx : Tx) : (deleteUnminedInputs s tx).status = s.status :=
  (minedEq_deleteUnminedInputs s tx).status

theorem deleteUnminedCredits_status (s : Store) (tx : Tx) : (deleteUnminedCredits s tx).status = s.status :=
  (minedEq_deleteUnminedCredits s tx).status

theorem removeUnminedGameHistory_status (own : Own) (s : Store) (tx : Tx) :
    (removeUnminedGameHistory own s tx).status = s.status :=
  (minedEq_removeUnminedGameHistory own s tx).status

theorem removeConflict_status (own : Own) (fuel : Nat) (s : Store) (tx : Tx) :
    (removeConflict own fuel s tx).status = s.status :=
  (minedEq_removeConflict own fuel s tx).status

theorem removeDoubleSpends_status (own : Own) (s : Store) (tr : TxRec) :
    (removeDoubleSpends own s tr).status = s.status :=
  (minedEq_removeDoubleSpends own s tr).status

theorem insertMinedTx_status (own : Own) (s s' : Store) (bals bals' : AMap.T Wid Nat) (tr : TxRec) (blk : BlockMeta)
    (ex : Bool) (h : insertMinedTx own s bals tr blk = .ok (s', bals', ex)) : s'.status = s.status := by
  unfold insertMinedTx at h
  split at h
  · cases h; rfl
  · simp only [bind, Except.bind, pure, Except.pure] at h
    split at h
    · cases h
    · rename_i r hr
      obtain ⟨s1, b1⟩ := r
      cases h
      rw [removeDoubleSpends_status, (minedEq_unpendMined s1 tr.tx).status,
        updateMinedBalance_status _ _ _ _ _ _ hr]
      rfl

theorem addRelevantMined_status (p : Params) (own : Own) (s s' : Store) (bals bals' : AMap.T Wid Nat) (tr : TxRec)
    (blk : BlockMeta) (h : addRelevantMined p own s bals tr blk = .ok (s', bals')) : s'.status = s.status := by
  unfold addRelevantMined at h
  simp only [bind, Except.bind] at h
  split at h
  · cases h
  · rename_i r hr
    obtain ⟨s1, b1, ex⟩ := r
    simp only at h
    rw [addCredits_status p s1 s' b1 bals' tr blk h, insertMinedTx_status own s s1 bals b1 tr blk ex hr]

theorem putSyncedTo_status (s s' : Store) (blk : BlockMeta) (h : putSyncedTo s blk = .ok s') : s'.status = s.status := by
  unfold putSyncedTo at h
  simp only [throw, throwThe, MonadExceptOf.throw, pure, Except.pure] at h
  repeat' split at h
  all_goals first | (cases h; done) | (cases h; rfl)

theorem applyRelevant_status (c : Ctx) (s s' : Store) (ready : List Wid) (bm : BlockMeta) (rel : List TxRec)
    (h : applyRelevant c s ready bm rel = .ok s') : s'.status = s.status := by
  unfold applyRelevant at h
  split at h
  · cases h; rfl
  · simp only [bind, Except.bind, pure, Except.pure] at h
    split at h
    · cases h
    · rename_i r hr
      cases h
      exact foldlM_inv (fun (sb : Store × Bals) => sb.1.status = s.status) _
        (fun b a b' hb hs => (addRelevantMined_status c.p c.own b.1 b'.1 b.2 b'.2 a bm hs).trans hb) _ _ _ rfl hr

/-- **filterBlock never touches the wallet-status bucket** (filterBlock + onRelevantBlockConnected + the conflict
    purge through irrelevant transactions + SetSyncedTo) -/
theorem filterBlock_status (c : Ctx) (s s' : Store) (ready : List Wid) (b : Block) (conf : List TxId)
    (h : filterBlock c s ready b = .ok (s', conf)) : s'.status = s.status := by
  unfold filterBlock at h
  simp only [throw, throwThe, MonadExceptOf.throw] at h
  -- the tail shared by both branches: applyRelevant, purge, putSyncedTo
  have tail : ∀ (rel : List TxRec) (txs : List Tx),
      (applyRelevant c s ready ⟨b.height, b.id⟩ rel >>= fun s1 =>
        putSyncedTo (purgeUnrelated c.own s1 txs) ⟨b.height, b.id⟩ >>= fun s2 =>
          (pure (s2, rel.map (·.tx.id)) : M (Store × List TxId))) = .ok (s', conf) → s'.status = s.status := by
    intro rel txs ht
    simp only [bind, Except.bind, pure, Except.pure] at ht
    split at ht
    · cases ht
    · rename_i s1 hs1
      split at ht
      · cases ht
      · rename_i s2 hs2
        cases ht
        rw [putSyncedTo_status _ _ _ hs2, (minedEq_purgeUnrelated c.own s1 _).status]
        exact applyRelevant_status c s s1 ready _ rel hs1
  split at h
  · cases h
  · split at h
    · cases h
    · by_cases hre : ready.isEmpty = true
      · simp only [hre, if_true] at h
        exact tail [] [] h
      · simp only [hre, Bool.false_eq_true, if_false] at h
        cases hf : filterTxs c s ready b.id b.txs [] 0 [] with
        | error e => rw [hf] at h; cases h
        | ok rel => rw [hf] at h; exact tail rel _ h

/-- **a tip notification that extends the follower's chain changes nobody's status**: an importing wallet stays
    importing (with its cursor), a ready wallet stays ready, a flagged wallet stays flagged. -/
theorem processBlock_extend_status (c : Ctx) (s : Store) (v : Vol) (b : Block) (hext : b.prev = v.best.hash) :
    (processBlock c s v b).1.status = s.status := by
  unfold processBlock
  simp only [hext, if_true]
  simp only [bind, Except.bind, pure, Except.pure]
  split
  · rfl
  · rename_i r hr
    split at hr
    · cases hr
    · rename_i fb hfb
      cases hr
      simp only
      exact filterBlock_status c s fb.1 _ b fb.2 (by rw [hfb])

end MW.Lemmas.LedgerStatus
