/-
  deleteBucket: the recursion over sub buckets removes exactly the index entries and data entries
  of the bucket and of everything below it, and its nesting budget (`deleteFuel`) always suffices.
-/
import MW.Lemmas.KvRefine
namespace MW.Model.KV
open MW MW.KV
open MW.Spec.KV (DB)

variable {s : Store} {d : DB}

/-- nothing is stored under a bucket path that does not exist -/
theorem Rel.no_orphans (h : Rel s d) {q : Path} (hq : q ≠ []) (hnot : q ∉ d.buckets) :
    ∀ k0, UnderKey q k0 → s.get k0 = none := by
  intro k0 ⟨r, hqr, hnr, hk⟩
  cases hg : s.get k0 with
  | none => rfl
  | some v =>
    exfalso
    obtain ⟨t, rfl⟩ := hqr
    have hr : q ++ t ∈ d.buckets := by
      rcases (h.mem _ _).mp hg with ⟨q', hq', hkq, _⟩ | ⟨e, he, hke, _⟩
      · rcases hk with hk | ⟨k, hk⟩
        · rw [hk] at hkq
          rw [idxKey_injective hnr (h.noSep hq') hkq]; exact hq'
        · rw [hk] at hkq; exact absurd hkq (dataKey_ne_indexKey _ _ _)
      · rcases hk with hk | ⟨k, hk⟩
        · rw [hk] at hke; exact absurd hke.symm (dataKey_ne_indexKey _ _ _)
        · rw [hk] at hke
          rw [(dataKey_injective hnr (h.noSep (h.dIn e he).1) hke).1]; exact (h.dIn e he).1
    exact hnot (h.closed_append q hq t hr)

/-- `k0` belongs to the subtree of one of the children `p ++ [n]`, `n ∈ ns` -/
def UnderAny (p : Path) (ns : List Bytes) (k0 : Bytes) : Prop := ∃ n ∈ ns, UnderKey (p ++ [n]) k0

theorem underKey_child {p : Path} {n : Bytes} {k0 : Bytes} (h : UnderKey (p ++ [n]) k0) : UnderKey p k0 := by
  obtain ⟨r, hpr, hnr, hk⟩ := h
  exact ⟨r, (List.prefix_append p [n]).trans hpr, hnr, hk⟩

/-- what a correct recursive call does, for buckets at nesting level ≥ `lvl` in stores whose
    buckets are nested at most `L` deep -/
def AuxOK (db : Store) (recur : Bucket → Batch → Except Err Batch) (L lvl : Nat) : Prop :=
  ∀ (sub : Bucket) (q : Path) (bt : Batch) (d : DB), bt.Inv → Rel (eff db bt) d → sub.IsAt q → q ∈ d.buckets →
    q.length ≥ lvl → (∀ r ∈ d.buckets, r.length ≤ L) →
    ∃ bt', recur sub bt = .ok bt' ∧ bt'.Inv ∧
      (∀ k0, UnderKey q k0 → (eff db bt').get k0 = none) ∧
      (∀ k0, ¬ UnderKey q k0 → (eff db bt').get k0 = (eff db bt).get k0)

theorem bucket_w_eq {db : Store} (hdb : SMap.Sorted db) {bt : Batch} (hbt : bt.Inv) (b : Bucket) (n : Bytes) :
    b.bucket { readOnly := false, db := db, b := bt } n = b.bucket (ro (eff db bt)) n := by
  rw [Bucket.bucket_ryw (tx := { readOnly := false, db := db, b := bt }) ⟨hdb, hbt⟩]
  rfl

/-- the loop over the sub bucket names -/
theorem deleteSubs_ok {db : Store} (hdb : SMap.Sorted db) {recur : Bucket → Batch → Except Err Batch} {L : Nat}
    {b : Bucket} {p : Path} (hb : b.IsAt p) (hrec : AuxOK db recur L (p.length + 1)) :
    ∀ (ns : List Bytes) (bt : Batch) (d : DB), bt.Inv → Rel (eff db bt) d → p ∈ d.buckets →
      (∀ r ∈ d.buckets, r.length ≤ L) →
      ∃ bt', deleteSubs db recur b ns bt = .ok bt' ∧ bt'.Inv ∧
        (∀ k0, UnderAny p ns k0 → (eff db bt').get k0 = none) ∧
        (∀ k0, ¬ UnderAny p ns k0 → (eff db bt').get k0 = (eff db bt).get k0) := by
  intro ns
  induction ns with
  | nil =>
    intro bt d hbt _ _ _
    refine ⟨bt, rfl, hbt, ?_, fun _ _ => rfl⟩
    intro k0 ⟨n, hn, _⟩; cases hn
  | cons n rest ih =>
    intro bt d hbt hrel hp hL
    simp only [deleteSubs]
    rw [bucket_w_eq hdb hbt]
    rcases hrel.bucket hb n with ⟨sub, hs, hsa, hsm⟩ | ⟨hs, hsm⟩
    · -- the sub bucket exists: recursive call, then the rest on the smaller store
      rw [hs]
      simp only
      obtain ⟨bt1, hr1, hinv1, hgone1, hkeep1⟩ := hrec sub (p ++ [n]) bt d hbt hrel hsa hsm (by simp) hL
      rw [hr1]
      simp only
      have hlen2 : (p ++ [n]).length ≥ 2 := by
        have : p.length ≥ 1 := List.length_pos_iff.mpr hb.ne
        simp; omega
      have hrel1 := hrel.delb hsm hlen2 (eff_sorted hdb bt1) hgone1 hkeep1
      have hp1 : p ∈ (d.buckets.filter fun q => !(p ++ [n]).isPrefixOf q) := by
        refine List.mem_filter.mpr ⟨hp, ?_⟩
        simp only [Bool.not_eq_true', Bool.eq_false_iff, ne_eq, List.isPrefixOf_iff_prefix]
        intro hpre
        have := hpre.length_le
        simp at this
        omega
      obtain ⟨bt', hr', hinv', hgone', hkeep'⟩ := ih bt1 _ hinv1 hrel1 hp1
        (fun r hr => hL r (List.mem_filter.mp hr).1)
      refine ⟨bt', hr', hinv', ?_, ?_⟩
      · rintro k0 ⟨m, hm, hu⟩
        rcases List.mem_cons.mp hm with hm | hm
        · subst hm
          by_cases hrest : UnderAny p rest k0
          · exact hgone' k0 hrest
          · rw [hkeep' k0 hrest]; exact hgone1 k0 hu
        · exact hgone' k0 ⟨m, hm, hu⟩
      · intro k0 hnot
        have h1 : ¬ UnderKey (p ++ [n]) k0 := fun hu => hnot ⟨n, List.mem_cons_self, hu⟩
        have h2 : ¬ UnderAny p rest k0 := fun ⟨m, hm, hu⟩ => hnot ⟨m, List.mem_cons_of_mem _ hm, hu⟩
        rw [hkeep' k0 h2, hkeep1 k0 h1]
    · -- no such sub bucket (any more): skipped, and nothing is stored under that path
      rw [hs]
      simp only
      obtain ⟨bt', hr', hinv', hgone', hkeep'⟩ := ih bt d hbt hrel hp hL
      refine ⟨bt', hr', hinv', ?_, ?_⟩
      · rintro k0 ⟨m, hm, hu⟩
        rcases List.mem_cons.mp hm with hm | hm
        · subst hm
          by_cases hrest : UnderAny p rest k0
          · exact hgone' k0 hrest
          · rw [hkeep' k0 hrest]; exact hrel.no_orphans (by simp) hsm k0 hu
        · exact hgone' k0 ⟨m, hm, hu⟩
      · intro k0 hnot
        exact hkeep' k0 (fun ⟨m, hm, hu⟩ => hnot ⟨m, List.mem_cons_of_mem _ hm, hu⟩)

theorem bucketNames_w_perm {db : Store} (hdb : SMap.Sorted db) {bt : Batch} (hbt : bt.Inv) {d : DB}
    (hrel : Rel (eff db bt) d) {b : Bucket} {p : Path} (hb : b.IsAt p) :
    ∃ ns, b.bucketNames { readOnly := false, db := db, b := bt } = .ok ns ∧ ns.Perm (d.childNames p) := by
  have hsl := Bucket.bucketNames_ryw (tx := { readOnly := false, db := db, b := bt }) ⟨hdb, hbt⟩ hb
  have hro : b.bucketNames (Tx.roView { readOnly := false, db := db, b := bt }) = .ok (d.childNames p) :=
    hrel.bucket_bucketNames hb
  rw [hro] at hsl
  cases hx : b.bucketNames { readOnly := false, db := db, b := bt } with
  | error e => rw [hx] at hsl; simp [SameListing] at hsl
  | ok ns => rw [hx] at hsl; exact ⟨ns, rfl, hsl⟩

theorem dataKey_of_prefix {p : Path} {k0 : Bytes} (h : dataKey p [] <+: k0) : ∃ k, k0 = dataKey p k := by
  obtain ⟨t, rfl⟩ := h
  exact ⟨t, by simp [dataKey]⟩

/-- deleteBucket with enough budget: bucket `q`, all buckets below it and all their entries go,
    nothing else changes -/
theorem deleteBucketAux_ok {db : Store} (hdb : SMap.Sorted db) (L : Nat) :
    ∀ (fuel lvl : Nat), lvl ≥ 2 → fuel + lvl ≥ L + 1 → AuxOK db (deleteBucketAux db fuel) L lvl := by
  intro fuel
  induction fuel with
  | zero =>
    intro lvl _ hf sub q bt d _ _ _ hq hlvl hL
    have := hL q hq
    omega
  | succ fuel ih =>
    intro lvl hlvl2 hf sub q bt d hbt hrel hsa hq hlvl hL
    simp only [deleteBucketAux]
    have hdepth : (sub.depth == 1) = false := by
      rw [hsa.depth]; simp; omega
    simp only [hdepth, Bool.false_eq_true, if_false]
    obtain ⟨ns, hns, hperm⟩ := bucketNames_w_perm hdb hbt hrel hsa
    rw [hns]
    simp only
    have hrec : AuxOK db (deleteBucketAux db fuel) L (q.length + 1) := ih (q.length + 1) (by omega) (by omega)
    obtain ⟨bt1, hr1, hinv1, hgone1, hkeep1⟩ := deleteSubs_ok hdb hsa hrec ns bt d hbt hrel hq hL
    rw [hr1]
    simp only
    have hinv2 := clearRange_inv db hinv1 (join [sub.path, []])
    refine ⟨_, rfl, hinv2.delete _, ?_, ?_⟩
    · -- everything at or below q is gone
      intro k0 hu
      rw [eff_delete]
      by_cases hk : k0 = indexKey sub.path
      · simp [hk]
      · simp only [hk, if_false]
        rw [clearRange_get hdb hinv1]
        have hj : join [sub.path, []] = dataKey q [] := by rw [hsa.path]; rfl
        rw [hj]
        by_cases hpre : dataKey q [] <+: k0
        · simp [hpre]
        · simp only [hpre, if_false]
          by_cases hany : UnderAny q ns k0
          · exact hgone1 k0 hany
          · rw [hkeep1 k0 hany]
            -- then k0 is not in the store at all
            cases hg : (eff db bt).get k0 with
            | none => rfl
            | some v =>
              exfalso
              obtain ⟨r, hqr, hnr, hkr⟩ := hu
              obtain ⟨t, rfl⟩ := hqr
              have hr : q ++ t ∈ d.buckets := by
                rcases (hrel.mem _ _).mp hg with ⟨q', hq', hkq, _⟩ | ⟨e, he, hke, _⟩
                · rcases hkr with hkr | ⟨k, hkr⟩
                  · rw [hkr] at hkq
                    rw [idxKey_injective hnr (hrel.noSep hq') hkq]; exact hq'
                  · rw [hkr] at hkq; exact absurd hkq (dataKey_ne_indexKey _ _ _)
                · rcases hkr with hkr | ⟨k, hkr⟩
                  · rw [hkr] at hke; exact absurd hke.symm (dataKey_ne_indexKey _ _ _)
                  · rw [hkr] at hke
                    rw [(dataKey_injective hnr (hrel.noSep (hrel.dIn e he).1) hke).1]; exact (hrel.dIn e he).1
              cases t with
              | nil =>
                -- r = q itself: k0 is q's index key or one of its data keys
                simp only [List.append_nil] at hkr
                rcases hkr with hkr | ⟨k, hkr⟩
                · apply hk; rw [hkr, hsa.path]; rfl
                · apply hpre; rw [hkr]; exact ⟨k, by simp [dataKey]⟩
              | cons n t' =>
                have hchild : q ++ [n] ∈ d.buckets := by
                  have : (q ++ [n]) ++ t' ∈ d.buckets := by simpa using hr
                  exact hrel.closed_append (q ++ [n]) (by simp) t' this
                have hn : n ∈ ns := hperm.mem_iff.mpr ((DB.mem_childNames d q n).mpr hchild)
                exact hany ⟨n, hn, q ++ n :: t', ⟨t', by simp⟩, hnr, hkr⟩
    · -- nothing else changes
      intro k0 hnu
      rw [eff_delete]
      have hk : k0 ≠ indexKey sub.path := by
        intro hk
        apply hnu
        exact ⟨q, List.prefix_refl q, hsa.noSep, Or.inl (by rw [hk, hsa.path]; rfl)⟩
      simp only [hk, if_false]
      rw [clearRange_get hdb hinv1]
      have hj : join [sub.path, []] = dataKey q [] := by rw [hsa.path]; rfl
      rw [hj]
      have hpre : ¬ dataKey q [] <+: k0 := by
        intro hpre
        obtain ⟨k, hk'⟩ := dataKey_of_prefix hpre
        exact hnu ⟨q, List.prefix_refl q, hsa.noSep, Or.inr ⟨k, hk'⟩⟩
      simp only [hpre, if_false]
      apply hkeep1
      rintro ⟨n, _, hu⟩
      exact hnu (underKey_child hu)

theorem foldl_max_ge {α : Type} (f : α → Nat) (l : List α) (init : Nat) :
    init ≤ l.foldl (fun m e => max m (f e)) init ∧ ∀ e ∈ l, f e ≤ l.foldl (fun m e => max m (f e)) init := by
  induction l generalizing init with
  | nil => exact ⟨Nat.le_refl _, by intro e he; cases he⟩
  | cons a r ih =>
    simp only [List.foldl_cons]
    have h1 := ih (max init (f a))
    refine ⟨Nat.le_trans (Nat.le_max_left _ _) h1.1, ?_⟩
    intro e he
    rcases List.mem_cons.mp he with he | he
    · subst he; exact Nat.le_trans (Nat.le_max_right _ _) h1.1
    · exact h1.2 e he

theorem length_le_joinSep (sp : UInt8) (arr : List Bytes) : arr.length ≤ (joinSep sp arr).length + 1 := by
  induction arr with
  | nil => simp
  | cons a r ih =>
    cases r with
    | nil => simp [joinSep]
    | cons b r' =>
      rw [joinSep_cons_cons]
      simp only [List.length_cons, List.length_append] at ih ⊢
      omega

theorem path_length_lt_idxKey (q : Path) : q.length < (idxKey q).length := by
  unfold idxKey indexKey pathBytes join
  rw [joinSep_cons_cons]
  have := length_le_joinSep sep (itoa q.length :: q)
  simp only [joinSep, List.length_cons, List.length_append] at this ⊢
  omega

/-- the nesting budget computed by DeleteBucket bounds the depth of every existing bucket -/
theorem deleteFuel_bound {db : Store} {bt : Batch} (hbt : bt.Inv) {d : DB} (hrel : Rel (eff db bt) d) :
    ∀ r ∈ d.buckets, r.length ≤ deleteFuel db bt - 2 := by
  intro r hr
  have hg := (hrel.mem (idxKey r) (lastName r)).mpr (Or.inl ⟨r, hr, rfl, rfl⟩)
  rw [eff_get hbt] at hg
  unfold deleteFuel
  have hlt := path_length_lt_idxKey r
  have h1 := foldl_max_ge (fun e : Bytes × Bytes => e.1.length) db 0
  have h2 := foldl_max_ge (fun e : Bytes × (Bytes × Nat) => e.1.length) bt.puts 0
  -- the index key is a key of the store or of the batch's puts
  unfold view at hg
  rcases Batch.get_cases bt (idxKey r) with hb | ⟨v, hb⟩ | hb
  · simp [hb] at hg
  · obtain ⟨sq, hp, _⟩ := (Batch.get_eq_some_iff hbt (idxKey r) v).mp hb
    have := h2.2 _ (SMap.mem_of_get hp)
    simp only at this
    omega
  · simp only [hb] at hg
    have := h1.2 _ (SMap.mem_of_get hg)
    simp only at this
    omega

/-- the postcondition of deleteBucket, as needed by the refinement proof -/
theorem deleteSpec : DeleteSpec := by
  intro tx d sub p htx hw hrel hsa hp hlen
  have hrel' : Rel (eff tx.db tx.b) d := by rw [← commit_w hw]; exact hrel
  have hL := deleteFuel_bound htx.batch hrel'
  have hfuel : deleteFuel tx.db tx.b ≥ 2 := by unfold deleteFuel; omega
  have hok := deleteBucketAux_ok htx.dbSorted (deleteFuel tx.db tx.b - 2) (deleteFuel tx.db tx.b) 2
    (Nat.le_refl _) (by omega)
  obtain ⟨bt', hr, hinv, hgone, hkeep⟩ := hok sub p tx.b d htx.batch hrel' hsa hp hlen hL
  refine ⟨bt', hr, hinv, hgone, ?_⟩
  intro k0 hn
  rw [hkeep k0 hn, commit_w hw]

end MW.Model.KV
