/-
  Helper lemmas for C09, part 9: Rollback moves a non-coinbase transaction back into the pending set
  (rollbackTx): the pending record is the transaction itself, every input gets a spender entry, every
  credit becomes a pending credit.
-/
import MW.Lemmas.LedgerPendingInv
namespace MW.Lemmas.LedgerPending
open MW MW.Model.Ledger

/-- folds with an index: facts established at an element's turn and kept by every later step -/
theorem foldIdxM_ok_forall {α β : Type} (Q : α → β → Prop) (f : β → Nat → α → M β)
    (hest : ∀ a i x b', f a i x = .ok b' → Q x b')
    (hkeep : ∀ a i x b' y, f a i x = .ok b' → Q y a → Q y b') :
    ∀ (l : List α) (n : Nat) (b r : β), foldIdxM f l n b = .ok r → ∀ x ∈ l, Q x r := by
  intro l
  induction l with
  | nil => intro _ _ _ _ x hx; cases hx
  | cons y l ih =>
    intro n b r h x hx
    simp only [foldIdxM, bind, Except.bind] at h
    cases hf : f b n y with
    | error e => rw [hf] at h; cases h
    | ok b' =>
      rw [hf] at h
      rcases List.mem_cons.mp hx with rfl | hx
      · have h0 : Q x b' := hest b n x b' hf
        -- kept by the rest of the loop
        have hrest : ∀ (l : List α) (n : Nat) (b r : β), foldIdxM f l n b = .ok r → Q x b → Q x r := by
          intro l
          induction l with
          | nil => intro n b r h hq; simp [foldIdxM, pure, Except.pure] at h; rw [← h]; exact hq
          | cons z l ih2 =>
            intro n b r h hq
            simp only [foldIdxM, bind, Except.bind] at h
            cases hf2 : f b n z with
            | error e => rw [hf2] at h; cases h
            | ok b2 => rw [hf2] at h; exact ih2 (n + 1) b2 r h (hkeep b n z b2 x hf2 hq)
        exact hrest l (n + 1) b' r h h0
      · exact ih (n + 1) b' r h x hx

-- ------------------------------------------------------------------ the loop bodies of Rollback

/-- the buckets the output loop of Rollback reads or writes on the pending side, plus the credit table -/
def rbKeep (s : Store) := (s.pending, s.pendIns, s.pendCred, s.pendGame, s.credits)

theorem rollbackAddr_keep (s : Store) (w : Wid) (o : Out) (h : Nat) : rbKeep (rollbackAddr s w o h) = rbKeep s := by
  unfold rollbackAddr
  simp only []
  split
  · split <;> rfl
  · rfl

theorem rollbackOwnedOut_keep (id : TxId) (blk : BlockMeta) (sb sb' : Store × Bals) (i : Nat) (o : Out) (w : Wid)
    (h : rollbackOwnedOut id blk sb i o w = .ok sb') : rbKeep sb'.1 = rbKeep sb.1 := by
  unfold rollbackOwnedOut at h
  split at h
  · split at h
    · cases h
    · simp only [pure, Except.pure, Except.ok.injEq] at h
      rw [← h]; exact rollbackAddr_keep _ _ _ _
  · simp only [pure, Except.pure, Except.ok.injEq] at h
    rw [← h]; exact rollbackAddr_keep _ _ _ _

/-- Rollback, input loop body: the spender entry is written first; the rest touches mined buckets only -/
theorem rollbackIn_ok (c : Ctx) (id : TxId) (blk : BlockMeta) (sb sb' : Store × Bals) (cur : Nat) (i : Inp)
    (h : rollbackIn c id blk sb cur i = .ok sb') :
    sb'.1.pending = sb.1.pending ∧ sb'.1.pendCred = sb.1.pendCred ∧
    sb'.1.pendIns = putPendIn sb.1.pendIns (i.tx, i.idx) id := by
  unfold rollbackIn at h
  repeat' (first | cases h | split at h | simp only [] at h)
  all_goals exact ⟨rfl, rfl, rfl⟩

/-- Rollback, output loop body -/
theorem rollbackOut_ok (c : Ctx) (id : TxId) (blk : BlockMeta) (sb sb' : Store × Bals) (j : Nat) (o : Out)
    (h : rollbackOut c id blk sb j o = .ok sb') :
    sb'.1.pending = sb.1.pending ∧ sb'.1.pendIns = sb.1.pendIns ∧
    (∀ k, k ≠ (⟨id, blk, j⟩ : CredKey) → AMap.get sb'.1.credits k = AMap.get sb.1.credits k) ∧
    AMap.get sb'.1.credits ⟨id, blk, j⟩ = none ∧
    sb'.1.pendCred = (match AMap.get sb.1.credits ⟨id, blk, j⟩ with
      | none => sb.1.pendCred
      | some cr => AMap.put sb.1.pendCred (id, j) { cr with spentBy := none }) := by
  unfold rollbackOut at h
  simp only [] at h
  cases hc : AMap.get sb.1.credits ⟨id, blk, j⟩ with
  | none =>
    rw [hc] at h
    simp only [pure, Except.pure, Except.ok.injEq] at h
    subst h
    exact ⟨rfl, rfl, fun _ _ => rfl, hc, rfl⟩
  | some cr =>
    rw [hc] at h
    simp only [] at h
    have herase : ∀ k, k ≠ (⟨id, blk, j⟩ : CredKey) →
        AMap.get (AMap.erase sb.1.credits ⟨id, blk, j⟩) k = AMap.get sb.1.credits k := by
      intro k hk; rw [AMap.get_erase]; simp [Ne.symm hk]
    have hself : AMap.get (AMap.erase sb.1.credits ⟨id, blk, j⟩) ⟨id, blk, j⟩ = none := by
      rw [AMap.get_erase]; simp
    split at h
    · cases h
    · split at h
      · simp only [pure, Except.pure, Except.ok.injEq] at h
        subst h
        exact ⟨rfl, rfl, herase, hself, rfl⟩
      · simp only [bind, Except.bind] at h
        split at h
        · cases h
        · rename_i sb1 hown
          have hk := rollbackOwnedOut_keep _ _ _ _ _ _ _ hown
          simp only [rbKeep, Prod.mk.injEq] at hk
          obtain ⟨k1, k2, k3, k4, k5⟩ := hk
          split at h
          · simp only [pure, Except.pure, Except.ok.injEq] at h
            subst h
            refine ⟨k1, k2, fun k hne => ?_, ?_, k3⟩
            · show AMap.get sb1.1.credits k = _; rw [k5]; exact herase k hne
            · show AMap.get sb1.1.credits _ = none; rw [k5]; exact hself
          · simp only [pure, Except.pure, Except.ok.injEq] at h
            subst h
            refine ⟨k1, k2, fun k hne => ?_, ?_, k3⟩
            · rw [k5]; exact herase k hne
            · rw [k5]; exact hself

/-- the pending credit Rollback writes for a credit of the rolled-back transaction -/
def unminedOfMined (cr : Credit) : Credit := { cr with spentBy := none }

/-- the output loop of Rollback as a whole, from the state `sb1` the input loop left -/
theorem rollbackOuts_ok (c : Ctx) (id : TxId) (blk : BlockMeta) (outs : List Out) (sb1 r : Store × Bals)
    (h : foldIdxM (rollbackOut c id blk) outs 0 sb1 = .ok r) :
    r.1.pending = sb1.1.pending ∧ r.1.pendIns = sb1.1.pendIns ∧
    ∀ j, j < outs.length →
      AMap.get r.1.credits ⟨id, blk, j⟩ = none ∧
      AMap.get r.1.pendCred (id, j) = (match AMap.get sb1.1.credits ⟨id, blk, j⟩ with
        | some cr => some (unminedOfMined cr)
        | none => AMap.get sb1.1.pendCred (id, j)) := by
  have key := foldIdxM_ok_inv (fun k (a : Store × Bals) =>
      a.1.pending = sb1.1.pending ∧ a.1.pendIns = sb1.1.pendIns ∧
      (∀ j, k ≤ j → AMap.get a.1.credits ⟨id, blk, j⟩ = AMap.get sb1.1.credits ⟨id, blk, j⟩ ∧
                    AMap.get a.1.pendCred (id, j) = AMap.get sb1.1.pendCred (id, j)) ∧
      (∀ j, j < k → AMap.get a.1.credits ⟨id, blk, j⟩ = none ∧
        AMap.get a.1.pendCred (id, j) = (match AMap.get sb1.1.credits ⟨id, blk, j⟩ with
          | some cr => some (unminedOfMined cr)
          | none => AMap.get sb1.1.pendCred (id, j))))
    (rollbackOut c id blk) outs 0 sb1 r ⟨rfl, rfl, fun _ _ => ⟨rfl, rfl⟩, fun _ hj => by omega⟩ ?_ h
  · simp only [Nat.zero_add] at key
    exact ⟨key.1, key.2.1, key.2.2.2⟩
  · intro a k o b' ⟨p1, p2, p3, p4⟩ hf
    obtain ⟨q1, q2, q3, q4, q5⟩ := rollbackOut_ok c id blk a b' k o hf
    have hck : ∀ j, j ≠ k → (⟨id, blk, j⟩ : CredKey) ≠ ⟨id, blk, k⟩ := by
      intro j hj hc; injection hc with _ _ hc; exact hj hc
    have hpc : ∀ j, j ≠ k → AMap.get b'.1.pendCred (id, j) = AMap.get a.1.pendCred (id, j) := by
      intro j hj
      rw [q5]
      split
      · rfl
      · rw [AMap.get_put]; have : ¬ (id, k) = (id, j) := fun hc => hj (by injection hc with _ hc; exact hc.symm)
        simp [this]
    refine ⟨q1.trans p1, q2.trans p2, fun j hj => ?_, fun j hj => ?_⟩
    · have hne : j ≠ k := by omega
      exact ⟨(q3 _ (hck j hne)).trans (p3 j (by omega)).1, (hpc j hne).trans (p3 j (by omega)).2⟩
    · by_cases hjk : j = k
      · subst hjk
        refine ⟨q4, ?_⟩
        rw [q5, (p3 j (Nat.le_refl _)).1]
        split
        · rename_i hn; rw [hn]; exact (p3 j (Nat.le_refl _)).2
        · rename_i cr hs; rw [hs]; simp [AMap.get_put, unminedOfMined]
      · have hlt : j < k := by omega
        exact ⟨(q3 _ (hck j hjk)).trans (p4 j hlt).1, (hpc j hjk).trans (p4 j hlt).2⟩

/-- the input loop of Rollback as a whole -/
theorem rollbackIns_ok (c : Ctx) (id : TxId) (blk : BlockMeta) (ins : List Inp) (n : Nat) (sb r : Store × Bals)
    (h : foldIdxM (rollbackIn c id blk) ins n sb = .ok r) :
    r.1.pending = sb.1.pending ∧ r.1.pendCred = sb.1.pendCred ∧ (∀ i ∈ ins, Listed r.1 (i.tx, i.idx) id) ∧
    (∀ op x, Listed sb.1 op x → Listed r.1 op x) := by
  have h1 := foldIdxM_ok_inv (fun _ (a : Store × Bals) => a.1.pending = sb.1.pending ∧ a.1.pendCred = sb.1.pendCred ∧
      ∀ op x, Listed sb.1 op x → Listed a.1 op x)
    (rollbackIn c id blk) ins n sb r ⟨rfl, rfl, fun _ _ h => h⟩ (by
      intro a i x b' ⟨p1, p2, p3⟩ hf
      obtain ⟨q1, q2, q3⟩ := rollbackIn_ok c id blk a b' i x hf
      refine ⟨q1.trans p1, q2.trans p2, fun op y hl => ?_⟩
      have := (putPendIn_listed a.1 (x.tx, x.idx) id op y).mpr (Or.inl (p3 op y hl))
      unfold Listed at *; rw [q3]; exact this) h
  refine ⟨h1.1, h1.2.1, ?_, h1.2.2⟩
  apply foldIdxM_ok_forall (fun (i : Inp) (a : Store × Bals) => Listed a.1 (i.tx, i.idx) id) (rollbackIn c id blk)
    ?_ ?_ ins n sb r h
  · intro a i x b' hf
    obtain ⟨_, _, q3⟩ := rollbackIn_ok c id blk a b' i x hf
    have := (putPendIn_listed a.1 (x.tx, x.idx) id (x.tx, x.idx) id).mpr (Or.inr ⟨rfl, rfl⟩)
    unfold Listed at *; rw [q3]; exact this
  · intro a i x b' y hf hq
    obtain ⟨_, _, q3⟩ := rollbackIn_ok c id blk a b' i x hf
    have := (putPendIn_listed a.1 (x.tx, x.idx) id (y.tx, y.idx) id).mpr (Or.inl hq)
    unfold Listed at *; rw [q3]; exact this

/-- UNCONFIRM: rollbackTx of a non-coinbase transaction -/
theorem rollbackTx_unconfirm (c : Ctx) (s s' : Store) (bals bals' : Bals) (blk : BlockMeta) (id : TxId)
    (rem : List (TxId × Nat)) (loc : BlkId × Nat) (tx : Tx)
    (h : rollbackTx c s bals blk id = .ok (s', bals', rem))
    (hloc : AMap.get s.txrecs (id, blk) = some loc) (htx : c.node.txByFileLoc loc = some tx) (hcb : tx.cb = false) :
    AMap.get s'.pending id = some tx ∧
    (∀ i ∈ tx.ins, Listed s' (i.tx, i.idx) id ∧ spentByUnmined s' i.tx i.idx = true) ∧
    (∀ op x, Listed s op x → Listed s' op x) ∧
    rem = [] ∧
    ∃ sb1, foldIdxM (rollbackIn c id blk) tx.ins 0
        ({ s with txrecs := AMap.erase s.txrecs (id, blk), pending := AMap.put s.pending id tx }, bals) = .ok sb1 ∧
      sb1.1.pendCred = s.pendCred ∧
      ∀ j, j < tx.outs.length →
        AMap.get s'.credits ⟨id, blk, j⟩ = none ∧
        AMap.get s'.pendCred (id, j) = (match AMap.get sb1.1.credits ⟨id, blk, j⟩ with
          | some cr => some (unminedOfMined cr)
          | none => AMap.get s.pendCred (id, j)) := by
  unfold rollbackTx at h
  rw [hloc] at h
  simp only [htx, hcb] at h
  simp only [Bool.false_eq_true, if_false, bind, Except.bind] at h
  cases hin : foldIdxM (rollbackIn c id blk) tx.ins 0
      ({ s with txrecs := AMap.erase s.txrecs (id, blk), pending := AMap.put s.pending id tx }, bals) with
  | error e => rw [hin] at h; cases h
  | ok sb1 =>
    rw [hin] at h
    simp only [] at h
    cases hout : foldIdxM (rollbackOut c id blk) tx.outs 0 sb1 with
    | error e => rw [hout] at h; cases h
    | ok sb2 =>
      rw [hout] at h
      simp only [pure, Except.pure, Except.ok.injEq, Prod.mk.injEq] at h
      obtain ⟨e1, _, e3⟩ := h
      subst e1
      obtain ⟨i1, i2, i3, i4⟩ := rollbackIns_ok c id blk tx.ins 0 _ sb1 hin
      obtain ⟨o1, o2, o3⟩ := rollbackOuts_ok c id blk tx.outs sb1 sb2 hout
      have hlift : ∀ op x, Listed sb1.1 op x → Listed sb2.1 op x := by
        intro op x hl; unfold Listed at *; rw [o2]; exact hl
      refine ⟨?_, fun i hi => ?_, fun op x hl => hlift _ _ (i4 op x hl), e3.symm, sb1, rfl, i2, fun j hj => ?_⟩
      · rw [o1, i1]; show AMap.get (AMap.put s.pending id tx) id = some tx
        rw [AMap.get_put]; simp
      · have hl := hlift _ _ (i3 i hi)
        refine ⟨hl, ?_⟩
        obtain ⟨l, hg, _⟩ := hl
        unfold spentByUnmined; rw [hg]; rfl
      · have := o3 j hj
        rw [i2] at this
        exact this

/-- the input loop of Rollback: exactly the memberships of `id` under the outpoints of `ins` are added -/
theorem rollbackIns_listed (c : Ctx) (id : TxId) (blk : BlockMeta) : ∀ (ins : List Inp) (n : Nat) (sb r : Store × Bals),
    foldIdxM (rollbackIn c id blk) ins n sb = .ok r →
    (∀ op x, Listed r.1 op x ↔ Listed sb.1 op x ∨ (x = id ∧ ∃ i ∈ ins, (i.tx, i.idx) = op)) ∧
    (NoEmpty sb.1 → NoEmpty r.1) := by
  intro ins
  induction ins with
  | nil =>
    intro n sb r h; simp [foldIdxM, pure, Except.pure] at h; subst h
    exact ⟨fun op x => by simp, fun h => h⟩
  | cons i ins ih =>
    intro n sb r h
    simp only [foldIdxM, bind, Except.bind] at h
    cases hf : rollbackIn c id blk sb n i with
    | error e => rw [hf] at h; cases h
    | ok b' =>
      rw [hf] at h
      obtain ⟨_, _, q3⟩ := rollbackIn_ok c id blk sb b' n i hf
      obtain ⟨r1, r2⟩ := ih (n + 1) b' r h
      have hb' : ∀ op x, Listed b'.1 op x ↔ Listed sb.1 op x ∨ (op = (i.tx, i.idx) ∧ x = id) := by
        intro op x
        have := putPendIn_listed sb.1 (i.tx, i.idx) id op x
        unfold Listed at *; rw [q3]; exact this
      refine ⟨fun op x => ?_, fun hne => r2 ?_⟩
      · rw [r1, hb']
        constructor
        · rintro ((h | ⟨h1, h2⟩) | ⟨h1, j, hj, hop⟩)
          · exact Or.inl h
          · exact Or.inr ⟨h2, i, by simp, h1.symm⟩
          · exact Or.inr ⟨h1, j, by simp [hj], hop⟩
        · rintro (h | ⟨h1, j, hj, hop⟩)
          · exact Or.inl (Or.inl h)
          · rcases List.mem_cons.mp hj with rfl | hj
            · exact Or.inl (Or.inr ⟨hop.symm, h1⟩)
            · exact Or.inr ⟨h1, j, hj, hop⟩
      · intro op
        have := putPendIn_noEmpty sb.1 (i.tx, i.idx) id hne op
        rw [q3]; exact this

/-- UNCONFIRM preserves well-formedness: the rolled-back transaction is stored under its own id, was not pending,
    and respects the rank -/
theorem rollbackTx_wf (rank : TxId → Nat) (c : Ctx) (s s' : Store) (bals bals' : Bals) (blk : BlockMeta) (id : TxId)
    (rem : List (TxId × Nat)) (loc : BlkId × Nat) (tx : Tx) (hw : PendWF rank s)
    (h : rollbackTx c s bals blk id = .ok (s', bals', rem))
    (hloc : AMap.get s.txrecs (id, blk) = some loc) (htx : c.node.txByFileLoc loc = some tx) (hcb : tx.cb = false)
    (hid : tx.id = id) (hnew : AMap.get s.pending id = none) (hrank : ∀ i ∈ tx.ins, rank i.tx < rank id) :
    PendWF rank s' := by
  unfold rollbackTx at h
  rw [hloc] at h
  simp only [htx, hcb] at h
  simp only [Bool.false_eq_true, if_false, bind, Except.bind] at h
  cases hin : foldIdxM (rollbackIn c id blk) tx.ins 0
      ({ s with txrecs := AMap.erase s.txrecs (id, blk), pending := AMap.put s.pending id tx }, bals) with
  | error e => rw [hin] at h; cases h
  | ok sb1 =>
    rw [hin] at h
    simp only [] at h
    cases hout : foldIdxM (rollbackOut c id blk) tx.outs 0 sb1 with
    | error e => rw [hout] at h; cases h
    | ok sb2 =>
      rw [hout] at h
      simp only [pure, Except.pure, Except.ok.injEq, Prod.mk.injEq] at h
      obtain ⟨e1, _, _⟩ := h
      subst e1
      obtain ⟨i1, _, _, _⟩ := rollbackIns_ok c id blk tx.ins 0 _ sb1 hin
      obtain ⟨l1, l2⟩ := rollbackIns_listed c id blk tx.ins 0 _ sb1 hin
      obtain ⟨o1, o2, _⟩ := rollbackOuts_ok c id blk tx.outs sb1 sb2 hout
      have hget : ∀ k, AMap.get sb2.1.pending k = if id = k then some tx else AMap.get s.pending k := by
        intro k; rw [o1, i1]; show AMap.get (AMap.put s.pending id tx) k = _; rw [AMap.get_put]
      have hlisted : ∀ op x, Listed sb2.1 op x ↔ Listed s op x ∨ (x = id ∧ Spends tx op) := by
        intro op x
        have := l1 op x
        unfold Listed Spends at *; rw [o2]; exact this
      refine ⟨?_, ?_, ?_, ?_, ?_⟩
      · intro k t hg
        rw [hget] at hg
        split at hg
        · rename_i hk; cases hg; rw [hid]; exact hk
        · exact hw.key_id k t hg
      · intro op x hl
        rcases (hlisted op x).mp hl with hl | ⟨hx, hsp⟩
        · obtain ⟨t, ht, hsp⟩ := hw.sound op x hl
          refine ⟨t, ?_, hsp⟩
          rw [hget]
          split
          · rename_i hk; rw [← hk, hnew] at ht; cases ht
          · exact ht
        · exact ⟨tx, by rw [hget, hx]; simp, hsp⟩
      · intro k t hg i hi
        rw [hget] at hg
        split at hg
        · rename_i hk; cases hg
          exact (hlisted _ _).mpr (Or.inr ⟨hk.symm, i, hi, rfl⟩)
        · exact (hlisted _ _).mpr (Or.inl (hw.complete k t hg i hi))
      · intro op
        have := l2 hw.noEmpty op
        rw [o2]; exact this
      · intro k t hg i hi
        rw [hget] at hg
        split at hg
        · rename_i hk; cases hg; rw [← hk]; exact hrank i hi
        · exact hw.rank k t hg i hi

end MW.Lemmas.LedgerPending
