/-
  C06 deepening (round 4), part 4: THE KEYSTORE EVENTS INSIDE A REMOVAL WINDOW — CreateWallet (of a wallet other than
  the one being removed) and NewAddress (for a wallet other than the one being removed) keep `JR`.

  * `mid_frame`: C08's in-progress invariant `Mid` reads the mined buckets, the height table, synced-to, the unmined
    credits, the balances of the ready wallets, and the keystore view only through the two books
    `bookOf p own X`, `bookOf p own' X` and through `isW own w`.
  * `JRmid_create`: the new wallet is ready, owns no address, has balance 0 = what the book pays it (a duplicate name
    — in particular the name of the wallet being removed, which is still stored — changes nothing).
  * `JRmid_newAddr`: the address issued for a ready wallet `w1 ≠ w` is paid by no chain the node has had, so the two
    books are what they were and no old address changes hands.
  * finished phase (`JRdone`): the skeleton step commutes with erasing `w` from the table (`skStep_erase_create`,
    `skStep_erase_newAddr`), so round 3's `JQ_create` / `JQ_newAddr` apply to the table without `w`.
    For CreateWallet this needs `w2 ≠ w`: in the finished phase `w` is gone from the system's keystore, the system
    would create it afresh, while the status entry of `w` must stay absent.
-/
import MW.Lemmas.Deepen4Removal
import MW.Lemmas.Deepen4Keys
namespace MW.Lemmas.Deepen4
open MW MW.Model.Ledger MW.Model.Persist MW.Spec.Persist MW.Spec.Chain MW.Spec.Books MW.Lemmas.Ledger
  MW.Lemmas.PersistOp MW.Lemmas.PersistFault MW.Lemmas.PersistCrash MW.Lemmas.Deepen3 MW.Lemmas.ImportJoin

-- ------------------------------------------------------------------ association maps

section AMapLemmas
variable {K V : Type} [DecidableEq K]

theorem amap_erase_comm (m : AMap.T K V) (a b : K) :
    AMap.erase (AMap.erase m a) b = AMap.erase (AMap.erase m b) a := by
  unfold AMap.erase
  rw [List.filter_filter, List.filter_filter]
  congr 1
  funext x
  exact Bool.and_comm _ _

/-- `put` is cons after erase: erasing another key afterwards commutes with it -/
theorem amap_erase_put_ne (m : AMap.T K V) {a b : K} (h : a ≠ b) (v : V) :
    AMap.erase (AMap.put m a v) b = AMap.put (AMap.erase m b) a v := by
  unfold AMap.put
  have : AMap.erase ((a, v) :: AMap.erase m a) b = (a, v) :: AMap.erase (AMap.erase m a) b := by
    unfold AMap.erase; simp [List.filter, h]
  rw [this, amap_erase_comm]

theorem amap_get_erase_ne (m : AMap.T K V) {a b : K} (h : a ≠ b) : AMap.get (AMap.erase m a) b = AMap.get m b := by
  rw [AMap.get_erase, if_neg h]

end AMapLemmas

-- ------------------------------------------------------------------ the skeleton step commutes with the erase

theorem skStep_erase_create (st : Static) (k : Skel) {w w2 : Wid} (h : w2 ≠ w) :
    skStep st { k with ks := AMap.erase k.ks w } (.create w2) =
      { skStep st k (.create w2) with ks := AMap.erase (skStep st k (.create w2)).ks w } := by
  simp only [skStep]
  rw [amap_get_erase_ne k.ks (fun e => h e.symm)]
  by_cases hs : (AMap.get k.ks w2).isSome = true
  · rw [if_pos hs, if_pos hs]
  · rw [if_neg hs, if_neg hs, amap_erase_put_ne k.ks h]

theorem skStep_erase_newAddr (st : Static) (k : Skel) {w w1 : Wid} (h : w1 ≠ w) (stk : Bool) :
    skStep st { k with ks := AMap.erase k.ks w } (.newAddr w1 stk) =
      { skStep st k (.newAddr w1 stk) with ks := AMap.erase (skStep st k (.newAddr w1 stk)).ks w } := by
  simp only [skStep]
  rw [amap_get_erase_ne k.ks (fun e => h e.symm)]
  cases hg : AMap.get k.ks w1 with
  | none => rfl
  | some r =>
    simp only []
    rw [amap_erase_put_ne k.ks h]

/-- the hypothesis on NewAddress for the table without `w` follows from the one for the full table -/
theorem stepOK_erase_newAddr {st : Static} {G : Block} {k : Skel} {w w1 : Wid} {stk : Bool} (hne : w1 ≠ w)
    (hnA : KeysNodup (ownOf k.ks)) (hok : StepOK st G k (.newAddr w1 stk)) :
    StepOK st G { k with ks := AMap.erase k.ks w } (.newAddr w1 stk) := by
  intro r hr
  have hr' : AMap.get k.ks w1 = some r := by
    rw [← amap_get_erase_ne k.ks (fun e => hne e.symm)]; exact hr
  obtain ⟨h1, h2⟩ := hok r hr'
  refine ⟨h1, ?_⟩
  show AMap.get (ownOf (AMap.erase k.ks w)) (st.derive w1 r.next) = none
  rw [ownMinus_erase hnA w, h2]
  rfl

-- ------------------------------------------------------------------ the keystore view after NewAddress

theorem addrEntries_sublist {ks : AMap.T Wid KsRec} {w : Wid} {r : KsRec} (h : (w, r) ∈ ks) :
    (addrEntries w r).Sublist (ownOf ks) := by
  obtain ⟨l₁, l₂, rfl⟩ := List.append_of_mem h
  rw [ownOf_append, ownOf_cons]
  exact (List.sublist_append_left _ _).trans (List.sublist_append_right _ _)

/-- `ownOf_issue_nodup` without the hypothesis that the wallet ids of the table are distinct (in the finished phase
    of a removal only the table WITHOUT `w` is known to have distinct ids) -/
theorem ownOf_issue_nodup' (st : Static) {ks : AMap.T Wid KsRec} (hna : KeysNodup (ownOf ks)) {w : Wid} {r : KsRec}
    (h : AMap.get ks w = some r) (hfresh : AMap.get (ownOf ks) (st.derive w r.next) = none) :
    KeysNodup (ownOf (AMap.put ks w (issueRec st w r))) := by
  have hA : addrEntries w (issueRec st w r) = addrEntries w r ++ [(st.derive w r.next, (w, false))] := by
    simp [addrEntries, issueRec]
  have e1 : ownOf (AMap.put ks w (issueRec st w r)) =
      addrEntries w r ++ (st.derive w r.next, (w, false)) :: (ownOf ks).filter (fun e => e.2.1 != w) := by
    unfold AMap.put
    rw [ownOf_cons, ownOf_erase, hA]
    simp
  have hsub : (addrEntries w r).Sublist ((ownOf ks).filter (fun e => e.2.1 == w)) := by
    have := (addrEntries_sublist (amap_mem_of_get h)).filter (fun e => e.2.1 == w)
    have hs : (addrEntries w r).filter (fun e => e.2.1 == w) = addrEntries w r := by
      rw [List.filter_eq_self]
      intro a ha
      unfold addrEntries at ha
      obtain ⟨y, _, rfl⟩ := List.mem_map.1 ha
      simp
    rwa [hs] at this
  have hperm : ((ownOf ks).filter (fun e => e.2.1 == w) ++ (ownOf ks).filter (fun e => e.2.1 != w)).Perm (ownOf ks) :=
    List.filter_append_perm (fun e => e.2.1 == w) (ownOf ks)
  have hsub2 := hsub.append_right ((ownOf ks).filter (fun e => e.2.1 != w))
  have hna' : (((ownOf ks).filter (fun e => e.2.1 == w) ++ (ownOf ks).filter (fun e => e.2.1 != w)).map (·.1)).Nodup :=
    (List.Perm.nodup_iff (hperm.map (·.1))).2 (show ((ownOf ks).map (·.1)).Nodup from hna)
  have hn0 : ((addrEntries w r ++ (ownOf ks).filter (fun e => e.2.1 != w)).map (·.1)).Nodup :=
    (hsub2.map (·.1)).nodup hna'
  rw [e1]
  unfold KeysNodup
  have hk : ((addrEntries w r ++ (st.derive w r.next, (w, false)) :: (ownOf ks).filter (fun e => e.2.1 != w)).map (·.1)).Perm
      (st.derive w r.next :: (addrEntries w r ++ (ownOf ks).filter (fun e => e.2.1 != w)).map (·.1)) := by
    have := (List.perm_middle (a := (st.derive w r.next, ((w, false) : Wid × Bool))) (l₁ := addrEntries w r)
      (l₂ := (ownOf ks).filter (fun e => e.2.1 != w))).map (·.1)
    simp only [List.map_append, List.map_cons] at this ⊢
    exact this
  rw [hk.nodup_iff, List.nodup_cons]
  refine ⟨?_, hn0⟩
  intro hm
  have h1 := (hsub2.map (·.1)).subset hm
  have h2 := (hperm.map (·.1)).mem_iff.1 h1
  exact amap_get_none_iff.1 hfresh h2

/-- the new address belongs to `w1 ≠ w`, old addresses read as before: nobody's address changes to or from `w` -/
theorem isW_issue {own own' : Own} {a : Addr} {w w1 : Wid} (hne : w1 ≠ w)
    (hl : ∀ b, b ≠ a → AMap.get own' b = AMap.get own b) (hla : AMap.get own' a = some (w1, false))
    (hfresh : AMap.get own a = none) (b : Addr) : MW.Lemmas.RemoveProj.isW own' w b = MW.Lemmas.RemoveProj.isW own w b := by
  unfold MW.Lemmas.RemoveProj.isW
  by_cases hb : b = a
  · rw [hb, hla, hfresh]
    simp [hne]
  · rw [hl b hb]

theorem addrsOf_put_ne (ks : AMap.T Wid KsRec) {w w1 : Wid} (h : w1 ≠ w) (r : KsRec) :
    addrsOf (AMap.put ks w1 r) w = addrsOf ks w := by
  unfold addrsOf
  rw [AMap.get_put, if_neg h]

-- ------------------------------------------------------------------ what `Mid` reads

/-- `Mid` for another keystore view / wallet list / store that gives the same two books, the same answers to
    "is this script hash one of `w`'s", the same mined buckets and unmined credits, and in which every ready wallet
    was ready with the same balance, or is a new one with balance 0 that the book does not pay.  (`Mid` does not read
    its `addrs` argument.) -/
theorem mid_frame {c c' : Ctx} {w : Wid} {addrs addrs' : List Addr} {own' own'' : Own} {s s' : Store} {X : List Block}
    (hp : c'.p = c.p) (hM : SameMined s s') (hpend : s'.pendCred = s.pendCred)
    (hB : bookOf c.p c'.own X = bookOf c.p c.own X) (hB' : bookOf c.p own'' X = bookOf c.p own' X)
    (hW : ∀ b, MW.Lemmas.RemoveProj.isW c'.own w b = MW.Lemmas.RemoveProj.isW c.own w b)
    (hbal : ∀ w', (readyWallets s' c'.wallets).contains w' = true →
      ((readyWallets s c.wallets).contains w' = true ∧ AMap.get s'.balance w' = AMap.get s.balance w') ∨
      (AMap.get s'.balance w' = some 0 ∧ totalU (bookOf c.p c.own X).L w' = 0))
    (h : MW.Lemmas.RemoveInv.Mid c w addrs own' s X) : MW.Lemmas.RemoveInv.Mid c' w addrs' own'' s' X := by
  have hW' : MW.Lemmas.RemoveProj.isW c'.own w = MW.Lemmas.RemoveProj.isW c.own w := funext hW
  refine ⟨?_, ?_, ?_, ?_, ?_, ?_, ?_, ?_, ?_, ?_, ?_, ?_, ?_⟩
  · rw [hM.credits]; exact h.nodup
  · rw [hp, hB, hW', hM.credits]; exact h.credits
  · rw [hp, hB, hW', hM.debits]; exact h.debits
  · rw [hp, hB, hW', hM.debits, hM.credits]; exact h.debitsW
  · rw [hp, hB, hM.unspent]; exact h.unspent
  · rw [hp, hB, hM.game]; exact h.game
  · rw [hp, hB, hB', hM.txrecs]; exact h.txrecs
  · rw [hp, hB', hW', hM.txrecs, hM.credits]; exact h.txrecsW
  · rw [hM.blocks, hM.txrecs]; exact h.blocks
  · intro w' hw'
    rw [hp, hB]
    rcases hbal w' hw' with ⟨h1, h2⟩ | ⟨h2, h3⟩
    · rw [h2]; exact h.bal w' h1
    · rw [h2, h3]
  · rw [hM.sync]; exact h.sync
  · rw [hM.syncedTo]; exact h.syncedTo
  · rw [hpend]; exact h.pendOff

-- ------------------------------------------------------------------ closed forms of the two steps

theorem stepQ_newAddr_closed {st : Static} (n : Nat) (cr : Bool) {x : SysQ} {ks : AMap.T Wid KsRec} {w1 : Wid}
    (stk : Bool) {r : KsRec} (hks : x.P.ks = ks) (hkeys : x.V.keys = ks) (hg : AMap.get ks w1 = some r)
    (hr1 : readyB x.P.led w1 = true) (hfresh : AMap.get (ownOf ks) (st.derive w1 r.next) = none) :
    stepQ st n cr x (.newAddr w1 stk) =
      { x with P := { led := { x.P.led with addrs := AMap.put x.P.led.addrs (w1, stk, st.derive w1 r.next) 0 },
                      ks := AMap.put ks w1 (issueRec st w1 r) },
               V := { x.V with cur := some w1, keys := AMap.put ks w1 (issueRec st w1 r) } } := by
  have hcont : r.addrs.contains (r.next, st.derive w1 r.next) = false := by
    cases hcc : r.addrs.contains (r.next, st.derive w1 r.next) with
    | false => rfl
    | true =>
      have hm := own_mem_of_rec hg (List.contains_iff_mem.1 hcc)
      have := amap_get_none_iff.1 hfresh
      exact absurd (List.mem_map.2 ⟨_, hm, rfl⟩) this
  have huse := useWallet_ready (P := x.P) (V := x.V) (by rw [hkeys]; exact hg) hr1
  obtain ⟨cP, cV⟩ := newAddr_closed (envAt st x.chain) n stk x.P { x.V with cur := some w1 } w1 r rfl
    (by rw [hks]; exact hg) (hkeys.trans hks.symm) hcont
  simp only [stepQ, huse]
  rw [cP, cV, hks]
  rfl

theorem stepQ_create_status (st : Static) (n : Nat) (cr : Bool) (x : SysQ) {w w2 : Wid} (h : w2 ≠ w) :
    AMap.get (stepQ st n cr x (.create w2)).P.led.status w = AMap.get x.P.led.status w := by
  simp only [stepQ]
  rw [create_none]
  by_cases hs : (AMap.get x.P.ks w2).isSome = true
  · rw [if_pos hs]
  · rw [if_neg hs]
    show AMap.get (AMap.put x.P.led.status w2 ⟨none, false⟩) w = _
    rw [AMap.get_put, if_neg h]

-- ------------------------------------------------------------------ CreateWallet

/-- CREATEWALLET while the removal of `w` is in progress: a duplicate name (in particular `w` itself, which is still
    stored) changes nothing; a new wallet is ready, owns no address and has balance 0 = what the book pays it; the
    flag of `w`, the queued removal and the mined buckets are untouched -/
theorem JRmid_create {cfg : Cfg} {G : Block} (cr : Bool) {x : SysQ} {k : Skel} {w : Wid} (w2 : Wid)
    (hJ : JRmid cfg G x k w) :
    JRmid cfg G (stepQ cfg.st cfg.n cr x (.create w2)) (skStep cfg.st k (.create w2)) w := by
  by_cases hs : (AMap.get k.ks w2).isSome = true
  · have h1 : stepQ cfg.st cfg.n cr x (.create w2) = x := by
      simp only [stepQ]
      rw [create_none]
      rw [hJ.ks, if_pos hs]
    have h2 : skStep cfg.st k (.create w2) = k := by simp only [skStep]; rw [if_pos hs]
    rw [h1, h2]; exact hJ
  · obtain ⟨hc, hks, hkeys, hnW, hnA, ⟨r, hr, hrne⟩, ⟨stt, hst, hrm⟩, htask, ⟨X, hX, hMid, hv, hpre, hq0⟩, hqk, hql, hN,
      hcur, hoth, ⟨w0, hw0, hw0m⟩⟩ := hJ
    have hnone : AMap.get k.ks w2 = none := by simpa using hs
    have h1 : stepQ cfg.st cfg.n cr x (.create w2) =
        { x with P := createdStore x.P w2, V := { x.V with keys := AMap.put x.V.keys w2 {} } } := by
      simp only [stepQ]
      rw [create_none]
      rw [hks, if_neg hs]
    have h2 : skStep cfg.st k (.create w2) = { k with ks := AMap.put k.ks w2 {} } := by
      simp only [skStep]; rw [if_neg hs]
    have hwnot : w2 ∉ walletsOf k.ks := amap_get_none_iff.1 hnone
    have hw : w ∈ walletsOf k.ks := List.mem_map.2 ⟨(w, r), amap_mem_of_get hr, rfl⟩
    have hww : w ≠ w2 := fun e => hwnot (e ▸ hw)
    have hwal := walletsOf_put_new k.ks w2 {} hnone
    have he' : lenv cfg.st (AMap.put k.ks w2 {}) = { lenv cfg.st k.ks with wallets := w2 :: walletsOf k.ks } := by
      unfold lenv
      rw [ownOf_put_new k.ks w2 hnone, hwal]
    have hrb : ∀ w', w' ≠ w2 → readyB (createdStore x.P w2).led w' = readyB x.P.led w' := by
      intro w' hw'
      rw [readyB_created, if_neg (fun e => hw' e.symm)]
    have hrw : readyB (createdStore x.P w2).led w2 = true := by rw [readyB_created, if_pos rfl]
    have hstw : AMap.get (createdStore x.P w2).led.status w = AMap.get x.P.led.status w := by
      show AMap.get (AMap.put x.P.led.status w2 ⟨none, false⟩) w = _
      rw [AMap.get_put, if_neg (fun e => hww e.symm)]
    have hown'' : ownOf (AMap.erase (AMap.put k.ks w2 {}) w) = ownOf (AMap.erase k.ks w) := by
      rw [ownOf_erase, ownOf_put_new k.ks w2 hnone, ← ownOf_erase]
    have hMid' : MW.Lemmas.RemoveInv.Mid ((lenv cfg.st (AMap.put k.ks w2 {})).ctx k.chain) w
        (addrsOf (AMap.put k.ks w2 {}) w) (ownOf (AMap.erase (AMap.put k.ks w2 {}) w)) (createdStore x.P w2).led X := by
      rw [he']
      refine mid_frame (c := (lenv cfg.st k.ks).ctx k.chain)
        (c' := ({ lenv cfg.st k.ks with wallets := w2 :: walletsOf k.ks } : Ledger.Env).ctx k.chain)
        (s := x.P.led) (s' := (createdStore x.P w2).led) rfl
        ⟨rfl, rfl, rfl, rfl, rfl, rfl, rfl, rfl⟩ rfl rfl (by rw [hown'']) (fun _ => rfl) ?_ hMid
      intro w' hw'
      have hw'' : w' ∈ w2 :: walletsOf k.ks ∧ readyB (createdStore x.P w2).led w' = true := mem_readyWallets.1 hw'
      by_cases hw2 : w' = w2
      · subst hw2
        refine Or.inr ⟨?_, ?_⟩
        · show AMap.get (AMap.put x.P.led.balance w' 0) w' = _
          rw [AMap.get_put, if_pos rfl]
        · exact Deepen3.totalU_zero (fun u hu e => hwnot (e ▸ ledger_wallet_known hX.valid hu))
      · refine Or.inl ⟨?_, ?_⟩
        · rw [mem_readyWallets]
          rcases List.mem_cons.1 hw''.1 with h | h
          · exact absurd h hw2
          · exact ⟨h, by rw [← hrb w' hw2]; exact hw''.2⟩
        · show AMap.get (AMap.put x.P.led.balance w2 0) w' = _
          rw [AMap.get_put, if_neg (fun e => hw2 e.symm)]
    rw [h1, h2]
    refine ⟨hc, by show (createdStore x.P w2).ks = _; unfold createdStore; rw [hks],
      by show AMap.put x.V.keys w2 {} = _; rw [hkeys],
      by show (walletsOf (AMap.put k.ks w2 {})).Nodup; rw [hwal]; exact List.nodup_cons.2 ⟨hwnot, hnW⟩,
      by show KeysNodup (ownOf (AMap.put k.ks w2 {})); rw [ownOf_put_new k.ks w2 hnone]; exact hnA,
      ⟨r, by show AMap.get (AMap.put k.ks w2 {}) w = _; rw [AMap.get_put, if_neg (fun e => hww e.symm)]; exact hr, hrne⟩,
      ⟨stt, by rw [hstw]; exact hst, hrm⟩, htask,
      ⟨X, by rw [he']; exact chainOK_congr (e := lenv cfg.st k.ks) rfl rfl hX, hMid', hv, hpre, hq0⟩, hqk, hql,
      by rw [he']; exact chainOK_congr (e := lenv cfg.st k.ks) rfl rfl hN, hcur, ?_,
      ⟨w0, hw0, by show w0 ∈ walletsOf (AMap.put k.ks w2 {}); rw [hwal]; exact List.mem_cons_of_mem _ hw0m⟩⟩
    intro w' hw' hne'
    have hw' : w' ∈ walletsOf (AMap.put k.ks w2 {}) := hw'
    rw [hwal] at hw'
    show readyB (createdStore x.P w2).led w' = true
    rcases List.mem_cons.1 hw' with h | h
    · rw [h]; exact hrw
    · rw [hrb w' (fun e => hwnot (e ▸ h))]; exact hoth w' h hne'

/-- CREATEWALLET of another wallet after the finishing iteration: round 3's `JQ_create` for the table without `w` -/
theorem JRdone_create {cfg : Cfg} {G : Block} (cr : Bool) {x : SysQ} {k : Skel} {w : Wid} (w2 : Wid)
    (hJ : JRdone cfg G x k w) (hne : w2 ≠ w) :
    JRdone cfg G (stepQ cfg.st cfg.n cr x (.create w2)) (skStep cfg.st k (.create w2)) w := by
  obtain ⟨hQ, hgone, hnA⟩ := hJ
  refine ⟨?_, ?_, ?_⟩
  · rw [← skStep_erase_create cfg.st k hne]
    exact JQ_create cfg.n cr w2 hQ
  · rw [stepQ_create_status cfg.st cfg.n cr x hne]; exact hgone
  · by_cases hs : (AMap.get k.ks w2).isSome = true
    · have h2 : skStep cfg.st k (.create w2) = k := by simp only [skStep]; rw [if_pos hs]
      rw [h2]; exact hnA
    · have h2 : skStep cfg.st k (.create w2) = { k with ks := AMap.put k.ks w2 {} } := by
        simp only [skStep]; rw [if_neg hs]
      rw [h2]
      show KeysNodup (ownOf (AMap.put k.ks w2 {}))
      rw [ownOf_put_new k.ks w2 (by simpa using hs)]; exact hnA

/-- CREATEWALLET inside a removal window.  ADDED HYPOTHESIS `w2 ≠ w` (needed in the finished phase only: there `w` is
    gone from the system's keystore and CreateWallet `w` would create it afresh — status entry and all — while the
    skeleton, which still has `w`, sees a duplicate) -/
theorem JR_create {cfg : Cfg} {G : Block} (cr : Bool) {x : SysQ} {k : Skel} {w : Wid} (w2 : Wid) (hJ : JR cfg G x k w)
    (hne : w2 ≠ w) :
    JR cfg G (stepQ cfg.st cfg.n cr x (.create w2)) (skStep cfg.st k (.create w2)) w := by
  rcases hJ with hM | hD
  · exact Or.inl (JRmid_create cr w2 hM)
  · exact Or.inr (JRdone_create cr w2 hD hne)

-- ------------------------------------------------------------------ NewAddress

/-- NEWADDRESS for a wallet `w1 ≠ w` while the removal of `w` is in progress: `w1`, if known, is ready, so the address
    is issued; it is paid by no chain the node has had, so the books for the full table and for the table without `w`
    are what they were, no old address changes hands, and `Mid` holds for the LARGER keystore view -/
theorem JRmid_newAddr {cfg : Cfg} {G : Block} (cr : Bool) {x : SysQ} {k : Skel} {w : Wid} (w1 : Wid) (stk : Bool)
    (hJ : JRmid cfg G x k w) (hne : w1 ≠ w) (hok : StepOK cfg.st G k (.newAddr w1 stk)) :
    JRmid cfg G (stepQ cfg.st cfg.n cr x (.newAddr w1 stk)) (skStep cfg.st k (.newAddr w1 stk)) w := by
  cases hg : AMap.get k.ks w1 with
  | none =>
    have h1 : stepQ cfg.st cfg.n cr x (.newAddr w1 stk) = x := by
      simp only [stepQ]
      rw [useWallet_uncached (by rw [hJ.keys]; exact hg)]
    have h2 : skStep cfg.st k (.newAddr w1 stk) = k := by simp only [skStep, hg]
    rw [h1, h2]; exact hJ
  | some r =>
    obtain ⟨hc, hks, hkeys, hnW, hnA, ⟨rw0, hrw0, hrne⟩, ⟨stt, hst, hrm⟩, htask, ⟨X, hX, hMid, hv, ⟨c, hcm, hXc⟩, hq0⟩,
      hqk, hql, hN, hcur, hoth, ⟨w0, hw0, hw0m⟩⟩ := hJ
    have hwm : w1 ∈ walletsOf k.ks := List.mem_map.2 ⟨(w1, r), amap_mem_of_get hg, rfl⟩
    have hr1 : readyB x.P.led w1 = true := hoth w1 hwm hne
    obtain ⟨hpaid, hfresh⟩ := hok r hg
    have h1 := stepQ_newAddr_closed (st := cfg.st) cfg.n cr stk hks hkeys hg hr1 hfresh
    have h2 : skStep cfg.st k (.newAddr w1 stk) = { k with ks := AMap.put k.ks w1 (issueRec cfg.st w1 r) } := by
      simp only [skStep, hg]
    obtain ⟨hpermO, hpermW⟩ := ownOf_put_issue cfg.st hnW hg
    have hn' : KeysNodup (ownOf (AMap.put k.ks w1 (issueRec cfg.st w1 r))) :=
      ownOf_issue_nodup cfg.st hnW hnA hg hfresh
    have hl : ∀ b, b ≠ cfg.st.derive w1 r.next →
        AMap.get (ownOf (AMap.put k.ks w1 (issueRec cfg.st w1 r))) b = AMap.get (ownOf k.ks) b :=
      fun b hb => amap_get_perm_cons hpermO hn' hb
    have hla : AMap.get (ownOf (AMap.put k.ks w1 (issueRec cfg.st w1 r))) (cfg.st.derive w1 r.next) =
        some (w1, false) := amap_get_of_mem hn' (hpermO.mem_iff.2 List.mem_cons_self)
    have hagree : ∀ ocs, PaysNot ocs (cfg.st.derive w1 r.next) →
        OwnAgree (ownOf (AMap.put k.ks w1 (issueRec cfg.st w1 r))) (ownOf k.ks) ocs :=
      fun ocs hp => ownAgree_issue cfg.st hnW hnA hg hfresh hp
    have hXu : addrUsed X (cfg.st.derive w1 r.next) = false := addrUsed_prefix hXc (hpaid c hcm)
    have hXp : PaysNot (occs X) (cfg.st.derive w1 r.next) := paysNot_of_addrUsed hXu
    have hNp : PaysNot (occs k.chain) (cfg.st.derive w1 r.next) := paysNot_of_addrUsed (hpaid _ hcur)
    have hO : OwnSub (ownOf k.ks) (ownOf (AMap.erase k.ks w)) (fun x => decide (x ≠ w)) := ownMinus_erase hnA w
    have hO' : OwnSub (ownOf (AMap.put k.ks w1 (issueRec cfg.st w1 r)))
        (ownOf (AMap.erase (AMap.put k.ks w1 (issueRec cfg.st w1 r)) w)) (fun x => decide (x ≠ w)) :=
      ownMinus_erase hn' w
    have htr : ∀ w', (readyWallets ({ x.P.led with addrs := AMap.put x.P.led.addrs (w1, stk, cfg.st.derive w1 r.next) 0 } : Store)
        (walletsOf (AMap.put k.ks w1 (issueRec cfg.st w1 r)))).contains w' = true ↔
        (readyWallets x.P.led (walletsOf k.ks)).contains w' = true :=
      fun w' => ready_transfer hpermW (fun _ => rfl) w'
    have hMid' : MW.Lemmas.RemoveInv.Mid ((lenv cfg.st (AMap.put k.ks w1 (issueRec cfg.st w1 r))).ctx k.chain) w
        (addrsOf (AMap.put k.ks w1 (issueRec cfg.st w1 r)) w)
        (ownOf (AMap.erase (AMap.put k.ks w1 (issueRec cfg.st w1 r)) w))
        ({ x.P.led with addrs := AMap.put x.P.led.addrs (w1, stk, cfg.st.derive w1 r.next) 0 } : Store) X := by
      refine mid_frame (c := (lenv cfg.st k.ks).ctx k.chain)
        (c' := (lenv cfg.st (AMap.put k.ks w1 (issueRec cfg.st w1 r))).ctx k.chain) (s := x.P.led)
        (s' := ({ x.P.led with addrs := AMap.put x.P.led.addrs (w1, stk, cfg.st.derive w1 r.next) 0 } : Store)) rfl
        ⟨rfl, rfl, rfl, rfl, rfl, rfl, rfl, rfl⟩ rfl ?_ ?_ ?_ ?_ hMid
      · exact bookOf_own_congr cfg.st.p (hagree _ hXp)
      · exact bookOf_own_congr cfg.st.p (ownAgree_sub_issue hl hO hO' hXp)
      · exact isW_issue hne hl hla hfresh
      · intro w' hw'
        exact Or.inl ⟨(htr w').1 hw', rfl⟩
    rw [h1, h2]
    refine ⟨hc, rfl, rfl, put_keys_nodup k.ks w1 _ hnW, hn',
      ⟨rw0, by show AMap.get (AMap.put k.ks w1 (issueRec cfg.st w1 r)) w = _; rw [AMap.get_put, if_neg hne]; exact hrw0,
        hrne⟩,
      ⟨stt, hst, hrm⟩, htask,
      ⟨X, ⟨hX.good, (chainValid_own_congr (hagree _ hXp)).2 hX.valid, hX.genesis, hX.known⟩, hMid', hv,
        ⟨c, hcm, hXc⟩, hq0⟩, hqk, hql,
      ⟨hN.good, (chainValid_own_congr (hagree _ hNp)).2 hN.valid, hN.genesis, hN.known⟩, hcur, ?_,
      ⟨w0, hw0, hpermW.mem_iff.2 hw0m⟩⟩
    intro w' hw' hne'
    exact hoth w' (hpermW.mem_iff.1 hw') hne'

/-- NEWADDRESS for another wallet after the finishing iteration: round 3's `JQ_newAddr` for the table without `w` -/
theorem JRdone_newAddr {cfg : Cfg} {G : Block} (cr : Bool) {x : SysQ} {k : Skel} {w : Wid} (w1 : Wid) (stk : Bool)
    (hJ : JRdone cfg G x k w) (hne : w1 ≠ w) (hok : StepOK cfg.st G k (.newAddr w1 stk)) :
    JRdone cfg G (stepQ cfg.st cfg.n cr x (.newAddr w1 stk)) (skStep cfg.st k (.newAddr w1 stk)) w := by
  obtain ⟨hQ, hgone, hnA⟩ := hJ
  have hok' := stepOK_erase_newAddr (w := w) hne hnA hok
  have hge : AMap.get (AMap.erase k.ks w) w1 = AMap.get k.ks w1 := amap_get_erase_ne k.ks (fun e => hne e.symm)
  refine ⟨?_, ?_, ?_⟩
  · rw [← skStep_erase_newAddr cfg.st k hne stk]
    exact JQ_newAddr cfg.n cr w1 stk hQ hok'
  · cases hg : AMap.get k.ks w1 with
    | none =>
      have h1 : stepQ cfg.st cfg.n cr x (.newAddr w1 stk) = x := by
        simp only [stepQ]
        rw [useWallet_uncached (by rw [hQ.keys]; show AMap.get (AMap.erase k.ks w) w1 = none; rw [hge]; exact hg)]
      rw [h1]; exact hgone
    | some r =>
      have hg' : AMap.get (AMap.erase k.ks w) w1 = some r := by rw [hge]; exact hg
      have hwm : w1 ∈ walletsOf (AMap.erase k.ks w) := List.mem_map.2 ⟨(w1, r), amap_mem_of_get hg', rfl⟩
      have h1 := stepQ_newAddr_closed (st := cfg.st) cfg.n cr stk hQ.ks hQ.keys hg' (hQ.keysOK.ready w1 hwm)
        (hok' r hg').2
      rw [h1]; exact hgone
  · cases hg : AMap.get k.ks w1 with
    | none =>
      have h2 : skStep cfg.st k (.newAddr w1 stk) = k := by simp only [skStep, hg]
      rw [h2]; exact hnA
    | some r =>
      have h2 : skStep cfg.st k (.newAddr w1 stk) = { k with ks := AMap.put k.ks w1 (issueRec cfg.st w1 r) } := by
        simp only [skStep, hg]
      rw [h2]
      exact ownOf_issue_nodup' cfg.st hnA hg (hok r hg).2

/-- NEWADDRESS for a wallet other than the one being removed, inside a removal window -/
theorem JR_newAddr {cfg : Cfg} {G : Block} (cr : Bool) {x : SysQ} {k : Skel} {w : Wid} (w1 : Wid) (stk : Bool)
    (hJ : JR cfg G x k w) (hne : w1 ≠ w) (hok : StepOK cfg.st G k (.newAddr w1 stk)) :
    JR cfg G (stepQ cfg.st cfg.n cr x (.newAddr w1 stk)) (skStep cfg.st k (.newAddr w1 stk)) w := by
  rcases hJ with hM | hD
  · exact Or.inl (JRmid_newAddr cr w1 stk hM hne hok)
  · exact Or.inr (JRdone_newAddr cr w1 stk hD hne hok)

end MW.Lemmas.Deepen4
