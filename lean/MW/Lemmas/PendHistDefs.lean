/-
  C09, HISTORY-LEVEL REFINEMENT (shared definitions).

  `PendRel rank s P`   the abstraction relation between the model's pending stores and the specification's
                       pending list `P` (MW.Spec.Pending): the pending records are exactly the transactions of
                       `P` (under their ids), the spender index describes them (`PendWF`), ids are distinct.
  `Lost c disc cands`  the candidates that `Spec.Pending.settle c disc cands` drops, as an inductive
                       predicate: dropped by the first filter (confirmed / conflicted / orphaned) or child of a
                       dropped candidate that is not on the chain.  Model side and spec side are both
                       characterised by `Lost` (PendHistSpec: `mem_settle`; PendHistConnect / PendHistDisc).
  `Consistent c P`     no pending transaction is on the wallet's chain or conflicts with it.
-/
import MW.Spec.Pending
import MW.Lemmas.LedgerPendingInv
import MW.Lemmas.LedgerPendingConfirm
namespace MW.Lemmas.PendHist
open MW MW.Model.Ledger MW.Spec.Pending MW.Lemmas.LedgerPending

/-- ABSTRACTION RELATION (ids): model store `s` ~ spec pending list `P` -/
structure PendRel (rank : TxId → Nat) (s : Store) (P : List Tx) : Prop where
  wf : PendWF rank s
  ids : ∀ id t, AMap.get s.pending id = some t ↔ (t ∈ P ∧ t.id = id)
  nodup : (P.map (·.id)).Nodup

/-- the first filter of `settle` -/
def alive0 (c disc : List Block) (t : Tx) : Bool :=
  !onChain c t.id && !conflictedBy c t && !orphanedBy disc t

/-- the candidates that `settle c disc cands` drops -/
inductive Lost (c disc : List Block) (cands : List Tx) : Tx → Prop
  | base {t : Tx} : t ∈ cands → alive0 c disc t = false → Lost c disc cands t
  | step {t p : Tx} (i : Inp) : t ∈ cands → i ∈ t.ins → p ∈ cands → p.id = i.tx → onChain c i.tx = false →
      Lost c disc cands p → Lost c disc cands t

/-- no pending transaction is on the chain or conflicts with a transaction of the chain -/
def Consistent (c : List Block) (P : List Tx) : Prop :=
  ∀ t ∈ P, onChain c t.id = false ∧ conflictedBy c t = false

/-- a parent that is a candidate is spent at an existing output index -/
def IdxOK (P : List Tx) : Prop :=
  ∀ t ∈ P, ∀ i ∈ t.ins, ∀ p ∈ P, p.id = i.tx → i.idx < p.outs.length

theorem hasId_iff (l : List Tx) (id : TxId) : hasId l id = true ↔ ∃ t ∈ l, t.id = id := by
  unfold hasId; simp

theorem hasId_false_iff (l : List Tx) (id : TxId) : hasId l id = false ↔ ∀ t ∈ l, t.id ≠ id := by
  unfold hasId; simp

theorem onChain_iff (c : List Block) (id : TxId) : onChain c id = true ↔ ∃ b ∈ c, ∃ t ∈ b.txs, t.id = id := by
  unfold onChain hasId; simp

/-- ids determine the members of a list with distinct ids -/
theorem eq_of_id {l : List Tx} (h : (l.map (·.id)).Nodup) {a b : Tx} (ha : a ∈ l) (hb : b ∈ l)
    (hid : a.id = b.id) : a = b := by
  induction l with
  | nil => cases ha
  | cons x l ih =>
    rw [List.map_cons, List.nodup_cons] at h
    rcases List.mem_cons.1 ha with rfl | ha' <;> rcases List.mem_cons.1 hb with rfl | hb'
    · rfl
    · exact absurd (List.mem_map.2 ⟨b, hb', hid.symm⟩) h.1
    · exact absurd (List.mem_map.2 ⟨a, ha', hid⟩) h.1
    · exact ih h.2 ha' hb'

theorem PendRel.pending_of_mem {rank : TxId → Nat} {s : Store} {P : List Tx} (h : PendRel rank s P) {t : Tx}
    (ht : t ∈ P) : AMap.get s.pending t.id = some t := (h.ids t.id t).2 ⟨ht, rfl⟩

theorem PendRel.mem_of_pending {rank : TxId → Nat} {s : Store} {P : List Tx} (h : PendRel rank s P) {id : TxId}
    {t : Tx} (ht : AMap.get s.pending id = some t) : t ∈ P := ((h.ids id t).1 ht).1

theorem PendRel.hasId {rank : TxId → Nat} {s : Store} {P : List Tx} (h : PendRel rank s P) (id : TxId) :
    hasId P id = (AMap.get s.pending id).isSome := by
  cases hg : AMap.get s.pending id with
  | some t =>
    obtain ⟨h1, h2⟩ := (h.ids id t).1 hg
    exact (hasId_iff P id).2 ⟨t, h1, h2⟩
  | none =>
    rw [Option.isSome_none, hasId_false_iff]
    intro t ht hid
    have := (h.ids id t).2 ⟨ht, hid⟩
    rw [hg] at this; cases this

/-- the relation only reads the pending records and the spender index -/
theorem PendWF.congr {rank : TxId → Nat} {s s' : Store} (h : PendWF rank s) (h1 : s'.pending = s.pending)
    (h2 : s'.pendIns = s.pendIns) : PendWF rank s' := by
  refine ⟨fun id t hg => h.key_id id t (by rw [← h1]; exact hg), ?_, ?_, ?_,
    fun id t hg => h.rank id t (by rw [← h1]; exact hg)⟩
  · intro op id hl
    have hl' : Listed s op id := by unfold Listed at *; rw [← h2]; exact hl
    obtain ⟨t, ht, hs⟩ := h.sound op id hl'
    exact ⟨t, by rw [h1]; exact ht, hs⟩
  · intro id t hg i hi
    have := h.complete id t (by rw [← h1]; exact hg) i hi
    unfold Listed at *; rw [h2]; exact this
  · intro op; rw [h2]; exact h.noEmpty op

theorem PendRel.congr {rank : TxId → Nat} {s s' : Store} {P : List Tx} (h : PendRel rank s P)
    (h1 : s'.pending = s.pending) (h2 : s'.pendIns = s.pendIns) : PendRel rank s' P :=
  ⟨PendWF.congr h.wf h1 h2, fun id t => by rw [h1]; exact h.ids id t, h.nodup⟩

/-- `s'` is reached from `s` by the confirm operation (`confirmPending` = the pending part of `insertMinedTx`) on
    the records `trs` in order, interleaved with steps that leave the pending records and the spender index alone
    (the mined-side bookkeeping, pending credits, deposit records) -/
inductive ConfReach (own : Own) : List TxRec → Store → Store → Prop
  | nil {s : Store} : ConfReach own [] s s
  | silent {trs : List TxRec} {s s1 s' : Store} : s1.pending = s.pending → s1.pendIns = s.pendIns →
      ConfReach own trs s1 s' → ConfReach own trs s s'
  | conf {tr : TxRec} {trs : List TxRec} {s s' : Store} : ConfReach own trs (confirmPending own s tr) s' →
      ConfReach own (tr :: trs) s s'

end MW.Lemmas.PendHist
