/-
  C17 ↔ C01 bridge: the height invariant `HeightsOk` of a store version (every coin the coin scan lists lies at
  or below the synced tip; the tip is below 2^31) is a CONSEQUENCE of the ledger invariant of C01, hence holds in
  every store a C01 history reaches – at any point of the history, notifications pending or not.
-/
import MW.Lemmas.Iso
namespace MW.Lemmas.IsoBridge
open MW MW.Model.Ledger MW.Model.Iso MW.Lemmas.Iso MW.Lemmas.Ledger MW.Spec.Chain MW.Spec.Books

/-- the two spellings of "keys pairwise distinct" (C01's and C17's) are the same predicate -/
theorem nodupKeys_iff {K V : Type} (m : AMap.T K V) : NodupKeys m ↔ KeysNodup m := Iff.rfl

/-- THE BRIDGE: a store that holds the books of a valid chain whose heights are positions (`Inv`), with a
    well-formed unspent index, satisfies `HeightsOk` for every wallet: each listed coin was created by a block of
    that chain, so its height is below the chain length = synced tip + 1. -/
theorem heightsOk_of_inv {c : Ctx} {s : Store} {chain : List Block} (hI : Inv c s chain)
    (hWF : KeysNodup s.unspent) (hV : ChainValid c.own chain) (hH : HeightsOK chain)
    (hb : s.syncedTo < 2^31) (w : Wid) : HeightsOk s w := by
  refine ⟨hb, ?_⟩
  intro x hx
  obtain ⟨hL, _⟩ := loc_bookOf (p := c.p) hV
  have hL' := hL.congrM (eqM_withAddrs (bookOf c.p c.own chain) (fun k => AMap.get s.addrs k))
  obtain ⟨u, hu, _, rfl⟩ := (mem_coinsOf_book hWF hI.agree.toAgree hL' x).1 hx
  have h1 : u.blk.height < chain.length := height_lt_of_mem (p := c.p) hV hH hu
  have h2 := hI.syncedTo
  show u.blk.height ≤ s.syncedTo
  omega

/-- `HeightsOk` IN EVERY STORE A C01 HISTORY REACHES (fixed keystore view): any finite history of node events
    and handler steps (`RunHyp`) from a wallet in sync with a well-formed unspent index; at ANY point of the
    history; the only remaining hypothesis is the size bound "synced height < 2^31". -/
theorem heightsOk_reached (e : Env) (G : Block) (w0 : World) (evs : List Ev) (H : RunHyp e G w0 evs)
    (h0 : Inv (e.ctx w0.chain) w0.s w0.chain) (hv0 : w0.v.best = tipMeta w0.chain) (hq0 : w0.queue = [])
    (hwf0 : KeysNodup w0.s.unspent) (hb : (runW e w0 evs).s.syncedTo < 2^31) (w : Wid) :
    HeightsOk (runW e w0 evs).s w := by
  obtain ⟨S, hI, _, hS⟩ := ledger_consistent e G w0 evs H h0 hv0 hq0
  exact heightsOk_of_inv hI (wf_runW e w0 evs hwf0) hS.valid hS.good.heights hb w

/-- well-formedness of the unspent index along a history with address issuance -/
theorem wf_runI (e : Env) (evs : List EvI) : ∀ (x : WorldI), KeysNodup x.w.s.unspent →
    KeysNodup (runI e x evs).w.s.unspent := by
  induction evs with
  | nil => intro x h; exact h
  | cons ev evs ih =>
    intro x h
    rw [runI_cons]
    apply ih
    cases ev with
    | node nv => exact wf_stepW _ x.w nv h
    | issue a w ch => exact h

/-- … and with address issuance along the way (`RunHypI`) -/
theorem heightsOk_reached_issue (e : Env) (G : Block) (x0 : WorldI) (evs : List EvI) (H : RunHypI e G x0 evs)
    (h0 : Inv ({ e with own := x0.own }.ctx x0.w.chain) x0.w.s x0.w.chain)
    (hv0 : x0.w.v.best = tipMeta x0.w.chain) (hq0 : x0.w.queue = [])
    (hwf0 : KeysNodup x0.w.s.unspent) (hb : (runI e x0 evs).w.s.syncedTo < 2^31) (w : Wid) :
    HeightsOk (runI e x0 evs).w.s w := by
  obtain ⟨S, hI, _, hS, _, _⟩ := ledger_consistent_issue e G x0 evs H h0 hv0 hq0
  exact heightsOk_of_inv hI (wf_runI e evs x0 hwf0) hS.valid hS.good.heights hb w

/-- the node chains of a prefix of a history are among those of the history -/
theorem chainsOf_take_subset (e : Env) (evs : List Ev) :
    ∀ (w : World) (n : Nat) (ch : List Block), ch ∈ chainsOf e w (evs.take n) → ch ∈ chainsOf e w evs := by
  induction evs with
  | nil => intro w n ch h; simpa using h
  | cons ev evs ih =>
    intro w n ch h
    cases n with
    | zero =>
      rw [List.take_zero] at h
      rw [List.mem_singleton.1 h]
      exact chainsOf_head_mem e w _
    | succ n =>
      rw [List.take_succ_cons] at h
      rcases List.mem_cons.1 h with h | h
      · rw [h]; exact List.mem_cons_self
      · exact List.mem_cons_of_mem _ (ih _ n ch h)

/-- the hypotheses on a history hold for each of its prefixes -/
theorem runHyp_take {e : Env} {G : Block} {w0 : World} {evs : List Ev} (H : RunHyp e G w0 evs) (n : Nat) :
    RunHyp e G w0 (evs.take n) where
  genesisOnly := H.genesisOnly
  genesisPrev := H.genesisPrev
  chains := fun ch h => H.chains ch (chainsOf_take_subset e evs w0 n ch h)
  reorgNonempty := fun ev h => H.reorgNonempty ev (List.mem_of_mem_take h)
  ready := H.ready
  readyNe := H.readyNe

/-- THE STORE VERSIONS A QUERY CAN SEE: if version `i` is the store after the first `pre i` events of a C01
    history (each handler step is one commit), every version satisfies `HeightsOk` -/
theorem versions_heightsOk (e : Env) (G : Block) (w0 : World) (evs : List Ev) (H : RunHyp e G w0 evs)
    (h0 : Inv (e.ctx w0.chain) w0.s w0.chain) (hv0 : w0.v.best = tipMeta w0.chain) (hq0 : w0.queue = [])
    (hwf0 : KeysNodup w0.s.unspent) (vs : Nat → Store) (pre : Nat → Nat)
    (hvs : ∀ i, vs i = (runW e w0 (evs.take (pre i))).s) (hb : ∀ i, (vs i).syncedTo < 2^31) (i : Nat) (w : Wid) :
    HeightsOk (vs i) w := by
  have := heightsOk_reached e G w0 (evs.take (pre i)) (runHyp_take H (pre i)) h0 hv0 hq0 hwf0 (by rw [← hvs]; exact hb i) w
  rw [hvs]; exact this

end MW.Lemmas.IsoBridge
