/-
  C13, decoding half: EntropyFromMnemonic / MnemonicToByteArray / IsMnemonicValid compute Spec.decode.
-/
import MW.Lemmas.Bip39Codec
namespace MW.Lemmas.Bip39Decode
open MW MW.B39 MW.Model.Bip39 MW.Lemmas.Bip39Words MW.Lemmas.Bip39Fields MW.Lemmas.Bip39Codec

/-- value of a digit sequence in base 2048, most significant first, starting from `b` -/
def horner (b : Nat) (is : List Nat) : Nat := is.foldl (fun a i => a * 2048 + i) b

/-- index of a word in the BIP-39 list (the spec's notion) -/
def idx (w : Bytes) : Nat := Spec.Bip39.wordlist.idxOf w

theorem horner_snoc (b : Nat) (is : List Nat) (d : Nat) : horner b (is ++ [d]) = horner b is * 2048 + d := by
  simp [horner, List.foldl_append]

theorem horner_eq (b : Nat) (is : List Nat) : horner b is = b * 2048 ^ is.length + horner 0 is := by
  induction is generalizing b with
  | nil => simp [horner]
  | cons i is ih =>
    simp only [horner, List.foldl_cons, List.length_cons] at ih ⊢
    rw [ih (b * 2048 + i), ih (0 * 2048 + i)]; ring

theorem horner_cons (i : Nat) (is : List Nat) : horner 0 (i :: is) = i * 2048 ^ is.length + horner 0 is := by
  have := horner_eq (0 * 2048 + i) is
  simp only [horner, List.foldl_cons] at this ⊢
  rw [this]; simp

theorem horner_lt (is : List Nat) (h : ∀ i ∈ is, i < 2048) : horner 0 is < 2048 ^ is.length := by
  induction is with
  | nil => simp [horner]
  | cons i is ih =>
    rw [horner_cons, List.length_cons, pow_succ]
    have h1 := h i List.mem_cons_self
    have h2 := ih (fun j hj => h j (List.mem_cons_of_mem _ hj))
    nlinarith [Nat.pos_of_ne_zero (pow_ne_zero is.length (by norm_num : (2048:Nat) ≠ 0))]

theorem horner_digitsRec : ∀ (n x : Nat), horner 0 (digitsRec n x) = x % 2048 ^ n := by
  intro n
  induction n with
  | zero => intro x; simp [digitsRec, horner, Nat.mod_one]
  | succ n ih =>
    intro x
    rw [digitsRec, horner_snoc, ih, pow_succ, Nat.mul_comm (2048 ^ n) 2048, Nat.mod_mul]
    ring

theorem digitsRec_horner : ∀ (n : Nat) (is : List Nat), is.length = n → (∀ i ∈ is, i < 2048) →
    digitsRec n (horner 0 is) = is := by
  intro n
  induction n with
  | zero => intro is hl _; simp at hl; subst hl; rfl
  | succ n ih =>
    intro is hl h
    rcases List.eq_nil_or_concat is with e | ⟨is', d, e⟩
    · subst e; simp at hl
    · subst e
      have hd : d < 2048 := h d (by simp)
      have hl' : is'.length = n := by simpa using hl
      rw [List.concat_eq_append, digitsRec, horner_snoc]
      have e1 : (horner 0 is' * 2048 + d) / 2048 = horner 0 is' := by omega
      have e2 : (horner 0 is' * 2048 + d) % 2048 = d := by omega
      rw [e1, e2, ih is' hl' (fun i hi => h i (by simp [hi]))]

/-! ### word ↔ index -/

theorem idx_lt (w : Bytes) (h : w ∈ wordList) : idx w < 2048 := by
  unfold idx
  rw [wordList_eq_spec] at h
  have hlen : Spec.Bip39.wordlist.length = 2048 := by rw [← wordList_eq_spec]; exact wordList_length
  have := List.idxOf_lt_length_iff.mpr h
  rwa [hlen] at this

theorem wordMapGet_mem (w : Bytes) (h : w ∈ wordList) : wordMapGet w = some (idx w) := by
  cases hm : wordMapGet w with
  | none => exact absurd h (wordMapGet_none w hm)
  | some i => rw [(wordMapGet_eq_idxOf w i hm).1.symm]; rfl

theorem getD_eq_getElem' (l : List Bytes) (i : Nat) (h : i < l.length) : l.getD i [] = l[i] := by
  rw [List.getD_eq_getElem?_getD, List.getElem?_eq_getElem h]; rfl

theorem wordOf_mem (i : Nat) (h : i < 2048) : wordOf i ∈ wordList := by
  have hi : i < wordList.length := by rw [wordList_length]; exact h
  unfold wordOf
  rw [getD_eq_getElem' _ i hi]
  exact List.getElem_mem hi

theorem idx_wordOf (i : Nat) (h : i < 2048) : idx (wordOf i) = i := by
  have hi : i < wordList.length := by rw [wordList_length]; exact h
  unfold wordOf idx
  rw [getD_eq_getElem' _ i hi, ← wordList_eq_spec]
  exact idxOf_getElem_nodup _ i hi wordList_nodup

theorem getD_of_getElem? (l : List Bytes) (i : Nat) (w : Bytes) (h : l[i]? = some w) : l.getD i [] = w := by
  rw [List.getD_eq_getElem?_getD, h]; rfl

theorem wordOf_idx (w : Bytes) (h : w ∈ wordList) : wordOf (idx w) = w :=
  getD_of_getElem? _ _ _ (wordMapGet_some w (idx w) (wordMapGet_mem w h))

/-! ### the decoding loop -/

theorem putUint16_val (i : Nat) (h : i < 65536) : ofBytesBE (putUint16 i) = i := by
  unfold putUint16
  simp only [Nat.mod_eq_of_lt h, ofBytesBE, List.foldl_cons, List.foldl_nil, UInt8.toNat_ofNat']
  omega

theorem decodeLoop_ok : ∀ (ws : List Bytes) (b : Nat), (∀ w ∈ ws, w ∈ wordList) →
    decodeLoop ws b = .ok (horner b (ws.map idx)) := by
  intro ws
  induction ws with
  | nil => intro b _; rfl
  | cons w ws ih =>
    intro b h
    have hw := h w List.mem_cons_self
    have hi := idx_lt w hw
    simp only [decodeLoop, wordMapGet_mem w hw, Gen.Bip39.shift11BitsMask]
    rw [putUint16_val _ (by omega), mul_or _ _ hi, ih _ (fun x hx => h x (List.mem_cons_of_mem _ hx))]
    simp [horner]

theorem decodeLoop_err : ∀ (ws : List Bytes) (b : Nat), (∃ w ∈ ws, w ∉ wordList) →
    decodeLoop ws b = .error .word := by
  intro ws
  induction ws with
  | nil => intro b h; obtain ⟨w, hw, _⟩ := h; simp at hw
  | cons w ws ih =>
    intro b h
    by_cases hw : w ∈ wordList
    · simp only [decodeLoop, wordMapGet_mem w hw]
      apply ih
      obtain ⟨x, hx, hn⟩ := h
      rcases List.mem_cons.mp hx with e | e
      · subst e; exact absurd hw hn
      · exact ⟨x, e, hn⟩
    · have : wordMapGet w = none := by
        cases hm : wordMapGet w with
        | none => rfl
        | some i => exact absurd (List.mem_of_getElem? (wordMapGet_some w i hm)) hw
      simp only [decodeLoop, this]

/-! ### the spec's bit string of a word sequence -/

theorem wordBits_spec : ∀ (ws : List Bytes), (∀ w ∈ ws, w ∈ wordList) →
    (Spec.Bip39.wordBits ws).length = 11 * ws.length ∧
      bitsToNat (Spec.Bip39.wordBits ws) = horner 0 (ws.map idx) := by
  intro ws
  induction ws with
  | nil => intro _; exact ⟨rfl, rfl⟩
  | cons w ws ih =>
    intro h
    obtain ⟨h1, h2⟩ := ih (fun x hx => h x (List.mem_cons_of_mem _ hx))
    have hi := idx_lt w (h w List.mem_cons_self)
    have e : Spec.Bip39.wordBits (w :: ws) = natToBits 11 (idx w) ++ Spec.Bip39.wordBits ws := by
      simp [Spec.Bip39.wordBits, idx]
    rw [e]
    constructor
    · rw [List.length_append, natToBits_length, h1, List.length_cons]; omega
    · rw [bitsToNat_append, bitsToNat_natToBits, h1, h2, List.map_cons, horner_cons, List.length_map,
        Nat.mod_eq_of_lt (by simpa using hi), pow_mul]
      norm_num

/-- the number a word sequence stands for -/
def decNat (ws : List Bytes) : Nat := horner 0 (ws.map idx)

/-- the entropy candidate of a sequence of 3·cs words: the top 32·cs bits, as 4·cs bytes -/
def candidate (ws : List Bytes) (cs : Nat) : Bytes := padLeft (toBytesBE (decNat ws / 2 ^ cs)) (4 * cs)

theorem decNat_lt (ws : List Bytes) (h : ∀ w ∈ ws, w ∈ wordList) : decNat ws < 2 ^ (11 * ws.length) := by
  have := horner_lt (ws.map idx) (by
    intro i hi
    obtain ⟨w, hw, e⟩ := List.mem_map.mp hi
    subst e; exact idx_lt w (h w hw))
  rw [List.length_map] at this
  unfold decNat
  rw [pow_mul]; norm_num; exact this

theorem candidate_spec (ws : List Bytes) (cs : Nat) (hl : ws.length = 3 * cs) (h : ∀ w ∈ ws, w ∈ wordList) :
    (candidate ws cs).length = 4 * cs ∧ ofBytesBE (candidate ws cs) = decNat ws / 2 ^ cs := by
  have hlt := decNat_lt ws h
  have hq : decNat ws / 2 ^ cs < 256 ^ (4 * cs) := by
    rw [Nat.div_lt_iff_lt_mul (by positivity)]
    have : (256:Nat) ^ (4 * cs) * 2 ^ cs = 2 ^ (11 * ws.length) := by
      rw [show (256:Nat) = 2 ^ 8 by norm_num, ← pow_mul, ← pow_add]; congr 1; omega
    rw [this]; exact hlt
  unfold candidate
  exact ⟨padLeft_length _ _ (toBytesBE_length_le _ _ hq), by rw [ofBytesBE_padLeft, ofBytesBE_toBytesBE]⟩

theorem spec_entropyOf (ws : List Bytes) (cs : Nat) (hl : ws.length = 3 * cs) (h : ∀ w ∈ ws, w ∈ wordList) :
    Spec.Bip39.entropyOf ws = candidate ws cs := by
  obtain ⟨b1, b2⟩ := wordBits_spec ws h
  obtain ⟨c1, c2⟩ := candidate_spec ws cs hl h
  unfold Spec.Bip39.entropyOf Spec.Bip39.entBits
  have he : ws.length / 3 * 32 = 32 * cs := by omega
  rw [he]
  have htl : ((Spec.Bip39.wordBits ws).take (32 * cs)).length = 8 * (4 * cs) := by
    rw [List.length_take, b1]; omega
  obtain ⟨d1, d2⟩ := bytesOfBits_spec (4 * cs) _ htl
  apply ofBytesBE_inj _ _ (by rw [d1, c1])
  rw [d2, c2, bitsToNat_take _ _ (by rw [b1]; omega), b1, b2]
  have : 11 * ws.length - 32 * cs = cs := by omega
  rw [this]; rfl

theorem spec_checksumOK (H : Bytes → Bytes) (hH : HashOK H) (ws : List Bytes) (cs : Nat) (hcs : cs ≤ 8)
    (hl : ws.length = 3 * cs) (h : ∀ w ∈ ws, w ∈ wordList) :
    Spec.Bip39.checksumOK H ws = decide (decNat ws % 2 ^ cs = csVal (H (candidate ws cs)) cs) := by
  obtain ⟨b1, b2⟩ := wordBits_spec ws h
  obtain ⟨c1, _⟩ := candidate_spec ws cs hl h
  unfold Spec.Bip39.checksumOK
  rw [spec_entropyOf ws cs hl h]
  obtain ⟨k1, k2⟩ := checksumBits_spec H hH (candidate ws cs) cs hcs c1
  unfold Spec.Bip39.entBits
  have he : ws.length / 3 * 32 = 32 * cs := by omega
  rw [he]
  have hdl : ((Spec.Bip39.wordBits ws).drop (32 * cs)).length = cs := by
    rw [List.length_drop, b1]; omega
  have hdv : bitsToNat ((Spec.Bip39.wordBits ws).drop (32 * cs)) = decNat ws % 2 ^ cs := by
    rw [bitsToNat_drop, b1, b2]
    have : 11 * ws.length - 32 * cs = cs := by omega
    rw [this]; rfl
  apply Bool.eq_iff_iff.mpr
  simp only [beq_iff_eq, decide_eq_true_eq]
  constructor
  · intro e; rw [← hdv, e, k2]
  · intro e
    apply bitsToNat_inj _ _ (by rw [hdl, k1])
    rw [hdv, k2, e]

/-! ### the tables -/

theorem masks_get (cs : Nat) (h4 : 4 ≤ cs) (h8 : cs ≤ 8) :
    tableGet Gen.Bip39.checksumMasks (3 * cs) = .ok (2 ^ cs - 1) := by
  obtain rfl | rfl | rfl | rfl | rfl : cs = 4 ∨ cs = 5 ∨ cs = 6 ∨ cs = 7 ∨ cs = 8 := by omega
  all_goals rfl

theorem shifts_get (cs : Nat) (h4 : 4 ≤ cs) (h7 : cs ≤ 7) :
    tableGet Gen.Bip39.checksumShifts (3 * cs) = .ok (2 ^ (8 - cs)) := by
  obtain rfl | rfl | rfl | rfl : cs = 4 ∨ cs = 5 ∨ cs = 6 ∨ cs = 7 := by omega
  all_goals rfl

/-! ### EntropyFromMnemonic on a word slice -/

theorem entropyFromWords_eq (H : Bytes → Bytes) (hH : HashOK H) (ws : List Bytes) (cs : Nat) (h4 : 4 ≤ cs)
    (h8 : cs ≤ 8) (hl : ws.length = 3 * cs) (h : ∀ w ∈ ws, w ∈ wordList) :
    entropyFromWords H ws =
      if decNat ws % 2 ^ cs = csVal (H (candidate ws cs)) cs then .ok (candidate ws cs) else .error .checksum := by
  unfold entropyFromWords candidate decNat
  rw [decodeLoop_ok ws 0 h, hl, masks_get cs h4 h8]
  simp only [bind, Except.bind, Gen.Bip39.bigOne]
  have hp : 2 ^ cs - 1 + 1 = 2 ^ cs := Nat.sub_add_cancel (Nat.one_le_two_pow)
  rw [hp, Nat.and_two_pow_sub_one_eq_mod]
  have h34 : 3 * cs / 3 * 4 = 4 * cs := by omega
  rw [h34]
  cases hd : H (padLeft (toBytesBE (horner 0 (ws.map idx) / 2 ^ cs)) (4 * cs)) with
  | nil => exact absurd hd (hH _)
  | cons h0 t =>
    simp only [firstByte, csVal, List.headD_cons]
    by_cases h24 : 3 * cs = 24
    · have : cs = 8 := by omega
      subst this
      simp only [h24, ne_eq, not_true_eq_false, ↓reduceIte, pure, Except.pure, Nat.sub_self, pow_zero,
        Nat.div_one]
      split <;> simp_all
    · have h7 : cs ≤ 7 := by omega
      simp only [ne_eq, h24, not_false_eq_true, ↓reduceIte, shifts_get cs h4 h7]
      have : (2:Nat) ^ (8 - cs) ≠ 0 := by positivity
      simp only [this, ↓reduceIte, pure, Except.pure]
      split <;> simp_all

/-! ### EntropyFromMnemonic = Spec.decode ∘ fields -/

theorem legal_words_cs (n : Nat) (h : Spec.Bip39.legalWordCount n = true) : ∃ cs, 4 ≤ cs ∧ cs ≤ 8 ∧ n = 3 * cs := by
  simp only [Spec.Bip39.legalWordCount, Bool.or_eq_true, beq_iff_eq] at h
  rcases h with (((h | h) | h) | h) | h
  · exact ⟨4, by omega, by omega, h⟩
  · exact ⟨5, by omega, by omega, h⟩
  · exact ⟨6, by omega, by omega, h⟩
  · exact ⟨7, by omega, by omega, h⟩
  · exact ⟨8, by omega, by omega, h⟩

theorem legal_words_iff (n : Nat) : Spec.Bip39.legalWordCount n = true ↔ ¬ (n % 3 ≠ 0 ∨ n < 12 ∨ n > 24) := by
  simp only [Spec.Bip39.legalWordCount, Bool.or_eq_true, beq_iff_eq]
  omega

theorem allListed_iff (ws : List Bytes) : Spec.Bip39.allListed ws = true ↔ ∀ w ∈ ws, w ∈ wordList := by
  unfold Spec.Bip39.allListed
  rw [List.all_eq_true, wordList_eq_spec]
  constructor
  · intro h w hw; exact List.contains_iff_mem.mp (h w hw)
  · intro h w hw; exact List.contains_iff_mem.mpr (h w hw)

/-- how the wallet reports the spec's three reasons to refuse in `EntropyFromMnemonic` -/
def errOfReject : Spec.Bip39.Reject → Err
  | .length => .invalid
  | .word => .word
  | .checksum => .checksum

/-- the same in `MnemonicToByteArray` / `NewSeedWithErrorChecking` (one class for length and word) -/
def errOfRejectArr : Spec.Bip39.Reject → Err
  | .length => .invalid
  | .word => .invalid
  | .checksum => .checksum

theorem spec_decode_listed (H : Bytes → Bytes) (hH : HashOK H) (ws : List Bytes) (cs : Nat) (h4 : 4 ≤ cs)
    (h8 : cs ≤ 8) (hl : ws.length = 3 * cs) (h : ∀ w ∈ ws, w ∈ wordList) :
    Spec.Bip39.decode H ws =
      if decNat ws % 2 ^ cs = csVal (H (candidate ws cs)) cs then .ok (candidate ws cs) else .error .checksum := by
  have hleg : Spec.Bip39.legalWordCount ws.length = true := by
    rw [legal_words_iff]; omega
  unfold Spec.Bip39.decode
  rw [hleg, (allListed_iff ws).mpr h, spec_checksumOK H hH ws cs h8 hl h, spec_entropyOf ws cs hl h]
  by_cases hc : decNat ws % 2 ^ cs = csVal (H (candidate ws cs)) cs <;> simp [hc]

theorem entropyFromMnemonic_eq_spec (H : Bytes → Bytes) (hH : HashOK H) (s : Bytes) :
    entropyFromMnemonic H s =
      match Spec.Bip39.decode H (fields s) with
      | .ok e => .ok e
      | .error r => .error (errOfReject r) := by
  unfold entropyFromMnemonic splitMnemonicWords
  simp only
  by_cases hleg : Spec.Bip39.legalWordCount (fields s).length = true
  · rw [if_neg ((legal_words_iff _).mp hleg)]
    simp only
    obtain ⟨cs, h4, h8, hl⟩ := legal_words_cs _ hleg
    by_cases hall : ∀ w ∈ fields s, w ∈ wordList
    · rw [entropyFromWords_eq H hH _ cs h4 h8 hl hall, spec_decode_listed H hH _ cs h4 h8 hl hall]
      split <;> rfl
    · have hex : ∃ w ∈ fields s, w ∉ wordList := by
        by_contra hcon
        apply hall
        intro w hw
        by_contra hn
        exact hcon ⟨w, hw, hn⟩
      have hsp : Spec.Bip39.decode H (fields s) = .error .word := by
        unfold Spec.Bip39.decode
        have : Spec.Bip39.allListed (fields s) = false := by
          cases hb : Spec.Bip39.allListed (fields s) with
          | false => rfl
          | true => exact absurd ((allListed_iff _).mp hb) hall
        rw [hleg, this]; rfl
      rw [hsp]
      unfold entropyFromWords
      rw [decodeLoop_err _ 0 hex]; rfl
  · have hn : (fields s).length % 3 ≠ 0 ∨ (fields s).length < 12 ∨ (fields s).length > 24 := by
      by_contra hc; exact hleg ((legal_words_iff _).mpr hc)
    rw [if_pos hn]
    have hsp : Spec.Bip39.decode H (fields s) = .error .length := by
      unfold Spec.Bip39.decode
      have : Spec.Bip39.legalWordCount (fields s).length = false := by
        cases hb : Spec.Bip39.legalWordCount (fields s).length with
        | false => rfl
        | true => exact absurd hb hleg
      rw [this]; rfl
    rw [hsp]; rfl

/-! ### IsMnemonicValid -/

theorem isMnemonicValid_eq (s : Bytes) :
    isMnemonicValid s = (Spec.Bip39.legalWordCount (fields s).length && Spec.Bip39.allListed (fields s)) := by
  unfold isMnemonicValid
  simp only
  by_cases hleg : Spec.Bip39.legalWordCount (fields s).length = true
  · rw [if_neg ((legal_words_iff _).mp hleg), hleg, Bool.true_and]
    apply Bool.eq_iff_iff.mpr
    rw [allListed_iff, List.all_eq_true]
    constructor
    · intro h w hw; exact (wordMapGet_isSome_iff w).mp (h w hw)
    · intro h w hw; exact (wordMapGet_isSome_iff w).mpr (h w hw)
  · have hn : (fields s).length % 3 ≠ 0 ∨ (fields s).length < 12 ∨ (fields s).length > 24 := by
      by_contra hc; exact hleg ((legal_words_iff _).mpr hc)
    rw [if_pos hn]
    have : Spec.Bip39.legalWordCount (fields s).length = false := by
      cases hb : Spec.Bip39.legalWordCount (fields s).length with
      | false => rfl
      | true => exact absurd hb hleg
    rw [this]; rfl

/-! ### MnemonicToByteArray -/

theorem foldl_getD (ws : List Bytes) (b : Nat) (h : ∀ w ∈ ws, w ∈ wordList) :
    ws.foldl (fun acc v => acc * 2048 + (wordMapGet v).getD 0) b = horner b (ws.map idx) := by
  induction ws generalizing b with
  | nil => rfl
  | cons w ws ih =>
    simp only [List.foldl_cons, List.map_cons, horner]
    rw [wordMapGet_mem w (h w List.mem_cons_self)]
    exact ih _ (fun x hx => h x (List.mem_cons_of_mem _ hx))

theorem bitsToNat_replicate_false (k : Nat) : bitsToNat (List.replicate k false) = 0 := by
  induction k with
  | zero => rfl
  | succ k ih => rw [List.replicate_succ, bitsToNat_cons, ih]; simp

theorem spec_checksummedBytes (ws : List Bytes) (cs : Nat) (h8 : cs ≤ 8) (hl : ws.length = 3 * cs)
    (h : ∀ w ∈ ws, w ∈ wordList) :
    Spec.Bip39.checksummedBytes ws = padLeft (toBytesBE (decNat ws)) (4 * cs + 1) := by
  obtain ⟨b1, b2⟩ := wordBits_spec ws h
  unfold Spec.Bip39.checksummedBytes
  have hlen : (List.replicate (8 - ws.length / 3) false ++ Spec.Bip39.wordBits ws).length = 8 * (4 * cs + 1) := by
    rw [List.length_append, List.length_replicate, b1]; omega
  obtain ⟨d1, d2⟩ := bytesOfBits_spec _ _ hlen
  symm
  apply padLeft_toBytesBE_eq _ _ _ d1
  rw [d2, bitsToNat_append, bitsToNat_replicate_false, b2]; simp [decNat]

theorem mnemonicToByteArray_eq_spec (H : Bytes → Bytes) (hH : HashOK H) (s : Bytes) (raw : Bool) :
    mnemonicToByteArray H s raw =
      match Spec.Bip39.decode H (fields s) with
      | .ok e => .ok (if raw then e else Spec.Bip39.checksummedBytes (fields s))
      | .error r => .error (errOfRejectArr r) := by
  unfold mnemonicToByteArray
  rw [fields_trimSpace, isMnemonicValid_eq]
  simp only
  by_cases hleg : Spec.Bip39.legalWordCount (fields s).length = true
  · by_cases hall : Spec.Bip39.allListed (fields s) = true
    · obtain ⟨cs, h4, h8, hl⟩ := legal_words_cs _ hleg
      have hmem := (allListed_iff _).mp hall
      obtain ⟨c1, c2⟩ := candidate_spec (fields s) cs hl hmem
      rw [hleg, hall, spec_decode_listed H hH _ cs h4 h8 hl hmem, foldl_getD _ 0 hmem]
      have e1 : (fields s).length * 11 % 32 = cs := by omega
      have e2 : ((fields s).length * 11 - cs) / 8 + 1 = 4 * cs + 1 := by omega
      have e3 : 4 * cs + 1 - (4 * cs + 1) % 4 = 4 * cs := by omega
      simp only [e1, e2, e3, Gen.Bip39.bigTwo, Bool.and_self, Bool.not_true, Bool.false_eq_true, ↓reduceIte]
      change (do
        let withChecksum ← addChecksum H (candidate (fields s) cs)
        if (!compareByteSlices (padLeft (toBytesBE (decNat (fields s))) (4 * cs + 1))
            (padLeft withChecksum (4 * cs + 1))) = true then throw Err.checksum
        if raw = true then pure (candidate (fields s) cs)
        else pure (padLeft (toBytesBE (decNat (fields s))) (4 * cs + 1))) = _
      have hq : (candidate (fields s) cs).length / 4 = cs := by omega
      rw [addChecksum_eq H hH _ (by omega), hq, c2]
      simp only [bind, Except.bind, pure, Except.pure]
      have hc := csVal_lt (H (candidate (fields s) cs)) cs h8
      by_cases hck : decNat (fields s) % 2 ^ cs = csVal (H (candidate (fields s) cs)) cs
      · have hN : decNat (fields s) / 2 ^ cs * 2 ^ cs + csVal (H (candidate (fields s) cs)) cs
            = decNat (fields s) := by
          rw [← hck]; exact Nat.div_add_mod' _ _
        rw [hN, if_pos hck]
        simp only [compareByteSlices, beq_self_eq_true, Bool.and_self, Bool.not_true, Bool.false_eq_true,
          ↓reduceIte]
        cases raw
        · simp only [Bool.false_eq_true, ↓reduceIte]
          rw [spec_checksummedBytes _ cs h8 hl hmem]
        · rfl
      · rw [if_neg hck]
        have hne : compareByteSlices (padLeft (toBytesBE (decNat (fields s))) (4 * cs + 1))
            (padLeft (toBytesBE (decNat (fields s) / 2 ^ cs * 2 ^ cs + csVal (H (candidate (fields s) cs)) cs))
              (4 * cs + 1)) = false := by
          cases hb : compareByteSlices (padLeft (toBytesBE (decNat (fields s))) (4 * cs + 1))
            (padLeft (toBytesBE (decNat (fields s) / 2 ^ cs * 2 ^ cs + csVal (H (candidate (fields s) cs)) cs))
              (4 * cs + 1)) with
          | false => rfl
          | true =>
            exfalso
            simp only [compareByteSlices, Bool.and_eq_true, beq_iff_eq] at hb
            have := congrArg ofBytesBE hb.2
            rw [ofBytesBE_padLeft, ofBytesBE_padLeft, ofBytesBE_toBytesBE, ofBytesBE_toBytesBE] at this
            apply hck
            have h2 : (decNat (fields s) / 2 ^ cs * 2 ^ cs + csVal (H (candidate (fields s) cs)) cs) % 2 ^ cs
                = csVal (H (candidate (fields s) cs)) cs := by
              rw [Nat.mul_add_mod_of_lt hc]
            rw [← this] at h2; exact h2
        rw [hne]; rfl
    · have hf : Spec.Bip39.allListed (fields s) = false := by
        cases hb : Spec.Bip39.allListed (fields s) with
        | false => rfl
        | true => exact absurd hb hall
      have hsp : Spec.Bip39.decode H (fields s) = .error .word := by
        unfold Spec.Bip39.decode; rw [hleg, hf]; rfl
      rw [hleg, hf, hsp]; rfl
  · have hf : Spec.Bip39.legalWordCount (fields s).length = false := by
      cases hb : Spec.Bip39.legalWordCount (fields s).length with
      | false => rfl
      | true => exact absurd hb hleg
    have hsp : Spec.Bip39.decode H (fields s) = .error .length := by
      unfold Spec.Bip39.decode; rw [hf]; rfl
    rw [hf, hsp]; rfl

end MW.Lemmas.Bip39Decode
