/-
  Helper lemmas for C08 (remove_resumes): a removal step that does not finish deletes at least one credit of the
  removed wallet, so the number of such credits is a strictly decreasing measure.
-/
import MW.Lemmas.RemoveStep
namespace MW.Lemmas.RemoveProgress
open MW MW.Model.Ledger MW.Model.Remove MW.Lemmas.RemoveScan MW.Lemmas.RemoveStep

/-- how many credits of the removed wallet are left -/
def left (s : Store) (addrs : List Addr) : Nat := (s.credits.filter (fun e => addrs.contains e.2.sh)).length

theorem dropDebit_deleteCredit_sublist (s : Store) (k : CredKey) (d : Option CredKey) :
    List.Sublist (dropDebit (deleteCredit s k) d).credits s.credits := by
  rw [dropDebit_credits]
  exact List.filter_sublist

theorem scanCredit_sublist (limit : Nat) (addrs : List Addr) (sc : Scan) (e : CredKey × Credit) :
    List.Sublist (scanCredit limit addrs sc e).s.credits sc.s.credits := by
  rcases scanCredit_cases limit addrs sc e with h | ⟨_, h⟩ | h | ⟨_, _, _, d, _, h⟩ <;> rw [h]
  · exact List.Sublist.refl _
  · exact List.Sublist.refl _
  · exact List.Sublist.refl _
  · exact dropDebit_deleteCredit_sublist _ _ _

theorem scan_sublist (limit : Nat) (addrs : List Addr) (l : List (CredKey × Credit)) (sc : Scan) :
    List.Sublist (l.foldl (scanCredit limit addrs) sc).s.credits sc.s.credits := by
  induction l generalizing sc with
  | nil => exact List.Sublist.refl _
  | cons a l ih => exact (ih _).trans (scanCredit_sublist limit addrs sc a)

/-- `sc` has deleted a matching credit of `l` -/
def Deleted (addrs : List Addr) (l : List (CredKey × Credit)) (sc : Scan) : Prop :=
  ∃ e ∈ l, addrs.contains e.2.sh = true ∧ ∀ x ∈ sc.s.credits, x.1 ≠ e.1

/-- invariant: a scan that stopped short, or has counted a deletion, or has met a transaction, has deleted -/
def Inv (addrs : List Addr) (l : List (CredKey × Credit)) (sc : Scan) : Prop :=
  (sc.finish = false → Deleted addrs l sc) ∧ (sc.count > 0 ∨ sc.heightOf ≠ [] → Deleted addrs l sc)

theorem twoHeights_nonempty (hOf : AMap.T TxId Nat) (k : CredKey) (h : twoHeights hOf k = true) : hOf ≠ [] := by
  intro he
  subst he
  simp [twoHeights, AMap.get] at h

theorem deleted_mono (addrs : List Addr) (l : List (CredKey × Credit)) (sc sc' : Scan)
    (hsub : ∀ x ∈ sc'.s.credits, x ∈ sc.s.credits) (h : Deleted addrs l sc) : Deleted addrs l sc' := by
  obtain ⟨e, he, hm, hx⟩ := h
  exact ⟨e, he, hm, fun x hx' => hx x (hsub x hx')⟩

theorem scanCredit_inv (limit : Nat) (hl : limit > 0) (addrs : List Addr) (l : List (CredKey × Credit)) (sc : Scan)
    (e : CredKey × Credit) (he : e ∈ l) (hi : Inv addrs l sc) : Inv addrs l (scanCredit limit addrs sc e) := by
  rcases scanCredit_cases limit addrs sc e with h | ⟨hcond, h⟩ | h | ⟨_, _, hm, d, _, h⟩
  · rw [h]; exact hi
  · rw [h]
    have hd : Deleted addrs l sc := by
      apply hi.2
      rcases hcond with hc | hc
      · left; omega
      · right; exact twoHeights_nonempty _ _ hc
    exact ⟨fun _ => hd, fun _ => hd⟩
  · rw [h]; exact hi
  · have hd : Deleted addrs l (scanCredit limit addrs sc e) := by
      refine ⟨e, he, hm, ?_⟩
      rw [h]
      intro x hx
      simp only at hx
      rw [dropDebit_credits] at hx
      exact ((mem_erase _ _ _).1 hx).2
    exact ⟨fun _ => hd, fun _ => hd⟩

theorem scan_inv (limit : Nat) (hl : limit > 0) (addrs : List Addr) (l0 l : List (CredKey × Credit)) (sc : Scan)
    (hsub : ∀ e ∈ l, e ∈ l0) (hi : Inv addrs l0 sc) : Inv addrs l0 (l.foldl (scanCredit limit addrs) sc) := by
  induction l generalizing sc with
  | nil => exact hi
  | cons a l ih =>
    exact ih _ (fun e he => hsub e (List.mem_cons_of_mem _ he))
      (scanCredit_inv limit hl addrs l0 sc a (hsub a (List.mem_cons_self ..)) hi)

/-- **the measure**: a scan that does not report `finish` leaves strictly fewer credits of the removed wallet -/
theorem removeRelevantCredit_decreases (limit : Nat) (hl : limit > 0) (s : Store) (addrs : List Addr)
    (hnf : (removeRelevantCredit limit s addrs).finish = false) :
    left (removeRelevantCredit limit s addrs).s addrs < left s addrs := by
  have hinv := scan_inv limit hl addrs s.credits s.credits { s := s } (fun e he => he)
    ⟨by intro h; simp at h, by intro h; rcases h with h | h <;> simp at h⟩
  obtain ⟨e, he, hm, hgone⟩ := hinv.1 hnf
  have hsl : List.Sublist (removeRelevantCredit limit s addrs).s.credits s.credits :=
    scan_sublist limit addrs s.credits { s := s }
  have hfsl := hsl.filter (fun e => addrs.contains e.2.sh)
  unfold left
  rcases Nat.lt_or_ge ((removeRelevantCredit limit s addrs).s.credits.filter (fun e => addrs.contains e.2.sh)).length
      (s.credits.filter (fun e => addrs.contains e.2.sh)).length with hlt | hge
  · exact hlt
  · exfalso
    have heq := hfsl.eq_of_length_le hge
    have hin : e ∈ s.credits.filter (fun e => addrs.contains e.2.sh) := List.mem_filter.2 ⟨he, hm⟩
    rw [← heq] at hin
    exact hgone e (List.mem_filter.1 hin).1 rfl

end MW.Lemmas.RemoveProgress
