/-
  db.BytesPrefix / util.BytesPrefix:  k ∈ [prefix, limit)  ⇔  prefix is a prefix of k.
-/
import MW.Model.KV
import MW.Lemmas.KvOrder
namespace MW.Model.KV
open MW MW.KV

/-- forward reading of the limit: the first byte that is followed only by 0xff bytes and is
    itself < 0xff is incremented, everything after it is dropped -/
def limitFwd : Bytes → Option Bytes
  | [] => none
  | c :: rest =>
    match limitFwd rest with
    | some l => some (c :: l)
    | none => if c < 0xff then some [c + 1] else none

theorem incLast_append (xs : Bytes) (c : UInt8) :
    incLast (xs ++ [c]) =
      match incLast xs with
      | some l => some (l ++ [c])
      | none => if c < 0xff then some [c + 1] else none := by
  induction xs with
  | nil => simp [incLast]
  | cons x xs ih =>
    simp only [List.cons_append, incLast]
    by_cases hx : x < 0xff
    · simp [hx]
    · simp only [hx, if_false, ih]

theorem bytesPrefixLimit_eq_fwd (p : Bytes) : bytesPrefixLimit p = limitFwd p := by
  induction p with
  | nil => rfl
  | cons c rest ih =>
    simp only [bytesPrefixLimit, List.reverse_cons, incLast_append, limitFwd] at ih ⊢
    rw [← ih]
    cases h : incLast rest.reverse with
    | some l => simp
    | none =>
      by_cases hc : c < 0xff <;> simp [hc]

/-- the range test of a goleveldb iterator / of `SMap.range`: start ≤ k and (no limit or k < limit) -/
def inRange (start : Bytes) (limit : Option Bytes) (k : Bytes) : Prop :=
  ble start k = true ∧ (match limit with | none => True | some l => blt k l = true)

theorem u8_succ_toNat {c : UInt8} (h : c < 0xff) : (c + 1).toNat = c.toNat + 1 := by
  rw [UInt8.lt_iff_toNat_lt] at h
  rw [UInt8.toNat_add]
  simp at h ⊢
  omega

theorem inRange_fwd_iff (p k : Bytes) : inRange p (limitFwd p) k ↔ p <+: k := by
  induction p generalizing k with
  | nil => simp [inRange, limitFwd, ble_nil]
  | cons c rest ih =>
    cases k with
    | nil => simp [inRange, ble, blt]
    | cons d ks =>
      simp only [inRange, ble, blt, limitFwd, List.cons_prefix_cons]
      by_cases hdc : d < c
      · have : c ≠ d := fun e => by subst e; exact UInt8.lt_irrefl _ hdc
        simp [hdc, this]
      · by_cases hcd : c < d
        · have hne : c ≠ d := fun e => by subst e; exact UInt8.lt_irrefl _ hcd
          simp only [hdc, hcd, if_false, if_true, Bool.not_false, true_and, hne, false_and, iff_false]
          cases hl : limitFwd rest with
          | some l => simp [blt, hdc, hcd]
          | none =>
            by_cases hc : c < 0xff
            · simp only [hc, if_true, blt]
              have h1 := u8_succ_toNat hc
              have : ¬ d < c + 1 := by
                rw [UInt8.lt_iff_toNat_lt] at hcd ⊢; omega
              simp only [this, if_false]
              by_cases h2 : c + 1 < d
              · simp [h2]
              · simp [h2, blt_nil_right]
            · exfalso
              have := UInt8.toNat_lt d
              rw [UInt8.lt_iff_toNat_lt] at hc hcd
              simp at hc
              omega
        · have hcd' : c = d := u8_eq_of_not_lt hcd hdc
          subst hcd'
          simp only [UInt8.lt_irrefl, if_false, true_and]
          have ih' := ih ks
          simp only [inRange, ble] at ih'
          cases hl : limitFwd rest with
          | some l =>
            rw [hl] at ih'
            simp only [blt, UInt8.lt_irrefl, if_false]
            exact ih'
          | none =>
            rw [hl] at ih'
            by_cases hc : c < 0xff
            · have h1 := u8_succ_toNat hc
              have : c < c + 1 := by rw [UInt8.lt_iff_toNat_lt]; omega
              simp only [hc, if_true, blt, this]
              simpa using ih'
            · simpa [hc] using ih'

/-- `k ∈ [start, limit)` of `BytesPrefix(prefix)` iff `prefix` is a prefix of `k`; covers the
    empty prefix and prefixes made of 0xff bytes only (limit = nil, unbounded) -/
theorem inRange_bytesPrefix_iff (p k : Bytes) : inRange p (bytesPrefixLimit p) k ↔ p <+: k := by
  rw [bytesPrefixLimit_eq_fwd]; exact inRange_fwd_iff p k

/-- all-0xff prefixes (incl. the empty one) have no limit, every other prefix has one -/
theorem bytesPrefixLimit_eq_none_iff (p : Bytes) : bytesPrefixLimit p = none ↔ ∀ c ∈ p, c = 0xff := by
  rw [bytesPrefixLimit_eq_fwd]
  induction p with
  | nil => simp [limitFwd]
  | cons c rest ih =>
    simp only [limitFwd, List.mem_cons, forall_eq_or_imp]
    cases hl : limitFwd rest with
    | some l =>
      simp only [reduceCtorEq, false_iff, not_and]
      intro _ hall
      rw [hl] at ih
      exact absurd (ih.mpr hall) (by simp)
    | none =>
      rw [hl] at ih
      have hall := ih.mp rfl
      by_cases hc : c < 0xff
      · simp only [hc, if_true, reduceCtorEq, false_iff, not_and]
        intro h; subst h; simp at hc
      · simp only [hc, if_false, true_iff]
        refine ⟨?_, hall⟩
        apply UInt8.toNat_inj.mp
        have := UInt8.toNat_lt c
        rw [UInt8.lt_iff_toNat_lt] at hc
        simp at hc ⊢
        omega

/-- membership in a prefix scan of the store -/
theorem mem_scan {s : Store} {pfx : Bytes} {e : Bytes × Bytes} :
    e ∈ s.scan pfx ↔ e ∈ s ∧ pfx <+: e.1 := by
  rw [Store.scan, SMap.mem_range]
  have := inRange_bytesPrefix_iff pfx e.1
  simp only [inRange] at this
  rw [← this]
  cases bytesPrefixLimit pfx <;> simp

end MW.Model.KV
