/-
  C09 history-level refinement: THE DISCONNECT STEP FROM THE C01 INVARIANT.  `disconnect_step` (PendHistDisc)
  needs the block record of the tip block and facts about the mined buckets; here they come from `Inv`
  (`inv_tip_records`, `inv_cb_credits`) and the domain of the step (`DiscDom`), including the case that the
  block has no record (no relevant transaction: the pending stores do not change, and neither does the
  specification's pending list).
-/
import MW.Lemmas.PendHistRunDefs
namespace MW.Lemmas.PendHist
open MW MW.Model.Ledger MW.Spec.Pending MW.Lemmas.LedgerPending MW.Lemmas.Ledger

/-- the specification's "owned output" is the books' `ownerOf` -/
theorem ownedOut_eq_ownerOf (E : HEnv) (o : Out) :
    ownedOut E.env o = (MW.Spec.Books.ownerOf E.own o).isSome := by
  unfold ownedOut MW.Spec.Books.ownerOf HEnv.env
  by_cases h : o.cls = .raw
  · simp [h]
  · simp [h]

/-- relevance (specification) of a transaction of the tip block = relevance among the transactions of the chain
    (what the block record lists) -/
theorem relevant_iff_relAmong (rank : TxId → Nat) (E : HEnv) (c0 : List Block) (b : Block) (P : List Tx)
    (dom : DiscDom rank E c0 b P) (t : Tx) (ht : t ∈ b.txs) :
    relevant E.env t = true ↔ RelAmong E.own (chainTxs (c0 ++ [b])) t := by
  unfold relevant RelAmong
  rw [Bool.or_eq_true, Bool.and_eq_true, List.any_eq_true, List.any_eq_true]
  constructor
  · rintro (⟨o, ho, hown⟩ | ⟨hcb, i, hi, hp⟩)
    · exact Or.inl ⟨o, ho, by rw [← ownedOut_eq_ownerOf]; exact hown⟩
    · right
      refine ⟨by simpa using hcb, i, hi, ?_⟩
      obtain ⟨x, hx, p, hp', hid⟩ := (onChain_iff _ _).1 (dom.parents t ht i hi)
      have hsrc : E.src i.tx = some p := by rw [← hid]; exact dom.src x hx p hp'
      have hprev : prevOut E.env i = p.outs[i.idx]? := by
        unfold prevOut HEnv.env; simp only [hsrc, Option.bind_some]
      rw [hprev] at hp
      cases ho : p.outs[i.idx]? with
      | none => rw [ho] at hp; cases hp
      | some o =>
        rw [ho] at hp
        refine ⟨p, ?_, hid, o, ho, by rw [← ownedOut_eq_ownerOf]; exact hp⟩
        unfold chainTxs
        exact List.mem_flatMap.2 ⟨x, hx, hp'⟩
  · rintro (⟨o, ho, hown⟩ | ⟨hcb, i, hi, p, hp, hid, o, ho, hown⟩)
    · exact Or.inl ⟨o, ho, by rw [ownedOut_eq_ownerOf]; exact hown⟩
    · right
      refine ⟨by simp [hcb], i, hi, ?_⟩
      unfold chainTxs at hp
      obtain ⟨x, hx, hp'⟩ := List.mem_flatMap.1 hp
      have hsrc : E.src i.tx = some p := by rw [← hid]; exact dom.src x hx p hp'
      have hprev : prevOut E.env i = p.outs[i.idx]? := by
        unfold prevOut HEnv.env; simp only [hsrc, Option.bind_some]
      rw [hprev, ho]
      simp only
      rw [ownedOut_eq_ownerOf]; exact hown

/-- disconnecting a tip block WITHOUT a block record leaves the pending stores alone -/
theorem disconnect_norec (c : Ctx) (s s' : Store) (h : Nat) (hd : disconnectBlock c s h = .ok s')
    (hsync : s.syncedTo = h) (hblk : AMap.get s.blocks h = none) :
    s'.pending = s.pending ∧ s'.pendIns = s.pendIns := by
  unfold disconnectBlock at hd
  have h0 : h ≠ 0 := by intro hc; rw [if_pos hc] at hd; cases hd
  rw [if_neg h0, if_neg (by omega : ¬ h > s.syncedTo)] at hd
  simp only [bind, Except.bind] at hd
  cases hr : rollback c s h with
  | error e => rw [hr] at hd; cases hd
  | ok s2 =>
    rw [hr] at hd
    simp only [pure, Except.pure, Except.ok.injEq] at hd
    have hps : s'.pending = s2.pending ∧ s'.pendIns = s2.pendIns := by rw [← hd]; exact ⟨rfl, rfl⟩
    unfold rollback at hr
    have hhs : (List.range (s.syncedTo + 1 - h)).map (fun k => s.syncedTo - k) = [h] := by
      rw [hsync]
      have : h + 1 - h = 1 := by omega
      rw [this]; rfl
    simp only [] at hr
    rw [hhs] at hr
    simp only [List.foldlM, bind, Except.bind] at hr
    cases hb : rollbackBlockAt c { s := s, bals := s.balance } h with
    | error e => rw [hb] at hr; cases hr
    | ok acc =>
      rw [hb] at hr
      simp only [pure, Except.pure, Except.ok.injEq] at hr
      rw [rollbackBlockAt_eq] at hb
      simp only [hblk] at hb
      simp only [pure, Except.pure, Except.ok.injEq] at hb
      rw [hps.1, hps.2, ← hr, ← hb]
      exact ⟨rfl, rfl⟩

/-- a consistent pending list stays consistent when the tip block goes -/
theorem consistent_dropLast {c0 : List Block} {b : Block} {P : List Tx} (hcons : Consistent (c0 ++ [b]) P) :
    Consistent c0 P := by
  intro t ht
  obtain ⟨h1, h2⟩ := hcons t ht
  rw [onChain_append] at h1
  rw [conflictedBy_append] at h2
  exact ⟨by cases hx : onChain c0 t.id <;> simp_all, by cases hx : conflictedBy c0 t <;> simp_all⟩

/-- THE DISCONNECT STEP from the C01 invariant and the domain of the step -/
theorem disconnect_step_inv (rank : TxId → Nat) (E : HEnv) (n : Node) (s s' : Store) (c0 : List Block) (b : Block)
    (P : List Tx)
    (hI : Inv (E.ctx n) s (c0 ++ [b])) (hAR : AllReady E.own (readyWallets s E.wallets)) (hc0 : c0 ≠ [])
    (hV : ChainValid E.own (c0 ++ [b])) (hH : HeightsOK (c0 ++ [b])) (hk : AMap.get n.known b.id = some b)
    (hrel : PendRel rank s P) (hcons : Consistent (c0 ++ [b]) P) (hsidx : SrcIdx E P)
    (hsrcP : ∀ t ∈ P, E.src t.id = some t)
    (dom : DiscDom rank E c0 b P)
    (h : disconnectBlock (E.ctx n) s b.height = .ok s') :
    Inv (E.ctx n) s' c0 ∧ (∀ ws, readyWallets s' ws = readyWallets s ws) ∧
    PendRel rank s' (onChainMoved E.env (c0 ++ [b]) c0 P) ∧
    Consistent c0 (onChainMoved E.env (c0 ++ [b]) c0 P) ∧
    (∀ t ∈ onChainMoved E.env (c0 ++ [b]) c0 P, t ∈ P ∨ (t ∈ b.txs ∧ t.cb = false ∧ relevant E.env t = true)) := by
  -- (1) the mined side: C01
  obtain ⟨s'', hd, hI', hrw⟩ := disconnect_sound (c := E.ctx n) s c0 b hI hc0 hV hH hk hAR
  rw [h] at hd
  have hss : s' = s'' := by injection hd
  subst hss
  have hbh : b.height = c0.length := hH c0.length b (by simp)
  have hsync : s.syncedTo = b.height := by
    have := hI.syncedTo
    rw [List.length_append, List.length_singleton] at this
    omega
  refine ⟨hI', hrw, ?_⟩
  -- the specification side: candidates
  have hOM := onChainMoved_disconnect E.env c0 b P dom.blk
  have hbackmem : ∀ t, t ∈ b.txs.filter (fun t => !t.cb && relevant E.env t && !hasId P t.id) →
      t ∈ b.txs ∧ t.cb = false ∧ relevant E.env t = true ∧ hasId P t.id = false := by
    intro t ht
    obtain ⟨h1, h2⟩ := List.mem_filter.1 ht
    simp only [Bool.and_eq_true, Bool.not_eq_true'] at h2
    exact ⟨h1, h2.1.1, h2.1.2, h2.2⟩
  have hCnd : ((P ++ b.txs.filter (fun t => !t.cb && relevant E.env t && !hasId P t.id)).map (·.id)).Nodup := by
    rw [List.map_append, List.nodup_append]
    refine ⟨hrel.nodup, List.Nodup.sublist (List.Sublist.map _ List.filter_sublist) dom.bnd, ?_⟩
    intro x hx y hy hxy
    obtain ⟨t, ht, rfl⟩ := List.mem_map.1 hx
    obtain ⟨u, hu, rfl⟩ := List.mem_map.1 hy
    have := (hbackmem u hu).2.2.2
    rw [hasId_false_iff] at this
    exact this t ht hxy
  refine ⟨?_, by rw [hOM]; exact settle_consistent _ _ _ hCnd, ?_⟩
  · -- PendRel
    rcases inv_tip_records hI hV hH hk with ⟨ids, hblk, hnd, hrec, hiff⟩ | ⟨hblk, hnone⟩
    · -- the block has a record
      have hrelA : ∀ t ∈ b.txs, t.cb = false → (t.id ∈ ids ↔ relevant E.env t = true) :=
        fun t ht _ => (hiff t ht).trans (relevant_iff_relAmong rank E c0 b P dom t ht).symm
      have hcb : ∀ t, (t ∈ P ∨ (t ∈ b.txs ∧ t.cb = false ∧ t.id ∈ ids)) → ∀ i ∈ t.ins, ∀ u ∈ b.txs, u.cb = true →
          i.tx = u.id → u.id ∈ ids ∧ i.idx < u.outs.length ∧
            (AMap.get s.credits ⟨u.id, ⟨b.height, b.id⟩, i.idx⟩).isSome = true := by
        intro t ht i hi u hu hucb hid
        have ht' : t ∈ P ∨ (t ∈ b.txs ∧ t.cb = false ∧ relevant E.env t = true) := by
          rcases ht with ht | ⟨g1, g2, g3⟩
          · exact Or.inl ht
          · exact Or.inr ⟨g1, g2, (hrelA t g1 g2).1 g3⟩
        obtain ⟨o, ho, hown⟩ := dom.cbown t ht' i hi u hu hucb hid
        rw [ownedOut_eq_ownerOf] at hown
        obtain ⟨hlt, -⟩ := List.getElem?_eq_some_iff.1 ho
        exact ⟨(hiff u hu).2 (Or.inl ⟨o, List.mem_of_getElem? ho, hown⟩), hlt,
          inv_cb_credits hI hV u hu i.idx o ho hown⟩
      have hidx : IdxOK (P ++ b.txs.filter (fun t => !t.cb && ids.contains t.id)) := by
        have hsrcL : ∀ p ∈ P ++ b.txs.filter (fun t => !t.cb && ids.contains t.id), E.src p.id = some p := by
          intro p hp
          rcases List.mem_append.1 hp with hp | hp
          · exact hsrcP p hp
          · exact dom.src b (by simp) p (List.mem_filter.1 hp).1
        intro t ht i hi p hp hpid
        have hsrc : E.src i.tx = some p := by rw [← hpid]; exact hsrcL p hp
        rcases List.mem_append.1 ht with ht | ht
        · exact hsidx t ht i hi p hsrc
        · exact dom.sidx t (List.mem_filter.1 ht).1 i hi p hsrc
      exact disconnect_step rank E.env (E.ctx n) s s' c0 b P ids h hsync hblk hrec hnd hrel hcons dom.rk
        ⟨dom.blk, dom.bnd, hrelA, dom.back, hcb, hidx⟩
    · -- no record: nothing of the block is relevant, nothing changes
      have hnorel : ∀ t ∈ b.txs, relevant E.env t = false := by
        intro t ht
        cases hr : relevant E.env t with
        | false => rfl
        | true => exact absurd ((relevant_iff_relAmong rank E c0 b P dom t ht).1 hr) (hnone t ht)
      have hnil : b.txs.filter (fun t => !t.cb && relevant E.env t && !hasId P t.id) = [] := by
        rw [List.filter_eq_nil_iff]
        intro t ht
        rw [hnorel t ht]
        simp
      rw [hOM, hnil, List.append_nil]
      obtain ⟨e1, e2⟩ := disconnect_norec (E.ctx n) s s' b.height h hsync hblk
      have hrel' := hrel.congr e1 e2
      have hc0P := consistent_dropLast hcons
      have hnl : ∀ t, ¬ Lost c0 [b] P t := by
        intro t hl
        induction hl with
        | @base t htP ha =>
          obtain ⟨h1, h2⟩ := hc0P t htP
          unfold alive0 at ha
          rw [h1, h2] at ha
          have horph : orphanedBy [b] t = true := by simpa using ha
          obtain ⟨u, hu, hucb, i, hi, hid⟩ := (orphanedBy_single b t).1 horph
          obtain ⟨o, ho, hown⟩ := dom.cbown t (Or.inl htP) i hi u hu hucb hid
          rw [ownedOut_eq_ownerOf] at hown
          exact hnone u hu (Or.inl ⟨o, List.mem_of_getElem? ho, hown⟩)
        | step _ _ _ _ _ _ _ ih => exact ih
      have hmem : ∀ t, t ∈ settle c0 [b] P ↔ t ∈ P := by
        intro t
        rw [mem_settle _ _ _ hrel.nodup]
        exact ⟨fun hh => hh.1, fun hh => ⟨hh, hnl t⟩⟩
      refine ⟨hrel'.wf, ?_, settle_nodup _ _ _ hrel.nodup⟩
      intro id t
      rw [hmem]
      exact hrel'.ids id t
  · -- where the members come from
    intro t ht
    rw [hOM] at ht
    rcases List.mem_append.1 ((settle_sublist _ _ _).subset ht) with hp | hp
    · exact Or.inl hp
    · obtain ⟨g1, g2, g3, -⟩ := hbackmem t hp
      exact Or.inr ⟨g1, g2, g3⟩

end MW.Lemmas.PendHist

