/-
  C01, last mile (part 3): WalletBalance(minConf, detail) is the spec balance.
-/
import MW.Lemmas.LedgerObs2
namespace MW.Lemmas.Ledger
open MW MW.Model.Ledger MW.Spec.Chain MW.Spec.Books

section
variable {c : Ctx} {s : Store} {chain : List Block}

theorem classSum_eq (H : ObsHyp c s chain) (w : Wid) (mc : Nat) (k : UClass) :
    ((((coinsOf s w).filter (fun x => decide (confs s.syncedTo x.blk.height ≥ mc ∧
          confs s.syncedTo x.blk.height ≥ x.cred.maturity))).filter
        (fun x => decide (x.cred.cls = k))).map (·.cred.amt)).sum =
    ((((coinsOfWallet (ledgerOf c.own chain) w).filter (fun x => decide (chain.length - 1 + 1 - x.height ≥ mc) &&
          spendableAt c.p (chain.length - 1) x && decide (x.amt ≠ 0))).filter
        (fun x => decide (kindOf x = k))).map (·.amt)).sum := by
  obtain ⟨hL, _⟩ := loc_bookOf (p := c.p) H.valid
  have hp := coinsOf_perm_bookM w H.wf H.inv.agree hL
  rw [(((hp.filter _).filter _).map _).sum_nat]
  unfold coinsOfWallet
  rw [← bookOf_L c.p c.own chain]
  simp only [List.filter_map, List.map_map, List.filter_filter]
  refine congrArg List.sum ?_
  have hmap : ((fun x : Coin => x.cred.amt) ∘ coinU c.p) = ((fun x : SCoin => x.amt) ∘ UCoin.toSCoin) := rfl
  rw [hmap]
  refine congrArg _ (List.filter_congr ?_)
  intro u hu
  have hconf := H.confs_eq hu
  have hsp := spendable_iff H hu
  have hk : (coinU c.p u).cred.cls = kindOf u.toSCoin := rfl
  rw [Bool.eq_iff_iff]
  simp only [Function.comp, Bool.and_eq_true, decide_eq_true_eq, listedU]
  rw [hk]
  show kindOf u.toSCoin = k ∧ (confs s.syncedTo u.blk.height ≥ mc ∧
      confs s.syncedTo u.blk.height ≥ (creditOf c.p u).maturity) ∧ u.wallet = w ∧ u.out.amt ≠ 0 ↔
    kindOf u.toSCoin = k ∧ ((chain.length - 1 + 1 - u.blk.height ≥ mc ∧
      spendableAt c.p (chain.length - 1) u.toSCoin = true) ∧ u.out.amt ≠ 0) ∧ u.wallet = w
  rw [hsp, hconf]
  constructor
  · rintro ⟨h1, ⟨h2, h3⟩, h4, h5⟩; exact ⟨h1, ⟨⟨h2, h3⟩, h5⟩, h4⟩
  · rintro ⟨h1, ⟨⟨h2, h3⟩, h5⟩, h4⟩; exact ⟨h1, ⟨h2, h3⟩, h4, h5⟩

/-- 3. the balance the wallet reports is the spec balance: gross total of the unspent outputs the chain
    pays the wallet, and per class the sum of those with enough confirmations that consensus lets
    the next block spend -/
theorem balance_correct (H : ObsHyp c s chain) {w : Wid}
    (hw : (readyWallets s c.wallets).contains w = true) (mc : Nat) :
    walletBalance s w mc = some (Spec.Chain.balance c.p c.own chain w mc) := by
  unfold walletBalance
  rw [H.inv.bal w hw]
  simp only
  unfold Spec.Chain.balance
  simp only
  rw [classSum_eq H w mc .standard, classSum_eq H w mc .staking, classSum_eq H w mc .binding,
    ← total_map_toSCoin, bookOf_L]

end
end MW.Lemmas.Ledger
