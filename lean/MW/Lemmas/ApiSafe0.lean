/- C19: kernel evaluations of the static checker (reflective proofs): closed functions are accepted from
   no assumptions, entry points are accepted with their non-closed callees checked in place -/
import MW.Model.Api
namespace MW.Lemmas.ApiSafe
open MW.Model.Api

set_option maxHeartbeats 100000000 in
theorem closed_CheckReady : ∃ body m, prog Fn.CheckReady = some body ∧ (check prog exports imports closed m [] body).isSome = true :=
  ⟨f_CheckReady, checkFuel, rfl, by decide +kernel⟩

set_option maxHeartbeats 100000000 in
theorem closed_GetStakingHistory : ∃ body m, prog Fn.GetStakingHistory_wallet = some body ∧ (check prog exports imports closed m [] body).isSome = true :=
  ⟨f_GetStakingHistory, checkFuel, rfl, by decide +kernel⟩

set_option maxHeartbeats 100000000 in
theorem closed_StringToAmount : ∃ body m, prog Fn.StringToAmount = some body ∧ (check prog exports imports closed m [] body).isSome = true :=
  ⟨f_StringToAmount, checkFuel, rfl, by decide +kernel⟩

set_option maxHeartbeats 100000000 in
theorem closed_SyncedTo : ∃ body m, prog Fn.SyncedTo = some body ∧ (check prog exports imports closed m [] body).isSome = true :=
  ⟨f_SyncedTo, checkFuel, rfl, by decide +kernel⟩

set_option maxHeartbeats 100000000 in
theorem closed_checkParseAmount : ∃ body m, prog Fn.checkParseAmount = some body ∧ (check prog exports imports closed m [] body).isSome = true :=
  ⟨f_checkParseAmount, checkFuel, rfl, by decide +kernel⟩

set_option maxHeartbeats 100000000 in
theorem closed_checkTxFeeLimit : ∃ body m, prog Fn.checkTxFeeLimit = some body ∧ (check prog exports imports closed m [] body).isSome = true :=
  ⟨f_checkTxFeeLimit, checkFuel, rfl, by decide +kernel⟩

set_option maxHeartbeats 100000000 in
theorem closed_constructStakingTxOut : ∃ body m, prog Fn.constructStakingTxOut = some body ∧ (check prog exports imports closed m [] body).isSome = true :=
  ⟨f_constructStakingTxOut, checkFuel, rfl, by decide +kernel⟩

set_option maxHeartbeats 100000000 in
theorem closed_maybeSubtractFeeFromAmounts : ∃ body m, prog Fn.maybeSubtractFeeFromAmounts = some body ∧ (check prog exports imports closed m [] body).isSome = true :=
  ⟨f_maybeSubtractFeeFromAmounts, checkFuel, rfl, by decide +kernel⟩

set_option maxHeartbeats 100000000 in
theorem closed_parseBindingTarget : ∃ body m, prog Fn.parseBindingTarget = some body ∧ (check prog exports imports closed m [] body).isSome = true :=
  ⟨f_parseBindingTarget, checkFuel, rfl, by decide +kernel⟩

set_option maxHeartbeats 100000000 in
theorem closed_prepareFromAddresses : ∃ body m, prog Fn.prepareFromAddresses = some body ∧ (check prog exports imports closed m [] body).isSome = true :=
  ⟨f_prepareFromAddresses, checkFuel, rfl, by decide +kernel⟩

set_option maxHeartbeats 100000000 in
theorem safe_CreateRawTransaction_api : safe prog exports imports closed checkFuel (.invoke Fn.CreateRawTransaction_tx_service) = true := by decide +kernel

set_option maxHeartbeats 100000000 in
theorem safe_NewNtfnsHandler : safe prog exports imports closed checkFuel (.invoke Fn.NewNtfnsHandler) = true := by decide +kernel

end MW.Lemmas.ApiSafe
