/-
  Concrete keys over the toy instance (MW.Toy) used by the non-vacuity examples and the
  counter-models of MW.Props.C14.  Definitions only.
-/
import MW.Lemmas.Bip32Round
import MW.Model.Bip32Legacy
namespace MW.Bip32Ex
open MW MW.Model.Bip32 MW.Spec.Bip32

def ver : Bytes := [4, 136, 173, 228]
def cc0 : Bytes := List.replicate 32 7

/-- a private model key at depth 1 holding scalar `k` as ser256(k) -/
def mk (k : Nat) : XKey :=
  { key := ser256 k, chainCode := cc0, depth := 1, parentFP := [1, 2, 3, 4], childNum := 5, version := ver, isPrivate := true }
/-- the spec key it represents -/
def xk (k : Nat) : Spec.Bip32.XKey Toy.curve.Pt :=
  { version := ver, depth := 1, parentFP := [1, 2, 3, 4], childNum := 5, chain := cc0, key := .priv k }

theorem rep_mk (k : Nat) (h0 : 0 < k) (hn : k < Toy.n) : Rep Toy.curve (mk k) (xk k) :=
  ⟨rfl, rfl, by show 1 < 256; decide, rfl, rfl, rfl, ⟨rfl, rfl, by show 5 < 2 ^ 32; decide, rfl⟩, rfl, rfl, h0, hn⟩

/-- the private scalar of a model result / of a spec result -/
def scalarOf : Except Bip32Err XKey → Option Nat
  | .ok c => some (BE.ofBytes c.key)
  | .error _ => none
def scalarOfS : Except Bip32Err (Spec.Bip32.XKey Toy.curve.Pt) → Option Nat
  | .ok { key := .priv k, .. } => some k
  | _ => none

def H31 : Nat := 2 ^ 31

/-- two hardened steps with the PRE-REPAIR `Child` -/
def legacyTwo (m : XKey) (i j : Nat) : Except Bip32Err XKey :=
  match Legacy.child Toy.curve Toy.hash m i with
  | .error e => .error e
  | .ok c => Legacy.child Toy.curve Toy.hash c j

/-- the same two steps with the current `Child` -/
def modelTwo (m : XKey) (i j : Nat) : Except Bip32Err XKey :=
  Model.Bip32.deriveFrom Toy.curve Toy.hash m [i, j]

def specTwo (x : Spec.Bip32.XKey Toy.curve.Pt) (i j : Nat) : Except Bip32Err (Spec.Bip32.XKey Toy.curve.Pt) :=
  Spec.Bip32.deriveFrom Toy.curve Toy.hash x [i, j]

end MW.Bip32Ex
