/-
  The symbolic keystore model as an abstraction of the byte level, part 9: OPACITY IS A PROPERTY OF THE BYTES.
  Under the free-algebra assumption at byte level (`Free`: sealing and key derivation are injective, the images of the
  primitives are pairwise disjoint and differ from the public value) two pair-free terms with the same concretisation are
  equally opaque – so "the stored bytes are the concretisation of an opaque term" does not depend on which term reading
  of the bytes one takes.  (Injectivity of the ATOM encoding is not needed: a secret is never opaque, whatever its name.)
-/
import MW.Lemmas.KsRefineSecrecy
import MW.Lemmas.KsRefineToy
import MW.Lemmas.KsRefineOps2
namespace MW.KsRefine
open MW MW.Model.Secrets MW.Model.KsBytes

/-- perfect cryptography at byte level, as far as opacity needs it -/
structure Free (C : BCrypto) (pv : Bytes) : Prop where
  box_inj : ∀ k p k' p', C.box k p = C.box k' p' → k = k' ∧ p = p'
  kdf_inj : ∀ a b a' b', C.kdf a b = C.kdf a' b' → a = a' ∧ b = b'
  atom_salt : ∀ s n, C.atom s ≠ C.salt n
  atom_box : ∀ s k p, C.atom s ≠ C.box k p
  atom_kdf : ∀ s a b, C.atom s ≠ C.kdf a b
  atom_sha : ∀ s x, C.atom s ≠ C.sha x
  atom_pv : ∀ s, C.atom s ≠ pv
  salt_box : ∀ n k p, C.salt n ≠ C.box k p
  salt_kdf : ∀ n a b, C.salt n ≠ C.kdf a b
  box_kdf : ∀ k p a b, C.box k p ≠ C.kdf a b
  box_sha : ∀ k p x, C.box k p ≠ C.sha x
  box_pv : ∀ k p, C.box k p ≠ pv
  kdf_sha : ∀ a b x, C.kdf a b ≠ C.sha x
  kdf_pv : ∀ a b, C.kdf a b ≠ pv

/-- equal bytes, equal opacity (pair-free terms) -/
theorem pubOk_of_bytes_eq (C : BCrypto) (pv : Bytes) (F : Free C pv) :
    ∀ (t u : Term), noPair t = true → noPair u = true → bytesOf C pv t = bytesOf C pv u → pubOk t = pubOk u
  | .secret s, u, _, hu, h => by
    cases u with
    | secret s' => rfl
    | pub _ => exact absurd h (F.atom_pv s)
    | rnd n => exact absurd h (F.atom_salt s n)
    | enc k p => exact absurd h (F.atom_box s _ _)
    | kdf a b => exact absurd h (F.atom_kdf s _ _)
    | hash x => exact absurd h (F.atom_sha s _)
    | pair _ _ => simp [noPair] at hu
  | .pub _, u, _, hu, h => by
    cases u with
    | secret s => exact absurd h.symm (F.atom_pv s)
    | pub _ => rfl
    | rnd n => rfl
    | enc k p => exact absurd h.symm (F.box_pv _ _)
    | kdf a b => exact absurd h.symm (F.kdf_pv _ _)
    | hash x => rfl
    | pair _ _ => simp [noPair] at hu
  | .rnd n, u, _, hu, h => by
    cases u with
    | secret s => exact absurd h.symm (F.atom_salt s n)
    | pub _ => rfl
    | rnd _ => rfl
    | enc k p => exact absurd h (F.salt_box n _ _)
    | kdf a b => exact absurd h (F.salt_kdf n _ _)
    | hash x => rfl
    | pair _ _ => simp [noPair] at hu
  | .enc k p, u, ht, hu, h => by
    cases u with
    | secret s => exact absurd h.symm (F.atom_box s _ _)
    | pub _ => exact absurd h (F.box_pv _ _)
    | rnd n => exact absurd h.symm (F.salt_box n _ _)
    | enc k' p' =>
      simp only [noPair, Bool.and_eq_true] at ht hu
      obtain ⟨h1, h2⟩ := F.box_inj _ _ _ _ h
      simp only [pubOk, pubOk_of_bytes_eq C pv F k k' ht.1 hu.1 h1, pubOk_of_bytes_eq C pv F p p' ht.2 hu.2 h2]
    | kdf a b => exact absurd h (F.box_kdf _ _ _ _)
    | hash x => exact absurd h (F.box_sha _ _ _)
    | pair _ _ => simp [noPair] at hu
  | .kdf a b, u, ht, hu, h => by
    cases u with
    | secret s => exact absurd h.symm (F.atom_kdf s _ _)
    | pub _ => exact absurd h (F.kdf_pv _ _)
    | rnd n => exact absurd h.symm (F.salt_kdf n _ _)
    | enc k p => exact absurd h.symm (F.box_kdf _ _ _ _)
    | kdf a' b' =>
      simp only [noPair, Bool.and_eq_true] at ht hu
      obtain ⟨h1, h2⟩ := F.kdf_inj _ _ _ _ h
      simp only [pubOk, pubOk_of_bytes_eq C pv F a a' ht.1 hu.1 h1, pubOk_of_bytes_eq C pv F b b' ht.2 hu.2 h2]
    | hash x => exact absurd h (F.kdf_sha _ _ _)
    | pair _ _ => simp [noPair] at hu
  | .hash x, u, _, hu, h => by
    cases u with
    | secret s => exact absurd h.symm (F.atom_sha s _)
    | pub _ => rfl
    | rnd n => rfl
    | enc k p => exact absurd h.symm (F.box_sha _ _ _)
    | kdf a b => exact absurd h.symm (F.kdf_sha _ _ _)
    | hash _ => rfl
    | pair _ _ => simp [noPair] at hu
  | .pair _ _, _, ht, _, _ => by simp [noPair] at ht

/-- opacity of a stored box does not depend on the term reading of its bytes: ANY pair-free term whose concretisation is
    the stored byte string of an opaque pair-free term is opaque -/
theorem any_reading_opaque (C : BCrypto) (pv : Bytes) (F : Free C pv) (t u : Term) (ht : noPair t = true) (hu : noPair u = true)
    (hp : pubOk t = true) (h : bytesOf C pv u = bytesOf C pv t) : pubOk u = true :=
  (pubOk_of_bytes_eq C pv F u t hu ht h).trans hp

-- ------------------------------------------------------------------ the exported file

/-- NO_CLEAR_SECRET for the exported keystore at byte level: the three secret-bearing fields of the file the byte-level
    `export` produces in a reachable state are the hex of FRAMES (sealed boxes / the parameter block), hence – under
    independence – contain the encoding of no atomic secret -/
theorem export_fields_framed (C : BCrypto) (L : Laws C) (ρ : PubVal) (ops : List Op) (t : Tree) (w : String) (r : WRec)
    (purpose coin : Nat) (h : Rep C ρ (run {} ops).db t)
    (ta te ti : String) (tEnt tPriv tCent tPub tCpub : Term)
    (hacct : AMap.get (run {} ops).db (w, .account) = some (.pub ta)) (hex : AMap.get (run {} ops).db (w, .exNum) = some (.pub te))
    (hin : AMap.get (run {} ops).db (w, .inNum) = some (.pub ti))
    (hent : AMap.get (run {} ops).db (w, .ent) = some tEnt) (hpriv : AMap.get (run {} ops).db (w, .mpriv) = some tPriv)
    (hcent : AMap.get (run {} ops).db (w, .cent) = some tCent) (hpub : AMap.get (run {} ops).db (w, .mpub) = some tPub)
    (hcpub : AMap.get (run {} ops).db (w, .cpub) = some tCpub)
    (fa : ρ (w, .account) = MW.Model.KsCodec.u32Bytes 1) (fe : ρ (w, .exNum) = MW.Model.KsCodec.u32Bytes r.nExt)
    (fi : ρ (w, .inNum) = MW.Model.KsCodec.u32Bytes r.nInt) (he : r.nExt < 4294967296) (hi : r.nInt < 4294967296) :
    ∃ k f1 f2 f3, exportB t (C.walletId w) purpose coin = .ok k ∧
      k.entropyEnc = MW.Model.KsCodec.hexEnc f1 ∧ k.privParams = MW.Model.KsCodec.hexEnc f2 ∧
      k.cryptoKeyEntropyEnc = MW.Model.KsCodec.hexEnc f3 ∧
      Frame C (ρ (w, .ent)) f1 ∧ Frame C (ρ (w, .mpriv)) f2 ∧ Frame C (ρ (w, .cent)) f3 := by
  obtain ⟨k, hk, e1, e2, e3, _⟩ := export_refines C L ρ (run {} ops) t w r purpose coin h ta te ti tEnt tPriv tCent tPub tCpub
    hacct hex hin hent hpriv hcent hpub hcpub fa fe fi he hi
  have hok := (MW.Lemmas.SecretsInv.run_ok ops MW.Lemmas.SecretsInv.init_ok).1
  have hst := (run_st ops init_st).1
  have g : ∀ (kn : KeyName) (tm : Term), AMap.get (run {} ops).db (w, kn) = some tm →
      Frame C (ρ (w, kn)) (valBytes C ρ (w, kn) (dbGet (run {} ops).db w kn)) := by
    intro kn tm hg
    have hm := MW.Lemmas.SecretsInv.get_mem hg
    simp only [dbGet, hg, Option.getD_some, valBytes]
    exact frame_of C _ tm (hst _ hm) (hok _ hm)
  exact ⟨k, _, _, _, hk, e1, e2, e3, g .ent tEnt hent, g .mpriv tPriv hpriv, g .cent tCent hcent⟩

-- ------------------------------------------------------------------ a toy instance: tagged, self-delimiting encodings

namespace ToyF

/-- self-delimiting pairing: every byte of the first component is preceded by 1, then 0, then the second component -/
def enc2 : Bytes → Bytes → Bytes
  | [], p => 0 :: p
  | x :: k, p => 1 :: x :: enc2 k p

theorem enc2_inj : ∀ (k p k' p' : Bytes), enc2 k p = enc2 k' p' → k = k' ∧ p = p'
  | [], p, [], p', h => by simp [enc2] at h; exact ⟨rfl, h⟩
  | [], p, x :: k', p', h => by simp [enc2] at h
  | x :: k, p, [], p', h => by simp [enc2] at h
  | x :: k, p, x' :: k', p', h => by
    simp only [enc2, List.cons.injEq, true_and] at h
    obtain ⟨hk, hp⟩ := enc2_inj k p k' p' h.2
    exact ⟨by rw [h.1, hk], hp⟩

def toyF : BCrypto where
  atom s := [200, Toy.secTag s]
  salt n := 6 :: List.replicate 31 (UInt8.ofNat (n % 256))
  kdf a b := 4 :: enc2 a b
  sha _ := 5 :: List.replicate 31 0
  box k p := 3 :: enc2 k p
  N := 16
  R := 8
  P := 1
  walletId := Toy.encName
  nameOf b := if Toy.encName (Toy.decName b) = b then some (Toy.decName b) else none

theorem toyF_laws : Laws toyF where
  salt_len n := by simp [toyF]
  sha_len x := by simp [toyF]
  cost := by decide
  box_ne k p := by simp [toyF]
  id_ne w := by simp [toyF, Toy.encName]
  name_id w := by simp [toyF, Toy.decName_enc]
  id_name b w h := by
    simp only [toyF] at h ⊢
    split at h
    · rename_i he; cases h; exact he
    · cases h

/-- the free-algebra assumption holds for the tagged toy primitives and every public value that starts with the byte 9 -/
theorem toyF_free (pv : Bytes) (hpv : pv.head? = some 9) : Free toyF pv where
  box_inj k p k' p' h := by simp only [toyF, List.cons.injEq, true_and] at h; exact enc2_inj k p k' p' h
  kdf_inj a b a' b' h := by simp only [toyF, List.cons.injEq, true_and] at h; exact enc2_inj a b a' b' h
  atom_salt s n := by simp [toyF]
  atom_box s k p := by simp [toyF]
  atom_kdf s a b := by simp [toyF]
  atom_sha s x := by simp [toyF]
  atom_pv s := by intro h; rw [← h] at hpv; simp [toyF] at hpv
  salt_box n k p := by simp [toyF]
  salt_kdf n a b := by simp [toyF]
  box_kdf k p a b := by simp [toyF]
  box_sha k p x := by simp [toyF]
  box_pv k p := by intro h; rw [← h] at hpv; simp [toyF] at hpv
  kdf_sha a b x := by simp [toyF]
  kdf_pv a b := by intro h; rw [← h] at hpv; simp [toyF] at hpv

end ToyF
end MW.KsRefine
