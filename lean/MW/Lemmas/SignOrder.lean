/-
  The ORDER of the passphrase check and the input resolution in signWitnessTx (MW.Model.Sign.signLoop: per input
  resolve, then sign; the passphrase is checked by the first signature).  With a wrong passphrase the call fails in its
  FIRST iteration whenever input 0 needs a signature, so the error class is decided by input 0 alone: an input that does
  not resolve (unknown / foreign / spent / bad index) in front wins over the passphrase error, behind it is never looked at.
  (C03 thorough tier, seed 1: the question came up on a transaction with a wrong passphrase and an unresolvable third input.)
-/
import MW.Lemmas.Sign
namespace MW.Lemmas.SignOrder
open MW.Model.Sign MW.Lemmas.Sign

variable {C : Crypto} {A : Type}

/-- what a wrong passphrase is answered, read off input 0 -/
def wrongErr (env : Env C A) (inp : TxIn (Witness C)) : Err :=
  match env.resolve inp.prev with
  | .error e => e
  | .ok po =>
    if po.cls = .other then .script
    else match env.pubOf po.addr with
      | none => .key
      | some _ => .pass

theorem signOne_wrong_class {E : Engine C A} {env : Env C A} {pass : C.Pass} (hp : env.params = C.params pass)
    {L : Lock C} (hL : LockCons pass L) {p : C.Pass} (hne : p ≠ pass) (stx : STx) (i : Nat) (fl : Flag) (po : PrevOut A) :
    signOne E env L p stx i fl po =
      .error (if po.cls = .other then .script else match env.pubOf po.addr with | none => .key | some _ => .pass) := by
  have hc : checkPassword env L p = false := by
    cases h : checkPassword env L p with
    | false => rfl
    | true => exact absurd ((checkPassword_iff hp hL p).mp h) hne
  unfold signOne
  by_cases hcls : po.cls = .other
  · simp [hcls]
  · cases hpk : env.pubOf po.addr with
    | none => simp [hcls]
    | some pk => simp [hcls, hc]

theorem signTx_wrong_class {E : Engine C A} {env : Env C A} {pass : C.Pass} (hp : env.params = C.params pass)
    {L : Lock C} (hL : LockCons pass L) {p : C.Pass} (hne : p ≠ pass) {fl : Flag} {tx : Tx (Witness C)}
    {inp : TxIn (Witness C)} {rest : List (TxIn (Witness C))} (hi : tx.ins = inp :: rest)
    (hs : fl.base = .single → 0 < tx.outs.length) :
    (signTx E env L p fl tx).2 = .error (wrongErr env inp) := by
  unfold signTx wrongErr
  dsimp only
  rw [hi]
  unfold signLoop
  cases hr : env.resolve inp.prev with
  | error e => simp
  | ok po =>
    have hno : ¬ (fl.base = .single ∧ ¬ 0 < tx.outs.length) := fun h => h.2 (hs h.1)
    simp only [hno, if_false, signOne_wrong_class (E := E) hp hL hne tx.strip 0 fl po]

end MW.Lemmas.SignOrder
