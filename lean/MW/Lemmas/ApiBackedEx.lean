/-
  C19, non-vacuity of `Backed`: a concrete oracle that answers every class-(a) callee by running the Lean
  models on concrete, non-trivial inputs:
    ParsePkScript   the C16 model on a witness-script-hash script (success branch)
    ExistsTx        the ledger model on the store reached by the worked history of MW.Lemmas.LedgerHistoryEx
                    (G – b1 – b2, reorganised to G – b1 – c2; wallet "w1"), outpoint (c1, vout): SUCCEEDS for
                    vout = 0 (the coinbase of b1 pays the wallet's address a1) with one output
    ExistUnminedTx  the (empty) pending table of that store
    Split / String  Dec.splitDot "1.5", Dec.render (5 + 10^8)
    keystore        the empty keystore manager over Nat keys (error branches)
-/
import MW.Lemmas.ApiBacked
import MW.Lemmas.LedgerHistoryEx
namespace MW.Lemmas.ApiBacked
open MW MW.Model.Api MW.Lemmas.ApiContracts MW.Model.Ledger MW.Model.ApiLedger MW.Spec.Books MW.Lemmas.Ledger
open MW.Model.Keystore (Scheme KS Mgr ksNextAddresses findMgr)

def exChain : List Block := [hxG, hxB1, hxC2]
def exCtx : Ctx := hxEnv.ctx exChain
def exStore : Store := (runW hxEnv hxW0 hxEvs).s

theorem exInv : Inv exCtx exStore exChain := by
  have h := ledger_correct hxEnv hxG hxW0 hxEvs hxRunHyp
    ((inv_ctx_irrel (c := obCtx) (c' := hxEnv.ctx [hxG]) rfl rfl rfl).1 obInv0) rfl rfl hxQueue
  rw [hxChain] at h
  exact h.1

theorem exValid : ChainValid exCtx.own exChain := by show ChainValid exOwn _; decide

theorem exIds : TxIdsAgree exChain exCtx.node := by
  unfold TxIdsAgree
  decide

/-- encoded lengths for the worked example (any function does: the wallet is level with the node) -/
def exLen : Tx → Nat := fun t => 60 + 40 * t.outs.length

/-- on the worked store ExistsTx finds the coinbase of b1 through its credit (c1, 0) … -/
theorem exExists0 : existsTx exLen exStore exCtx.node "w1" "c1" 0 =
    some (⟨"c1", true, [⟨"", 0, 0⟩], [⟨"a1", 50, .std⟩]⟩, ⟨1, "b1"⟩) := by decide +kernel

/-- … and nothing for an index the transaction does not have -/
theorem exExists1 : existsTx exLen exStore exCtx.node "w1" "c1" 1 = none := by decide +kernel

def natScheme : Scheme Nat Nat Nat := ⟨fun _ _ _ => 0, fun k i => k + i, fun k i => k + i, id, fun _ => "", id⟩

def backedOracle : Oracle := fun f σ =>
  if f = "utils.ParsePkScript" then parseAnswer (0 :: 0x20 :: List.replicate 32 0xab)
  else if f = "w.txStore.ExistsTx" then existsTxAnswer E.notFound (existsTx exLen exStore exCtx.node "w1" "c1" (σ (V "vout")))
  else if f = "w.txStore.ExistUnminedTx" then existUnminedAnswer E.notFound (AMap.get exStore.pending "c1")
  else if f = "strings.Split(s, \".\")" then [(Dec.splitDot [0x31, 0x2e, 0x35]).length]
  else if f = "u.String" then [(Dec.render (5 + MW.Model.Amount.perMass)).length]
  else if f = "w.ksmgr.NextAddresses" then nextAddressesAnswer (ksNextAddresses natScheme ({} : KS Nat Nat Nat) (fun _ => false) false 1 20)
  else if f = "ks.Address(from)" ∨ f = "acctM.Address" then lookupAnswer (AMap.get ({} : Mgr Nat Nat).addrs 0)
  else if f = "w.ksmgr.GetAddrManager" then lookupAnswer (findMgr ({} : KS Nat Nat Nat) 0)
  else if f = "w.ksmgr.GetAddrManagerByAccountID" then lookupAnswer (AMap.get ({} : KS Nat Nat Nat).mgrs "w1")
  else if f = "w.ksmgr.GetManagedAddressByScriptHashInCurrent" then lookupAnswer (addrInCurrent ({} : KS Nat Nat Nat) 0)
  else []

theorem backedOracle_backed : Backed backedOracle where
  script := fun _ => ⟨0 :: 0x20 :: List.replicate 32 0xab, by simp [backedOracle]⟩
  ledger := ⟨fun σ => ⟨exCtx, exStore, exChain, "w1", "c1", exLen, exInv, exValid, exIds, by simp [backedOracle]⟩,
    fun _ => ⟨exStore, "c1", by simp [backedOracle]⟩⟩
  amount := ⟨fun _ => ⟨[0x31, 0x2e, 0x35], by simp [backedOracle]⟩, fun _ => ⟨5, by simp [backedOracle]⟩⟩
  keystore := {
    next := fun _ => ⟨Nat, Nat, Nat, inferInstance, natScheme, {}, fun _ => false, 20, by simp [backedOracle]⟩
    address := fun f hf _ => by
      refine ⟨Nat, Nat, inferInstance, {}, 0, ?_⟩
      rcases hf with rfl | rfl <;> simp [backedOracle]
    mgrOf := fun _ => ⟨Nat, Nat, Nat, inferInstance, {}, 0, by simp [backedOracle]⟩
    mgrById := fun _ => ⟨Nat, Nat, Nat, {}, "w1", by simp [backedOracle]⟩
    inCurrent := fun _ => ⟨Nat, Nat, Nat, inferInstance, {}, 0, by simp [backedOracle]⟩ }

/-- the ledger-backed answer is not trivial: with vout = 0 ExistsTx succeeds and reports one output -/
theorem backedOracle_existsTx (σ : State) (h : σ (V "vout") = 0) :
    backedOracle "w.txStore.ExistsTx" σ = [1, 1, 0, 0, 1] := by
  simp [backedOracle, h, exExists0, existsTxAnswer]

end MW.Lemmas.ApiBacked
